/-
Model of pybrops/core/util/pareto.py:is_pareto_efficient, pybrops/opt/algo/pymoo_addon.py:dominates
and the three distance-to-preference-vector transformations
(core/util/trans.py:trans_ndpt_pseudo_dist, breed/prot/sel/prob/trans.py:trans_ndpt_to_vec_dist,
 breed/prot/sel/transfn.py:trans_ndpt_to_vec_dist).  Core Lean only; executed at `Rat`.
-/
import PybropsModel.Np

namespace Pareto

section filter
variable {α : Type} [Mul α] [LT α] [DecidableLT α]

/-- `fmat * wt.flatten()[None,:]` on one row -/
def applyWt (wt row : List α) : List α := List.zipWith (· * ·) row wt

/-- negation of `numpy.any(r > p)`: `r ≤ p` in every coordinate (r is removed when p is the pivot) -/
def weakDom (r p : List α) : Bool := (List.zip r p).all (fun ab => !(decide (ab.2 < ab.1)))

/-- one iteration of the `while` body.  State = (rows still alive with their original index, pt_ix):
    ndpt_mask = any(fmat > fmat[pt_ix], axis=1); ndpt_mask[pt_ix] = True;
    fmat = fmat[ndpt_mask]; pt_ix = sum(ndpt_mask[:pt_ix]) + 1 -/
def step (l : List (Nat × List α)) (pt : Nat) : List (Nat × List α) × Nat :=
  match l[pt]? with
  | none => (l, pt)
  | some piv =>
    let mask := l.zipIdx.map (fun ri => ri.2 == pt || !weakDom ri.1.2 piv.2)
    (Np.compress mask l, (mask.take pt).count true + 1)

/-- the `while pt_ix < len(fmat)` loop; `fuel` bounds the number of iterations
    (`filter_loop_fuel_enough` in Props/C19 shows that `npt` iterations always suffice) -/
def loop : Nat → List (Nat × List α) → Nat → List (Nat × List α)
  | 0, l, _ => l
  | fuel+1, l, pt =>
    if pt < l.length then
      let s := step l pt
      loop fuel s.1 s.2
    else l

/-- index form (`return_mask=False`) -/
def efficientIdx (fmat : List (List α)) (wt : List α) : List Nat :=
  let rows := (fmat.map (applyWt wt)).zipIdx.map (fun ri => (ri.2, ri.1))
  (loop rows.length rows 0).map Prod.fst

/-- mask form (`return_mask=True`) -/
def efficientMask (fmat : List (List α)) (wt : List α) : List Bool :=
  let idx := efficientIdx fmat wt
  (List.range fmat.length).map (fun i => idx.contains i)

/-- two-list form used in the proofs: `done` = rows before the pivot index, head of the second
    list = pivot row -/
def paretoGo {P : Type} (wd : P → P → Bool) (done : List P) : List P → List P
  | [] => done
  | p :: rest => paretoGo wd (done.filter (fun r => !wd r p) ++ [p]) (rest.filter (fun r => !wd r p))
termination_by l => l.length
decreasing_by
  simp only [List.length_cons, List.length_unattach]
  exact Nat.lt_succ_of_le (Nat.le_trans (List.length_filter_le _ _) (by simp))

/-- the O(n²) textbook definition used as Spec oracle:
    `i` is efficient iff no `j` weakly dominates it, except equal-valued points with a larger index -/
def strictDom (a b : List α) : Bool :=
  weakDom b a && (List.zip a b).any (fun ab => decide (ab.2 < ab.1))

end filter

section dominates
variable {α : Type} [LT α] [LE α] [DecidableLT α] [DecidableLE α] [OfNat α 0]

/-- pymoo_addon.dominates (minimising objectives, feasibility first) -/
def dominates (obj1 : List α) (cv1 : α) (obj2 : List α) (cv2 : α) : Bool :=
  if cv1 ≤ 0 ∧ cv2 ≤ 0 then
    (List.zip obj1 obj2).all (fun ab => decide (ab.1 ≤ ab.2)) &&
    (List.zip obj1 obj2).any (fun ab => decide (ab.1 < ab.2))
  else decide (cv1 < cv2)

end dominates

section dist
variable {α : Type} [Add α] [Sub α] [Mul α] [Div α] [OfNat α 0] [OfNat α 1] [LT α] [DecidableLT α]
  [BEq α]

def colMin (col : List α) : α := col.tail.foldl (fun m x => if x < m then x else m) (col.headD 0)
def colMax (col : List α) : α := col.tail.foldl (fun m x => if m < x then x else m) (col.headD 0)

/-- min–max scaling of every column; `guarded = true` is core/util/trans.py (constant column ↦ 0),
    `guarded = false` is the two selection-protocol versions (constant column ↦ 0·inf = NaN ⇒ `none`) -/
def scaleCols (guarded : Bool) (mat : List (List α)) : Option (List (List α)) :=
  let cols := Np.transpose mat
  let shifted := cols.map (fun c => let m := colMin c; c.map (· - m))
  let scaled := shifted.map (fun c =>
    let mx := colMax c
    if mx == 0 then (if guarded then some (c.map (fun _ => (0:α))) else none)
    else some (c.map (fun x => ((1:α) / mx) * x)))
  if scaled.all Option.isSome then some (Np.transpose (scaled.filterMap id)) else none

/-- squared distance of one scaled point `p` to the line spanned by `l` -/
def distSq (l p : List α) : α :=
  let s := ((1:α) / Np.dot l l) * Np.dot p l
  let diff := List.zipWith (fun x y => x - s * y) p l
  Np.dot diff diff

/-- squared version of the three transformation functions.
    `sign` multiplies the points first, `line` is the vector projected on.  `none` = NaN output. -/
def transDistSq (guarded : Bool) (mat : List (List α)) (sign line : List α) : Option (List α) :=
  if Np.dot line line == 0 then none else
  match scaleCols guarded (mat.map (fun r => List.zipWith (· * ·) r sign)) with
  | none => none
  | some m => some (m.map (distSq line))

end dist
section geo
variable {α : Type} [Add α] [Sub α] [Mul α] [Div α] [OfNat α 0] [OfNat α 1] [LT α] [DecidableLT α]
  [BEq α]

/-! ### geometric definition of the distance transformation (Spec oracle)

Written independently of `scaleCols` / `distSq`: row by row, no transposition, the scaled value is
`(x - lo) / (hi - lo)` with `lo`, `hi` the minimum / maximum of the point's objective over the whole
front (`0` for a constant objective), the distance is the norm of `q - ((q·L)/(L·L)) L`.
`Props/C19.dist_eq_geometric_def` proves it equal to the transcription of the code. -/

/-- objective `j` of all points (`P[:, j]`) -/
def colOf (P : List (List α)) (j : Nat) : List α := P.filterMap (fun r => r[j]?)

/-- min–max scaled value of `x` within its objective column -/
def geoScaleEntry (col : List α) (x : α) : α :=
  let lo := colMin col
  let hi := colMax col
  if hi == lo then 0 else (x - lo) / (hi - lo)

/-- one point of the front scaled to the unit cube -/
def geoScaleRow (P : List (List α)) (row : List α) : List α :=
  row.zipIdx.map (fun xj => geoScaleEntry (colOf P xj.2) xj.1)

/-- squared norm of `q - ((q·L)/(L·L)) L` -/
def geoDistSq (line q : List α) : α :=
  let t := Np.dot q line / Np.dot line line
  Np.sum (List.zipWith (fun a b => (a - t * b) * (a - t * b)) q line)

/-- squared distances of all points of the signed front to the preference line -/
def geoDist (mat : List (List α)) (sign line : List α) : List α :=
  let P := mat.map (fun r => List.zipWith (· * ·) r sign)
  P.map (fun r => geoDistSq line (geoScaleRow P r))

def absv (x : α) : α := if x < 0 then 0 - x else x

/-- the harness' tolerance rule (`canon.close`): equal, or `|a-b| ≤ abs_`, or `|a-b| ≤ rel·max(|a|,|b|)` -/
def closeTol (rel abs_ a b : α) : Bool :=
  a == b ||
    (let d := absv (a - b)
     let m := if absv a < absv b then absv b else absv a
     !(decide (abs_ < d)) || !(decide (rel * m < d)))

/-- Spec of the third sentence of C19 on claimed squared distances `d2` (`none` = NaN / inf):
    every distance finite, one per point, each equal (within tolerance) to the geometric definition -/
def specDist (rel abs_ : α) (mat : List (List α)) (sign line : List α) (d2 : List (Option α)) : Bool :=
  let want := geoDist mat sign line
  d2.all Option.isSome && d2.length == want.length &&
    (List.zip d2 want).all (fun p => match p.1 with
      | some x => closeTol rel abs_ x p.2
      | none => false)

end geo

/-! ### Spec oracles of the filter and of the dominance predicate (evaluated by the driver on the
implementation's outputs; `Props/C19.lean` ties each to the Prop it decides: `spec_mask_iff`,
`spec_mask_sound`, `spec_idx_iff`, `spec_idx_sound`, `spec_dominates_iff`, `spec_dominates_sound`) -/
section specs
variable {α : Type} [Mul α] [LT α] [DecidableLT α]

/-- sentence 1 of C19 on weighted rows and a claimed mask, index-free (cost `n · #marked`):
    sound    — no row is at least as good everywhere and strictly better somewhere than a marked row;
    complete — every unmarked row is equalled or dominated by a marked row -/
def specRowsSound (rows : List (List α)) (mask : List Bool) : Bool :=
  (Np.compress mask rows).all (fun e => rows.all (fun r => !strictDom r e))

def specRowsComplete (rows : List (List α)) (mask : List Bool) : Bool :=
  (Np.compress (mask.map not) rows).all (fun r => (Np.compress mask rows).any (fun e => weakDom r e))

def specMask (fmat : List (List α)) (wt : List α) (mask : List Bool) : Bool :=
  let rows := fmat.map (applyWt wt)
  mask.length == rows.length && specRowsSound rows mask && specRowsComplete rows mask

/-- no repeated index -/
def nodupB : List Nat → Bool
  | [] => true
  | a :: l => !l.contains a && nodupB l

/-- mask and index forms describe the same set of points: every index valid, none repeated,
    `mask[i]` true exactly for the listed indices -/
def specIdx (n : Nat) (mask : List Bool) (idx : List Nat) : Bool :=
  mask.length == n && idx.all (fun i => decide (i < n)) && nodupB idx &&
    (mask.zipIdx.all (fun bi => bi.1 == idx.contains bi.2))

end specs

section specdom
variable {α : Type} [LT α] [DecidableLT α] [OfNat α 0]

/-- sentence 2 of C19 as a four-way case split written independently of the code: both feasible
    (`cv ≤ 0`, i.e. not `0 < cv`) → Pareto dominance of the minimised objectives; feasible against
    infeasible → dominates; infeasible against feasible → does not; both infeasible → smaller violation -/
def wantDominates (o1 : List α) (c1 : α) (o2 : List α) (c2 : α) : Bool :=
  match decide ((0:α) < c1), decide ((0:α) < c2) with
  | false, false => strictDom o2 o1
  | false, true => true
  | true, false => false
  | true, true => decide (c1 < c2)

def specDominates (o1 : List α) (c1 : α) (o2 : List α) (c2 : α) (claimed : Bool) : Bool :=
  claimed == wantDominates o1 c1 o2 c2

end specdom

/-! ### the three copies of the distance transformation, statement by statement

`transDistSq` above is the common model; the three definitions below follow the three source
functions line by line (argument order, the mask juggling of the zero-range guard, the order of the
multiplications in the projection).  `Props/C19.dist_three_copies_agree` proves them equal to each
other and to `transDistSq true`. -/
section copies
variable {α : Type} [Add α] [Sub α] [Mul α] [Div α] [OfNat α 0] [OfNat α 1] [LT α] [DecidableLT α]
  [BEq α]

/-- the scaling block shared by the three functions:
    `mat = mat - mat.min(0); maximum = mat.max(0); mask = (maximum == 0.0); maximum[mask] = 1.0;
     scale = 1.0 / maximum; scale[mask] = 0.0; mat = scale * mat` -/
def scaleColsLit (mat : List (List α)) : List (List α) :=
  let cols := Np.transpose mat
  let minimum := cols.map colMin
  let shifted := List.zipWith (fun c m => c.map (fun x => x - m)) cols minimum
  let maximum := shifted.map colMax
  let mask := maximum.map (fun mx => mx == 0)
  let maximum1 := List.zipWith (fun mx (b : Bool) => if b then (1:α) else mx) maximum mask
  let scale0 := maximum1.map (fun mx => (1:α) / mx)
  let scale := List.zipWith (fun s (b : Bool) => if b then (0:α) else s) scale0 mask
  Np.transpose (List.zipWith (fun c s => c.map (fun x => s * x)) shifted scale)

/-- core/util/trans.py: `LdotLinv = 1/L.dot(L); PdotL = P.dot(L); scale = LdotLinv * PdotL;
    projL_P = scale[:,None] * L; oprojL_P = P - projL_P; norm(oprojL_P)` (squared) -/
def residCore (l p : List α) : α :=
  let ldotlinv := (1:α) / Np.dot l l
  let pdotl := Np.dot p l
  let scale := ldotlinv * pdotl
  let projlp := l.map (fun y => scale * y)
  let oproj := List.zipWith (fun x y => x - y) p projlp
  Np.dot oproj oproj

/-- sel/prob/trans.py and sel/transfn.py: `vdvinv = 1/v.dot(v); scale = mat.dot(v) * vdvinv;
    P = outer(scale, v); diff = mat - P; norm(diff)` (squared) -/
def residOuter (v p : List α) : α :=
  let vdvinv := (1:α) / Np.dot v v
  let scale := Np.dot p v * vdvinv
  let pp := v.map (fun y => scale * y)
  let diff := List.zipWith (fun x y => x - y) p pp
  Np.dot diff diff

/-! #### the transcriptions BEFORE the repair of D190 (c276d45e): `1/(L·L)` formed on the vector as given.  Equal to
the repaired ones in exact arithmetic (`Props/C19.dist_repair_D190_exact`), wrong / non-finite in binary64 when `L·L`
over- or underflows (`Props/C19.dist_extreme_preference_float_prerepair_counterexample`). -/

def transDistCorePrerepair (ndptmat : List (List α)) (minmax pw : List α) : Option (List α) :=
  if pw.any (fun x => decide (x < 0)) then none else
  if !(pw.any (fun x => decide (0 < x))) then none else
  if !(decide (0 < Np.dot pw pw)) then none else
  let m := scaleColsLit (ndptmat.map (fun r => List.zipWith (· * ·) r minmax))
  some (m.map (residCore pw))

def transDistProbPrerepair (mat : List (List α)) (obj_wt vec_wt : List α) : Option (List α) :=
  if Np.dot obj_wt obj_wt == 0 then none else
  let m := scaleColsLit (mat.map (fun r => List.zipWith (· * ·) r vec_wt))
  some (m.map (residOuter obj_wt))

def transDistFnPrerepair (mat : List (List α)) (objfn_wt wt : List α) : Option (List α) :=
  if Np.dot objfn_wt objfn_wt == 0 then none else
  let m := scaleColsLit (mat.map (fun r => List.zipWith (· * ·) r wt))
  some (m.map (residOuter objfn_wt))

/-! #### the three functions as they are now (since c276d45e): the preference vector is divided by its largest
entry / magnitude first, so that `v·v` lies in `[1, nobj]` -/

/-- `v / numpy.abs(v).max()` (sel/prob/trans.py, sel/transfn.py); `0/0 = NaN` for the zero vector: every entry `0`
    here (`x / 0 = 0` at `Rat`), which the callers below turn into `none` -/
def normLine (line : List α) : List α :=
  let m := colMax (line.map absv)
  line.map (fun y => y / m)

/-- `v / v.max()` (core/util/trans.py, after the two sign `assert`s) -/
def normLineMax (line : List α) : List α :=
  let m := colMax line
  line.map (fun y => y / m)

/-- `trans_ndpt_pseudo_dist(ndptmat, objfn_minmax, objfn_pseudoweight)`: two `assert`s on the vector as given
    (no negative entry, a positive one), normalisation, third `assert` (`L·L > 0`) on the normalised vector -/
def transDistCore (ndptmat : List (List α)) (minmax pw : List α) : Option (List α) :=
  if pw.any (fun x => decide (x < 0)) then none else
  if !(pw.any (fun x => decide (0 < x))) then none else
  let pw := normLineMax pw
  if !(decide (0 < Np.dot pw pw)) then none else
  let m := scaleColsLit (ndptmat.map (fun r => List.zipWith (· * ·) r minmax))
  some (m.map (residCore pw))

/-- `sel/prob/trans.py:trans_ndpt_to_vec_dist(mat, obj_wt, vec_wt)` — `vec_wt` multiplies the front,
    `obj_wt` (normalised first) is the vector projected on; NaN ⇒ `none` for a zero vector -/
def transDistProb (mat : List (List α)) (obj_wt vec_wt : List α) : Option (List α) :=
  let obj_wt := normLine obj_wt
  if Np.dot obj_wt obj_wt == 0 then none else
  let m := scaleColsLit (mat.map (fun r => List.zipWith (· * ·) r vec_wt))
  some (m.map (residOuter obj_wt))

/-- `sel/transfn.py:trans_ndpt_to_vec_dist(mat, objfn_wt, wt)` — `wt` multiplies the front,
    `objfn_wt` (normalised first) is the vector projected on -/
def transDistFn (mat : List (List α)) (objfn_wt wt : List α) : Option (List α) :=
  let objfn_wt := normLine objfn_wt
  if Np.dot objfn_wt objfn_wt == 0 then none else
  let m := scaleColsLit (mat.map (fun r => List.zipWith (· * ·) r wt))
  some (m.map (residOuter objfn_wt))

/-! the other transformation functions of the three modules that reduce a front (or a latent
    vector) to ranking scores -/

/-- `sel/transfn.py:trans_dot(mat, wt) = mat.dot(wt)` (weighted-sum method, one score per point) -/
def transDot (mat : List (List α)) (wt : List α) : List α := mat.map (fun r => Np.dot r wt)

/-- `sel/transfn.py:trans_sum(mat, axis)`: `axis=1` (per point), `axis=0` (per objective), `axis=None` -/
def transSumAxis1 (mat : List (List α)) : List α := mat.map Np.sum
def transSumAxis0 (mat : List (List α)) : List α := (Np.transpose mat).map Np.sum
def transSumAll (mat : List (List α)) : α := Np.sum (mat.map Np.sum)

/-- `sel/prob/trans.py:trans_sum(decnvec, latentvec) = latentvec.sum(0, keepdims=True)` -/
def latentSum (latentvec : List α) : List α := [Np.sum latentvec]

/-- `sel/prob/trans.py:trans_dot(decnvec, latentvec, latentvec_wt) = (latentvec_wt * latentvec).sum(0, keepdims=True)` -/
def latentDot (latentvec latentvec_wt : List α) : List α :=
  [Np.sum (List.zipWith (· * ·) latentvec_wt latentvec)]

end copies

/-! ### a linear-time evaluation of the geometric definition (what the driver runs on large fronts);
`Props/C19.geo_dist_fast_eq` proves it equal to `geoDist` on every input -/
section fast
variable {α : Type} [Add α] [Sub α] [Mul α] [Div α] [OfNat α 0] [OfNat α 1] [LT α] [DecidableLT α]
  [BEq α]

def maxLen : List (List α) → Nat
  | [] => 0
  | r :: P => max r.length (maxLen P)

/-- `(lo, hi)` of every objective, computed once -/
def colStats (P : List (List α)) : List (α × α) :=
  (List.range (maxLen P)).map (fun j => (colMin (colOf P j), colMax (colOf P j)))

def geoScaleRowFast (st : List (α × α)) (row : List α) : List α :=
  List.zipWith (fun x (lh : α × α) => if lh.2 == lh.1 then (0:α) else (x - lh.1) / (lh.2 - lh.1)) row st

def geoDistFast (mat : List (List α)) (sign line : List α) : List α :=
  let P := mat.map (fun r => List.zipWith (· * ·) r sign)
  let st := colStats P
  P.map (fun r => geoDistSq line (geoScaleRowFast st r))

def specDistFast (rel abs_ : α) (mat : List (List α)) (sign line : List α) (d2 : List (Option α)) : Bool :=
  let want := geoDistFast mat sign line
  d2.all Option.isSome && d2.length == want.length &&
    (List.zip d2 want).all (fun p => match p.1 with
      | some x => closeTol rel abs_ x p.2
      | none => false)

end fast

/-! ### relational Spec oracles (round 4): "the set of efficient objective vectors is unaffected by the order
of points", "invariant to translation of the front", "the three copies agree" — evaluated by the driver on the
implementation's outputs of the two runs; `Props/C19.spec_same_vectors_iff`, `spec_same_vectors_sound`,
`spec_close_all_iff`, `spec_close_all_refl` -/
section relspecs
variable {α : Type} [DecidableEq α]

/-- the two masks mark the same SET of (already weighted) objective vectors -/
def specSameVectors (rows rows' : List (List α)) (mask mask' : List Bool) : Bool :=
  let e := Np.compress mask rows
  let e' := Np.compress mask' rows'
  e.all (fun v => decide (v ∈ e')) && e'.all (fun v => decide (v ∈ e))

end relspecs

section relclose
variable {α : Type} [Add α] [Sub α] [Mul α] [OfNat α 0] [LT α] [DecidableLT α] [BEq α]

/-- two claimed result vectors (`none` = NaN / inf) have the same length, are finite and agree entry by entry
    within the tolerance rule `closeTol` -/
def specCloseAll (rel abs_ : α) (d d' : List (Option α)) : Bool :=
  d.length == d'.length &&
    (List.zip d d').all (fun p => match p.1, p.2 with
      | some x, some y => closeTol rel abs_ x y
      | _, _ => false)

end relclose

/-! ### a rewriting of `dominates` that is equivalent over an ordered field and NOT in binary64 (the class of the
seeded change C19-d2): "once nowhere worse, better somewhere exactly when the total is smaller".
`Props/C19.dominates_sum_form_exact` / `dominates_sum_form_float_counterexample` -/
section sumform
variable {α : Type} [Add α] [LT α] [LE α] [DecidableLT α] [DecidableLE α] [OfNat α 0]

def dominatesSumForm (obj1 : List α) (cv1 : α) (obj2 : List α) (cv2 : α) : Bool :=
  if cv1 ≤ 0 ∧ cv2 ≤ 0 then
    (List.zip obj1 obj2).all (fun ab => decide (ab.1 ≤ ab.2)) && decide (Np.sum obj1 < Np.sum obj2)
  else decide (cv1 < cv2)

end sumform

/-! ### the instances the driver executes: the definitions above at core `Rat`

`Drv/C19.lean` calls these constants; `Props/C19.lean` (section `Q`) shows that the theorems proved
over an arbitrary ordered field apply to them. -/
namespace Q
def applyWt (wt row : List Rat) : List Rat := Pareto.applyWt wt row
def weakDom (r p : List Rat) : Bool := Pareto.weakDom r p
def strictDom (a b : List Rat) : Bool := Pareto.strictDom a b
def efficientIdx (fmat : List (List Rat)) (wt : List Rat) : List Nat := Pareto.efficientIdx fmat wt
def efficientMask (fmat : List (List Rat)) (wt : List Rat) : List Bool := Pareto.efficientMask fmat wt
def dominates (o1 : List Rat) (c1 : Rat) (o2 : List Rat) (c2 : Rat) : Bool := Pareto.dominates o1 c1 o2 c2
def transDistSq (guarded : Bool) (mat : List (List Rat)) (sign line : List Rat) : Option (List Rat) :=
  Pareto.transDistSq guarded mat sign line
def geoDist (mat : List (List Rat)) (sign line : List Rat) : List Rat := Pareto.geoDist mat sign line
def specDist (rel abs_ : Rat) (mat : List (List Rat)) (sign line : List Rat) (d2 : List (Option Rat)) : Bool :=
  Pareto.specDist rel abs_ mat sign line d2
def specMask (fmat : List (List Rat)) (wt : List Rat) (mask : List Bool) : Bool := Pareto.specMask fmat wt mask
def specRowsSound (rows : List (List Rat)) (mask : List Bool) : Bool := Pareto.specRowsSound rows mask
def specRowsComplete (rows : List (List Rat)) (mask : List Bool) : Bool := Pareto.specRowsComplete rows mask
def wantDominates (o1 : List Rat) (c1 : Rat) (o2 : List Rat) (c2 : Rat) : Bool := Pareto.wantDominates o1 c1 o2 c2
def specDominates (o1 : List Rat) (c1 : Rat) (o2 : List Rat) (c2 : Rat) (claimed : Bool) : Bool :=
  Pareto.specDominates o1 c1 o2 c2 claimed
def transDistCore (mat : List (List Rat)) (minmax pw : List Rat) : Option (List Rat) := Pareto.transDistCore mat minmax pw
def transDistProb (mat : List (List Rat)) (obj_wt vec_wt : List Rat) : Option (List Rat) := Pareto.transDistProb mat obj_wt vec_wt
def transDistFn (mat : List (List Rat)) (objfn_wt wt : List Rat) : Option (List Rat) := Pareto.transDistFn mat objfn_wt wt
def geoDistFast (mat : List (List Rat)) (sign line : List Rat) : List Rat := Pareto.geoDistFast mat sign line
def specDistFast (rel abs_ : Rat) (mat : List (List Rat)) (sign line : List Rat) (d2 : List (Option Rat)) : Bool :=
  Pareto.specDistFast rel abs_ mat sign line d2
def transDot (mat : List (List Rat)) (wt : List Rat) : List Rat := Pareto.transDot mat wt
def transSumAxis1 (mat : List (List Rat)) : List Rat := Pareto.transSumAxis1 mat
def transSumAxis0 (mat : List (List Rat)) : List Rat := Pareto.transSumAxis0 mat
def transSumAll (mat : List (List Rat)) : Rat := Pareto.transSumAll mat
def latentSum (v : List Rat) : List Rat := Pareto.latentSum v
def latentDot (v w : List Rat) : List Rat := Pareto.latentDot v w
def specSameVectors (rows rows' : List (List Rat)) (mask mask' : List Bool) : Bool :=
  Pareto.specSameVectors rows rows' mask mask'
def specCloseAll (rel abs_ : Rat) (d d' : List (Option Rat)) : Bool := Pareto.specCloseAll rel abs_ d d'
end Q

end Pareto
