/-
Model of pybrops/core/util/pareto.py:is_pareto_efficient, pybrops/opt/algo/pymoo_addon.py:dominates
and the three distance-to-preference-vector transformations
(core/util/trans.py:trans_ndpt_pseudo_dist, breed/prot/sel/prob/trans.py:trans_ndpt_to_vec_dist,
 breed/prot/sel/transfn.py:trans_ndpt_to_vec_dist).  Core Lean only; executed at `Rat`.
-/
import PybropsModel.Np

namespace Pareto

section filter
variable {α : Type} [Mul α] [LT α] [DecidableLT α]

/-- `fmat * wt.flatten()[None,:]` on one row -/
def applyWt (wt row : List α) : List α := List.zipWith (· * ·) row wt

/-- negation of `numpy.any(r > p)`: `r ≤ p` in every coordinate (r is removed when p is the pivot) -/
def weakDom (r p : List α) : Bool := (List.zip r p).all (fun ab => !(decide (ab.2 < ab.1)))

/-- one iteration of the `while` body.  State = (rows still alive with their original index, pt_ix):
    ndpt_mask = any(fmat > fmat[pt_ix], axis=1); ndpt_mask[pt_ix] = True;
    fmat = fmat[ndpt_mask]; pt_ix = sum(ndpt_mask[:pt_ix]) + 1 -/
def step (l : List (Nat × List α)) (pt : Nat) : List (Nat × List α) × Nat :=
  match l[pt]? with
  | none => (l, pt)
  | some piv =>
    let mask := l.zipIdx.map (fun ri => ri.2 == pt || !weakDom ri.1.2 piv.2)
    (Np.compress mask l, (mask.take pt).count true + 1)

/-- the `while pt_ix < len(fmat)` loop; `fuel` bounds the number of iterations
    (`loop_fuel_enough` in Props/C19 shows that `npt` iterations always suffice) -/
def loop : Nat → List (Nat × List α) → Nat → List (Nat × List α)
  | 0, l, _ => l
  | fuel+1, l, pt =>
    if pt < l.length then
      let s := step l pt
      loop fuel s.1 s.2
    else l

/-- index form (`return_mask=False`) -/
def efficientIdx (fmat : List (List α)) (wt : List α) : List Nat :=
  let rows := (fmat.map (applyWt wt)).zipIdx.map (fun ri => (ri.2, ri.1))
  (loop rows.length rows 0).map Prod.fst

/-- mask form (`return_mask=True`) -/
def efficientMask (fmat : List (List α)) (wt : List α) : List Bool :=
  let idx := efficientIdx fmat wt
  (List.range fmat.length).map (fun i => idx.contains i)

/-- two-list form used in the proofs: `done` = rows before the pivot index, head of the second
    list = pivot row -/
def paretoGo {P : Type} (wd : P → P → Bool) (done : List P) : List P → List P
  | [] => done
  | p :: rest => paretoGo wd (done.filter (fun r => !wd r p) ++ [p]) (rest.filter (fun r => !wd r p))
termination_by l => l.length
decreasing_by
  simp only [List.length_cons, List.length_unattach]
  exact Nat.lt_succ_of_le (Nat.le_trans (List.length_filter_le _ _) (by simp))

/-- the O(n²) textbook definition used as Spec oracle:
    `i` is efficient iff no `j` weakly dominates it, except equal-valued points with a larger index -/
def strictDom (a b : List α) : Bool :=
  weakDom b a && (List.zip a b).any (fun ab => decide (ab.2 < ab.1))

end filter

section dominates
variable {α : Type} [LT α] [LE α] [DecidableLT α] [DecidableLE α] [OfNat α 0]

/-- pymoo_addon.dominates (minimising objectives, feasibility first) -/
def dominates (obj1 : List α) (cv1 : α) (obj2 : List α) (cv2 : α) : Bool :=
  if cv1 ≤ 0 ∧ cv2 ≤ 0 then
    (List.zip obj1 obj2).all (fun ab => decide (ab.1 ≤ ab.2)) &&
    (List.zip obj1 obj2).any (fun ab => decide (ab.1 < ab.2))
  else decide (cv1 < cv2)

end dominates

section dist
variable {α : Type} [Add α] [Sub α] [Mul α] [Div α] [OfNat α 0] [OfNat α 1] [LT α] [DecidableLT α]
  [BEq α]

def colMin (col : List α) : α := col.tail.foldl (fun m x => if x < m then x else m) (col.headD 0)
def colMax (col : List α) : α := col.tail.foldl (fun m x => if m < x then x else m) (col.headD 0)

/-- min–max scaling of every column; `guarded = true` is core/util/trans.py (constant column ↦ 0),
    `guarded = false` is the two selection-protocol versions (constant column ↦ 0·inf = NaN ⇒ `none`) -/
def scaleCols (guarded : Bool) (mat : List (List α)) : Option (List (List α)) :=
  let cols := Np.transpose mat
  let shifted := cols.map (fun c => let m := colMin c; c.map (· - m))
  let scaled := shifted.map (fun c =>
    let mx := colMax c
    if mx == 0 then (if guarded then some (c.map (fun _ => (0:α))) else none)
    else some (c.map (fun x => ((1:α) / mx) * x)))
  if scaled.all Option.isSome then some (Np.transpose (scaled.filterMap id)) else none

/-- squared distance of one scaled point `p` to the line spanned by `l` -/
def distSq (l p : List α) : α :=
  let s := ((1:α) / Np.dot l l) * Np.dot p l
  let diff := List.zipWith (fun x y => x - s * y) p l
  Np.dot diff diff

/-- squared version of the three transformation functions.
    `sign` multiplies the points first, `line` is the vector projected on.  `none` = NaN output. -/
def transDistSq (guarded : Bool) (mat : List (List α)) (sign line : List α) : Option (List α) :=
  if Np.dot line line == 0 then none else
  match scaleCols guarded (mat.map (fun r => List.zipWith (· * ·) r sign)) with
  | none => none
  | some m => some (m.map (distSq line))

end dist
section geo
variable {α : Type} [Add α] [Sub α] [Mul α] [Div α] [OfNat α 0] [OfNat α 1] [LT α] [DecidableLT α]
  [BEq α]

/-! ### geometric definition of the distance transformation (Spec oracle)

Written independently of `scaleCols` / `distSq`: row by row, no transposition, the scaled value is
`(x - lo) / (hi - lo)` with `lo`, `hi` the minimum / maximum of the point's objective over the whole
front (`0` for a constant objective), the distance is the norm of `q - ((q·L)/(L·L)) L`.
`Props/C19.dist_eq_geometric_def` proves it equal to the transcription of the code. -/

/-- objective `j` of all points (`P[:, j]`) -/
def colOf (P : List (List α)) (j : Nat) : List α := P.filterMap (fun r => r[j]?)

/-- min–max scaled value of `x` within its objective column -/
def geoScaleEntry (col : List α) (x : α) : α :=
  let lo := colMin col
  let hi := colMax col
  if hi == lo then 0 else (x - lo) / (hi - lo)

/-- one point of the front scaled to the unit cube -/
def geoScaleRow (P : List (List α)) (row : List α) : List α :=
  row.zipIdx.map (fun xj => geoScaleEntry (colOf P xj.2) xj.1)

/-- squared norm of `q - ((q·L)/(L·L)) L` -/
def geoDistSq (line q : List α) : α :=
  let t := Np.dot q line / Np.dot line line
  Np.sum (List.zipWith (fun a b => (a - t * b) * (a - t * b)) q line)

/-- squared distances of all points of the signed front to the preference line -/
def geoDist (mat : List (List α)) (sign line : List α) : List α :=
  let P := mat.map (fun r => List.zipWith (· * ·) r sign)
  P.map (fun r => geoDistSq line (geoScaleRow P r))

def absv (x : α) : α := if x < 0 then 0 - x else x

/-- the harness' tolerance rule (`canon.close`): equal, or `|a-b| ≤ abs_`, or `|a-b| ≤ rel·max(|a|,|b|)` -/
def closeTol (rel abs_ a b : α) : Bool :=
  a == b ||
    (let d := absv (a - b)
     let m := if absv a < absv b then absv b else absv a
     !(decide (abs_ < d)) || !(decide (rel * m < d)))

/-- Spec of the third sentence of C19 on claimed squared distances `d2` (`none` = NaN / inf):
    every distance finite, one per point, each equal (within tolerance) to the geometric definition -/
def specDist (rel abs_ : α) (mat : List (List α)) (sign line : List α) (d2 : List (Option α)) : Bool :=
  let want := geoDist mat sign line
  d2.all Option.isSome && d2.length == want.length &&
    (List.zip d2 want).all (fun p => match p.1 with
      | some x => closeTol rel abs_ x p.2
      | none => false)

end geo

/-! ### the instances the driver executes: the definitions above at core `Rat`

`Drv/C19.lean` calls these constants; `Props/C19.lean` (section `Q`) shows that the theorems proved
over an arbitrary ordered field apply to them. -/
namespace Q
def applyWt (wt row : List Rat) : List Rat := Pareto.applyWt wt row
def weakDom (r p : List Rat) : Bool := Pareto.weakDom r p
def strictDom (a b : List Rat) : Bool := Pareto.strictDom a b
def efficientIdx (fmat : List (List Rat)) (wt : List Rat) : List Nat := Pareto.efficientIdx fmat wt
def efficientMask (fmat : List (List Rat)) (wt : List Rat) : List Bool := Pareto.efficientMask fmat wt
def dominates (o1 : List Rat) (c1 : Rat) (o2 : List Rat) (c2 : Rat) : Bool := Pareto.dominates o1 c1 o2 c2
def transDistSq (guarded : Bool) (mat : List (List Rat)) (sign line : List Rat) : Option (List Rat) :=
  Pareto.transDistSq guarded mat sign line
def geoDist (mat : List (List Rat)) (sign line : List Rat) : List Rat := Pareto.geoDist mat sign line
def specDist (rel abs_ : Rat) (mat : List (List Rat)) (sign line : List Rat) (d2 : List (Option Rat)) : Bool :=
  Pareto.specDist rel abs_ mat sign line d2
end Q

end Pareto
