/-
The decidable Spec of C18 (`c18.spec`), clause by clause, as core-only executable definitions: the driver
evaluates them at `Rat` on the IMPLEMENTATION's outputs, `Props/C18.lean` (`spec_sound_*`) proves that every
clause accepts the MODEL's outputs.  A clause demands exactly what the property states about the outputs.
-/
import PybropsModel.Model.Haplo

namespace Haplo.Spec
open Haplo

/-! ### structure of the partition (integers only) -/

/-- apportionment: one count per chromosome, each ≥ 1, summing to the request -/
def apportion (nhaploblk nchr : Nat) (nblk : List Nat) : Bool :=
  nblk.length == nchr && nblk.all (fun c => decide (1 ≤ c)) && nblk.sum == nhaploblk

/-- `(hstix, hspix, hlen)` tile `[0, p)` by non-empty consecutive segments:
    first start 0, last stop `p`, every stop is the next start, `start < stop`, `hlen = stop - start` -/
def partition (p : Nat) (hstix hspix hlen : List Nat) : Bool :=
  hstix.head? == some 0 && hspix.getLast? == some p && hspix.dropLast == hstix.tail &&
  hspix.length == hstix.length && (List.zip hstix hspix).all (fun b => decide (b.1 < b.2)) &&
  hlen == List.zipWith (fun e s => e - s) hspix hstix

/-- the blocks are the maximal runs of the labels: the block starts after the first are exactly the
    positions whose label differs from the preceding one -/
def labels {β : Type} [DecidableEq β] (p : Nat) (hbin : List β) (hstix : List Nat) : Bool :=
  hbin.length == p &&
  hstix.tail == (List.range p).filter (fun i => decide (0 < i) && decide (hbin[i]? ≠ hbin[i - 1]?))

/-- blocks lie within chromosomes and every chromosome holds one: given that both the chromosomes and the
    blocks tile the markers (`partition`), this is "every chromosome start is a block start" -/
def withinChrom (stix hstix : List Nat) : Bool := stix.all (fun s => hstix.contains s)

section scalar
variable {α : Type} [Add α] [Sub α] [Mul α] [Div α] [Neg α] [OfNat α 0] [NatCast α]
  [LT α] [LE α] [DecidableLT α] [DecidableLE α] [DecidableEq α]

def absS (a : α) : α := if a < 0 then -a else a
def maxS (a b : α) : α := if a < b then b else a

/-- tolerant equality for values that went through binary64: 1e-9 relative, floor 1 -/
def approx (a b : α) : Bool :=
  decide (absS (a - b) ≤ (((1 : Nat) : α) / ((1000000000 : Nat) : α)) * maxS ((1 : Nat) : α) (maxS (absS a) (absS b)))

/-- tolerant equality relative to the magnitude `s` of the DATA the two values were computed from (1e-9 relative
    to `max(s, |a|, |b|)`): binary64 evaluation of a dot product / sum over `p` terms of total absolute size `s`
    errs by at most `p · 2⁻⁵³ · s`, so the clause is insensitive to rounding for every `p < 10⁶` and still
    resolves differences at the scale of the data when all effects are tiny (1e-8) or share a large offset -/
def approxS (s a b : α) : Bool :=
  decide (absS (a - b) ≤ (((1 : Nat) : α) / ((1000000000 : Nat) : α)) * maxS s (maxS (absS a) (absS b)))

/-- `Σ |u_i|`: the magnitude of everything a chromosome copy with 0/1 alleles can score on one trait -/
def absSum (u : List α) : α := Np.sum (u.map absS)

/-- magnitude of an optimal value for one trait: `ploidy · Σ |u_i|` -/
def scaleOf (geno : List (List (List α))) (u : List α) : α := (geno.length : α) * absSum u

/-- the haplotype matrix in numpy layout `[m][n][b][t]` when every block column is written -/
def hmatTotal (geno : List (List (List α))) (ucols : List (List α)) (bnds : List (Nat × Nat)) :
    List (List (List (List α))) :=
  geno.map (fun gm => gm.map (fun g => bnds.map (fun b => ucols.map (fun u => blockVal g u b))))

/-- conservation: for every chromosome copy and trait the `nhaploblk` block values sum to `g · u` -/
def conserve (geno : List (List (List α))) (ucols : List (List α))
    (hmat : List (List (List (List α)))) (nhaploblk : Nat) : Bool :=
  hmat.length == geno.length &&
  (List.range geno.length).all (fun m =>
    let gm := geno.getD m []
    let hm := hmat.getD m []
    hm.length == gm.length &&
    (List.range gm.length).all (fun i =>
      let g := gm.getD i []
      let h := hm.getD i []
      h.length == nhaploblk &&
      (List.range ucols.length).all (fun t =>
        approxS (absSum (ucols.getD t [])) (Np.sum (h.map (fun row => row.getD t 0))) (Np.dot g (ucols.getD t [])))))

/-- `ohvmat[s][t]` = ploidy · Σ_blocks max_(phase, parent of cross s), recomputed from the inputs on the
    given blocks -/
def ohvDef (geno : List (List (List α))) (ucols : List (List α)) (bnds : List (Nat × Nat))
    (xm : List (List Nat)) (ohvmat : List (List α)) : Bool :=
  ohvmat.length == xm.length &&
  (List.range ucols.length).all (fun t =>
    let V := blockTable geno (ucols.getD t []) bnds
    (List.range xm.length).all (fun s =>
      approxS (scaleOf geno (ucols.getD t [])) ((ohvmat.getD s []).getD t 0) (ohv V bnds.length (xm.getD s []))))

/-- a doubled haploid that takes block `b` from `(phase, parent)` = `choice[b mod len]` of the cross is
    not better than the reported optimal haploid value -/
def ohvGeDh (geno : List (List (List α))) (ucols : List (List α)) (bnds : List (Nat × Nat))
    (xm : List (List Nat)) (ohvmat : List (List α)) (choices : List (List (Nat × Nat))) : Bool :=
  choices.all (fun ch =>
    (List.range xm.length).all (fun s =>
      let par := xm.getD s []
      let src : List (List α) := (List.range bnds.length).map (fun b =>
        let c := ch.getD (b % (max ch.length 1)) (0, 0)
        copyOf' geno (c.1 % (max geno.length 1), par.getD (c.2 % (max par.length 1)) 0))
      let gam := mosaic bnds src
      (List.range ucols.length).all (fun t =>
        let v := (geno.length : α) * Np.dot gam (ucols.getD t [])
        decide (v ≤ (ohvmat.getD s []).getD t 0) ||
          approxS (scaleOf geno (ucols.getD t [])) v ((ohvmat.getD s []).getD t 0))))
where
  copyOf' (geno : List (List (List α))) (c : Nat × Nat) : List α := (geno.getD c.1 []).getD c.2 []

/-- OPV latent = minus the optimal value of the selected set -/
def opvDef (geno : List (List (List α))) (ucols : List (List α)) (bnds : List (Nat × Nat))
    (x : List Nat) (opv : List α) : Bool :=
  opv.length == ucols.length &&
  (List.range ucols.length).all (fun t =>
    approxS (scaleOf geno (ucols.getD t [])) (-(opv.getD t 0))
      (ohv (blockTable geno (ucols.getD t []) bnds) bnds.length x))

/-- OHV subset latent = minus the mean of the selected crosses' optimal haploid values
    (`sc[t]` = magnitude of trait `t`, `scaleOf`) -/
def ohvLatentDef (sc : List α) (ohvmat : List (List α)) (x : List Nat) (lat : List α) : Bool :=
  (List.range lat.length).all (fun t =>
    approxS (sc.getD t 0) (lat.getD t 0)
      (-(Np.sum (x.map (fun i => (ohvmat.getD i []).getD t 0)) / (x.length : α))))

/-- OHV real / integer / binary latent = minus the `x`-weighted mean of ALL crosses' optimal haploid values:
    `-(Σ_i x_i · ohv_i) / Σ_i x_i` -/
def ohvLatentWDef (sc : List α) (ohvmat : List (List α)) (x : List α) (lat : List α) : Bool :=
  (List.range lat.length).all (fun t =>
    approxS (sc.getD t 0) (lat.getD t 0)
      (-(Np.sum (List.zipWith (fun xi row => xi * row.getD t 0) x ohvmat) / Np.sum x)))

/-- genotype-builder latent by definition: per block the `nbest` largest best-phase values among the
    selected individuals (sort descending, take `nbest`), summed over blocks, times `-(ploidy / nbest)` -/
def gbDef (geno : List (List (List α))) (ucols : List (List α)) (bnds : List (Nat × Nat))
    (x : List Nat) (nbest : Nat) (lat : List α) : Bool :=
  lat.length == ucols.length &&
  (List.range ucols.length).all (fun t =>
    let V := blockTable geno (ucols.getD t []) bnds
    let perBlock := (List.range bnds.length).map (fun b =>
      Np.sum ((Np.stableSort (fun a c => decide (c ≤ a)) (x.map (fun p => (bestBlock V [p] b).getD 0))).take nbest))
    approxS (scaleOf geno (ucols.getD t [])) (lat.getD t 0) (-((geno.length : α) / (nbest : α)) * Np.sum perBlock))

end scalar

end Haplo.Spec
