/-
The decidable Spec oracles of C11 that only need rational arithmetic (core Lean only, executable):
they are evaluated by the driver on the IMPLEMENTATION's outputs (Drv/C11.lean) and are tied to the
theorems in Lemmas/GMapSpecInterp.lean / GMapSpecDist.lean (each accepts the model's own output; accepted
at zero tolerance, an output satisfies the conclusions of the property theorems).
-/
import PybropsModel.Model.GMap

namespace GMap.Spec

def absR (a : Rat) : Rat := if a < 0 then -a else a
def maxR (a b : Rat) : Rat := if a < b then b else a

/-- comparison tolerance: relative and absolute part -/
structure Tol where
  rel : Rat
  abs_ : Rat

/-- the tolerance used on float outputs -/
def Tol.std : Tol := ⟨1 / 1000000000, 1 / 1000000000000⟩
/-- exact comparison -/
def Tol.zero : Tol := ⟨0, 0⟩

def closeR (t : Tol) (a b : Rat) : Bool :=
  let d := absR (a - b)
  d ≤ t.abs_ || d ≤ t.rel * maxR (absR a) (absR b)

def closeD (t : Tol) (a b : GDist Rat) : Bool :=
  match a, b with
  | .fin x, .fin y => closeR t x y
  | .inf, .inf => true
  | .nan, .nan => true
  | _, _ => false

def closeP (t : Tol) (a b : Option Rat) : Bool :=
  match a, b with
  | some x, some y => closeR t x y
  | none, none => true
  | _, _ => false

/-- `a ≤ b` on [0, ∞] (NaN compares false) -/
def leD (a b : GDist Rat) : Bool :=
  match a, b with
  | .fin x, .fin y => x ≤ y
  | .fin _, .inf => true
  | .inf, .inf => true
  | _, _ => false

def checks (l : List (String × Bool)) : Bool × String :=
  let bad := l.filter (fun p => !p.2)
  (bad.isEmpty, if bad.isEmpty then "ok" else "violated: " ++ ", ".intercalate (bad.map Prod.fst))

def allPairs (n : Nat) (p : Nat → Nat → Bool) : Bool :=
  (List.range n).all fun i => (List.range n).all fun j => p i j

/-! ### map-function clause

The round trip `invmapfn(mapfn d)` is ill conditioned: an absolute error `δ` in the probability moves the
exact inverse by up to `2 δ e^{κ d}` (κ = 2 Haldane, 4 Kosambi; `Lemmas/MapFnCond`).  The oracle therefore
allows `2 δ₀ 3^⌈κ d⌉` (`3^⌈κ d⌉ ≥ e^{κ d}`) with `δ₀ = 2^-50` (8 ulp of 1) for the float evaluation of
`mapfn`, the same amount again for the float evaluation of `invmapfn` (rounding of `1 - 2r` / `2r` is amplified
by the same factor), `10^-13` absolute and `10^-9` relative on top, and asks nothing once `4 δ₀ 3^⌈κ d⌉ > 1`.
Near zero the absolute part is what counts: a first-order "shortcut" `r = d` is off by `d²` after the round
trip, i.e. it is rejected for every `d` above `4·10^-7`. -/

def delta0 : Rat := 1 / 1125899906842624        -- 2^-50

/-- rational over-estimate of `e^{κ a}` -/
def condBound (kappa : Nat) (a : Rat) : Rat := 3 ^ ((kappa : Rat) * a).ceil.toNat

/-- tolerance of the round trip at distance `a`; `none` = binary64 cannot resolve `1 - 2r` any more -/
def invTol (kappa : Nat) (a : Rat) : Option Tol :=
  -- (`κ a > 64` ⇒ `4 δ₀ 3^⌈κ a⌉ > 1`: the power is not even computed — distances like 1e300 are legal inputs)
  if 64 < (kappa : Rat) * a then none else
  let c := condBound kappa a
  if 4 * delta0 * c ≤ 1 then some ⟨1 / 1000000000, 1 / 10000000000000 + 4 * delta0 * c⟩ else none

/-- on the implementation's `r = mapfn(d)` and `dinv = invmapfn(r)`: zero ↦ zero, ∞ ↦ ½, range [0, ½],
    monotone, undone by the inverse (to the conditioning of the round trip) -/
def specMapfn (kappa : Nat) (d r dinv : List (GDist Rat)) : Bool × String :=
  let n := d.length
  if r.length != n || dinv.length != n then (false, "length") else
  let z := d.zip (r.zip dinv)
  let valid := d.all fun x => leD (.fin 0) x
  let zero := z.all fun (x, y, _) => !(x == .fin 0) || y == .fin 0
  let top := z.all fun (x, y, _) => !(x == .inf) || y == .fin (1 / 2)
  let range := z.all fun (_, y, _) => leD (.fin 0) y && leD y (.fin (1 / 2))
  let mono := z.all fun (x, y, _) => z.all fun (x', y', _) => !(leD x x') || leD y y'
  let inv := z.all fun (x, _, w) =>
    match x with
    | .inf => w == .inf
    | .fin a => (match invTol kappa a with
        | some t => closeD t w (.fin a)
        | none => true)
    | .nan => false
  checks [("valid input", valid), ("zero to zero", zero), ("infinity to one half", top),
          ("range [0,1/2]", range), ("monotone", mono), ("inverse undoes", inv)]

/-! ### interpolation clause, stated on the raw rows of the map (independent of `knots` / `interpIdx`) -/

abbrev Query := Int × Rat × Option Rat      -- (chromosome, physical position, reported genetic position)

def onChr (rows : List (Row Rat Int)) (c : Int) : List (Row Rat Int) := rows.filter (fun r => r.chr == c)

/-- a query at a marker of the map reports that marker's stored position -/
def ownOk (t : Tol) (rows : List (Row Rat Int)) (q : Query) : Bool :=
  (onChr rows q.1).all fun r => !(r.phy == q.2.1) || closeP t q.2.2 (some r.gen)

/-- `a`, `b` flank `x` on chromosome `c`: `a.phy < x < b.phy` and no marker strictly between them -/
def flanks (rows : List (Row Rat Int)) (c : Int) (a b : Row Rat Int) (x : Rat) : Bool :=
  decide (a.phy < x) && decide (x < b.phy) &&
    (onChr rows c).all fun m => !(decide (a.phy < m.phy) && decide (m.phy < b.phy))

/-- a query strictly between two flanking markers reports the point of the chord -/
def flankOk (t : Tol) (rows : List (Row Rat Int)) (q : Query) : Bool :=
  (onChr rows q.1).all fun a => (onChr rows q.1).all fun b =>
    !flanks rows q.1 a b q.2.1 ||
      closeP t q.2.2 (some (a.gen + (b.gen - a.gen) * (q.2.1 - a.phy) / (b.phy - a.phy)))

/-- missing exactly on chromosomes absent from the map -/
def missingOk (rows : List (Row Rat Int)) (q : Query) : Bool :=
  (onChr rows q.1).isEmpty == q.2.2.isNone

def congruentB (rows : List (Row Rat Int)) : Bool :=
  rows.all fun a => rows.all fun b => !(a.chr == b.chr && decide (a.phy < b.phy)) || decide (a.gen ≤ b.gen)

def inRange (rows : List (Row Rat Int)) (c : Int) (x : Rat) : Bool :=
  (onChr rows c).any (fun r => decide (r.phy ≤ x)) && (onChr rows c).any (fun r => decide (x ≤ r.phy))

/-- two queries of one chromosome, both inside its marker range, keep their order -/
def monoOk (t : Tol) (rows : List (Row Rat Int)) (p p' : Query) : Bool :=
  !(p.1 == p'.1 && decide (p.2.1 ≤ p'.2.1) && inRange rows p.1 p.2.1 && inRange rows p.1 p'.2.1) ||
    (match p.2.2, p'.2.2 with
     | some a, some b => decide (a ≤ b + t.abs_)
     | _, _ => false)

def queries (qchr : List Int) (qphy : List Rat) (out : List (Option Rat)) : List Query :=
  qchr.zip (qphy.zip out)

/-- own markers, linear between flanking markers, order preserving for congruent maps, missing
    chromosomes, independence of the row order (`out2` = result for another row order) -/
def specInterp (rows : List (Row Rat Int)) (qchr : List Int) (qphy : List Rat)
    (out out2 : List (Option Rat)) (t : Tol := Tol.std) : Bool × String :=
  let n := qchr.length
  if qphy.length != n || out.length != n || out2.length != n then (false, "shape") else
  let q := queries qchr qphy out
  checks [("own markers return stored positions", q.all (ownOk t rows)),
          ("linear between flanking markers", q.all (flankOk t rows)),
          ("order preserving (congruent map)", !congruentB rows || q.all fun p => q.all fun p' => monoOk t rows p p'),
          ("absent chromosome <-> missing", q.all (missingOk rows)),
          ("independent of row order", (out.zip out2).all fun ab => closeP t ab.1 ab.2)]

/-- the part of the interpolation clause that holds for every interpolating spline kind (step kinds,
    quadratic, cubic): own markers, missing chromosomes, independence of the row order -/
def specInterpAnyKind (rows : List (Row Rat Int)) (qchr : List Int) (qphy : List Rat)
    (out out2 : List (Option Rat)) (oneSided : Bool := false) (t : Tol := Tol.std) : Bool × String :=
  let n := qchr.length
  if qphy.length != n || out.length != n || out2.length != n then (false, "shape") else
  let q := queries qchr qphy out
  checks [("own markers return stored positions", q.all (ownOk t rows)),
          -- `previous` / `next` also report NaN on one side outside the marker range (scipy's fill value for
          -- these kinds): only "absent ⇒ missing" is asked of them
          ("absent chromosome <-> missing",
            q.all fun p => if oneSided then (!(onChr rows p.1).isEmpty || p.2.2.isNone) else missingOk rows p),
          ("independent of row order", (out.zip out2).all fun ab => closeP t ab.1 ab.2)]

/-! ### pairwise / sequential distance clause -/

def lab (chr : List Int) (i : Nat) : Int := chr.getD i 0
def posn (gen : List (Option Rat)) (i : Nat) : Option Rat := gen.getD i none
def known (gen : List (Option Rat)) (i : Nat) : Bool := (posn gen i).isSome
def valAt (gen : List (Option Rat)) (i : Nat) : Rat := (posn gen i).getD 0
def ent (d2 : List (List (GDist Rat))) (i j : Nat) : GDist Rat := (d2.getD i []).getD j .nan
def seqAt (d1 : List (GDist Rat)) (i : Nat) : GDist Rat := d1.getD i .nan
/-- cell `i` starts a chromosome run -/
def isStart (chr : List Int) (i : Nat) : Bool := i == 0 || lab chr (i - 1) != lab chr i

def symmOk (t : Tol) (d2 : List (List (GDist Rat))) (i j : Nat) : Bool := closeD t (ent d2 i j) (ent d2 j i)
def diagOk (gen : List (Option Rat)) (d2 : List (List (GDist Rat))) (i : Nat) : Bool :=
  !known gen i || ent d2 i i == .fin 0
def acrossOk (chr : List Int) (d2 : List (List (GDist Rat))) (i j : Nat) : Bool :=
  (lab chr i == lab chr j) || ent d2 i j == .inf
def withinOk (t : Tol) (chr : List Int) (gen : List (Option Rat)) (d2 : List (List (GDist Rat))) (i j : Nat) : Bool :=
  !(lab chr i == lab chr j && known gen i && known gen j) ||
    closeD t (ent d2 i j) (.fin (absR (valAt gen i - valAt gen j)))
def additiveOk (t : Tol) (chr : List Int) (gen : List (Option Rat)) (d2 : List (List (GDist Rat))) (i j k : Nat) : Bool :=
  !(lab chr i == lab chr j && lab chr j == lab chr k && known gen i && known gen j && known gen k &&
      decide (valAt gen i ≤ valAt gen j) && decide (valAt gen j ≤ valAt gen k)) ||
    (match ent d2 i k, ent d2 i j, ent d2 j k with
     | .fin a, .fin b, .fin d => closeR t a (b + d)
     | _, _, _ => false)
def startOk (chr : List Int) (d1 : List (GDist Rat)) (i : Nat) : Bool :=
  !isStart chr i || seqAt d1 i == .inf
def seqOk (t : Tol) (chr : List Int) (gen : List (Option Rat)) (d1 : List (GDist Rat))
    (d2 : List (List (GDist Rat))) (i : Nat) : Bool :=
  isStart chr i || !(known gen i && known gen (i - 1)) ||
    (match seqAt d1 i with
     | .fin a => closeD t (.fin (absR a)) (ent d2 (i - 1) i) &&
         (!decide (valAt gen (i - 1) ≤ valAt gen i) || decide (-t.abs_ ≤ a))
     | _ => false)

/-- symmetric, zero diagonal, infinite between chromosomes, |gi − gj| inside one, additive for ordered
    markers; sequential array: +∞ at chromosome starts, agrees with the pairwise matrix elsewhere.
    `d1? = none`: the sequential part is not asked (label array outside the precondition of gdist1g). -/
def specGdist (chr : List Int) (gen : List (Option Rat)) (d1? : Option (List (GDist Rat)))
    (d2 : List (List (GDist Rat))) (t : Tol := Tol.std) : Bool × String :=
  let n := chr.length
  let d1 := d1?.getD []
  if gen.length != n || (d1?.isSome && d1.length != n) || d2.length != n || d2.any (·.length != n)
    then (false, "shape") else
  let idx := List.range n
  checks [("symmetric", allPairs n (symmOk t d2)), ("zero diagonal", idx.all (diagOk gen d2)),
          ("infinite between chromosomes", allPairs n (acrossOk chr d2)),
          ("pairwise = |gi - gj|", allPairs n (withinOk t chr gen d2)),
          ("additive for ordered markers", idx.all fun i => idx.all fun j => idx.all fun k => additiveOk t chr gen d2 i j k),
          ("sequential: inf at chromosome starts", d1?.isNone || idx.all (startOk chr d1)),
          ("sequential agrees with pairwise", d1?.isNone || idx.all (seqOk t chr gen d1 d2))]

/-! ### crossover-probability clause

Generic in the scalar `γ` the map function is evaluated in (the driver: `γ = Float`, `cast` = nearest double,
`f` = the Float transcription of `mapfn`, `back` = exact value of the double; `Lemmas/GMapSpecXo`: any `γ`).
The implementation's positions are doubles sent as exact rationals, so `cast (a - b)` IS the float difference
numpy computes (IEEE subtraction is correctly rounded). -/

/-- one half at each chromosome start, otherwise the map function of the difference of consecutive
    *interpolated* positions (`genpos` must satisfy `specInterp`), NaN where a position is missing -/
def specXoprob {γ : Type} [Div γ] [OfNat γ 1] [OfNat γ 2] (cast : Rat → γ) (f : γ → γ) (back : GDist γ → GDist Rat)
    (rows : List (Row Rat Int)) (qchr : List Int) (qphy : List Rat)
    (genpos : List (Option Rat)) (xoprob : List (GDist Rat)) (t : Tol := Tol.std) : Bool × String :=
  let n := qchr.length
  if genpos.length != n || xoprob.length != n then (false, "shape") else
  let (iok, imsg) := specInterp rows qchr qphy genpos genpos t
  let c (i : Nat) : Int := qchr.getD i 0
  let g (i : Nat) : Option Rat := genpos.getD i none
  let p (i : Nat) : GDist Rat := xoprob.getD i .nan
  let starts := (List.range n).all fun i => !(i == 0 || c (i - 1) != c i) || p i == .fin (1 / 2)
  let inner := (List.range n).all fun i => (i == 0 || c (i - 1) != c i) ||
      (match g i, g (i - 1) with
       | some a, some b => closeD t (p i) (back (mapD f (.fin (cast (a - b)))))
       | _, _ => p i == .nan)
  checks [("genpos interpolated: " ++ imsg, iok), ("one half at chromosome starts", starts),
          ("map function of consecutive distances", inner)]

end GMap.Spec
