/-
Model/LabelMatN.lean — executable model of the square-taxa(-trait) matrices with ANY number of square taxa
axes (property C03).  Core Lean only.

`DenseSquareTaxaTraitMatrix.square_taxa_axes = tuple(range(ndim - 1))`, `trait_axis = ndim - 1`: the two-way
variance matrices are (n, n, t), the three-way ones (n, n, n, t), the four-way ones (n, n, n, n, t).  All taxa
axes are governed by ONE taxa bundle (`taxa`, `taxa_grp` + cached group metadata), the last axis by the trait
bundle.  The data array is an `r`-fold nested list whose leaves are the trait vectors: `Tn (List α) r`.

Transcribed sources (file of /repo): core/mat/DenseSquareTaxaMatrix.py
  select_taxa / delete_taxa / remove_taxa / reorder_taxa : `for axis in self.square_taxa_axes:` numpy.take /
      numpy.delete / fancy indexing along that axis (`loopAll`; closed form `mapAll`, proved equal in
      Lemmas/LabelMatN.lean), the same edit on every taxa label array
  adjoin_taxa / append_taxa : block-diagonal placement along all taxa axes, fill value elsewhere (`blockDiagN`)
  insert_taxa / incorp_taxa / concat_taxa : numpy.insert / concatenate along `taxa_axis = 0` ONLY (defect D14)
  lexsort_taxa / sort_taxa / group_taxa / ungroup_taxa / is_grouped_taxa
core/mat/DenseTraitMatrix.py (inherited): *_trait along the last axis (`mapLeaves` / `zipLeaves`)
core/mat/DenseSquareTaxaTraitMatrix.py: generic dispatch on `square_axes` / `trait_axis`; the axis-specific
  non-mutating methods are inherited from the single-bundle parents and pass only the edited bundle's labels to the
  constructor (defect D27, `pureDropsOther`).
-/
import PybropsModel.Model.LabelMat

namespace LabelMatN
open LabelMat

/-- `r`-fold nested list over the leaf type `β` -/
@[reducible] def Tn (β : Type) : Nat → Type
  | 0 => β
  | r + 1 => List (Tn β r)

variable {α lab β γ : Type}

/-- apply a list operation along axis `a` (nesting depth `a`) -/
def axMapN (f : ListOp) : (a r : Nat) → Tn β r → Tn β r
  | _, 0, x => x
  | 0, _ + 1, l => f _ l
  | a + 1, r + 1, l => List.map (axMapN f a r) l

/-- the source's loop: `for axis in self.square_taxa_axes: mat = op(mat, axis = axis)` -/
def loopAll (f : ListOp) (r : Nat) (t : Tn β r) : Tn β r :=
  (List.range r).foldl (fun m a => axMapN f a r m) t

/-- closed form of the loop: the operation applied at every one of the `r` levels -/
def mapAll (f : ListOp) : (r : Nat) → Tn β r → Tn β r
  | 0, x => x
  | r + 1, l => f _ (List.map (mapAll f r) l)

def mapLeaves (g : β → γ) : (r : Nat) → Tn β r → Tn γ r
  | 0, x => g x
  | r + 1, l => List.map (mapLeaves g r) l

def zipLeaves (g : β → β → β) : (r : Nat) → Tn β r → Tn β r → Tn β r
  | 0, x, y => g x y
  | r + 1, l, lv => List.zipWith (zipLeaves g r) l lv

/-- binary list operation (self-slices, operand-slices) along axis `a` -/
def axZipN (g : ListOp2) : (a r : Nat) → Tn β r → Tn β r → Tn β r
  | _, 0, x, _ => x
  | 0, _ + 1, l, lv => g _ l lv
  | a + 1, r + 1, l, lv => List.zipWith (axZipN g a r) l lv

def getN : (r : Nat) → Tn β r → List Nat → Option β
  | 0, x, [] => some x
  | r + 1, l, i :: is => (l[i]?).bind (fun t => getN r t is)
  | _, _, _ => none

/-- axis lengths, read along the first entries (numpy `shape` of a rectangular array) -/
def dimsN : (r : Nat) → Tn β r → List Nat
  | 0, _ => []
  | r + 1, l => l.length :: (match l with | [] => List.replicate r 0 | x :: _ => dimsN r x)

def rectN : (r : Nat) → List Nat → Tn β r → Bool
  | 0, _, _ => true
  | r + 1, dims, l => l.length == dims.headD 0 && l.all (rectN r dims.tail)

def tabN : (r : Nat) → List Nat → (List Nat → β) → Tn β r
  | 0, _, f => f []
  | r + 1, dims, f => (List.range (dims.headD 0)).map (fun i => tabN r dims.tail (fun is => f (i :: is)))

/-- all leaves with their multi-index -/
def cellsWith : (r : Nat) → Tn β r → List (List Nat × β)
  | 0, x => [([], x)]
  | r + 1, l => l.zipIdx.flatMap (fun ti => (cellsWith r ti.1).map (fun c => (ti.2 :: c.1, c.2)))

/-- first leaf (the trait vector whose length is the trait-axis length) -/
def firstLeaf : (r : Nat) → Tn β r → Option β
  | 0, x => some x
  | r + 1, l => (l.head?).bind (firstLeaf r)

/-- block-diagonal placement along all `r` axes: self in the leading block, the operand in the trailing block,
    `fill` elsewhere (DenseSquareTaxaMatrix.adjoin_taxa) -/
def blockDiagN (fill : β) (r : Nat) (m v : Tn β r) : Tn β r :=
  let dm := dimsN r m
  let dv := dimsN r v
  tabN r (List.zipWith (· + ·) dm dv) (fun idx =>
    let lo := (List.zip idx dm).all (fun p => decide (p.1 < p.2))
    let hi := (List.zip idx dm).all (fun p => decide (p.2 ≤ p.1))
    if lo then (getN r m idx).getD fill
    else if hi then (getN r v (List.zipWith (· - ·) idx dm)).getD fill
    else fill)

/-! ### states -/

structure StN (α lab : Type) (r : Nat) where
  mat   : Tn (List α) r
  taxa  : Bundle lab
  trait : Bundle lab

structure OperandN (α lab : Type) (r : Nat) where
  mat  : Tn (List α) r
  cols : List (Option (List lab))

/-- class quirks -/
structure SchN where
  /-- (pre-repair, before the fix of D27) DenseSquareTaxaTraitMatrix inherited the axis-specific non-mutating methods of
      its single-bundle parents: they dropped the other bundle's labels.  `false` = the code as it is now (ten overrides
      hand the other bundle's arrays to the new object); `true` only in the `…_prerepair_counterexample` -/
  pureDropsOther : Bool := false
  deriving DecidableEq, Repr

variable {r : Nat}

def StN.bundle (s : StN α lab r) : Kind → Bundle lab
  | .taxa => s.taxa | .trait => s.trait | .vrnt => { cols := [], grp := none }

def StN.setBundle (s : StN α lab r) (k : Kind) (b : Bundle lab) : StN α lab r :=
  match k with
  | .taxa => { s with taxa := b } | .trait => { s with trait := b } | .vrnt => s

def ntaxa (s : StN α lab r) : Nat := (dimsN r s.mat).headD 0
def ntrait (s : StN α lab r) : Nat := ((firstLeaf r s.mat).map List.length).getD 0

def StN.len (k : Kind) (s : StN α lab r) : Nat :=
  match k with | .taxa => ntaxa s | .trait => ntrait s | .vrnt => 0

def supported (r : Nat) : Kind → Bool
  | .taxa => decide (0 < r) | .trait => true | .vrnt => false

/-- the constructor's checks: every present label column has the length of its (first) axis -/
def StN.ctorOK (s : StN α lab r) : Bool :=
  s.taxa.cols.all (fun c => match c with | none => true | some l => l.length == ntaxa s) &&
  s.trait.cols.all (fun c => match c with | none => true | some l => l.length == ntrait s)

def StN.checkCtor (s : StN α lab r) : R (StN α lab r) := if s.ctorOK then pure s else throw .value

/-- one list operation on the data along every axis of bundle `k` and on every label column of `k`.
    Taxa: the source's loop over `square_taxa_axes`. -/
def applyN (k : Kind) (f : ListOp) (s : StN α lab r) : StN α lab r :=
  match k with
  | .taxa => { s with mat := loopAll f r s.mat, taxa := s.taxa.mapCols f }
  | .trait => { s with mat := mapLeaves (f α) r s.mat, trait := s.trait.mapCols f }
  | .vrnt => s

def freshN (k : Kind) (s : StN α lab r) : StN α lab r := s.setBundle k (s.bundle k).ungrouped

def newObjN (sch : SchN) (k : Kind) (s : StN α lab r) : StN α lab r :=
  let s1 := freshN k s
  if !sch.pureDropsOther then s1 else
  [Kind.taxa, Kind.trait].foldl (fun t kk =>
    if kk == k then t else t.setBundle kk { cols := (t.bundle kk).cols.map (fun _ => none), grp := none }) s1

def selectN (sch : SchN) (k : Kind) (is : List Int) (s : StN α lab r) : R (StN α lab r) := do
  if !supported r k then throw .unsupported
  let ix ← normIdxs (s.len k) is
  (newObjN sch k (applyN k (fun _ => Np.take ix) s)).checkCtor

def deleteN (sch : SchN) (k : Kind) (obj : DelIdx) (s : StN α lab r) : R (StN α lab r) := do
  if !supported r k then throw .unsupported
  let ix ← obj.norm (s.len k)
  (newObjN sch k (applyN k (fun _ => Np.delete ix) s)).checkCtor

def removeN (k : Kind) (obj : DelIdx) (s : StN α lab r) : R (StN α lab r) := do
  if !supported r k then throw .unsupported
  let ix ← obj.norm (s.len k)
  pure (freshN k (applyN k (fun _ => Np.delete ix) s))

def reorderN (k : Kind) (is : List Int) (s : StN α lab r) : R (StN α lab r) := do
  if !supported r k then throw .unsupported
  let ix ← normIdxs (s.len k) is
  pure (freshN k (applyN k (fun _ => Np.take ix) s))

def lexsortN (le : lab → lab → Bool) (k : Kind) (keys : Option (List (Option (List lab))))
    (s : StN α lab r) : R (List Nat) := do
  if !supported r k then throw .unsupported
  let cand : List (Option (List lab)) := match keys with
    | some ks => ks
    | none => k.sortKeys.map (fun c => ((s.bundle k).cols[c]?).join)
  let ks := cand.filterMap id
  if ks.isEmpty then throw .value
  let n := s.len k
  if ks.any (fun c => c.length != n) then throw .value
  pure (lexsortIdx le ks n)

def sortN (le : lab → lab → Bool) (k : Kind) (keys : Option (List (Option (List lab))))
    (s : StN α lab r) : R (StN α lab r) := do
  let s1 := freshN k s
  let ix ← lexsortN le k keys s1
  pure (applyN k (fun _ => Np.take ix) s1)

def groupN [BEq lab] (le : lab → lab → Bool) (k : Kind) (s : StN α lab r) : R (StN α lab r) := do
  match k.grpCol with
  | none => throw .unsupported
  | some c =>
    let s1 ← sortN le k none s
    match ((s1.bundle k).cols[c]?).join with
    | none => pure s1
    | some col => pure (s1.setBundle k { (s1.bundle k) with grp := some (grpOfSorted col) })

def ungroupN (k : Kind) (s : StN α lab r) : R (StN α lab r) :=
  match k.grpCol with
  | none => throw .unsupported
  | some _ => if !supported r k then throw .unsupported else pure (freshN k s)

def isGroupedN (k : Kind) (s : StN α lab r) : R Bool :=
  match k.grpCol with
  | none => throw .unsupported
  | some _ => if !supported r k then throw .unsupported else pure (s.bundle k).isGrouped

/-- lengths must agree on every axis that is not edited: taxa edits — the trait axis; trait edits — all taxa axes -/
def compatN (k : Kind) (m v : Tn (List α) r) : Bool :=
  match k with
  | .taxa => ((firstLeaf r m).map List.length) == ((firstLeaf r v).map List.length)
  | .trait => dimsN r m == dimsN r v
  | .vrnt => false

def adjoinMatN (k : Kind) (fill : α) (m v : Tn (List α) r) : Tn (List α) r :=
  match k with
  | .taxa => blockDiagN (List.replicate (((firstLeaf r m).map List.length).getD 0) fill) r m v
  | _ => zipLeaves (fun l lv => l ++ lv) r m v

def adjoinCoreN (k : Kind) (fill : α) (v : OperandN α lab r) (s : StN α lab r) : R (StN α lab r) := do
  if !supported r k then throw .unsupported
  if !compatN k s.mat v.mat then throw .value
  let cols ← zipCols (fun l lv => l ++ lv) (s.bundle k).cols v.cols
  pure { (s.setBundle k { cols := cols, grp := none }) with mat := adjoinMatN k fill s.mat v.mat }

def adjoinN (sch : SchN) (k : Kind) (fill : α) (v : OperandN α lab r) (s : StN α lab r) : R (StN α lab r) := do
  (newObjN sch k (← adjoinCoreN k fill v s)).checkCtor

def appendN (k : Kind) (fill : α) (v : OperandN α lab r) (s : StN α lab r) : R (StN α lab r) :=
  adjoinCoreN k fill v s

/-- numpy.insert on the data: taxa — along `taxa_axis = 0` only (D14), the operand is a block of rows whose
    other axes must match; trait — along the last axis, on every leaf -/
def insertMatN (k : Kind) (obj : InsIdx) (m v : Tn (List α) r) : R (Tn (List α) r) := do
  match k with
  | .taxa =>
    if (dimsN r m).tail != (dimsN r v).tail then throw .value
    let plan ← insPlan ((dimsN r m).headD 0) ((dimsN r v).headD 0) obj
    pure (axZipN plan.op 0 r m v)
  | .trait =>
    let plan ← insPlan (((firstLeaf r m).map List.length).getD 0) (((firstLeaf r v).map List.length).getD 0) obj
    pure (zipLeaves (plan.op α) r m v)
  | .vrnt => throw .unsupported

/-- integer positions: the single-axis `insert_trait` / `incorp_trait` wrap them into a one-element list
    (fix 74ad0b65); the square taxa methods pass them on to numpy.insert (leading axis: a block insert) -/
def wrapInsN (_k : Kind) : InsIdx → InsIdx
  | .int i => .list [i]
  | o => o

def insertCoreN (k : Kind) (obj : InsIdx) (v : OperandN α lab r) (s : StN α lab r) : R (StN α lab r) := do
  if !supported r k then throw .unsupported
  if !compatN k s.mat v.mat then throw .value
  let obj' := wrapInsN k obj
  let m ← insertMatN k obj' s.mat v.mat
  let cols ← zipColsM (insertCol obj') (s.bundle k).cols v.cols
  pure { (s.setBundle k { cols := cols, grp := none }) with mat := m }

def insertN (sch : SchN) (k : Kind) (obj : InsIdx) (v : OperandN α lab r) (s : StN α lab r) : R (StN α lab r) := do
  (newObjN sch k (← insertCoreN k obj v s)).checkCtor

def incorpN (k : Kind) (obj : InsIdx) (v : OperandN α lab r) (s : StN α lab r) : R (StN α lab r) :=
  insertCoreN k obj v s

/-- `concat_<k>(mats)`: taxa — along axis 0 only (D14); trait — along the last axis -/
def concatN (sch : SchN) (k : Kind) (mats : List (StN α lab r)) : R (StN α lab r) := do
  if !supported r k then throw .unsupported
  match mats with
  | [] => throw .value
  | s0 :: rest =>
    let bad := match k with
      | .taxa => rest.any (fun s => (dimsN r s.mat).tail != (dimsN r s0.mat).tail ||
                                    ((firstLeaf r s.mat).map List.length) != ((firstLeaf r s0.mat).map List.length))
      | _ => rest.any (fun s => dimsN r s.mat != dimsN r s0.mat)
    if bad then throw .value
    let m := match k with
      | .taxa => rest.foldl (fun m s => axZipN (fun _ l lv => l ++ lv) 0 r m s.mat) s0.mat
      | _ => rest.foldl (fun m s => zipLeaves (fun l lv => l ++ lv) r m s.mat) s0.mat
    let cols ← rest.foldlM (fun cols s => zipCols (fun l lv => l ++ lv) cols (s.bundle k).cols) (s0.bundle k).cols
    (newObjN sch k { (s0.setBundle k { cols := cols, grp := none }) with mat := m }).checkCtor

/-- generic dispatch of DenseSquareTaxaTraitMatrix: `axis in square_axes` → taxa, `axis == trait_axis` → trait -/
def dispatchN {δ : Type} (r : Nat) (axis : Int) (f : Kind → R δ) : R δ := do
  let a ← getAxis axis (r + 1)
  if a < r then f .taxa else f .trait

def padOperandN (noneLab : lab) (k : Kind) (s : StN α lab r) (v : OperandN α lab r) : OperandN α lab r :=
  let q := match k with
    | .taxa => (dimsN r v.mat).headD 0
    | _ => ((firstLeaf r v.mat).map List.length).getD 0
  { v with cols := padCols noneLab k q (s.bundle k).cols v.cols }

def operandStateN (s : StN α lab r) (k : Kind) (v : OperandN α lab r) : StN α lab r :=
  { (s.setBundle k { cols := v.cols, grp := none }) with mat := v.mat }

/-! ### histories of unary structural operations -/

inductive UOp (lab : Type) where
  | select (k : Kind) (is : List Int)
  | delete (k : Kind) (obj : DelIdx)
  | remove (k : Kind) (obj : DelIdx)
  | reorder (k : Kind) (is : List Int)
  | sort (k : Kind) (keys : Option (List (Option (List lab))))
  | group (k : Kind)
  | ungroup (k : Kind)

/-- the non-mutating methods (they build a new object: defect D27 applies to them) -/
def UOp.isPure : UOp lab → Bool
  | .select _ _ | .delete _ _ => true
  | _ => false

def stepU [BEq lab] (le : lab → lab → Bool) (sch : SchN) (op : UOp lab) (s : StN α lab r) : R (StN α lab r) :=
  match op with
  | .select k is => selectN sch k is s
  | .delete k obj => deleteN sch k obj s
  | .remove k obj => removeN k obj s
  | .reorder k is => reorderN k is s
  | .sort k keys => sortN le k keys s
  | .group k => groupN le k s
  | .ungroup k => ungroupN k s

def runU [BEq lab] (le : lab → lab → Bool) (sch : SchN) : List (UOp lab) → StN α lab r → R (StN α lab r)
  | [], s => pure s
  | op :: ops, s => do
    let s1 ← stepU le sch op s
    runU le sch ops s1

/-! ### the decidable Spec (evaluated on the implementation's states by the driver) -/

/-- a data cell with everything that labels it: one label tuple per taxa axis, the trait label tuple -/
structure LCellN (α lab : Type) where
  val : α
  tax : List (List (Option lab))
  trt : List (Option lab)
  deriving DecidableEq, Repr, Hashable

def lcellsN (s : StN α lab r) : List (LCellN α lab) :=
  (cellsWith r s.mat).flatMap (fun c =>
    c.2.zipIdx.map (fun vj => ⟨vj.1, c.1.map (labelsAt s.taxa), labelsAt s.trait vj.2⟩))

/-- rectangular data, all taxa axes equally long, every present label column as long as its axes -/
def consistentN (s : StN α lab r) : Bool :=
  let dims := dimsN r s.mat
  let t := ntrait s
  rectN r dims s.mat &&
  (cellsWith r s.mat).all (fun c => c.2.length == t) &&
  dims.all (fun d => d == ntaxa s) &&
  s.taxa.cols.all (fun c => match c with | none => true | some l => l.length == ntaxa s) &&
  s.trait.cols.all (fun c => match c with | none => true | some l => l.length == t)

def groupedN [BEq lab] (s : StN α lab r) : Bool :=
  (match s.taxa.grp with
   | none => true
   | some g => match (s.taxa.cols[1]?).join with
     | none => false
     | some col => partitionOK g col) &&
  s.trait.grp.isNone

end LabelMatN
