/-
Two small state machines next to Model/BVMat.lean (core Lean only, executed at `Rat` by the driver).

1. `Edit` / `applyEdit`: what a caller can do to ONE DenseBreedingValueMatrix object between two queries
   without going through a copy-on-manipulation method: write an element of the stored matrix
   (`b.mat[i, j] = v`), re-assign `b.mat`, `b.location`, `b.scale` (the property setters bind the array
   they are given), or call one of the inherited in-place taxa routines.  None of them touches anything
   but the attribute it names; `unscale()` and the statistics are recomputed from the attributes on
   every call (nothing is cached) — that is exactly what `BVMat.unscaleCol`, `tmax` … compute from a
   `Trait`, so a history of edits is a fold over `BV`.

2. `Scaled.Heap` / `Scaled.exec`: pybrops/core/mat/DenseScaledMatrix.py `transform`, `untransform`,
   `rescale`, `unscale` with their `copy` / `inplace` flags, on a heap of numpy arrays with identities, so
   that the model says WHICH array each call writes and WHICH array it returns:
     transform / untransform (mat, copy):  out = mat.copy() if copy else mat; two in-place updates of out
     rescale (inplace):  out = self.mat if inplace else self.mat.copy(); out is un-scaled, re-centred and
                         re-scaled in place; if inplace, `self.location` / `self.scale` are BOUND to two
                         new arrays (the old parameter arrays keep their contents)
     unscale (inplace):  out as above; if inplace, `self.scale[:] = 1.0; self.location[:] = 0.0` WRITE
                         INTO the existing parameter arrays
   An array is trait-major (`List (Col α)`, one column per trailing-axis index); a `(t,)` parameter vector
   is `t` columns of length 1.  A matrix with more than two axes is its `(-1, t)` reshape: every
   operation of the class reduces over / broadcasts along the trailing axis only.
-/
import PybropsModel.Model.BVMat

namespace BVMat

/-! ### direct edits of one breeding-value matrix object -/

inductive Edit (α : Type) where
  | setItem (j i : Nat) (v : Option α)        -- b.mat[i, j] = v     (trait j, taxon i)
  | setMat (cols : List (Col α))              -- b.mat = array       (same shape)
  | setLoc (loc : List (Option α))            -- b.location = array
  | setScale (scale : List (Option α))        -- b.scale = array     (entries >= 0 are accepted)
  | op (o : Op α)                             -- reorder_taxa / remove_taxa / append_taxa / incorp_taxa

section edit
variable {α : Type} [Add α] [Sub α] [Mul α] [Div α] [OfNat α 0] [OfNat α 1] [NatCast α] [DecidableEq α]
  [LT α] [DecidableLT α]

def setAt {β : Type} (l : List β) (i : Nat) (f : β → β) : List β :=
  l.zipIdx.map (fun p => if p.2 = i then f p.1 else p.1)

def applyEdit (sq : α → α) (needs : Bool) (e : Edit α) (b : BV α) : Except Err (BV α) :=
  match e with
  | .setItem j i v =>
      if j < b.traits.length ∧ i < b.taxa.length then
        .ok { b with traits := setAt b.traits j (fun tr => { tr with mat := tr.mat.set i v }) }
      else .error .index
  | .setMat cols =>
      if cols.length = b.traits.length then
        .ok { b with traits := List.zipWith (fun tr c => { tr with mat := c }) b.traits cols }
      else .error .shape
  | .setLoc loc =>
      if loc.length = b.traits.length then
        .ok { b with traits := List.zipWith (fun tr l => { tr with loc := l }) b.traits loc }
      else .error .shape
  | .setScale scale =>
      if scale.length = b.traits.length then
        .ok { b with traits := List.zipWith (fun tr s => { tr with scale := s }) b.traits scale }
      else .error .shape
  | .op o => applyOp sq needs o b

def runEdits (sq : α → α) (needs : Bool) : List (Edit α) → BV α → Except Err (BV α)
  | [], b => .ok b
  | e :: es, b => match applyEdit sq needs e b with
    | .ok b' => runEdits sq needs es b'
    | .error x => .error x

end edit

/-! ### `from_numpy` with the mean and deviation numpy actually delivers (defect D26 and its fix)

In floating point `numpy.nanmean` / `numpy.nanstd` return SOME value near the exact one: `mu` and `sd` below
are ARBITRARY functions of the observed values.  `fromNumpyColWith` is the code as it is (with the `const` guard
of the fix of D26: a trait whose observed values are all EQUAL — `fmin.reduce == fmax.reduce`, exact
comparisons of the values themselves — gets that value as location and scale 1, whatever `mu` and `sd`
evaluate to); `fromNumpyColWithPrerepair` is the code before the fix.  With the exact mean and deviation
`fromNumpyColWith` IS `fromNumpyCol` (`C15.from_numpy_with_exact`). -/
section rounding
variable {α : Type} [Add α] [Sub α] [Mul α] [Div α] [OfNat α 0] [OfNat α 1] [NatCast α] [DecidableEq α]
  [LT α] [DecidableLT α]

def fromNumpyColWithPrerepair (mu sd : List α → α) (c : Col α) : Trait α :=
  match present c with
  | [] => { mat := c.map (fun _ => none), loc := none, scale := none }
  | a :: l =>
    let loc := mu (a :: l)
    let scale := guardScale (sd (a :: l))
    { mat := c.map (standardise (some loc) (some scale)), loc := some loc, scale := some scale }

def fromNumpyColWith (mu sd : List α → α) (c : Col α) : Trait α :=
  match present c with
  | [] => { mat := c.map (fun _ => none), loc := none, scale := none }
  | a :: l =>
    if minL a l = maxL a l then
      { mat := c.map (standardise (some (minL a l)) (some 1)), loc := some (minL a l), scale := some 1 }
    else
      let loc := mu (a :: l)
      let scale := guardScale (sd (a :: l))
      { mat := c.map (standardise (some loc) (some scale)), loc := some loc, scale := some scale }

/-- `DenseScaledMatrix.rescale` with the mean and deviation numpy delivers (as of the fix of D26) -/
def rescaleColWith (mu sd : List α → α) (t : Trait α) : Trait α :=
  let out := scaledUnscaleCol t
  match present out with
  | [] => { mat := out.map (fun _ => none), loc := none, scale := none }
  | a :: l =>
    if minL a l = maxL a l then
      { mat := out.map (transformEntry (some (minL a l)) (some 1)), loc := some (minL a l), scale := some 1 }
    else
      let loc := mu (a :: l)
      let scale := guardScale (sd (a :: l))
      { mat := out.map (transformEntry (some loc) (some scale)), loc := some loc, scale := some scale }

/-! #### histories under any rounding

The four copy-on-manipulation methods are literally `from_numpy(edit(self.unscale()))` (for the exact
`F = fromNumpyCol sq` that is `applyOp`: `C15.applyOpWith_exact`).  `applyOpWith F` is the same with an
ARBITRARY standardiser `F` of one column in the place of `from_numpy`'s — in particular
`fromNumpyColWith mu sd` for whatever `numpy.nanmean` / `numpy.nanstd` deliver. -/

def fromNumpyF (F : Col α → Trait α) (cols : List (Col α)) (taxa : List Nat) : BV α :=
  { traits := cols.map F, taxa := taxa }

def applyOpWith (F : Col α → Trait α) (op : Op α) (b : BV α) : Except Err (BV α) :=
  match applyRaw op (unscale b, b.taxa) with
  | .ok r => .ok (fromNumpyF F r.1 r.2)
  | .error e => .error e

def runWith (F : Col α → Trait α) : List (Op α) → BV α → Except Err (BV α)
  | [], b => .ok b
  | op :: ops, b => match applyOpWith F op b with
    | .ok b' => runWith F ops b'
    | .error e => .error e

end rounding

/-! ### DenseScaledMatrix on a heap of arrays -/
namespace Scaled

abbrev Arr (α : Type) := List (Col α)

/-- the arrays that exist (identity = position; nothing is ever freed) and the three arrays the
    DenseScaledMatrix object is bound to -/
structure Heap (α : Type) where
  arrs : List (Arr α)
  mat : Nat
  loc : Nat
  scale : Nat
deriving Repr

inductive Src (α : Type) where
  | new (a : Arr α)     -- an array the caller creates for this call (it receives the next identity)
  | ref (i : Nat)       -- an array that already exists (possibly `self.mat` itself)

inductive Step (α : Type) where
  | transform (x : Src α) (copy : Bool)
  | untransform (x : Src α) (copy : Bool)
  | rescale (inplace : Bool)
  | unscale (inplace : Bool)

section
variable {α : Type}

def Heap.get (h : Heap α) (i : Nat) : Arr α := h.arrs.getD i []
def Heap.put (h : Heap α) (i : Nat) (a : Arr α) : Heap α := { h with arrs := h.arrs.set i a }
def Heap.alloc (h : Heap α) (a : Arr α) : Heap α × Nat := ({ h with arrs := h.arrs ++ [a] }, h.arrs.length)

/-- `a ∘= v` for an array `a` and a `(t,)` vector `v`: column `j` of `a` is combined entrywise with `v[j]` -/
def bcast (f : Option α → Option α → Option α) (a v : Arr α) : Arr α :=
  List.zipWith (fun c p => c.map (fun x => f x (p.head?.getD none))) a v

variable [Add α] [Sub α] [Mul α] [Div α] [OfNat α 0] [OfNat α 1] [NatCast α] [DecidableEq α]
  [LT α] [DecidableLT α]

/-- `1.0 / v` -/
def recipV (v : Arr α) : Arr α := v.map (fun p => p.map orecip)

/-- `out -= location; out *= (1.0 / scale)` -/
def centreScale (a loc scale : Arr α) : Arr α := bcast omul (bcast osub a loc) (recipV scale)
/-- `out *= scale; out += location` -/
def scaleShift (a loc scale : Arr α) : Arr α := bcast oadd (bcast omul a scale) loc

def Heap.src (h : Heap α) : Src α → Heap α × Nat
  | .new a => h.alloc a
  | .ref i => (h, i)

/-- `out = mat.copy() if copy else mat` -/
def Heap.work (h : Heap α) (i : Nat) (copy : Bool) : Heap α × Nat :=
  if copy then h.alloc (h.get i) else (h, i)

/-- one call; returns the heap afterwards and the identity of the returned array -/
def exec (sq : α → α) (h : Heap α) : Step α → Heap α × Nat
  | .transform x copy =>
      let (h1, xi) := h.src x
      let (h2, oi) := h1.work xi copy
      (h2.put oi (centreScale (h2.get oi) (h2.get h2.loc) (h2.get h2.scale)), oi)
  | .untransform x copy =>
      let (h1, xi) := h.src x
      let (h2, oi) := h1.work xi copy
      (h2.put oi (scaleShift (h2.get oi) (h2.get h2.loc) (h2.get h2.scale)), oi)
  | .rescale inplace =>
      let (h1, oi) := h.work h.mat (!inplace)
      let un := scaleShift (h1.get oi) (h1.get h1.loc) (h1.get h1.scale)
      -- new_location / new_scale with the `const` guard of the fix of D26 (`fitLoc` / `fitScale`)
      let newLoc : Arr α := un.map (fun c => [fitLoc c])
      let newScale : Arr α := un.map (fun c => [fitScale sq c])
      let h2 := h1.put oi (centreScale un newLoc newScale)
      if inplace then
        let (h3, li) := h2.alloc newLoc
        let (h4, si) := h3.alloc newScale
        ({ h4 with loc := li, scale := si }, oi)
      else (h2, oi)
  | .unscale inplace =>
      let (h1, oi) := h.work h.mat (!inplace)
      let h2 := h1.put oi (scaleShift (h1.get oi) (h1.get h1.loc) (h1.get h1.scale))
      if inplace then
        let h3 := h2.put h2.scale ((h2.get h2.scale).map (fun p => p.map (fun _ => some 1)))
        (h3.put h3.loc ((h3.get h3.loc).map (fun p => p.map (fun _ => some 0))), oi)
      else (h2, oi)

/-- the heap after each call of a history, with the identity each call returned -/
def trace (sq : α → α) : Heap α → List (Step α) → List (Heap α × Nat)
  | _, [] => []
  | h, s :: ss => let r := exec sq h s; r :: trace sq r.1 ss

/-- the object as the column model of Model/BVMat.lean sees it: one `Trait` per trailing-axis index -/
def Heap.traits (h : Heap α) : List (Trait α) :=
  (List.zip (h.get h.mat) (List.zip (h.get h.loc) (h.get h.scale))).map
    (fun p => { mat := p.1, loc := p.2.1.head?.getD none, scale := p.2.2.head?.getD none })

end
end Scaled
end BVMat
