/-
Spec-side definitions of C13 that are shared by the driver (`Drv/C13.lean`) and the proof files
(core Lean only, executable):

  * the published formulas in *accessor form* (`…FormulaF`): the same expressions as the `…Formula`s of
    `Model/Coancestry.lean`, with the genotype matrix entering through a function `Nat → Nat → α`.  The
    list forms are these with the accessor `entry X` (`…Formula_eq_F`, by `rfl`); the driver evaluates
    them with the constant-time accessor `at2 (arr2 X)` (`at2_arr2`: the same function), so that the Spec
    oracle can afford panels of several thousand markers.
  * the coancestry *object* as a labelled square matrix of `Model/LabelMat.lean` (C03's model): `toObj`,
    and the in-place operations `reorder_taxa` / `sort_taxa` / `group_taxa` of DenseSquareTaxaMatrix on it.
-/
import PybropsModel.Model.Coancestry
import PybropsModel.Model.LabelMat
set_option linter.unusedSectionVars false

namespace Coancestry

/-! ### formulas over an accessor -/
section formulasF
variable {α : Type} [Add α] [Sub α] [Mul α] [Div α] [OfNat α 0] [OfNat α 1] [NatCast α]

def ibsPhasedF [DecidableEq α] (pl : Nat) (g : Nat → Nat → Nat → α) (i j k : Nat) : α :=
  sumRange pl (fun a => sumRange pl (fun b =>
    if g a i k = g b j k then (1:α) else 0)) / ((pl * pl : Nat) : α)

def ibsCountF (ploidy : Nat) (x : Nat → Nat → α) (i j k : Nat) : α :=
  (x i k * x j k + ((ploidy : α) - x i k) * ((ploidy : α) - x j k)) / ((ploidy * ploidy : Nat) : α)

def vanradenFormulaF (ploidy m : Nat) (p : Nat → α) (x : Nat → Nat → α) (i j : Nat) : α :=
  sumRange m (fun k => (x i k - (ploidy : α) * p k) * (x j k - (ploidy : α) * p k))
    / ((ploidy : α) * sumRange m (fun k => p k * (1 - p k)))

def yangFormulaF (ploidy m : Nat) (p : Nat → α) (x : Nat → Nat → α) (i j : Nat) : α :=
  sumRange m (fun k => (x i k - (ploidy : α) * p k) * (x j k - (ploidy : α) * p k)
      / ((ploidy : α) * p k * (1 - p k))) / (m : α)

def gwFormulaF (m : Nat) (ploidy : Nat) (w p : Nat → α) (x : Nat → Nat → α) (i j : Nat) : α :=
  sumRange m (fun k => w k * (x i k - (ploidy : α) * p k) * (x j k - (ploidy : α) * p k))

def afreqFormulaF (ploidy n : Nat) (x : Nat → Nat → α) (k : Nat) : α :=
  sumRange n (fun i => x i k) / ((ploidy * n : Nat) : α)

theorem ibsPhased_eq_F [DecidableEq α] (g : List (List (List α))) (i j k : Nat) :
    ibsPhased g i j k = ibsPhasedF g.length (fun a => entry (g.getD a [])) i j k := rfl

theorem ibsCount_eq_F (ploidy : Nat) (X : List (List α)) (i j k : Nat) :
    ibsCount ploidy X i j k = ibsCountF ploidy (entry X) i j k := rfl

theorem vanradenFormula_eq_F (ploidy m : Nat) (p : List α) (X : List (List α)) (i j : Nat) :
    vanradenFormula ploidy m p X i j = vanradenFormulaF ploidy m (fun k => p.getD k 0) (entry X) i j := rfl

theorem yangFormula_eq_F (ploidy m : Nat) (p : List α) (X : List (List α)) (i j : Nat) :
    yangFormula ploidy m p X i j = yangFormulaF ploidy m (fun k => p.getD k 0) (entry X) i j := rfl

theorem gwFormula_eq_F (ploidy m : Nat) (w p : List α) (X : List (List α)) (i j : Nat) :
    gwFormula ploidy m w p X i j
      = gwFormulaF m ploidy (fun k => w.getD k 0) (fun k => p.getD k 0) (entry X) i j := rfl

theorem afreqFormula_eq_F (ploidy n : Nat) (X : List (List α)) (k : Nat) :
    afreqFormula ploidy n X k = afreqFormulaF ploidy n (entry X) k := rfl

end formulasF

/-! ### the four estimators behind one dispatch; factories and subclasses -/

inductive Estimator | molecular | vanraden | yang | gw
  deriving DecidableEq, Repr

def Estimator.ofString? : String → Option Estimator
  | "mol" => some .molecular | "vr" => some .vanraden | "yang" => some .yang | "gw" => some .gw
  | _ => none

section dispatch
variable {α : Type} [Add α] [Sub α] [Mul α] [Div α] [OfNat α 0] [OfNat α 1] [NatCast α]
  [LT α] [DecidableLT α] [DecidableEq α]

/-- `<Class>.from_gmat` after the argument checks: `w`, `p` are the marker weights / reference frequencies in
    force (the molecular estimator ignores both, VanRaden and Yang ignore `w`).  Yang is executed in its
    square-root free closed form (`yang_def`: equal to the form as written). -/
def estimate (e : Estimator) (ploidy m : Nat) (w p : List α) (X : List (List α)) : Except Err (List (List α)) :=
  match e with
  | .molecular => molecular ploidy m X
  | .vanraden => vanraden ploidy p X
  | .yang => yangClosed ploidy m p X
  | .gw => .ok (gw ploidy w p X)

/-- `fcty/Dense<…>CoancestryMatrixFactory.from_gmat(gmat, **args)`: every factory forwards its arguments to the
    class method of its class -/
def Factory.fromGmat (e : Estimator) (ploidy m : Nat) (w p : List α) (X : List (List α)) :
    Except Err (List (List α)) :=
  estimate e ploidy m w p X

/-- a user subclass inherits the class method; `cls` only decides the type of the object that is built -/
def Subclass.fromGmat (e : Estimator) (ploidy m : Nat) (w p : List α) (X : List (List α)) :
    Except Err (List (List α)) :=
  estimate e ploidy m w p X

end dispatch

/-! ### constant-time access for the driver -/

def arr1 {α : Type} (l : List α) : Array α := l.toArray
def arr2 {α : Type} (X : List (List α)) : Array (Array α) := (X.map List.toArray).toArray
def arr3 {α : Type} (g : List (List (List α))) : Array (Array (Array α)) := (g.map arr2).toArray

def at1 {α : Type} [OfNat α 0] (A : Array α) (k : Nat) : α := A.getD k 0
def at2 {α : Type} [OfNat α 0] (A : Array (Array α)) (i k : Nat) : α := (A.getD i #[]).getD k 0
def at3 {α : Type} [OfNat α 0] (A : Array (Array (Array α))) (a i k : Nat) : α := at2 (A.getD a #[]) i k

theorem at1_arr1 {α : Type} [OfNat α 0] (l : List α) (k : Nat) : at1 (arr1 l) k = l.getD k 0 := by
  simp [at1, arr1, Array.getD_eq_getD_getElem?, List.getD_eq_getElem?_getD]

theorem at2_arr2 {α : Type} [OfNat α 0] (X : List (List α)) (i k : Nat) : at2 (arr2 X) i k = entry X i k := by
  unfold at2 arr2 entry
  by_cases h : i < X.length
  · simp [Array.getD_eq_getD_getElem?, List.getD_eq_getElem?_getD, h]
  · simp [Array.getD_eq_getD_getElem?, List.getD_eq_getElem?_getD, List.getElem?_eq_none (Nat.le_of_not_lt h)]

theorem at3_arr3 {α : Type} [OfNat α 0] (g : List (List (List α))) (a i k : Nat) :
    at3 (arr3 g) a i k = entry (g.getD a []) i k := by
  unfold at3 arr3
  by_cases h : a < g.length
  · simp [Array.getD_eq_getD_getElem?, List.getD_eq_getElem?_getD, h, at2_arr2]
  · have : at2 (#[] : Array (Array α)) i k = entry ([] : List (List α)) i k := by
      simp [at2, entry]
    simp [Array.getD_eq_getD_getElem?, List.getD_eq_getElem?_getD, List.getElem?_eq_none (Nat.le_of_not_lt h), this]

/-! ### the coancestry object as a labelled square matrix (C03's `LabelMat`)

Taxon names travel as integer codes (order-preserving and injective on the names of one case), so one label
type serves both columns `[taxa, taxa_grp]` of the taxa bundle. -/

open LabelMat in
/-- DenseCoancestryMatrix: two data axes, both governed by the taxa bundle; square check in the setter -/
def cmatSchema : LabelMat.Schema :=
  { ndim := 2, taxaAx := [0, 1], vrntAx := [], traitAx := [], squareCheck := true }

/-- a 2-D array as the 3-level list of `LabelMat` (trailing singleton axis) -/
def embed {α : Type} (G : List (List α)) : LabelMat.Mat3 α := G.map (fun r => r.map (fun x => [x]))

/-- back to a 2-D array -/
def unembed {α : Type} [OfNat α 0] (M : LabelMat.Mat3 α) : List (List α) := M.map (fun r => r.map (fun c => c.headD 0))

abbrev Obj (α : Type) := LabelMat.St α Int

/-- the object built by `cls(mat = G, taxa = …, taxa_grp = …)` followed by the four metadata assignments -/
def toObj {α : Type} (G : List (List α)) (taxa grp : Option (List Int)) (gmeta : Option (LabelMat.Grp Int)) : Obj α :=
  { mat := embed G, taxa := { cols := [taxa, grp], grp := gmeta },
    vrnt := { cols := [], grp := none }, trait := { cols := [], grp := none } }

def intLe (a b : Int) : Bool := decide (a ≤ b)

/-- `reorder_taxa(indices)` (also reached through `reorder(indices, axis)`) -/
def reorderObj {α : Type} (is : List Int) (o : Obj α) : LabelMat.R (Obj α) :=
  LabelMat.reorderK cmatSchema .taxa is o
/-- `sort_taxa()` with the default keys `(taxa, taxa_grp)` (also `sort()`) -/
def sortObj {α : Type} (o : Obj α) : LabelMat.R (Obj α) := LabelMat.sortK intLe cmatSchema .taxa none o
/-- `group_taxa()` (also `group()`) -/
def groupObj {α : Type} (o : Obj α) : LabelMat.R (Obj α) := LabelMat.groupK intLe cmatSchema .taxa o
/-- `select_taxa(indices)`: a new object -/
def selectObj {α : Type} (is : List Int) (o : Obj α) : LabelMat.R (Obj α) :=
  LabelMat.selectK cmatSchema .taxa is o


/-! ### the Spec oracle (pure; the driver only decodes JSON and calls these)

Everything below is evaluated at `Rat` on the *implementation's* outputs.  `Lemmas/CoancestrySpecSound.lean` /
`Props/C13.lean` prove that the model's own outputs pass (`spec…_sound`) and tie the Boolean tests to the
propositions of the property theorems (`closeR_self`, `psdGo_sound`, …). -/
namespace Spec

abbrev QM := List (List Rat)

/-- size limits of the exact (rational) elimination oracles -/
def psdMaxN : Nat := 50
def invMaxN : Nat := 16

def absR (q : Rat) : Rat := if q < 0 then -q else q
def maxR (a b : Rat) : Rat := if a < b then b else a
def maxAbs (G : QM) : Rat := G.flatten.foldl (fun acc x => maxR acc (absR x)) 0

/-- tolerant equality: `|a-b| ≤ abs` or `|a-b| ≤ rel·max(|a|,|b|)` -/
def closeR (rel abs : Rat) (a b : Rat) : Bool :=
  let d := absR (a - b)
  d ≤ abs || d ≤ rel * maxR (absR a) (absR b)

def closeL (rel abs : Rat) (a b : List Rat) : Bool :=
  a.length == b.length && (List.zip a b).all (fun ab => closeR rel abs ab.1 ab.2)

def closeM (rel abs : Rat) (A B : QM) : Bool :=
  A.length == B.length && (List.zip A B).all (fun ab => closeL rel abs ab.1 ab.2)

def isSquare (n : Nat) (G : QM) : Bool := G.length == n && G.all (fun r => r.length == n)

/-- exact test `A ⪰ 0` for a symmetric rational matrix by symmetric elimination (Schur complements):
    a negative pivot, or a zero pivot with a non-zero row, refutes it -/
def psdGo : Nat → QM → Bool
  | 0, _ => true
  | _, [] => true
  | _, [] :: _ => true
  | fuel+1, (d :: r) :: rest =>
    if d < 0 then false
    else if d == 0 then r.all (· == 0) && psdGo fuel (rest.map (fun row => row.drop 1))
    else psdGo fuel (rest.map (fun row =>
      let c := row.headD 0
      List.zipWith (fun x y => x - (c / d) * y) (row.drop 1) r))

def symPart (G : QM) : QM :=
  let n := G.length
  (List.range n).map (fun i => (List.range n).map (fun j => (entry G i j + entry G j i) / 2))

def addDiag (shift : Rat) (S : QM) : QM :=
  S.zipIdx.map (fun ri => ri.1.zipIdx.map (fun xj => if xj.2 = ri.2 then xj.1 + shift else xj.1))

/-- `A + shift·I ⪰ 0` (A symmetrised first) -/
def psdShift (shift : Rat) (G : QM) : Bool := psdGo (G.length + 1) (addDiag shift (symPart G))

def matMul (A B : QM) : QM := Coancestry.mul (B.headD []).length A B

def identity (n : Nat) : QM := (List.range n).map (fun i => (List.range n).map (fun j => if i = j then 1 else 0))

/-- conditioning proxy of a matrix with exact inverse `Ai`: n·max|A|·max|A⁻¹| -/
def condProxy (A Ai : QM) : Rat := (A.length : Rat) * maxAbs A * maxAbs Ai

structure Check where
  name : String
  ok : Bool

/-! #### arguments -/

inductive Arg | none | scalar (q : Rat) | array (l : List Rat)

structure Gm where
  ploidy : Nat
  n : Nat
  m : Nat
  phased : Bool
  g3 : List (List (List Rat))     -- phase × taxa × marker (phased only)
  X : QM                           -- tacount view

/-- reference frequencies in force: estimated (`None`), repeated scalar, or the checked array -/
def resolveP (g : Gm) (a : Arg) : Except Err (List Rat) :=
  match a with
  | .none => .ok (afreq g.ploidy g.n g.m g.X)
  | .scalar q => if q < 0 || 1 < q then .error .range else .ok (List.replicate g.m q)
  | .array l => (checkP g.m l).map (fun _ => l)

/-- marker weights in force: ones (`None`), repeated non-negative scalar, or the array (length checked) -/
def resolveW (g : Gm) (a : Arg) : Except Err (List Rat) :=
  match a with
  | .none => .ok (List.replicate g.m 1)
  | .scalar q => if q < 0 then .error .range else .ok (List.replicate g.m q)
  | .array l => if l.length ≠ g.m then .error .shape else .ok l

def pInForce (g : Gm) (a : Arg) : List Rat :=
  match a with
  | .none => let x := at2 (arr2 g.X); (List.range g.m).map (afreqFormulaF g.ploidy g.n x)
  | .scalar q => List.replicate g.m q
  | .array l => l

def wInForce (g : Gm) (a : Arg) : List Rat :=
  match a with
  | .none => List.replicate g.m 1
  | .scalar q => List.replicate g.m q
  | .array l => l

/-- independent evaluation of the published formula, entry by entry.  The formulas are the `…FormulaF`
    accessor forms (equal to the list forms by `…Formula_eq_F`), read through the constant-time accessors
    `at2 (arr2 X)` = `entry X` (`at2_arr2`) -/
def formulaMat (e : Estimator) (g : Gm) (p w : List Rat) : QM :=
  let idx := List.range g.n
  let XA := arr2 g.X
  let GA := arr3 g.g3
  let pA := arr1 p
  let wA := arr1 w
  let x := at2 XA
  idx.map (fun i => idx.map (fun j =>
    match e with
    | .molecular =>
      if g.phased then molecularFormula g.m (ibsPhasedF g.g3.length (at3 GA)) i j
      else molecularFormula g.m (ibsCountF g.ploidy x) i j
    | .vanraden => vanradenFormulaF g.ploidy g.m (at1 pA) x i j
    | .yang => yangFormulaF g.ploidy g.m (at1 pA) x i j
    | .gw => gwFormulaF g.m g.ploidy (at1 wA) (at1 pA) x i j))

/-! #### taxa indices as the caller writes them -/

/-- `select_taxa(indices)` of the genotype matrix and of the square matrix both go through `numpy.take`, which
    reads a negative index relative to the end (once) and rejects anything else out of range: `LabelMat.normIdxs`
    (C03's model of the same rule).  `none` = IndexError. -/
def normSel (n : Nat) (is : List Int) : Option (List Nat) := (LabelMat.normIdxs n is).toOption

/-! #### a freshly built relationship matrix -/

/-- what was read back from the implementation's object -/
structure CmatObs where
  mat : QM
  co : QM
  kin : QM
  acc : List (List Rat)            -- [i, j, coancestry(i,j), kinship(i,j)]
  lab : Labels

/-- `from_gmat(gmat.select_taxa(is))` (a) and `from_gmat(gmat).select_taxa(is)` (b) -/
structure SelObs where
  is : List Nat
  Ga : QM
  Gb : QM
  ta : Option (List String)
  tb : Option (List String)
  ga : Option (List Int)
  gb : Option (List Int)

def relTol : Rat := 1/1000000000

/-- the checks on one matrix; `F` = formula matrix, tolerances relative to its largest entry (rounding of a Gram
    form Σ_k w_k z_ik z_jk is bounded by eps·m·(largest diagonal entry); no floor: tiny weights give a tiny matrix) -/
def specCmatWith (n : Nat) (F : QM) (labS : Labels) (o : CmatObs) (sel : Option SelObs) : List Check :=
  let G := o.mat
  let scale := maxAbs F
  let idx := List.range n
  [ ⟨"shape", isSquare n G⟩,
    ⟨"formula", closeM relTol (scale / 100000000000) G F⟩,
    ⟨"coancestry_view_is_mat", o.co == G⟩,
    ⟨"kinship_exactly_half", o.kin == mapMat (fun x => x / 2) G⟩,
    ⟨"accessors", o.acc.all (fun a =>
        let i := (a.getD 0 0).num.toNat
        let k := (a.getD 1 0).num.toNat
        a.getD 2 0 == entry G i k && a.getD 3 0 * 2 == entry G i k)⟩,
    ⟨"symmetric", idx.all (fun i => idx.all (fun k =>
        absR (entry G i k - entry G k i) ≤ scale / 1000000000000))⟩,
    -- exact elimination is cubic in rationals of growing size: beyond `psdMaxN` taxa positive semidefiniteness
    -- is covered by "formula" (the formula matrix is a Gram matrix) only
    ⟨"psd_up_to_rounding", decide (n > psdMaxN) || psdShift (scale / 1000000000) G⟩,
    ⟨"taxa_carried", o.lab.taxa == labS.taxa⟩,
    ⟨"taxa_grp_carried", o.lab.taxaGrp == labS.taxaGrp⟩,
    ⟨"group_metadata_carried", decide (o.lab.grpMeta = labS.grpMeta)⟩ ] ++
  (match sel with
   | none => []
   | some s =>
     let want := selectSq s.is G
     [ ⟨"select_commutes", closeM relTol (scale / 100000000000) s.Ga want
                            && closeM relTol (scale / 100000000000) s.Gb want⟩,
       ⟨"select_labels", s.ta == labS.taxa.map (Np.take s.is) && s.tb == s.ta
                          && s.ga == labS.taxaGrp.map (Np.take s.is) && s.gb == s.ga⟩ ])

def specCmat (e : Estimator) (g : Gm) (pa wa : Arg) (labS : Labels) (o : CmatObs) (sel : Option SelObs) :
    List Check :=
  specCmatWith g.n (formulaMat e g (pInForce g pa) (wInForce g wa)) labS o sel

/-! #### summaries -/

/-- the summaries of one format as read back from the implementation -/
structure SummObs where
  mxA : Rat
  mxR : List Rat
  mxC : List Rat
  mnA : Rat
  mnR : List Rat
  mnC : List Rat
  meA : Rat
  meR : List Rat
  meC : List Rat
  mib : Rat
  view : QM
  inv : Option QM
  minInb : Option Rat
  isPsd : Option Bool
  psdTol : List (Rat × Bool)

/-- summaries of the implementation's own matrix `A` (format `kin`) against exact evaluation -/
def specSumm (kin : Bool) (A : QM) (s : SummObs) (tag : String) (symmetric : Bool) : List Check :=
  let B : QM := if kin then mapMat (fun x => x / 2) A else A
  let rel : Rat := relTol
  let abs : Rat := maxAbs A / 100000000000
  [ ⟨tag ++ ".view", s.view == B⟩,
    ⟨tag ++ ".max", some s.mxA == maxAll B && some s.mxR == maxRows B && some s.mxC == maxCols B⟩,
    ⟨tag ++ ".min", some s.mnA == minAll B && some s.mnR == minRows B && some s.mnC == minCols B⟩,
    ⟨tag ++ ".mean", closeR rel abs s.meA (meanAll B) && closeL rel abs s.meR (meanRows B)
                      && closeL rel abs s.meC (meanCols B)⟩,
    ⟨tag ++ ".max_inbreeding", some s.mib == maxInbreeding B⟩ ] ++
  -- inverse and minimum inbreeding: only where the exact inverse exists and the problem is well conditioned
  (match (if B.length ≤ invMaxN then inverse B else none) with
   | none => []
   | some Bi =>
     if condProxy B Bi ≤ 10000 then
       let tol := maxAbs Bi / 1000000
       let tot := sumAll Bi
       [ ⟨tag ++ ".inverse", match s.inv with
           | none => false
           | some I => isSquare B.length I &&
               (List.zip I.flatten Bi.flatten).all (fun ab => absR (ab.1 - ab.2) ≤ tol) &&
               closeM 0 (1/1000000) (matMul B I) (identity B.length)⟩ ] ++
       (if absR tot * 1000 ≥ maxAbs Bi then
          [ ⟨tag ++ ".min_inbreeding", match s.minInb with
              | none => false
              | some x => closeR (1/1000000) 0 x (1 / tot)⟩ ]
        else [])
     else []) ++
  -- is_positive_semidefinite (contract on the eigen-solver): `True` only for a matrix that is PSD up to rounding,
  -- and `True` for every clearly positive definite one; with an explicit tolerance (negative counts as 0):
  -- `True` only if every eigenvalue is ≥ tol up to rounding, `True` whenever all are clearly ≥ tol
  (if symmetric && !kin && A.length ≤ psdMaxN then
     let scale := maxR 1 (maxAbs A)
     (match s.isPsd with
      | none => []
      | some b =>
        [ ⟨tag ++ ".is_psd_sound", !b || psdShift (scale / 1000000000) A⟩,
          ⟨tag ++ ".is_psd_complete", b || !psdShift (-(scale / 1000000)) A⟩ ]) ++
     s.psdTol.flatMap (fun tb =>
        let t0 := maxR 0 tb.1
        [ ⟨tag ++ ".is_psd_tol_sound", !tb.2 || psdShift (-t0 + scale / 1000000000) A⟩,
          ⟨tag ++ ".is_psd_tol_complete", tb.2 || !psdShift (-t0 - scale / 1000000) A⟩ ])
   else [])

/-- what the model of `DenseCoancestryMatrix` reports for one format: every summary is computed on the stored
    (coancestry) matrix and scaled by `fmt` (`0.5 *` for "kinship"), the inverse is taken of the view, the minimum
    inbreeding from the inverse of the stored matrix — exactly what `Drv.C13.summJson` prints -/
def summOfModel (kin : Bool) (G : QM) : Option SummObs := do
  let f : Rat → Rat := fmt kin
  let mxA ← maxAll G
  let mxR ← maxRows G
  let mxC ← maxCols G
  let mnA ← minAll G
  let mnR ← minRows G
  let mnC ← minCols G
  let mib ← maxInbreeding G
  pure { mxA := f mxA, mxR := mxR.map f, mxC := mxC.map f, mnA := f mnA, mnR := mnR.map f, mnC := mnC.map f,
         meA := f (meanAll G), meR := (meanRows G).map f, meC := (meanCols G).map f, mib := f mib,
         view := asFormat kin G,
         inv := if G.length ≤ invMaxN then inverseFmt kin G else none,
         minInb := if G.length ≤ invMaxN then minInbreeding kin G else none,
         isPsd := none, psdTol := [] }

/-- the model's object for one estimator, as the Spec reads it back: matrix, both views, every accessor pair -/
def cmatOfModel (n : Nat) (G : QM) (lab : Labels) : CmatObs :=
  { mat := G, co := asFormat false G, kin := asFormat true G,
    acc := (List.range n).flatMap (fun i => (List.range n).map (fun j =>
      [((i : Nat) : Rat), ((j : Nat) : Rat), coancestryAt G i j, kinshipAt G i j])),
    lab := lab }

/-- the inputs the property quantifies over, per estimator, with the frequencies `p` / weights `w` in force:
    a rectangular count matrix; molecular: ploidy 1 or 2, at least one marker (phased: the 0/1 alleles per phase,
    whose sum is the count matrix); VanRaden: frequencies in [0,1], one of them strictly inside; Yang: all strictly
    inside, at least one marker; generalised weighted: non-negative weights -/
def Valid (e : Estimator) (g : Gm) (p w : List Rat) : Prop :=
  g.X.length = g.n ∧ (∀ r ∈ g.X, r.length = g.m) ∧
  match e with
  | .molecular =>
      (g.ploidy = 1 ∨ g.ploidy = 2) ∧ 0 < g.m ∧
      (g.phased = true → g.g3.length = g.ploidy ∧ g.X = tacountPhased g.g3 ∧
        (∀ ph ∈ g.g3, ph.length = g.n ∧ ∀ r ∈ ph, r.length = g.m) ∧
        ∀ ph ∈ g.g3, ∀ i < g.n, ∀ k < g.m, entry ph i k = 0 ∨ entry ph i k = 1)
  | .vanraden =>
      p.length = g.m ∧ 0 < g.ploidy ∧ (∀ k < g.m, 0 ≤ p.getD k 0 ∧ p.getD k 0 ≤ 1) ∧
      ∃ k < g.m, 0 < p.getD k 0 ∧ p.getD k 0 < 1
  | .yang =>
      p.length = g.m ∧ 0 < g.ploidy ∧ 0 < g.m ∧ ∀ k < g.m, 0 < p.getD k 0 ∧ p.getD k 0 < 1
  | .gw =>
      p.length = g.m ∧ w.length = g.m ∧ ∀ k < g.m, 0 ≤ w.getD k 0

/-! #### in-place re-ordering of the object -/

inductive ObjOp | reorder (is : List Int) | sort | group | select (is : List Int)

def applyObjOp (op : ObjOp) (o : Obj Rat) : LabelMat.R (Obj Rat) :=
  match op with
  | .reorder is => reorderObj is o
  | .sort => sortObj o
  | .group => groupObj o
  | .select is => selectObj is o

/-- `pre`: the object before the call, `post`: the object afterwards (for `select_taxa`: the returned object) -/
def specReorder (op : ObjOp) (pre post : Obj Rat) : List Check :=
  match applyObjOp op pre with
  | .error e => [⟨"model rejects: " ++ e.tag, false⟩]
  | .ok want =>
    [ ⟨"reordered_matrix", decide (post.mat = want.mat)⟩,
      ⟨"reordered_taxa", decide (post.taxa.cols[0]? = want.taxa.cols[0]?)⟩,
      ⟨"reordered_taxa_grp", decide (post.taxa.cols[1]? = want.taxa.cols[1]?)⟩,
      ⟨"group_metadata_after", decide (post.taxa.grp = want.taxa.grp)⟩ ]

end Spec

end Coancestry
