/-
The decidable Spec oracle of C16 for stored / copied objects: observable equality of two object states
(`want` = the object written last or the source of a copy, `got` = what was read back / the copy),
field by field in the class's field order: same field names, same dtype, shape and values; nested
dictionaries (`hyperparams`) compare as finite maps.  Evaluated by the driver op `c16.spec_obj` on the
IMPLEMENTATION's outputs on every case.  Core Lean only.
-/
import PybropsModel.Model.Store

namespace StoreSpec
open Store

/-- dictionaries compare as finite maps: same size, every entry of `a` found in `b` -/
def dictEq (a b : List (String × Option DS)) : Bool :=
  a.length == b.length && a.all (fun kv => b.lookup kv.1 == some kv.2)

def itemEq : Item → Item → Bool
  | .dict a, .dict b => dictEq a b
  | x, y => x == y

/-- names of the fields in which the two states differ (position by position) -/
def diffKeys (want got : Obj) : List String :=
  ((List.zip want got).filter (fun p => !(p.1.1 == p.2.1 && itemEq p.1.2 p.2.2))).map (·.1.1)

/-- **the Spec**: the two states have the same fields, each observably equal -/
def specObj (want got : Obj) : Bool := want.length == got.length && (diffKeys want got).isEmpty

end StoreSpec
