/-
Model of the linear genomic models of pybrops (core Lean only; executed at `Rat`).

  pybrops/model/gmod/DenseLinearGenomicModel.py                  predict/score/gebv/var_*/bulmer
  pybrops/model/gmod/DenseAdditiveLinearGenomicModel.py          + facount … dapoly, nafixed, napoly
  pybrops/model/gmod/DenseAdditiveDominanceLinearGenomicModel.py gegv/predict with Z = [A | D]
  pybrops/popgen/gmat/Dense(Phased)GenotypeMatrix.py             mat_asformat("{0,1,2}"), acount, afreq
  pybrops/breed/prot/bv/TrueBreedingValue.py                     estimate = gpmod.gebv(gtobj)

Matrices are row-major nested lists.  Genotypes are integer matrices (`List (List Int)`), a phased
genotype is a list of such matrices (one per chromosome phase).  Effects `u` are `(p,t)`, fixed
effects `beta` are `(q,t)`; `t` (number of traits) is passed explicitly where numpy reads it from
`beta.shape[1]`.
-/
import PybropsModel.Np

namespace GMod

/-! ### genotype codings -/

/-- entrywise sum of two integer matrices -/
def iadd (A B : List (List Int)) : List (List Int) := List.zipWith (List.zipWith (· + ·)) A B

/-- `DensePhasedGenotypeMatrix.mat_asformat("{0,1,2}")`: `mat.sum(0)` over the phase axis -/
def phaseSum : List (List (List Int)) → List (List Int)
  | [] => []
  | g :: gs => gs.foldl iadd g

/-- heterozygosity indicator of the genotype-matrix branch: `(A != 0) & (A != ploidy)` -/
def hetGM (ploidy : Int) (A : List (List Int)) : List (List Int) :=
  A.map (fun r => r.map (fun a => if a ≠ 0 ∧ a ≠ ploidy then 1 else 0))

/-- heterozygosity indicator of the raw `numpy.ndarray` branch: `gtobj == 1` -/
def hetRaw (A : List (List Int)) : List (List Int) :=
  A.map (fun r => r.map (fun a => if a = 1 then 1 else 0))

/-- `numpy.concatenate([A, D], axis = 1)` -/
def hcat {β : Type} (A D : List (List β)) : List (List β) := List.zipWith (· ++ ·) A D

/-- `acount`: column sums of the dosage matrix (`p` = number of markers) -/
def acount (p : Nat) (A : List (List Int)) : List Int :=
  (List.range p).map (fun j => (A.map (fun r => r.getD j 0)).sum)

section lin
variable {α : Type} [Add α] [Mul α] [Zero α]

def dot (a b : List α) : α := (List.zipWith (· * ·) a b).sum

/-- column `k` of a row-major matrix -/
def col (M : List (List α)) (k : Nat) : List α := M.map (fun r => r.getD k 0)

/-- numpy `Z @ U` where `U` has `t` columns -/
def matMul (Z U : List (List α)) (t : Nat) : List (List α) :=
  Z.map (fun z => (List.range t).map (fun k => dot z (col U k)))

def vadd (a b : List α) : List α := List.zipWith (· + ·) a b
def madd (A B : List (List α)) : List (List α) := List.zipWith vadd A B

/-- `Y_hat = (X @ beta) + (Z @ u)` -/
def predictNumpy (beta u X Z : List (List α)) (t : Nat) : List (List α) :=
  madd (matMul X beta t) (matMul Z u t)

end lin

section cast
variable {α : Type} [IntCast α]
/-- an integer genotype matrix used as a float matrix -/
def castM (A : List (List Int)) : List (List α) := A.map (fun r => r.map (fun (a : Int) => (Int.cast a : α)))
end cast

section gebv
variable {α : Type} [Add α] [Mul α] [Div α] [Zero α] [One α] [NatCast α] [IntCast α]

/-- `Xstar[0,0] = 1 ; Xstar[0,1:] = 1/nfixed` -/
def xstar (q : Nat) : List α := (List.range q).map (fun r => if r = 0 then (1 : α) else (1 : α) / (q : α))

/-- `location = Xstar @ beta`, shape `(1,t)`, returned as its only row -/
def location (beta : List (List α)) (t : Nat) : List α :=
  (List.range t).map (fun k => dot (xstar beta.length) (col beta k))

/-- `gebv_numpy(Z)` followed by `gebv_hat += location` (broadcast over rows) -/
def gebvMat (beta u : List (List α)) (Z : List (List α)) (t : Nat) : List (List α) :=
  (matMul Z u t).map (fun r => vadd r (location beta t))

/-- labelled result of `gebv` / `gegv` / `predict`: values with the input's taxa labels -/
structure Labelled (α : Type) (L G : Type) where
  mat : List (List α)
  taxa : Option (List L)
  taxa_grp : Option (List G)

/-- `gebv(gtobj)` for a phased genotype matrix -/
def gebvPhased {L G : Type} (beta ua : List (List α)) (t : Nat) (g : List (List (List Int)))
    (taxa : Option (List L)) (grp : Option (List G)) : Labelled α L G :=
  ⟨gebvMat beta ua (castM (phaseSum g)) t, taxa, grp⟩

/-- `gebv(gtobj)` for an unphased genotype matrix (`mat_asformat` is a copy) -/
def gebvUnphased {L G : Type} (beta ua : List (List α)) (t : Nat) (A : List (List Int))
    (taxa : Option (List L)) (grp : Option (List G)) : Labelled α L G :=
  ⟨gebvMat beta ua (castM A) t, taxa, grp⟩

/-- `gebv(gtobj)` for a raw dosage array: no labels -/
def gebvRaw {L G : Type} (beta ua : List (List α)) (t : Nat) (A : List (List Int)) : Labelled α L G :=
  ⟨gebvMat beta ua (castM A) t, none, none⟩

/-- dominance model `gegv` on a genotype matrix of the given ploidy (already in dosage form):
    `Z = [A | D]`, `U = [u_a ; u_d]` -/
def gegvGM (beta ua ud : List (List α)) (t : Nat) (ploidy : Int) (A : List (List Int)) : List (List α) :=
  gebvMat beta (ua ++ ud) (castM (hcat A (hetGM ploidy A))) t

/-- labelled result of the dominance model's `gegv` on a phased genotype matrix of the given ploidy -/
def gegvPhased {L G : Type} (beta ua ud : List (List α)) (t : Nat) (ploidy : Int) (g : List (List (List Int)))
    (taxa : Option (List L)) (grp : Option (List G)) : Labelled α L G :=
  ⟨gegvGM beta ua ud t ploidy (phaseSum g), taxa, grp⟩

/-- `TrueBreedingValue.estimate(ptobj, gtobj)` = `gpmod.gebv(gtobj)`: the phenotype object (any type `P`:
    `None`, array, data frame, breeding value matrix with its own taxa) is not consulted -/
def tbvEstimate {P L G : Type} (beta ua : List (List α)) (t : Nat) (_ptobj : P) (g : List (List (List Int)))
    (taxa : Option (List L)) (grp : Option (List G)) : Labelled α L G :=
  gebvPhased beta ua t g taxa grp

/-- dominance model `gegv` on a raw array: `D = (gtobj == 1)` -/
def gegvRaw (beta ua ud : List (List α)) (t : Nat) (A : List (List Int)) : List (List α) :=
  gebvMat beta (ua ++ ud) (castM (hcat A (hetRaw A))) t

/-- dominance model `predict` on a genotype matrix -/
def predictDomGM (beta ua ud X : List (List α)) (t : Nat) (ploidy : Int) (A : List (List Int)) :
    List (List α) :=
  predictNumpy beta (ua ++ ud) X (castM (hcat A (hetGM ploidy A))) t

end gebv

section stats
variable {α : Type} [Add α] [Mul α] [Sub α] [Div α] [Zero α] [One α] [NatCast α] [IntCast α]
  [DecidableEq α]

def mean (l : List α) : α := l.sum / (l.length : α)

/-- numpy `x.var()` (population variance) -/
def var (l : List α) : α :=
  let m := mean l          -- bound once: numpy computes the mean once (and the interpreter should too)
  mean (l.map (fun x => (x - m) * (x - m)))

/-- `M.var(0)` for a matrix with `t` columns -/
def varCols (M : List (List α)) (t : Nat) : List α := (List.range t).map (fun k => var (col M k))

/-- `var_A_numpy` / `var_G_numpy` of the additive model: variance of `Z @ u_a` (no location) -/
def varA (ua : List (List α)) (Z : List (List α)) (t : Nat) : List α := varCols (matMul Z ua t) t

/-- dominance `var_G_numpy`: variance of `[A|D] @ [u_a;u_d]` -/
def varGDom (ua ud : List (List α)) (t : Nat) (ploidy : Int) (A : List (List Int)) : List α :=
  varCols (matMul (castM (hcat A (hetGM ploidy A))) (ua ++ ud) t) t

/-- allele frequencies `acount / (ploidy * ntaxa)` (division form, after fix D1) -/
def afreq (ploidy : Nat) (A : List (List Int)) (p : Nat) : List α :=
  (acount p A).map (fun (c : Int) => (Int.cast c : α) / (Nat.cast (ploidy * A.length) : α))

/-- `var_a_numpy(p, ploidy) = ploidy**2 * ((u_a**2) * p * (1-p)).sum(0)` -/
def varGenic (ua : List (List α)) (freq : List α) (ploidy : Nat) (t : Nat) : List α :=
  (List.range t).map (fun k =>
    ((ploidy : α) * (ploidy : α)) *
      (List.zipWith (fun u f => (u * u) * f * (1 - f)) (col ua k) freq).sum)

/-- `bulmer_numpy`: `var_A / var_a`, NaN (`none`) where `var_a == 0` -/
def bulmer (ua : List (List α)) (Z : List (List α)) (freq : List α) (ploidy : Nat) (t : Nat) :
    List (Option α) :=
  List.zipWith (fun sA sa => if sa = 0 then none else some (sA / sa)) (varA ua Z t) (varGenic ua freq ploidy t)

/-- `score_numpy`: `1 - SSE/SST` per trait; `none` where `SST == 0` (numpy gives nan / -inf) -/
def score (beta u Y X Z : List (List α)) (t : Nat) : List (Option α) :=
  let Yhat := predictNumpy beta u X Z t
  (List.range t).map (fun k =>
    let y := col Y k
    let sse := (List.zipWith (fun a b => (a - b) * (a - b)) y (col Yhat k)).sum
    let sst := (y.map (fun a => (a - mean y) * (a - mean y))).sum
    if sst = 0 then none else some (1 - sse / sst))

end stats

/-! ### miscellaneous random effects (`u = concatenate([u_misc, u_a(, u_d)])`) and breeding-value
    matrices as phenotype input (`ptobj.unscale()`) -/

section misc
variable {α : Type} [Add α] [Mul α] [Sub α] [Div α] [Zero α] [One α] [NatCast α] [IntCast α]
  [DecidableEq α]

/-- additive model, `predict_numpy(X, Z)` with `Z = [Z_misc | Z_a]` and `u = [u_misc ; u_a]` -/
def predictNumpyMisc (beta um ua X Zm Za : List (List α)) (t : Nat) : List (List α) :=
  predictNumpy beta (um ++ ua) X (hcat Zm Za) t

/-- dominance model, `predict_numpy(X, Z)` with `Z = [Z_misc | A | D]`, `u = [u_misc ; u_a ; u_d]` -/
def predictNumpyDomMisc (beta um ua ud X Zm : List (List α)) (t : Nat) (ploidy : Int)
    (A : List (List Int)) : List (List α) :=
  predictNumpy beta (um ++ (ua ++ ud)) X (hcat Zm (castM (hcat A (hetGM ploidy A)))) t

/-- `predict(cvobj, gtobj)` of the additive model: `Z` is the dosage matrix only, so the shape check
    `Z.shape[1] == nexplan_u` rejects the call when miscellaneous effects are present -/
def predictGM (beta um ua X : List (List α)) (A : List (List Int)) (t : Nat) :
    Except String (List (List α)) :=
  if um.length = 0 then .ok (predictNumpy beta (um ++ ua) X (castM A) t) else .error "value"

/-- `score_numpy` with miscellaneous effects -/
def scoreMisc (beta um ua Y X Zm Za : List (List α)) (t : Nat) : List (Option α) :=
  score beta (um ++ ua) Y X (hcat Zm Za) t

/-- `DenseBreedingValueMatrix.unscale()`: `scale * mat + location` (dense, per trait column) -/
def unscaleBV (mat : List (List α)) (loc scale : List α) : List (List α) :=
  mat.map (fun r => List.zipWith (fun (x : α) (ms : α × α) => ms.2 * x + ms.1) r (List.zip loc scale))

/-- `from_numpy`'s standardisation `(1/scale) * (Y - location)` for given location / scale -/
def standardiseBV (Y : List (List α)) (loc scale : List α) : List (List α) :=
  Y.map (fun r => List.zipWith (fun (y : α) (ms : α × α) => ((1 : α) / ms.2) * (y - ms.1)) r (List.zip loc scale))

/-- `score(ptobj = BreedingValueMatrix, …)`: `Y = ptobj.unscale()` -/
def scoreBV (beta u mat : List (List α)) (loc scale : List α) (X Z : List (List α)) (t : Nat) :
    List (Option α) :=
  score beta u (unscaleBV mat loc scale) X Z t

end misc

/-! ### favourable / deleterious / neutral alleles (integers and booleans only) -/

section alleles
variable {α : Type} [Zero α] [LT α] [DecidableLT α] [DecidableEq α]

/-- `numpy.where(u_a > 0, acount, maxfav - acount)` then `out[u_a == 0] = 0`, one cell -/
def faCell (maxfav : Int) (u : α) (ac : Int) : Int :=
  if u = 0 then 0 else if 0 < u then ac else maxfav - ac

/-- `numpy.where(u_a < 0, acount, maxfav - acount)` then `out[u_a == 0] = 0`, one cell -/
def daCell (maxfav : Int) (u : α) (ac : Int) : Int :=
  if u = 0 then 0 else if u < 0 then ac else maxfav - ac

/-- broadcast of a per-marker count `(p,1)` against the effects `(p,t)` -/
def cellMap {β : Type} (f : α → Int → β) (ua : List (List α)) (ac : List Int) : List (List β) :=
  List.zipWith (fun urow a => urow.map (fun u => f u a)) ua ac

def facount (ua : List (List α)) (ploidy : Nat) (A : List (List Int)) : List (List Int) :=
  cellMap (faCell ((ploidy * A.length : Nat) : Int)) ua (acount ua.length A)

def dacount (ua : List (List α)) (ploidy : Nat) (A : List (List Int)) : List (List Int) :=
  cellMap (daCell ((ploidy * A.length : Nat) : Int)) ua (acount ua.length A)

def mapM2 {β γ : Type} (f : β → γ) (M : List (List β)) : List (List γ) := M.map (fun r => r.map f)

def faavail (ua : List (List α)) (ploidy : Nat) (A : List (List Int)) : List (List Bool) :=
  mapM2 (fun c => decide (0 < c)) (facount ua ploidy A)
def fafixed (ua : List (List α)) (ploidy : Nat) (A : List (List Int)) : List (List Bool) :=
  mapM2 (fun c => decide (c = ((ploidy * A.length : Nat) : Int))) (facount ua ploidy A)
def fapoly (ua : List (List α)) (ploidy : Nat) (A : List (List Int)) : List (List Bool) :=
  mapM2 (fun c => decide (0 < c) && decide (c < ((ploidy * A.length : Nat) : Int))) (facount ua ploidy A)
def daavail (ua : List (List α)) (ploidy : Nat) (A : List (List Int)) : List (List Bool) :=
  mapM2 (fun c => decide (0 < c)) (dacount ua ploidy A)
def dafixed (ua : List (List α)) (ploidy : Nat) (A : List (List Int)) : List (List Bool) :=
  mapM2 (fun c => decide (c = ((ploidy * A.length : Nat) : Int))) (dacount ua ploidy A)
def dapoly (ua : List (List α)) (ploidy : Nat) (A : List (List Int)) : List (List Bool) :=
  mapM2 (fun c => decide (0 < c) && decide (c < ((ploidy * A.length : Nat) : Int))) (dacount ua ploidy A)

/-- `((acount == 0) | (acount == maxfav)) & (u_a == 0)` -/
def nafixed (ua : List (List α)) (ploidy : Nat) (A : List (List Int)) : List (List Bool) :=
  cellMap (fun u a => (decide (a = 0) || decide (a = ((ploidy * A.length : Nat) : Int))) && decide (u = 0))
    ua (acount ua.length A)
/-- `((acount > 0) & (acount < maxfav)) & (u_a == 0)` -/
def napoly (ua : List (List α)) (ploidy : Nat) (A : List (List Int)) : List (List Bool) :=
  cellMap (fun u a => (decide (0 < a) && decide (a < ((ploidy * A.length : Nat) : Int))) && decide (u = 0))
    ua (acount ua.length A)

end alleles

section freq
variable {α : Type} [Div α] [NatCast α] [IntCast α]
/-- `facount(gmat) / (ploidy * ntaxa)` (also used for `dafreq`) -/
def countFreq (cnt : List (List Int)) (ploidy ntaxa : Nat) : List (List α) :=
  mapM2 (fun (c : Int) => (Int.cast c : α) / (Nat.cast (ploidy * ntaxa) : α)) cnt
end freq

/-! ### definitions "on the raw genotypes" used by the Spec oracle and the theorems -/

/-- number of copies of the favourable allele carried by one taxon at one marker -/
def favDosage {α : Type} [Zero α] [LT α] [DecidableLT α] [DecidableEq α]
    (ploidy : Nat) (u : α) (z : Int) : Int :=
  if u = 0 then 0 else if 0 < u then z else (ploidy : Int) - z

/-- number of copies of the deleterious allele carried by one taxon at one marker -/
def delDosage {α : Type} [Zero α] [LT α] [DecidableLT α] [DecidableEq α]
    (ploidy : Nat) (u : α) (z : Int) : Int :=
  if u = 0 then 0 else if u < 0 then z else (ploidy : Int) - z

end GMod
