/-
IEEE-754 round-to-nearest, ties-to-even for a binary format with `t` stored significand bits (binary64: t = 52,
binary32: t = 23, binary16: t = 10), as a function ℚ → ℚ with unbounded exponent range (no overflow, no subnormals:
exact for the frequencies the statistics form, which are ≥ 1/(ploidy·ntaxa) ≥ 2⁻¹¹ in binary16 populations the
property's exactness clause can speak about).  `roundBin 52` IS `Binary64.roundBinary64` (Lemmas/BinaryFloat).
numpy's cast of a binary64 value to a narrower float rounds the same way, so `afreq("float32")` returns
`roundBin 23 (roundBin 52 (count / (ploidy·ntaxa)))`.  Core Lean only.
-/
import PybropsModel.Model.Binary64

namespace BinaryFloat
open Binary64

/-- significand (an integer in `[2^t, 2^(t+1)]`) times `2^(e - t)` -/
def roundPosT (t : Nat) (x : Rat) : Rat :=
  let e := flog2 x
  ((rne (x / pow2 (e - (t : Int))) : Int) : Rat) * pow2 (e - (t : Int))

/-- rounding of a rational to the format with `t` stored significand bits -/
def roundBin (t : Nat) (x : Rat) : Rat :=
  if x = 0 then 0 else if 0 < x then roundPosT t x else -roundPosT t (-x)

/-- `dtype.type(out)` for `float32` / `float16` on a binary64 value -/
def castF32 (x : Rat) : Rat := roundBin 23 x
def castF16 (x : Rat) : Rat := roundBin 10 x

end BinaryFloat
