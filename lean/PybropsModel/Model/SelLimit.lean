/-
Model for C10 (selection limits):
  pybrops/model/gmod/DenseAdditiveLinearGenomicModel.py  usl_numpy / lsl_numpy / usl / lsl / gebv_numpy / gebv
  pybrops/breed/prot/mate/util.py                        mat_meiosis / mat_mate / mat_dh
  pybrops/breed/prot/mate/{SelfCross,TwoWayCross,TwoWayDHCross,ThreeWayCross,ThreeWayDHCross,
                           FourWayCross,FourWayDHCross}.py   the progeny-generation part of `mate`
Frequencies come from Model/Genotype (`afreqAt` / `pafreqAt`), as `usl`/`lsl` call `gtobj.afreq()`.
Random draws are oracle inputs: every `mat_meiosis` call consumes one matrix of uniform draws
(`rng.uniform(0,1,(len(sel), nvrnt))`), in call order.

Core Lean only; executed at `Rat`, evaluated at `Float` in one counterexample, reasoned about over an
ordered field.
-/
import PybropsModel.Model.Genotype

namespace SelLimit
open Genotype

/-! ### selection limits and breeding values -/
section limits
variable {α : Type} [Add α] [Mul α] [Div α] [OfNat α 0] [OfNat α 1] [LT α] [LE α] [DecidableLT α]
  [DecidableLE α] [NatCast α] [IntCast α]

/-- `numpy.where(u_a > 0.0, p > 0.0, p >= 1.0)` -/
def uslGeno (u p : α) : Bool := if 0 < u then decide (0 < p) else decide (1 ≤ p)
/-- `numpy.where(u_a > 0.0, p >= 1.0, p > 0.0)` -/
def lslGeno (u p : α) : Bool := if 0 < u then decide (1 ≤ p) else decide (0 < p)

/-- a boolean array used as a factor -/
def b2a (b : Bool) : α := if b then 1 else 0

/-- one entry of `float(ploidy) * self.u_a * uslgeno` -/
def uslTerm (ploidy : Nat) (u p : α) : α := (ploidy : α) * u * b2a (uslGeno u p)
def lslTerm (ploidy : Nat) (u p : α) : α := (ploidy : α) * u * b2a (lslGeno u p)

def sumF (l : List α) : α := l.foldr (· + ·) 0

/-- `(...).sum(0)` for one trait: `u j` effect of locus `j` on the trait, `p j` allele frequency -/
def uslF (ploidy nv : Nat) (u p : Nat → α) : α := sumF ((List.range nv).map (fun j => uslTerm ploidy (u j) (p j)))
def lslF (ploidy nv : Nat) (u p : Nat → α) : α := sumF ((List.range nv).map (fun j => lslTerm ploidy (u j) (p j)))

/-- `Z @ u_a` for one taxon (`z j` dosage) and one trait -/
def gebvF (nv : Nat) (u : Nat → α) (z : Nat → Int) : α := sumF ((List.range nv).map (fun j => (z j : α) * u j))

/-- effect of locus `j` on trait `t` in the `(p,t)` matrix `u_a` -/
def eff (U : List (List α)) (t j : Nat) : α := (U.getD j []).getD t 0

/-- `Xstar @ beta` with `Xstar = [1, 1/q, …, 1/q]`: the location added by `unscale=True` and by `gebv` -/
def location (beta : List (List α)) (t : Nat) : α :=
  let q : Nat := beta.length
  sumF (beta.zipIdx.map (fun ri => (if ri.2 == 0 then (1 : α) else (1 : α) / (q : α)) * ri.1.getD t 0))

/-- usl / lsl of all traits from a frequency vector -/
def usl (ploidy nv nt : Nat) (U : List (List α)) (p : List α) : List α :=
  (List.range nt).map (fun t => uslF ploidy nv (eff U t) (fun j => p.getD j 0))
def lsl (ploidy nv nt : Nat) (U : List (List α)) (p : List α) : List α :=
  (List.range nt).map (fun t => lslF ploidy nv (eff U t) (fun j => p.getD j 0))

/-- two's-complement wrap of an integer to `bits` bits (numpy scalar arithmetic in a narrow signed type) -/
def wrapInt (bits : Nat) (x : Int) : Int := (x + 2 ^ (bits - 1)) % 2 ^ bits - 2 ^ (bits - 1)

/-- PRE-REPAIR (defect D62, fixed in /repo): the ndarray branch of `usl` / `lsl` when `ploidy` was a numpy signed-integer
    SCALAR of `bits` bits (e.g. `Z.max()` of an int8 matrix): in `gtobj.sum(0) / (ploidy * gtobj.shape[0])` the Python int
    `shape[0]` was converted to the scalar's type and the product wrapped (numpy raised instead when `shape[0]` itself did
    not fit).  The repaired code divides by `int(ploidy) * gtobj.shape[0]`, a Python-int product: `Genotype.afreq`.
    Kept for the counterexample. -/
def afreqNpPloidyPrerepair (bits ploidy nv : Nat) (m : Genotype.UMat) : List α :=
  (List.range nv).map (fun j => ((acountAt m j : Int) : α) / ((wrapInt bits ((ploidy * m.length : Nat) : Int) : Int) : α))

/-- `gebv_numpy(Z)`: taxa × traits -/
def gebv (nv nt : Nat) (U : List (List α)) (Z : UMat) : List (List α) :=
  Z.map (fun r => (List.range nt).map (fun t => gebvF nv (eff U t) (entry r)))

end limits

/-! ### the model object: its random-effect vector, and in-place edits of its effect matrices

`DenseAdditiveLinearGenomicModel(beta, u_misc, u_a)` stores the three arrays it is given (no copy) and hands the same
arrays out through its getters, so `model.u_a[:,t] *= -1`, `model.u_a[j,t] = v`, `model.u_a -= c`, the same edits on the
array that was passed to the constructor, and re-assignment through the setter all change the effects every later
`usl` / `lsl` / `gebv` call reads.  `u_misc` is part of `model.u = concatenate([u_misc, u_a])` only; no limit and no
breeding value reads it. -/
/-- `self.u = numpy.concatenate([self.u_misc, self.u_a], axis = 0)` -/
def randomEffects {α : Type} (uMisc U : List (List α)) : List (List α) := uMisc ++ U

/-- the marker block of `self.u`: the rows AFTER the miscellaneous ones -/
def markerBlock {α : Type} (uMisc u : List (List α)) : List (List α) := u.drop uMisc.length

section modelobj
variable {α : Type} [Add α] [Mul α]

/-- one in-place edit of a `(rows, t)` effect matrix -/
inductive Edit (α : Type)
  | scaleCol (t : Nat) (c : α)      -- `M[:,t] *= c`   (`c = -1`: the trait is turned around)
  | setCell (j t : Nat) (v : α)     -- `M[j,t] = v`
  | addAll (v : α)                  -- `M += v`

def applyEdit : Edit α → List (List α) → List (List α)
  | .scaleCol t c, M => M.map (fun r => r.mapIdx (fun k x => if k == t then x * c else x))
  | .setCell j t v, M => M.mapIdx (fun i r => if i == j then r.mapIdx (fun k x => if k == t then v else x) else r)
  | .addAll v, M => M.map (fun r => r.map (fun x => x + v))

/-- the matrix after a sequence of in-place edits, first edit first -/
def applyEdits (es : List (Edit α)) (M : List (List α)) : List (List α) := es.foldl (fun M e => applyEdit e M) M

/-- the state of a model object -/
structure ModelObj (α : Type) where
  beta : List (List α)
  uMisc : List (List α)
  uA : List (List α)

/-- the object after in-place edits of `u_a` (`eu`) and of `beta` (`eb`); `u_misc` untouched -/
def ModelObj.edit (M : ModelObj α) (eu eb : List (Edit α)) : ModelObj α :=
  { M with uA := applyEdits eu M.uA, beta := applyEdits eb M.beta }

/-- `copy.copy(model)` / `copy.deepcopy(model)`: the constructor applied to copies of the three arrays -/
def ModelObj.copy (M : ModelObj α) : ModelObj α := { beta := M.beta, uMisc := M.uMisc, uA := M.uA }

end modelobj

/-! ### closed breeding steps -/

/-- a population: number of taxa and phased genotypes -/
structure Pop where
  nt : Nat
  G : PMat

/-- **closed breeding step** (no immigration, no mutation): same ploidy, and every allele carried by a
    member of `Q` at locus `j` is carried by some member of `P` at locus `j` -/
def ClosedStep (nv : Nat) (P Q : Pop) : Prop :=
  Q.G.length = P.G.length ∧ ∀ j, j < nv → ∀ a ∈ popCopies Q.G j, a ∈ popCopies P.G j

/-- decidable form used by the driver's Spec -/
def closedStepB (nv : Nat) (P Q : Pop) : Bool :=
  Q.G.length == P.G.length &&
  (List.range nv).all (fun j => (popCopies Q.G j).all (fun a => (popCopies P.G j).contains a))

/-- selection = any sub-selection of taxa (indices may repeat) — `select_taxa` -/
def selectTaxa (idx : List Nat) (G : PMat) : PMat := G.map (fun ph => Np.take idx ph)

/-- **closed step on dosage matrices** (unphased populations of any ploidy; no immigration, no mutation):
    allele 1 is carried by a member of `Q` at locus `j` (some dosage `> 0`) only if it is carried by a member of
    `P` at `j`, and allele 0 (some dosage `< ploidy`) likewise -/
def ClosedStepU (ploidy nv : Nat) (P Q : UMat) : Prop :=
  ∀ j, j < nv → ((∃ r ∈ Q, 0 < entry r j) → ∃ r ∈ P, 0 < entry r j)
    ∧ ((∃ r ∈ Q, entry r j < (ploidy : Int)) → ∃ r ∈ P, entry r j < (ploidy : Int))

/-- decidable form used by the driver's Spec -/
def closedStepUB (ploidy nv : Nat) (P Q : UMat) : Bool :=
  (List.range nv).all (fun j =>
    (!(Q.any (fun r => decide (0 < entry r j))) || P.any (fun r => decide (0 < entry r j)))
    && (!(Q.any (fun r => decide (entry r j < (ploidy : Int)))) || P.any (fun r => decide (entry r j < (ploidy : Int)))))

/-- unphased `select_taxa` (`numpy.take(mat, indices, axis = 0)`; indices may repeat) -/
def selectTaxaU (idx : List Nat) (m : UMat) : UMat := Np.take idx m

/-- in-place culling `remove_taxa(obj)` = `numpy.delete(mat, obj, axis = taxa_axis)`: the rows whose index is listed
    are dropped, the others keep their order (phased: in every phase) -/
def removeTaxa (idx : List Nat) (G : PMat) : PMat := G.map (Np.delete idx)
def removeTaxaU (idx : List Nat) (m : UMat) : UMat := Np.delete idx m

/-! ### meiosis and the seven mating protocols (draws are inputs) -/

/-- literal transcription of the segment-copy loop of `mat_meiosis`:
    `for spix in xoix: gamete[stix:spix] = geno[phase,s,stix:spix]; stix = spix; phase = 1 - phase`
    followed by `gamete[stix:] = geno[phase,s,stix:]`. -/
def segLoop (h0 h1 : List Int) : Nat → Bool → List Nat → List Int
  | stix, ph, [] => (if ph then h1 else h0).drop stix
  | stix, ph, sp :: rest =>
      ((if ph then h1 else h0).drop stix).take (sp - stix) ++ segLoop h0 h1 sp (!ph) rest

/-- per-marker form: the phase flips at j iff a crossover is drawn at j, before marker j is copied -/
def perMarker : List Bool → Bool → List Int → List Int → List Int
  | b :: bs, ph, a0 :: r0, a1 :: r1 =>
      (if xor ph b then a1 else a0) :: perMarker bs (xor ph b) r0 r1
  | _, _, _, _ => []

section draws
variable {α : Type} [LT α] [DecidableLT α]

/-- `rnd[i] < xoprob` -/
def xoMask (r xo : List α) : List Bool := List.zipWith (fun a b => decide (a < b)) r xo

/-- chromosome of taxon `s` in phase `k` (diploid `geno[k, s, :]`) -/
def chrom (geno : PMat) (k s : Nat) : List Int := (geno.getD k []).getD s []

/-- one gamete of taxon `s` -/
def gamete (geno : PMat) (xo : List α) (s : Nat) (r : List α) : List Int :=
  segLoop (chrom geno 0 s) (chrom geno 1 s) 0 false (Np.flatnonzero (xoMask r xo))

/-- `mat_meiosis(geno, sel, xoprob, rng)` with `rnd` = the matrix the generator returned
    (`rnd[i]` is looked up by row number: `for i,s in enumerate(sel)`) -/
def meiosis (geno : PMat) (sel : List Nat) (xo : List α) (rnd : List (List α)) : List (List Int) :=
  sel.zipIdx.map (fun si => gamete geno xo si.1 (rnd.getD si.2 []))

/-- `mat_mate`: two meioses (female first), stacked -/
def mate (fgeno mgeno : PMat) (fsel msel : List Nat) (xo : List α) (rf rm : List (List α)) : PMat :=
  [meiosis fgeno fsel xo rf, meiosis mgeno msel xo rm]

/-- `mat_dh`: one meiosis, stacked twice -/
def dh (geno : PMat) (sel : List Nat) (xo : List α) (r : List (List α)) : PMat :=
  let g := meiosis geno sel xo r
  [g, g]

/-- number of taxa of a diploid genotype array (`geno.shape[1]`) -/
def ntaxa (geno : PMat) : Nat := (geno.getD 0 []).length

/-- draws are consumed two matrices per `mat_mate`, one per `mat_dh`; a missing matrix is `[]` -/
def nth (draws : List (List (List α))) (k : Nat) : List (List α) := draws.getD k []

/-- `for i in range(nself): geno = mat_mate(geno, geno, asel, asel, xoprob, rng)` starting at draw `k` -/
def selfLoop (xo : List α) (draws : List (List (List α))) : Nat → Nat → PMat → PMat
  | 0, _, geno => geno
  | n + 1, k, geno =>
      let asel := List.range (ntaxa geno)
      selfLoop xo draws n (k + 2) (mate geno geno asel asel xo (nth draws k) (nth draws (k + 1)))

/-- column `c` of `xconfig` -/
def xcol (xconfig : List (List Nat)) (c : Nat) : List Nat := xconfig.map (fun r => r.getD c 0)

def mulCounts (a b : List Nat) : List Nat := List.zipWith (· * ·) a b

/-- the mating protocols; `nmating`, `nprogeny` are the per-cross count vectors -/
inductive Protocol | selfCross | twoWay | twoWayDH | threeWay | threeWayDH | fourWay | fourWayDH
  deriving DecidableEq, Repr

def Protocol.nparent : Protocol → Nat
  | .selfCross => 1 | .twoWay => 2 | .twoWayDH => 2 | .threeWay => 3 | .threeWayDH => 3
  | .fourWay => 4 | .fourWayDH => 4

/-- progeny-generation part of `<Protocol>.mate(pgmat, xconfig, nmating, nprogeny, nself)` -/
def mateProtocol (pr : Protocol) (geno : PMat) (xo : List α) (xconfig : List (List Nat))
    (nmating nprogeny : List Nat) (nself : Nat) (draws : List (List (List α))) : PMat :=
  let d := nth draws
  match pr with
  | .selfCross =>
      let fsel := Np.repeatEach (mulCounts nmating nprogeny) (xcol xconfig 0)
      let s := mate geno geno fsel fsel xo (d 0) (d 1)
      selfLoop xo draws nself 2 s
  | .twoWay =>
      let fsel := Np.repeatEach (mulCounts nmating nprogeny) (xcol xconfig 0)
      let msel := Np.repeatEach (mulCounts nmating nprogeny) (xcol xconfig 1)
      let h := mate geno geno fsel msel xo (d 0) (d 1)
      selfLoop xo draws nself 2 h
  | .twoWayDH =>
      let fsel := Np.repeatEach nmating (xcol xconfig 0)
      let msel := Np.repeatEach nmating (xcol xconfig 1)
      let h := mate geno geno fsel msel xo (d 0) (d 1)
      let h := selfLoop xo draws nself 2 h
      let asel := Np.repeatEach (Np.repeatEach nmating nprogeny) (List.range (ntaxa h))
      dh h asel xo (d (2 + 2 * nself))
  | .threeWay =>
      let rsel := Np.repeatEach (mulCounts nmating nprogeny) (xcol xconfig 0)
      let fsel := Np.repeatEach nmating (xcol xconfig 1)
      let msel := Np.repeatEach nmating (xcol xconfig 2)
      let f1 := mate geno geno fsel msel xo (d 0) (d 1)
      let f1sel := Np.repeatEach (Np.repeatEach nmating nprogeny) (List.range (ntaxa f1))
      let h := mate geno f1 rsel f1sel xo (d 2) (d 3)
      selfLoop xo draws nself 4 h
  | .threeWayDH =>
      let rsel := Np.repeatEach nmating (xcol xconfig 0)
      let fsel := Np.repeatEach nmating (xcol xconfig 1)
      let msel := Np.repeatEach nmating (xcol xconfig 2)
      let f1 := mate geno geno fsel msel xo (d 0) (d 1)
      let hsel := List.range (ntaxa f1)
      let bc := mate geno f1 rsel hsel xo (d 2) (d 3)
      let bc := selfLoop xo draws nself 4 bc
      let psel := Np.repeatEach (Np.repeatEach nmating nprogeny) (List.range (ntaxa bc))
      dh bc psel xo (d (4 + 2 * nself))
  | .fourWay =>
      let f2sel := Np.repeatEach nmating (xcol xconfig 0)
      let m2sel := Np.repeatEach nmating (xcol xconfig 1)
      let f1sel := Np.repeatEach nmating (xcol xconfig 2)
      let m1sel := Np.repeatEach nmating (xcol xconfig 3)
      let ab := mate geno geno f1sel m1sel xo (d 0) (d 1)
      let cd := mate geno geno f2sel m2sel xo (d 2) (d 3)
      let absel := Np.repeatEach (Np.repeatEach nmating nprogeny) (List.range (ntaxa ab))
      let cdsel := Np.repeatEach (Np.repeatEach nmating nprogeny) (List.range (ntaxa cd))
      let h := mate ab cd absel cdsel xo (d 4) (d 5)
      selfLoop xo draws nself 6 h
  | .fourWayDH =>
      let f2sel := Np.repeatEach nmating (xcol xconfig 0)
      let m2sel := Np.repeatEach nmating (xcol xconfig 1)
      let f1sel := Np.repeatEach nmating (xcol xconfig 2)
      let m1sel := Np.repeatEach nmating (xcol xconfig 3)
      let ab := mate geno geno f1sel m1sel xo (d 0) (d 1)
      let cd := mate geno geno f2sel m2sel xo (d 2) (d 3)
      let dih := mate ab cd (List.range (ntaxa ab)) (List.range (ntaxa cd)) xo (d 4) (d 5)
      let dih := selfLoop xo draws nself 6 dih
      let psel := Np.repeatEach (Np.repeatEach nmating nprogeny) (List.range (ntaxa dih))
      dh dih psel xo (d (6 + 2 * nself))

end draws

end SelLimit
