/-
Model/LabelMatFill.lean — the fill-count balance of the C03 Spec (core Lean only; evaluated by the driver on the
implementation's states, proved of the model's block-diagonal adjoin / append in Lemmas/LabelMatFill.lean).
-/
import PybropsModel.Model.LabelMat

namespace LabelMat

/-- fill-value balance of a step that grows a square matrix:
    `#fill(post) = #fill(pre) + Σ #fill(operand) + (|post| - |pre| - Σ |operand|)`
    (sizes and cell values of receiver, operands and result; `fill = none`: nothing to check) -/
def fillBalance (fill : Option Int) (npre : Nat) (pre : List Int) (ops : List (Nat × List Int)) (npost : Nat)
    (post : List Int) : Bool :=
  match fill with
  | none => true
  | some f =>
    let cnt (l : List Int) : Int := (l.filter (· == f)).length
    let srcCnt : Int := cnt pre + (ops.map (fun o => cnt o.2)).foldl (· + ·) 0
    let srcSize : Int := (npre : Int) + (ops.map (fun o => (o.1 : Int))).foldl (· + ·) 0
    cnt post == srcCnt + ((npost : Int) - srcSize)

end LabelMat
