/-
Model/LabelMatRepair.lean — executable model of the PROPOSED repairs of the recorded square-class defects (property
C03; patches/C03_D14.diff for DenseSquareTaxaMatrix, patch_D14b.diff for DenseSquareTraitMatrix).  Core Lean only.

The repaired methods are histories of operations that are already correct:
  insert_<k>(obj, block)  = adjoin_<k>(block), then select_<k>(numpy.insert(arange(n), obj, arange(n, n + q)))
  incorp_<k>(obj, block)  = append_<k>(block), then reorder_<k>(the same permutation)
  concat_<k>(mats)        = successive block-diagonal adjoin_<k>
Used by the driver when the harness runs in repair-validation mode (C03_REPAIRED=1) against a tree that has the
patches applied, and by Lemmas/LabelMatRepair*.lean / Props/C03.lean section 10.
-/
import PybropsModel.Model.LabelMat

namespace LabelMat

variable {α lab : Type}

/-- `numpy.insert(numpy.arange(n), p, numpy.arange(n, n + q))` -/
def insertPerm (n q p : Nat) : List Nat := Np.insert p (List.range' n q) (List.range n)

/-- the same permutation for every position form of `numpy.insert` (integer, sorted list, slice) -/
def insertOrder (n q : Nat) (obj : InsIdx) : R (List Nat) := insertCol obj (List.range n) (List.range' n q)

/-- the repaired `insert_taxa(p, block)` of a square class as a history of the (already correct) operations -/
def squareInsertRepaired (k : Kind) (n q p : Nat) (v : Operand α lab) : List (Op α lab) :=
  [.adjoin k v, .select k ((insertPerm n q p).map Int.ofNat)]

/-- the repaired `incorp_taxa(p, block)` -/
def squareIncorpRepaired (k : Kind) (n q p : Nat) (v : Operand α lab) : List (Op α lab) :=
  [.append k v, .reorder k ((insertPerm n q p).map Int.ofNat)]

/-- the repaired `concat_taxa(mats)` of a square class: every further matrix is adjoined block-diagonally -/
def squareConcatRepaired (k : Kind) (vs : List (Operand α lab)) : List (Op α lab) := vs.map (fun v => .adjoin k v)

/-- length of the operand along the edited bundle's first axis -/
def opndLen (sch : Schema) (k : Kind) (v : Operand α lab) : Nat :=
  match sch.axes k with
  | a :: _ => axLen a v.mat
  | [] => 0

/-- repaired `insert_<k>(obj, block)`, any position form -/
def insertRepairedK (sch : Schema) (k : Kind) (fill : α) (obj : InsIdx) (v : Operand α lab) (s : St α lab) :
    R (St α lab) := do
  let s1 ← adjoinK sch k fill v s
  let ord ← insertOrder (s.len sch k) (opndLen sch k v) obj
  selectK sch k (ord.map Int.ofNat) s1

/-- repaired `incorp_<k>(obj, block)`, any position form -/
def incorpRepairedK (sch : Schema) (k : Kind) (fill : α) (obj : InsIdx) (v : Operand α lab) (s : St α lab) :
    R (St α lab) := do
  let s1 ← appendK sch k fill v s
  let ord ← insertOrder (s.len sch k) (opndLen sch k v) obj
  reorderK sch k (ord.map Int.ofNat) s1

/-- repaired `concat_<k>([self] + others)`: the blocks of `others` adjoined one after the other (a single matrix is
    copied by an identity selection) -/
def concatRepairedK (sch : Schema) (k : Kind) (fill : α) (vs : List (Operand α lab)) (s : St α lab) : R (St α lab) :=
  match vs with
  | [] => selectK sch k ((List.range (s.len sch k)).map Int.ofNat) s
  | _ => vs.foldlM (fun t v => adjoinK sch k fill v t) s

end LabelMat
