/-
The dtype contract of `DenseMolecularCoancestryMatrix.from_gmat` made explicit (core Lean only).

`X = gmat.tacount(int)` fetches the allele counts at the *native* integer width; `X @ X.T` (and `Y @ Y.T`,
`+`) are then integer operations of that width, and only the final `rnvrnt * …` is a float operation.
`molecularW wrap` is the same computation with every integer product, partial sum and sum reduced by
`wrap` (numpy integer arithmetic of a fixed width wraps silently); `wrapBits 64` is the real code,
`wrapBits 8` what an `int8` fetch would give.  `Lemmas/CoancestryInt.lean` proves that the reduction is
invisible as long as the number of markers does not exceed the largest value of the type (127 for int8,
2⁶³−1 natively), and `Props/C13.lean` has the 128-marker counterexample for int8.
-/
import PybropsModel.Model.Coancestry

namespace Coancestry

/-- two's-complement reduction to `bits` bits -/
def wrapBits (bits : Nat) (x : Int) : Int := (x + 2 ^ (bits - 1)) % 2 ^ bits - 2 ^ (bits - 1)

/-- dot product in a fixed-width integer type: products and partial sums are reduced -/
def dotW (wrap : Int → Int) (a b : List Int) : Int :=
  (List.zipWith (fun x y => wrap (x * y)) a b).foldl (fun acc t => wrap (acc + t)) 0

/-- `A @ B.T` in a fixed-width integer type -/
def mulTW (wrap : Int → Int) (A B : List (List Int)) : List (List Int) :=
  A.map (fun r => B.map (fun s => dotW wrap r s))

section
variable {α : Type} [Add α] [Mul α] [Div α] [OfNat α 1] [NatCast α] [IntCast α]

/-- DenseMolecularCoancestryMatrix.from_gmat with the integer part carried out in a type whose arithmetic
    is `wrap`-reduced; the conversion to float happens where numpy does it (`rnvrnt * <int array>`) -/
def molecularW (wrap : Int → Int) (ploidy m : Nat) (X : List (List Int)) : Except Err (List (List α)) :=
  if m = 0 then .error .zeroDiv else
  let r : α := 1 / (m : α)
  if ploidy = 1 then
    let Y := mapMat (fun x => wrap (1 - x)) X
    .ok (mapMat (fun s : Int => ((1 + 1) * r) * (s : α))
      (zipMat (fun a b => wrap (a + b)) (mulTW wrap X X) (mulTW wrap Y Y)))
  else if ploidy = 2 then
    let X1 := mapMat (fun x => wrap (x - 1)) X
    .ok (mapMat (fun s : Int => 1 + r * (s : α)) (mulTW wrap X1 X1))
  else .error .ploidy

end

end Coancestry
