/-
Model of pybrops/core/util/haplo.py (`nhaploblk_chrom`, `haplobin`, `haplobin_bounds`, `haplomat`)
and of the consumers of the haplotype matrix:
  breed/prot/sel/prob/OptimalHaploidValueSelectionProblem.py  `_calc_haplomat`, `_calc_ohvmat`, `latentfn`
  breed/prot/sel/prob/OptimalPopulationValueSelectionProblem.py `_calc_haplomat`, `latentfn`
  breed/prot/sel/prob/GenotypeBuilderSelectionProblem.py      `_calc_haplomat`, `latentfn`
Core Lean only; executed at `Rat` (values) and at `Float` (layout, bit for bit) by the driver, reasoned about
over an ordered field in Lemmas/Props.

The model mirrors the code AFTER the repair of defect D10 (`fix:` commit, patches/C18_D10.diff):
* `nhaploblk_chrom` skips, in its greedy loop, every chromosome that already holds one block per marker while
  another chromosome still has room (`diff[full] = inf`);
* `haplobin` re-labels a chromosome with equal-COUNT blocks `k0 + (i * nhap) // nmkr` whenever its equal-width bins
  left a label unused although the chromosome has at least as many markers as bins.
The code before the repair is kept in section 7 under `…Prerepair` names, for the `…_prerepair_counterexample`s only.

Conventions
* marker positions come grouped by chromosome (`chroms : List (List α)`); `chromSlices` cuts
  `genpos` by `(chrgrp_stix, chrgrp_spix)` exactly like the Python slices `genpos[stix:spix]`.
* a cell of a `numpy.empty` array that the code never writes is `none` (uninitialised memory);
  everything that reads such a cell yields `none` as well.
* where the Python raises, the model returns `Except.error tag` (`"value"`, `"index"`).
-/
import PybropsModel.Np

namespace Haplo

/-! ### small list helpers -/

/-- Python slice `l[st:sp]` for `0 ≤ st`, `0 ≤ sp` -/
def slice {β} (st sp : Nat) (l : List β) : List β := (l.drop st).take (sp - st)

/-- `genpos[stix[i]:spix[i]]` for every chromosome `i` -/
def chromSlices {β} (genpos : List β) (stix spix : List Nat) : List (List β) :=
  List.zipWith (fun st sp => slice st sp genpos) stix spix

/-- `l[ix] += 1` -/
def incrAt : Nat → List Nat → List Nat
  | _, [] => []
  | 0, x :: xs => (x + 1) :: xs
  | i + 1, x :: xs => x :: incrAt i xs

section scalar
variable {α : Type} [Add α] [Sub α] [Mul α] [Div α] [Neg α] [OfNat α 0] [NatCast α]
  [LT α] [LE α] [DecidableLT α] [DecidableLE α] [DecidableEq α]

/-! ### 1. `nhaploblk_chrom`: greedy apportionment of blocks to chromosomes, never more blocks than markers -/

/-- `numpy.argmin`: index of the first minimal element -/
def argminGo : α → Nat → Nat → List α → Nat
  | _, bi, _, [] => bi
  | b, bi, i, x :: xs => if x < b then argminGo x i (i + 1) xs else argminGo b bi (i + 1) xs

def argmin : List α → Nat
  | [] => 0
  | x :: xs => argminGo x 0 1 xs

/-- `genlen = genpos[chrgrp_spix-1] - genpos[chrgrp_stix]` on chromosome-grouped positions -/
def genlen (chroms : List (List α)) : List α :=
  chroms.map (fun c => c.getLastD 0 - c.headD 0)

/-- `nhaploblk_ideal = (nhaploblk / genlen.sum()) * genlen` -/
def ideal (nhaploblk : Nat) (gl : List α) : List α :=
  let s := Np.sum gl
  gl.map (fun g => ((nhaploblk : α) / s) * g)

/-- `argmin` of `diff` with the entries of full chromosomes replaced by `inf`: value and index of the
    first minimal entry among the chromosomes that are not full; `none` when all are full -/
def argminMasked : List α → List Bool → Option (α × Nat)
  | x :: xs, f :: fs =>
    match argminMasked xs fs with
    | none => if f then none else some (x, 0)
    | some (b, j) => if f then some (b, j + 1) else if b < x then some (b, j + 1) else some (x, 0)
  | _, _ => none

/-- `full = nhaploblk_chrom >= chrgrp_len` -/
def fullMask (nb lens : List Nat) : List Bool := List.zipWith (fun b l => decide (l ≤ b)) nb lens

/-- index chosen by one iteration of the loop:
    `full = nhaploblk_chrom >= chrgrp_len; if not full.all(): diff = numpy.where(full, numpy.inf, diff); ix = diff.argmin()` -/
def pickCap (diff : List α) (nb lens : List Nat) : Nat :=
  match argminMasked diff (fullMask nb lens) with
  | some (_, ix) => ix
  | none => argmin diff

/-- `numpy.where(full, numpy.inf, diff)`, literally; `none` stands for `+inf` -/
def whereInf (full : List Bool) (diff : List α) : List (Option α) :=
  List.zipWith (fun f d => if f then none else some d) full diff

/-- `a < b` on values that may be `+inf` -/
def ltInf : Option α → Option α → Bool
  | some a, some b => decide (a < b)
  | some _, none => true
  | none, _ => false

/-- `numpy.argmin` on values that may be `+inf`: index of the first minimal element -/
def argminInfGo : Option α → Nat → Nat → List (Option α) → Nat
  | _, bi, _, [] => bi
  | b, bi, i, x :: xs => if ltInf x b then argminInfGo x i (i + 1) xs else argminInfGo b bi (i + 1) xs

def argminInf : List (Option α) → Nat
  | [] => 0
  | x :: xs => argminInfGo x 0 1 xs

/-- one iteration of the loop transcribed literally: `if not full.all(): diff = numpy.where(full, numpy.inf, diff)`,
    then `diff.argmin()` (closed form: `pickCap`, proved equal in Lemmas/HaploRepair: `pickCap_eq_lit`) -/
def pickCapLit (diff : List α) (nb lens : List Nat) : Nat :=
  let full := fullMask nb lens
  if full.all id then argmin diff else argminInf (whereInf full diff)

/-- the `for i in range(nhaploblk - nchr)` loop:
    `diff = nhaploblk_chrom - nhaploblk_ideal; ix = (masked diff).argmin(); nhaploblk_chrom[ix] += 1` -/
def greedyCap (ideal : List α) (lens : List Nat) : Nat → List Nat → List Nat
  | 0, nb => nb
  | k + 1, nb =>
    greedyCap ideal lens k (incrAt (pickCap (List.zipWith (fun (a : Nat) b => (a : α) - b) nb ideal) nb lens) nb)

/-- the same loop with the literally transcribed iteration (`greedyCap_eq_lit`: equal for every input) -/
def greedyCapLit (ideal : List α) (lens : List Nat) : Nat → List Nat → List Nat
  | 0, nb => nb
  | k + 1, nb =>
    greedyCapLit ideal lens k (incrAt (pickCapLit (List.zipWith (fun (a : Nat) b => (a : α) - b) nb ideal) nb lens) nb)

/-- first `false` of a mask (its length if there is none) -/
def firstFalse : List Bool → Nat
  | [] => 0
  | f :: fs => if f then firstFalse fs + 1 else 0

/-- all-NaN `diff` (total genetic length 0): full entries become `inf`, `argmin` returns the first NaN,
    i.e. the first chromosome with room; 0 when all are full (nothing is masked then) -/
def firstRoom (nb lens : List Nat) : Nat :=
  if (fullMask nb lens).all id then 0 else firstFalse (fullMask nb lens)

def greedyCapNaN (lens : List Nat) : Nat → List Nat → List Nat
  | 0, nb => nb
  | k + 1, nb => greedyCapNaN lens k (incrAt (firstRoom nb lens) nb)

/-- `nhaploblk_chrom(nhaploblk, genpos, chrgrp_stix, chrgrp_spix)`.  `ValueError` when fewer blocks than chromosomes
    are requested.  The test "total length is zero" is written with `≤` twice so that the same definition runs at
    `Float` (binary64, bit for bit what numpy computes) as well as at `Rat`. -/
def nhaploblkChrom (nhaploblk : Nat) (chroms : List (List α)) : Except String (List Nat) :=
  let gl := genlen chroms
  let lens := chroms.map List.length
  let nchr := gl.length
  if nhaploblk < nchr then .error "value" else
  let ones := List.replicate nchr 1
  if Np.sum gl ≤ 0 ∧ 0 ≤ Np.sum gl then .ok (greedyCapNaN lens (nhaploblk - nchr) ones)
  else .ok (greedyCap (ideal nhaploblk gl) lens (nhaploblk - nchr) ones)

/-! ### 2. `haplobin`: equal-width bins (later bins overwrite markers sitting on a boundary), equal-count
fallback for a chromosome whose equal-width bins leave a label unused -/

/-- `numpy.linspace(a, b, n+1)`: `arange(0, n+1) * ((b-a)/n) + a`, last element set to `b` -/
def linspace (a b : α) (n : Nat) : List α :=
  if n = 0 then [a] else
  (List.range n).map (fun (j : Nat) => a + (j : α) * ((b - a) / (n : α))) ++ [b]

/-- `numpy.linspace(a, b, n+1)` with every arithmetic operation followed by the rounding `rnd`:
    `delta = rnd(b - a)`, `step = rnd(delta / n)`, `y[j] = rnd(rnd(j * step) + a)`, `y[n] = b`.
    (`rnd = id` is `linspace`; numpy's extra branch for `step == 0` computes the same values when
    `delta = 0` and otherwise concerns underflowing steps, outside the contract.) -/
def linspaceR (rnd : α → α) (a b : α) (n : Nat) : List α :=
  if n = 0 then [a] else
  (List.range n).map (fun (j : Nat) => rnd (rnd ((j : α) * rnd (rnd (b - a) / (n : α))) + a)) ++ [b]

/-- `haplobin[stix:spix][(chrmap >= lo) & (chrmap <= hi)] = k` -/
def paint (lo hi : α) (k : Nat) (pos : List α) (lab : List (Option Nat)) : List (Option Nat) :=
  List.zipWith (fun x old => if lo ≤ x ∧ x ≤ hi then some k else old) pos lab

/-- the `for j in range(nhap)` loop over the boundaries `hb = [hbound[0], …, hbound[nhap]]`;
    `k` is the running bin counter -/
def binLoop : List α → Nat → List α → List (Option Nat) → List (Option Nat)
  | lo :: hi :: rest, k, pos, lab => binLoop (hi :: rest) (k + 1) pos (paint lo hi k pos lab)
  | _, _, _, lab => lab

/-- label of a single marker after the loop (closed form of `binLoop`, per marker) -/
def labelGo : List α → Nat → α → Option Nat → Option Nat
  | lo :: hi :: rest, k, x, cur => labelGo (hi :: rest) (k + 1) x (if lo ≤ x ∧ x ≤ hi then some k else cur)
  | _, _, _, cur => cur

/-- one chromosome: all labels start uninitialised (`numpy.empty`) -/
def binChrom (hb : List α) (k0 : Nat) (pos : List α) : List (Option Nat) :=
  binLoop hb k0 pos (pos.map (fun _ => none))

/-- `len(numpy.unique(x))` -/
def ndistinct {β : Type} [DecidableEq β] : List β → Nat
  | [] => 0
  | a :: l => if a ∈ l then ndistinct l else ndistinct l + 1

/-- equal-count fallback labels `(k - nhap) + (arange(m) * nhap) // m` -/
def equalCount (k0 nhap m : Nat) : List Nat := (List.range m).map (fun i => k0 + (i * nhap) / m)

/-- one chromosome of `haplobin`: the painting loop, then
    `nmkr = spix - stix; if (nhap <= nmkr) and (len(numpy.unique(haplobin[stix:spix])) < nhap):`
    `    haplobin[stix:spix] = (k - nhap) + (numpy.arange(nmkr) * nhap) // nmkr` -/
def chromLabels (hb : List α) (k0 : Nat) (pos : List α) : List (Option Nat) :=
  let lab := binChrom hb k0 pos
  let nhap := hb.length - 1
  if nhap ≤ pos.length ∧ ndistinct lab < nhap then (equalCount k0 nhap pos.length).map some else lab

/-- the outer `for i in range(nchr)` loop with explicit boundary vectors (one per chromosome);
    the bin counter advances by the number of bins of the chromosome -/
def haplobinHB : List (List α) → List (List α) → Nat → List (Option Nat)
  | hb :: hbs, pos :: cs, k => chromLabels hb k pos ++ haplobinHB hbs cs (k + (hb.length - 1))
  | _, _, _ => []

/-- boundaries as the code computes them: `linspace(genpos[stix], genpos[spix-1], nhap+1)` -/
def hbounds (nblk : List Nat) (chroms : List (List α)) : List (List α) :=
  List.zipWith (fun n c => linspace (c.headD 0) (c.getLastD 0) n) nblk chroms

/-- `haplobin(nhaploblk_chrom, genpos, chrgrp_stix, chrgrp_spix)` -/
def haplobin (nblk : List Nat) (chroms : List (List α)) : List (Option Nat) :=
  haplobinHB (hbounds nblk chroms) chroms 0

/-- the same with rounded arithmetic in `linspace` (the comparisons `>=`, `<=` are exact in IEEE) -/
def hboundsR (rnd : α → α) (nblk : List Nat) (chroms : List (List α)) : List (List α) :=
  List.zipWith (fun n c => linspaceR rnd (c.headD 0) (c.getLastD 0) n) nblk chroms

def haplobinR (rnd : α → α) (nblk : List Nat) (chroms : List (List α)) : List (Option Nat) :=
  haplobinHB (hboundsR rnd nblk chroms) chroms 0

end scalar

/-! ### 3. `haplobin_bounds`: run-length boundaries of the labels -/

section bounds
variable {β : Type} [DecidableEq β]

/-- the `for i in range(1, len(haplobin))` loop; state = (prev, hstix, hspix) -/
def boundsLoop : β → Nat → List β → List Nat → List Nat → List Nat × List Nat
  | _, _, [], st, sp => (st, sp)
  | prev, i, x :: xs, st, sp =>
    if x ≠ prev then boundsLoop x (i + 1) xs (st ++ [i]) (sp ++ [i]) else boundsLoop prev (i + 1) xs st sp

/-- `haplobin_bounds(haplobin)` → `(hstix, hspix, hlen)`; `IndexError` on an empty vector -/
def haplobinBounds (l : List β) : Except String (List Nat × List Nat × List Nat) :=
  match l with
  | [] => .error "index"
  | a :: xs =>
    let r := boundsLoop a 1 xs [0] []
    let sp := r.2 ++ [l.length]
    .ok (r.1, sp, List.zipWith (fun e s => e - s) sp r.1)

/-- closed form: the positions `≥ i` at which the label differs from its predecessor
    (`prev` is the label before position `i`) -/
def breaksFrom : β → Nat → List β → List Nat
  | _, _, [] => []
  | prev, i, x :: xs => if x ≠ prev then i :: breaksFrom x (i + 1) xs else breaksFrom prev (i + 1) xs

/-- closed form of `haplobin_bounds`: with `B` the break positions, `hstix = 0 :: B`,
    `hspix = B ++ [len]` (proved equal in Lemmas/HaploBounds: `haplobinBounds_eq`) -/
def blockPairs : List β → List (Nat × Nat)
  | [] => []
  | a :: xs => List.zip (0 :: breaksFrom a 1 xs) (breaksFrom a 1 xs ++ [xs.length + 1])

end bounds

/-! ### 4. `haplomat` / `_calc_haplomat`: block values -/

section value
variable {α : Type} [Add α] [Sub α] [Mul α] [Div α] [Neg α] [OfNat α 0] [NatCast α]
  [LT α] [LE α] [DecidableLT α] [DecidableLE α] [DecidableEq α]

/-- `genomemat[m,n,st:sp].dot(u_a[st:sp,i])` -/
def blockVal (g u : List α) (b : Nat × Nat) : α := Np.dot (slice b.1 b.2 g) (slice b.1 b.2 u)

/-- one `(phase, individual, trait)` fibre of `hmat`: `nhaploblk` cells of a `numpy.empty` array, the
    first `len(hstix)` of which are written by `for j,(st,sp) in enumerate(zip(hstix,hspix))` -/
def hmatFibre (nhaploblk : Nat) (bnds : List (Nat × Nat)) (g u : List α) : List (Option α) :=
  let vals := bnds.map (blockVal g u)
  vals.map some ++ List.replicate (nhaploblk - vals.length) none

/-- the table of block values of one trait, `V[m][n][b]`, when every block column is written -/
def blockTable (geno : List (List (List α))) (u : List α) (bnds : List (Nat × Nat)) : List (List (List α)) :=
  geno.map (fun gm => gm.map (fun g => bnds.map (blockVal g u)))

/-- labels of `haplobinPrerepair` with every cell initialised, or `none` -/
def allSome {γ} : List (Option γ) → Option (List γ)
  | [] => some []
  | none :: _ => none
  | some a :: l => (allSome l).map (a :: ·)

/-- `out[j] = v` on a vector of `numpy.empty` cells; `none` = IndexError (`j` past the last column) -/
def setCell {β : Type} (j : Nat) (v : β) (out : List (Option β)) : Option (List (Option β)) :=
  if j < out.length then some (out.set j (some v)) else none

/-- the fill loop, transcribed: `for j,(st,sp) in enumerate(zip(hstix,hspix)): hmat[m,n,j,i] = g[st:sp].dot(u[st:sp])`
    on one (phase, individual, trait) fibre of the `numpy.empty` array -/
def fillLoop (g u : List α) : List (Nat × Nat) → Nat → List (Option α) → Option (List (Option α))
  | [], _, out => some out
  | b :: rest, j, out =>
    match setCell j (blockVal g u b) out with
    | none => none
    | some out' => fillLoop g u rest (j + 1) out'

/-- one fibre of `hmat = numpy.empty((m,n,nhaploblk,t))` after the loop (closed form: `hmatFibre`, proved equal
    in Lemmas/HaploFillLoop: `hmatFibreLoop_eq`; `none` ⇔ more blocks than columns) -/
def hmatFibreLoop (nhaploblk : Nat) (bnds : List (Nat × Nat)) (g u : List α) : Option (List (Option α)) :=
  fillLoop g u bnds 0 (List.replicate nhaploblk none)

/-- the whole matrix through the transcribed loop; `error "index"` when a fibre overflows -/
def haplomatLoop (nhaploblk : Nat) (bnds : List (Nat × Nat)) (geno : List (List (List α)))
    (ucols : List (List α)) : Except String (List (List (List (List (Option α))))) :=
  match allSome (geno.map (fun gm => allSome (gm.map (fun g => allSome (ucols.map (fun u => hmatFibreLoop nhaploblk bnds g u)))))) with
  | some H => .ok H
  | none => .error "index"

/-- block boundaries as `(start, stop)` pairs from the labels -/
def blockBounds (hbin : List Nat) : Except String (List (Nat × Nat)) :=
  match haplobinBounds hbin with
  | .error e => .error e
  | .ok (st, sp, _) => .ok (List.zip st sp)

/-- everything of `haplomat` / `_calc_haplomat` before the fill loop: apportionment, marker-count guard, bins, bounds.
    `error "value"`: fewer blocks than chromosomes / more blocks than markers on a chromosome;
    `error "uninit"`: a marker label was never written (cannot happen, `C18.bin_total`);
    `error "index"`: more runs than block columns (cannot happen, `C18.runs_le_requested`). -/
def blocksOf (nhaploblk : Nat) (chroms : List (List α)) :
    Except String (List Nat × List Nat × List (Nat × Nat)) :=
  match nhaploblkChrom nhaploblk chroms with
  | .error e => .error e
  | .ok nblk =>
    if (List.zipWith (fun n (c : List α) => decide (c.length < n)) nblk chroms).any id
    then .error "value" else
    match allSome (haplobin nblk chroms) with
    | none => .error "uninit"
    | some hbin =>
      match blockBounds hbin with
      | .error e => .error e
      | .ok bnds => if nhaploblk < bnds.length then .error "index" else .ok (nblk, hbin, bnds)

/-- `hmat[m][n][t][b]` (trait before block so that one fibre is one list).
    `geno[m][n]` is the marker vector of one chromosome copy, `ucols[t]` the effects of trait `t`. -/
def haplomat (nhaploblk : Nat) (bnds : List (Nat × Nat)) (geno : List (List (List α)))
    (ucols : List (List α)) : List (List (List (List (Option α)))) :=
  geno.map (fun gm => gm.map (fun g => ucols.map (fun u => hmatFibre nhaploblk bnds g u)))

/-! ### 5. optimal haploid value, optimal population value, genotype builder -/

/-- `numpy.max` of a non-empty vector given as head and tail -/
def maxL (a : α) (l : List α) : α := l.foldl (fun m x => if m < x then x else m) a

/-- candidates for block `b`: `haplomat[:, parents, b, t]` flattened (phase-major).
    `V[m][n]` is the list of block values of phase `m`, individual `n` (one trait). -/
def cands (V : List (List (List α))) (parents : List Nat) (b : Nat) : List α :=
  V.flatMap (fun Vm => parents.filterMap (fun p => (Vm[p]?).bind (fun r => r[b]?)))

/-- best block value among the parents: `.max((0,2))` entry for block `b`; `none` for no candidate -/
def bestBlock (V : List (List (List α))) (parents : List Nat) (b : Nat) : Option α :=
  match cands V parents b with
  | [] => none
  | c :: cs => some (maxL c cs)

/-- `ploidy * haplomat[:,xconfig,:,:].max((0,2)).sum(1)` for one cross and one trait;
    `ploidy = haplomat.shape[0]`, `nblk = haplomat.shape[2]` -/
def ohv (V : List (List (List α))) (nblk : Nat) (parents : List Nat) : α :=
  (V.length : α) * Np.sum ((List.range nblk).map (fun b => (bestBlock V parents b).getD 0))

/-- OPV `latentfn`: `-ploidy * haplomat[:,x,:,:].max((0,1)).sum(0)` for one trait -/
def opvLatent (V : List (List (List α))) (nblk : Nat) (x : List Nat) : α :=
  -((V.length : α) * Np.sum ((List.range nblk).map (fun b => (bestBlock V x b).getD 0)))

/-- OHV subset `latentfn`: `-(1/len(x)) * ohvmat[x,:].sum(0)` for one trait -/
def ohvLatent (ohvcol : List α) (x : List Nat) : α :=
  -(((1 : Nat) : α) / (x.length : α)) * Np.sum (x.filterMap (fun i => ohvcol[i]?))

/-- OHV real / integer / binary `latentfn` for one trait:
    `contrib = (1.0 / x.sum()) * x;  out = -contrib.dot(ohvmat)` — `x` weighs ALL cross configurations -/
def ohvLatentW (ohvcol : List α) (x : List α) : α :=
  -(Np.dot (x.map (fun xi => (((1 : Nat) : α) / Np.sum x) * xi)) ohvcol)

/-! ### 5b. `_calc_ohvmat`: the memory-chunk loop, transcribed

```
nconfig = xmap.shape[0];  out = numpy.empty((nconfig, t));  step = nconfig if mem is None else mem
for rst, rsp in zip(range(0, nconfig, step), srange(step, nconfig, step)):
    out[rst:rsp, :] = ploidy * (haplomat[:, xmap[rst:rsp, :], :, :].max((0,2)).sum(1))
```
One trait at a time; a cell of `out` that no iteration writes stays `none` (`numpy.empty`). -/

/-- Python `range(start, stop, step)` for `step ≥ 1`, with explicit fuel -/
def rangeStepF : Nat → Nat → Nat → Nat → List Nat
  | 0, _, _, _ => []
  | f + 1, start, stop, step => if start < stop then start :: rangeStepF f (start + step) stop step else []

/-- Python `range(start, stop, step)`, `step ≥ 1` (`stop - start` iterations always suffice) -/
def rangeStep (start stop step : Nat) : List Nat := rangeStepF (stop - start) start stop step

/-- `pybrops.core.util.subroutines.srange`: `range(start, stop, step)` followed by `stop` -/
def srange (start stop step : Nat) : List Nat := rangeStep start stop step ++ [stop]

/-- numpy slice assignment `out[rst:rsp] = vals` on a vector of possibly unwritten cells -/
def assignSlice {β : Type} (rst rsp : Nat) (vals : List β) (out : List (Option β)) : List (Option β) :=
  out.take rst ++ vals.map some ++ out.drop rsp

/-- the `for rst, rsp in zip(...)` loop: every chunk evaluates `ohv` on its rows of the cross map -/
def ohvmatLoop (V : List (List (List α))) (nblk : Nat) (xm : List (List Nat)) :
    List (Nat × Nat) → List (Option α) → List (Option α)
  | [], out => out
  | (rst, rsp) :: rest, out =>
    ohvmatLoop V nblk xm rest (assignSlice rst rsp ((slice rst rsp xm).map (ohv V nblk)) out)

/-- `_calc_ohvmat(ploidy, haplomat, xmap, mem)` for one trait (`ploidy = haplomat.shape[0]`, as every caller
    passes it).  `mem = none` is Python's `None`; a zero step makes `range` raise `ValueError`. -/
def calcOhvmat (V : List (List (List α))) (nblk : Nat) (xm : List (List Nat)) (mem : Option Nat) :
    Except String (List (Option α)) :=
  let nconfig := xm.length
  let step := mem.getD nconfig
  if step = 0 then .error "value" else
  .ok (ohvmatLoop V nblk xm (List.zip (rangeStep 0 nconfig step) (srange step nconfig step))
        (List.replicate nconfig none))

/-- `triudix(n, k)`: strictly increasing index lists (unique parents) -/
def triudixFrom (n : Nat) : Nat → Nat → List (List Nat)
  | 0, _ => [[]]
  | k + 1, st => (List.range n).flatMap (fun i =>
      if st ≤ i then (triudixFrom n k (i + 1)).map (i :: ·) else [])

/-- `triuix(n, k)`: non-decreasing index lists -/
def triuixFrom (n : Nat) : Nat → Nat → List (List Nat)
  | 0, _ => [[]]
  | k + 1, st => (List.range n).flatMap (fun i =>
      if st ≤ i then (triuixFrom n k i).map (i :: ·) else [])

def xmap (ntaxa nparent : Nat) (unique : Bool) : List (List Nat) :=
  if unique then triudixFrom ntaxa nparent 0 else triuixFrom ntaxa nparent 0

/-- genotype builder `latentfn` for one trait:
    best phase per (individual, block), sorted ascending along individuals per block, top `nbest`
    rows summed over individuals and blocks, times `-(ploidy / nbest)` -/
def gbPerBlock (V : List (List (List α))) (x : List Nat) (nbest : Nat) (b : Nat) : α :=
  let best := x.map (fun p => (bestBlock V [p] b).getD 0)
  let sorted := Np.stableSort (fun a c => decide (a ≤ c)) best
  Np.sum (sorted.drop (x.length - nbest))

def gbLatent (V : List (List (List α))) (nblk : Nat) (x : List Nat) (nbest : Nat) : α :=
  -((V.length : α) / (nbest : α)) * Np.sum ((List.range nblk).map (gbPerBlock V x nbest))

/-- the cells of one trait as total values, `none` when an uninitialised cell is among them -/
def traitValues (H : List (List (List (List (Option α))))) (t : Nat) : Option (List (List (List α))) :=
  allSome (H.map (fun Hm => allSome (Hm.map (fun Hn => (Hn[t]?).bind allSome))))

/-! ### 6. the mosaic gamete of a doubled haploid that recombines only at block boundaries -/

/-- block `b = (st, sp)` copied from the chromosome copy chosen for it -/
def mosaic (bnds : List (Nat × Nat)) (src : List (List α)) : List α :=
  (List.zipWith (fun b g => slice b.1 b.2 g) bnds src).flatten

end value

/-! ### 7. the code BEFORE the repair of defect D10 (kept for the `…_prerepair_counterexample` theorems and for
checking, on a tree without the fix, that the regression is caught)

`nhaploblk_chrom` handed blocks to the chromosome with the lowest `actual - ideal` whatever its marker count;
`haplobin` kept the equal-width labels even when a bin `[hb[j], hb[j+1])` held no marker, so fewer blocks than
requested were produced and the remaining block columns of the `numpy.empty` haplotype matrix were never written. -/

section prerepair
variable {α : Type} [Add α] [Sub α] [Mul α] [Div α] [Neg α] [OfNat α 0] [NatCast α]
  [LT α] [LE α] [DecidableLT α] [DecidableLE α] [DecidableEq α]

/-- the `for i in range(nhaploblk - nchr)` loop:
    `diff = nhaploblk_chrom - nhaploblk_ideal; ix = diff.argmin(); nhaploblk_chrom[ix] += 1` -/
def greedyPrerepair (ideal : List α) : Nat → List Nat → List Nat
  | 0, nb => nb
  | k + 1, nb => greedyPrerepair ideal k (incrAt (argmin (List.zipWith (fun (a : Nat) b => (a : α) - b) nb ideal)) nb)

/-- the loop with an all-NaN `diff` (total genetic length 0 ⇒ `ideal = inf * 0 = NaN`):
    `argmin` of an all-NaN vector is 0 in every iteration -/
def greedyNaNPrerepair : Nat → List Nat → List Nat
  | 0, nb => nb
  | k + 1, nb => greedyNaNPrerepair k (incrAt 0 nb)

/-- `nhaploblk_chrom(nhaploblk, genpos, chrgrp_stix, chrgrp_spix)`; `gl` is the vector of genetic
    lengths.  `ValueError` when fewer blocks than chromosomes are requested.  The test "total length is
    zero" is written with `≤` twice so that the same definition runs at `Float` (binary64, bit for bit
    what numpy computes) as well as at `Rat`. -/
def nhaploblkChromOfLenPrerepair (nhaploblk : Nat) (gl : List α) : Except String (List Nat) :=
  let nchr := gl.length
  if nhaploblk < nchr then .error "value" else
  let ones := List.replicate nchr 1
  if Np.sum gl ≤ 0 ∧ 0 ≤ Np.sum gl then .ok (greedyNaNPrerepair (nhaploblk - nchr) ones)
  else .ok (greedyPrerepair (ideal nhaploblk gl) (nhaploblk - nchr) ones)

def nhaploblkChromPrerepair (nhaploblk : Nat) (chroms : List (List α)) : Except String (List Nat) :=
  nhaploblkChromOfLenPrerepair nhaploblk (genlen chroms)

/-- the outer `for i in range(nchr)` loop with explicit boundary vectors (one per chromosome);
    the bin counter advances by the number of bins of the chromosome -/
def haplobinHBPrerepair : List (List α) → List (List α) → Nat → List (Option Nat)
  | hb :: hbs, pos :: cs, k => binChrom hb k pos ++ haplobinHBPrerepair hbs cs (k + (hb.length - 1))
  | _, _, _ => []

/-- `haplobin(nhaploblk_chrom, genpos, chrgrp_stix, chrgrp_spix)` -/
def haplobinPrerepair (nblk : List Nat) (chroms : List (List α)) : List (Option Nat) :=
  haplobinHBPrerepair (hbounds nblk chroms) chroms 0


def haplobinRPrerepair (rnd : α → α) (nblk : List Nat) (chroms : List (List α)) : List (Option Nat) :=
  haplobinHBPrerepair (hboundsR rnd nblk chroms) chroms 0

/-- everything of `haplomat` before the fill loop: apportionment, marker-count guard, bins, bounds.
    `error "value"`: fewer blocks than chromosomes / more blocks than markers on a chromosome;
    `error "uninit"`: a marker label was never written (cannot happen, `C18.bin_total`);
    `error "index"`: more runs than block columns (cannot happen, `C18.runs_le_requested`). -/
def blocksOfPrerepair (nhaploblk : Nat) (chroms : List (List α)) (guard : Bool) :
    Except String (List Nat × List Nat × List (Nat × Nat)) :=
  match nhaploblkChromPrerepair nhaploblk chroms with
  | .error e => .error e
  | .ok nblk =>
    if guard && (List.zipWith (fun n (c : List α) => decide (c.length < n)) nblk chroms).any id
    then .error "value" else
    match allSome (haplobinPrerepair nblk chroms) with
    | none => .error "uninit"
    | some hbin =>
      match blockBounds hbin with
      | .error e => .error e
      | .ok bnds => if nhaploblk < bnds.length then .error "index" else .ok (nblk, hbin, bnds)

end prerepair

end Haplo
