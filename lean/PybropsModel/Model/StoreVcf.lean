/-
Model of `DensePhasedGenotypeMatrix.from_vcf` (l.1040-1118) and `DenseGenotypeMatrix.from_vcf`
(l.1506-1588): VCF records with phased diploid calls → (phase, taxa, variant) int8 array via
`genotypes[:, 0:2]` and `transpose(2,1,0)`, labels from CHROM / POS / ID, then (optionally)
`group_vrnt()` = stable lexsort on (chromosome, position) applied to every per-variant array.

cyvcf2 is trusted through the contract "`variant.genotypes[i] = [allele0, allele1, phased]`,
`vcf.samples` = the header's sample names, CHROM/POS/ID as written".  Core Lean only.
-/
import PybropsModel.Np
import PybropsModel.Model.Store

namespace StoreVcf

/-- one VCF data line: CHROM (an integer name), POS, ID and one phased diploid call per sample -/
structure Rec where
  chrom : Int
  pos : Int
  id : String
  calls : List (Int × Int)
  deriving DecidableEq, Repr, Inhabited

/-- `numpy.int8(variant.genotypes)[:, 0:2]` for one record: (n, 2) -/
def callRows (r : Rec) : List (List Int) := r.calls.map (fun c => [c.1, c.2])

/-- `numpy.int8(mat)` of the accumulated list: (p, n, 2) -/
def stack (recs : List Rec) : List (List (List Int)) := recs.map callRows

/-- `A.transpose(2,1,0)` of a (p, n, m) array: out[a][b][c] = A[c][b][a] -/
def transpose210 (m n : Nat) (A : List (List (List Int))) : List (List (List Int)) :=
  (List.range m).map (fun a => (List.range n).map (fun b =>
    (List.range A.length).map (fun c => ((A.getD c []).getD b []).getD a 0)))

/-- the phased matrix before grouping: (2, n, p) -/
def matPhased (n : Nat) (recs : List Rec) : List (List (List Int)) := transpose210 2 n (stack recs)

/-- `mat.sum(0)`: the unphased (n, p) dosage matrix -/
def matUnphased (n : Nat) (recs : List Rec) : List (List Int) :=
  let P := matPhased n recs
  (List.range n).map (fun i => (List.range recs.length).map (fun j =>
    ((P.getD 0 []).getD i []).getD j 0 + ((P.getD 1 []).getD i []).getD j 0))

/-! ### `group_vrnt`: stable lexsort on (chrgrp, phypos), every array reordered by the same indices -/

def insBy {α} (le : α → α → Bool) (a : α) : List α → List α
  | [] => [a]
  | b :: l => if le a b then a :: b :: l else b :: insBy le a l

/-- insertion sort, stable (an element is inserted before the first strictly greater one) -/
def sortBy {α} (le : α → α → Bool) : List α → List α
  | [] => []
  | b :: l => insBy le b (sortBy le l)

def keyOf (r : Rec) : Int × Int := (r.chrom, r.pos)

/-- strict lexicographic order on (chromosome, position) -/
def keyLt (a b : Int × Int) : Bool := decide (a.1 < b.1) || (a.1 == b.1 && decide (a.2 < b.2))

/-- `a` may stand before `b`: `a` is not strictly greater; with equal keys the earlier index first -/
def idxLe (a b : (Int × Int) × Nat) : Bool :=
  keyLt a.1 b.1 || (!(keyLt b.1 a.1) && decide (a.2 ≤ b.2))

/-- `numpy.lexsort((vrnt_phypos, vrnt_chrgrp))` -/
def lexsortIdx (recs : List Rec) : List Nat :=
  (sortBy idxLe ((recs.map keyOf).zipIdx)).map Prod.snd

/-- variants after `reorder_vrnt(indices)` -/
def grouped (recs : List Rec) : List Rec := Np.take (lexsortIdx recs) recs

/-- everything `from_vcf` stores -/
structure Out where
  taxa : List String
  chrgrp : List Int
  phypos : List Int
  name : List String
  matP : List (List (List Int))      -- phased class
  matU : List (List Int)             -- unphased class
  /-- group metadata: name, start, stop, length per chromosome run (only after grouping) -/
  runs : Option (List (Int × Nat × Nat))
  deriving Repr

def fromVcf (samples : List String) (recs : List Rec) (autoGroup : Bool) : Out :=
  let n := samples.length
  -- every per-variant array is built in file order …
  let chr0 := recs.map (·.chrom)
  let pos0 := recs.map (·.pos)
  let nam0 := recs.map (·.id)
  let mP0 := matPhased n recs
  let mU0 := matUnphased n recs
  if autoGroup then
    -- … and reordered by the same index vector (`numpy.take` along the variant axis)
    let ix := lexsortIdx recs
    let chr := Np.take ix chr0
    { taxa := samples, chrgrp := chr, phypos := Np.take ix pos0, name := Np.take ix nam0,
      matP := mP0.map (fun ph => ph.map (Np.take ix)), matU := mU0.map (Np.take ix),
      runs := some ((Np.uniqueRuns chr).map (fun r => (r.1, r.2.1, r.2.2))) }
  else
    { taxa := samples, chrgrp := chr0, phypos := pos0, name := nam0, matP := mP0, matU := mU0, runs := none }

/-! ### the text level: CHROM as written, ID possibly missing -/

/-- one data line as cyvcf2 hands it over: `variant.CHROM` is a string, `variant.ID` is `None` for `.` -/
structure RawRec where
  chrom : String
  pos : Int
  id : Option String
  calls : List (Int × Int)
  deriving DecidableEq, Repr, Inhabited

/-- `int(variant.CHROM)` (ValueError for a name that is not an integer literal — the matrix stores
    chromosomes as an integer array, so such a file is refused) and `str(variant.ID)` (a missing
    identifier becomes the string "None") -/
def parseRec (r : RawRec) : Except Store.Err Rec :=
  match r.chrom.toInt? with
  | some c => pure ⟨c, r.pos, r.id.getD "None", r.calls⟩
  | none => throw .value

def parseRecs : List RawRec → Except Store.Err (List Rec)
  | [] => pure []
  | r :: rest => do
    let a ← parseRec r
    let tl ← parseRecs rest
    pure (a :: tl)

/-- `from_vcf(filename, auto_group_vrnt)` on the records as read -/
def fromVcfRaw (samples : List String) (raws : List RawRec) (autoGroup : Bool) : Except Store.Err Out := do
  let recs ← parseRecs raws
  pure (fromVcf samples recs autoGroup)

/-- entry (a, b, c) of a nested list (0 outside) -/
def entry3' (A : List (List (List Int))) (a b c : Nat) : Int := ((A.getD a []).getD b []).getD c 0

/-! ### the decidable Spec of the import (driver op `c16.spec_vcf`), evaluated on what the
       IMPLEMENTATION returned -/

/-- the variants of the imported matrix, in its order -/
def variants (recs : List Rec) (autoGroup : Bool) : List Rec := if autoGroup then grouped recs else recs

/-- what `from_vcf` returned: labels and the matrix of the class asked for (the other one empty) -/
structure Got where
  taxa : List String
  chrgrp : List Int
  phypos : List Int
  name : List String
  matP : List (List (List Int))
  matU : List (List Int)
  deriving Repr

/-- the calls of variant `j` as stored: phased class — allele 0 of every sample, then allele 1 of every
    sample; unphased class — the dosage of every sample -/
def colOut (phased : Bool) (n : Nat) (o : Got) (j : Nat) : List Int :=
  if phased then (List.range n).map (fun i => entry3' o.matP 0 i j) ++ (List.range n).map (fun i => entry3' o.matP 1 i j)
  else (List.range n).map (fun i => (o.matU.getD i []).getD j 0)

/-- the same column as the file's record has it -/
def colRec (phased : Bool) (r : Rec) : List Int :=
  if phased then r.calls.map (·.1) ++ r.calls.map (·.2) else r.calls.map (fun c => c.1 + c.2)

def shapeOk (phased : Bool) (n p : Nat) (o : Got) : Bool :=
  o.chrgrp.length == p && o.phypos.length == p && o.name.length == p &&
  (if phased then o.matP.length == 2 && o.matP.all (fun pl => pl.length == n && pl.all (·.length == p))
   else o.matU.length == n && o.matU.all (·.length == p))

/-- variant `j` of the output with / without its identifier -/
def outVar (phased : Bool) (n : Nat) (o : Got) (j : Nat) : Int × Int × List Int :=
  (o.chrgrp.getD j 0, o.phypos.getD j 0, colOut phased n o j)
def outNamed (phased : Bool) (n : Nat) (o : Got) (j : Nat) : Int × Int × String × List Int :=
  (o.chrgrp.getD j 0, o.phypos.getD j 0, o.name.getD j "", colOut phased n o j)
def recVar (phased : Bool) (r : Rec) : Int × Int × List Int := (r.chrom, r.pos, colRec phased r)
def recNamedOf (phased : Bool) (r : Rec) : Int × Int × String × List Int := (r.chrom, r.pos, r.id, colRec phased r)

/-- the output is in (chromosome, position) order — what `group_vrnt` produces; NOT part of the Spec (the
    property speaks of reproducing names, coordinates, identifiers and calls, not of an order): reported by the
    driver and covered by model = code -/
def sortedOut (p : Nat) (o : Got) : Bool :=
  (List.range (p - 1)).all (fun jx =>
    !(keyLt (o.chrgrp.getD (jx + 1) 0, o.phypos.getD (jx + 1) 0) (o.chrgrp.getD jx 0, o.phypos.getD jx 0)))

/-- **the Spec**: sample names; the variants — each with its chromosome, position, identifier (when the
    record has one: `hasId`) and column of calls — are the file's records, in file order (no grouping)
    or as a permutation of them (grouping): labels and calls travel together -/
def specVcf (samples : List String) (recs : List Rec) (hasId : List Bool) (g phased : Bool) (o : Got) : Bool :=
  let n := samples.length
  let p := recs.length
  let outVars := (List.range p).map (outVar phased n o)
  let recVars := recs.map (recVar phased)
  let outNm := (List.range p).map (outNamed phased n o)
  let recNm := (recs.zip hasId).filterMap (fun rh => if rh.2 then some (recNamedOf phased rh.1) else none)
  let namesFileOrder := ((recs.zip hasId).zipIdx).all (fun rhi => !rhi.1.2 || o.name.getD rhi.2 "" == rhi.1.1.id)
  let namesAnyOrder := recNm.all (fun v => recNm.count v ≤ outNm.count v)
  let sameOrder := outVars == recVars
  let isPerm := outVars.length == recVars.length && outVars.all (fun v => outVars.count v == recVars.count v)
  o.taxa == samples && shapeOk phased n p o &&
    (if g then isPerm && namesAnyOrder else sameOrder && namesFileOrder)

/-- the model's own output in the shape the Spec reads -/
def gotOf (o : Out) : Got := ⟨o.taxa, o.chrgrp, o.phypos, o.name, o.matP, o.matU⟩

end StoreVcf
