/-
IEEE-754 binary64 round-to-nearest, ties-to-even, as a function ℚ → ℚ (exponent range unbounded: no
overflow, no subnormals — exact for every quotient `c/m` of naturals below 2¹⁰²³ the statistics form).
Core Lean only: evaluated by the kernel in the cross-checks against `Float` (Props/C09), reasoned about in
Lemmas/Binary64.lean, where it is shown to satisfy `Rounding.RoundingContract` with `e = 2⁻⁵³`.
-/
namespace Binary64

/-- `2^k` for an integer exponent -/
def pow2 : Int → Rat
  | .ofNat n => ((2 ^ n : Nat) : Rat)
  | .negSucc n => 1 / ((2 ^ (n + 1) : Nat) : Rat)

/-- `⌊log₂ x⌋` for `x > 0`: the bit lengths of numerator and denominator give it up to one -/
def flog2 (x : Rat) : Int :=
  let k : Int := (Nat.log2 x.num.toNat : Int) - (Nat.log2 x.den : Int)
  if pow2 k ≤ x then k else k - 1

/-- round to the nearest integer, ties to the even one -/
def rne (q : Rat) : Int :=
  let f := q.floor
  let r := q - (f : Rat)
  if r < 1 / 2 then f else if 1 / 2 < r then f + 1 else if f % 2 = 0 then f else f + 1

/-- significand (an integer in `[2⁵², 2⁵³]`) and exponent of the rounded value of `x > 0` -/
def roundPartsPos (x : Rat) : Int × Int :=
  let e := flog2 x
  (rne (x / pow2 (e - 52)), e - 52)

def roundPos (x : Rat) : Rat := ((roundPartsPos x).1 : Rat) * pow2 (roundPartsPos x).2

/-- binary64 rounding of a rational -/
def roundBinary64 (x : Rat) : Rat :=
  if x = 0 then 0 else if 0 < x then roundPos x else -roundPos (-x)

/-- the `Float` with significand `m` (|m| ≤ 2⁵³) and exponent `k` (|k| ≤ 1000), built from exact operations only -/
def toFloat (p : Int × Int) : Float :=
  if 0 ≤ p.2 then Float.ofInt p.1 * (2 ^ p.2.toNat : Nat).toFloat
  else Float.ofInt p.1 / (2 ^ (-p.2).toNat : Nat).toFloat

/-- does Lean's binary64 division `c / m` return exactly `roundBinary64 (c/m)`? (`0 < c`, `0 < m`) -/
def agreesWithFloatDiv (c m : Nat) : Bool :=
  toFloat (roundPartsPos ((c : Rat) / (m : Rat))) == c.toFloat / m.toFloat

end Binary64
