/-
Model of the seven mating protocols' `mate()`:
  pybrops/breed/prot/mate/{SelfCross,TwoWayCross,TwoWayDHCross,ThreeWayCross,ThreeWayDHCross,
                           FourWayCross,FourWayDHCross}.py
as functions
  (pgmat, xconfig, nmating, nprogeny, nself, xoprob, progeny_counter, family_counter, draws)
     ↦ (mat, taxa, taxa_grp, counters', taxa-group metadata)        or an error.
Core Lean only; executed by the driver with alleles in `Int` and draws / probabilities in `Rat`.

Names are lists of code points (`"2w"` = [50, 119]); `group_taxa()` = `numpy.lexsort((taxa, taxa_grp))`
= stable sort on (family, name) with Python's code-point string order.
-/
import PybropsModel.Model.Meiosis

namespace Mating
open Meiosis

inductive Proto where
  | self | twoWay | twoWayDH | threeWay | threeWayDH | fourWay | fourWayDH
  deriving DecidableEq, Repr

def Proto.nparent : Proto → Nat
  | .self => 1
  | .twoWay | .twoWayDH => 2
  | .threeWay | .threeWayDH => 3
  | .fourWay | .fourWayDH => 4

/-- `"sx" "2w" "dh" "3w" "dh" "4w" "dh"` as code points -/
def Proto.pre : Proto → List Nat
  | .self => [115, 120]
  | .twoWay => [50, 119]
  | .threeWay => [51, 119]
  | .fourWay => [52, 119]
  | .twoWayDH | .threeWayDH | .fourWayDH => [100, 104]

def Proto.isDH : Proto → Bool
  | .twoWayDH | .threeWayDH | .fourWayDH => true
  | _ => false

/-- `nmating` / `nprogeny`: an `Integral` or an array -/
inductive Cnt where
  | scalar (n : Nat)
  | arr (l : List Nat)
  deriving Repr

/-- `if isinstance(n, Integral): n = numpy.repeat(n, len(xconfig))`; `check_ndarray_shape_eq` -/
def Cnt.expand (c : Cnt) (ncross : Nat) : Except Err (List Nat) :=
  match c with
  | .scalar n => .ok (List.replicate ncross n)
  | .arr l => if l.length = ncross then .ok l else .error .value

/-- numpy's `a * b` for two elements of a `bits`-wide integer dtype (two's complement when `signed`): the
    product is reduced modulo `2^bits` without warning. -/
def wrapMul (bits : Nat) (signed : Bool) (a b : Nat) : Int :=
  let m := (a * b) % 2 ^ bits
  if signed && decide (2 ^ (bits - 1) ≤ m) then (m : Int) - (2 ^ bits : Nat) else (m : Int)

/-- BEFORE the repair of D70: `SelfCross`, `TwoWayCross` and `ThreeWayCross` computed `nmating * nprogeny` in the
    dtype of the count arrays they were handed (`bits`-wide, `signed` or not) -/
def countProductPrerepair (bits : Nat) (signed : Bool) (nm np : List Nat) : List Int :=
  List.zipWith (wrapMul bits signed) nm np

/-- the repaired code: `nxprogeny = numpy.multiply(nmating, nprogeny, dtype = "int64")` — both operands are cast to
    int64 first, whatever integer dtype the count arrays have -/
def countProduct (nm np : List Nat) : List Int :=
  List.zipWith (wrapMul 64 true) nm np

/-- `xconfig[:,k]` -/
def col (xc : List (List Nat)) (k : Nat) : List Nat := xc.map (fun r => r.getD k 0)

/-! ### names -/

/-- `w` decimal digits of `n` (most significant first, as code points); exact when `n < 10^w` -/
def fixedW : Nat → Nat → List Nat
  | 0, _ => []
  | w + 1, n => (48 + n / 10 ^ w % 10) :: fixedW w n

/-- number of decimal digits of `n` (at least 1); `fuel` ≥ the answer suffices (`zfill7` passes `n` itself,
    so the count is exact for every `n`: `Lemmas/MatingOrder.ndigits_spec`) -/
def ndigits : Nat → Nat → Nat
  | 0, _ => 1
  | fuel + 1, n => if n < 10 then 1 else 1 + ndigits fuel (n / 10)

/-- `str(i).zfill(7)` for `i ≥ 0` -/
def zfill7 (i : Nat) : List Nat := fixedW (max 7 (ndigits i i)) i

/-- `prefix + str(i).zfill(7)` -/
def name (pre : List Nat) (i : Nat) : List Nat := pre ++ zfill7 i

/-! ### rows of the progeny matrix and `group_taxa` -/

structure Row (α : Type) where
  ind : Ind α
  name : List Nat
  grp : Nat
  deriving Repr

/-- lexsort key order: family first, then name (Python `str` order = code-point lexicographic) -/
def rowLe {α : Type} (a b : Row α) : Bool :=
  decide (a.grp < b.grp) || (a.grp == b.grp && !decide (b.name < a.name))

/-- insertion of `a` into a list in key order, in front of the first element that is not smaller
    (so `a`, which came earlier, stays ahead of its equals: the sort is stable) -/
def insertRow {β : Type} (le : β → β → Bool) (a : β) : List β → List β
  | [] => [a]
  | b :: bs => if le a b then a :: b :: bs else b :: insertRow le a bs

/-- stable sort (insertion from the right: linear time on input that is already in order, which the
    generation order is unless a name outgrows its 7 digits) -/
def sortRows {β : Type} (le : β → β → Bool) : List β → List β
  | [] => []
  | a :: l => insertRow le a (sortRows le l)

/-- `progeny.group_taxa()`: `sort_taxa()` with keys `(taxa, taxa_grp)` (numpy.lexsort is stable) -/
def groupTaxa {α : Type} (rows : List (Row α)) : List (Row α) := sortRows rowLe rows

structure Out (α : Type) where
  rows : List (Row α)
  pc : Nat
  fc : Nat
  /-- `taxa_grp_name, taxa_grp_stix, taxa_grp_len` of `numpy.unique(taxa_grp, return_index, return_counts)` -/
  grpMeta : List (Nat × Nat × Nat)
  deriving Repr

section protocols
variable {α ρ : Type} [LT ρ] [DecidableLT ρ]

/-- progeny generation of one protocol, in generation order (before `group_taxa`):
    the progeny and the draws left over.  `nm`, `np` are the expanded count arrays. -/
def generate (P : Proto) (pop : Pop α) (xc : List (List Nat)) (nm np : List Nat) (nself : Nat)
    (xo : List ρ) (d : List (DrawMat ρ)) : Except Err (Pop α × List (DrawMat ρ)) :=
  let mp := List.zipWith (· * ·) nm np           -- nmating * nprogeny
  let npm := Np.repeatEach nm np                 -- numpy.repeat(nprogeny, nmating)
  match P with
  | .self =>
    let fsel := Np.repeatEach mp (col xc 0)
    match mateE pop pop fsel fsel xo d with
    | .error e => .error e
    | .ok (s, d) => selfLoop xo (Np.arange 0 s.length) nself s d
  | .twoWay =>
    let fsel := Np.repeatEach mp (col xc 0)
    let msel := Np.repeatEach mp (col xc 1)
    match mateE pop pop fsel msel xo d with
    | .error e => .error e
    | .ok (h, d) => selfLoop xo (Np.arange 0 h.length) nself h d
  | .twoWayDH =>
    let fsel := Np.repeatEach nm (col xc 0)
    let msel := Np.repeatEach nm (col xc 1)
    match mateE pop pop fsel msel xo d with
    | .error e => .error e
    | .ok (h, d) =>
      match selfLoop xo (Np.arange 0 h.length) nself h d with
      | .error e => .error e
      | .ok (h, d) => dhE h (Np.repeatEach npm (Np.arange 0 h.length)) xo d
  | .threeWay =>
    let rsel := Np.repeatEach mp (col xc 0)
    let fsel := Np.repeatEach nm (col xc 1)
    let msel := Np.repeatEach nm (col xc 2)
    match mateE pop pop fsel msel xo d with
    | .error e => .error e
    | .ok (f1, d) =>
      let f1sel := Np.repeatEach npm (Np.arange 0 f1.length)
      match mateE pop f1 rsel f1sel xo d with
      | .error e => .error e
      | .ok (h, d) => selfLoop xo (Np.arange 0 h.length) nself h d
  | .threeWayDH =>
    let rsel := Np.repeatEach nm (col xc 0)
    let fsel := Np.repeatEach nm (col xc 1)
    let msel := Np.repeatEach nm (col xc 2)
    match mateE pop pop fsel msel xo d with
    | .error e => .error e
    | .ok (f1, d) =>
      match mateE pop f1 rsel (Np.arange 0 f1.length) xo d with
      | .error e => .error e
      | .ok (bc, d) =>
        match selfLoop xo (Np.arange 0 bc.length) nself bc d with
        | .error e => .error e
        | .ok (bc, d) => dhE bc (Np.repeatEach npm (Np.arange 0 bc.length)) xo d
  | .fourWay =>
    let f2sel := Np.repeatEach nm (col xc 0)
    let m2sel := Np.repeatEach nm (col xc 1)
    let f1sel := Np.repeatEach nm (col xc 2)
    let m1sel := Np.repeatEach nm (col xc 3)
    match mateE pop pop f1sel m1sel xo d with
    | .error e => .error e
    | .ok (ab, d) =>
      match mateE pop pop f2sel m2sel xo d with
      | .error e => .error e
      | .ok (cd, d) =>
        let absel := Np.repeatEach npm (Np.arange 0 ab.length)
        let cdsel := Np.repeatEach npm (Np.arange 0 cd.length)
        match mateE ab cd absel cdsel xo d with
        | .error e => .error e
        | .ok (h, d) => selfLoop xo (Np.arange 0 h.length) nself h d
  | .fourWayDH =>
    let f2sel := Np.repeatEach nm (col xc 0)
    let m2sel := Np.repeatEach nm (col xc 1)
    let f1sel := Np.repeatEach nm (col xc 2)
    let m1sel := Np.repeatEach nm (col xc 3)
    match mateE pop pop f1sel m1sel xo d with
    | .error e => .error e
    | .ok (ab, d) =>
      match mateE pop pop f2sel m2sel xo d with
      | .error e => .error e
      | .ok (cd, d) =>
        match mateE ab cd (Np.arange 0 ab.length) (Np.arange 0 cd.length) xo d with
        | .error e => .error e
        | .ok (dih, d) =>
          match selfLoop xo (Np.arange 0 dih.length) nself dih d with
          | .error e => .error e
          | .ok (dih, d) => dhE dih (Np.repeatEach npm (Np.arange 0 dih.length)) xo d

/-- family labels as each protocol builds them:
    `repeat(arange(fc, fc+nfam), nmating*nprogeny)` (self, two-way) or
    `repeat(repeat(arange(fc, fc+nfam), nmating), repeat(nprogeny, nmating))` (the five others) -/
def families (P : Proto) (fc ncross : Nat) (nm np : List Nat) : List Nat :=
  match P with
  | .self | .twoWay => Np.repeatEach (List.zipWith (· * ·) nm np) (Np.arange fc ncross)
  | _ => Np.repeatEach (Np.repeatEach nm np) (Np.repeatEach nm (Np.arange fc ncross))

/-- the genotype matrix a `DensePhasedGenotypeMatrix` with `vrnt_xoprob` can hold: rectangular -/
def popShaped (pop : Pop α) (nvrnt : Nat) : Bool :=
  pop.all (fun i => i.1.length == nvrnt && i.2.length == nvrnt)

/-- `mate()` of protocol `P`; `draws` = the matrices returned by the successive `rng.uniform`
    calls (all of them must be consumed) -/
def mate (P : Proto) (pop : Pop α) (xc : List (List Nat)) (nmating nprogeny : Cnt) (nself : Nat)
    (xo : List ρ) (pc fc : Nat) (draws : List (DrawMat ρ)) : Except Err (Out α) :=
  if !popShaped pop xo.length then .error .shape else
  if !xc.all (fun r => r.length == P.nparent) then .error .value else
  match nmating.expand xc.length with
  | .error e => .error e
  | .ok nm =>
    match nprogeny.expand xc.length with
    | .error e => .error e
    | .ok np =>
      match generate P pop xc nm np nself xo draws with
      | .error e => .error e
      | .ok (prog, rest) =>
        if !rest.isEmpty then .error .oracle else
        let cnt := prog.length
        let taxa := (Np.arange pc cnt).map (name P.pre)
        let grp := families P fc xc.length nm np
        if grp.length ≠ cnt then .error .value else     -- the matrix constructor checks len(taxa_grp)
        let rows := groupTaxa ((List.zip prog (List.zip taxa grp)).map (fun x => ⟨x.1, x.2.1, x.2.2⟩))
        .ok { rows := rows, pc := pc + cnt, fc := fc + xc.length,
              grpMeta := Np.uniqueRuns (rows.map Row.grp) }

/-! ### histories: several `mate()` calls on ONE protocol object (round 5) -/

/-- the arguments of one `mate()` call; the protocol object supplies the two counters -/
structure Call (α ρ : Type) where
  pop : Pop α
  xc : List (List Nat)
  nmating : Cnt
  nprogeny : Cnt
  nself : Nat
  xo : List ρ
  draws : List (DrawMat ρ)

/-- successive `mate()` calls on one object: call `k` starts from the counters call `k-1` left behind
    (`self.progeny_counter += progcnt`, `self.family_counter += nfam`); nothing else is kept between calls -/
def mateSeq (P : Proto) : Nat → Nat → List (Call α ρ) → Except Err (List (Out α))
  | _, _, [] => .ok []
  | pc, fc, c :: cs =>
    match mate P c.pop c.xc c.nmating c.nprogeny c.nself c.xo pc fc c.draws with
    | .error e => .error e
    | .ok o =>
      match mateSeq P o.pc o.fc cs with
      | .error e => .error e
      | .ok os => .ok (o :: os)

end protocols

/-- a non-negative integer stored in a `bits`-wide integer dtype (two's complement when `signed`), as
    `numpy.arange(start, stop, dtype = …)` stores it when `start` itself fits: reduced modulo `2^bits` -/
def wrapInt (bits : Nat) (signed : Bool) (v : Nat) : Int := wrapMul bits signed v 1

/-- `numpy.arange(fc, fc + n, dtype = <bits-wide dtype>)`.  The code builds the family labels with `dtype = 'int64'`
    (`labelsInDtype 64 true`), whatever dtype the PARENTS' `taxa_grp` has; a variant that builds them in the parents'
    label dtype is `labelsInDtype 8 true` for int8 parents. -/
def labelsInDtype (bits : Nat) (signed : Bool) (fc n : Nat) : List Int := (Np.arange fc n).map (wrapInt bits signed)

/-! ### the public call: numpy index rule for `xconfig`, marker metadata of the result -/

/-- numpy's rule for an index on an axis of length `n`: `-n ≤ s < 0` means `s + n`; every other value
    outside `[0, n)` is out of bounds (returned as `n`, which no lookup accepts, so that the
    IndexError is raised exactly when the index is used) -/
def wrapIdx (n : Nat) (s : Int) : Nat :=
  if 0 ≤ s then s.toNat else if -(n : Int) ≤ s then (s + n).toNat else n

/-- `xconfig` as the code uses it: every entry only ever indexes the taxa axis of `pgmat.mat` -/
def wrapConfig (n : Nat) (xc : List (List Int)) : List (List Nat) := xc.map (fun r => r.map (wrapIdx n))

/-- marker metadata of a `DensePhasedGenotypeMatrix`: the nine `vrnt_*` arrays the constructor takes
    and the four chromosome-group arrays; `μ` is the (opaque) type of one array -/
structure VMeta (μ : Type) where
  chrgrp : Option μ
  phypos : Option μ
  name : Option μ
  genpos : Option μ
  xoprob : Option μ
  hapgrp : Option μ
  hapalt : Option μ
  hapref : Option μ
  mask : Option μ
  chrgrp_name : Option μ
  chrgrp_stix : Option μ
  chrgrp_spix : Option μ
  chrgrp_len : Option μ
  deriving Repr

/-- marker metadata of the progeny matrix as each of the seven `mate()` builds it (the code is the
    same in all seven): the constructor keywords `vrnt_chrgrp = pgmat.vrnt_chrgrp, …, vrnt_hapalt =
    pgmat.vrnt_hapalt, vrnt_hapref = pgmat.vrnt_hapref, vrnt_mask = pgmat.vrnt_mask` (the constructor
    leaves the group arrays `None`), then the four assignments `progeny.vrnt_chrgrp_name =
    pgmat.vrnt_chrgrp_name` …; `group_taxa()` does not touch marker metadata -/
def progenyMeta {μ : Type} (_ : Proto) (pg : VMeta μ) : VMeta μ :=
  let built : VMeta μ :=
    { chrgrp := pg.chrgrp, phypos := pg.phypos, name := pg.name, genpos := pg.genpos,
      xoprob := pg.xoprob, hapgrp := pg.hapgrp, hapalt := pg.hapalt, hapref := pg.hapref,
      mask := pg.mask, chrgrp_name := none, chrgrp_stix := none, chrgrp_spix := none, chrgrp_len := none }
  { built with chrgrp_name := pg.chrgrp_name, chrgrp_stix := pg.chrgrp_stix,
               chrgrp_spix := pg.chrgrp_spix, chrgrp_len := pg.chrgrp_len }

/-- `<Protocol>.mate(pgmat, xconfig, nmating, nprogeny, nself)` with an integer `xconfig` (negative
    entries count from the end, as numpy indexes) and the marker metadata of `pgmat` -/
def mateFull {α ρ μ : Type} [LT ρ] [DecidableLT ρ] (P : Proto) (pop : Pop α) (pg : VMeta μ)
    (xc : List (List Int)) (nmating nprogeny : Cnt) (nself : Nat) (xo : List ρ) (pc fc : Nat)
    (draws : List (DrawMat ρ)) : Except Err (Out α × VMeta μ) :=
  match mate P pop (wrapConfig pop.length xc) nmating nprogeny nself xo pc fc draws with
  | .error e => .error e
  | .ok o => .ok (o, progenyMeta P pg)

/-! ### the decidable Spec evaluated on implementation outputs -/

section spec
variable {α ρ : Type}

/-- `out` is a left-to-right mosaic of the haplotypes `srcs` (all given from the current marker on);
    `cur` = the source in use at the previous marker (identified by its remaining suffix); the source
    may change at a marker only if its crossover probability is positive -/
def MosaicFrom [LT ρ] [OfNat ρ 0] : List α → List (List α) → List ρ → List α → Prop
  | _, _, [], [] => True
  | cur, srcs, x :: xs, a :: out =>
      ∃ nxt, nxt ∈ srcs ∧ (nxt = cur ∨ 0 < x) ∧ nxt.head? = some a ∧
        MosaicFrom nxt.tail (srcs.map List.tail) xs out
  | _, _, _, _ => False

/-- the source at the first marker is free -/
def Mosaic [LT ρ] [OfNat ρ 0] (srcs : List (List α)) (xo : List ρ) (out : List α) : Prop :=
  ∃ cur, cur ∈ srcs ∧ MosaicFrom cur srcs xo out

/-- reachability form of the mosaic test: `reach[s]` = "some explanation of the prefix read so far
    ends in source `s`" -/
def mosaicDP [BEq α] [LT ρ] [DecidableLT ρ] [OfNat ρ 0] : List Bool → List (List α) → List ρ → List α → Bool
  | reach, _, [], [] => reach.any id
  | reach, srcs, x :: xs, a :: out =>
      let anyR := reach.any id
      let reach' := (List.zip srcs reach).map (fun sr => (sr.1.head? == some a) && (sr.2 || (decide (0 < x) && anyR)))
      mosaicDP reach' (srcs.map List.tail) xs out
  | _, _, _, _ => false

def mosaicCheck [BEq α] [LT ρ] [DecidableLT ρ] [OfNat ρ 0] (srcs : List (List α)) (xo : List ρ) (out : List α) : Bool :=
  mosaicDP (srcs.map (fun _ => true)) srcs xo out

/-- both chromosome copies of parent `k` of a cross -/
def parentHaps (pop : Pop α) (cross : List Nat) (k : Nat) : List (List α) :=
  match pop[cross.getD k 0]? with
  | some i => [i.1, i.2]
  | none => []

/-- the haplotypes the cross configuration assigns to the two sides of a progeny of `cross`
    (phase 0 side, phase 1 side).  Without selfing / DH the sides are separate: female (or
    recurrent parent, or the F1×M1 hybrid) → phase 0, male (or the intermediate hybrid) → phase 1;
    selfing and chromosome doubling draw both copies from the one intermediate hybrid. -/
def sources (P : Proto) (nself : Nat) (pop : Pop α) (cross : List Nat) : List (List α) × List (List α) :=
  let h := parentHaps pop cross
  match P with
  | .self => (h 0, h 0)
  | .twoWay => if nself = 0 then (h 0, h 1) else (h 0 ++ h 1, h 0 ++ h 1)
  | .twoWayDH => (h 0 ++ h 1, h 0 ++ h 1)
  | .threeWay =>
      if nself = 0 then (h 0, h 1 ++ h 2) else (h 0 ++ (h 1 ++ h 2), h 0 ++ (h 1 ++ h 2))
  | .threeWayDH => (h 0 ++ (h 1 ++ h 2), h 0 ++ (h 1 ++ h 2))
  | .fourWay =>
      if nself = 0 then (h 2 ++ h 3, h 0 ++ h 1)
      else ((h 2 ++ h 3) ++ (h 0 ++ h 1), (h 2 ++ h 3) ++ (h 0 ++ h 1))
  | .fourWayDH => ((h 2 ++ h 3) ++ (h 0 ++ h 1), (h 2 ++ h 3) ++ (h 0 ++ h 1))

end spec

end Mating
