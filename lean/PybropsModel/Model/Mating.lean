/-
Model of the seven mating protocols' `mate()`:
  pybrops/breed/prot/mate/{SelfCross,TwoWayCross,TwoWayDHCross,ThreeWayCross,ThreeWayDHCross,
                           FourWayCross,FourWayDHCross}.py
as functions
  (pgmat, xconfig, nmating, nprogeny, nself, xoprob, progeny_counter, family_counter, draws)
     ↦ (mat, taxa, taxa_grp, counters', taxa-group metadata)        or an error.
Core Lean only; executed by the driver with alleles in `Int` and draws / probabilities in `Rat`.

Names are lists of code points (`"2w"` = [50, 119]); `group_taxa()` = `numpy.lexsort((taxa, taxa_grp))`
= stable sort on (family, name) with Python's code-point string order.
-/
import PybropsModel.Model.Meiosis

namespace Mating
open Meiosis

inductive Proto where
  | self | twoWay | twoWayDH | threeWay | threeWayDH | fourWay | fourWayDH
  deriving DecidableEq, Repr

def Proto.nparent : Proto → Nat
  | .self => 1
  | .twoWay | .twoWayDH => 2
  | .threeWay | .threeWayDH => 3
  | .fourWay | .fourWayDH => 4

/-- `"sx" "2w" "dh" "3w" "dh" "4w" "dh"` as code points -/
def Proto.pre : Proto → List Nat
  | .self => [115, 120]
  | .twoWay => [50, 119]
  | .threeWay => [51, 119]
  | .fourWay => [52, 119]
  | .twoWayDH | .threeWayDH | .fourWayDH => [100, 104]

def Proto.isDH : Proto → Bool
  | .twoWayDH | .threeWayDH | .fourWayDH => true
  | _ => false

/-- `nmating` / `nprogeny`: an `Integral` or an array -/
inductive Cnt where
  | scalar (n : Nat)
  | arr (l : List Nat)
  deriving Repr

/-- `if isinstance(n, Integral): n = numpy.repeat(n, len(xconfig))`; `check_ndarray_shape_eq` -/
def Cnt.expand (c : Cnt) (ncross : Nat) : Except Err (List Nat) :=
  match c with
  | .scalar n => .ok (List.replicate ncross n)
  | .arr l => if l.length = ncross then .ok l else .error .value

/-- `xconfig[:,k]` -/
def col (xc : List (List Nat)) (k : Nat) : List Nat := xc.map (fun r => r.getD k 0)

/-! ### names -/

/-- `w` decimal digits of `n` (most significant first, as code points); exact when `n < 10^w` -/
def fixedW : Nat → Nat → List Nat
  | 0, _ => []
  | w + 1, n => (48 + n / 10 ^ w % 10) :: fixedW w n

/-- number of decimal digits of `n` (at least 1); `fuel` ≥ the answer suffices -/
def ndigits : Nat → Nat → Nat
  | 0, _ => 1
  | fuel + 1, n => if n < 10 then 1 else 1 + ndigits fuel (n / 10)

/-- `str(i).zfill(7)` for `i ≥ 0` -/
def zfill7 (i : Nat) : List Nat := fixedW (max 7 (ndigits 64 i)) i

/-- `prefix + str(i).zfill(7)` -/
def name (pre : List Nat) (i : Nat) : List Nat := pre ++ zfill7 i

/-! ### rows of the progeny matrix and `group_taxa` -/

structure Row (α : Type) where
  ind : Ind α
  name : List Nat
  grp : Nat
  deriving Repr

/-- lexsort key order: family first, then name (Python `str` order = code-point lexicographic) -/
def rowLe {α : Type} (a b : Row α) : Bool :=
  decide (a.grp < b.grp) || (a.grp == b.grp && !decide (b.name < a.name))

/-- `progeny.group_taxa()`: `sort_taxa()` with keys `(taxa, taxa_grp)` (numpy.lexsort is stable) -/
def groupTaxa {α : Type} (rows : List (Row α)) : List (Row α) := Np.stableSort rowLe rows

structure Out (α : Type) where
  rows : List (Row α)
  pc : Nat
  fc : Nat
  /-- `taxa_grp_name, taxa_grp_stix, taxa_grp_len` of `numpy.unique(taxa_grp, return_index, return_counts)` -/
  grpMeta : List (Nat × Nat × Nat)
  deriving Repr

section protocols
variable {α ρ : Type} [LT ρ] [DecidableLT ρ]

/-- progeny generation of one protocol, in generation order (before `group_taxa`):
    the progeny and the draws left over.  `nm`, `np` are the expanded count arrays. -/
def generate (P : Proto) (pop : Pop α) (xc : List (List Nat)) (nm np : List Nat) (nself : Nat)
    (xo : List ρ) (d : List (DrawMat ρ)) : Except Err (Pop α × List (DrawMat ρ)) :=
  let mp := List.zipWith (· * ·) nm np           -- nmating * nprogeny
  let npm := Np.repeatEach nm np                 -- numpy.repeat(nprogeny, nmating)
  match P with
  | .self =>
    let fsel := Np.repeatEach mp (col xc 0)
    match mateE pop pop fsel fsel xo d with
    | .error e => .error e
    | .ok (s, d) => selfLoop xo (Np.arange 0 s.length) nself s d
  | .twoWay =>
    let fsel := Np.repeatEach mp (col xc 0)
    let msel := Np.repeatEach mp (col xc 1)
    match mateE pop pop fsel msel xo d with
    | .error e => .error e
    | .ok (h, d) => selfLoop xo (Np.arange 0 h.length) nself h d
  | .twoWayDH =>
    let fsel := Np.repeatEach nm (col xc 0)
    let msel := Np.repeatEach nm (col xc 1)
    match mateE pop pop fsel msel xo d with
    | .error e => .error e
    | .ok (h, d) =>
      match selfLoop xo (Np.arange 0 h.length) nself h d with
      | .error e => .error e
      | .ok (h, d) => dhE h (Np.repeatEach npm (Np.arange 0 h.length)) xo d
  | .threeWay =>
    let rsel := Np.repeatEach mp (col xc 0)
    let fsel := Np.repeatEach nm (col xc 1)
    let msel := Np.repeatEach nm (col xc 2)
    match mateE pop pop fsel msel xo d with
    | .error e => .error e
    | .ok (f1, d) =>
      let f1sel := Np.repeatEach npm (Np.arange 0 f1.length)
      match mateE pop f1 rsel f1sel xo d with
      | .error e => .error e
      | .ok (h, d) => selfLoop xo (Np.arange 0 h.length) nself h d
  | .threeWayDH =>
    let rsel := Np.repeatEach nm (col xc 0)
    let fsel := Np.repeatEach nm (col xc 1)
    let msel := Np.repeatEach nm (col xc 2)
    match mateE pop pop fsel msel xo d with
    | .error e => .error e
    | .ok (f1, d) =>
      match mateE pop f1 rsel (Np.arange 0 f1.length) xo d with
      | .error e => .error e
      | .ok (bc, d) =>
        match selfLoop xo (Np.arange 0 bc.length) nself bc d with
        | .error e => .error e
        | .ok (bc, d) => dhE bc (Np.repeatEach npm (Np.arange 0 bc.length)) xo d
  | .fourWay =>
    let f2sel := Np.repeatEach nm (col xc 0)
    let m2sel := Np.repeatEach nm (col xc 1)
    let f1sel := Np.repeatEach nm (col xc 2)
    let m1sel := Np.repeatEach nm (col xc 3)
    match mateE pop pop f1sel m1sel xo d with
    | .error e => .error e
    | .ok (ab, d) =>
      match mateE pop pop f2sel m2sel xo d with
      | .error e => .error e
      | .ok (cd, d) =>
        let absel := Np.repeatEach npm (Np.arange 0 ab.length)
        let cdsel := Np.repeatEach npm (Np.arange 0 cd.length)
        match mateE ab cd absel cdsel xo d with
        | .error e => .error e
        | .ok (h, d) => selfLoop xo (Np.arange 0 h.length) nself h d
  | .fourWayDH =>
    let f2sel := Np.repeatEach nm (col xc 0)
    let m2sel := Np.repeatEach nm (col xc 1)
    let f1sel := Np.repeatEach nm (col xc 2)
    let m1sel := Np.repeatEach nm (col xc 3)
    match mateE pop pop f1sel m1sel xo d with
    | .error e => .error e
    | .ok (ab, d) =>
      match mateE pop pop f2sel m2sel xo d with
      | .error e => .error e
      | .ok (cd, d) =>
        match mateE ab cd (Np.arange 0 ab.length) (Np.arange 0 cd.length) xo d with
        | .error e => .error e
        | .ok (dih, d) =>
          match selfLoop xo (Np.arange 0 dih.length) nself dih d with
          | .error e => .error e
          | .ok (dih, d) => dhE dih (Np.repeatEach npm (Np.arange 0 dih.length)) xo d

/-- family labels as each protocol builds them:
    `repeat(arange(fc, fc+nfam), nmating*nprogeny)` (self, two-way) or
    `repeat(repeat(arange(fc, fc+nfam), nmating), repeat(nprogeny, nmating))` (the five others) -/
def families (P : Proto) (fc ncross : Nat) (nm np : List Nat) : List Nat :=
  match P with
  | .self | .twoWay => Np.repeatEach (List.zipWith (· * ·) nm np) (Np.arange fc ncross)
  | _ => Np.repeatEach (Np.repeatEach nm np) (Np.repeatEach nm (Np.arange fc ncross))

/-- the genotype matrix a `DensePhasedGenotypeMatrix` with `vrnt_xoprob` can hold: rectangular -/
def popShaped (pop : Pop α) (nvrnt : Nat) : Bool :=
  pop.all (fun i => i.1.length == nvrnt && i.2.length == nvrnt)

/-- `mate()` of protocol `P`; `draws` = the matrices returned by the successive `rng.uniform`
    calls (all of them must be consumed) -/
def mate (P : Proto) (pop : Pop α) (xc : List (List Nat)) (nmating nprogeny : Cnt) (nself : Nat)
    (xo : List ρ) (pc fc : Nat) (draws : List (DrawMat ρ)) : Except Err (Out α) :=
  if !popShaped pop xo.length then .error .shape else
  if !xc.all (fun r => r.length == P.nparent) then .error .value else
  match nmating.expand xc.length with
  | .error e => .error e
  | .ok nm =>
    match nprogeny.expand xc.length with
    | .error e => .error e
    | .ok np =>
      match generate P pop xc nm np nself xo draws with
      | .error e => .error e
      | .ok (prog, rest) =>
        if !rest.isEmpty then .error .oracle else
        let cnt := prog.length
        let taxa := (Np.arange pc cnt).map (name P.pre)
        let grp := families P fc xc.length nm np
        if grp.length ≠ cnt then .error .value else     -- the matrix constructor checks len(taxa_grp)
        let rows := groupTaxa ((List.zip prog (List.zip taxa grp)).map (fun x => ⟨x.1, x.2.1, x.2.2⟩))
        .ok { rows := rows, pc := pc + cnt, fc := fc + xc.length,
              grpMeta := Np.uniqueRuns (rows.map Row.grp) }

end protocols

/-! ### the decidable Spec evaluated on implementation outputs -/

section spec
variable {α ρ : Type}

/-- `out` is a left-to-right mosaic of the haplotypes `srcs` (all given from the current marker on);
    `cur` = the source in use at the previous marker (identified by its remaining suffix); the source
    may change at a marker only if its crossover probability is positive -/
def MosaicFrom [LT ρ] [OfNat ρ 0] : List α → List (List α) → List ρ → List α → Prop
  | _, _, [], [] => True
  | cur, srcs, x :: xs, a :: out =>
      ∃ nxt, nxt ∈ srcs ∧ (nxt = cur ∨ 0 < x) ∧ nxt.head? = some a ∧
        MosaicFrom nxt.tail (srcs.map List.tail) xs out
  | _, _, _, _ => False

/-- the source at the first marker is free -/
def Mosaic [LT ρ] [OfNat ρ 0] (srcs : List (List α)) (xo : List ρ) (out : List α) : Prop :=
  ∃ cur, cur ∈ srcs ∧ MosaicFrom cur srcs xo out

/-- reachability form of the mosaic test: `reach[s]` = "some explanation of the prefix read so far
    ends in source `s`" -/
def mosaicDP [BEq α] [LT ρ] [DecidableLT ρ] [OfNat ρ 0] : List Bool → List (List α) → List ρ → List α → Bool
  | reach, _, [], [] => reach.any id
  | reach, srcs, x :: xs, a :: out =>
      let anyR := reach.any id
      let reach' := (List.zip srcs reach).map (fun sr => (sr.1.head? == some a) && (sr.2 || (decide (0 < x) && anyR)))
      mosaicDP reach' (srcs.map List.tail) xs out
  | _, _, _, _ => false

def mosaicCheck [BEq α] [LT ρ] [DecidableLT ρ] [OfNat ρ 0] (srcs : List (List α)) (xo : List ρ) (out : List α) : Bool :=
  mosaicDP (srcs.map (fun _ => true)) srcs xo out

/-- both chromosome copies of parent `k` of a cross -/
def parentHaps (pop : Pop α) (cross : List Nat) (k : Nat) : List (List α) :=
  match pop[cross.getD k 0]? with
  | some i => [i.1, i.2]
  | none => []

/-- the haplotypes the cross configuration assigns to the two sides of a progeny of `cross`
    (phase 0 side, phase 1 side).  Without selfing / DH the sides are separate: female (or
    recurrent parent, or the F1×M1 hybrid) → phase 0, male (or the intermediate hybrid) → phase 1;
    selfing and chromosome doubling draw both copies from the one intermediate hybrid. -/
def sources (P : Proto) (nself : Nat) (pop : Pop α) (cross : List Nat) : List (List α) × List (List α) :=
  let h := parentHaps pop cross
  match P with
  | .self => (h 0, h 0)
  | .twoWay => if nself = 0 then (h 0, h 1) else (h 0 ++ h 1, h 0 ++ h 1)
  | .twoWayDH => (h 0 ++ h 1, h 0 ++ h 1)
  | .threeWay =>
      if nself = 0 then (h 0, h 1 ++ h 2) else (h 0 ++ (h 1 ++ h 2), h 0 ++ (h 1 ++ h 2))
  | .threeWayDH => (h 0 ++ (h 1 ++ h 2), h 0 ++ (h 1 ++ h 2))
  | .fourWay =>
      if nself = 0 then (h 2 ++ h 3, h 0 ++ h 1)
      else ((h 2 ++ h 3) ++ (h 0 ++ h 1), (h 2 ++ h 3) ++ (h 0 ++ h 1))
  | .fourWayDH => ((h 2 ++ h 3) ++ (h 0 ++ h 1), (h 2 ++ h 3) ++ (h 0 ++ h 1))

/-- Spec of one output row: its family label names a cross of the configuration and both chromosome
    copies are mosaics of the haplotypes that cross assigns to their side; DH ⇒ the copies agree -/
def rowOK [BEq α] [LT ρ] [DecidableLT ρ] [OfNat ρ 0] (P : Proto) (nself : Nat) (pop : Pop α)
    (xc : List (List Nat)) (xo : List ρ) (fc : Nat) (r : Row α) : Bool :=
  decide (fc ≤ r.grp) &&
  match xc[r.grp - fc]? with
  | none => false
  | some cross =>
    let s := sources P nself pop cross
    mosaicCheck s.1 xo r.ind.1 && mosaicCheck s.2 xo r.ind.2 && (!P.isDH || r.ind.1 == r.ind.2)

/-- names: in generation order when no name outgrows the 7-digit field; in general the generated
    names, each in the family it was generated for -/
def namesOK (pre : List Nat) (pc cnt : Nat) (genGrp : List Nat) (rows : List (Row α)) : Bool :=
  let expect := (Np.arange pc cnt).map (name pre)
  if pc + cnt ≤ 10 ^ 7 then rows.map Row.name == expect
  else
    rows.all (fun r => (List.zip expect genGrp).contains (r.name, r.grp)) &&
    (rows.map Row.name).isPerm expect

/-- the Spec of C01 on one `mate()` call: inputs, and the outputs of the implementation -/
def specMate [BEq α] [LT ρ] [DecidableLT ρ] [OfNat ρ 0] (P : Proto) (pop : Pop α) (xc : List (List Nat))
    (nmating nprogeny : Cnt) (nself : Nat) (xo : List ρ) (pc fc : Nat) (out : Out α) : Bool × String :=
  match nmating.expand xc.length, nprogeny.expand xc.length with
  | .ok nm, .ok np =>
    let per := List.zipWith (· * ·) nm np
    let cnt := Np.sum per
    let genGrp := Np.repeatEach per (Np.arange fc xc.length)
    let cCount := out.rows.length == cnt
    let cGrp := out.rows.map Row.grp == genGrp
    let cNames := namesOK P.pre pc cnt genGrp out.rows
    let cCtr := out.pc == pc + cnt && out.fc == fc + xc.length
    let cRows := out.rows.all (rowOK P nself pop xc xo fc)
    (cCount && cGrp && cNames && cCtr && cRows,
     s!"count={cCount} family={cGrp} names={cNames} counters={cCtr} mosaic={cRows}")
  | _, _ => (false, "count arrays rejected")

end spec

end Mating
