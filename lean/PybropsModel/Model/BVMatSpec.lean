/-
The decidable Spec of C15 for one trait column, polymorphic in the scalar: executed at `Rat` by the
driver op `c15.spec` on the IMPLEMENTATION's observations (with tolerances), and reasoned about over an
ordered field in Props/C15.lean (`spec_sound`: the model's own observations pass at zero tolerance).
Core Lean only.

`sqT` is only used to scale tolerances (the driver passes `ratSqrt`).
-/
import PybropsModel.Model.BVMat

namespace BVMat
namespace Spec

structure Tol (α : Type) where
  rel : α
  abs : α

/-- what was observed for one trait of one matrix state -/
structure ObsCol (α : Type) where
  mat : Col α
  unscale : Col α
  loc : Option α
  scale : Option α
  tmax : Option α
  tmin : Option α
  tmean : Option α
  trange : Option α
  tstd : Option α
  tvar : Option α
  targmax : Option Nat
  targmin : Option Nat

section
variable {α : Type} [Add α] [Sub α] [Mul α] [Div α] [Neg α] [OfNat α 0] [OfNat α 1] [NatCast α]
  [DecidableEq α] [LT α] [DecidableLT α] [LE α] [DecidableLE α]

def absR (q : α) : α := if q < 0 then -q else q
def maxR (a b : α) : α := if a < b then b else a

/-- tolerant equality; `mag` scales the absolute tolerance (magnitude of the data involved) -/
def closeR (tol : Tol α) (mag a b : α) : Bool :=
  decide (absR (a - b) ≤ tol.abs * mag) || decide (absR (a - b) ≤ tol.rel * maxR (absR a) (absR b))

def closeO (tol : Tol α) (mag : α) : Option α → Option α → Bool
  | none, none => true
  | some a, some b => closeR tol mag a b
  | _, _ => false

def ten : α := (1 + 1 + 1 + 1 + 1) * (1 + 1)

/-- a standard deviation `s` against the exact variance `v`: relative agreement of the squares, or
    agreement of `s` with √v up to the rounding error `δ = 10·abs·mag` that the raw values themselves
    may carry (mag = largest magnitude the trait has held along the history) -/
def stdClose (sqT : α → α) (tol : Tol α) (mag s v : α) : Bool :=
  closeR tol 0 (s * s) v || decide (absR (s - sqT v) ≤ ten * tol.abs * mag)

/-- a variance `w` against the exact variance `v`, same error budget (|Δvar| ≤ 2·√v·δ + δ²) -/
def varClose (sqT : α → α) (tol : Tol α) (mag w v : α) : Bool :=
  closeR tol 0 w v ||
    decide (absR (w - v) ≤ (1 + 1) * sqT v * (ten * tol.abs * mag) + (ten * tol.abs * mag) * (ten * tol.abs * mag))

/-- "raw values reproduced, missing stays missing": entrywise -/
def rawOk (tol : Tol α) (mag : α) (truth obs : Col α) : Bool :=
  truth.length == obs.length && (List.zip truth obs).all (fun p => closeO tol mag p.1 p.2)

/-- the implementation's own unscaled column is exactly constant -/
def exactConst (unsc : Col α) : Bool :=
  match present unsc with
  | a :: l => l.all (· == a)
  | [] => true

/-- "stored centred and scaled per trait (unit scale for constant traits)" for one column;
    returns the failing sub-clause if any -/
def standardisedCol (sqT : α → α) (tol : Tol α) (mag : α) (truth mat unsc : Col α) (loc scale : Option α) :
    Option String :=
  -- a trait without any value: the NaN-ignoring mean of nothing is NaN and every stored value is NaN; the
  -- scale is NaN (numpy's deviation of nothing) or the unit scale (nothing to scale) — the statement fixes neither
  if (present truth).isEmpty then
    (if loc == none && (scale == none || scale == some 1) && mat == truth then none else some "standardised")
  else if mat.map Option.isNone != truth.map Option.isNone then some "standardised"
  else if !(closeO tol mag loc (some (meanL (present truth)))) then some "standardised"
  else if varL (present truth) = 0 then
    -- the unit-scale clause is about data the code could see to be constant: when the
    -- implementation's own unscaled column is constant only up to rounding noise (left by earlier
    -- steps of a history) it is not applicable
    if !(exactConst unsc) then none
    -- (defect D26, fixed by `<commit>`, failed here: the float mean of three times 0.1 is not 0.1, the computed
    -- deviation was a rounding residue instead of 0.0 and the scale 1.4e-17)
    else if scale != some 1 then some "standardised:constant"
    else if (present mat).all (fun x => decide (absR x ≤ tol.abs * mag)) then none
    else some "standardised:constant"
  else
    match scale with
    | none => some "standardised"
    | some s =>
      if !(decide (0 < s) && stdClose sqT tol mag s (varL (present truth))) then some "standardised"
      else if decide (absR (meanL (present mat)) ≤ tol.abs * ten * (1 + mag / sqT (varL (present truth)))) &&
              decide (absR (varL (present mat) - 1) ≤ tol.abs * ten * (1 + mag / sqT (varL (present truth))))
      then none else some "standardised"

def hasNaN (c : Col α) : Bool := c.any Option.isNone

/-- the NaN-propagating value of a reduction `f` of the raw column (numpy `col.f()`) -/
def expectProp (f : List α → α) (c : Col α) : Option α :=
  if hasNaN c then none else
    match present c with
    | a :: l => some (f (a :: l))
    | [] => none

/-- the NaN-ignoring value (numpy `nanf(col)`) -/
def expectIgn (f : List α → α) (c : Col α) : Option α :=
  match present c with
  | a :: l => some (f (a :: l))
  | [] => none

def listMax : List α → α
  | a :: r => maxL a r
  | [] => 0
def listMin : List α → α
  | a :: r => minL a r
  | [] => 0

/-- a summary on the original scale equals that summary of the raw column.  For a column with
    missing values either numpy convention is accepted (NaN-propagating or NaN-ignoring): used for the
    extrema and the range, where the statement fixes neither. -/
def statOk (tol : Tol α) (mag : α) (f : List α → α) (truth : Col α) (obs : Option α) : Bool :=
  if hasNaN truth then closeO tol mag obs (expectProp f truth) || closeO tol mag obs (expectIgn f truth)
  else closeO tol mag obs (expectProp f truth)

/-- a MOMENT (mean; deviation and variance through `stdOk` / `varOk`) on the original scale equals that
    moment of the OBSERVED raw values (numpy `nanf(col)`), also when values are missing.  The statement itself
    fixes this convention: the matrix is "centred and scaled per trait" by exactly these quantities (clause
    `standardised`: location = mean, scale = deviation of the observed values — with the NaN-propagating ones a
    single missing taxon would turn every stored value of the trait into NaN, i.e. contaminate the other
    entries), so the mean / deviation / variance of the raw values it promises on the original scale are the
    same numbers; one missing taxon must not turn them into NaN.  A trait without any value has none. -/
def momentOk (tol : Tol α) (mag : α) (f : List α → α) (truth : Col α) (obs : Option α) : Bool :=
  closeO tol mag obs (expectIgn f truth)

/-- an arg-extremum is right when the raw value at that position is extremal (ties and values within
    rounding error of each other may resolve either way); with missing values numpy's "first NaN"
    convention is accepted as well -/
def argOk (tol : Tol α) (mag : α) (ext : List α → α) (truth : Col α) (obs : Option Nat) : Bool :=
  match obs with
  | none => false
  | some i =>
    (hasNaN truth && some i == firstNaN truth) ||
    (match truth[i]?, present truth with
     | some (some x), a :: l => closeR tol mag x (ext (a :: l))
     | _, _ => false)

def stdOk (sqT : α → α) (tol : Tol α) (mag : α) (truth : Col α) (obs : Option α) : Bool :=
  match obs with
  | none => (present truth).isEmpty        -- NaN only for a trait without any value (see `momentOk`)
  | some s => !(present truth).isEmpty && decide (0 ≤ s) &&
      (if varL (present truth) = 0 then decide (s ≤ tol.abs * mag) else stdClose sqT tol mag s (varL (present truth)))

def varOk (sqT : α → α) (tol : Tol α) (mag : α) (truth : Col α) (obs : Option α) : Bool :=
  match obs with
  | none => (present truth).isEmpty
  | some w => !(present truth).isEmpty &&
      (if varL (present truth) = 0 then decide (absR w ≤ tol.abs * mag) else varClose sqT tol mag w (varL (present truth)))

def isConst (truth : Col α) : Bool := !(present truth).isEmpty && decide (varL (present truth) = 0)

/-- failing statistic clauses of one column -/
def statsCol (sqT : α → α) (tol : Tol α) (mag : α) (truth : Col α) (o : ObsCol α) : List String :=
  (if statOk tol mag listMax truth o.tmax then [] else ["stat:tmax"]) ++
  (if statOk tol mag listMin truth o.tmin then [] else ["stat:tmin"]) ++
  (if statOk tol mag (fun l => listMax l - listMin l) truth o.trange then [] else ["stat:trange"]) ++
  (if momentOk tol mag meanL truth o.tmean then [] else ["stat:tmean"]) ++
  (if argOk tol mag listMax truth o.targmax then [] else ["stat:targmax"]) ++
  (if argOk tol mag listMin truth o.targmin then [] else ["stat:targmin"]) ++
  (if stdOk sqT tol mag truth o.tstd then [] else [if isConst truth then "stat:tstd:constant" else "stat:tstd"]) ++
  (if varOk sqT tol mag truth o.tvar then [] else [if isConst truth then "stat:tvar:constant" else "stat:tvar"])

/-- all failing clauses of one trait: round trip, standardisation, statistics (`withStats = false`
    for a matrix with 0 taxa, where numpy's reductions raise and are not requested) -/
def specCol (sqT : α → α) (tol : Tol α) (mag : α) (withStats : Bool) (truth : Col α) (o : ObsCol α) : List String :=
  (if rawOk tol mag truth o.unscale then [] else ["raw"]) ++
  (match standardisedCol sqT tol mag truth o.mat o.unscale o.loc o.scale with
   | none => []
   | some name => [name]) ++
  (if withStats then statsCol sqT tol mag truth o else [])

/-- `argOk` against the object's own unscaled column: numpy reports the first NaN of the STORED column,
    which in a state with a NaN scale (a trait that had no value when location and scale were computed)
    need not be the first NaN of `unscale()`; any position that is NaN in `unscale()` is accepted -/
def argOkOwn (tol : Tol α) (mag : α) (ext : List α → α) (own : Col α) (obs : Option Nat) : Bool :=
  argOk tol mag ext own obs ||
    (match obs with
     | some i => own[i]? == some none
     | none => false)

/-- the statistics clauses that hold in ANY state of the object — location and scale possibly stale after
    an inherited in-place routine, or re-assigned by the caller — against the object's OWN unscaled column
    `own = unscale()`: all of `statsCol` except the mean (`tmean(unscale=True)` returns the stored location;
    finding D25 when it is stale) -/
def statsAnyCol (sqT : α → α) (tol : Tol α) (mag : α) (own : Col α) (o : ObsCol α) : List String :=
  (if statOk tol mag listMax own o.tmax then [] else ["self:stat:tmax"]) ++
  (if statOk tol mag listMin own o.tmin then [] else ["self:stat:tmin"]) ++
  (if statOk tol mag (fun l => listMax l - listMin l) own o.trange then [] else ["self:stat:trange"]) ++
  (if argOkOwn tol mag listMax own o.targmax then [] else ["self:stat:targmax"]) ++
  (if argOkOwn tol mag listMin own o.targmin then [] else ["self:stat:targmin"]) ++
  (if stdOk sqT tol mag own o.tstd then [] else ["self:stat:tstd"]) ++
  (if varOk sqT tol mag own o.tvar then [] else ["self:stat:tvar"])

/-- `unscale()` is `scale * mat + location` of the attributes the object shows -/
def formulaOk (tol : Tol α) (mag : α) (o : ObsCol α) : Bool :=
  rawOk tol mag (unscaleCol { mat := o.mat, loc := o.loc, scale := o.scale }) o.unscale

/-- the clauses of one trait that hold in any state: the unscaling formula, and `statsAnyCol` when the trait
    has a location and a scale (with a NaN location or scale `unscale()` is NaN throughout while the
    statistics are computed from the stored column: nothing to compare) -/
def anyStateCol (sqT : α → α) (tol : Tol α) (mag : α) (withStats : Bool) (o : ObsCol α) : List String :=
  (if formulaOk tol mag o then [] else ["formula"]) ++
  (if withStats && o.loc.isSome && o.scale.isSome then statsAnyCol sqT tol mag o.unscale o else [])

/-- the mean clause against the object's own unscaled column (fails in a stale state: D25) -/
def selfMeanCol (tol : Tol α) (mag : α) (o : ObsCol α) : List String :=
  if momentOk tol mag meanL o.unscale o.tmean then [] else ["self:stat:tmean"]

/-- entrywise agreement at the positions where `mask` is true ("every RETAINED taxon") -/
def rawOkMask (tol : Tol α) (mag : α) (mask : List Bool) (truth obs : Col α) : Bool :=
  truth.length == obs.length && mask.length == obs.length &&
    (List.zip mask (List.zip truth obs)).all (fun p => !p.1 || closeO tol mag p.2.1 p.2.2)

/-- what the MODEL shows for one trait -/
def modelObs (sq : α → α) (t : Trait α) : ObsCol α :=
  { mat := t.mat, unscale := unscaleCol t, loc := t.loc, scale := t.scale,
    tmax := tmax true t, tmin := tmin true t, tmean := tmean true t, trange := trange true t,
    tstd := tstd sq true t, tvar := tvar true t,
    targmax := some (targmax t), targmin := some (targmin t) }

end
end Spec
end BVMat
