/-
The decidable Spec of C09: every clause of the property written from the TEXTBOOK definitions on the raw allele
calls (counting copies), not from the model functions — so a model that mirrors a wrong implementation cannot
make it pass.  Evaluated by the driver (`c09.spec`) on the IMPLEMENTATION's outputs in every case; proved sound for
the model in Lemmas/GenotypeSpec.lean (`spec_sound`: what Model/Genotype computes passes every clause, at every
tolerance ≥ 0) — Props/C09.

Core Lean only, executed at `Rat`.
-/
import PybropsModel.Model.Genotype

namespace GenotypeSpec
open Genotype

/-- the 13 outputs of one genotype-matrix object -/
structure Outs where
  tacount : List (List Int)
  tafreq  : List (List Rat)
  acount  : List Int
  afreq   : List Rat
  afixed  : List Bool
  apoly   : List Bool
  maf     : List Rat
  meh     : Rat
  gtcount : List (List Int)
  gtfreq  : List (List Rat)
  f012    : List (List Int)
  fM101   : List (List Int)
  fM1m1   : List (List Rat)

/-- the raw calls in one shape: for every taxon and locus the number of copies carrying allele 1 and
    the number of copies in total (phased: counted over the phases; unphased: dosage and ploidy) -/
structure Raw where
  nt : Nat
  nv : Nat
  ploidy : Nat
  ones : Nat → Nat → Int     -- copies of taxon i at locus j that carry allele 1

def rawOfU (ploidy nv : Nat) (m : UMat) : Raw :=
  { nt := m.length, nv := nv, ploidy := ploidy, ones := fun i j => (m.getD i []).getD j 0 }

def rawOfP (nt nv : Nat) (G : PMat) : Raw :=
  { nt := nt, nv := nv, ploidy := G.length,
    ones := fun i j => ((G.map (fun ph => (ph.getD i []).getD j 0)).count 1 : Nat) }

def absQ (q : Rat) : Rat := if q < 0 then -q else q
def maxQ (a b : Rat) : Rat := if a < b then b else a

/-- tolerant equality of an implementation float and an exact textbook value -/
def closeQ (tol a b : Rat) : Bool :=
  a == b || decide (absQ (a - b) ≤ tol * maxQ 1 (maxQ (absQ a) (absQ b)))

def allIdx (n : Nat) (f : Nat → Bool) : Bool := (List.range n).all f

/-- comparison of a claimed matrix with a definition, entry by entry (shape included) -/
def matIs {β} (rows cols : Nat) (claim : List (List β)) (ok : Nat → Nat → β → Bool) : Bool :=
  claim.length == rows && allIdx rows (fun i =>
    match claim[i]? with
    | none => false
    | some r => r.length == cols && allIdx cols (fun j => match r[j]? with | none => false | some x => ok i j x))

def vecIs {β} (n : Nat) (claim : List β) (ok : Nat → β → Bool) : Bool :=
  claim.length == n && allIdx n (fun j => match claim[j]? with | none => false | some x => ok j x)

structure Tol where
  tafreq : Rat
  afreq : Rat
  maf : Rat
  meh : Rat
  gtfreq : Rat
  fM1m1 : Rat

/-- which of the frequency-valued statistics were requested in an INTEGER dtype (`afreq("int64")` …): numpy then
    casts the float64 result, i.e. truncates toward zero -/
structure Casts where
  tafreq : Bool := false
  afreq : Bool := false
  maf : Bool := false
  meh : Bool := false
  gtfreq : Bool := false

/-- numpy's float → integer cast: truncation toward zero (`Genotype.truncRat`) -/
abbrev truncQ (q : Rat) : Int := truncRat q

/-- frequency that must hit 0 and 1 exactly: equal when either side is 0 or 1, tolerant inside (0,1) -/
def freqIs (tol a want : Rat) : Bool :=
  if want == 0 || want == 1 || a == 0 || a == 1 then a == want else closeQ tol a want

/-- a value requested in an integer dtype: the truncation of the textbook value, exactly -/
def truncIs (a want : Rat) : Bool := a == ((truncQ want : Int) : Rat)

/-- … of a value the code computes through several roundings (`(1/n)·count`, a dot product): the truncation of the
    textbook value or of a neighbour within the tolerance (an exact integer may be missed by one ulp) -/
def truncNear (tol a want : Rat) : Bool :=
  let d := tol * maxQ 1 (absQ want)
  a == ((truncQ want : Int) : Rat) || a == ((truncQ (want - d) : Int) : Rat) || a == ((truncQ (want + d) : Int) : Rat)

/-- the names of the clauses that do not hold -/
def failing (l : List (String × Bool)) : List String := (l.filter (fun c => !c.2)).map Prod.fst

/-! #### textbook quantities, counted on the raw calls -/
namespace Raw
/-- chromosome copies in the population -/
def total (R : Raw) : Int := (R.ploidy * R.nt : Nat)
/-- copies carrying allele 1 at locus `j` -/
def cnt (R : Raw) (j : Nat) : Int := ((List.range R.nt).map (fun i => R.ones i j)).sum
/-- allele frequency -/
def p (R : Raw) (j : Nat) : Rat := (R.cnt j : Rat) / (R.total : Rat)
/-- every copy carries allele 1 / allele 0 -/
def allOne (R : Raw) (j : Nat) : Bool := allIdx R.nt (fun i => R.ones i j == (R.ploidy : Int))
def allZero (R : Raw) (j : Nat) : Bool := allIdx R.nt (fun i => R.ones i j == 0)
/-- taxa in genotype class `c` -/
def cls (R : Raw) (c j : Nat) : Int := (((List.range R.nt).filter (fun i => R.ones i j == (c : Int))).length : Nat)
/-- column mean of the `{-1,0,1}` coding -/
def meanM1 (R : Raw) (j : Nat) : Rat := (((List.range R.nt).map (fun i => R.ones i j - 1)).sum : Int) / (R.nt : Rat)
/-- mean expected heterozygosity `(1/nvrnt) Σ ploidy·p(1-p)` -/
def mehWant (R : Raw) : Rat :=
  (((List.range R.nv).map (fun j => (R.ploidy : Rat) * R.p j * (1 - R.p j))).sum) / (R.nv : Rat)
/-- minor-allele frequency -/
def mafWant (R : Raw) (j : Nat) : Rat := if R.p j ≤ 1 - R.p j then R.p j else 1 - R.p j
end Raw

/-! #### the clauses -/
def clTacount (R : Raw) (o : Outs) : Bool := matIs R.nt R.nv o.tacount (fun i j x => x == R.ones i j)
def clTafreq (R : Raw) (t : Tol) (c : Casts) (o : Outs) : Bool :=
  matIs R.nt R.nv o.tafreq (fun i j x =>
    if c.tafreq then truncIs x ((R.ones i j : Rat) / (R.ploidy : Rat))
    else freqIs t.tafreq x ((R.ones i j : Rat) / (R.ploidy : Rat)))
def clAcount (R : Raw) (o : Outs) : Bool := vecIs R.nv o.acount (fun j x => x == R.cnt j)
def clAfreq (R : Raw) (t : Tol) (c : Casts) (o : Outs) : Bool :=
  vecIs R.nv o.afreq (fun j x => if c.afreq then truncIs x (R.p j) else closeQ t.afreq x (R.p j))
def clUnit (o : Outs) : Bool := o.afreq.all (fun x => decide (0 ≤ x) && decide (x ≤ 1))
def clOne (R : Raw) (o : Outs) : Bool := vecIs R.nv o.afreq (fun j x => (x == 1) == R.allOne j)
/-- an integer dtype cannot hold a frequency strictly between 0 and 1: the `= 0` half is then not demanded -/
def clZero (R : Raw) (c : Casts) (o : Outs) : Bool :=
  c.afreq || vecIs R.nv o.afreq (fun j x => (x == 0) == R.allZero j)
def clAfixed (R : Raw) (o : Outs) : Bool := vecIs R.nv o.afixed (fun j x => x == (R.allOne j || R.allZero j))
def clApoly (R : Raw) (o : Outs) : Bool := vecIs R.nv o.apoly (fun j x => x == !(R.allOne j || R.allZero j))
def clCompl (o : Outs) : Bool :=
  o.afixed.length == o.apoly.length && (List.zip o.afixed o.apoly).all (fun ab => ab.1 == !ab.2)
def clMaf (R : Raw) (t : Tol) (c : Casts) (o : Outs) : Bool :=
  vecIs R.nv o.maf (fun j x =>
    if c.maf then x == 0
    else (if R.mafWant j == 0 then x == 0 else closeQ t.maf x (R.mafWant j)) && decide (0 ≤ x)
         && decide (x ≤ 1/2 + t.maf))
def clMeh (R : Raw) (t : Tol) (c : Casts) (o : Outs) : Bool :=
  (if c.meh then truncNear t.meh o.meh R.mehWant else closeQ t.meh o.meh R.mehWant) && decide (0 ≤ o.meh)
def clGtcount (R : Raw) (o : Outs) : Bool := matIs (R.ploidy + 1) R.nv o.gtcount (fun c j x => x == R.cls c j)
def clGtsum (R : Raw) (o : Outs) : Bool :=
  allIdx R.nv (fun j => (o.gtcount.map (fun r => r.getD j 0)).sum == (R.nt : Int))
def clGtfreq (R : Raw) (t : Tol) (c : Casts) (o : Outs) : Bool :=
  matIs (R.ploidy + 1) R.nv o.gtfreq (fun k j x =>
    (if c.gtfreq then truncNear t.gtfreq x ((R.cls k j : Rat) / (R.nt : Rat))
     else closeQ t.gtfreq x ((R.cls k j : Rat) / (R.nt : Rat))) && decide (0 ≤ x) && decide (x ≤ 1))
def clF012 (R : Raw) (o : Outs) : Bool := matIs R.nt R.nv o.f012 (fun i j x => x == R.ones i j)
def clFM101 (R : Raw) (o : Outs) : Bool := matIs R.nt R.nv o.fM101 (fun i j x => x == R.ones i j - 1)
def clFM1m1 (R : Raw) (t : Tol) (o : Outs) : Bool :=
  matIs R.nt R.nv o.fM1m1 (fun i j x =>
    if R.ones i j - 1 == 0 then closeQ t.fM1m1 x (R.meanM1 j) else x == ((R.ones i j - 1 : Int) : Rat))

/-- every clause of the property on one object's outputs, by name -/
def checks (R : Raw) (t : Tol) (c : Casts) (o : Outs) : List (String × Bool) :=
  [ ("tacount=definition", clTacount R o), ("tafreq=definition", clTafreq R t c o),
    ("acount=definition", clAcount R o), ("afreq=definition", clAfreq R t c o),
    ("afreq in [0,1]", clUnit o), ("afreq=1 iff every copy carries 1", clOne R o),
    ("afreq=0 iff no copy carries 1", clZero R c o),
    ("afixed=definition", clAfixed R o), ("apoly=definition", clApoly R o), ("afixed = not apoly", clCompl o),
    ("maf=definition", clMaf R t c o), ("meh=definition", clMeh R t c o),
    ("gtcount=definition (ploidy+1 classes)", clGtcount R o), ("gtcount sums to ntaxa", clGtsum R o),
    ("gtfreq=definition", clGtfreq R t c o),
    ("{0,1,2}=dosage", clF012 R o), ("{-1,0,1}=dosage-1", clFM101 R o), ("{-1,m,1}=definition", clFM1m1 R t o) ]

/-- returns the names of the failing clauses -/
def specOne (R : Raw) (t : Tol) (c : Casts) (o : Outs) : List String := failing (checks R t c o)

/-- two floating-point answers to the same question: identical on the boundary (one of them exactly 0 or 1), equal up
    to the rounding of the requested dtype inside (the two classes may evaluate `1 - p`, a cast, a sum in a different
    order) -/
def sameF (tol a b : Rat) : Bool :=
  if a == 0 || a == 1 || b == 0 || b == 1 then a == b else closeQ tol a b

def sameVec (tol : Rat) (a b : List Rat) : Bool :=
  a.length == b.length && (List.zip a b).all (fun x => sameF tol x.1 x.2)

def sameMat (tol : Rat) (a b : List (List Rat)) : Bool :=
  a.length == b.length && (List.zip a b).all (fun x => sameVec tol x.1 x.2)

/-- phased and projected objects must answer identically: counts, flags and integer codings exactly, floating-point
    values exactly on the 0/1 boundary and to rounding inside -/
def sameChecks (t : Tol) (a b : Outs) : List (String × Bool) := [
    ("tacount", a.tacount == b.tacount), ("tafreq", sameMat t.tafreq a.tafreq b.tafreq), ("acount", a.acount == b.acount),
    ("afreq", sameVec t.afreq a.afreq b.afreq), ("afixed", a.afixed == b.afixed), ("apoly", a.apoly == b.apoly),
    ("maf", sameVec t.maf a.maf b.maf), ("meh", closeQ t.meh a.meh b.meh), ("gtcount", a.gtcount == b.gtcount),
    ("gtfreq", sameMat t.gtfreq a.gtfreq b.gtfreq), ("f012", a.f012 == b.f012), ("fM101", a.fM101 == b.fM101),
    ("fM1m1", sameMat t.fM1m1 a.fM1m1 b.fM1m1)]

def specSame (t : Tol) (a b : Outs) : List String := (failing (sameChecks t a b)).map ("phased≠projection:" ++ ·)

/-! ### the model's outputs in the same record (what `c09.stats` returns) -/

def natMat (m : List (List Nat)) : List (List Int) := m.map (·.map Int.ofNat)

def modelU (ploidy nv : Nat) (m : UMat) : Outs := {
  tacount := tacount m, tafreq := tafreq (α := Rat) ploidy m,
  acount := acount nv m, afreq := afreq (α := Rat) ploidy nv m,
  afixed := afixed (α := Rat) ploidy nv m, apoly := apoly (α := Rat) ploidy nv m,
  maf := maf (α := Rat) ploidy nv m, meh := meh (α := Rat) ploidy nv m,
  gtcount := natMat (gtcount ploidy nv m), gtfreq := gtfreq (α := Rat) ploidy nv m,
  f012 := fmt012 m, fM101 := fmtM101 m, fM1m1 := fmtM1m1 (α := Rat) nv m }

def modelP (nt nv : Nat) (G : PMat) : Outs := {
  tacount := ptacount nt nv G, tafreq := ptafreq (α := Rat) nt nv G,
  acount := pacount nv G, afreq := pafreq (α := Rat) nt nv G,
  afixed := pafixed (α := Rat) nt nv G, apoly := papoly nv G,
  maf := pmaf (α := Rat) nt nv G, meh := pmeh (α := Rat) nt nv G,
  gtcount := natMat (pgtcount nt nv G), gtfreq := pgtfreq (α := Rat) nt nv G,
  f012 := pfmt012 nt nv G, fM101 := pfmtM101 nt nv G, fM1m1 := pfmtM1m1 (α := Rat) nt nv G }

end GenotypeSpec
