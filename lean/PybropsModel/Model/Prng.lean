/-
Model for C08 (seeded reproducibility, generator isolation).  Core Lean only, executable.

Anchors
  pybrops/core/random/prng.py            `seed`, `spawn`, `global_prng`
  every component with an `rng` argument (mating, phenotyping, samplers, selection configurations,
  optimisers) and the components that draw from `numpy.random` directly (pymoo_addon operators,
  `DenseCoancestryMatrix.apply_jitter`, EMBV matrix).

The process state is a record of abstract *streams* (`σ` is the type of a generator state):
  `py`       the `random` module's Mersenne twister,
  `np`       numpy's legacy global `RandomState` (= `pybrops.core.random.prng.global_prng`),
  `os`       everything that `seed()` does not control: OS entropy, the clock, … — an unconstrained
             oracle (it has an arbitrary value in every run and evolves by an arbitrary function),
  `ext`      generators the caller created itself and hands to components (`rng=` argument),
  `spawned`  generators obtained from `spawn()` since the last `seed()` (handles of the program).

A component is an ARBITRARY function of a `View` — the streams in its measured dependency set and
nothing else — and may update only those (frame by construction).  Which streams a component of
the real library depends on is measured on every run and written to `Generated/C08Deps.lean`.
-/

namespace Prng

/-! ### primitives of the three PRNG libraries -/

/-- the primitive operations `seed`/`spawn` are built from; abstract in the state type -/
structure Prim (σ : Type) where
  /-- `random.seed(s)` -/
  pySeed : Nat → σ
  /-- `random.randint(0, 2**k-1)`: the value drawn and the successor state -/
  pyDraw : σ → Nat × σ
  /-- `numpy.random.seed(v)` -/
  npSeed : Nat → σ
  /-- `numpy.random.Generator(BitGenerator(v))` -/
  genSeed : Nat → σ

/-- process-global entropy state -/
structure St (σ : Type) where
  py : σ
  np : σ
  os : σ
  ext : List σ
  spawned : List σ

/-! ### dependency sets -/

/-- dependency set of a component in terms of *roles*:
    `rng`  the generator the component is handed (`rng=None` ↦ the numpy global, see `call`),
    `py` / `np` the two global streams addressed directly, `os` an unseeded source -/
structure Deps where
  rng : Bool
  py : Bool
  np : Bool
  os : Bool
  deriving DecidableEq, Repr

/-- what a component can see and may write: the streams of its dependency set, `none` elsewhere -/
structure View (σ : Type) where
  rng : Option σ
  py : Option σ
  np : Option σ
  os : Option σ

/-- a stochastic API component: its dependency set and an arbitrary function on its view
    (arguments are part of the closure; `ο` is the type of results) -/
structure Comp (σ ο : Type) where
  deps : Deps
  sem : View σ → ο × View σ

/-- the `rng` argument of a call -/
inductive RngArg where
  | glob                 -- `rng=None`
  | ext (k : Nat)        -- a generator of the caller
  | spawned (k : Nat)    -- the k-th generator spawned since the last `seed()`
  deriving DecidableEq, Repr

def RngArg.isGlob : RngArg → Bool
  | .glob => true
  | _ => false

/-- `none`: invalid handle (the real call raises); `some none`: global; `some (some g)`: state `g` -/
def getGen {σ} (st : St σ) : RngArg → Option (Option σ)
  | .glob => some none
  | .ext k => (st.ext[k]?).map some
  | .spawned k => (st.spawned[k]?).map some

def putGen {σ} (st : St σ) (arg : RngArg) (g : σ) : St σ :=
  match arg with
  | .glob => st
  | .ext k => { st with ext := st.ext.set k g }
  | .spawned k => { st with spawned := st.spawned.set k g }

def sel {σ} (b : Bool) (x : σ) : Option σ := if b then some x else none
def upd {σ} (b : Bool) (old : σ) (new : Option σ) : σ := if b then new.getD old else old

/-- the numpy global is in the effective dependency set when the component addresses it directly
    or when it draws from its `rng` and was handed `None` -/
def useNp (d : Deps) (glob : Bool) : Bool := d.np || (d.rng && glob)

/-- one call of a component.  Only the streams of the (effective) dependency set are shown to the
    component and only those are written back. -/
def call {σ ο} (c : Comp σ ο) (arg : RngArg) (st : St σ) : Option (ο × St σ) :=
  match getGen st arg with
  | none => none
  | some gen =>
    let un := useNp c.deps gen.isNone
    let v : View σ :=
      { rng := gen.bind (sel c.deps.rng), py := sel c.deps.py st.py, np := sel un st.np,
        os := sel c.deps.os st.os }
    let r := c.sem v
    let st1 : St σ :=
      { st with py := upd c.deps.py st.py r.2.py, np := upd un st.np r.2.np,
                os := upd c.deps.os st.os r.2.os }
    let st2 : St σ :=
      match gen with
      | some g => if c.deps.rng then putGen st1 arg (r.2.rng.getD g) else st1
      | none => st1
    some (r.1, st2)

/-! ### seed and spawn (prng.py l.121-173) -/

/-- `py_random.seed(s); numpy.random.seed(py_random.randint(0, 2**32-1))`.
    Modelling device: `seed` opens a new scope of spawned handles (a program that is repeated
    after re-seeding can only name generators it spawns itself). -/
def seed {σ} (P : Prim σ) (s : Nat) (st : St σ) : St σ :=
  let py0 := P.pySeed s
  let d := P.pyDraw py0
  { st with py := d.2, np := P.npSeed d.1, spawned := [] }

/-- `[Generator(BitGenerator(py_random.randint(0, 2**sbits-1))) for _ in range(n)]` -/
def spawnGo {σ} (P : Prim σ) : Nat → σ → List σ × σ
  | 0, py => ([], py)
  | n+1, py =>
    let d := P.pyDraw py
    let r := spawnGo P n d.2
    (P.genSeed d.1 :: r.1, r.2)

def spawn {σ} (P : Prim σ) (n : Nat) (st : St σ) : List σ × St σ :=
  let r := spawnGo P n st.py
  (r.1, { st with py := r.2, spawned := st.spawned ++ r.1 })

/-! ### programs -/

inductive Op (σ ο : Type) where
  | seed (s : Nat)
  | spawn (n : Nat)
  | call (c : Comp σ ο) (arg : RngArg)

/-- observable result of an operation (for `spawn`: the states of the new generators) -/
inductive Out (σ ο : Type) where
  | seeded
  | gens (g : List σ)
  | val (o : ο)
  deriving DecidableEq, Repr

def step {σ ο} (P : Prim σ) : Op σ ο → St σ → Option (Out σ ο × St σ)
  | .seed s, st => some (.seeded, seed P s st)
  | .spawn n, st => let r := spawn P n st; some (.gens r.1, r.2)
  | .call c arg, st => (call c arg st).map (fun r => (.val r.1, r.2))

/-- run a program; `none` when some call names a generator that does not exist -/
def run {σ ο} (P : Prim σ) : List (Op σ ο) → St σ → Option (List (Out σ ο) × St σ)
  | [], st => some ([], st)
  | op :: rest, st =>
    match step P op st with
    | none => none
    | some (o, st') =>
      match run P rest st' with
      | none => none
      | some (os, st'') => some (o :: os, st'')

def Op.readsOS {σ ο} : Op σ ο → Bool
  | .call c _ => c.deps.os
  | _ => false

def Op.usesExt {σ ο} : Op σ ο → Bool
  | .call _ (.ext _) => true
  | _ => false

/-- a call made with an explicit generator by a component whose only dependency is that generator -/
def Op.isolatedCall {σ ο} : Op σ ο → Bool
  | .call c arg => !arg.isGlob && !c.deps.py && !c.deps.np && !c.deps.os
  | _ => false

/-- an isolated call on one of the caller's own generators -/
def Op.extIso {σ ο} : Op σ ο → Bool
  | .call c (.ext _) => !c.deps.py && !c.deps.np && !c.deps.os
  | _ => false

/-! ### the decidable Spec (evaluated on the implementation's observations by the driver) -/

/-- clause 1: the two executions give bit-identical outputs (digests), step by step -/
def specRepro {β} [BEq β] (a b : List β) : Bool := a.length == b.length && (a.zip b).all (fun p => p.1 == p.2)

/-- observation of one call made with an explicit generator, in one execution:
    digests (`β`) of the two global streams before and after, and the result (`γ`) -/
structure IsoObs (β γ : Type) where
  pyBefore : β
  pyAfter : β
  npBefore : β
  npAfter : β
  out : γ

/-- clause 2a: the global Python and NumPy streams are exactly as they were -/
def specUntouched {β γ} [BEq β] (o : IsoObs β γ) : Bool :=
  o.pyBefore == o.pyAfter && o.npBefore == o.npAfter

/-- clause 2 on a pair of executions that hand the component generators in the same state while
    the global streams differ: globals untouched in both, results equal -/
def specIsolated {β γ} [BEq β] [BEq γ] (a b : IsoObs β γ) : Bool :=
  specUntouched a && specUntouched b && a.out == b.out

/-! ### measured dependency table (rows are written by the harness into `Generated/C08Deps.lean`) -/

/-- streams seen to be touched in one measurement mode -/
structure Obs where
  own : Bool
  py : Bool
  np : Bool
  os : Bool
  deriving DecidableEq, Repr

structure Row where
  name : String
  /-- the component has an `rng` parameter -/
  accepts : Bool
  /-- measured with `rng=None` -/
  glob : Obs
  /-- measured with an explicit generator (equal to `glob` when there is no `rng` parameter) -/
  expl : Obs
  /-- call sites at which OS entropy was acquired during the call -/
  osSites : List String
  /-- for a component with an `rng` parameter: what drew from a global stream although an
      explicit generator was supplied -/
  leakSites : List String
  deriving DecidableEq, Repr

/-- role-based dependency set derived from the two measurements -/
def Row.deps (r : Row) : Deps :=
  if r.accepts then ⟨r.expl.own, r.expl.py, r.expl.np, r.expl.os⟩
  else ⟨false, r.glob.py, r.glob.np, r.glob.os⟩

/-- the two measurement modes fit the role model: with `rng=None` the numpy global is touched iff
    the component uses its `rng` or the numpy global directly; `py`/`os` do not depend on the mode;
    the OS flag is set iff a site was recorded -/
def Row.consistent (r : Row) : Bool :=
  r.glob.own == false
  && r.glob.np == (r.deps.rng || r.deps.np)
  && r.glob.py == r.deps.py
  && r.glob.os == r.deps.os
  && r.deps.os == !r.osSites.isEmpty
  && (r.accepts || r.expl == r.glob)

/-- every recorded OS-entropy site is one of the known findings -/
def Row.unseededKnown (known : List String) (r : Row) : Bool := r.osSites.all (known.contains ·)

/-- a component with an `rng` parameter depends on that generator only, unless each leak is a
    known finding (and then at least one site must have been attributed) -/
def Row.leaksKnown (known : List String) (r : Row) : Bool :=
  !r.accepts || (!(r.deps.py || r.deps.np || r.deps.os) && r.leakSites.isEmpty)
  || (!r.leakSites.isEmpty && r.leakSites.all (known.contains ·))

def Row.seeded (r : Row) : Bool := r.osSites.isEmpty
def Row.isolatedOk (r : Row) : Bool := r.accepts && r.leakSites.isEmpty && !(r.deps.py || r.deps.np || r.deps.os)

/-- the operation calls (an arbitrary implementation of) a component of the given rows -/
def fromRows {σ ο} (rows : List Row) : Op σ ο → Prop
  | .call c _ => ∃ r ∈ rows, c.deps = r.deps
  | _ => True

/-- a `seed` that only seeds the `random` module (mutant of prng.py l.137) -/
def seedPyOnly {σ} (P : Prim σ) (s : Nat) (st : St σ) : St σ :=
  { st with py := (P.pyDraw (P.pySeed s)).2, spawned := [] }

/-- the row measured for `SubsetGeneticAlgorithm.minimize` on the unchanged tree (D11): numpy
    global + OS entropy, the `rng` argument is never used -/
def gaRowAsMeasured : Row :=
  { name := "opt.SubsetGeneticAlgorithm", accepts := true, glob := ⟨false, false, true, true⟩,
    expl := ⟨false, false, true, true⟩, osSites := ["os:pymoo.core.algorithm:setup"],
    leakSites := ["npfn:pybrops.opt.algo.pymoo_addon", "os:pymoo.core.algorithm:setup"] }

/-- the row measured for `EstimatedBreedingValueSubsetSelection.select` on the unchanged tree (D12):
    the optimiser uses the protocol's generator, the selection configuration is built with
    `rng=None` and samples from the numpy global -/
def selectRowAsMeasured : Row :=
  { name := "sel.EBVSubset.select", accepts := true, glob := ⟨false, false, true, false⟩,
    expl := ⟨true, false, true, false⟩, osSites := [], leakSites := ["rngNone:SubsetSelectionConfiguration"] }

/-! ### executable toy instance used by the driver to predict equality patterns -/

def mix (a b : Nat) : Nat := (a * 6364136223846793005 + b * 1442695040888963407 + 1013904223) % 18446744073709551616

def toyPrim : Prim Nat :=
  { pySeed := fun s => mix s 11, pyDraw := fun x => (mix x 12 % 4294967296, mix x 13),
    npSeed := fun v => mix v 14, genSeed := fun v => mix v 15 }

/-- generic component: the result mixes every visible stream, and every visible stream advances
    to a state that depends on all visible streams (as a data-dependent number of draws would) -/
def toyComp (tag : Nat) (d : Deps) : Comp Nat Nat :=
  { deps := d,
    sem := fun v =>
      let h (o : Option Nat) (k : Nat) (acc : Nat) : Nat :=
        match o with
        | some x => mix (mix acc k) x
        | none => mix acc (k + 100)
      let r := h v.os 4 (h v.np 3 (h v.py 2 (h v.rng 1 tag)))
      (r, { rng := v.rng.map (fun x => mix (mix x 21) r), py := v.py.map (fun x => mix (mix x 22) r),
            np := v.np.map (fun x => mix (mix x 23) r), os := v.os.map (fun x => mix (mix x 24) r) }) }

end Prng
