/-
Model for C08 (seeded reproducibility, generator isolation).  Core Lean only, executable.

Anchors
  pybrops/core/random/prng.py            `seed`, `spawn`, `global_prng`
  every component with an `rng` argument (mating, phenotyping, samplers, selection configurations,
  optimisers) and the components that draw from `numpy.random` directly (pymoo_addon operators,
  `DenseCoancestryMatrix.apply_jitter`, EMBV matrix).

The process state is a record of abstract *streams* (`σ` is the type of a generator state):
  `py`       the `random` module's Mersenne twister,
  `np`       numpy's legacy global `RandomState` (= `pybrops.core.random.prng.global_prng`),
  `os`       everything that `seed()` does not control: OS entropy, the clock, … — an unconstrained
             oracle (it has an arbitrary value in every run and evolves by an arbitrary function),
  `ext`      generators the caller created itself and hands to components (`rng=` argument),
  `spawned`  generators obtained from `spawn()` since the last `seed()` (handles of the program),
  `objs`     long-lived stochastic objects (a mating protocol, an optimiser, a selection
             configuration … constructed once and used many times): the generator handle the object
             holds and its PRIVATE state created at construction / `rng`-assignment time (`Cached`:
             a derived generator, a memo, a stored configuration).

A component is an ARBITRARY function of a `View` — the streams in its measured dependency set and
nothing else — and may update only those (frame by construction).  Which streams a component of
the real library depends on is measured on every run and written to `Generated/C08Deps.lean`.

A long-lived object is a triple (class, constructor arguments, call sequence): `Op.new` runs the
constructor (an arbitrary function of the streams in `ctorDeps`; it returns what is observable of
the construction and the private state), `Op.use` calls the method on the k-th object with the
generator the object holds, `Op.setrng` re-assigns the object's `rng` attribute (the private state
is derived again).  The method sees the private state only when the class is `cached`.
-/

namespace Prng

/-! ### primitives of the three PRNG libraries -/

/-- the primitive operations `seed`/`spawn` are built from; abstract in the state type -/
structure Prim (σ : Type) where
  /-- `random.seed(s)` -/
  pySeed : Nat → σ
  /-- `random.randint(0, 2**bits-1)`: the value drawn and the successor state -/
  pyDraw : Nat → σ → Nat × σ
  /-- `numpy.random.seed(v)` -/
  npSeed : Nat → σ
  /-- `numpy.random.Generator(BitGenerator(v))`; the first argument numbers the bit generator class
      (0 = PCG64, the default; MT19937, Philox, SFC64, PCG64DXSM …) -/
  genSeed : Nat → Nat → σ

/-- the rarely used arguments of `spawn(n, BitGenerator, sbits)`: which bit generator class, how many seed
    bits are drawn from the python stream per new generator (defaults: PCG64, 64) -/
structure SOpt where
  bg : Nat := 0
  bits : Nat := 64
  deriving DecidableEq, Repr

/-- the `rng` argument of a call -/
inductive RngArg where
  | glob                 -- `rng=None`
  | ext (k : Nat)        -- a generator of the caller
  | spawned (k : Nat)    -- the k-th generator spawned since the last `seed()`
  deriving DecidableEq, Repr

def RngArg.isGlob : RngArg → Bool
  | .glob => true
  | _ => false

def RngArg.isSpawned : RngArg → Bool
  | .spawned _ => true
  | _ => false

def RngArg.isExt : RngArg → Bool
  | .ext _ => true
  | _ => false

/-- a long-lived stochastic object: the generator handle it holds (`rng=None` ↦ `glob`), whether
    that handle is still meaningful (a handle to a spawned generator dies with the next `seed()`:
    the program can no longer name that generator), and the private state created at
    construction / `rng`-assignment time -/
structure ObjSt (σ : Type) where
  arg : RngArg
  alive : Bool
  priv : σ

/-- what `seed()` does to an object: nothing, except that handles to spawned generators die -/
def ObjSt.reseed {σ} (o : ObjSt σ) : ObjSt σ := { o with alive := o.alive && !o.arg.isSpawned }

/-- process-global entropy state -/
structure St (σ : Type) where
  py : σ
  np : σ
  os : σ
  ext : List σ
  spawned : List σ
  objs : List (ObjSt σ) := []

/-! ### dependency sets -/

/-- dependency set of a component in terms of *roles*:
    `rng`  the generator the component is handed (`rng=None` ↦ the numpy global, see `call`),
    `py` / `np` the two global streams addressed directly, `os` an unseeded source -/
structure Deps where
  rng : Bool
  py : Bool
  np : Bool
  os : Bool
  deriving DecidableEq, Repr

/-- what a component can see and may write: the streams of its dependency set, `none` elsewhere -/
structure View (σ : Type) where
  rng : Option σ
  py : Option σ
  np : Option σ
  os : Option σ

/-- a stochastic API component: its dependency set and an arbitrary function on its view
    (arguments are part of the closure; `ο` is the type of results) -/
structure Comp (σ ο : Type) where
  deps : Deps
  sem : View σ → ο × View σ

/-- `none`: invalid handle (the real call raises); `some none`: global; `some (some g)`: state `g` -/
def getGen {σ} (st : St σ) : RngArg → Option (Option σ)
  | .glob => some none
  | .ext k => (st.ext[k]?).map some
  | .spawned k => (st.spawned[k]?).map some

def putGen {σ} (st : St σ) (arg : RngArg) (g : σ) : St σ :=
  match arg with
  | .glob => st
  | .ext k => { st with ext := st.ext.set k g }
  | .spawned k => { st with spawned := st.spawned.set k g }

def sel {σ} (b : Bool) (x : σ) : Option σ := if b then some x else none
def upd {σ} (b : Bool) (old : σ) (new : Option σ) : σ := if b then new.getD old else old

/-- the numpy global is in the effective dependency set when the component addresses it directly
    or when it draws from its `rng` and was handed `None` -/
def useNp (d : Deps) (glob : Bool) : Bool := d.np || (d.rng && glob)

/-- run an arbitrary function `f` of the view determined by the dependency set `d` and the `rng`
    argument.  Only the streams of the (effective) dependency set are shown to `f` and only those
    are written back (frame by construction).  Objects are never touched. -/
def withView {σ α} (d : Deps) (f : View σ → α × View σ) (arg : RngArg) (st : St σ) : Option (α × St σ) :=
  match getGen st arg with
  | none => none
  | some gen =>
    let un := useNp d gen.isNone
    let v : View σ :=
      { rng := gen.bind (sel d.rng), py := sel d.py st.py, np := sel un st.np,
        os := sel d.os st.os }
    let r := f v
    let st1 : St σ :=
      { st with py := upd d.py st.py r.2.py, np := upd un st.np r.2.np,
                os := upd d.os st.os r.2.os }
    let st2 : St σ :=
      match gen with
      | some g => if d.rng then putGen st1 arg (r.2.rng.getD g) else st1
      | none => st1
    some (r.1, st2)

/-- one call of a component (constructed afresh, called once) -/
def call {σ ο} (c : Comp σ ο) (arg : RngArg) (st : St σ) : Option (ο × St σ) :=
  withView c.deps c.sem arg st

/-! ### long-lived objects -/

/-- a class of long-lived stochastic objects -/
structure Cls (σ ο : Type) where
  /-- streams the constructor / the `rng` setter reads -/
  ctorDeps : Deps
  /-- constructor: what is observable of the construction (e.g. the first sampled configuration)
      and the private state it creates -/
  ctor : View σ → (ο × σ) × View σ
  /-- streams a method call reads -/
  deps : Deps
  /-- the method reads (and may update) the private state created at construction time -/
  cached : Bool
  sem : Option σ → View σ → (ο × Option σ) × View σ

/-- `obj = Class(args, rng=arg)` -/
def new {σ ο} (c : Cls σ ο) (arg : RngArg) (st : St σ) : Option (ο × St σ) :=
  (withView c.ctorDeps c.ctor arg st).map
    (fun r => (r.1.1, { r.2 with objs := r.2.objs ++ [⟨arg, true, r.1.2⟩] }))

/-- `obj.rng = arg` (the private state is derived again) -/
def setRng {σ ο} (c : Cls σ ο) (k : Nat) (arg : RngArg) (st : St σ) : Option (ο × St σ) :=
  if k < st.objs.length then
    (withView c.ctorDeps c.ctor arg st).map
      (fun r => (r.1.1, { r.2 with objs := r.2.objs.set k ⟨arg, true, r.1.2⟩ }))
  else none

/-- `obj.method(args)` on the k-th object, with the generator the object holds -/
def use {σ ο} (c : Cls σ ο) (k : Nat) (st : St σ) : Option (ο × St σ) :=
  match st.objs[k]? with
  | none => none
  | some ob =>
    if ob.alive then
      (withView c.deps (c.sem (sel c.cached ob.priv)) ob.arg st).map
        (fun r => (r.1.1, { r.2 with objs := r.2.objs.set k ⟨ob.arg, true, upd c.cached ob.priv r.1.2⟩ }))
    else none

/-- `obj2 = copy.deepcopy(obj)` / `obj.deepcopy()` / `copy.copy(obj)` on the k-th object, as the library
    defines it for its stochastic protocols ("rng should not be copied"): the duplicate is a NEW object that
    holds the SAME generator handle and a copy of the private state.  No stream is read or written. -/
def copyObj {σ} (k : Nat) (st : St σ) : Option (St σ) :=
  (st.objs[k]?).map (fun ob => { st with objs := st.objs ++ [ob] })

/-- the WRONG way of duplicating (seeded change C08-d3, `rng = copy.deepcopy(self.rng)`): the duplicate gets a
    private CLONE of the state of the generator its original holds (of the numpy global when that is `None`)
    as private state — state that `seed()` no longer reaches -/
def copyCloned {σ} (k : Nat) (st : St σ) : Option (St σ) :=
  (st.objs[k]?).bind (fun ob =>
    (getGen st ob.arg).map (fun g => { st with objs := st.objs ++ [⟨ob.arg, ob.alive, g.getD st.np⟩] }))

/-! ### seed and spawn (prng.py l.121-173) -/

/-- `py_random.seed(s); numpy.random.seed(py_random.randint(0, 2**32-1))`.
    Modelling device: `seed` opens a new scope of spawned handles (a program that is repeated
    after re-seeding can only name generators it spawns itself).  Long-lived objects SURVIVE the
    re-seeding with their private state (that is what makes them dangerous). -/
def seed {σ} (P : Prim σ) (s : Nat) (st : St σ) : St σ :=
  let py0 := P.pySeed s
  let d := P.pyDraw 32 py0
  { st with py := d.2, np := P.npSeed d.1, spawned := [], objs := st.objs.map ObjSt.reseed }

/-- `[Generator(BitGenerator(py_random.randint(0, 2**sbits-1))) for _ in range(n)]`
    (`spawn(None, …)` is the case `n = 1` returned without the list) -/
def spawnGo {σ} (P : Prim σ) (o : SOpt) : Nat → σ → List σ × σ
  | 0, py => ([], py)
  | n+1, py =>
    let d := P.pyDraw o.bits py
    let r := spawnGo P o n d.2
    (P.genSeed o.bg d.1 :: r.1, r.2)

def spawn {σ} (P : Prim σ) (o : SOpt) (n : Nat) (st : St σ) : List σ × St σ :=
  let r := spawnGo P o n st.py
  (r.1, { st with py := r.2, spawned := st.spawned ++ r.1 })

/-! ### programs -/

inductive Op (σ ο : Type) where
  | seed (s : Nat)
  | spawn (n : Nat) (o : SOpt)
  | call (c : Comp σ ο) (arg : RngArg)
  | new (c : Cls σ ο) (arg : RngArg)
  | use (c : Cls σ ο) (k : Nat)
  | setrng (c : Cls σ ο) (k : Nat) (arg : RngArg)
  | copy (k : Nat)

/-- observable result of an operation (for `spawn`: the states of the new generators) -/
inductive Out (σ ο : Type) where
  | seeded
  | gens (g : List σ)
  | val (o : ο)
  | copied
  deriving DecidableEq, Repr

def step {σ ο} (P : Prim σ) : Op σ ο → St σ → Option (Out σ ο × St σ)
  | .seed s, st => some (.seeded, seed P s st)
  | .spawn n o, st => let r := spawn P o n st; some (.gens r.1, r.2)
  | .call c arg, st => (call c arg st).map (fun r => (.val r.1, r.2))
  | .new c arg, st => (new c arg st).map (fun r => (.val r.1, r.2))
  | .use c k, st => (use c k st).map (fun r => (.val r.1, r.2))
  | .setrng c k arg, st => (setRng c k arg st).map (fun r => (.val r.1, r.2))
  | .copy k, st => (copyObj k st).map (fun r => (.copied, r))

/-- run a program; `none` when some call names a generator that does not exist -/
def run {σ ο} (P : Prim σ) : List (Op σ ο) → St σ → Option (List (Out σ ο) × St σ)
  | [], st => some ([], st)
  | op :: rest, st =>
    match step P op st with
    | none => none
    | some (o, st') =>
      match run P rest st' with
      | none => none
      | some (os, st'') => some (o :: os, st'')

def Op.readsOS {σ ο} : Op σ ο → Bool
  | .call c _ => c.deps.os
  | .new c _ => c.ctorDeps.os
  | .use c _ => c.deps.os
  | .setrng c _ _ => c.ctorDeps.os
  | _ => false

/-- syntactic and conservative: the operation may read or write one of the caller's own generators
    (a method call may, through the handle its object holds) -/
def Op.usesExt {σ ο} : Op σ ο → Bool
  | .call _ (.ext _) => true
  | .new _ (.ext _) => true
  | .setrng _ _ (.ext _) => true
  | .use _ _ => true
  | _ => false

/-- the operation names an already existing object -/
def Op.usesObj {σ ο} : Op σ ο → Bool
  | .use _ _ => true
  | .setrng _ _ _ => true
  | .copy _ => true
  | _ => false

/-! ### static analysis of programs with long-lived objects

What a program does to the objects can be followed without running it: which handle each object
holds and whether its private state was (re)derived since the last `seed()` from seeded streams
(`clean`).  `reproducible` uses it to say: a method that reads private state is only called on
objects built or re-assigned after the re-seeding. -/

/-- abstract object: the handle it holds; `clean` = its private state is a function of the seed
    and of the program (it was derived after the re-seeding) -/
structure AObj where
  arg : RngArg
  clean : Bool
  deriving DecidableEq, Repr

def absStep {σ ο} : Op σ ο → List AObj → List AObj
  | .new _ arg, h => h ++ [⟨arg, true⟩]
  | .setrng _ k arg, h => h.set k ⟨arg, true⟩
  | .copy k, h => h ++ (h[k]?).toList
  | _, h => h

/-- a `cached` method is only called on an object whose private state is clean -/
def Op.cleanUse {σ ο} (h : List AObj) : Op σ ο → Bool
  | .use c k => !c.cached || ((h[k]?).map (·.clean)).getD true
  | _ => true

/-- precise version of `usesExt`: the operation reaches one of the caller's own generators -/
def Op.extUse {σ ο} (h : List AObj) : Op σ ο → Bool
  | .call _ (.ext _) => true
  | .new _ (.ext _) => true
  | .setrng _ _ (.ext _) => true
  | .use _ k => ((h[k]?).map (fun a => a.arg.isExt)).getD false
  | _ => false

/-- `p h op` holds at every operation, `h` being the abstract object list at that point -/
def progAll {σ ο} (p : List AObj → Op σ ο → Bool) : List AObj → List (Op σ ο) → Bool
  | _, [] => true
  | h, op :: rest => p h op && progAll p (absStep op h) rest

/-- the abstract object list of a concrete state right after a re-seeding: handles as they are,
    no private state is clean -/
def absOf {σ} (st : St σ) : List AObj := st.objs.map (fun o => ⟨o.arg, false⟩)

/-- what of an object is NOT private state -/
def ObjSt.handle {σ} (o : ObjSt σ) : RngArg × Bool := (o.arg, o.alive)

/-- the abstract object list after a program -/
def absRun {σ ο} : List (Op σ ο) → List AObj → List AObj
  | [], h => h
  | op :: rest, h => absRun rest (absStep op h)

/-- a call made with an explicit generator by a component whose only dependency is that generator -/
def Op.isolatedCall {σ ο} : Op σ ο → Bool
  | .call c arg => !arg.isGlob && !c.deps.py && !c.deps.np && !c.deps.os
  | _ => false

def Deps.rngOnly (d : Deps) : Bool := !d.py && !d.np && !d.os

/-- an isolated call on one of the caller's own generators -/
def Op.extIso {σ ο} : Op σ ο → Bool
  | .call c (.ext _) => !c.deps.py && !c.deps.np && !c.deps.os
  | _ => false

/-! ### the decidable Spec (evaluated on the implementation's observations by the driver) -/

/-- clause 1: the two executions give bit-identical outputs (digests), step by step -/
def specRepro {β} [BEq β] (a b : List β) : Bool := a.length == b.length && (a.zip b).all (fun p => p.1 == p.2)

/-- observation of one call made with an explicit generator, in one execution:
    digests (`β`) of the two global streams before and after, and the result (`γ`) -/
structure IsoObs (β γ : Type) where
  pyBefore : β
  pyAfter : β
  npBefore : β
  npAfter : β
  out : γ

/-- clause 2a: the global Python and NumPy streams are exactly as they were -/
def specUntouched {β γ} [BEq β] (o : IsoObs β γ) : Bool :=
  o.pyBefore == o.pyAfter && o.npBefore == o.npAfter

/-- clause 2 on a pair of executions that hand the component generators in the same state while
    the global streams differ: globals untouched in both, results equal -/
def specIsolated {β γ} [BEq β] [BEq γ] (a b : IsoObs β γ) : Bool :=
  specUntouched a && specUntouched b && a.out == b.out

/-! ### measured dependency table (rows are written by the harness into `Generated/C08Deps.lean`) -/

/-- streams seen to be touched in one measurement mode -/
structure Obs where
  own : Bool
  py : Bool
  np : Bool
  os : Bool
  deriving DecidableEq, Repr

structure Row where
  name : String
  /-- the component has an `rng` parameter -/
  accepts : Bool
  /-- measured with `rng=None` -/
  glob : Obs
  /-- measured with an explicit generator (equal to `glob` when there is no `rng` parameter) -/
  expl : Obs
  /-- call sites at which OS entropy was acquired during the call -/
  osSites : List String
  /-- for a component with an `rng` parameter: what drew from a global stream although an
      explicit generator was supplied -/
  leakSites : List String
  /-- streams touched by the constructor / the `rng` setter of the long-lived object, measured with
      `rng=None` and with an explicit generator (all false for plain functions) -/
  ctorGlob : Obs := ⟨false, false, false, false⟩
  ctorExpl : Obs := ⟨false, false, false, false⟩
  /-- fifth source (`Cached`): the result of a method call depends on private state created at
      construction / `rng`-assignment time — measured: same seed, same call, object built under a
      different stream state or used a different number of times before the re-seeding -/
  cached : Bool := false
  deriving DecidableEq, Repr

/-- role-based dependency set derived from the two measurements -/
def Row.deps (r : Row) : Deps :=
  if r.accepts then ⟨r.expl.own, r.expl.py, r.expl.np, r.expl.os⟩
  else ⟨false, r.glob.py, r.glob.np, r.glob.os⟩

/-- dependency set of the constructor / `rng` setter -/
def Row.ctorDeps (r : Row) : Deps :=
  if r.accepts then ⟨r.ctorExpl.own, r.ctorExpl.py, r.ctorExpl.np, r.ctorExpl.os⟩
  else ⟨false, r.ctorGlob.py, r.ctorGlob.np, r.ctorGlob.os⟩

/-- the two measurement modes fit the role model: with `rng=None` the numpy global is touched iff
    the component uses its `rng` or the numpy global directly; `py`/`os` do not depend on the mode;
    the OS flag is set iff a site was recorded -/
def Row.consistent (r : Row) : Bool :=
  r.glob.own == false
  && r.glob.np == (r.deps.rng || r.deps.np)
  && r.glob.py == r.deps.py
  && r.glob.os == r.deps.os
  && r.deps.os == !r.osSites.isEmpty
  && (r.accepts || r.expl == r.glob)
  && r.ctorGlob.own == false
  && r.ctorGlob.np == (r.ctorDeps.rng || r.ctorDeps.np)
  && r.ctorGlob.py == r.ctorDeps.py
  && r.ctorGlob.os == r.ctorDeps.os
  && (r.accepts || r.ctorExpl == r.ctorGlob)
  && (!r.ctorDeps.os || !r.osSites.isEmpty)

/-- every recorded OS-entropy site is one of the known findings -/
def Row.unseededKnown (known : List String) (r : Row) : Bool := r.osSites.all (known.contains ·)

/-- a component with an `rng` parameter depends on that generator only, unless each leak is a
    known finding (and then at least one site must have been attributed) -/
def Row.leaksKnown (known : List String) (r : Row) : Bool :=
  !r.accepts || (!(r.deps.py || r.deps.np || r.deps.os) && r.leakSites.isEmpty)
  || (!r.leakSites.isEmpty && r.leakSites.all (known.contains ·))

def Row.seeded (r : Row) : Bool := r.osSites.isEmpty
def Row.isolatedOk (r : Row) : Bool :=
  r.accepts && r.leakSites.isEmpty && !(r.deps.py || r.deps.np || r.deps.os)
  && !(r.ctorDeps.py || r.ctorDeps.np || r.ctorDeps.os) && !r.cached

/-- private state created at construction time is read by a method only where a known finding says so -/
def Row.cachedKnown (known : List String) (r : Row) : Bool := !r.cached || known.contains r.name

/-- the operation calls (an arbitrary implementation of) a component of the given rows -/
def fromRows {σ ο} (rows : List Row) : Op σ ο → Prop
  | .call c _ => ∃ r ∈ rows, c.deps = r.deps
  | .new c _ => ∃ r ∈ rows, c.deps = r.deps ∧ c.ctorDeps = r.ctorDeps ∧ c.cached = r.cached
  | .use c _ => ∃ r ∈ rows, c.deps = r.deps ∧ c.ctorDeps = r.ctorDeps ∧ c.cached = r.cached
  | .setrng c _ _ => ∃ r ∈ rows, c.deps = r.deps ∧ c.ctorDeps = r.ctorDeps ∧ c.cached = r.cached
  | _ => True

/-! ### static table: every entropy call site in the source (`Generated/C08Static.lean`) -/

/-- one kind of entropy call site found by the AST scan of every pybrops module:
    `module`/`func` where it is, `kind` which source it addresses —
    "np" a call of `numpy.random.<fn>` (legacy global stream), "npref" a reference to such a function,
    "py" the `random` module, "gprng" a use of `global_prng` other than the sanctioned default
    `if rng is None: rng = global_prng`, "gprng-default" that default, "os" OS entropy
    (`default_rng()`, `SeedSequence()`, `RandomState()`, `os.urandom`, `secrets`, `uuid`; `id()` / `hash()` flowing
    into a seed), "time" a clock flowing into a seed, and three kinds about HANDING ON a generator:
    "rng-unused" a function with an `rng` parameter that never reads it, "rng-dropped" a call made with
    `rng = None` / `rng = global_prng` where a generator is in scope (the D12 shape), "rng-omitted" a
    stochastic class constructed without any generator where one is in scope (the D12d shape) —
    `what` the callee, `count` how often in that function, `reached` the rows (indices into the
    measured dependency table) during whose measurement the function was executed -/
structure Site where
  module : String
  func : String
  kind : String
  what : String
  count : Nat
  reached : List Nat
  /-- the function only ever runs as part of a plug-in operator of a third-party framework: a method of a
      pybrops class deriving from a pymoo operator base class, or a module-level helper referenced only from
      such classes (decided by the AST scan) -/
  opScope : Bool := false
  deriving DecidableEq, Repr

/-- the global stream a site of this kind addresses is in the measured set of the row — in BOTH
    measurement modes when the component has an `rng` parameter: a component that is measured to be
    isolated (`expl` without that stream) must not execute a function that addresses the stream
    directly, whichever branch the explored call took -/
def Site.inMeasuredSet (s : Site) (r : Row) : Bool :=
  if s.kind == "np" || s.kind == "npref" || s.kind == "gprng" then r.glob.np && (!r.accepts || r.expl.np)
  else if s.kind == "py" then r.glob.py && (!r.accepts || r.expl.py)
  else false

/-- allow-list entries `(kind, module, function)` are generated from the `finding:` lines:
    `(kind, module, "")` — a finding about the custom plug-in operators of a module — covers the sites of
    that kind in operator scope ONLY (a new reader in another function of the same module is not covered);
    `("static", module, function)` covers every site of that one function -/
def Site.allowed (allow : List (String × String × String)) (s : Site) : Bool :=
  allow.any (fun a => a.2.1 == s.module
    && ((a.1 == s.kind && a.2.2 == "" && s.opScope) || (a.1 == "static" && a.2.2 == s.func)))

/-- the obligation on one site: sanctioned default, allow-listed, or executed during the measurement
    of a component whose measured dependency set contains the stream it addresses -/
def Site.covered (table : List Row) (allow : List (String × String × String)) (s : Site) : Bool :=
  s.kind == "gprng-default" || s.allowed allow
  || s.reached.any (fun i => match table[i]? with
      | some r => s.inMeasuredSet r
      | none => false)

/-- a `seed` that only seeds the `random` module (mutant of prng.py l.137) -/
def seedPyOnly {σ} (P : Prim σ) (s : Nat) (st : St σ) : St σ :=
  { st with py := (P.pyDraw 32 (P.pySeed s)).2, spawned := [] }

/-- the row measured for `SubsetGeneticAlgorithm.minimize` on the unchanged tree (D11): numpy
    global + OS entropy, the `rng` argument is never used -/
def gaRowAsMeasured : Row :=
  { name := "opt.SubsetGeneticAlgorithm", accepts := true, glob := ⟨false, false, true, true⟩,
    expl := ⟨false, false, true, true⟩, osSites := ["os:pymoo.core.algorithm:setup"],
    leakSites := ["npfn:pybrops.opt.algo.pymoo_addon", "os:pymoo.core.algorithm:setup"] }

/-- the row measured for `EstimatedBreedingValueSubsetSelection.select` on the unchanged tree (D12):
    the optimiser uses the protocol's generator, the selection configuration is built with
    `rng=None` and samples from the numpy global -/
def selectRowAsMeasured : Row :=
  { name := "sel.EBVSubset.select", accepts := true, glob := ⟨false, false, true, false⟩,
    expl := ⟨true, false, true, false⟩, osSites := [], leakSites := ["rngNone:SubsetSelectionConfiguration"] }

/-! ### executable toy instance used by the driver to predict equality patterns -/

def mix (a b : Nat) : Nat := (a * 6364136223846793005 + b * 1442695040888963407 + 1013904223) % 18446744073709551616

def toyPrim : Prim Nat :=
  { pySeed := fun s => mix s 11, pyDraw := fun bits x => (mix (mix x 12) bits % 2 ^ (min bits 64), mix x 13),
    npSeed := fun v => mix v 14, genSeed := fun bg v => mix (mix v 15) bg }

/-- generic component: the result mixes every visible stream, and every visible stream advances
    to a state that depends on all visible streams (as a data-dependent number of draws would) -/
def toyComp (tag : Nat) (d : Deps) : Comp Nat Nat :=
  { deps := d,
    sem := fun v =>
      let h (o : Option Nat) (k : Nat) (acc : Nat) : Nat :=
        match o with
        | some x => mix (mix acc k) x
        | none => mix acc (k + 100)
      let r := h v.os 4 (h v.np 3 (h v.py 2 (h v.rng 1 tag)))
      (r, { rng := v.rng.map (fun x => mix (mix x 21) r), py := v.py.map (fun x => mix (mix x 22) r),
            np := v.np.map (fun x => mix (mix x 23) r), os := v.os.map (fun x => mix (mix x 24) r) }) }

/-- generic class of long-lived objects on the toy instance: the constructor derives the private
    state from every stream it sees; the method mixes the private state (when `cached`) into its
    result and advances it -/
def toyCls (tag : Nat) (cd d : Deps) (cached : Bool) : Cls Nat Nat :=
  { ctorDeps := cd,
    ctor := fun v => let r := (toyComp (tag + 1000) cd).sem v; ((r.1, mix r.1 31), r.2),
    deps := d, cached := cached,
    sem := fun p v =>
      let r := (toyComp tag d).sem v
      let o := match p with
        | some x => mix r.1 x
        | none => r.1
      ((o, p.map (fun x => mix x o)), r.2) }

end Prng
