/-
C03, round 5 — the storage dtype of a data block (integer dtypes of numpy).

The label-matrix model (Model/LabelMat.lean) moves integer *codes*; it has no dtype.  This file models the one
place where a dtype matters for "the data cells are exactly those of that entity": what is stored when a block of
one integer dtype meets a receiver of another one.

  * `promote`      numpy.result_type of two integer dtypes (`none`: uint64 with a signed type gives float64)
  * `appendStore`  numpy.append / numpy.concatenate: result in the promoted dtype, every value cast to it
                   (adjoin_* / append_* / concat_* of the single-axis classes)
  * `storeInto`    the block is cast to the RECEIVER's dtype (numpy.insert in insert_* / incorp_*; the pre-allocated
                   result `numpy.empty(shape, dtype = self._mat.dtype)` of the square adjoin / append): finding D71
  * `storeIntoRepaired`  patches/C03_D71.diff: the receiver is promoted first

Differentially tested against numpy on every run (driver op c03.np, fns `dt_append`, `dt_store`).  Core Lean only.
-/
namespace LabelDtype

inductive IDt where
  | i8 | i16 | i32 | i64 | u8 | u16 | u32 | u64
deriving DecidableEq, Repr

namespace IDt

def modulus : IDt → Int
  | i8 | u8 => 256
  | i16 | u16 => 65536
  | i32 | u32 => 4294967296
  | i64 | u64 => 18446744073709551616

def lo : IDt → Int
  | i8 => -128 | i16 => -32768 | i32 => -2147483648 | i64 => -9223372036854775808
  | u8 | u16 | u32 | u64 => 0

/-- exclusive upper bound -/
def hi : IDt → Int
  | i8 => 128 | i16 => 32768 | i32 => 2147483648 | i64 => 9223372036854775808
  | u8 => 256 | u16 => 65536 | u32 => 4294967296 | u64 => 18446744073709551616

def signed : IDt → Bool
  | i8 | i16 | i32 | i64 => true
  | _ => false

def bits : IDt → Nat
  | i8 | u8 => 8 | i16 | u16 => 16 | i32 | u32 => 32 | i64 | u64 => 64

/-- the value is representable in the dtype -/
def fits (d : IDt) (x : Int) : Prop := d.lo ≤ x ∧ x < d.hi

instance (d : IDt) (x : Int) : Decidable (d.fits x) := by unfold fits; exact inferInstance

/-- two's complement cast (C cast, numpy `astype` / assignment into an array of the dtype) -/
def wrap (d : IDt) (x : Int) : Int := (x - d.lo) % d.modulus + d.lo

def ofBits (sgn : Bool) (b : Nat) : Option IDt :=
  match sgn, b with
  | true, 8 => some i8 | true, 16 => some i16 | true, 32 => some i32 | true, 64 => some i64
  | false, 8 => some u8 | false, 16 => some u16 | false, 32 => some u32 | false, 64 => some u64
  | _, _ => none

end IDt

open IDt

/-- numpy.result_type of two integer dtypes -/
def promote (a b : IDt) : Option IDt :=
  if a.signed == b.signed then ofBits a.signed (max a.bits b.bits)
  else
    let u := if a.signed then b else a
    let s := if a.signed then a else b
    if u.bits < s.bits then some s else ofBits true (2 * u.bits)

/-- numpy.append / concatenate of a receiver block and an operand block -/
def appendStore (da : IDt) (xs : List Int) (db : IDt) (ys : List Int) : Option (IDt × List Int) :=
  (promote da db).map fun d => (d, (xs ++ ys).map d.wrap)

/-- the operand block is cast to the receiver's dtype (numpy.insert; pre-allocated square adjoin): as the code is -/
def storeInto (d : IDt) (xs ys : List Int) : IDt × List Int := (d, xs ++ ys.map d.wrap)

/-- patches/C03_D71.diff: the receiver is promoted to numpy.result_type before the block is stored -/
def storeIntoRepaired (da : IDt) (xs : List Int) (db : IDt) (ys : List Int) : Option (IDt × List Int) :=
  (promote da db).map fun d => (d, xs.map d.wrap ++ ys.map d.wrap)

end LabelDtype
