/-
Model of pybrops/popgen/gmap:
  HaldaneMapFunction / KosambiMapFunction  (mapfn, invmapfn, rprob1g),
  StandardGeneticMap / ExtendedGeneticMap   (constructor sort + group, build_spline, interp_genpos,
                                             interp_gmap, gdist1g, gdist2g, gdist1p, gdist2p, congruence),
  DenseGeneticMappableMatrix.interp_xoprob.
Core Lean only.  Executed at `Rat` (positions, distances, interpolation) and at `Float` (exp/log/tanh/
artanh); reasoned about over an ordered field and over ℝ (Lemmas/GMap*.lean, Lemmas/MapFn.lean).

Conventions.  A genetic position is `Option α` (`none` = NaN, "reported missing").  A distance or a
probability is `GDist α` (`fin a`, `inf` = +∞, `nan`).
-/
import PybropsModel.Np

namespace GMap

/-! ### scalar classes for the analytic functions (Float instances here, ℝ instances in Lemmas/MapFn) -/
class HasExp (α : Type) where exp : α → α
class HasLog (α : Type) where log : α → α
class HasTanh (α : Type) where tanh : α → α
class HasArtanh (α : Type) where artanh : α → α

instance : HasExp Float := ⟨Float.exp⟩
instance : HasLog Float := ⟨Float.log⟩
instance : HasTanh Float := ⟨Float.tanh⟩
instance : HasArtanh Float := ⟨Float.atanh⟩

/-- a value of a float array holding distances / probabilities -/
inductive GDist (α : Type) where
  | fin (a : α) : GDist α
  | inf : GDist α
  | nan : GDist α
  deriving Repr, BEq, DecidableEq

def GDist.map {α γ : Type} (c : α → γ) : GDist α → GDist γ
  | .fin a => .fin (c a)
  | .inf => .inf
  | .nan => .nan

/-! ### the two map functions -/
section mapfn
variable {α : Type} [Add α] [Sub α] [Mul α] [Div α] [Neg α] [OfNat α 0] [OfNat α 1] [OfNat α 2]
  [LT α] [DecidableLT α]

/-- the literal `0.5` -/
def half : α := 1 / 2

/-- HaldaneMapFunction.mapfn: `0.5 * (1.0 - exp(-2.0 * d))` -/
def haldane [HasExp α] (d : α) : α := half * (1 - HasExp.exp (-(2 * d)))

/-- HaldaneMapFunction.invmapfn: `-0.5 * log(1.0 - 2.0 * r)` -/
def invHaldane [HasLog α] (r : α) : α := -(half * HasLog.log (1 - 2 * r))

/-- KosambiMapFunction.mapfn: `0.5 * tanh(2.0 * d)` -/
def kosambi [HasTanh α] (d : α) : α := half * HasTanh.tanh (2 * d)

/-- KosambiMapFunction.invmapfn: `0.5 * arctanh(2.0 * r)` -/
def invKosambi [HasArtanh α] (r : α) : α := half * HasArtanh.artanh (2 * r)

/-! the same four expressions with every inexact operation followed by a rounding `rnd` (multiplication by
    `2.0` and `0.5` is exact in binary floating point; `rnd = id` gives the exact functions back).  Used in
    `Lemmas/MapFnRound` to state what survives ANY monotone rounding. -/

def haldaneR (rnd : α → α) [HasExp α] (d : α) : α := half * rnd (1 - rnd (HasExp.exp (-(2 * d))))
def invHaldaneR (rnd : α → α) [HasLog α] (r : α) : α := -(half * rnd (HasLog.log (rnd (1 - 2 * r))))
def kosambiR (rnd : α → α) [HasTanh α] (d : α) : α := half * rnd (HasTanh.tanh (2 * d))
def invKosambiR (rnd : α → α) [HasArtanh α] (r : α) : α := half * rnd (HasArtanh.artanh (2 * r))

/-- a map function applied to a float that may be +∞ (`exp(-∞) = 0`, `tanh(∞) = 1` ⇒ one half) or NaN -/
def mapD (f : α → α) : GDist α → GDist α
  | .fin d => .fin (f d)
  | .inf => .fin half
  | .nan => .nan

/-- `invmapfn` of Haldane as the float code evaluates it: `log 0 = -∞` ⇒ +∞ at r = ½,
    `log` of a negative number ⇒ NaN -/
def invHaldaneD [HasLog α] (r : α) : GDist α :=
  let t : α := 1 - 2 * r
  if t < 0 then .nan else if 0 < t then .fin (invHaldane r) else .inf

/-- `invmapfn` of Kosambi as the float code evaluates it: `arctanh 1 = +∞`, NaN beyond 1.
    (Arguments `2r ≤ -1` are outside the domain of the property and are mapped to NaN here; numpy gives
    `-∞` at exactly `-1`.) -/
def invKosambiD [HasArtanh α] (r : α) : GDist α :=
  let x : α := 2 * r
  if 1 < x then .nan else if x < 1 then (if -1 < x then .fin (invKosambi r) else .nan) else .inf

/-- inverse lifted to the result of `mapD` -/
def invD (g : α → GDist α) : GDist α → GDist α
  | .fin r => g r
  | .inf => .nan
  | .nan => .nan

/-- the two concrete map-function classes -/
inductive MapKind where
  | haldane | kosambi
  deriving Repr, DecidableEq

/-- exponent of the conditioning of the round trip: `1 - 2r = e^{-2d}` (Haldane), `≥ e^{-4d}` (Kosambi) -/
def MapKind.kappa : MapKind → Nat
  | .haldane => 2
  | .kosambi => 4

def MapKind.fn [HasExp α] [HasTanh α] : MapKind → α → α
  | .haldane => GMap.haldane
  | .kosambi => GMap.kosambi

def MapKind.fnR [HasExp α] [HasTanh α] (rnd : α → α) : MapKind → α → α
  | .haldane => GMap.haldaneR rnd
  | .kosambi => GMap.kosambiR rnd

def MapKind.inv [HasLog α] [HasArtanh α] : MapKind → α → GDist α
  | .haldane => GMap.invHaldaneD
  | .kosambi => GMap.invKosambiD

end mapfn

/-! ### sequential and pairwise genetic distances -/
section dist
variable {α : Type} [Sub α] [LT α] [DecidableLT α] [OfNat α 0]

/-- `numpy.abs` -/
def absv (a : α) : α := if a < 0 then 0 - a else a

/-- float subtraction of two positions; NaN is contagious -/
def subPos : Option α → Option α → GDist α
  | some a, some b => .fin (a - b)
  | _, _ => .nan

def absD : GDist α → GDist α
  | .fin a => .fin (absv a)
  | .inf => .inf
  | .nan => .nan

/-- python slice `l[st:sp]` for `None` / non-negative bounds -/
def slice {β : Type} (st sp : Option Nat) (l : List β) : List β :=
  let l1 := match sp with
    | none => l
    | some k => l.take k
  match st with
  | none => l1
  | some k => l1.drop k

/-- one entry of the sequential distance array: `prev` = the preceding (label, position) of the
    array, `none` at the array start.  `inf` at every run start, first difference inside a run. -/
def seqDist (prev : Option (Int × Option α)) (cur : Int × Option α) : GDist α :=
  match prev with
  | none => GDist.inf
  | some p => if p.1 = cur.1 then subPos cur.2 p.2 else GDist.inf

/-- `gdist1g` on an array whose equal chromosome labels are contiguous (the documented precondition
    "sorted"; `gdist1gLit` below transcribes the `numpy.unique` loop literally and
    `Lemmas/GMapSeq.gdist1gLit_eq_of_contig` shows that the two agree on such arrays). -/
def gdist1From : Option (Int × Option α) → List (Int × Option α) → List (GDist α)
  | _, [] => []
  | prev, cur :: rest => seqDist prev cur :: gdist1From (some cur) rest

/-- StandardGeneticMap.gdist1g / ExtendedGeneticMap.gdist1g -/
def gdist1g (chr : List Int) (gen : List (Option α)) (ast asp : Option Nat := none) : List (GDist α) :=
  gdist1From none (slice ast asp (chr.zip gen))

/-! literal transcription of the `numpy.unique` loop of `gdist1g` -/

/-- drop adjacent repetitions (distinct values of a sorted list) -/
def dedupAdj : List Int → List Int
  | [] => []
  | [a] => [a]
  | a :: b :: l => if a = b then dedupAdj (b :: l) else a :: dedupAdj (b :: l)

/-- `numpy.unique(l, return_index=True, return_counts=True)`: the distinct values in ascending order,
    each with the index of its first occurrence and its number of occurrences in `l` -/
def uniqueIC (l : List Int) : List (Int × Nat × Nat) :=
  (dedupAdj (Np.stableSort (fun a b => decide (a ≤ b)) l)).map fun v => (v, l.idxOf v, l.count v)

/-- `view_genpos[i] - view_genpos[i-1]` -/
def diffAt (z : List (Int × Option α)) (i : Nat) : Option (GDist α) :=
  match z[i]?, z[i - 1]? with
  | some c, some p => some (subPos c.2 p.2)
  | _, _ => none

/-- loop body: `out[st] = inf; out[st+1:sp] = view_genpos[st+1:sp] - view_genpos[st:sp-1]`
    (`none` = a cell of `numpy.empty` that has not been written) -/
def writeRun (z : List (Int × Option α)) (out : List (Option (GDist α))) (st sp : Nat) :
    List (Option (GDist α)) :=
  out.zipIdx.map fun oi =>
    if oi.2 = st then some GDist.inf else if st < oi.2 ∧ oi.2 < sp then diffAt z oi.2 else oi.1

/-- `gdist1g` exactly as written: `uniq, start, counts = numpy.unique(view_chrgrp, ...)`,
    `out = numpy.empty(...)`, one `writeRun` per distinct label.  On label arrays whose equal labels are
    not contiguous some cells stay unwritten (`none`) or are overwritten by a later run. -/
def gdist1gLit (chr : List Int) (gen : List (Option α)) (ast asp : Option Nat := none) :
    List (Option (GDist α)) :=
  let z := slice ast asp (chr.zip gen)
  (uniqueIC (z.map Prod.fst)).foldl (fun out r => writeRun z out r.2.1 (r.2.1 + r.2.2))
    (List.replicate z.length none)

/-- one entry of the pairwise matrix: `abs(gi - gj)`, overwritten by `inf` where the labels differ -/
def pairDist (a b : Int × Option α) : GDist α :=
  if a.1 = b.1 then absD (subPos a.2 b.2) else GDist.inf

/-- StandardGeneticMap.gdist2g / ExtendedGeneticMap.gdist2g -/
def gdist2g (chr : List Int) (gen : List (Option α)) (rst rsp cst csp : Option Nat := none) :
    List (List (GDist α)) :=
  let z := chr.zip gen
  (slice rst rsp z).map fun ri => (slice cst csp z).map (pairDist ri)

/-- entry (i, j) of a matrix given as nested lists -/
def entry {β : Type} (m : List (List β)) (i j : Nat) : Option β := (m[i]?).bind (·[j]?)

end dist

/-! ### the map: rows, constructor sort, grouping metadata -/

/-- one marker of a genetic map; `tag` carries the columns that only ride along
    (`Unit` for StandardGeneticMap; stop/name/fncode for ExtendedGeneticMap) -/
structure Row (α β : Type) where
  chr : Int
  phy : α
  gen : α
  tag : β
  deriving Repr, BEq, DecidableEq

/-- the columns `ExtendedGeneticMap` carries besides (chromosome, physical, genetic position): `vrnt_stop`,
    `vrnt_name`, `vrnt_fncode` (the last two may be `None` for the whole map) -/
structure ExtCols where
  stop : Int
  name : Option String
  fncode : Option String
  deriving Repr, BEq, DecidableEq

/-- a marker of a `StandardGeneticMap` / of an `ExtendedGeneticMap` -/
abbrev StdRow (α : Type) := Row α Unit
abbrev ExtRow (α : Type) := Row α ExtCols

section map
variable {α β : Type} [LT α] [DecidableLT α]

/-- the order of `numpy.lexsort((vrnt_genpos, vrnt_phypos, vrnt_chrgrp))`:
    chromosome first, then physical, then genetic position -/
def rowLe (a b : Row α β) : Bool :=
  decide (a.chr < b.chr) ||
    (a.chr == b.chr && (decide (a.phy < b.phy) || (!decide (b.phy < a.phy) && !decide (b.gen < a.gen))))

/-- the three single-key orders of the lexsort -/
def genLe (a b : Row α β) : Bool := !decide (b.gen < a.gen)
def phyLe (a b : Row α β) : Bool := !decide (b.phy < a.phy)
def chrLe (a b : Row α β) : Bool := decide (a.chr ≤ b.chr)

/-- `numpy.lexsort((vrnt_genpos, vrnt_phypos, vrnt_chrgrp))` the way numpy performs it: one stable sort
    per key, first key first, so that the last key ends up primary.
    (`Lemmas/GMapLex.lexsort3_eq_construct`: equal to the single lexicographic stable sort `construct`
    on every input, duplicate keys included.) -/
def lexsort3 (rows : List (Row α β)) : List (Row α β) :=
  Np.stableSort chrLe (Np.stableSort phyLe (Np.stableSort genLe rows))

/-- constructor with `auto_group = True`: `sort()` (stable lexsort + reorder) -/
def construct (rows : List (Row α β)) : List (Row α β) := Np.stableSort rowLe rows

/-- `group()` metadata: (vrnt_chrgrp_name, stix, spix, len) from `numpy.unique(..., return_index,
    return_counts)` of the sorted label array -/
def groupMeta (rows : List (Row α β)) : List (Int × Nat × Nat × Nat) :=
  (Np.uniqueRuns (rows.map (·.chr))).map fun r => (r.1, r.2.1, r.2.1 + r.2.2, r.2.2)

/-- `congruence()`: first marker of every chromosome True, then `genpos[i-1] <= genpos[i]` -/
def congruenceFrom : Option (Row α β) → List (Row α β) → List Bool
  | _, [] => []
  | prev, r :: rest =>
    (match prev with
     | none => true
     | some p => if p.chr = r.chr then !decide (r.gen < p.gen) else true) :: congruenceFrom (some r) rest

def congruence (rows : List (Row α β)) : List Bool := congruenceFrom none rows

/-- interp1d's `argsort(x, kind="mergesort")` order on the knots -/
def xLe (a b : α × α) : Bool := !decide (b.1 < a.1)

/-- `build_spline`: knots of chromosome `c` = (phypos, genpos) of the rows with `vrnt_chrgrp == c`,
    sorted by x because `assume_sorted = False` -/
def knots (rows : List (Row α β)) (c : Int) : List (α × α) :=
  Np.stableSort xLe ((rows.filter (fun r => r.chr == c)).map (fun r => (r.phy, r.gen)))

end map

/-! ### piecewise-linear interpolation with extrapolation from the end segments -/
section interp
variable {α : Type} [Add α] [Sub α] [Mul α] [Div α] [LT α] [DecidableLT α]

/-- scipy 1.18 `interp1d._call_linear` (de Boor form):
    `(x_new - x_lo)/(x_hi - x_lo) * y_hi + (x_hi - x_new)/(x_hi - x_lo) * y_lo` -/
def seg (p0 p1 : α × α) (x : α) : α :=
  ((x - p0.1) / (p1.1 - p0.1)) * p1.2 + ((p1.1 - x) / (p1.1 - p0.1)) * p0.2

/-- a segment with `x_lo = x_hi` makes the float code evaluate `0/0` or `±inf·y_hi ∓ inf·y_lo`: NaN.
    (After the sort `x_lo ≤ x_hi`, so "not `<`" is "equal".)  Excluded by the property
    ("duplicated physical positions excluded"). -/
def segOpt (p0 p1 : α × α) (x : α) : Option α := if p0.1 < p1.1 then some (seg p0 p1 x) else none

/-- literal transcription of scipy `interp1d._call_linear` on sorted knots:
    `i = searchsorted(x, x_new).clip(1, n-1)`; segment `(i-1, i)`.  Fewer than two knots: NaN. -/
def interpIdx (k : List (α × α)) (x : α) : Option α :=
  let n := k.length
  if n < 2 then none else
  let s := (k.takeWhile (fun p => decide (p.1 < x))).length
  let i := min (max s 1) (n - 1)
  match k[i - 1]?, k[i]? with
  | some p0, some p1 => segOpt p0 p1 x
  | _, _ => none

/-- recursive form used in the proofs: walk along the knots, use the segment `(p0, p1)` as soon as
    `x ≤ p1.x` or `p1` is the last knot (`interpIdx_eq_interpSorted` in Lemmas/GMapInterp) -/
def interpSorted : List (α × α) → α → Option α
  | [], _ => none
  | [_], _ => none
  | p0 :: p1 :: rest, x =>
    if rest.isEmpty || !decide (p1.1 < x) then segOpt p0 p1 x else interpSorted (p1 :: rest) x

end interp

section queries
variable {α β : Type} [Add α] [Sub α] [Mul α] [Div α] [LT α] [DecidableLT α]

/-- one query of `interp_genpos`: `spline[chrgrp](phypos)`; `KeyError` (no knots) ⇒ NaN -/
def interpOne (rows : List (Row α β)) (c : Int) (x : α) : Option α := interpIdx (knots rows c) x

/-- `interp_genpos` -/
def interpGenpos (rows : List (Row α β)) (qchr : List Int) (qphy : List α) : List (Option α) :=
  (qchr.zip qphy).map fun q => interpOne rows q.1 q.2

/-- same with the recursive interpolation (used in the proofs; equal by
    `Lemmas/GMapQuery.interpOne_eq_interpOneS`) -/
def interpOneS (rows : List (Row α β)) (c : Int) (x : α) : Option α := interpSorted (knots rows c) x

def interpGenposS (rows : List (Row α β)) (qchr : List Int) (qphy : List α) : List (Option α) :=
  (qchr.zip qphy).map fun q => interpOneS rows q.1 q.2

variable [OfNat α 0] [OfNat α 1]

/-- `gdist1p` = `gdist1g` of the interpolated positions -/
def gdist1p (rows : List (Row α β)) (qchr : List Int) (qphy : List α) (ast asp : Option Nat := none) :
    List (GDist α) :=
  gdist1g qchr (interpGenpos rows qchr qphy) ast asp

/-- `gdist2p` = `gdist2g` of the interpolated positions -/
def gdist2p (rows : List (Row α β)) (qchr : List Int) (qphy : List α)
    (rst rsp cst csp : Option Nat := none) : List (List (GDist α)) :=
  gdist2g qchr (interpGenpos rows qchr qphy) rst rsp cst csp

/-- `DenseGeneticMappableMatrix.interp_xoprob` on a grouped matrix (labels sorted):
    `vrnt_genpos = gmap.interp_genpos(...)`, `vrnt_xoprob = mapfn(gdist1g(chrgrp, vrnt_genpos))`.
    `f` is the map function on finite distances; `cast` embeds the scalar of the positions into the
    scalar the map function is evaluated in (`Rat → Float` in the driver, `id` in the proofs). -/
def interpXoprob {γ : Type} [Div γ] [OfNat γ 1] [OfNat γ 2] (cast : α → γ) (f : γ → γ)
    (rows : List (Row α β)) (qchr : List Int) (qphy : List α) : List (Option α) × List (GDist γ) :=
  let g := interpGenpos rows qchr qphy
  (g, (gdist1g qchr g).map (fun d => mapD f (d.map cast)))

/-- the variant metadata of a `DenseGeneticMappableMatrix` AS AN OBJECT: its label / position arrays and the group
    start indices `vrnt_chrgrp_stix` cached by `group_vrnt()` (`none` = the four metadata arrays are `None`).  Nothing
    forces the cache to describe `chr`: the `vrnt_chrgrp` setter re-assigns the labels and keeps it. -/
structure MatObj (α : Type) where
  chr : List Int
  phy : List α
  stix : Option (List Nat)

/-- `group_vrnt()` on arrays that are already in (chromosome, position) order (the sort itself is property C03):
    the cache becomes the start indices of the runs of equal labels -/
def MatObj.groupVrnt (m : MatObj α) : MatObj α :=
  { m with stix := some ((Np.uniqueRuns m.chr).map (·.2.1)) }

/-- `gmat.vrnt_chrgrp = labels`: the setter stores the array, the cached group metadata stay as they are -/
def MatObj.relabel (m : MatObj α) (chr : List Int) : MatObj α := { m with chr := chr }

/-- `interp_xoprob(gmap, gmapfn)` as a method: `is_grouped_vrnt()` only tests that the cache is present
    (`none` = ValueError "must be grouped first"); the chromosome starts come from the LABEL array the object holds
    at the time of the call (through `gdist1g`), never from the cache -/
def MatObj.interpXoprob {γ : Type} [Div γ] [OfNat γ 1] [OfNat γ 2] (cast : α → γ) (f : γ → γ)
    (rows : List (Row α β)) (m : MatObj α) : Option (List (Option α) × List (GDist γ)) :=
  if m.stix.isSome then some (GMap.interpXoprob cast f rows m.chr m.phy) else none

end queries

/-! ### the other piecewise spline kinds of `build_spline(kind=...)` (scipy `interp1d`, `fill_value="extrapolate"`)

`slinear` is the order-1 B-spline: the same function as `linear`.  The step kinds are transcribed from
scipy 1.18: `previous` / `next` use `searchsorted` on the knots (NaN before the first / after the last
knot), `zero` is the order-0 spline (previous knot, first knot below the range), `nearest` / `nearest-up`
use `searchsorted` on the midpoints (`side='left'` / `'right'`) clipped to the knot range.
Quadratic / cubic splines are not modelled. -/
section kinds
variable {α β : Type} [Add α] [Sub α] [Mul α] [Div α] [LT α] [DecidableLT α] [OfNat α 2]

inductive SplineKind where
  | linear | slinear | previous | next | zero | nearest | nearestUp
  deriving Repr, DecidableEq

/-- y of the last knot with `x_k ≤ x` -/
def stepPrev : List (α × α) → α → Option α
  | [], _ => none
  | p :: rest, x => if x < p.1 then none else
      match stepPrev rest x with
      | some y => some y
      | none => some p.2

/-- y of the first knot with `x ≤ x_k` -/
def stepNext : List (α × α) → α → Option α
  | [], _ => none
  | p :: rest, x => if p.1 < x then stepNext rest x else some p.2

/-- midpoints `(x[1:] + x[:-1]) / 2` -/
def midpoints : List (α × α) → List α
  | p0 :: p1 :: rest => (p1.1 + p0.1) / 2 :: midpoints (p1 :: rest)
  | _ => []

def interpKind (kind : SplineKind) (k : List (α × α)) (x : α) : Option α :=
  match kind with
  | .linear | .slinear => interpIdx k x
  | .previous => if k.length < 2 then none else stepPrev k x
  | .next => if k.length < 2 then none else stepNext k x
  | .zero => if k.length < 2 then none else
      match stepPrev k x with
      | some y => some y
      | none => k.head?.map Prod.snd
  | .nearest => if k.length < 2 then none else
      (k[((midpoints k).filter (fun m => decide (m < x))).length]?).map Prod.snd
  | .nearestUp => if k.length < 2 then none else
      (k[((midpoints k).filter (fun m => !decide (x < m))).length]?).map Prod.snd

/-- `interp_genpos` of a map whose spline was built with `kind` -/
def interpGenposK (kind : SplineKind) (rows : List (Row α β)) (qchr : List Int) (qphy : List α) :
    List (Option α) :=
  (qchr.zip qphy).map fun q => interpKind kind (knots rows q.1) q.2

end kinds

/-! ### the map object and its editing methods (`remove`, `select`, `remove_discrepancies`, `build_spline`)

The library keeps the interpolation spline as an attribute of its own: it is built from the stored arrays
by `build_spline` (constructor default) and is NOT rebuilt by `remove` / `select` / `remove_discrepancies`
(nor by `interp_gmap`, which hands a copy of it to the new object).  `spline` below is therefore the list of
rows the spline was last built from. -/
section object
variable {α β : Type} [Add α] [Sub α] [Mul α] [Div α] [LT α] [DecidableLT α]

/-- group metadata: (vrnt_chrgrp_name, stix, spix, len) per entry -/
abbrev Meta := List (Int × Nat × Nat × Nat)

/-- exceptions numpy raises when the metadata does not fit the arrays -/
inductive Err where
  | index        -- IndexError
  | value        -- ValueError (operands / assignment cannot be broadcast)
  deriving Repr, DecidableEq

structure MapObj (α β : Type) where
  /-- stored arrays (vrnt_chrgrp, vrnt_phypos, vrnt_genpos and the riding columns) -/
  rows : List (Row α β)
  /-- the four metadata arrays AS STORED (`none` = all four `None`); nothing forces them to describe `rows` -/
  gmeta : Option Meta
  /-- rows the spline was built from; `none` = no spline -/
  spline : Option (List (Row α β))

/-- `is_grouped()`: the four metadata arrays are present (their content is not looked at) -/
def MapObj.grouped (m : MapObj α β) : Bool := m.gmeta.isSome

/-- `__init__(..., auto_group, auto_build_spline)` -/
def MapObj.new (rows : List (Row α β)) (autoGroup : Bool := true) (autoSpline : Bool := true) : MapObj α β :=
  let r := if autoGroup then construct rows else rows
  { rows := r, gmeta := if autoGroup then some (groupMeta r) else none,
    spline := if autoSpline then some r else none }

/-- `group()`: sort, then recompute the metadata from the sorted label array -/
def MapObj.group (m : MapObj α β) : MapObj α β :=
  { m with rows := construct m.rows, gmeta := some (groupMeta (construct m.rows)) }

/-- `ungroup()` -/
def MapObj.ungroup (m : MapObj α β) : MapObj α β := { m with gmeta := none }

/-- `reorder(indices)`: fancy-index every array, then reset the four metadata arrays to `None` -/
def MapObj.reorder (m : MapObj α β) (idx : List Nat) : MapObj α β :=
  { m with rows := Np.take idx m.rows, gmeta := none }

/-- `sort()` with the default keys: `reorder(lexsort((genpos, phypos, chrgrp)))` — the arrays as the constructor
    stores them, the four metadata arrays reset to `None` (`sort(keys)` with explicit keys is `reorder` with the
    index array numpy.lexsort returns) -/
def MapObj.sort (m : MapObj α β) : MapObj α β := { m with rows := construct m.rows, gmeta := none }

/-- `key[i] <= key[j]`: the comparison of one stable argsort pass -/
def keyLe {κ : Type} [LT κ] [DecidableLT κ] (key : List κ) (i j : Nat) : Bool :=
  match key[i]?, key[j]? with
  | some a, some b => !decide (b < a)
  | _, _ => true

/-- `numpy.lexsort(keys)` as numpy performs it: starting from `arange(n)`, one stable argsort per key, from the FIRST
    key to the LAST (so the last key is the primary one) -/
def lexsortIdx {κ : Type} [LT κ] [DecidableLT κ] (keys : List (List κ)) (n : Nat) : List Nat :=
  keys.foldl (fun idx key => Np.stableSort (keyLe key) idx) (List.range n)

/-- `sort(keys)` with explicit keys (one array, or a tuple of arrays): `reorder(lexsort(keys))` -/
def MapObj.sortKeys {κ : Type} [LT κ] [DecidableLT κ] (m : MapObj α β) (keys : List (List κ)) : MapObj α β :=
  m.reorder (lexsortIdx keys m.rows.length)

/-- re-sort and re-group only "if GeneticMap was previously grouped" -/
def MapObj.regroup (m : MapObj α β) (r : List (Row α β)) : MapObj α β :=
  if m.grouped then { m with rows := construct r, gmeta := some (groupMeta (construct r)) }
  else { m with rows := r }

/-- `remove(indices)`: `numpy.delete` on every array -/
def MapObj.remove (m : MapObj α β) (idx : List Nat) : MapObj α β := m.regroup (Np.delete idx m.rows)

/-- `select(indices)` with an integer index array -/
def MapObj.select (m : MapObj α β) (idx : List Nat) : MapObj α β := m.regroup (Np.take idx m.rows)

/-- `select(mask)` with a boolean mask -/
def MapObj.selectMask (m : MapObj α β) (mask : List Bool) : MapObj α β := m.regroup (Np.compress mask m.rows)

/-- `congruence()` groups the map first if it is not grouped (in place) -/
def MapObj.ensureGrouped (m : MapObj α β) : MapObj α β := if m.grouped then m else m.group

/-- `remove_discrepancies()`: ONE pass — drop every marker whose genetic position is below that of its
    predecessor in the array as it stands.  (Closed form for objects whose metadata describes their arrays,
    `MapObj.MetaOk`; the literal loop over the stored metadata is `removeDiscrepanciesLit` below.) -/
def MapObj.removeDiscrepancies (m : MapObj α β) : MapObj α β :=
  let g := m.ensureGrouped
  let mask := congruence g.rows
  if mask.all id then g else g.selectMask mask

/-- `build_spline()` (linear, extrapolate) -/
def MapObj.buildSpline (m : MapObj α β) : MapObj α β := { m with spline := some m.rows }

/-- `interp_genpos`: `none` = "interpolation spline not built" (ValueError / RuntimeError); the
    `is_congruent()` warning check groups the map as a side effect.  (Closed form, see `interpGenposLit`.) -/
def MapObj.interpGenpos (m : MapObj α β) (qchr : List Int) (qphy : List α) :
    Option (List (Option α)) × MapObj α β :=
  match m.spline with
  | none => (none, m)
  | some k => (some (GMap.interpGenpos k qchr qphy), m.ensureGrouped)

/-- the one-pass step on plain rows (what `remove_discrepancies` does to the stored arrays) -/
def rdStep (rows : List (Row α β)) : List (Row α β) :=
  let s := construct rows
  let mask := congruence s
  if mask.all id then s else construct (Np.compress mask s)

/-! #### the loops over the STORED metadata, literally

`congruence()` does not look at the label array: it walks the stored `(stix, spix)` pairs.
```
out = numpy.zeros(len(self._vrnt_phypos), dtype='bool')
for st,sp in zip(self._vrnt_chrgrp_stix, self._vrnt_chrgrp_spix):
    out[st] = True
    out[st+1:sp] = self._vrnt_genpos[st:sp-1] <= self._vrnt_genpos[st+1:sp]
```
With `n` markers: `out[st]` raises IndexError when `n ≤ st`; for `st < n < sp` the two operands of `<=` have
lengths `n - st` and `n - st - 1` and the target slice `n - st - 1`: numpy broadcasts only when `n - st = 1`
(empty result), otherwise ValueError.  For `sp ≤ n` the loop body never fails — whatever the labels are. -/

/-- what one iteration writes: `out[st] = True`, `out[i] = genpos[i-1] <= genpos[i]` for `st < i < sp` -/
def congrWriteCell (rows : List (Row α β)) (st sp i : Nat) (old : Bool) : Bool :=
  if i = st then true
  else if st < i ∧ i < sp then
    (match rows[i - 1]?, rows[i]? with
     | some p, some r => !decide (r.gen < p.gen)
     | _, _ => old)
  else old

def congrWrite (rows : List (Row α β)) (out : List Bool) (st sp : Nat) : List Bool :=
  out.zipIdx.map fun oi => congrWriteCell rows st sp oi.2 oi.1

/-- one iteration for the run `[st, sp)` -/
def congrRun (rows : List (Row α β)) (out : List Bool) (st sp : Nat) : Except Err (List Bool) :=
  let n := rows.length
  if n ≤ st then .error .index
  else if n < sp ∧ 2 ≤ n - st then .error .value
  else .ok (congrWrite rows out st sp)

/-- the whole loop -/
def congruenceLit (rows : List (Row α β)) : Meta → List Bool → Except Err (List Bool)
  | [], out => .ok out
  | r :: rest, out =>
    match congrRun rows out r.2.1 r.2.2.1 with
    | .ok out' => congruenceLit rows rest out'
    | .error e => .error e

/-- `congruence()` on the object: group first if no metadata is stored, then the loop -/
def MapObj.congruenceLit (m : MapObj α β) : Except Err (List Bool × MapObj α β) :=
  let g := m.ensureGrouped
  match GMap.congruenceLit g.rows (g.gmeta.getD []) (List.replicate g.rows.length false) with
  | .ok c => .ok (c, g)
  | .error e => .error e

/-- `remove_discrepancies()` as written -/
def MapObj.removeDiscrepanciesLit (m : MapObj α β) : Except Err (MapObj α β) :=
  match m.congruenceLit with
  | .ok (mask, g) => .ok (if mask.all id then g else g.selectMask mask)
  | .error e => .error e

/-- `interp_genpos()` as written: `has_spline()`, then `is_congruent()` (which may raise), then the loop -/
def MapObj.interpGenposLit (m : MapObj α β) (qchr : List Int) (qphy : List α) :
    Except Err (Option (List (Option α)) × MapObj α β) :=
  match m.spline with
  | none => .ok (none, m)
  | some k =>
    match m.congruenceLit with
    | .ok (_, g) => .ok (some (GMap.interpGenpos k qchr qphy), g)
    | .error e => .error e

/-- rows of the map `interp_gmap` creates; `none` when a position is NaN (chromosome absent from the
    spline): such a map is outside this model -/
def derivedRows : List Int → List α → List β → List (Option α) → Option (List (Row α β))
  | c :: cs, x :: xs, t :: ts, g :: gs =>
    match g with
    | none => none
    | some y => (derivedRows cs xs ts gs).map (({ chr := c, phy := x, gen := y, tag := t } : Row α β) :: ·)
  | _, _, _, _ => some []

/-- `interp_gmap()` BEFORE the repair of D110 (kept for the record, see
    `C11.interp_gmap_stale_metadata_prerepair_counterexample`): the new object got the interpolated positions, a
    copy of the spline — and a copy of the PARENT's four metadata arrays, which describe the parent's arrays,
    not its own.  Result: (derived map, parent after the call); inner `none` = no spline / NaN positions. -/
def MapObj.interpGmapPrerepair (m : MapObj α β) (qchr : List Int) (qphy : List α) (tags : List β) :
    Except Err (Option (MapObj α β × MapObj α β)) :=
  match m.interpGenposLit qchr qphy with
  | .error e => .error e
  | .ok (none, _) => .ok none
  | .ok (some gen, m') =>
    match derivedRows qchr qphy tags gen with
    | none => .ok none
    | some rows => .ok (some ({ rows := rows, gmeta := m'.gmeta, spline := m'.spline }, m'))

/-- `interp_gmap()` as it is now: `interp_genpos` on the parent (which may group the parent as a side effect
    and, on a parent with metadata that does not fit, raise), then a constructor call with
    `auto_group = False, auto_build_spline = False`: the new object holds the queried labels / positions in
    the order given, the interpolated genetic positions, a copy of the parent's spline, and NO group
    metadata (the constructor sets the four arrays to `None`; nothing is copied from the parent).
    Result: (derived map, parent after the call); inner `none` = no spline / NaN positions. -/
def MapObj.interpGmap (m : MapObj α β) (qchr : List Int) (qphy : List α) (tags : List β) :
    Except Err (Option (MapObj α β × MapObj α β)) :=
  match m.interpGenposLit qchr qphy with
  | .error e => .error e
  | .ok (none, _) => .ok none
  | .ok (some gen, m') =>
    match derivedRows qchr qphy tags gen with
    | none => .ok none
    | some rows => .ok (some ({ rows := rows, gmeta := none, spline := m'.spline }, m'))

/-- re-assignment of `vrnt_phypos` / `vrnt_genpos` through the property setters: the arrays change, the
    metadata and the spline stay -/
def MapObj.assign (m : MapObj α β) (rows : List (Row α β)) : MapObj α β := { m with rows := rows }

/-- the exception a call ends in (`none` = it returns) -/
def errOf {γ : Type} : Except Err γ → Option Err
  | .error e => some e
  | .ok _ => none

/-- the object a call of `interp_gmap` returns (`none` = it raised, or is outside the model) -/
def derivedOf (r : Except Err (Option (MapObj α β × MapObj α β))) : Option (MapObj α β) :=
  match r with
  | .ok (some (d, _)) => some d
  | _ => none

/-- the stored metadata describes the stored arrays (what every method maintains; before the repair of D110
    `interp_gmap` did not) -/
def MapObj.MetaOk (m : MapObj α β) : Prop := ∀ mt, m.gmeta = some mt → mt = groupMeta m.rows

end object

/-! ### `ExtendedGeneticMap.prune(nt, M)`: thinning to a target spacing

Transcribed literally; generic in the scalar so that the driver runs it in `Float` (the decisions
`position[i] >= target`, `downstream < upstream` are taken on accumulated floats: bit-for-bit the Python
arithmetic) while the structural theorems (`Lemmas/GMapPrune`) hold for any scalar and any outcome of
those comparisons.  Index lists are kept in reverse (`indices[-1]` = head). -/
section prune

class HasCeil (α : Type) where ceil : α → α
/-- `float(int(math.ceil x))`: the integer conversion drops the sign of a zero -/
instance : HasCeil Float := ⟨fun x => let c := Float.ceil x; if c == 0 then 0 else c⟩
instance : HasCeil Rat := ⟨fun q => ((q.ceil : Int) : Rat)⟩

variable {α : Type} [Add α] [Sub α] [Div α] [LT α] [DecidableLT α] [LE α] [DecidableLE α] [HasCeil α]

/-- `indices.append(ix)` unless `ix == indices[-1]` -/
def pushNew (ix : Nat) (acc : List Nat) : List Nat := if acc.head? = some ix then acc else ix :: acc

/-- `for i in range(i, i + fuel): if position[i] >= target: ...; target += step` -/
def pruneLoop (pos : Nat → α) (step : α) : Nat → Nat → α → List Nat → List Nat
  | 0, _, _, acc => acc
  | fuel + 1, i, target, acc =>
    if target ≤ pos i then
      let downstream := target - pos (i - 1)
      let upstream := pos i - target
      let ix := if downstream < upstream then i - 1 else i
      pruneLoop pos step fuel (i + 1) (target + step) (pushNew ix acc)
    else pruneLoop pos step fuel (i + 1) target acc

/-- `step = dist / int(math.ceil(dist / spacing))` -/
def pruneStep (dist spacing : α) : α := dist / HasCeil.ceil (dist / spacing)

/-- first pass, one chromosome `[st, sp)`: first marker, markers nearest to the targets, last marker -/
def pruneRun (pos : Nat → α) (spacing : α) (acc : List Nat) (run : Nat × Nat) : List Nat :=
  let st := run.1
  let sp := run.2
  let step := pruneStep (pos (sp - 1) - pos st) spacing
  pushNew (sp - 1) (pruneLoop pos step (sp - (st + 1)) (st + 1) (pos st + step) (st :: acc))

def prunePass1 (pos : Nat → α) (spacing : α) (runs : List (Nat × Nat)) : List Nat :=
  (runs.foldl (pruneRun pos spacing) []).reverse

/-- second pass (`M` and `nt` both given): fill physical gaps wider than `nt` between selected neighbours -/
def prunePair (chr : Nat → Int) (phy : Nat → α) (nt : α) (acc : List Nat) (ud : Nat × Nat) : List Nat :=
  let up := ud.1
  let down := ud.2
  let acc := up :: acc
  if chr up = chr down then
    let dist := phy down - phy up
    if nt < dist then
      let step := pruneStep dist nt
      pruneLoop phy step (down - (up + 1)) (up + 1) (phy up + step) acc
    else acc
  else acc

def prunePass2 (chr : Nat → Int) (phy : Nat → α) (nt : α) (indices : List Nat) : List Nat :=
  match indices.getLast? with
  | none => []
  | some last => (last :: (indices.zip indices.tail).foldl (prunePair chr phy nt) []).reverse

/-- the index array handed to `select`: `nt` only, `M` only, or both (`runs` = (stix, spix) of the
    grouped map, `gen`/`phy`/`chr` = its arrays) -/
def pruneIndices (chr : Nat → Int) (phy gen : Nat → α) (runs : List (Nat × Nat)) (nt M : Option α) :
    Option (List Nat) :=
  match nt, M with
  | none, none => none                                   -- ValueError
  | some n, none => some (prunePass1 phy n runs)
  | none, some m => some (prunePass1 gen m runs)
  | some n, some m => some (prunePass2 chr phy n (prunePass1 gen m runs))

end prune

end GMap
