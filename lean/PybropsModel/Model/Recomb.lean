/-
Model for C02 (realised recombination and segregation match the crossover probabilities).

* `matMeiosis` / `matDH` / `matMate` transcribe pybrops/breed/prot/mate/util.py:mat_meiosis, mat_dh,
  mat_mate and their twins pybrops/core/util/mate.py:dense_meiosis, dense_dh, dense_cross
  (the six bodies are textually identical).  The random draws `rng.uniform(0, 1, (nsel, nvrnt))`
  are an explicit argument (one matrix per meiosis).
* `gdist1g` / `rprob1g` transcribe StandardGeneticMap.gdist1g / <MapFunction>.rprob1g
  (distance to the previous marker, +inf at the first marker of every chromosome, which every
  map function of the library sends to 1/2).
* `E` is the law of the crossover mask: expectation of a function of the mask under independent
  Bernoulli(x_k) indicators, by recursion on the probability list (= the exhaustive enumeration of
  all 2^m masks with their weights).  `Edraw` is the same expectation taken one level lower, over
  the uniform draws themselves (finite grid of equally likely values, compared with `<`).
* `pairProb`, `phaseProb`, `patProb` are the closed forms the theorems of Props/C02 prove equal
  to the enumeration.

Core Lean only; executed at `Rat` by the driver.
-/
import PybropsModel.Np

namespace Recomb

/-! ### the meiosis loop -/
section meiosis
variable {α : Type} {β : Type} [LT β] [DecidableLT β]

/-- `rnd[i] < xoprob` (strict comparison, element by element) -/
def xoMask : List β → List β → List Bool
  | r :: rs, x :: xs => decide (r < x) :: xoMask rs xs
  | _, _ => []

/-- literal transcription of the segment-copy loop for one gamete:
    `for spix in xoix: gamete[i,stix:spix] = geno[phase,s,stix:spix]; stix = spix; phase = 1 - phase`
    followed by `gamete[i,stix:] = geno[phase,s,stix:]`.  `h0`, `h1` are the two chromosome copies
    `geno[0,s,:]`, `geno[1,s,:]`; the `Bool` is `phase`. -/
def segLoop (h0 h1 : List α) : Nat → Bool → List Nat → List α
  | stix, ph, [] => (if ph then h1 else h0).drop stix
  | stix, ph, sp :: rest =>
      ((if ph then h1 else h0).drop stix).take (sp - stix) ++ segLoop h0 h1 sp (!ph) rest

/-- one gamete of `mat_meiosis`: `xoix = flatnonzero(rnd[i] < xoprob)`, `phase = 0`, `stix = 0`, loop -/
def meiosisRow (h0 h1 : List α) (r xo : List β) : List α :=
  segLoop h0 h1 0 false (Np.flatnonzero (xoMask r xo))

/-- running phase: the copy in use at marker j is the parity of the crossovers at markers 0..j
    (a crossover *at* j switches before j is copied) -/
def phasesFrom : Bool → List Bool → List Bool
  | _, [] => []
  | ph, b :: bs => (xor ph b) :: phasesFrom (xor ph b) bs

/-- phases of a gamete that starts (before marker 0) on copy 0 -/
def phases (mask : List Bool) : List Bool := phasesFrom false mask

/-- per-marker mosaic: cell j comes from copy `phs[j]` -/
def mosaic : List Bool → List α → List α → List α
  | p :: ps, a0 :: r0, a1 :: r1 => (if p then a1 else a0) :: mosaic ps r0 r1
  | _, _, _ => []

/-- `mat_meiosis(geno, sel, xoprob, rng)` with `rnd` the matrix returned by the single call
    `rng.uniform(0, 1, (len(sel), len(xoprob)))`.  `geno[phase][taxon][marker]`.
    Rejected (the real code raises or broadcasts wrongly): fewer than two phases, an index of `sel`
    out of range, chromosome copies whose length differs from `len(xoprob)`, draws of another shape. -/
def matMeiosis (geno : List (List (List α))) (sel : List Nat) (xo : List β) (rnd : List (List β)) :
    Except String (List (List α)) :=
  match geno with
  | g0 :: g1 :: _ =>
    if rnd.length != sel.length then .error "draws" else
    (List.zip sel rnd).mapM (fun sr =>
      match g0[sr.1]?, g1[sr.1]? with
      | some h0, some h1 =>
        if h0.length != xo.length || h1.length != xo.length then .error "shape"
        else if sr.2.length != xo.length then .error "draws"
        else .ok (meiosisRow h0 h1 sr.2 xo)
      | _, _ => .error "index")
  | _ => .error "shape"

/-- `mat_dh`: `stack([gamete, gamete])` -/
def matDH (geno : List (List (List α))) (sel : List Nat) (xo : List β) (rnd : List (List β)) :
    Except String (List (List (List α))) := do
  let g ← matMeiosis geno sel xo rnd
  pure [g, g]

/-- `mat_mate`: female gametes from the first `uniform` call, male gametes from the second -/
def matMate (fgeno mgeno : List (List (List α))) (fsel msel : List Nat) (xo : List β)
    (rndF rndM : List (List β)) : Except String (List (List (List α))) := do
  let f ← matMeiosis fgeno fsel xo rndF
  let m ← matMeiosis mgeno msel xo rndM
  pure [f, m]

end meiosis

/-! ### the Spec oracle evaluated on observed gametes -/
section spec
variable {β : Type} [LT β] [DecidableLT β] [DecidableEq β] [OfNat β 0]

/-- switches of an observed copy sequence (the gamete is on copy 0 before marker 0) -/
def toggles : Bool → List Bool → List Bool
  | _, [] => []
  | prev, p :: ps => (xor prev p) :: toggles p ps

/-- one marker: the copy switches when the gamete's own draw is below the stored probability and
    does not switch when it is above; on an exact tie `r = x` no switch may happen where the stored
    probability is 0 (a tie with x > 0 has probability zero: left to the correspondence check) -/
def specCell (t : Bool) (r x : β) : Bool :=
  if r < x then t else if x < r then !t else (!(x = 0) || !t)

/-- one gamete: observed copies `lab`, its draws `r`, the stored probabilities `xo` -/
def specRow (lab : List Bool) (r xo : List β) : Bool :=
  lab.length == xo.length && r.length == xo.length &&
  (List.zip (toggles false lab) (List.zip r xo)).all (fun t => specCell t.1 t.2.1 t.2.2)

end spec

/-! ### the Spec oracle when provenance is only partly observable

A partly inbred parent carries the same allele on both chromosome copies at some markers; there the copy a
gamete cell came from cannot be read off.  `obs[j] = some p`: the cell at marker j is seen to come from
copy p; `none`: both copies carry that allele.  The oracle tracks the SET of copies the gamete can be on
(a pair of flags: "can be on copy 0", "can be on copy 1"): the comparison of the gamete's own draw with the
stored probability moves the set (hit: swap; miss: stay; exact tie with a positive probability — an event of
probability zero — either), an observation intersects it.  The row passes iff the set never becomes empty.
With every marker observed this is `specRow` (theorem `specRowObs_all_observed`). -/
section specobs
variable {β : Type} [LT β] [DecidableLT β] [DecidableEq β] [OfNat β 0]

/-- the set of possible copies after the comparison at one marker -/
def nfaMove (s : Bool × Bool) (r x : β) : Bool × Bool :=
  if r < x then (s.2, s.1) else if x < r then s else if x = 0 then s else (s.1 || s.2, s.1 || s.2)

/-- intersect with what is seen at the marker -/
def nfaSee (s : Bool × Bool) : Option Bool → Bool × Bool
  | none => s
  | some false => (s.1, false)
  | some true => (false, s.2)

def specObsFrom : Bool × Bool → List (Option Bool) → List β → List β → Bool
  | s, [], [], [] => s.1 || s.2
  | s, o :: os, r :: rs, x :: xs => specObsFrom (nfaSee (nfaMove s r x) o) os rs xs
  | _, _, _, _ => false

/-- one gamete with partly observable provenance (the gamete is on copy 0 before marker 0) -/
def specRowObs (obs : List (Option Bool)) (r xo : List β) : Bool := specObsFrom (true, false) obs r xo

/-- what can be seen of a copy sequence `lab` in a parent that is heterozygous exactly where `het` is true -/
def seen : List Bool → List Bool → List (Option Bool)
  | h :: hs, p :: ps => (if h then some p else none) :: seen hs ps
  | _, _ => []

end specobs

/-! ### reading provenance off a gamete -/
section observe
variable {α : Type} [BEq α]

/-- markers at which the two copies of the parent differ -/
def hetMask : List α → List α → List Bool
  | a :: r0, b :: r1 => (!(a == b)) :: hetMask r0 r1
  | _, _ => []

/-- what can be seen of the copies a gamete `g` was read from: cell j must be one of the two parental cells at
    j; where they differ the copy is seen (`some`), where the parent is homozygous it is not (`none`); the
    whole result is `none` when a cell is neither parental allele or the lengths differ -/
def observeRow : List α → List α → List α → Option (List (Option Bool))
  | [], [], [] => some []
  | a :: r0, b :: r1, c :: g =>
    match (if a == b then (if c == a then some none else none)
           else if c == a then some (some false) else if c == b then some (some true) else none),
          observeRow r0 r1 g with
    | some o, some os => some (o :: os)
    | _, _ => none
  | _, _, _ => none

end observe

/-! ### the second copy of the code: pybrops/core/util/mate.py and its use by the EMBV matrix -/
section dense
variable {α : Type} {β : Type} [LT β] [DecidableLT β]

/-- literal transcription of the loop of `dense_meiosis` (core/util/mate.py l.66-80): the same statements
    as `mat_meiosis`, kept as a definition of its own so that the duplicate is tied to the source by its
    own correspondence run and to `segLoop` by a theorem (`denseSegLoop_eq_segLoop`) -/
def denseSegLoop (h0 h1 : List α) : Nat → Nat → List Nat → List α
  | stix, phase, [] => (if phase = 1 then h1 else h0).drop stix
  | stix, phase, spix :: rest =>
      ((if phase = 1 then h1 else h0).drop stix).take (spix - stix) ++ denseSegLoop h0 h1 spix (1 - phase) rest

/-- one gamete of `dense_meiosis`: `xoix = flatnonzero(rnd[i] < xoprob); phase = 0; stix = 0` -/
def denseRow (h0 h1 : List α) (r xo : List β) : List α :=
  denseSegLoop h0 h1 0 0 (Np.flatnonzero (xoMask r xo))

/-- `dense_meiosis(geno, sel, xoprob, rng)` -/
def denseMeiosis (geno : List (List (List α))) (sel : List Nat) (xo : List β) (rnd : List (List β)) :
    Except String (List (List α)) :=
  match geno with
  | g0 :: g1 :: _ =>
    if rnd.length != sel.length then .error "draws" else
    (List.zip sel rnd).mapM (fun sr =>
      match g0[sr.1]?, g1[sr.1]? with
      | some h0, some h1 =>
        if h0.length != xo.length || h1.length != xo.length then .error "shape"
        else if sr.2.length != xo.length then .error "draws"
        else .ok (denseRow h0 h1 sr.2 xo)
      | _, _ => .error "index")
  | _ => .error "shape"

/-- `dense_dh` -/
def denseDH (geno : List (List (List α))) (sel : List Nat) (xo : List β) (rnd : List (List β)) :
    Except String (List (List (List α))) := do
  let g ← denseMeiosis geno sel xo rnd
  pure [g, g]

/-- `dense_cross` -/
def denseCross (fgeno mgeno : List (List (List α))) (fsel msel : List Nat) (xo : List β)
    (rndF rndM : List (List β)) : Except String (List (List (List α))) := do
  let f ← denseMeiosis fgeno fsel xo rndF
  let m ← denseMeiosis mgeno msel xo rndM
  pure [f, m]

/-- the replicate loop of `DenseExpectedMaximumBreedingValueMatrix.from_gmod` for taxon `i`:
    `for j in range(nrep[i]): mat = dense_dh(geno, numpy.repeat(i, nprogeny[i]), vrnt_xoprob, global_prng)`;
    returns the doubled-haploid matrices in call order and the draws not yet consumed -/
def embvTaxon (geno : List (List (List α))) (xo : List β) (i np : Nat) :
    Nat → List (List (List β)) → Except String (List (List (List (List α))) × List (List (List β)))
  | 0, d => .ok ([], d)
  | _ + 1, [] => .error "draws"
  | k + 1, r :: d => do
    let m ← denseDH geno (List.replicate np i) xo r
    let (ms, d') ← embvTaxon geno xo i np k d
    pure (m :: ms, d')

/-- the taxon loop of `from_gmod`: `for i in range(ntaxa)` with `nprogeny[i]`, `nrep[i]` -/
def embvFrom (geno : List (List (List α))) (xo : List β) :
    Nat → List Nat → List Nat → List (List (List β)) →
      Except String (List (List (List (List α))) × List (List (List β)))
  | _, [], [], d => .ok ([], d)
  | i, np :: nps, nr :: nrs, d => do
    let (ms, d') ← embvTaxon geno xo i np nr d
    let (rest, d'') ← embvFrom geno xo (i + 1) nps nrs d'
    pure (ms ++ rest, d'')
  | _, _, _, _ => .error "shape"

/-- all doubled haploids generated by `from_gmod`; every recorded draw matrix must be consumed -/
def embvDH (geno : List (List (List α))) (xo : List β) (nprogeny nrep : List Nat)
    (draws : List (List (List β))) : Except String (List (List (List (List α)))) := do
  let (ms, rest) ← embvFrom geno xo 0 nprogeny nrep draws
  if rest.isEmpty then pure ms else .error "draws"

end dense

/-! ### how many draw matrices a mating protocol requests -/

/-- row counts of the successive `rng.uniform(0, 1, (rows, nvrnt))` calls made by `<Protocol>.mate()`:
    `M = Σ nmating`, `N = Σ nmating·nprogeny`; every `mat_mate` makes two calls (female gametes, male
    gametes), every `mat_dh` one; `nself` selfing generations add one `mat_mate` each. -/
def protoCalls (proto : String) (M N nself : Nat) : Option (List Nat) :=
  let selfs (k : Nat) : List Nat := (List.replicate nself [k, k]).flatten
  match proto with
  | "SelfCross" => some ([N, N] ++ selfs N)
  | "TwoWayCross" => some ([N, N] ++ selfs N)
  | "TwoWayDHCross" => some ([M, M] ++ selfs M ++ [N])
  | "ThreeWayCross" => some ([M, M, N, N] ++ selfs N)
  | "ThreeWayDHCross" => some ([M, M, M, M] ++ selfs M ++ [N])
  | "FourWayCross" => some ([M, M, M, M, N, N] ++ selfs N)
  | "FourWayDHCross" => some ([M, M, M, M, M, M] ++ selfs M ++ [N])
  | _ => none

/-- row counts of the `uniform` calls of `DenseExpectedMaximumBreedingValueMatrix.from_gmod`: for every
    taxon in order, `nrep[i]` calls of `dense_dh` with `nprogeny[i]` gametes each -/
def embvCalls : List Nat → List Nat → List Nat
  | p :: ps, r :: rs => List.replicate r p ++ embvCalls ps rs
  | _, _ => []

/-! ### crossover probabilities from a genetic map -/
section gmap
variable {α : Type} [Sub α]

/-- body of the per-chromosome loop of `gdist1g` in one pass: `c0`, `p0` = previous marker -/
def gdistFrom : Int → α → List Int → List α → List (Option α)
  | c0, p0, c :: cs, p :: ps => (if c = c0 then some (p - p0) else none) :: gdistFrom c p cs ps
  | _, _, _, _ => []

/-- `StandardGeneticMap.gdist1g(vrnt_chrgrp, vrnt_genpos)` for chromosome labels that are grouped
    (documented precondition: sorted): `none` = `numpy.inf` at the first marker of a chromosome,
    otherwise the distance to the previous marker -/
def gdist1g : List Int → List α → List (Option α)
  | c :: cs, p :: ps => none :: gdistFrom c p cs ps
  | _, _ => []

/-- genetic distances between the successive markers i, i+1, …, j:
    `[pos[i+1]-pos[i], …, pos[j]-pos[j-1]]` -/
def adjDists (pos : List α) (i j : Nat) : List α :=
  (List.zipWith (fun a b => b - a) (pos.drop i) (pos.drop (i + 1))).take (j - i)

variable [Div α] [OfNat α 1] [OfNat α 2]

/-- a map function extended to `numpy.inf`: `mapfn(inf) = 0.5` for Haldane (`0.5*(1-exp(-inf))`)
    and Kosambi (`0.5*tanh(inf)`) -/
def mapOpt (mapfn : α → α) : Option α → α
  | none => 1 / 2
  | some d => mapfn d

/-- `<MapFunction>.rprob1g = mapfn(gdist1g(...))` -/
def rprob1g (mapfn : α → α) (chr : List Int) (pos : List α) : List α :=
  (gdist1g chr pos).map (mapOpt mapfn)

/-! Spec oracle evaluated on the crossover probabilities the implementation stores (driver op
    `c02.spec_starts`; `none` = a value that is not a finite number): exactly 1/2 at marker 0 and at every
    marker whose chromosome label differs from its predecessor's, one value per marker. -/
def specStartsFrom [DecidableEq α] : Int → List Int → List (Option α) → Bool
  | c0, c :: cs, x :: xs => (decide (c = c0) || x == some (1 / 2)) && specStartsFrom c cs xs
  | _, [], [] => true
  | _, _, _ => false

def specStarts [DecidableEq α] : List Int → List (Option α) → Bool
  | c :: cs, x :: xs => x == some (1 / 2) && specStartsFrom c cs xs
  | [], [] => true
  | _, _ => false

end gmap

/-! ### the law of the crossover mask and the closed forms -/
section law
variable {α : Type} [Add α] [Mul α] [Sub α] [OfNat α 1]

/-- expectation of `F` over independent Bernoulli(x_k) crossover indicators -/
def E : List α → (List Bool → α) → α
  | [], F => F []
  | x :: xs, F => (1 - x) * E xs (fun b => F (false :: b)) + x * E xs (fun b => F (true :: b))

/-- `1 - 2x` -/
def dfac (x : α) : α := 1 - (x + x)

/-- `Π (1 - 2 x_k)` -/
def prodD : List α → α
  | [] => 1
  | x :: xs => dfac x * prodD xs

variable [OfNat α 0]

/-- indicator -/
def ind (c : Bool) : α := if c then 1 else 0

/-- probability of a crossover pattern on a subset of intervals:
    `Π_{k ∈ K} (if p_k then x_k else 1 - x_k)` -/
def patProb : List Bool → List Bool → List α → α
  | k :: K, p :: ps, x :: xs => (if k then (if p then x else 1 - x) else 1) * patProb K ps xs
  | _, _, _ => 1

/-- the mask agrees with pattern `p` on the intervals selected by `K` -/
def agree : List Bool → List Bool → List Bool → Bool
  | k :: K, p :: ps, b :: bs => (!k || b == p) && agree K ps bs
  | _, _, _ => true

/-- odd number of crossovers among the intervals selected by `K` -/
def parityOn : List Bool → List Bool → Bool
  | k :: K, b :: bs => xor (k && b) (parityOn K bs)
  | _, _ => false

/-- `Π_{k ∈ K} (1 - 2 x_k)` -/
def prodDOn : List Bool → List α → α
  | k :: K, x :: xs => (if k then dfac x else 1) * prodDOn K xs
  | _, _ => 1

/-- exclusive-or of a list of indicators (odd number of crossovers) -/
def xorAll : List Bool → Bool
  | [] => false
  | b :: bs => xor b (xorAll bs)

variable [Div α] [OfNat α 2]

/-- probability that an odd number of crossovers falls in a block of intervals -/
def oddProb (xs : List α) : α := (1 - prodD xs) / 2

/-- closed form: markers i < j come from different parental copies -/
def pairProb (xs : List α) (i j : Nat) : α := oddProb ((xs.drop (i + 1)).take (j - i))

/-- closed form: two independent gametes carry the same parental copy at every marker
    (`Π (x_k² + (1 - x_k)²)`: no crossover in either or a crossover in both, interval by interval) -/
def sameProb : List α → α
  | [] => 1
  | x :: xs => (x * x + (1 - x) * (1 - x)) * sameProb xs

/-- closed form: marker j comes from copy 1 -/
def phaseProb (xs : List α) (j : Nat) : α := oddProb (xs.take (j + 1))

/-! ### two generations: a gamete of an individual whose own two copies are independent gametes of one
    (grand)parent — a selfed progeny of a selfed plant, a doubled haploid of a selfed hybrid, … -/

/-- which copy of the grandparent is carried at marker k: the last meiosis (mask `a`) reads copy
    `phases a [k]` of the parent, and that copy is itself the gamete with mask `b0` (copy 0) or `b1`
    (copy 1) of the grandparent -/
def lab2 (a b0 b1 : List Bool) (k : Nat) : Bool :=
  if (phases a).getD k false then (phases b1).getD k false else (phases b0).getD k false

/-- closed form: markers i < j of such a gamete carry different grandparental copies.  With
    `r = pairProb i j`, `u = phaseProb i`, `v = phaseProb j`: both markers read the same parental copy
    (probability 1 - r) and that copy recombined (r), or they read different parental copies (r), which are
    independent gametes (u (1 - v) + (1 - u) v) -/
def pairProb2 (xs : List α) (i j : Nat) : α :=
  (1 - pairProb xs i j) * pairProb xs i j +
  pairProb xs i j * (phaseProb xs i * (1 - phaseProb xs j) + (1 - phaseProb xs i) * phaseProb xs j)

/-! ### any number of selfing generations

A founder plant with chromosome copies 0 and 1 is selfed `n` times (`selfGens`: in every generation both copies
of the plant are gametes of the plant of the previous generation, each under its own draws).  The crossover masks
of the `2n` meioses of one line are laid side by side, OLDEST generation first (the order in which `mate()`
draws them): `b = a0 ++ a1 ++ rest`, `a0` / `a1` = masks of the gametes that became copy 0 / copy 1 of the
generation-1 plant, `rest` = the masks of the `n - 1` later generations. -/

/-- which copy of the founder is carried at marker `k` by copy `c` of the plant after `n` selfing generations
    (`m` markers): relative to the generation-1 plant the cell sits on its copy `x = labO (n-1) rest c k`, and
    that copy is the founder's gamete under mask `a_x` -/
def labO (m : Nat) : Nat → List Bool → Bool → Nat → Bool
  | 0, _, c, _ => c
  | n + 1, b, c, k =>
      (phases (if labO m n (b.drop (m + m)) c k then (b.drop m).take m else b.take m)).getD k false

/-- a gamete (a doubled haploid, the next generation's chromosome copy) of the plant after `n` selfing
    generations: the gamete's own mask first, then the `2n` masks of the plant's line as in `labO` -/
def labDH (m n : Nat) (b : List Bool) (k : Nat) : Bool :=
  labO m n (b.drop m) ((phases (b.take m)).getD k false) k

/-- one selfing generation seen from the founder: if the cells at two markers sit on different copies of the
    generation-1 plant with probability `x`, they carry different founder copies with probability
    `r (1 - x) + w x` (`r`: the two markers recombine within one gamete; `w`: two independent gametes of the
    founder differ at the two markers) -/
def selfStep (r w x : α) : α := r * (1 - x) + w * x

/-- `n` generations -/
def selfIter (r w : α) : Nat → α → α
  | 0, x => x
  | n + 1, x => selfStep r w (selfIter r w n x)

/-- two independent gametes: the first carries copy 1 at i xor the second carries copy 1 at j -/
def crossProb (xs : List α) (i j : Nat) : α :=
  phaseProb xs i * (1 - phaseProb xs j) + (1 - phaseProb xs i) * phaseProb xs j

/-- closed form: after `n` selfing generations, markers i < j of ONE chromosome copy of the plant carry
    different founder copies -/
def pairProbN (xs : List α) (i j n : Nat) : α := selfIter (pairProb xs i j) (crossProb xs i j) n 0

/-- closed form: marker i of copy 0 and marker j of copy 1 of the SAME plant carry different founder copies -/
def crossProbN (xs : List α) (i j n : Nat) : α := selfIter (pairProb xs i j) (crossProb xs i j) n 1

/-- expectation over the uniform draws themselves: every draw takes each value of `pts` with equal
    weight, independently per marker, and is compared with `<` against the stored probability -/
def Edraw [LT α] [DecidableLT α] [NatCast α] (pts : List α) : List α → (List Bool → α) → α
  | [], F => F []
  | x :: xs, F =>
      Np.sum (pts.map (fun r => Edraw pts xs (fun b => F (decide (r < x) :: b)))) / (pts.length : α)

/-- the grid `{0, 1/N, …, (N-1)/N}` (numpy's `random_sample` has `N = 2^53`) -/
def gridPts [NatCast α] (N : Nat) : List α := (List.range N).map (fun (k : Nat) => (k : α) / (N : α))

/-! ### n independent meioses -/

/-- crossover probabilities of `n` independent meioses on the same vector (`xs` repeated `n` times;
    the masks of the n gametes are concatenated) -/
def rep : Nat → List α → List α
  | 0, _ => []
  | n + 1, xs => xs ++ rep n xs

/-- sum over the `n` gametes of a statistic `g` of each gamete's own mask (`m` markers per gamete) -/
def blockSum (m : Nat) (g : List Bool → α) : Nat → List Bool → α
  | 0, _ => 0
  | n + 1, b => g (b.take m) + blockSum m g n (b.drop m)

/-- proportion of the `n` gametes showing the event with indicator `g` -/
def proportion [NatCast α] (m : Nat) (g : List Bool → α) (n : Nat) (b : List Bool) : α :=
  blockSum m g n b / (n : α)

end law

/-! ### the plant after n selfing generations, cell by cell -/
section gens
variable {γ : Type}

/-- the two chromosome copies of the plant after `n` selfing generations of a founder with copies `g0`, `g1`
    (`m` markers; crossover masks oldest generation first, two per generation: `labO`'s layout) -/
def selfMosaic (m : Nat) : Nat → List γ → List γ → List Bool → List γ × List γ
  | 0, g0, g1, _ => (g0, g1)
  | n + 1, g0, g1, b =>
      selfMosaic m n (mosaic (phases (b.take m)) g0 g1) (mosaic (phases ((b.drop m).take m)) g0 g1)
        (b.drop (m + m))

end gens

end Recomb
