/-
Object graphs and `copy.deepcopy` (C16, round 2).

A heap of cells — numpy buffers, Python dictionaries, instances of the pybrops classes, external
resources — with references between them; `copy.deepcopy(x, memo)` as Python runs it together with
the classes' own `__deepcopy__` methods: an instance is copied by deep-copying its attributes one by
one and building a new instance from the results (the classes do not register the new instance in
`memo`); an array is copied into a fresh buffer and registered in `memo`, so two references to one
array stay two references to one (new) array; a dictionary likewise.  Three attributes deviate, and
the table `attrMode` records them from the source:
  * `DenseBreedingValueMatrix.__deepcopy__` calls `copy.deepcopy(self.location)` and
    `copy.deepcopy(self.scale)` *without* `memo` (l.163-190): each with a private memo;
  * `G_E_Phenotyping.__deepcopy__` hands over `rng = self.rng` ("should not be copied", l.150-183):
    the random source is shared on purpose — it is an external resource, not object state.

What stays trusted: `numpy.ndarray.__deepcopy__` returns a fresh buffer with equal contents, and the
order in which Python numbers new objects (addresses are compared only up to renaming).
Heaps are acyclic: every reference inside cell `a` points below `a` (objects are built from parts).
Core Lean only.
-/
import PybropsModel.Model.Store

namespace StoreGraph
open Store (DS)

abbrev Addr := Nat

inductive Ref
  | none
  | imm (d : DS)            -- int, float, str: immutable
  | ptr (a : Addr)
  deriving DecidableEq, Repr, Inhabited

inductive Cell
  | arr (d : DS)
  | dict (kvs : List (String × Ref))
  | obj (cls : String) (attrs : List (String × Ref))
  | ext (name : String)     -- e.g. a random generator
  deriving DecidableEq, Repr, Inhabited

abbrev Heap := List Cell

def kids : Cell → List (String × Ref)
  | .dict kvs => kvs
  | .obj _ attrs => attrs
  | _ => []

/-- how a class's `__deepcopy__` treats an attribute -/
inductive Mode | deep | deepNoMemo | shared
  deriving DecidableEq, Repr, Inhabited

def attrMode (cls attr : String) : Mode :=
  if cls == "bvmat" && (attr == "location" || attr == "scale") then .deepNoMemo
  else if cls == "ge" && attr == "rng" then .shared
  else .deep

structure St where
  heap : Heap
  memo : List (Addr × Addr)
  deriving Repr, Inhabited

/-- copy the values of a dictionary / the attributes of an instance, left to right -/
def copyList (f : St → Ref → St × Ref) : St → List (String × Ref) → St × List (String × Ref)
  | st, [] => (st, [])
  | st, (k, r) :: rest =>
    let (st1, r') := f st r
    let (st2, rest') := copyList f st1 rest
    (st2, (k, r') :: rest')

/-- the attributes of an instance of `cls`, each according to its mode; `priv = true` is the call
    `x.deepcopy()` / `x.__deepcopy__(None)`: every `copy.deepcopy(attr, None)` then starts a memo of
    its own, so aliasing *between* attributes is not carried over -/
def copyAttrs (cls : String) (priv : Bool) (f : St → Ref → St × Ref) :
    St → List (String × Ref) → St × List (String × Ref)
  | st, [] => (st, [])
  | st, (k, r) :: rest =>
    let (st1, r') :=
      match (if priv && attrMode cls k == .deep then Mode.deepNoMemo else attrMode cls k) with
      | .deep => f st r
      | .deepNoMemo => let (s', r') := f { st with memo := [] } r; ({ s' with memo := st.memo }, r')
      | .shared => (st, r)
    let (st2, rest') := copyAttrs cls priv f st1 rest
    (st2, (k, r') :: rest')

/-- `copy.deepcopy(r, memo)`; `fuel` bounds the depth (heap size suffices for acyclic heaps) -/
def deepcopy : Nat → St → Ref → St × Ref
  | _, st, .none => (st, .none)
  | _, st, .imm d => (st, .imm d)
  | 0, st, .ptr a => (st, .ptr a)
  | n + 1, st, .ptr a =>
    match st.memo.lookup a with
    | some a' => (st, .ptr a')
    | none =>
      match st.heap[a]? with
      | none => (st, .ptr a)
      | some (.ext _) => (st, .ptr a)
      | some (.arr d) =>
        ({ heap := st.heap ++ [.arr d], memo := (a, st.heap.length) :: st.memo }, .ptr st.heap.length)
      | some (.dict kvs) =>
        let (st1, kvs') := copyList (deepcopy n) st kvs
        ({ heap := st1.heap ++ [.dict kvs'], memo := (a, st1.heap.length) :: st1.memo }, .ptr st1.heap.length)
      | some (.obj cls attrs) =>
        let (st1, attrs') := copyAttrs cls false (deepcopy n) st attrs
        ({ heap := st1.heap ++ [.obj cls attrs'], memo := st1.memo }, .ptr st1.heap.length)

/-- `copy.deepcopy(x)` of the object at `root` -/
def deepcopyRoot (h : Heap) (root : Ref) : Heap × Ref :=
  let (st, r) := deepcopy (h.length + 1) ⟨h, []⟩ root
  (st.heap, r)

/-- which classes implement `deepcopy(self, memo = None)` as `self.__deepcopy__(memo)` — every
    `copy.deepcopy(attr, None)` inside then starts a memo of its own — and not as
    `copy.deepcopy(self, memo)` (G_E_Phenotyping, DenseBreedingValueMatrix, DenseSquareTaxaTraitMatrix) -/
def methodPrivate (cls : String) : Bool :=
  cls == "algmod" || cls == "adlgmod" || cls == "pgmat" || cls == "gmat" || cls == "sgmap" || cls == "egmap"

/-- `x.deepcopy()` of the instance at `root` -/
def deepcopyMethod (h : Heap) (root : Ref) : Heap × Ref :=
  match root with
  | .ptr a =>
    match h[a]? with
    | some (.obj cls attrs) =>
      if !methodPrivate cls then deepcopyRoot h root else
      let (st1, attrs') := copyAttrs cls true (deepcopy h.length) ⟨h, []⟩ attrs
      (st1.heap ++ [.obj cls attrs'], .ptr st1.heap.length)
    | _ => deepcopyRoot h root
  | _ => (h, root)

/-! ### observation: the object as a tree -/

inductive Tree
  | none
  | imm (d : DS)
  | arr (d : DS)
  | dict (kvs : List (String × Tree))
  | obj (cls : String) (kvs : List (String × Tree))
  | ext (name : String)
  | dangling
  deriving Repr, Inhabited

/-- one cell, given the views of what it refers to -/
def viewCell (rec : Ref → Tree) : Option Cell → Tree
  | none => .dangling
  | some (.arr d) => .arr d
  | some (.ext s) => .ext s
  | some (.dict kvs) => .dict (kvs.map (fun kv => (kv.1, rec kv.2)))
  | some (.obj c kvs) => .obj c (kvs.map (fun kv => (kv.1, rec kv.2)))

def viewF (h : Heap) : Nat → Ref → Tree
  | _, .none => .none
  | _, .imm d => .imm d
  | 0, .ptr _ => .dangling
  | n + 1, .ptr a => viewCell (viewF h n) h[a]?

def view (h : Heap) (r : Ref) : Tree := viewF h h.length r

/-- addresses reachable from a reference through values that are *state* of the object: shared
    attributes (the random source) are not followed -/
def reachF (h : Heap) : Nat → Ref → List Addr
  | _, .none => []
  | _, .imm _ => []
  | 0, .ptr a => [a]
  | n + 1, .ptr a =>
    match h[a]? with
    | some (.dict kvs) => a :: kvs.flatMap (fun kv => reachF h n kv.2)
    | some (.obj c kvs) => a :: kvs.flatMap (fun kv => if attrMode c kv.1 == .shared then [] else reachF h n kv.2)
    | _ => [a]

def reach (h : Heap) (r : Ref) : List Addr := reachF h h.length r

/-- decidable form of "every reference inside cell `a` points below `a`" -/
def ptrBelow (a : Nat) : Ref → Bool
  | .ptr b => decide (b < a)
  | _ => true

def wfB (h : Heap) : Bool :=
  (List.range h.length).all (fun a => (kids (h.getD a default)).all (fun kv => ptrBelow a kv.2))

/-! ### mutation -/

/-- overwrite a buffer in place / assign a dictionary key / assign an attribute -/
def setCell (h : Heap) (a : Addr) (c : Cell) : Heap := h.set a c

end StoreGraph
