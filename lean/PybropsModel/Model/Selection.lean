/-
Model of the selection-problem objective code of pybrops (property C05):
  pybrops/breed/prot/sel/prob/*SelectionProblem.py   latentfn of every criterion in the four decision
                                                      encodings (subset / real / integer / binary)
  pybrops/breed/prot/sel/prob/SelectionProblem.py    evalfn
  pybrops/breed/prot/sel/prob/trans.py               trans_identity / trans_sum / trans_dot / trans_empty /
                                                      trans_decnvec_sum_eq
  factory data paths: BreedingValueMatrix.unscale, _calc_uc, _calc_ohvmat, _calc_haplomat (given the
  block bounds), _calc_embv (given the simulated maxima), _calc_V, from_numpy of the (generalised)
  weighted GEBV problems (given numpy.power's values), triuix / triudix cross maps.

Core Lean only.  Polymorphic in the scalar: executed at `Rat` (and at `Float` for the criteria that
take a square root), reasoned about over a linearly ordered field in Lemmas/ and Props/.
numpy expressions are transcribed element-wise: `M[x,:].sum(0)[j]` is `ssum x (fun i => M[i][j])`.
-/
import PybropsModel.Np
import PybropsModel.Model.Variance

namespace Selection

/-- scalar square root (`numpy.linalg.norm(·, ord=2)` = sqrt of the sum of squares) -/
class HasSqrt (α : Type) where
  sqrt : α → α

section scalar
variable {α : Type} [Add α] [Mul α] [Sub α] [Div α] [Neg α] [OfNat α 0] [OfNat α 1] [NatCast α]
  [LT α] [DecidableLT α]

/-- `Σ_{i < n} f i` (numpy `.sum` over a full axis of length n) -/
def rsum (n : Nat) (f : Nat → α) : α := Np.sum ((List.range n).map f)

/-- `Σ_{i ∈ S} f i` (numpy fancy indexing `M[x]` followed by `.sum` over that axis) -/
def ssum (S : List Nat) (f : Nat → α) : α := Np.sum (S.map f)

def vget (v : List α) (i : Nat) : α := v.getD i 0
def ent (M : List (List α)) (i j : Nat) : α := (M.getD i []).getD j 0
def ncols (M : List (List α)) : Nat := (M.headD []).length

/-- `abs` / `numpy.absolute` -/
def absv (a : α) : α := if a < 0 then -a else a

/-- float `==` on non-NaN values, from `<` only -/
def eqv (a b : α) : Bool := !(decide (a < b)) && !(decide (b < a))

/-- `xsum = x.sum(); xsum = xsum if abs(xsum) >= 1e-10 else 1.0`  (`eps` = 1e-10) -/
def xsumGuard (eps : α) (x : List α) : α :=
  let s := Np.sum x
  if absv s < eps then 1 else s

/-- `contrib = (1.0 / xsum) * x`; `guard = false` is the variant `1.0 / x.sum() * x` -/
def contrib (guard : Bool) (eps : α) (x : List α) : List α :=
  let s := if guard then xsumGuard eps x else Np.sum x
  x.map (fun v => (1 / s) * v)

/-- `indcontrib = 1.0 / len(x)` -/
def indcontrib (S : List Nat) : α := 1 / (S.length : α)

/-! ### building blocks shared by the criteria -/

/-- `-(1.0/len(x)) * D[x,:].sum(0)` for an (n × t) matrix `D` -/
def linSubset (D : List (List α)) (S : List Nat) : List α :=
  (List.range (ncols D)).map fun j => (-(indcontrib S)) * ssum S (fun i => ent D i j)

/-- `contrib.dot(D)` for a vector of length n and an (n × t) matrix -/
def vecMat (c : List α) (D : List (List α)) : List α :=
  (List.range (ncols D)).map fun j => rsum c.length (fun i => vget c i * ent D i j)

/-- `-contrib.dot(D)` -/
def linCore (D : List (List α)) (c : List α) : List α := (vecMat c D).map (fun v => -v)

/-- `C.dot(contrib)` for an (r × n) matrix and a vector of length n -/
def matVec (C : List (List α)) (c : List α) : List α :=
  C.map fun row => rsum c.length (fun i => vget row i * vget c i)

/-- `(1.0/len(x)) * C[:,x].sum(1)` -/
def pickCols (C : List (List α)) (S : List Nat) : List α :=
  C.map fun row => indcontrib S * ssum S (fun i => vget row i)

def normSq (v : List α) : α := Np.sum (v.map fun a => a * a)

/-- `numpy.linalg.norm(v, ord=2)` -/
def norm2 [HasSqrt α] (v : List α) : α := HasSqrt.sqrt (normSq v)

/-- `numpy.absolute(v).sum()` -/
def norm1 (v : List α) : α := Np.sum (v.map absv)

/-- `max` of a non-empty list (numpy `.max`), left to right -/
def maxL (l : List α) : α := l.tail.foldl (fun m x => if m < x then x else m) (l.headD 0)

/-- `numpy.bincount(ix, weights)[f]` -/
def bincountAt (ix : List Nat) (w : List α) (f : Nat) : α :=
  rsum ix.length (fun i => if ix.getD i 0 == f then vget w i else 0)

/-! ### decisions and criteria -/

/-- a decision vector: `subset` = array of chosen indices; `vec` = real / integer / binary vector over
    all candidates (the three classes share one latentfn text per criterion) -/
inductive Decn (α : Type) where
  | subset (S : List Nat)
  | vec (x : List α)

/-- the data a problem object holds, per criterion family.
    `lin guard D`: EBV, GEBV, wGEBV, gwGEBV, random, EMBV (`guard = true`: the real/integer/binary
    classes have the 1e-10 guard) and UC, OHV (`guard = false`), `D` = `_ebv/_gebv/_gwgebv/_rbv/_embv/
    _ucmat/_ohvmat`;  `ocs C D`;  `mgr C`;  `meh C`;  `l1 V` (V[trait][marker][taxon]);
    `l2 C` (C[trait][row][taxon]);  `family D familyix nfam`;  `opv H` (H[phase][taxon][block][trait]);
    `gb H nbestfndr` (genotype builder, same haplotype tensor);
    `pafd/pau/mogs geno ploidy mkrwt tfreq`. -/
inductive Crit (α : Type) where
  | lin (guard : Bool) (D : List (List α))
  | ocs (C D : List (List α))
  | mgr (C : List (List α))
  | meh (C : List (List α))
  | l1 (V : List (List (List α)))
  | l2 (C : List (List (List α)))
  | family (D : List (List α)) (fix : List Nat) (nfam : Nat)
  | opv (H : List (List (List (List α))))
  | gb (H : List (List (List (List α)))) (nbest : Nat)
  | pafd (geno : List (List α)) (ploidy : Nat) (w tf : List (List α))
  | pau (geno : List (List α)) (ploidy : Nat) (w tf : List (List α))
  | mogs (geno : List (List α)) (ploidy : Nat) (w tf : List (List α))

/-- does the real/integer/binary latentfn of this criterion carry the `abs(xsum) >= 1e-10` guard? -/
def Crit.guarded : Crit α → Bool
  | .lin g _ => g
  | .ocs _ _ => true
  | .mgr _ => true
  | .meh _ => true
  | _ => false

/-- is there a real / integer / binary class for this criterion (otherwise subset only)? -/
def Crit.hasVec : Crit α → Bool
  | .lin _ _ => true
  | .ocs _ _ => true
  | .mgr _ => true
  | .meh _ => true
  | .l1 _ => true
  | .l2 _ => true
  | .family _ _ _ => true
  | _ => false

/-- number of candidates (taxa, or crosses for the mate-selection criteria) the data covers -/
def Crit.ncand : Crit α → Nat
  | .lin _ D => D.length
  | .ocs C _ => ncols C
  | .mgr C => ncols C
  | .meh C => ncols C
  | .l1 V => ncols (V.headD [])
  | .l2 C => ncols (C.headD [])
  | .family _ fix _ => fix.length
  | .opv H => (H.headD []).length
  | .gb H _ => (H.headD []).length
  | .pafd g _ _ _ => g.length
  | .pau g _ _ _ => g.length
  | .mogs g _ _ _ => g.length

/-- `pfreq = geno[x,:,None].sum(0) / (ploidy * len(x))` at marker m -/
def pfreq (geno : List (List α)) (ploidy : Nat) (S : List Nat) (m : Nat) : α :=
  ssum S (fun i => ent geno i m) / ((ploidy * S.length : Nat) : α)

/-- `(mkrwt * numpy.absolute(tfreq - pfreq)).sum(0)` -/
def pafdSubset (geno : List (List α)) (ploidy : Nat) (w tf : List (List α)) (S : List Nat) : List α :=
  (List.range (ncols w)).map fun j =>
    rsum w.length (fun m => ent w m j * absv (ent tf m j - pfreq geno ploidy S m))

def b2s (b : Bool) : α := if b then 1 else 0

/-- PopulationAlleleUnavailabilitySubsetSelectionProblem.latentfn, parameterised by the `_tmajor` mask of
    the `tfreq` setter (`tmajorOf t` = is `t` a fixation-of-the-major-allele target?) -/
def pauWith (tmajorOf : α → Bool) (geno : List (List α)) (ploidy : Nat) (w tf : List (List α))
    (S : List Nat) : List α :=
  (List.range (ncols w)).map fun j =>
    rsum w.length (fun m =>
      let p := pfreq geno ploidy S m
      let t := ent tf m j
      let tminor := eqv t 0                              -- _calc_tminor: tfreq == 0.0
      let thet := decide (0 < t) && decide (t < 1)       -- _calc_thet
      let tmajor := tmajorOf t
      let pLtMajor := decide (p < 1)
      let pGtMinor := decide (0 < p)
      let pHet := pLtMajor && pGtMinor
      let unavail := !((pLtMajor && tminor) || ((pHet && thet) || (pGtMinor && tmajor)))
      ent w m j * b2s unavail)

/-- the class as it is: `self._tmajor = self._calc_tmajor(self._tfreq)`, i.e. `tfreq == 1.0` -/
def pauSubset (geno : List (List α)) (ploidy : Nat) (w tf : List (List α)) (S : List Nat) : List α :=
  pauWith (fun t => eqv t 1) geno ploidy w tf S

/-- the expression before repair 59e0f579 (`self._tmajor = self._calc_tminor(self._tfreq)`); kept only for
    `pau_tmajor_prerepair_counterexample` -/
def pauSubsetPrerepair (geno : List (List α)) (ploidy : Nat) (w tf : List (List α)) (S : List Nat) : List α :=
  pauWith (fun t => eqv t 0) geno ploidy w tf S

/-- the PAU half of MultiObjectiveGenomicSubsetSelectionProblem.latentfn (own masks: `<= 0`, `>= 1`) -/
def mogsPau (geno : List (List α)) (ploidy : Nat) (w tf : List (List α)) (S : List Nat) : List α :=
  (List.range (ncols w)).map fun j =>
    rsum w.length (fun m =>
      let p := pfreq geno ploidy S m
      let t := ent tf m j
      let tFixMinor := !(decide (0 < t))          -- tfreq <= 0
      let tFixMajor := !(decide (t < 1))          -- tfreq >= 1
      let tFixHeter := !(tFixMinor || tFixMajor)
      let pMajorLost := !(decide (0 < p))         -- pfreq <= 0
      let pMinorLost := !(decide (p < 1))         -- pfreq >= 1
      let pHeterLost := pMajorLost || pMinorLost
      let unavail := (tFixMinor && pMinorLost) || (tFixMajor && pMajorLost) || (tFixHeter && pHeterLost)
      ent w m j * b2s unavail)

/-- Spec of allele unavailability (the docstring's definition): can the target frequency `t` still be
    reached from a selection whose allele frequency is `p`?  target 0 needs p < 1, target 1 needs
    0 < p, an intermediate target needs 0 < p < 1 -/
def unattainable (t p : α) : Bool :=
  if !(decide (0 < t)) then !(decide (p < 1))
  else if !(decide (t < 1)) then !(decide (0 < p))
  else !(decide (0 < p) && decide (p < 1))

/-- population allele unavailability by its definition: `Σ_m mkrwt[m,j] · [target (m,j) unattainable]` -/
def pauDef (geno : List (List α)) (ploidy : Nat) (w tf : List (List α)) (S : List Nat) : List α :=
  (List.range (ncols w)).map fun j =>
    rsum w.length (fun m => ent w m j * b2s (unattainable (ent tf m j) (pfreq geno ploidy S m)))

/-- `-ploidy * H[:,x,:,:].max((0,1)).sum(0)` -/
def opvSubset (H : List (List (List (List α)))) (S : List Nat) : List α :=
  let nblk := ((H.headD []).headD []).length
  let ntrait := (((H.headD []).headD []).headD []).length
  (List.range ntrait).map fun j =>
    (-((H.length : Nat) : α)) * rsum nblk (fun b =>
      maxL (H.flatMap fun Hp => S.map fun i => ((Hp.getD i []).getD b []).getD j 0))

/-- Python's `a[st:k]` start index for `st = k - nbest` (a negative start counts from the end, clipped at 0) -/
def pySliceStart (k nbest : Nat) : Nat :=
  if nbest ≤ k then k - nbest else (if nbest - k ≤ k then k - (nbest - k) else 0)

/-- numpy `.sort(0)` of a 1-D slice: ascending -/
def sortAsc (l : List α) : List α := Np.stableSort (fun a c => !(decide (c < a))) l

/-- GenotypeBuilderSubsetSelectionProblem.latentfn:
    `bestphase = H[:,x,:,:].max(0); bestphase.sort(0); st = k - nbestfndr;`
    `-(ploidy / nbestfndr) * bestphase[st:k,:,:].sum((0,1))` -/
def gbSubset (H : List (List (List (List α)))) (nbest : Nat) (S : List Nat) : List α :=
  let nblk := ((H.headD []).headD []).length
  let ntrait := (((H.headD []).headD []).headD []).length
  (List.range ntrait).map fun j =>
    (-(((H.length : Nat) : α) / ((nbest : Nat) : α))) * rsum nblk (fun b =>
      let best := S.map fun i => maxL (H.map fun Hp => ((Hp.getD i []).getD b []).getD j 0)
      Np.sum ((sortAsc best).drop (pySliceStart S.length nbest)))

/-- the part of a latentfn after the contribution vector has been formed
    (`contrib = 1/xsum * x` for the vector encodings) -/
def core [HasSqrt α] : Crit α → List α → Option (List α)
  | .lin _ D, c => some (linCore D c)
  | .ocs C D, c => some (norm2 (matVec C c) :: linCore D c)
  | .mgr C, c => some [norm2 (matVec C c)]
  | .meh C, c => some [-(1 - norm2 (matVec C c))]
  | .l1 V, c => some (V.map fun Vt => norm1 (matVec Vt c))
  | .l2 C, c => some (C.map fun Ct => norm2 (matVec Ct c))
  | .family D fix nfam, c =>
      some (linCore D c ++ (List.range nfam).map fun f => -(bincountAt fix c f))
  | _, _ => none

/-- `latentfn(x)` of every class.  `none`: the criterion has no class for that encoding. -/
def latent [HasSqrt α] (eps : α) : Crit α → Decn α → Option (List α)
  | .lin _ D, .subset S => some (linSubset D S)
  | .ocs C D, .subset S => some (norm2 (pickCols C S) :: linSubset D S)
  | .mgr C, .subset S => some [norm2 (pickCols C S)]
  | .meh C, .subset S => some [-(1 - norm2 (pickCols C S))]
  | .l1 V, .subset S => some (V.map fun Vt => norm1 (pickCols Vt S))
  | .l2 C, .subset S => some (C.map fun Ct => norm2 (pickCols Ct S))
  | .family D fix nfam, .subset S =>
      -- familywt = zeros(len(familyix)); familywt[x] = indcontrib; -bincount(familyix, familywt)
      let familywt : List α := (List.range fix.length).map fun i => if S.contains i then indcontrib S else 0
      some (linSubset D S ++ (List.range nfam).map fun f => -(bincountAt fix familywt f))
  | .opv H, .subset S => some (opvSubset H S)
  | .gb H nbest, .subset S => some (gbSubset H nbest S)
  | .pafd g p w tf, .subset S => some (pafdSubset g p w tf S)
  | .pau g p w tf, .subset S => some (pauSubset g p w tf S)
  | .mogs g p w tf, .subset S => some (mogsPau g p w tf S ++ pafdSubset g p w tf S)
  | crit, .vec x => core crit (contrib crit.guarded eps x)

/-! ### decision encodings of one set of parental contributions -/

/-- integer-count encoding of the multiset `S` over `n` candidates -/
def counts (n : Nat) (S : List Nat) : List α := (List.range n).map fun i => ((S.count i : Nat) : α)

/-- binary-indicator encoding -/
def indicator (n : Nat) (S : List Nat) : List α := (List.range n).map fun i => if S.contains i then 1 else 0

/-- real-contribution encoding with total `a` -/
def shares (n : Nat) (S : List Nat) (a : α) : List α :=
  (List.range n).map fun i => a * (((S.count i : Nat) : α) / (S.length : α))

/-! ### evalfn and the transformation functions of trans.py -/

/-- a declared transformation together with its declared keyword arguments: the five functions of trans.py and
    the three user callables the harness hands to the problems (`slice`: `latentvec[0:1]`; `penalty thr`:
    `numpy.maximum(latentvec - thr, 0)`; `affine m c`: `m * latentvec + c`) -/
inductive Trans (α : Type) where
  | identity
  | sum
  | dot (w : List α)
  | empty
  | decnSumEq (target : α)
  | slice
  | penalty (thr : α)
  | affine (m c : α)

/-- `trans(decnvec, latentvec, **kwargs)` -/
def Trans.apply : Trans α → List α → List α → List α
  | .identity, _, l => l
  | .sum, _, l => [Np.sum l]
  | .dot w, _, l => [Np.sum (List.zipWith (· * ·) w l)]
  | .empty, _, _ => []
  | .decnSumEq t, x, _ => [absv (Np.sum x - t)]
  | .slice, _, l => l.take 1
  | .penalty thr, _, l => l.map fun v => if v - thr < 0 then 0 else v - thr
  | .affine m c, _, l => l.map fun v => m * v + c

/-- `wt * vec` (numpy broadcasting of equal-length 1-D arrays) -/
def wmul (w v : List α) : List α := List.zipWith (· * ·) w v

/-- SelectionProblem.evalfn given the latent vector -/
def evalfn (objWt ineqWt eqWt : List α) (tObj tIneq tEq : Trans α) (x latent : List α) :
    List α × List α × List α :=
  (wmul objWt (tObj.apply x latent), wmul ineqWt (tIneq.apply x latent), wmul eqWt (tEq.apply x latent))

/-! ### factory data paths -/

/-- `bvmat.unscale() if unscale else bvmat.mat` with `unscale() = scale * mat + location` -/
def bvData (unscale : Bool) (mat : List (List α)) (location scale : List α) : List (List α) :=
  if unscale then mat.map fun row => (List.range row.length).map fun j => vget scale j * vget row j + vget location j
  else mat

/-- `tmp = fafreq.copy(); tmp[tmp == 0.0] = 1.0` — both the weighted and the generalised weighted classes -/
def guardZero (ff : List (List α)) : List (List α) := ff.map fun r => r.map fun v => if eqv v 0 then 1 else v

/-- wGEBV matrix: `mask = (p == 0) | (p == 1); pq = p (1 - p); pq[mask] = 1.0` -/
def pqGuard (p : α) : α := if eqv p 0 || eqv p 1 then 1 else p * (1 - p)

/-- `Z_a.dot(u_a * pw)` where `pw = numpy.power(tmp, -alpha)` (resp. the arcsine weight of the wGEBV matrix)
    is handed over: numpy.power / arcsin are trusted, `tmp = guardZero fafreq` -/
def wgebvData (Z : List (List α)) (u pw : List (List α)) : List (List α) :=
  Z.map fun z => (List.range (ncols u)).map fun j => rsum z.length (fun m => vget z m * (ent u m j * ent pw m j))

/-- L1NormGenomicSelectionProblemMixin._calc_V: `V[t,:,:] = mkrwt[:,t,None] * (tafreq.T - tfreq[:,t,None])` -/
def calcV (mkrwt tafreq tfreq : List (List α)) : List (List (List α)) :=
  (List.range (ncols mkrwt)).map fun t => (List.range mkrwt.length).map fun m =>
    (List.range tafreq.length).map fun i => ent mkrwt m t * (ent tafreq i m - ent tfreq m t)

/-- `triuix(n,k)` / `triudix(n,k)`: non-decreasing / strictly increasing index lists, lexicographic -/
def triu (diag : Bool) (n : Nat) : Nat → Nat → List (List Nat)
  | 0, _ => [[]]
  | k+1, st => (List.range n).flatMap fun i =>
      if st ≤ i then (triu diag n k (if diag then i else i + 1)).map (fun l => i :: l) else []

/-- `_calc_xmap(ntaxa, nparent, unique_parents)` -/
def calcXmap (ntaxa nparent : Nat) (uniqueParents : Bool) : List (List Nat) :=
  triu (!uniqueParents) ntaxa nparent 0

/-- `numpy.maximum(v, 0.0)` -/
def clip0 (v : α) : α := if v < 0 then 0 else v

/-- `_calc_uc` (after repair dbcebcc2):
    `uc[i,:] = epgc.dot(bvmat[cconfig,:]) + selection_intensity * numpy.sqrt(numpy.maximum(pvar, 0.0))`;
    `pvar i` = `vmat[tuple(cconfig)]` is handed over per cross (variance matrices are C12's subject) -/
def calcUc [HasSqrt α] (epgc : List α) (bv : List (List α)) (intensity : α) (xmap : List (List Nat))
    (pvar : List (List α)) : List (List α) :=
  (List.range xmap.length).map fun i =>
    let cconfig := xmap.getD i []
    (List.range (ncols bv)).map fun j =>
      rsum cconfig.length (fun p => vget epgc p * ent bv (cconfig.getD p 0) j)
        + intensity * HasSqrt.sqrt (clip0 (ent pvar i j))

/-- `_calc_haplomat` given the block bounds: `hmat[:,:,b,j] = mat[:,:,st:sp].dot(u[st:sp,j])` -/
def calcHaplomat (mat : List (List (List α))) (u : List (List α)) (bounds : List (Nat × Nat)) :
    List (List (List (List α))) :=
  mat.map fun Mp => Mp.map fun g => bounds.map fun b => (List.range (ncols u)).map fun j =>
    ssum (Np.arange b.1 (b.2 - b.1)) (fun m => vget g m * ent u m j)

/-- `_calc_ohvmat`: `ploidy * haplomat[:,xconfig,:,:].max((0,2)).sum(1)`, row per cross -/
def calcOhvmat (H : List (List (List (List α)))) (xmap : List (List Nat)) : List (List α) :=
  let nblk := ((H.headD []).headD []).length
  let ntrait := (((H.headD []).headD []).headD []).length
  xmap.map fun cconfig => (List.range ntrait).map fun j =>
    ((H.length : Nat) : α) * rsum nblk (fun b =>
      maxL (H.flatMap fun Hp => cconfig.map fun i => ((Hp.getD i []).getD b []).getD j 0))

/-- `_calc_embv` given the simulated maxima `tmaxs[cross][rep][trait]` (mating and prediction are scripted):
    `avg = 0; for rep: avg = avg + tmax; avg = avg / nrep; embv[i,:] = avg` -/
def calcEmbv (nrep : Nat) (tmaxs : List (List (List α))) (ntrait : Nat) : List (List α) :=
  tmaxs.map fun reps => (List.range ntrait).map fun j =>
    (reps.take nrep).foldl (fun avg r => avg + vget r j) 0 / (nrep : α)

/-! ### `_calc_ohvmat`: the memory-chunk loop, transcribed literally -/

/-- `out[rst:rsp,:] = rows` for a slice inside the array (`rows.length = rsp - rst`) -/
def setRows {β : Type} (out : List β) (rst : Nat) (rows : List β) : List β :=
  out.take rst ++ rows ++ out.drop (rst + rows.length)

/-- `_calc_ohvmat(ploidy, haplomat, xmap, mem)` as written:
    `out = numpy.empty((nconfig,t)); step = nconfig if mem is None else mem;`
    `for rst,rsp in zip(range(0,nconfig,step), srange(step,nconfig,step)):`
    `    xconfig = xmap[rst:rsp,:]; out[rst:rsp,:] = ploidy * haplomat[:,xconfig,:,:].max((0,2)).sum(1)`.
    Uninitialised rows of `numpy.empty` are modelled by `[]`.  `none`: `range()` rejects step 0
    (`mem = 0`, or `mem = None` with an empty cross map). -/
def calcOhvmatChunked (mem : Option Nat) (H : List (List (List (List α)))) (xmap : List (List Nat)) :
    Option (List (List α)) :=
  let nconfig := xmap.length
  let step := mem.getD nconfig
  if step = 0 then none else
  some ((Variance.chunks 0 nconfig step).foldl
    (fun out c => setRows out c.1 (calcOhvmat H ((xmap.drop c.1).take (c.2 - c.1))))
    (List.replicate nconfig []))

/-! ### `DenseExpectedMaximumBreedingValueMatrix.from_gmod` (doubled-haploid simulation scripted) -/

/-- `bvmat.tmax(unscale = True)`: per trait the maximum over the progeny rows -/
def tmaxRows (prog : List (List α)) (ntrait : Nat) : List α :=
  (List.range ntrait).map fun t => maxL (prog.map fun r => vget r t)

/-- `from_gmod` given `prog[i][j]` = the (nprogeny_i × t) breeding values of the DH progeny drawn for taxon
    `i` in replicate `j` (at least `nrep[i]` replicates are supplied; the code draws exactly `nrep[i]`):
    `for i: mbv = empty((nrep[i],t)); for j in range(nrep[i]): mbv[j,:] = gebv(dh(i)).tmax(True);`
    `embv[i,:] = mbv.mean(axis=0)` -/
def embvMat (nrep : List Nat) (prog : List (List (List (List α)))) (ntrait : Nat) : List (List α) :=
  (List.range prog.length).map fun i =>
    let mbv := ((prog.getD i []).take (nrep.getD i 0)).map fun rep => tmaxRows rep ntrait
    (List.range ntrait).map fun t => Np.sum (mbv.map fun r => vget r t) / ((nrep.getD i 0 : Nat) : α)

/-! ### RealLookAheadGeneralizedWeightedGenomicSelectionProblem (simulation with scripted mating) -/

/-- `wgebv = Z_a.dot(u_a * numpy.power(fafreq, -alpha)).sum(1)` (`pw` = the power values, numpy.power trusted;
    `fafreq[fafreq <= 0] = 1` is applied by the caller of numpy.power) -/
def laScores (Z u pw : List (List α)) : List α :=
  Z.map fun z => Np.sum ((List.range (ncols u)).map fun j =>
    rsum z.length (fun m => vget z m * (ent u m j * ent pw m j)))

/-- `sel = wgebv.argsort()[::-1][:nparent]` (the code shuffles `sel` afterwards: only the set matters) -/
def laSelect (scores : List α) (nparent : Nat) : List Nat :=
  ((Np.argsort (fun a b => !(decide (b < a))) scores).reverse).take nparent

/-- `Z_a.dot(u_a).sum(1).mean()` of the last simulated generation -/
def laGain (Z u : List (List α)) : α :=
  Np.sum (Z.map fun z => Np.sum ((List.range (ncols u)).map fun j =>
    rsum z.length (fun m => vget z m * ent u m j))) / ((Z.length : Nat) : α)

/-- `(float(ploidy) * u_a * numpy.where(u_a > 0, afreq > 0, afreq >= 1)).sum()` with
    `afreq = pgmat.afreq()` = column sums / (ploidy · ntaxa) -/
def laUsl (ploidy : Nat) (Z u : List (List α)) : α :=
  rsum u.length (fun m =>
    let p := Np.sum (Z.map fun z => vget z m) / ((ploidy * Z.length : Nat) : α)
    Np.sum ((List.range (ncols u)).map fun j =>
      let um := ent u m j
      ((ploidy : Nat) : α) * um * b2s (if 0 < um then decide (0 < p) else !(decide (p < 1)))))

/-- latentfn: `[-gain/nsimul, -usl/nsimul]` over the last generations of the `nsimul` simulations -/
def laLatent (ploidy : Nat) (u : List (List α)) (finals : List (List (List α))) : List α :=
  let ns : α := ((finals.length : Nat) : α)
  [-(finals.foldl (fun g Z => g + laGain Z u) 0 / ns), -(finals.foldl (fun g Z => g + laUsl ploidy Z u) 0 / ns)]

end scalar
end Selection
