/-
Model of the *stateful* side of the selection-problem classes of pybrops (property C05): what a problem OBJECT
remembers between calls and how its documented setters keep it consistent.

  PopulationAlleleUnavailability / PopulationAlleleFrequencyDistance mixins   `tfreq` setter: `_tminor / _thet / _tmajor`
  MultiObjectiveGenomicSelectionProblemMixin                                  `tfreq` setter: `_tfreq_fix_minor / _heter / _major`
  FamilyEstimatedBreedingValueSelectionProblemMixin                           `familyid` setter: `numpy.unique(.., return_inverse)`
  SelectionProblem / Problem                                                  weights, transformations, keyword arguments

The latentfn transcriptions here read the STORED masks / indices (as the classes do), not the public fields; the
theorems of Props/C05 (`tfobj_history_*`, `famobj_history`, `store_frame`, `problem_query_current`) show that after
any history of setter calls they equal the stateless definitions of Model/Selection.lean on the fields the object
now holds, and that an operation on one object of a store never shows in another.  Core Lean only.
-/
import PybropsModel.Model.Selection
import PybropsModel.Model.SelectionSpec

namespace Selection

section obj
variable {α : Type} [Add α] [Mul α] [Sub α] [Div α] [Neg α] [OfNat α 0] [OfNat α 1] [NatCast α]
  [LT α] [DecidableLT α]

/-! ### target-frequency masks -/

/-- `_calc_tminor(tfreq)`: `tfreq == 0.0` -/
def calcTminor (tf : List (List α)) : List (List Bool) := tf.map fun r => r.map fun t => eqv t 0
/-- `_calc_thet(tfreq)`: `(tfreq > 0.0) & (tfreq < 1.0)` -/
def calcThet (tf : List (List α)) : List (List Bool) := tf.map fun r => r.map fun t => decide (0 < t) && decide (t < 1)
/-- `_calc_tmajor(tfreq)`: `tfreq == 1.0` -/
def calcTmajor (tf : List (List α)) : List (List Bool) := tf.map fun r => r.map fun t => eqv t 1
/-- multi-objective mixin: `tfreq <= 0.0`, `tfreq >= 1.0`, `~(minor | major)` -/
def calcFixMinor (tf : List (List α)) : List (List Bool) := tf.map fun r => r.map fun t => !(decide (0 < t))
def calcFixMajor (tf : List (List α)) : List (List Bool) := tf.map fun r => r.map fun t => !(decide (t < 1))
def calcFixHeter (tf : List (List α)) : List (List Bool) :=
  tf.map fun r => r.map fun t => !(!(decide (0 < t)) || !(decide (t < 1)))

/-- entry of a boolean mask -/
def bent (M : List (List Bool)) (i j : Nat) : Bool := (M.getD i []).getD j false

/-- an allele-frequency problem object (PAU, PAFD and the multi-objective class hold the same four public fields;
    the masks are what their `tfreq` setters store next to them) -/
structure TfObj (α : Type) where
  geno : List (List α)
  ploidy : Nat
  mkrwt : List (List α)
  tfreq : List (List α)
  tminor : List (List Bool)
  thet : List (List Bool)
  tmajor : List (List Bool)
  fixMinor : List (List Bool)
  fixHeter : List (List Bool)
  fixMajor : List (List Bool)

/-- the documented setters -/
inductive TfOp (α : Type) where
  | setGeno (g : List (List α))
  | setPloidy (p : Nat)
  | setMkrwt (w : List (List α))
  | setTfreq (tf : List (List α))

/-- `obj.<field> = value`: the `tfreq` setter stores the value and rebuilds every mask from it -/
def TfObj.step (o : TfObj α) : TfOp α → TfObj α
  | .setGeno g => { o with geno := g }
  | .setPloidy p => { o with ploidy := p }
  | .setMkrwt w => { o with mkrwt := w }
  | .setTfreq tf => { o with tfreq := tf, tminor := calcTminor tf, thet := calcThet tf, tmajor := calcTmajor tf,
                             fixMinor := calcFixMinor tf, fixHeter := calcFixHeter tf, fixMajor := calcFixMajor tf }

/-- the constructor: the four setters in the order of `__init__` -/
def TfObj.new (geno : List (List α)) (ploidy : Nat) (mkrwt tfreq : List (List α)) : TfObj α :=
  ((((⟨[], 0, [], [], [], [], [], [], [], []⟩ : TfObj α).step (.setGeno geno)).step (.setPloidy ploidy)).step
    (.setMkrwt mkrwt)).step (.setTfreq tfreq)

def TfObj.run (o : TfObj α) (ops : List (TfOp α)) : TfObj α := ops.foldl TfObj.step o

/-- PopulationAlleleUnavailabilitySubsetSelectionProblem.latentfn, reading `self._tminor / _thet / _tmajor` -/
def TfObj.pauLatent (o : TfObj α) (S : List Nat) : List α :=
  (List.range (ncols o.mkrwt)).map fun j =>
    rsum o.mkrwt.length (fun m =>
      let p := pfreq o.geno o.ploidy S m
      let pLtMajor := decide (p < 1)
      let pGtMinor := decide (0 < p)
      let pHet := pLtMajor && pGtMinor
      let unavail := !((pLtMajor && bent o.tminor m j) || ((pHet && bent o.thet m j) || (pGtMinor && bent o.tmajor m j)))
      ent o.mkrwt m j * b2s unavail)

/-- the PAU half of MultiObjectiveGenomicSubsetSelectionProblem.latentfn, reading `self._tfreq_fix_*` -/
def TfObj.mogsPauLatent (o : TfObj α) (S : List Nat) : List α :=
  (List.range (ncols o.mkrwt)).map fun j =>
    rsum o.mkrwt.length (fun m =>
      let p := pfreq o.geno o.ploidy S m
      let pMajorLost := !(decide (0 < p))
      let pMinorLost := !(decide (p < 1))
      let pHeterLost := pMajorLost || pMinorLost
      let unavail := (bent o.fixMinor m j && pMinorLost) || (bent o.fixMajor m j && pMajorLost) ||
        (bent o.fixHeter m j && pHeterLost)
      ent o.mkrwt m j * b2s unavail)

/-- the three classes' latentfn on the object -/
def TfObj.latentPau (o : TfObj α) (S : List Nat) : List α := o.pauLatent S
def TfObj.latentPafd (o : TfObj α) (S : List Nat) : List α := pafdSubset o.geno o.ploidy o.mkrwt o.tfreq S
def TfObj.latentMogs (o : TfObj α) (S : List Nat) : List α := o.mogsPauLatent S ++ o.latentPafd S

/-- the value a field has after a history: the last assignment, else the initial value -/
def lastGeno (init : List (List α)) (ops : List (TfOp α)) : List (List α) :=
  ops.foldl (fun cur op => match op with | .setGeno g => g | _ => cur) init
def lastPloidy (init : Nat) (ops : List (TfOp α)) : Nat :=
  ops.foldl (fun cur op => match op with | .setPloidy p => p | _ => cur) init
def lastMkrwt (init : List (List α)) (ops : List (TfOp α)) : List (List α) :=
  ops.foldl (fun cur op => match op with | .setMkrwt w => w | _ => cur) init
def lastTfreq (init : List (List α)) (ops : List (TfOp α)) : List (List α) :=
  ops.foldl (fun cur op => match op with | .setTfreq t => t | _ => cur) init

/-! ### family index -/

/-- insert into a strictly ascending list of naturals, keeping it strictly ascending -/
def insertAsc (a : Nat) : List Nat → List Nat
  | [] => [a]
  | b :: l => if a < b then a :: b :: l else if a = b then b :: l else b :: insertAsc a l

/-- `numpy.unique(familyid)`: the distinct labels in ascending order -/
def uniqueAsc (ids : List Nat) : List Nat := ids.foldr insertAsc []

/-- position of `a` in `l` (first occurrence; `l.length` when absent) -/
def indexIn (a : Nat) : List Nat → Nat
  | [] => 0
  | b :: l => if a = b then 0 else indexIn a l + 1

/-- `numpy.unique(familyid, return_inverse = True)` -/
def uniqueInverse (ids : List Nat) : List Nat × List Nat :=
  let fam := uniqueAsc ids
  (fam, ids.map fun a => indexIn a fam)

/-- a family problem object: public `ebv`, `familyid`; stored `_family`, `_familyix` -/
structure FamObj (α : Type) where
  ebv : List (List α)
  familyid : List Nat
  family : List Nat
  familyix : List Nat

inductive FamOp (α : Type) where
  | setEbv (D : List (List α))
  | setFamilyid (ids : List Nat)

def FamObj.step (o : FamObj α) : FamOp α → FamObj α
  | .setEbv D => { o with ebv := D }
  | .setFamilyid ids => { o with familyid := ids, family := (uniqueInverse ids).1, familyix := (uniqueInverse ids).2 }

def FamObj.new (ebv : List (List α)) (ids : List Nat) : FamObj α :=
  ((⟨[], [], [], []⟩ : FamObj α).step (.setEbv ebv)).step (.setFamilyid ids)

def FamObj.run (o : FamObj α) (ops : List (FamOp α)) : FamObj α := ops.foldl FamObj.step o

def lastEbv (init : List (List α)) (ops : List (FamOp α)) : List (List α) :=
  ops.foldl (fun cur op => match op with | .setEbv D => D | _ => cur) init
def lastIds (init : List Nat) (ops : List (FamOp α)) : List Nat :=
  ops.foldl (fun cur op => match op with | .setFamilyid ids => ids | _ => cur) init

/-- the criterion the four family classes evaluate: data, stored index, `len(self._family)` families -/
def FamObj.crit (o : FamObj α) : Crit α := .family o.ebv o.familyix o.family.length

/-! ### evaluation declaration, problem objects, stores of objects -/

/-- what a problem declares about its evaluation: three weight vectors, three transformations (with their
    keyword arguments) -/
structure EvalCfg (α : Type) where
  objWt : List α
  ineqWt : List α
  eqWt : List α
  tObj : Trans α
  tIneq : Trans α
  tEq : Trans α

/-- a problem object: the data of its criterion and its evaluation declaration -/
structure Problem (α : Type) where
  crit : Crit α
  cfg : EvalCfg α

/-- assignments through the documented properties (`*_trans_kwargs` is part of the `Trans` value) -/
inductive POp (α : Type) where
  | setCrit (c : Crit α)
  | setObjWt (w : List α)
  | setIneqWt (w : List α)
  | setEqWt (w : List α)
  | setObjTrans (t : Trans α)
  | setIneqTrans (t : Trans α)
  | setEqTrans (t : Trans α)

def Problem.step (p : Problem α) : POp α → Problem α
  | .setCrit c => { p with crit := c }
  | .setObjWt w => { p with cfg := { p.cfg with objWt := w } }
  | .setIneqWt w => { p with cfg := { p.cfg with ineqWt := w } }
  | .setEqWt w => { p with cfg := { p.cfg with eqWt := w } }
  | .setObjTrans t => { p with cfg := { p.cfg with tObj := t } }
  | .setIneqTrans t => { p with cfg := { p.cfg with tIneq := t } }
  | .setEqTrans t => { p with cfg := { p.cfg with tEq := t } }

def Problem.run (p : Problem α) (ops : List (POp α)) : Problem α := ops.foldl Problem.step p

/-- `(latentfn(x), evalfn(x))` of the object as it is now -/
def Problem.query [HasSqrt α] (eps : α) (p : Problem α) (d : Decn α) (x : List α) :
    Option (List α × (List α × List α × List α)) :=
  (latent eps p.crit d).map fun l =>
    (l, evalfn p.cfg.objWt p.cfg.ineqWt p.cfg.eqWt p.cfg.tObj p.cfg.tIneq p.cfg.tEq x l)

/-- `l[i] = f l[i]` -/
def modifyAt {β : Type} (f : β → β) : Nat → List β → List β
  | _, [] => []
  | 0, b :: l => f b :: l
  | i + 1, b :: l => b :: modifyAt f i l

/-- several problem objects alive at the same time; an operation names its target -/
def Store.step (st : List (Problem α)) (op : Nat × POp α) : List (Problem α) :=
  modifyAt (fun p => p.step op.2) op.1 st

def Store.run (st : List (Problem α)) (ops : List (Nat × POp α)) : List (Problem α) := ops.foldl Store.step st

/-- the operations of a history that name object `i` -/
def opsFor (i : Nat) (ops : List (Nat × POp α)) : List (POp α) := (ops.filter fun o => o.1 == i).map Prod.snd

/-! ### Spec oracle of evalfn (driver op `c05.spec_evalfn`) -/

/-- two vectors of the same length agree entry by entry within tolerance -/
def vecClose (rel abs_ : α) (want got : List α) : Bool :=
  want.length == got.length && (List.zip want got).all fun p => Spec.close rel abs_ p.1 p.2

/-- the three vectors an implementation reports for decision `x` with latent vector `l` are the declared weights
    times the declared transformations of `(x, l)` -/
def evalOk (rel abs_ : α) (cfg : EvalCfg α) (x l : List α) (obj ineq eq : List α) : Bool :=
  vecClose rel abs_ (wmul cfg.objWt (cfg.tObj.apply x l)) obj &&
  vecClose rel abs_ (wmul cfg.ineqWt (cfg.tIneq.apply x l)) ineq &&
  vecClose rel abs_ (wmul cfg.eqWt (cfg.tEq.apply x l)) eq

end obj
end Selection
