/-
Exact reference for the direct solve of the repaired `rrBLUP_ML0` (core Lean only; executed at `Rat`):
`numpy.linalg.solve(A, b)` is entered through its contract `A x = b`; the driver runs the model with this
exact solver (Gauss–Jordan inverse of Model/Coancestry.lean times `b`) and the harness re-checks the
contract on the implementation's own solution on every case.
-/
import PybropsModel.Model.RRBlup
import PybropsModel.Model.Coancestry

namespace RRBlup
open GMod

section solve
variable {α : Type} [Add α] [Sub α] [Mul α] [Div α] [Zero α] [OfNat α 0] [OfNat α 1] [NatCast α] [DecidableEq α]

/-- `B @ b` -/
def matVec (B : List (List α)) (b : List α) : List α := B.map (fun r => dot r b)

/-- exact solution of `A x = b` (`A` non-singular: always the case for `Z'Z + ridge I`, `ridge > 0`);
    zeros if the elimination finds no pivot -/
def exactSolve (A : List (List α)) (b : List α) : List α :=
  match Coancestry.inverse A with
  | some B => matVec B b
  | none => b.map (fun _ => (0 : α))

end solve

end RRBlup
