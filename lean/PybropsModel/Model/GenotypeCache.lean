/-
A genotype-matrix OBJECT with a memo slot for ONE statistic (the allele frequencies), and the writes the dense
matrix classes offer: element assignment on the stored array (`obj.mat[i,j] = v`), re-assignment through the
`mat` property setter (`obj.mat = m`), and in-place culling (`remove_taxa`, which assigns `_mat` directly and never
passes through the setter).  A *discipline* says which of these writes drop the memo.  The functional statistics of
Model/Genotype have no state, so "a statistic is not stale" cannot even be stated about them; this model states it
(Props/C09 `memo_sound_iff_every_write_invalidates`) and shows what each omission costs — the histories the
harness runs on the real objects (kind `history`) are exactly the op lists of this model.

Core Lean only; executed at `Rat`.
-/
import PybropsModel.Model.Genotype

namespace GenotypeCache
open Genotype

/-- the object: genotype data plus the memo slot -/
structure Obj (α : Type) where
  ploidy : Nat
  nv : Nat
  mat : UMat
  memo : Option (List α)

inductive Op
  | edit (i j : Nat) (v : Int)      -- `obj.mat[i, j] = v`: the SAME array object is edited
  | setMat (m : UMat)               -- `obj.mat = m`: the property setter
  | remove (idx : List Nat)         -- `obj.remove_taxa(idx)`: `self._mat = numpy.delete(...)`, no setter
  | query                           -- `obj.afreq()`

/-- which writes drop the memo -/
structure Discipline where
  onEdit : Bool
  onSet : Bool
  onRemove : Bool
  deriving DecidableEq, Repr

def setCell (m : UMat) (i j : Nat) (v : Int) : UMat :=
  m.zipIdx.map (fun ri => if ri.2 == i then ri.1.zipIdx.map (fun cj => if cj.2 == j then v else cj.1) else ri.1)

section run
variable {α : Type} [Div α] [NatCast α] [IntCast α]

/-- a fresh object: nothing memoised -/
def fresh (ploidy nv : Nat) (m : UMat) : Obj α := ⟨ploidy, nv, m, none⟩

/-- what `afreq()` of the stateless class returns for the data the object holds now -/
def truth (o : Obj α) : List α := afreq (α := α) o.ploidy o.nv o.mat

/-- one operation; a query also reports its answer -/
def step (d : Discipline) (o : Obj α) : Op → Obj α × Option (List α)
  | .edit i j v => ({ o with mat := setCell o.mat i j v, memo := if d.onEdit then none else o.memo }, none)
  | .setMat m => ({ o with mat := m, memo := if d.onSet then none else o.memo }, none)
  | .remove idx => ({ o with mat := Np.delete idx o.mat, memo := if d.onRemove then none else o.memo }, none)
  | .query =>
      match o.memo with
      | some p => (o, some p)
      | none => ({ o with memo := some (truth o) }, some (truth o))

/-- run a history; collect for every query the pair (answer, what the stateless statistic gives at that moment) -/
def run (d : Discipline) : Obj α → List Op → List (List α × List α)
  | _, [] => []
  | o, op :: rest =>
      let r := step d o op
      match r.2 with
      | some ans => (ans, truth o) :: run d r.1 rest
      | none => run d r.1 rest

end run

end GenotypeCache
