/-
JSON codec helpers for the line-protocol driver (core Lean only).
Conventions shared with harness/canon.py:
  integers  -> JSON numbers;  rationals -> JSON strings "n/d" (or a JSON integer);
  None      -> null;  booleans -> true/false;  arrays -> nested JSON arrays.
-/
import Lean.Data.Json
open Lean

namespace J

abbrev R := Except String

def fail {α} (msg : String) : R α := .error msg

def parseInt? (s : String) : Option Int := s.toInt?

def int (j : Json) : R Int :=
  match j with
  | .num n => if n.exponent == 0 then .ok n.mantissa else
      -- allow things such as 1.0 / 15e2 when they are integral
      let q : Rat := mkRat n.mantissa (10 ^ n.exponent)
      if q.den == 1 then .ok q.num else fail s!"not an integer: {j.compress}"
  | _ => fail s!"not an integer: {j.compress}"

def nat (j : Json) : R Nat := do
  let i ← int j
  if i < 0 then fail s!"negative where Nat expected: {i}" else pure i.toNat

def bool (j : Json) : R Bool :=
  match j with
  | .bool b => .ok b
  | _ => fail s!"not a bool: {j.compress}"

def str (j : Json) : R String :=
  match j with
  | .str s => .ok s
  | _ => fail s!"not a string: {j.compress}"

/-- rationals: JSON integer, JSON decimal, or string "n/d" / "n" -/
def rat (j : Json) : R Rat :=
  match j with
  | .num n => .ok (mkRat n.mantissa (10 ^ n.exponent))
  | .str s =>
    match s.splitOn "/" with
    | [a] => match a.toInt? with
      | some i => .ok (i : Rat)
      | none => fail s!"bad rational {s}"
    | [a, b] => match a.toInt?, b.toNat? with
      | some i, some d => if d == 0 then fail s!"zero denominator {s}" else .ok (mkRat i d)
      | _, _ => fail s!"bad rational {s}"
    | _ => fail s!"bad rational {s}"
  | _ => fail s!"not a rational: {j.compress}"

def list {α} (f : Json → R α) (j : Json) : R (List α) :=
  match j with
  | .arr a => a.toList.mapM f
  | _ => fail s!"not an array: {(j.compress.take 60)}"

def opt {α} (f : Json → R α) (j : Json) : R (Option α) :=
  match j with
  | .null => .ok none
  | _ => some <$> f j

def field {α} (j : Json) (k : String) (f : Json → R α) : R α :=
  match j.getObjVal? k with
  | .ok v => match f v with
    | .ok a => .ok a
    | .error e => fail s!"field {k}: {e}"
  | .error _ => fail s!"missing field {k}"

/-- field that may be absent or null -/
def fieldOpt {α} (j : Json) (k : String) (f : Json → R α) : R (Option α) :=
  match j.getObjVal? k with
  | .ok .null => .ok none
  | .ok v => match f v with
    | .ok a => .ok (some a)
    | .error e => fail s!"field {k}: {e}"
  | .error _ => .ok none

def fieldD {α} (j : Json) (k : String) (f : Json → R α) (d : α) : R α := do
  match ← fieldOpt j k f with
  | some a => pure a
  | none => pure d

/- encoders -/
def ofInt (i : Int) : Json := .num (JsonNumber.fromInt i)
def ofNat (n : Nat) : Json := .num (JsonNumber.fromNat n)
def ofBool (b : Bool) : Json := .bool b
def ofStr (s : String) : Json := .str s
def ofRat (q : Rat) : Json := if q.den == 1 then ofInt q.num else .str s!"{q.num}/{q.den}"
def ofList {α} (f : α → Json) (l : List α) : Json := .arr (l.map f).toArray
def ofOpt {α} (f : α → Json) : Option α → Json
  | none => .null
  | some a => f a
def obj (kvs : List (String × Json)) : Json := Json.mkObj kvs

/-- 2-D helpers -/
def mat {α} (f : Json → R α) : Json → R (List (List α)) := list (list f)
def ofMat {α} (f : α → Json) : List (List α) → Json := ofList (ofList f)

/-- An operation of the driver: JSON request ↦ JSON answer or error text -/
abbrev Op := Json → R Json

end J
