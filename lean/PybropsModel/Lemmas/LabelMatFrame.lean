/-
Lemmas/LabelMatFrame.lean — what every operation does to the cached group metadata ("frame facts"),
and the invariant "reported grouped ⇒ true partition".
-/
import PybropsModel.Lemmas.LabelMatGroupOp
import PybropsModel.Lemmas.LabelMatBinary

set_option autoImplicit false
set_option linter.unusedVariables false

namespace LabelMat

variable {α lab : Type}

/-- after the operation the edited bundle reports itself ungrouped and every other bundle is exactly
    as before -/
def Frame (k : Kind) (s s' : St α lab) : Prop :=
  (s'.bundle k).grp = none ∧ ∀ kk, kk ≠ k → s'.bundle kk = s.bundle kk

theorem frame_fresh_applyK (sch : Schema) (k : Kind) (f : ListOp) (s : St α lab) :
    Frame k s (freshK k (applyK sch k f s)) := by
  refine ⟨freshK_grp_same k _, ?_⟩
  intro kk hkk
  rw [freshK_bundle_ne _ _ _ hkk]
  simp [applyK, bundle_setBundle_ne _ _ _ _ hkk]

theorem selectK_frame {sch : Schema} (hd : sch.pureDropsOther = false) {k : Kind} {is : List Int}
    {s s' : St α lab} (h : selectK sch k is s = .ok s') : Frame k s s' := by
  unfold selectK at h
  simp only [bind, Except.bind, pure, Except.pure] at h
  split at h
  · cases h
  · split at h
    · cases h
    · rw [newObj_eq sch hd] at h
      rw [checkCtor_ok h]
      exact frame_fresh_applyK sch k _ s

theorem deleteK_frame {sch : Schema} (hd : sch.pureDropsOther = false) {k : Kind} {obj : DelIdx}
    {s s' : St α lab} (h : deleteK sch k obj s = .ok s') : Frame k s s' := by
  unfold deleteK at h
  simp only [bind, Except.bind, pure, Except.pure] at h
  split at h
  · cases h
  · split at h
    · cases h
    · rw [newObj_eq sch hd] at h
      rw [checkCtor_ok h]
      exact frame_fresh_applyK sch k _ s

theorem removeK_frame {sch : Schema} {k : Kind} {obj : DelIdx}
    {s s' : St α lab} (h : removeK sch k obj s = .ok s') : Frame k s s' := by
  unfold removeK at h
  simp only [bind, Except.bind, pure, Except.pure] at h
  split at h
  · cases h
  · split at h
    · cases h
    · cases h
      exact frame_fresh_applyK sch k _ s

theorem reorderK_frame {sch : Schema} {k : Kind} {is : List Int}
    {s s' : St α lab} (h : reorderK sch k is s = .ok s') : Frame k s s' := by
  obtain ⟨ix, rfl⟩ := reorderK_eq h
  exact frame_fresh_applyK sch k _ s

theorem sortK_frame {le : lab → lab → Bool} {sch : Schema} {k : Kind}
    {keys : Option (List (Option (List lab)))} {s s' : St α lab}
    (h : sortK le sch k keys s = .ok s') : Frame k s s' := by
  obtain ⟨ix, _, rfl⟩ := sortK_eq h
  refine ⟨by simp [applyK, Bundle.mapCols, freshK, Bundle.ungrouped], ?_⟩
  intro kk hkk
  simp [applyK, bundle_setBundle_ne _ _ _ _ hkk, freshK]

theorem ungroupK_frame {sch : Schema} {k : Kind} {s s' : St α lab} (h : ungroupK sch k s = .ok s') :
    Frame k s s' := by
  rw [ungroupK_eq h]
  exact ⟨freshK_grp_same k s, fun kk hkk => freshK_bundle_ne k kk s hkk⟩

theorem adjoinCore_frame {sch : Schema} {k : Kind} {fill : α} {v : Operand α lab} {s s' : St α lab}
    (h : adjoinCore sch k fill v s = .ok s') : Frame k s s' := by
  unfold adjoinCore at h
  simp only [bind, Except.bind, pure, Except.pure] at h
  split at h
  · cases h
  · split at h
    · cases h
    · split at h
      · cases h
      · cases h
        exact ⟨by simp, fun kk hkk => by simp [bundle_setBundle_ne _ _ _ _ hkk]⟩

theorem insertCoreRaw_frame {sch : Schema} {k : Kind} {obj : InsIdx} {v : Operand α lab} {s s' : St α lab}
    (h : insertCoreRaw sch k obj v s = .ok s') : Frame k s s' := by
  unfold insertCoreRaw at h
  split at h
  · cases h
  · simp only [bind, Except.bind, pure, Except.pure] at h
    split at h
    · cases h
    · split at h
      · cases h
      · split at h
        · cases h
        · cases h
          exact ⟨by simp, fun kk hkk => by simp [bundle_setBundle_ne _ _ _ _ hkk]⟩

theorem insertCore_frame {sch : Schema} {k : Kind} {obj : InsIdx} {v : Operand α lab} {s s' : St α lab}
    (h : insertCore sch k obj v s = .ok s') : Frame k s s' :=
  insertCoreRaw_frame h

theorem frame_freshK {k : Kind} {s t : St α lab} (h : Frame k s t) : Frame k s (freshK k t) :=
  ⟨freshK_grp_same k t, fun kk hkk => by rw [freshK_bundle_ne k kk t hkk]; exact h.2 kk hkk⟩

theorem adjoinK_frame {sch : Schema} (hd : sch.pureDropsOther = false) {k : Kind} {fill : α}
    {v : Operand α lab} {s s' : St α lab} (h : adjoinK sch k fill v s = .ok s') : Frame k s s' := by
  unfold adjoinK at h
  simp only [bind, Except.bind] at h
  split at h
  · cases h
  · rename_i t ht
    rw [newObj_eq sch hd] at h
    rw [checkCtor_ok h]
    exact frame_freshK (adjoinCore_frame ht)

theorem insertK_frame {sch : Schema} (hd : sch.pureDropsOther = false) {k : Kind} {obj : InsIdx}
    {v : Operand α lab} {s s' : St α lab} (h : insertK sch k obj v s = .ok s') : Frame k s s' := by
  unfold insertK at h
  simp only [bind, Except.bind] at h
  split at h
  · cases h
  · rename_i t ht
    rw [newObj_eq sch hd] at h
    rw [checkCtor_ok h]
    exact frame_freshK (insertCore_frame ht)

theorem concatK_frame {sch : Schema} (hd : sch.pureDropsOther = false) {k : Kind}
    {s s' : St α lab} {rest : List (St α lab)} (h : concatK sch k (s :: rest) = .ok s') : Frame k s s' := by
  unfold concatK at h
  split at h
  · cases h
  · cases h
  · rename_i a as s0 rest' hax heq
    cases heq
    simp only [bind, Except.bind, pure, Except.pure] at h
    split at h
    · cases h
    · split at h
      · cases h
      · rw [newObj_eq sch hd] at h
        rw [checkCtor_ok h]
        exact frame_freshK ⟨by simp, fun kk hkk => by simp [bundle_setBundle_ne _ _ _ _ hkk]⟩

/-! ### the invariant -/

theorem groupedOK_iff [BEq lab] (sch : Schema) (s : St α lab) :
    groupedOK sch s = true ↔ grpOKk sch s .taxa = true ∧ grpOKk sch s .vrnt = true := by
  simp [groupedOK]

theorem grpOKk_congr [BEq lab] (sch : Schema) (s t : St α lab) (k : Kind) (h : t.bundle k = s.bundle k) :
    grpOKk sch t k = grpOKk sch s k := by
  simp [grpOKk, h]

theorem grpOKk_none [BEq lab] (sch : Schema) (s : St α lab) (k : Kind) (h : (s.bundle k).grp = none) :
    grpOKk sch s k = true := by
  simp [grpOKk, h]

/-- an operation with the frame property keeps the invariant -/
theorem groupedOK_of_frame [BEq lab] (sch : Schema) (k : Kind) (s s' : St α lab) (hf : Frame k s s')
    (h : groupedOK sch s = true) : groupedOK sch s' = true := by
  rw [groupedOK_iff] at h ⊢
  constructor
  · by_cases e : Kind.taxa = k
    · subst e; exact grpOKk_none sch s' _ hf.1
    · rw [grpOKk_congr sch s s' _ (hf.2 _ e)]; exact h.1
  · by_cases e : Kind.vrnt = k
    · subst e; exact grpOKk_none sch s' _ hf.1
    · rw [grpOKk_congr sch s s' _ (hf.2 _ e)]; exact h.2

/-- `group_<k>` keeps the invariant: the edited bundle gets a true partition -/
theorem groupedOK_groupK [LinearOrder lab] (sch : Schema) (k : Kind) (s s' : St α lab)
    (hg : groupK (fun a b : lab => decide (a ≤ b)) sch k s = .ok s')
    (h : groupedOK sch s = true) : groupedOK sch s' = true := by
  have hk : grpOKk sch s' k = true := by
    cases hgrp : (s'.bundle k).grp with
    | none => exact grpOKk_none sch s' k hgrp
    | some g =>
      obtain ⟨c, col, hc, hcol, hp, _, _⟩ := groupK_partition hg g hgrp
      simp [grpOKk, hgrp, hc, hcol, hp]
  have hoth : ∀ kk, kk ≠ k → s'.bundle kk = s.bundle kk := by
    obtain ⟨c, s1, _, hs1, hcase⟩ := groupK_eq hg
    have hfr := sortK_frame hs1
    intro kk hkk
    rcases hcase with ⟨_, rfl⟩ | ⟨col, _, rfl⟩
    · exact hfr.2 kk hkk
    · rw [bundle_setBundle_ne _ _ _ _ hkk]; exact hfr.2 kk hkk
  rw [groupedOK_iff] at h ⊢
  constructor
  · by_cases e : Kind.taxa = k
    · subst e; exact hk
    · rw [grpOKk_congr sch s s' _ (hoth _ e)]; exact h.1
  · by_cases e : Kind.vrnt = k
    · subst e; exact hk
    · rw [grpOKk_congr sch s s' _ (hoth _ e)]; exact h.2

/-! ### the same without assuming that non-mutating methods pass every label array on (D27) -/

/-- after the operation the edited bundle reports itself ungrouped and every other bundle is either
    exactly as before or reports itself ungrouped -/
def Frame' (k : Kind) (s s' : St α lab) : Prop :=
  (s'.bundle k).grp = none ∧ ∀ kk, kk ≠ k → s'.bundle kk = s.bundle kk ∨ (s'.bundle kk).grp = none

theorem Frame.weak {k : Kind} {s s' : St α lab} (h : Frame k s s') : Frame' k s s' :=
  ⟨h.1, fun kk hkk => Or.inl (h.2 kk hkk)⟩

theorem frame'_newObj (sch : Schema) {k : Kind} {s t : St α lab} (h : Frame k s t) :
    Frame' k s (newObj sch k t) := by
  by_cases hd : sch.pureDropsOther = false
  · rw [newObj_eq sch hd]
    exact (frame_freshK h).weak
  · have hd' : sch.pureDropsOther = true := by simpa using hd
    constructor
    · cases k <;> simp [newObj, hd', freshK, Bundle.ungrouped, St.setBundle, St.bundle]
    · intro kk hkk
      right
      cases k <;> cases kk <;> first | exact absurd rfl hkk | simp [newObj, hd', freshK, St.setBundle, St.bundle]

theorem groupedOK_of_frame' [BEq lab] (sch : Schema) (k : Kind) (s s' : St α lab) (hf : Frame' k s s')
    (h : groupedOK sch s = true) : groupedOK sch s' = true := by
  rw [groupedOK_iff] at h ⊢
  constructor
  · by_cases e : Kind.taxa = k
    · subst e; exact grpOKk_none sch s' _ hf.1
    · rcases hf.2 _ e with h1 | h1
      · rw [grpOKk_congr sch s s' _ h1]; exact h.1
      · exact grpOKk_none sch s' _ h1
  · by_cases e : Kind.vrnt = k
    · subst e; exact grpOKk_none sch s' _ hf.1
    · rcases hf.2 _ e with h1 | h1
      · rw [grpOKk_congr sch s s' _ h1]; exact h.2
      · exact grpOKk_none sch s' _ h1

theorem newObj_fresh (sch : Schema) (k : Kind) (t : St α lab) : newObj sch k (freshK k t) = newObj sch k t := by
  cases k <;> simp [newObj, freshK, Bundle.ungrouped, St.setBundle, St.bundle]

theorem frame'_newObj_applyK (sch : Schema) (k : Kind) (f : ListOp) (s : St α lab) :
    Frame' k s (newObj sch k (applyK sch k f s)) := by
  rw [← newObj_fresh]
  exact frame'_newObj sch (frame_fresh_applyK sch k f s)

theorem selectK_frame' {sch : Schema} {k : Kind} {is : List Int}
    {s s' : St α lab} (h : selectK sch k is s = .ok s') : Frame' k s s' := by
  unfold selectK at h
  simp only [bind, Except.bind, pure, Except.pure] at h
  split at h
  · cases h
  · split at h
    · cases h
    · rw [checkCtor_ok h]
      exact frame'_newObj_applyK sch k _ s

theorem deleteK_frame' {sch : Schema} {k : Kind} {obj : DelIdx}
    {s s' : St α lab} (h : deleteK sch k obj s = .ok s') : Frame' k s s' := by
  unfold deleteK at h
  simp only [bind, Except.bind, pure, Except.pure] at h
  split at h
  · cases h
  · split at h
    · cases h
    · rw [checkCtor_ok h]
      exact frame'_newObj_applyK sch k _ s

theorem adjoinK_frame' {sch : Schema} {k : Kind} {fill : α}
    {v : Operand α lab} {s s' : St α lab} (h : adjoinK sch k fill v s = .ok s') : Frame' k s s' := by
  unfold adjoinK at h
  simp only [bind, Except.bind] at h
  split at h
  · cases h
  · rename_i t ht
    rw [checkCtor_ok h]
    exact frame'_newObj sch (adjoinCore_frame ht)

theorem insertK_frame' {sch : Schema} {k : Kind} {obj : InsIdx}
    {v : Operand α lab} {s s' : St α lab} (h : insertK sch k obj v s = .ok s') : Frame' k s s' := by
  unfold insertK at h
  simp only [bind, Except.bind] at h
  split at h
  · cases h
  · rename_i t ht
    rw [checkCtor_ok h]
    exact frame'_newObj sch (insertCore_frame ht)

theorem concatK_frame' {sch : Schema} {k : Kind}
    {s s' : St α lab} {rest : List (St α lab)} (h : concatK sch k (s :: rest) = .ok s') : Frame' k s s' := by
  unfold concatK at h
  split at h
  · cases h
  · cases h
  · rename_i a as s0 rest' hax heq
    cases heq
    simp only [bind, Except.bind, pure, Except.pure] at h
    split at h
    · cases h
    · split at h
      · cases h
      · rw [checkCtor_ok h]
        exact frame'_newObj sch ⟨by simp, fun kk hkk => by simp [bundle_setBundle_ne _ _ _ _ hkk]⟩

end LabelMat
