/-
Helper lemmas for C13: inverse of the kinship view against the inverse of the coancestry matrix
(the factor 2 / 0.5 bookkeeping of `inverse(format)` and `min_inbreeding(format)`).
-/
import PybropsModel.Lemmas.CoancestryGJ
import PybropsModel.Lemmas.CoancestrySumm
import PybropsModel.Lemmas.CoancestryAxis
import Mathlib.Tactic
set_option autoImplicit false
set_option linter.unusedSectionVars false

namespace Coancestry
open Finset

section
variable {α : Type} [Field α]

/-- a left inverse and a right inverse of the same square matrix coincide (sum form on `range n`) -/
theorem left_eq_right_inverse (n : Nat) (a h k : Nat → Nat → α)
    (hr : ∀ i < n, ∀ j < n, ∑ l ∈ range n, a i l * h l j = if i = j then 1 else 0)
    (hl : ∀ i < n, ∀ j < n, ∑ l ∈ range n, k i l * a l j = if i = j then 1 else 0) :
    ∀ i < n, ∀ j < n, k i j = h i j := by
  intro i hi j hj
  have h1 : ∑ l ∈ range n, k i l * (∑ t ∈ range n, a l t * h t j) = k i j := by
    have : ∀ l ∈ range n, k i l * (∑ t ∈ range n, a l t * h t j) = if l = j then k i l else 0 := by
      intro l hl'
      rw [hr l (Finset.mem_range.mp hl') j hj]
      split <;> simp
    rw [Finset.sum_congr rfl this, Finset.sum_ite_eq' (range n) j (fun l => k i l)]
    simp [hj]
  have h2 : ∑ l ∈ range n, k i l * (∑ t ∈ range n, a l t * h t j) = h i j := by
    simp only [Finset.mul_sum]
    rw [Finset.sum_comm]
    have : ∀ t ∈ range n, ∑ l ∈ range n, k i l * (a l t * h t j) = if i = t then h t j else 0 := by
      intro t ht
      have := hl i hi t (Finset.mem_range.mp ht)
      rw [← Finset.sum_congr rfl (fun l _ => (mul_assoc (k i l) (a l t) (h t j))), ← Finset.sum_mul, this]
      split <;> simp
    rw [Finset.sum_congr rfl this, Finset.sum_ite_eq (range n) i (fun t => h t j)]
    simp [hi]
  rw [← h1, h2]

variable [LinearOrder α] [IsStrictOrderedRing α]

/-- **`inverse("kinship")` is twice `inverse("coancestry")`.**  Whenever the model's Gauss–Jordan elimination
    succeeds on both the coancestry matrix `G` and its kinship view `0.5·G`, the two results differ exactly by the
    factor 2, entry by entry. -/
theorem inverse_kinship_entries (G H K : List (List α)) (n : Nat) (hG : Rect n n G)
    (hH : inverse G = some H) (hK : inverseFmt true G = some K) :
    Rect n n K ∧ ∀ i < n, ∀ j < n, entry K i j = (1 + 1) * entry H i j := by
  obtain ⟨hHr, hHinv⟩ := inverse_isRightInverse G H n hG hH
  have hKG : Rect n n (asFormat true G) := hG.mapMat _
  obtain ⟨hKr, hKl⟩ := inverse_left (asFormat true G) K n hKG hK
  refine ⟨hKr, ?_⟩
  -- K · (G/2) = I  ⇒  (K/2) · G = I
  have hl : ∀ i < n, ∀ j < n, ∑ l ∈ range n, (half * entry K i l) * entry G l j = if i = j then 1 else 0 := by
    intro i hi j hj
    rw [← hKl i hi j hj]
    apply Finset.sum_congr rfl
    intro l hl'
    show _ = entry K i l * entry (mapMat (fun x => half * x) G) l j
    rw [entry_mapMat _ G n n l j hG (Finset.mem_range.mp hl') hj]
    ring
  have := left_eq_right_inverse n (fun i j => entry G i j) (fun i j => entry H i j)
    (fun i j => half * entry K i j) hHinv hl
  intro i hi j hj
  have h2 := this i hi j hj
  rw [← h2]
  unfold half
  field_simp

/-- `min_inbreeding("kinship")` — which the code computes as `0.5 · 1/Σ inv(G)` — is `1/Σ inv(K)` for the
    kinship matrix `K = 0.5·G` itself, with the model's own inverse on both sides -/
theorem min_inbreeding_kinship_direct (G K : List (List α)) (n : Nat) (hG : Rect n n G) (x : α)
    (hx : minInbreeding true G = some x) (hK : inverseFmt true G = some K) :
    x = minInbreedingOf K := by
  unfold minInbreeding at hx
  cases hH : inverse G with
  | none => rw [hH] at hx; simp at hx
  | some H =>
    rw [hH] at hx
    simp only [Option.map_some, Option.some.injEq] at hx
    obtain ⟨hKr, hE⟩ := inverse_kinship_entries G H K n hG hH hK
    obtain ⟨hHr, _⟩ := inverse_isRightInverse G H n hG hH
    rw [← hx]
    unfold minInbreedingOf
    rw [sumAll_eq K n n hKr, sumAll_eq H n n hHr]
    have : ∑ i ∈ range n, ∑ j ∈ range n, entry K i j = (1 + 1) * ∑ i ∈ range n, ∑ j ∈ range n, entry H i j := by
      rw [Finset.mul_sum]
      apply Finset.sum_congr rfl; intro i hi
      rw [Finset.mul_sum]
      apply Finset.sum_congr rfl; intro j hj
      exact hE i (Finset.mem_range.mp hi) j (Finset.mem_range.mp hj)
    rw [this]
    simp only [fmt, if_true, half]
    by_cases hs : ∑ i ∈ range n, ∑ j ∈ range n, entry H i j = 0
    · simp [hs]
    · field_simp

end

end Coancestry
