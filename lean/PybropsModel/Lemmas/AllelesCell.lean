/-
Helper definitions and lemmas for C04: the cell hypotheses shared by the allele theorems and the
entry form of `facount` / `dacount`.
-/
import PybropsModel.Lemmas.Alleles
import PybropsModel.Lemmas.GaussSeidelList
set_option autoImplicit false
set_option linter.unusedSectionVars false
set_option linter.unusedSimpArgs false
set_option linter.unusedVariables false

namespace C04
open GMod GSList

variable {α : Type} [Field α] [LinearOrder α] [IsStrictOrderedRing α]

/-- entry of an integer matrix (0 outside) -/
def ient (A : List (List Int)) (i j : ℕ) : Int := (A.getD i []).getD j 0


/-- entry of an integer / boolean result matrix -/
def bent (M : List (List Bool)) (j k : ℕ) : Bool := (M.getD j []).getD k false

/-- hypotheses shared by the allele theorems: a dosage matrix of `n` taxa × `p` markers with
    entries in `0 … ploidy`, effects `(p,t)`, and a cell `(j,k)` in range -/
structure Cell (ploidy n p t : ℕ) (A : List (List Int)) (ua : List (List α)) (j k : ℕ) : Prop where
  ok : Alleles.DosageOK ploidy n p A
  ua_len : ua.length = p
  ua_row : (ua.getD j []).length = t
  hj : j < p
  hk : k < t

theorem facount_entry {ploidy n p t : ℕ} {A : List (List Int)} {ua : List (List α)} {j k : ℕ}
    (c : Cell ploidy n p t A ua j k) :
    ient (facount ua ploidy A) j k = faCell ((ploidy * n : ℕ) : Int) (matFn ua j k) ((acount p A).getD j 0) := by
  unfold facount ient
  rw [Alleles.cellMap_entry _ 0 ua _ j k (by rw [c.ua_len]; exact c.hj)
        (by rw [Alleles.acount_length, c.ua_len]; exact c.hj) (by rw [c.ua_row]; exact c.hk),
      c.ok.rows, c.ua_len]
  rfl

theorem dacount_entry {ploidy n p t : ℕ} {A : List (List Int)} {ua : List (List α)} {j k : ℕ}
    (c : Cell ploidy n p t A ua j k) :
    ient (dacount ua ploidy A) j k = daCell ((ploidy * n : ℕ) : Int) (matFn ua j k) ((acount p A).getD j 0) := by
  unfold dacount ient
  rw [Alleles.cellMap_entry _ 0 ua _ j k (by rw [c.ua_len]; exact c.hj)
        (by rw [Alleles.acount_length, c.ua_len]; exact c.hj) (by rw [c.ua_row]; exact c.hk),
      c.ok.rows, c.ua_len]
  rfl


theorem facount_shape {ploidy n p t : ℕ} {A : List (List Int)} {ua : List (List α)} {j k : ℕ}
    (c : Cell ploidy n p t A ua j k) :
    j < (facount ua ploidy A).length ∧ k < ((facount ua ploidy A).getD j []).length := by
  unfold facount
  obtain ⟨h1, h2⟩ := Alleles.cellMap_shape (faCell ((ploidy * A.length : ℕ) : Int)) ua (acount ua.length A) j
    (by rw [c.ua_len]; exact c.hj) (by rw [Alleles.acount_length, c.ua_len]; exact c.hj)
  refine ⟨by rw [h1, Alleles.acount_length, min_self, c.ua_len]; exact c.hj, by rw [h2, c.ua_row]; exact c.hk⟩


theorem dacount_shape {ploidy n p t : ℕ} {A : List (List Int)} {ua : List (List α)} {j k : ℕ}
    (c : Cell ploidy n p t A ua j k) :
    j < (dacount ua ploidy A).length ∧ k < ((dacount ua ploidy A).getD j []).length := by
  unfold dacount
  obtain ⟨h1, h2⟩ := Alleles.cellMap_shape (daCell ((ploidy * A.length : ℕ) : Int)) ua (acount ua.length A) j
    (by rw [c.ua_len]; exact c.hj) (by rw [Alleles.acount_length, c.ua_len]; exact c.hj)
  refine ⟨by rw [h1, Alleles.acount_length, min_self, c.ua_len]; exact c.hj, by rw [h2, c.ua_row]; exact c.hk⟩

/-- the three flags of a count matrix, entry-wise -/
theorem flags_of_count (cnt : List (List Int)) (m : Int) (j k : ℕ)
    (hs1 : j < cnt.length) (hs2 : k < (cnt.getD j []).length) :
    bent (mapM2 (fun c => decide (0 < c)) cnt) j k = decide (0 < ient cnt j k) ∧
    bent (mapM2 (fun c => decide (c = m)) cnt) j k = decide (ient cnt j k = m) ∧
    bent (mapM2 (fun c => decide (0 < c) && decide (c < m)) cnt) j k
      = (decide (0 < ient cnt j k) && decide (ient cnt j k < m)) := by
  unfold bent ient
  refine ⟨?_, ?_, ?_⟩ <;> rw [Alleles.mapM2_entry _ _ 0 false j k hs1 hs2]

end C04
