/-
File-level lemmas for the HDF5 store model (C16): the primitives `mem / del / create / putLeaf`
against the abstract view of a file as a partial function `Path → Option DS`.
-/
import Mathlib.Tactic
import PybropsModel.Model.Store

set_option autoImplicit false

namespace Store

/-- abstract view of a file -/
abbrev Sem := Path → Option DS

/-- delete whatever lives at or below `p`, then store `d` at `p` -/
def upd (s : Sem) (p : Path) (d : DS) : Sem :=
  fun q => if q = p then some d else if p <+: q then none else s q
def erase (s : Sem) (p : Path) : Sem := fun q => if p <+: q then none else s q

def keys (f : File) : List Path := f.map Prod.fst

def KeysIn (S : Path → Prop) (f : File) : Prop := ∀ e ∈ f, S e.1
def PrefixFree (S : Path → Prop) : Prop := ∀ p q, S p → S q → p <+: q → p = q
def SuppIn (S : Path → Prop) (s : Sem) : Prop := ∀ q, s q ≠ none → S q

theorem isPrefixOf_iff (p q : Path) : p.isPrefixOf q = true ↔ p <+: q := List.isPrefixOf_iff_prefix

theorem isPrefixOf_false_iff (p q : Path) : p.isPrefixOf q = false ↔ ¬ p <+: q := by
  rw [← Bool.not_eq_true, isPrefixOf_iff]

theorem mem_eq_true_iff (f : File) (p : Path) :
    mem f p = true ↔ p = [] ∨ ∃ e ∈ f, p <+: e.1 := by
  unfold mem
  simp only [Bool.or_eq_true, beq_iff_eq, List.any_eq_true, isPrefixOf_iff]

theorem mem_eq_false_iff (f : File) (p : Path) :
    mem f p = false ↔ p ≠ [] ∧ ∀ e ∈ f, ¬ p <+: e.1 := by
  rw [← Bool.not_eq_true, mem_eq_true_iff]
  push Not
  rfl

theorem mem_del_iff (f : File) (p : Path) (e : Path × DS) :
    e ∈ del f p ↔ e ∈ f ∧ ¬ p <+: e.1 := by
  unfold del
  simp [List.mem_filter, isPrefixOf_false_iff]

theorem del_eq_self_of_not_mem (f : File) (p : Path) (h : mem f p = false) : del f p = f := by
  unfold del
  rw [List.filter_eq_self]
  intro e he
  have := ((mem_eq_false_iff f p).mp h).2 e he
  simp [isPrefixOf_false_iff, this]

theorem lookup_nil (q : Path) : lookup [] q = none := rfl

theorem lookup_cons (e : Path × DS) (f : File) (q : Path) :
    lookup (e :: f) q = if q = e.1 then some e.2 else lookup f q := by
  unfold lookup
  obtain ⟨p, d⟩ := e
  by_cases h : q = p
  · subst h; simp [List.lookup]
  · have : (q == p) = false := by simpa using h
    simp [List.lookup, this, h]

theorem lookup_del (f : File) (p q : Path) :
    lookup (del f p) q = if p <+: q then none else lookup f q := by
  induction f with
  | nil => simp [del, lookup_nil]
  | cons e f ih =>
    have hd : del (e :: f) p = if p <+: e.1 then del f p else e :: del f p := by
      unfold del
      by_cases h : p <+: e.1
      · simp [List.filter_cons, isPrefixOf_iff, h]
      · simp [List.filter_cons, isPrefixOf_iff, h]
    rw [hd]
    by_cases h : p <+: e.1
    · rw [if_pos h, ih, lookup_cons]
      by_cases hq : q = e.1
      · subst hq; simp [h]
      · simp [hq]
    · rw [if_neg h, lookup_cons, lookup_cons, ih]
      by_cases hq : q = e.1
      · subst hq; simp [h]
      · simp [hq]

theorem lookup_some_mem (f : File) (q : Path) (d : DS) (h : lookup f q = some d) : (q, d) ∈ f := by
  induction f with
  | nil => simp [lookup_nil] at h
  | cons e f ih =>
    rw [lookup_cons] at h
    by_cases hq : q = e.1
    · rw [if_pos hq] at h
      have : e.2 = d := by simpa using h
      subst hq; subst this
      exact List.mem_cons_self
    · rw [if_neg hq] at h
      exact List.mem_cons_of_mem _ (ih h)

theorem lookup_of_mem_nodup (f : File) (hnd : (keys f).Nodup) (e : Path × DS) (he : e ∈ f) :
    lookup f e.1 = some e.2 := by
  induction f with
  | nil => simp at he
  | cons a f ih =>
    rw [lookup_cons]
    simp only [keys, List.map_cons, List.nodup_cons] at hnd
    rcases List.mem_cons.mp he with h | h
    · subst h; simp
    · have hne : e.1 ≠ a.1 := by
        intro heq
        exact hnd.1 (heq ▸ List.mem_map_of_mem (f := Prod.fst) h)
      rw [if_neg hne]
      exact ih hnd.2 h

theorem lookup_ne_none_iff (f : File) (q : Path) : lookup f q ≠ none ↔ q ∈ keys f := by
  induction f with
  | nil => simp [lookup_nil, keys]
  | cons e f ih =>
    rw [lookup_cons]
    by_cases hq : q = e.1
    · simp [hq, keys]
    · rw [if_neg hq, ih]
      simp [keys, hq]

theorem keysIn_del {S : Path → Prop} {f : File} (h : KeysIn S f) (p : Path) : KeysIn S (del f p) :=
  fun e he => h e ((mem_del_iff f p e).mp he).1

theorem nodup_del {f : File} (h : (keys f).Nodup) (p : Path) : (keys (del f p)).Nodup := by
  unfold keys del
  exact (List.filter_sublist.map Prod.fst).nodup h

theorem not_mem_keys_del (f : File) (p : Path) : p ∉ keys (del f p) := by
  intro h
  obtain ⟨e, he, rfl⟩ := List.mem_map.mp h
  exact ((mem_del_iff f _ e).mp he).2 (List.prefix_refl _)

theorem mem_del_self (f : File) (p : Path) (hp : p ≠ []) : mem (del f p) p = false := by
  rw [mem_eq_false_iff]
  exact ⟨hp, fun e he => ((mem_del_iff f p e).mp he).2⟩

/-- the overwriting `putLeaf` succeeds on a file whose keys, together with `p`, are prefix-free -/
theorem putLeaf_ok {S : Path → Prop} (hS : PrefixFree S) {f : File} (hf : KeysIn S f) {p : Path}
    (hp : S p) (hne : p ≠ []) (d : DS) :
    putLeaf f p true d = ((p, d) :: del f p, none) := by
  have h1 : (if (mem f p && true) = true then del f p else f) = del f p := by
    by_cases hm : mem f p = true
    · simp [hm]
    · have hm' : mem f p = false := by simpa using hm
      simp [hm', del_eq_self_of_not_mem f p hm']
  unfold putLeaf
  rw [h1]
  unfold create
  have hpe : (p == []) = false := by simpa using hne
  rw [hpe, mem_del_self f p hne]
  have h3 : (del f p).any (fun e => e.1.isPrefixOf p) = false := by
    rw [List.any_eq_false]
    intro e he
    rw [isPrefixOf_iff]
    intro hpre
    obtain ⟨hef, hnp⟩ := (mem_del_iff f p e).mp he
    have : e.1 = p := hS _ _ (hf e hef) hp hpre
    exact hnp (this ▸ List.prefix_refl _)
  simp [h3]

theorem lookup_put (f : File) (p : Path) (d : DS) :
    lookup ((p, d) :: del f p) = upd (lookup f) p d := by
  funext q
  rw [lookup_cons, lookup_del]
  rfl

theorem keysIn_put {S : Path → Prop} {f : File} (hf : KeysIn S f) {p : Path} (hp : S p) (d : DS) :
    KeysIn S ((p, d) :: del f p) := by
  intro e he
  rcases List.mem_cons.mp he with h | h
  · subst h; exact hp
  · exact keysIn_del hf p e h

theorem nodup_put {f : File} (h : (keys f).Nodup) (p : Path) (d : DS) :
    (keys ((p, d) :: del f p)).Nodup := by
  show ((p :: keys (del f p))).Nodup
  exact List.nodup_cons.mpr ⟨not_mem_keys_del f p, nodup_del h p⟩

theorem lookup_erase (f : File) (p : Path) : lookup (del f p) = erase (lookup f) p := by
  funext q
  rw [lookup_del]
  rfl

theorem suppIn_lookup {S : Path → Prop} {f : File} (hf : KeysIn S f) : SuppIn S (lookup f) := by
  intro q hq
  obtain ⟨e, he, rfl⟩ := List.mem_map.mp ((lookup_ne_none_iff f q).mp hq)
  exact hf e he

end Store
