/-
Helper lemmas for C14, part 8: the EXPECTATION of the realised variance.  For pairwise independent, identically distributed,
square-integrable draws `X 0, …, X (n-1)` the population variance of the sample has expectation `(n-1)/n · Var[X 0]`
(so the unbiased sample variance `n/(n-1) · popVar` has expectation exactly `Var[X 0]`); specialised to the push-forward of
the product measure `N(0, v)^ℕ` (numpy's contract for the error draws): `(n-1)/n · v`.
-/
import PybropsModel.Lemmas.PhenoLLN
set_option autoImplicit false
set_option linter.unusedSectionVars false

namespace Pheno
open MeasureTheory ProbabilityTheory

section expect
variable {Ω : Type} [MeasurableSpace Ω] {μ : Measure Ω} [IsProbabilityMeasure μ]

theorem popVar_integral (X : ℕ → Ω → ℝ) (hL2 : MemLp (X 0) 2 μ)
    (hindep : Pairwise (Function.onFun (fun f g => f ⟂ᵢ[μ] g) X))
    (hident : ∀ i, IdentDistrib (X i) (X 0) μ μ) (n : ℕ) (hn : 0 < n) :
    ∫ ω, popVar ((List.range n).map (fun i => X i ω)) ∂μ = ((n : ℝ) - 1) / n * Var[X 0; μ] := by
  have hmem : ∀ i, MemLp (X i) 2 μ := fun i => (hident i).symm.memLp_snd hL2
  have hnz : (n : ℝ) ≠ 0 := by exact_mod_cast hn.ne'
  -- the sum of the draws
  have hSmem : MemLp (∑ i ∈ Finset.range n, X i) 2 μ := by
    have := memLp_finsetSum (Finset.range n) (fun i _ => hmem i)
    convert this using 1
    ext ω; simp
  have hvarS : Var[∑ i ∈ Finset.range n, X i; μ] = n * Var[X 0; μ] := by
    rw [IndepFun.variance_sum (fun i _ => hmem i) (fun i _ j _ hij => hindep hij)]
    rw [Finset.sum_congr rfl (fun i _ => (hident i).variance_eq)]
    simp
  have hES : ∫ ω, (∑ i ∈ Finset.range n, X i) ω ∂μ = n * ∫ ω, X 0 ω ∂μ := by
    simp only [Finset.sum_apply]
    rw [integral_finsetSum _ (fun i _ => (hmem i).integrable one_le_two)]
    rw [Finset.sum_congr rfl (fun i _ => (hident i).integral_eq)]
    simp
  have hES2 : ∫ ω, ((∑ i ∈ Finset.range n, X i) ω) ^ 2 ∂μ =
      n * Var[X 0; μ] + (n * ∫ ω, X 0 ω ∂μ) ^ 2 := by
    have := variance_eq_sub hSmem
    rw [hvarS] at this
    simp only [Pi.pow_apply] at this
    rw [hES] at this
    linarith
  have hEX2 : ∀ i, ∫ ω, X i ω ^ 2 ∂μ = ∫ ω, X 0 ω ^ 2 ∂μ := fun i => (hident i).sq.integral_eq
  have hvar0 : Var[X 0; μ] = ∫ ω, X 0 ω ^ 2 ∂μ - (∫ ω, X 0 ω ∂μ) ^ 2 := by
    have := variance_eq_sub hL2
    simpa only [Pi.pow_apply] using this
  -- the pointwise identity
  have hpoint : ∀ ω, popVar ((List.range n).map (fun i => X i ω)) =
      (1 / (n : ℝ)) * (∑ i ∈ Finset.range n, X i ω ^ 2) -
        (1 / (n : ℝ) ^ 2) * ((∑ i ∈ Finset.range n, X i) ω) ^ 2 := by
    intro ω
    have hne : (List.range n).map (fun i => X i ω) ≠ [] := by
      intro h
      have : n = 0 := by simpa using h
      omega
    rw [popVar_eq_meansq_sub_sqmean _ hne]
    simp only [List.map_map, List.length_map, List.length_range]
    rw [list_range_map_sum, list_range_map_sum]
    simp only [Function.comp, Finset.sum_apply]
    field_simp
  have hint1 : Integrable (fun ω => (1 / (n : ℝ)) * (∑ i ∈ Finset.range n, X i ω ^ 2)) μ :=
    (integrable_finsetSum _ (fun i _ => (hmem i).integrable_sq)).const_mul _
  have hint2 : Integrable (fun ω => (1 / (n : ℝ) ^ 2) * ((∑ i ∈ Finset.range n, X i) ω) ^ 2) μ :=
    hSmem.integrable_sq.const_mul _
  rw [integral_congr_ae (Filter.Eventually.of_forall hpoint), integral_sub hint1 hint2, integral_const_mul,
    integral_const_mul, integral_finsetSum _ (fun i _ => (hmem i).integrable_sq),
    Finset.sum_congr rfl (fun i _ => hEX2 i), hES2, hvar0]
  simp only [Finset.sum_const, Finset.card_range, nsmul_eq_mul]
  field_simp
  ring

end expect

section product

/-- for ANY law `ν` with finite second moment: the population variance of the first `n` coordinates of `ν^ℕ` has
    expectation `(n-1)/n · Var ν` -/
theorem popVar_integral_product (ν : Measure ℝ) [IsProbabilityMeasure ν] (h2 : MemLp (id : ℝ → ℝ) 2 ν) (n : ℕ) (hn : 0 < n) :
    ∫ ω, popVar ((List.range n).map (fun i => coord i ω)) ∂(Measure.infinitePi (fun _ : ℕ => ν)) =
      ((n : ℝ) - 1) / n * Var[id; ν] := by
  obtain ⟨hL2, hindep, hident, hvar⟩ := coord_iid ν h2
  rw [← hvar]
  exact popVar_integral coord hL2 hindep hident n hn

/-- normal draws `N(0, v)` -/
theorem popVar_integral_gaussian (v : NNReal) (n : ℕ) (hn : 0 < n) :
    ∫ ω, popVar ((List.range n).map (fun i => coord i ω)) ∂(Measure.infinitePi (fun _ : ℕ => gaussianReal 0 v)) =
      ((n : ℝ) - 1) / n * (v : ℝ) := by
  have := popVar_integral_product (gaussianReal 0 v) (memLp_id_gaussianReal 2) n hn
  rwa [variance_id_gaussianReal] at this

end product

end Pheno
