/-
Helper lemmas for C18 (13): soundness of the Spec clauses on the model's outputs — part 2, the value clauses
(`conserve`, `ohv_def`, `ohv_ge_dh`, `opv_def`, `ohv_latent_def`, `gb_def`).
-/
import PybropsModel.Lemmas.HaploSpecSound
import PybropsModel.Lemmas.HaploSort
set_option autoImplicit false
set_option linter.unusedSectionVars false

namespace Haplo

theorem getD_mem_of_lt {β : Type} (l : List β) (i : Nat) (h : i < l.length) (d : β) : l.getD i d ∈ l := by
  simp [List.getD_eq_getElem?_getD, List.getElem?_eq_getElem h]

theorem getD_map_lt {β γ : Type} (l : List β) (f : β → γ) (i : Nat) (h : i < l.length) (d : γ) (d' : β) :
    (l.map f).getD i d = f (l.getD i d') := by
  simp [List.getD_eq_getElem?_getD, List.getElem?_eq_getElem h]

section
variable {α : Type} [Field α] [LinearOrder α] [IsStrictOrderedRing α]

theorem maxS_ge_left (a b : α) : a ≤ Spec.maxS a b := by
  unfold Spec.maxS
  split
  · rename_i h; exact h.le
  · exact le_refl _

theorem approx_refl (a : α) : Spec.approx a a = true := by
  have h0 : Spec.absS (a - a) = 0 := by simp [Spec.absS]
  simp only [Spec.approx, decide_eq_true_eq, h0]
  apply mul_nonneg
  · apply div_nonneg <;> exact Nat.cast_nonneg _
  · exact le_trans (Nat.cast_nonneg 1) (maxS_ge_left _ _)

theorem approx_of_eq (a b : α) (h : a = b) : Spec.approx a b = true := h ▸ approx_refl a

/-- the scaled tolerance accepts equal values whatever the scale is (negative scales included) -/
theorem approxS_refl (s a : α) : Spec.approxS s a a = true := by
  have h0 : Spec.absS (a - a) = 0 := by simp [Spec.absS]
  have habs : (0 : α) ≤ Spec.absS a := by
    unfold Spec.absS
    split
    · rename_i h; exact (neg_pos.mpr h).le
    · rename_i h; exact not_lt.mp h
  simp only [Spec.approxS, decide_eq_true_eq, h0]
  apply mul_nonneg
  · apply div_nonneg <;> exact Nat.cast_nonneg _
  · have h1 : (0 : α) ≤ Spec.maxS (Spec.absS a) (Spec.absS a) := le_trans habs (maxS_ge_left _ _)
    show (0 : α) ≤ Spec.maxS s (Spec.maxS (Spec.absS a) (Spec.absS a))
    generalize Spec.maxS (Spec.absS a) (Spec.absS a) = m at h1
    unfold Spec.maxS
    split
    · exact h1
    · rename_i h; exact le_trans h1 (not_lt.mp h)

theorem approxS_of_eq (s a b : α) (h : a = b) : Spec.approxS s a b = true := h ▸ approxS_refl s a

/-- `conserve` accepts the fully written haplotype matrix of the model -/
theorem conserve_sound {β : Type} [DecidableEq β] (l : List β) (hne : l ≠ []) (geno : List (List (List α)))
    (ucols : List (List α)) (hg : ∀ gm ∈ geno, ∀ g ∈ gm, g.length = l.length)
    (hu : ∀ u ∈ ucols, u.length = l.length) :
    Spec.conserve geno ucols (Spec.hmatTotal geno ucols (blockPairs l)) (nruns l) = true := by
  simp only [Spec.conserve, Spec.hmatTotal, List.length_map, beq_self_eq_true, Bool.true_and, List.all_eq_true,
    List.mem_range, Bool.and_eq_true, beq_iff_eq]
  intro m hm
  rw [getD_map_lt geno _ m hm [] []]
  refine ⟨by simp, ?_⟩
  intro i hi
  have hi' : i < (geno.getD m []).length := hi
  rw [getD_map_lt (geno.getD m []) _ i hi' [] []]
  refine ⟨by simp [blockPairs_length], ?_⟩
  intro t ht
  apply approxS_of_eq
  have hgm : geno.getD m [] ∈ geno := getD_mem_of_lt geno m hm []
  have hgi : (geno.getD m []).getD i [] ∈ geno.getD m [] := getD_mem_of_lt _ i hi' []
  have hut : ucols.getD t [] ∈ ucols := getD_mem_of_lt ucols t ht []
  rw [npsum_eq, List.map_map]
  have : ((fun row : List α => row.getD t 0) ∘ fun b => ucols.map (fun u => blockVal ((geno.getD m []).getD i []) u b))
      = blockVal ((geno.getD m []).getD i []) (ucols.getD t []) := by
    funext b
    simp only [Function.comp]
    rw [getD_map_lt ucols _ t ht 0 []]
  rw [this]
  exact value_conserved_aux l hne _ _ (hg _ hgm _ hgi) (hu _ hut)
where
  value_conserved_aux {β : Type} [DecidableEq β] (l : List β) (hne : l ≠ []) (g u : List α)
      (hg : g.length = l.length) (hu : u.length = l.length) :
      ((blockPairs l).map (blockVal g u)).sum = Np.dot g u := by
    cases l with
    | nil => exact absurd rfl hne
    | cons a xs =>
      have hchain : (0 :: (breaksFrom a 1 xs ++ [xs.length + 1])).Pairwise (· ≤ ·) :=
        (starts_chain a xs).imp (fun h => Nat.le_of_lt h)
      have := sum_blockVal_chain g u (by rw [hg, hu]) 0 (xs.length + 1) (breaksFrom a 1 xs) hchain
      simp only [blockPairs]
      rw [this]
      simp only [blockVal]
      have e1 : slice 0 (xs.length + 1) g = g := by
        have : xs.length + 1 = g.length := by simp [hg]
        rw [this]; exact slice_zero_length g
      have e2 : slice 0 (xs.length + 1) u = u := by
        have : xs.length + 1 = u.length := by simp [hu]
        rw [this]; exact slice_zero_length u
      rw [e1, e2]

/-- the model's `ohvmat` (all block columns written) -/
def ohvmatModel (geno : List (List (List α))) (ucols : List (List α)) (bnds : List (Nat × Nat))
    (xm : List (List Nat)) : List (List α) :=
  xm.map (fun par => ucols.map (fun u => ohv (blockTable geno u bnds) bnds.length par))

theorem ohvmatModel_entry (geno : List (List (List α))) (ucols : List (List α)) (bnds : List (Nat × Nat))
    (xm : List (List Nat)) (s t : Nat) (hs : s < xm.length) (ht : t < ucols.length) :
    ((ohvmatModel geno ucols bnds xm).getD s []).getD t 0 =
      ohv (blockTable geno (ucols.getD t []) bnds) bnds.length (xm.getD s []) := by
  unfold ohvmatModel
  rw [getD_map_lt xm _ s hs [] [], getD_map_lt ucols _ t ht 0 []]

theorem ohvDef_sound (geno : List (List (List α))) (ucols : List (List α)) (bnds : List (Nat × Nat))
    (xm : List (List Nat)) : Spec.ohvDef geno ucols bnds xm (ohvmatModel geno ucols bnds xm) = true := by
  simp only [Spec.ohvDef, Bool.and_eq_true, beq_iff_eq, List.all_eq_true, List.mem_range]
  refine ⟨by simp [ohvmatModel], ?_⟩
  intro t ht s hs
  exact approxS_of_eq _ _ _ (ohvmatModel_entry geno ucols bnds xm s t hs ht)

theorem opvDef_sound (geno : List (List (List α))) (ucols : List (List α)) (bnds : List (Nat × Nat))
    (x : List Nat) :
    Spec.opvDef geno ucols bnds x (ucols.map (fun u => opvLatent (blockTable geno u bnds) bnds.length x)) = true := by
  simp only [Spec.opvDef, List.length_map, beq_self_eq_true, Bool.true_and, List.all_eq_true, List.mem_range]
  intro t ht
  apply approxS_of_eq
  rw [getD_map_lt ucols _ t ht 0 [], opvLatent_eq, neg_neg]

theorem ohvLatent_eq_mean (col : List α) (x : List Nat) (hx : ∀ i ∈ x, i < col.length) :
    ohvLatent col x = -(Np.sum (x.map (fun i => col.getD i 0)) / (x.length : α)) := by
  unfold ohvLatent
  have : x.filterMap (fun i => col[i]?) = x.map (fun i => col.getD i 0) := by
    induction x with
    | nil => rfl
    | cons a t ih =>
      have ha : a < col.length := hx a List.mem_cons_self
      simp only [List.filterMap_cons, List.getElem?_eq_getElem ha, List.map_cons]
      rw [ih (fun i hi => hx i (List.mem_cons_of_mem _ hi))]
      simp [List.getD_eq_getElem?_getD, List.getElem?_eq_getElem ha]
  rw [this]
  simp only [Nat.cast_one]
  ring

/-- the model's OHV latent vector: one entry per trait, computed from column `t` of `ohvmat` -/
def ohvLatentModel (ohvmat : List (List α)) (ntrait : Nat) (x : List Nat) : List α :=
  (List.range ntrait).map (fun t => ohvLatent (ohvmat.map (fun row => row.getD t 0)) x)

theorem ohvLatentDef_sound (sc : List α) (ohvmat : List (List α)) (ntrait : Nat) (x : List Nat)
    (hx : ∀ i ∈ x, i < ohvmat.length) :
    Spec.ohvLatentDef sc ohvmat x (ohvLatentModel ohvmat ntrait x) = true := by
  simp only [Spec.ohvLatentDef, ohvLatentModel, List.length_map, List.length_range, List.all_eq_true, List.mem_range]
  intro t ht
  apply approxS_of_eq
  rw [getD_map_lt (List.range ntrait) _ t (by simpa using ht) 0 0]
  have ht' : (List.range ntrait).getD t 0 = t := by
    simp [List.getD_eq_getElem?_getD, List.getElem?_eq_getElem (by simpa using ht : t < (List.range ntrait).length)]
  rw [ht', ohvLatent_eq_mean _ x (by simpa using hx)]
  congr 3
  apply List.map_congr_left
  intro i hi
  rw [getD_map_lt ohvmat _ i (hx i hi) 0 []]

theorem gbDef_sound (geno : List (List (List α))) (ucols : List (List α)) (bnds : List (Nat × Nat))
    (x : List Nat) (nbest : Nat) (hnb : nbest ≤ x.length) :
    Spec.gbDef geno ucols bnds x nbest
      (ucols.map (fun u => gbLatent (blockTable geno u bnds) bnds.length x nbest)) = true := by
  simp only [Spec.gbDef, List.length_map, beq_self_eq_true, Bool.true_and, List.all_eq_true, List.mem_range]
  intro t ht
  apply approxS_of_eq
  rw [getD_map_lt ucols _ t ht 0 []]
  unfold gbLatent
  have hl : (blockTable geno (ucols.getD t []) bnds).length = geno.length := by simp [blockTable]
  rw [hl]
  congr 2
  apply List.map_congr_left
  intro b _
  unfold gbPerBlock
  rw [npsum_eq, npsum_eq]
  have hlen : (x.map (fun p => (bestBlock (blockTable geno (ucols.getD t []) bnds) [p] b).getD 0)).length = x.length := by
    simp
  have := drop_asc_sum_eq_take_desc_sum
    (x.map (fun p => (bestBlock (blockTable geno (ucols.getD t []) bnds) [p] b).getD 0)) nbest (by rw [hlen]; exact hnb)
  rw [hlen] at this
  exact this

/-- value of a block-boundary doubled haploid ≤ optimal haploid value of the cross (lemma form of
    `C18.ohv_ge_any_dh`) -/
theorem dh_le_ohv (l : List Nat) (hne : l ≠ []) (geno : List (List (List α))) (u : List α)
    (hu : u.length = l.length) (hgeno : ∀ gm ∈ geno, ∀ g ∈ gm, g.length = l.length)
    (parents : List Nat) (ch : Nat → Nat × Nat)
    (hch : ∀ b, b < nruns l → (ch b).2 ∈ parents ∧
      ((geno[(ch b).1]?).bind (fun gm => gm[(ch b).2]?)).isSome) :
    (geno.length : α) *
        Np.dot (mosaic (blockPairs l) ((List.range (nruns l)).map (fun b => copyOf geno (ch b)))) u
      ≤ ohv (blockTable geno u (blockPairs l)) (nruns l) parents := by
  rw [mosaic_value l hne geno u hu hgeno ch (fun b hb => (hch b hb).2)]
  have hlen : (blockTable geno u (blockPairs l)).length = geno.length := by simp [blockTable]
  rw [← hlen]
  apply ohv_ge_choice
  intro b hb
  obtain ⟨hp, hs⟩ := hch b hb
  refine ⟨hp, ?_⟩
  obtain ⟨g, hg⟩ := Option.isSome_iff_exists.mp hs
  rw [pick_blockTable geno u _ (ch b) b g hg (by rw [blockPairs_length]; exact hb)]
  rfl

theorem copyOf'_eq (geno : List (List (List α))) (c : Nat × Nat) :
    Spec.ohvGeDh.copyOf' geno c = copyOf geno c := by
  unfold Spec.ohvGeDh.copyOf' copyOf
  cases h : geno[c.1]? with
  | none => simp [List.getD_eq_getElem?_getD, h]
  | some gm => simp [List.getD_eq_getElem?_getD, h]

/-- `ohv_ge_dh` accepts the model's `ohvmat`, whatever choices are proposed -/
theorem ohvGeDh_sound (l : List Nat) (hne : l ≠ []) (geno : List (List (List α))) (ucols : List (List α))
    (hgne : geno ≠ []) (hg : ∀ gm ∈ geno, ∀ g ∈ gm, g.length = l.length)
    (hu : ∀ u ∈ ucols, u.length = l.length) (xm : List (List Nat))
    (hxm : ∀ par ∈ xm, par ≠ [] ∧ ∀ p ∈ par, ∀ gm ∈ geno, p < gm.length)
    (choices : List (List (Nat × Nat))) :
    Spec.ohvGeDh geno ucols (blockPairs l) xm (ohvmatModel geno ucols (blockPairs l) xm) choices = true := by
  simp only [Spec.ohvGeDh, List.all_eq_true, List.mem_range, Bool.or_eq_true, decide_eq_true_eq]
  intro chl _ s hs t ht
  left
  rw [ohvmatModel_entry geno ucols (blockPairs l) xm s t hs ht, blockPairs_length]
  set par := xm.getD s [] with hpar
  have hparm : par ∈ xm := getD_mem_of_lt xm s hs []
  obtain ⟨hpne, hpv⟩ := hxm par hparm
  have hut : (ucols.getD t []).length = l.length := hu _ (getD_mem_of_lt ucols t ht [])
  have hglen : 0 < geno.length := List.length_pos_of_ne_nil hgne
  have hplen : 0 < par.length := List.length_pos_of_ne_nil hpne
  let ch : Nat → Nat × Nat := fun b =>
    ((chl.getD (b % (max chl.length 1)) (0, 0)).1 % (max geno.length 1),
     par.getD ((chl.getD (b % (max chl.length 1)) (0, 0)).2 % (max par.length 1)) 0)
  have hsrc : (List.range (nruns l)).map (fun b =>
        Spec.ohvGeDh.copyOf' geno ((chl.getD (b % (max chl.length 1)) (0, 0)).1 % (max geno.length 1),
          par.getD ((chl.getD (b % (max chl.length 1)) (0, 0)).2 % (max par.length 1)) 0))
      = (List.range (nruns l)).map (fun b => copyOf geno (ch b)) := by
    apply List.map_congr_left
    intro b _
    exact copyOf'_eq geno _
  rw [hsrc]
  apply dh_le_ohv l hne geno _ hut hg par ch
  intro b _
  have hm : (ch b).1 < geno.length := by
    show (chl.getD (b % (max chl.length 1)) (0, 0)).1 % (max geno.length 1) < geno.length
    have : max geno.length 1 = geno.length := by omega
    rw [this]; exact Nat.mod_lt _ hglen
  have hpi : (chl.getD (b % (max chl.length 1)) (0, 0)).2 % (max par.length 1) < par.length := by
    have : max par.length 1 = par.length := by omega
    rw [this]; exact Nat.mod_lt _ hplen
  have hpm : (ch b).2 ∈ par := getD_mem_of_lt par _ hpi 0
  refine ⟨hpm, ?_⟩
  have hgm : geno[(ch b).1]? = some (geno[(ch b).1]'hm) := List.getElem?_eq_getElem hm
  have hlt : (ch b).2 < (geno[(ch b).1]'hm).length := hpv _ hpm _ (List.getElem_mem _)
  simp [hgm, List.getElem?_eq_getElem hlt]

end

end Haplo
