/-
Helper lemmas for C20: soundness of the dataflow analysis — every statement (and hence every block)
takes related (analysis state, programme state) pairs to related pairs, the valuation only growing.
-/
import PybropsModel.Lemmas.ProgramSymRel
set_option autoImplicit false
set_option linter.unusedSectionVars false
set_option linter.unusedVariables false

namespace Program
section
variable {σ V : Type}
variable {I : σ → Heap (Cell V) → Prop} {S : List Ref} {V0 : List (Option (View V))} {ops : Ops σ V} {cfg : Cfg V}
variable {base : Nat} {rep0 : Int} {tr0 : List (Event (View V))}

/-! ### the analysis on single statements (when it has not failed yet) -/

theorem symS_skip (a : AState) : symS .skip a = a := by
  unfold symS; split <;> rfl

theorem symS_incRep {a : AState} (ha : a.ok = true) : symS .incRep a = { a with rep := a.rep + 1 } := by
  simp [symS, ha]

theorem symS_tick {a : AState} (ha : a.ok = true) : symS .tick a = { a with t := a.t.succ } := by
  simp [symS, ha]

theorem symS_setT0 {a : AState} (ha : a.ok = true) : symS .setT0 a = { a with t := .abs 0 } := by
  simp [symS, ha]

theorem symS_newDict {a : AState} (ha : a.ok = true) (dst : Reg) :
    symS (.newDict dst) a = { a with regs := setReg a.regs dst (some a.next), next := a.next + 1 } := by
  simp [symS, ha]

/-- states that differ only in clock / replicate counter / `ngen` -/
theorem Conc.congr {ρ : List Ref} {a a' : AState} {st st' : State σ V}
    (hc : Conc cfg.depth V0 cfg.loginit ρ base rep0 tr0 a st)
    (hnext : a'.next = a.next) (hregs : a'.regs = a.regs) (hcr : st'.regs = st.regs)
    (ht : TRel a'.t st'.t base) (hrep : st'.rep = rep0 + a'.rep) (hpr : a'.pristine = a.pristine)
    (hheap : st'.heap = st.heap) (hevs : a'.evs = a.evs) (htr : st'.trace = st.trace) :
    Conc cfg.depth V0 cfg.loginit ρ base rep0 tr0 a' st' := by
  refine ⟨by rw [hnext, hc.next], by rw [hregs, hcr]; exact hc.regs, ht, hrep, ?_, ?_⟩
  · rw [hpr, hheap]; exact hc.pristine
  · rw [hevs, htr]; exact hc.trace

theorem TRel.succ {tv : TVal} {t : Nat} (h : TRel tv t base) : TRel tv.succ (t + 1) base := by
  cases tv with
  | unknown => trivial
  | abs n => simp only [TRel, TVal.succ] at h ⊢; omega
  | rel n => simp only [TRel, TVal.succ] at h ⊢; omega

theorem sound_skip {ρ : List Ref} {a : AState} {st : State σ V}
    (hc : Conc cfg.depth V0 cfg.loginit ρ base rep0 tr0 a st) (g : Good I cfg.depth S V0 st) :
    Conc cfg.depth V0 cfg.loginit ρ base rep0 tr0 (symS .skip a) (execS ops cfg .skip st) ∧
      Good I cfg.depth S V0 (execS ops cfg .skip st) := by
  rw [symS_skip, execS_skip]; exact ⟨hc, g⟩

theorem sound_incRep {ρ : List Ref} {a : AState} {st : State σ V}
    (hc : Conc cfg.depth V0 cfg.loginit ρ base rep0 tr0 a st) (g : Good I cfg.depth S V0 st) (ha : a.ok = true) :
    Conc cfg.depth V0 cfg.loginit ρ base rep0 tr0 (symS .incRep a) (execS ops cfg .incRep st) ∧
      Good I cfg.depth S V0 (execS ops cfg .incRep st) := by
  rw [symS_incRep ha, execS_incRep g.nbad]
  refine ⟨hc.congr rfl rfl rfl hc.t ?_ rfl rfl rfl rfl, g.incRep⟩
  show st.rep + 1 = rep0 + ((a.rep + 1 : Nat) : Int)
  rw [hc.rep]; push_cast; ring

theorem sound_tick {ρ : List Ref} {a : AState} {st : State σ V}
    (hc : Conc cfg.depth V0 cfg.loginit ρ base rep0 tr0 a st) (g : Good I cfg.depth S V0 st) (ha : a.ok = true) :
    Conc cfg.depth V0 cfg.loginit ρ base rep0 tr0 (symS .tick a) (execS ops cfg .tick st) ∧
      Good I cfg.depth S V0 (execS ops cfg .tick st) := by
  rw [symS_tick ha, execS_tick g.nbad]
  exact ⟨hc.congr rfl rfl rfl hc.t.succ hc.rep rfl rfl rfl rfl, g.tick⟩

theorem sound_setT0 {ρ : List Ref} {a : AState} {st : State σ V}
    (hc : Conc cfg.depth V0 cfg.loginit ρ base rep0 tr0 a st) (g : Good I cfg.depth S V0 st) (ha : a.ok = true) :
    Conc cfg.depth V0 cfg.loginit ρ base rep0 tr0 (symS .setT0 a) (execS ops cfg .setT0 st) ∧
      Good I cfg.depth S V0 (execS ops cfg .setT0 st) := by
  rw [symS_setT0 ha, execS_setT0 g.nbad]
  exact ⟨hc.congr rfl rfl rfl (by simp [TRel]) hc.rep rfl rfl rfl rfl, g.setT0⟩

/-! ### allocation -/

/-- the related pair after cells have been appended to the heap and one of them (`x`) stored in `dst`
    under a new token; `extra` = what is additionally known to be pristine -/
theorem Conc.extend {ρ : List Ref} {a : AState} {st : State σ V}
    (hc : Conc cfg.depth V0 cfg.loginit ρ base rep0 tr0 a st) (g : Good I cfg.depth S V0 st)
    (ext : Heap (Cell V)) (dst : Reg) (x : Nat) (hx : x < (st.heap ++ ext).length) (extra : List (Tok × Nat))
    (hextra : ∀ tok i, (tok, i) ∈ extra → tok = a.next ∧ V0[i]? = some (viewO cfg.depth (st.heap ++ ext) x)) :
    Conc cfg.depth V0 cfg.loginit (ρ ++ [x]) base rep0 tr0
      { a with regs := setReg a.regs dst (some a.next), next := a.next + 1, pristine := extra ++ a.pristine }
      { st with heap := st.heap ++ ext, regs := setReg st.regs dst (some x) } := by
  have hp : ρ <+: ρ ++ [x] := List.prefix_append _ _
  have hnew : (ρ ++ [x])[a.next]? = some x := by
    rw [hc.next]; simp
  refine ⟨by simp [hc.next], (hc.regs.prefix hp).setReg dst a.next x hnew, hc.t, hc.rep, ?_, ?_⟩
  · intro tok i hmem
    rcases List.mem_append.mp hmem with h | h
    · obtain ⟨rfl, hv⟩ := hextra tok i h
      exact ⟨x, hnew, hx, hv⟩
    · obtain ⟨y, h1, h2, h3⟩ := hc.pristine tok i h
      refine ⟨y, getElem?_prefix hp h1, ?_, ?_⟩
      · show y < (st.heap ++ ext).length
        rw [List.length_append]; exact Nat.lt_add_right _ h2
      · show V0[i]? = some (viewO cfg.depth (st.heap ++ ext) y)
        rw [viewO_append cfg.depth g.wf ext h2]; exact h3
  · obtain ⟨ces, h1, h2⟩ := hc.trace
    exact ⟨ces, h1, forall2_imp (fun _ _ h => h.prefix hp) h2⟩

theorem sound_newDict {ρ : List Ref} {a : AState} {st : State σ V} (hR : Respects I S ops)
    (hc : Conc cfg.depth V0 cfg.loginit ρ base rep0 tr0 a st) (g : Good I cfg.depth S V0 st) (ha : a.ok = true) (dst : Reg) :
    ∃ ρ', ρ <+: ρ' ∧ Conc cfg.depth V0 cfg.loginit ρ' base rep0 tr0 (symS (.newDict dst) a) (execS ops cfg (.newDict dst) st) ∧
      Good I cfg.depth S V0 (execS ops cfg (.newDict dst) st) := by
  rw [symS_newDict ha, execS_newDict g.nbad]
  refine ⟨ρ ++ [st.heap.length], List.prefix_append _ _, ?_, g.alloc hR _ _⟩
  have := hc.extend g [⟨cfg.emptyV, []⟩] dst st.heap.length (by simp) [] (by simp)
  simpa using this

theorem sound_copyStart {ρ : List Ref} {a : AState} {st : State σ V} (hR : Respects I S ops)
    (hc : Conc cfg.depth V0 cfg.loginit ρ base rep0 tr0 a st) (g : Good I cfg.depth S V0 st) (hS : S.length = 5) (ha : a.ok = true)
    (dst : Reg) (i : Nat) (hok : (symS (.copyStart dst i) a).ok = true) :
    ∃ ρ', ρ <+: ρ' ∧ Conc cfg.depth V0 cfg.loginit ρ' base rep0 tr0 (symS (.copyStart dst i) a)
        (execS ops cfg (.copyStart dst i) st) ∧
      Good I cfg.depth S V0 (execS ops cfg (.copyStart dst i) st) := by
  have hi : i < 5 := by
    by_contra hn
    simp [symS, ha, hn, AState.fail] at hok
  have hi' : i < S.length := by omega
  obtain ⟨q, g', hv⟩ := execS_copyStart (ops := ops) (cfg := cfg) g hR dst i hi'
  have hs : symS (.copyStart dst i) a =
      { a with regs := setReg a.regs dst (some a.next), next := a.next + 1,
               pristine := [(a.next, i)] ++ a.pristine } := by
    simp [symS, ha, hi]
  rw [hs, q]
  refine ⟨ρ ++ [S[i] + st.heap.length], List.prefix_append _ _, ?_, g'⟩
  have hx : S[i] + st.heap.length < (deepCopyAll st.n0 st.heap).length := by
    rw [deepCopyAll_length _ _ g.n0le]
    have := g.region _ (InReg.of_mem (List.getElem_mem hi'))
    rw [Nat.add_comm]; exact Nat.add_lt_add_left this _
  apply hc.extend g ((st.heap.take st.n0).map (shiftCell st.n0 st.heap.length)) dst _ hx [(a.next, i)]
  intro tok j hmem
  simp only [List.mem_singleton, Prod.mk.injEq] at hmem
  obtain ⟨rfl, rfl⟩ := hmem
  exact ⟨rfl, hv⟩

theorem sound_move {ρ : List Ref} {a : AState} {st : State σ V}
    (hc : Conc cfg.depth V0 cfg.loginit ρ base rep0 tr0 a st) (g : Good I cfg.depth S V0 st) (ha : a.ok = true)
    (dst src : Reg) (hok : (symS (.move dst src) a).ok = true) :
    Conc cfg.depth V0 cfg.loginit ρ base rep0 tr0 (symS (.move dst src) a) (execS ops cfg (.move dst src) st) ∧
      Good I cfg.depth S V0 (execS ops cfg (.move dst src) st) := by
  cases hsrc : a.regs src with
  | none => simp [symS, ha, hsrc, AState.fail] at hok
  | some tok =>
    obtain ⟨x, hx1, hx2⟩ := hc.regs src tok hsrc
    have hs : symS (.move dst src) a = { a with regs := setReg a.regs dst (some tok) } := by
      simp [symS, ha, hsrc]
    rw [hs, execS_move g.nbad dst src x hx2]
    refine ⟨⟨hc.next, hc.regs.setReg dst tok x hx1, hc.t, hc.rep, hc.pristine, hc.trace⟩, g.move dst src x hx2⟩

/-! ### operator and logbook calls -/

theorem tokRefs_get {ρ : List Ref} {toks : List Tok} {xs : List Ref} (h : tokRefs ρ toks xs) {j : Nat}
    {tok : Tok} {x : Ref} (hj : toks[j]? = some tok) (hx : ρ[tok]? = some x) : xs[j]? = some x := by
  have := congrArg (fun l => l[j]?) h
  simp only [List.getElem?_map, hj, Option.map_some, hx] at this
  cases hxs : xs[j]? with
  | none => simp [hxs] at this
  | some y => simp only [hxs, Option.map_some, Option.some.injEq] at this; rw [this]

/-- what the analysis knows to be pristine among the arguments is, concretely, equal to the
    initial state -/
theorem pristine_args {ρ : List Ref} {a : AState} {st : State σ V}
    (hc : Conc cfg.depth V0 cfg.loginit ρ base rep0 tr0 a st) {toks : List Tok} {as : List Ref}
    (htr : tokRefs ρ toks as) :
    ∀ (j i : Nat), (toks.map (lookupPristine a.pristine))[j]? = some (some i) →
      V0[i]? = (vals cfg.depth st.heap as)[j]? := by
  intro j i h
  rw [List.getElem?_map] at h
  cases htok : toks[j]? with
  | none => simp [htok] at h
  | some tok =>
    simp only [htok, Option.map_some, Option.some.injEq] at h
    obtain ⟨x, hx1, _, hx3⟩ := hc.pristine tok i (lookupPristine_mem _ _ _ h)
    have := tokRefs_get htr htok hx1
    rw [hx3]
    simp [vals, this]

theorem filter_visible_append (li : Bool) (l : List SEv) (e : SEv) :
    (l ++ [e]).filter (visible li) = l.filter (visible li) ++ (if visible li e then [e] else []) := by
  rw [List.filter_append]
  simp [List.filter_cons]

theorem sound_call {ρ : List Ref} {a : AState} {st : State σ V} (hR : Respects I S ops)
    (hc : Conc cfg.depth V0 cfg.loginit ρ base rep0 tr0 a st) (g : Good I cfg.depth S V0 st) (ha : a.ok = true)
    (k : OpK) (args : List (Kw × Reg)) (rets : List Reg) (hok : (symS (.call k args rets) a).ok = true) :
    ∃ ρ', ρ <+: ρ' ∧ Conc cfg.depth V0 cfg.loginit ρ' base rep0 tr0 (symS (.call k args rets) a)
        (execS ops cfg (.call k args rets) st) ∧
      Good I cfg.depth S V0 (execS ops cfg (.call k args rets) st) := by
  cases htoks : (bindArgs (opKws k) args).bind (resolve a.regs) with
  | none => simp [symS, ha, htoks, AState.fail] at hok
  | some toks =>
    have hcond : (a.t.known && rets.length == arity k) = true := by
      by_contra hn
      simp only [Bool.not_eq_true] at hn
      simp [symS, ha, htoks, hn, AState.fail] at hok
    simp only [Bool.and_eq_true, beq_iff_eq] at hcond
    obtain ⟨hknown, hlen⟩ := hcond
    have hs : symS (.call k args rets) a =
        { a with regs := assign a.regs rets (freshToks a.next (arity k)), next := a.next + arity k,
                 evs := a.evs ++ [{ kind := .op k, guarded := false, t := a.t, rep := a.rep, args := toks,
                                    rets := freshToks a.next (arity k),
                                    pristine := toks.map (lookupPristine a.pristine) }],
                 pristine := [] } := by
      simp [symS, ha, htoks, hknown, hlen]
    obtain ⟨as, has, htr⟩ := bind_resolve_rel hc.regs _ _ _ htoks
    have hasok := g.bound_ok has
    obtain ⟨_, _, _, _, _, h4, _⟩ := hR.op k st.ost st.heap as st.t cfg.tmax g.inv g.wf g.regionValid g.iso hasok
    have hlen' : (ops.op k st.ost st.heap as st.t cfg.tmax).2.2.length = rets.length := by rw [h4, hlen]
    rw [hs, execS_call g.nbad k args rets as has hlen']
    have hp : ρ <+: ρ ++ (ops.op k st.ost st.heap as st.t cfg.tmax).2.2 := List.prefix_append _ _
    have hfresh : tokRefs (ρ ++ (ops.op k st.ost st.heap as st.t cfg.tmax).2.2)
        (freshToks a.next (arity k)) (ops.op k st.ost st.heap as st.t cfg.tmax).2.2 := by
      have := tokRefs_fresh ρ (ops.op k st.ost st.heap as st.t cfg.tmax).2.2
      rwa [h4, ← hc.next] at this
    refine ⟨_, hp, ⟨?_, ?_, hc.t, hc.rep, ?_, ?_⟩, g.call hR k rets as hasok⟩
    · show a.next + arity k = (ρ ++ (ops.op k st.ost st.heap as st.t cfg.tmax).2.2).length
      rw [List.length_append, h4, hc.next]
    · exact RegRel.assign rets _ _ (hc.regs.prefix hp) hfresh
    · intro tok i h; simp at h
    · obtain ⟨ces, h1, h2⟩ := hc.trace
      refine ⟨ces ++ [callEvent ops cfg k as st], ?_, ?_⟩
      · show st.trace ++ [callEvent ops cfg k as st] = tr0 ++ (ces ++ [callEvent ops cfg k as st])
        rw [h1, List.append_assoc]
      · show List.Forall₂ _ ((a.evs ++ [_]).filter (visible cfg.loginit)) _
        rw [filter_visible_append]
        refine forall2_append (forall2_imp (fun _ _ h => h.prefix hp) h2) ?_
        simp only [visible, Bool.not_false, Bool.true_or, if_true]
        refine .cons ?_ .nil
        exact ⟨rfl, hknown, hc.t, hc.rep, g.startVals, tokRefs_prefix hp htr, hfresh, vals_length _ _ _,
          vals_length _ _ _, pristine_args hc htr⟩

theorem sound_log {ρ : List Ref} {a : AState} {st : State σ V} (hR : Respects I S ops)
    (hc : Conc cfg.depth V0 cfg.loginit ρ base rep0 tr0 a st) (g : Good I cfg.depth S V0 st) (ha : a.ok = true)
    (k : LogK) (guarded : Bool) (args : List (Kw × Reg)) (hok : (symS (.log k guarded args) a).ok = true) :
    Conc cfg.depth V0 cfg.loginit ρ base rep0 tr0 (symS (.log k guarded args) a)
        (execS ops cfg (.log k guarded args) st) ∧
      Good I cfg.depth S V0 (execS ops cfg (.log k guarded args) st) := by
  cases htoks : (bindArgs (logKws k) args).bind (resolve a.regs) with
  | none => simp [symS, ha, htoks, AState.fail] at hok
  | some toks =>
    have hknown : a.t.known = true := by
      by_contra hn
      simp only [Bool.not_eq_true] at hn
      simp [symS, ha, htoks, hn, AState.fail] at hok
    have hs : symS (.log k guarded args) a =
        { a with evs := a.evs ++ [{ kind := .log k, guarded := guarded, t := a.t, rep := a.rep, args := toks,
                                    rets := [], pristine := toks.map (lookupPristine a.pristine) }],
                 pristine := [] } := by
      simp [symS, ha, htoks, hknown]
    obtain ⟨as, has, htr⟩ := bind_resolve_rel hc.regs _ _ _ htoks
    rw [hs]
    by_cases hg : (guarded && !cfg.loginit) = true
    · -- the call is skipped
      simp only [Bool.and_eq_true, Bool.not_eq_true'] at hg
      obtain ⟨rfl, hli⟩ := hg
      rw [execS_log_off k args hli]
      refine ⟨⟨hc.next, hc.regs, hc.t, hc.rep, by intro tok i h; simp at h, ?_⟩, g⟩
      obtain ⟨ces, h1, h2⟩ := hc.trace
      refine ⟨ces, h1, ?_⟩
      show List.Forall₂ _ ((a.evs ++ [_]).filter (visible cfg.loginit)) _
      rw [filter_visible_append]
      have hv : ∀ e : SEv, e.guarded = true → visible cfg.loginit e = false := by
        intro e he; simp [visible, he, hli]
      rw [hv _ rfl]
      simpa using h2
    · have hg' : (guarded && !cfg.loginit) = false := by simpa using hg
      have hasok := g.bound_ok has
      rw [execS_log g.nbad k guarded args as has hg']
      refine ⟨⟨hc.next, hc.regs, hc.t, hc.rep, by intro tok i h; simp at h, ?_⟩, g.log hR k as hasok⟩
      obtain ⟨ces, h1, h2⟩ := hc.trace
      refine ⟨ces ++ [logEvent cfg k as st], ?_, ?_⟩
      · show st.trace ++ [logEvent cfg k as st] = tr0 ++ (ces ++ [logEvent cfg k as st])
        rw [h1, List.append_assoc]
      · show List.Forall₂ _ ((a.evs ++ [_]).filter (visible cfg.loginit)) _
        rw [filter_visible_append]
        have hv : ∀ e : SEv, e.guarded = guarded → visible cfg.loginit e = true := by
          intro e he
          simp only [visible, he]
          cases guarded <;> cases hl : cfg.loginit <;> simp_all
        rw [hv _ rfl]
        refine forall2_append h2 (.cons ?_ .nil)
        exact ⟨rfl, hknown, hc.t, hc.rep, g.startVals, htr, rfl, vals_length _ _ _, rfl, pristine_args hc htr⟩

/-! ### every simple statement, blocks, `self.reset()` -/

theorem symS_not_ok (s : Stmt) {a : AState} (h : a.ok = false) : symS s a = a := by
  simp [symS, h]

/-- only `if ngen is None: ngen = self._t_max` changes the variable `ngen` -/
theorem execS_ngen (s : Stmt) (hs : s ≠ .ngenDefault) (st : State σ V) :
    (execS ops cfg s st).ngen = st.ngen := by
  unfold execS
  split
  · rfl
  · cases s <;> first | rfl | exact absurd rfl hs | skip
    all_goals (simp only []; repeat' split) <;> rfl

theorem symS_sound (hR : Respects I S ops) (hS : S.length = 5) (s : Stmt) {ρ : List Ref} {a : AState}
    {st : State σ V} (hc : Conc cfg.depth V0 cfg.loginit ρ base rep0 tr0 a st) (g : Good I cfg.depth S V0 st) (ha : a.ok = true)
    (hok : (symS s a).ok = true) :
    ∃ ρ', ρ <+: ρ' ∧ Conc cfg.depth V0 cfg.loginit ρ' base rep0 tr0 (symS s a) (execS ops cfg s st) ∧
      Good I cfg.depth S V0 (execS ops cfg s st) ∧ (execS ops cfg s st).ngen = st.ngen := by
  cases s with
  | skip => exact ⟨ρ, List.prefix_refl _, (sound_skip hc g).1, (sound_skip hc g).2, execS_ngen _ (by simp) _⟩
  | incRep => exact ⟨ρ, List.prefix_refl _, (sound_incRep hc g ha).1, (sound_incRep hc g ha).2, execS_ngen _ (by simp) _⟩
  | tick => exact ⟨ρ, List.prefix_refl _, (sound_tick hc g ha).1, (sound_tick hc g ha).2, execS_ngen _ (by simp) _⟩
  | setT0 => exact ⟨ρ, List.prefix_refl _, (sound_setT0 hc g ha).1, (sound_setT0 hc g ha).2, execS_ngen _ (by simp) _⟩
  | newDict dst =>
    obtain ⟨ρ', h1, h2, h3⟩ := sound_newDict (ops := ops) hR hc g ha dst
    exact ⟨ρ', h1, h2, h3, execS_ngen _ (by simp) _⟩
  | copyStart dst i =>
    obtain ⟨ρ', h1, h2, h3⟩ := sound_copyStart (ops := ops) hR hc g hS ha dst i hok
    exact ⟨ρ', h1, h2, h3, execS_ngen _ (by simp) _⟩
  | move dst src =>
    exact ⟨ρ, List.prefix_refl _, (sound_move hc g ha dst src hok).1, (sound_move hc g ha dst src hok).2,
      execS_ngen _ (by simp) _⟩
  | call k args rets =>
    obtain ⟨ρ', h1, h2, h3⟩ := sound_call hR hc g ha k args rets hok
    exact ⟨ρ', h1, h2, h3, execS_ngen _ (by simp) _⟩
  | log k guarded args =>
    exact ⟨ρ, List.prefix_refl _, (sound_log hR hc g ha k guarded args hok).1,
      (sound_log hR hc g ha k guarded args hok).2, execS_ngen _ (by simp) _⟩
  | aliasStart dst i => simp [symS, ha, AState.fail] at hok
  | shallowCopyStart dst i => simp [symS, ha, AState.fail] at hok
  | levelCopyStart dst i k => simp [symS, ha, AState.fail] at hok
  | ngenDefault => simp [symS, ha, AState.fail] at hok
  | initIfNeeded => simp [symS, ha, AState.fail] at hok
  | callReset => simp [symS, ha, AState.fail] at hok
  | callAdvance => simp [symS, ha, AState.fail] at hok

theorem symList_not_ok (f : Stmt → AState → AState) (hnot : ∀ s a, a.ok = false → f s a = a)
    (l : List Stmt) {a : AState} (h : a.ok = false) : symList f l a = a := by
  induction l with
  | nil => rfl
  | cons s l ih =>
    show symList f l (f s a) = a
    rw [hnot s a h, ih]

/-- blocks: soundness of the walk from soundness of each step -/
theorem list_sound (f : Stmt → AState → AState) (ex : Stmt → State σ V → State σ V)
    (hnot : ∀ s a, a.ok = false → f s a = a)
    (hstep : ∀ (s : Stmt) (ρ : List Ref) (a : AState) (st : State σ V),
      Conc cfg.depth V0 cfg.loginit ρ base rep0 tr0 a st → Good I cfg.depth S V0 st → a.ok = true → (f s a).ok = true →
      ∃ ρ', ρ <+: ρ' ∧ Conc cfg.depth V0 cfg.loginit ρ' base rep0 tr0 (f s a) (ex s st) ∧ Good I cfg.depth S V0 (ex s st) ∧
        (ex s st).ngen = st.ngen) :
    ∀ (l : List Stmt) (ρ : List Ref) (a : AState) (st : State σ V),
      Conc cfg.depth V0 cfg.loginit ρ base rep0 tr0 a st → Good I cfg.depth S V0 st → a.ok = true → (symList f l a).ok = true →
      ∃ ρ', ρ <+: ρ' ∧ Conc cfg.depth V0 cfg.loginit ρ' base rep0 tr0 (symList f l a) (execList ex l st) ∧
        Good I cfg.depth S V0 (execList ex l st) ∧ (execList ex l st).ngen = st.ngen := by
  intro l
  induction l with
  | nil => intro ρ a st hc g _ _; exact ⟨ρ, List.prefix_refl _, hc, g, rfl⟩
  | cons s l ih =>
    intro ρ a st hc g ha hok
    have hok1 : (f s a).ok = true := by
      by_contra hn
      simp only [Bool.not_eq_true] at hn
      have : symList f (s :: l) a = f s a := symList_not_ok f hnot l hn
      rw [this, hn] at hok
      cases hok
    obtain ⟨ρ1, hp1, hc1, g1, n1⟩ := hstep s ρ a st hc g ha hok1
    obtain ⟨ρ2, hp2, hc2, g2, n2⟩ := ih ρ1 (f s a) (ex s st) hc1 g1 hok1 hok
    exact ⟨ρ2, hp1.trans hp2, hc2, g2, n2.trans n1⟩

theorem symR_not_ok (sc : Schedule) (s : Stmt) {a : AState} (h : a.ok = false) : symR sc s a = a := by
  cases s <;> simp [symR, symS, h]

theorem symR_sound (hR : Respects I S ops) (hS : S.length = 5) (sc : Schedule) (s : Stmt) {ρ : List Ref}
    {a : AState} {st : State σ V} (hc : Conc cfg.depth V0 cfg.loginit ρ base rep0 tr0 a st) (g : Good I cfg.depth S V0 st)
    (ha : a.ok = true) (hok : (symR sc s a).ok = true) :
    ∃ ρ', ρ <+: ρ' ∧ Conc cfg.depth V0 cfg.loginit ρ' base rep0 tr0 (symR sc s a) (execR ops cfg sc s st) ∧
      Good I cfg.depth S V0 (execR ops cfg sc s st) ∧ (execR ops cfg sc s st).ngen = st.ngen := by
  by_cases hs : s = .callReset
  · subst hs
    have e1 : symR sc .callReset a = symList symS sc.reset a := by simp [symR, ha]
    have e2 : execR ops cfg sc .callReset st = execList (execS ops cfg) sc.reset st := by
      simp [execR, g.nbad]
    rw [e1] at hok ⊢
    rw [e2]
    exact list_sound symS (execS ops cfg) (fun s a h => symS_not_ok s h)
      (fun s ρ a st hc g ha hok => symS_sound hR hS s hc g ha hok) sc.reset ρ a st hc g ha hok
  · have e1 : symR sc s a = symS s a := by cases s <;> first | rfl | exact absurd rfl hs
    have e2 : execR ops cfg sc s st = execS ops cfg s st := by
      cases s <;> first | rfl | exact absurd rfl hs
    rw [e1] at hok ⊢
    rw [e2]
    exact symS_sound hR hS s hc g ha hok

/-- **Soundness of the dataflow analysis on a block** of `advance` statements. -/
theorem symBlock_sound (hR : Respects I S ops) (hS : S.length = 5) (sc : Schedule) (l : List Stmt)
    {ρ : List Ref} {a : AState} {st : State σ V} (hc : Conc cfg.depth V0 cfg.loginit ρ base rep0 tr0 a st)
    (g : Good I cfg.depth S V0 st) (ha : a.ok = true) (hok : (symList (symR sc) l a).ok = true) :
    ∃ ρ', ρ <+: ρ' ∧ Conc cfg.depth V0 cfg.loginit ρ' base rep0 tr0 (symList (symR sc) l a)
        (execList (execR ops cfg sc) l st) ∧ Good I cfg.depth S V0 (execList (execR ops cfg sc) l st) ∧
      (execList (execR ops cfg sc) l st).ngen = st.ngen :=
  list_sound (symR sc) (execR ops cfg sc) (fun s a h => symR_not_ok sc s h)
    (fun s ρ a st hc g ha hok => symR_sound hR hS sc s hc g ha hok) l ρ a st hc g ha hok

/-- the same for a block of `evolve` statements (the analysis rejects a nested `advance` call, so
    the block runs like a block of `advance` statements) -/
theorem symBlockE_sound (hR : Respects I S ops) (hS : S.length = 5) (sc : Schedule) (l : List Stmt)
    {ρ : List Ref} {a : AState} {st : State σ V} (hc : Conc cfg.depth V0 cfg.loginit ρ base rep0 tr0 a st)
    (g : Good I cfg.depth S V0 st) (ha : a.ok = true) (hok : (symList (symR sc) l a).ok = true) :
    ∃ ρ', ρ <+: ρ' ∧ Conc cfg.depth V0 cfg.loginit ρ' base rep0 tr0 (symList (symR sc) l a)
        (execList (execE ops cfg sc) l st) ∧ Good I cfg.depth S V0 (execList (execE ops cfg sc) l st) ∧
      (execList (execE ops cfg sc) l st).ngen = st.ngen := by
  refine list_sound (symR sc) (execE ops cfg sc) (fun s a h => symR_not_ok sc s h) ?_ l ρ a st hc g ha hok
  intro s ρ a st hc g ha hok
  by_cases hs : s = .callAdvance
  · subst hs
    simp [symR, symS, ha, AState.fail] at hok
  · have e : execE ops cfg sc s st = execR ops cfg sc s st := by
      cases s <;> first | rfl | exact absurd rfl hs
    rw [e]
    exact symR_sound hR hS sc s hc g ha hok

end
end Program
