/-
Round 2: round-trip lemmas for the coancestry (wide), extended-map, model-dictionary and
variance-matrix (long) data-frame layouts.
-/
import Mathlib.Data.String.Basic
import PybropsModel.Lemmas.StoreFrameLemmas

set_option autoImplicit false

namespace StoreFrame
open Store (Err)

/-! ### helpers -/

theorem mapM_ok_range {β γ : Type} (φ : β → Except Err γ) (l : List β) :
    ∀ (ψ : Nat → γ), (∀ i (hi : i < l.length), φ l[i] = .ok (ψ i)) →
      l.mapM φ = .ok ((List.range l.length).map ψ) := by
  induction l with
  | nil => intro ψ _; rfl
  | cons a r ih =>
    intro ψ h
    have h0 := h 0 (by simp)
    simp only [List.getElem_cons_zero] at h0
    have hr := ih (fun i => ψ (i + 1)) (fun i hi => by
      have := h (i + 1) (by simp; omega)
      simpa using this)
    rw [List.mapM_cons, h0, hr]
    simp only [List.length_cons, List.range_succ_eq_map, List.map_cons, List.map_map]
    rfl

/-- rebuilding a rectangular matrix from its columns -/
theorem rows_of_columns {α : Type} [Inhabited α] (m : List (List α)) (nr nc : Nat) (hr : m.length = nr)
    (hc : ∀ r ∈ m, r.length = nc) :
    (List.range nr).map (fun i => ((List.range nc).map (fun j => m.map (fun r => r.getD j default))).map
      (fun c => c.getD i default)) = m := by
  apply List.ext_getElem
  · simp [hr]
  · intro i h1 h2
    simp only [List.getElem_map, List.getElem_range, List.map_map]
    have hi : i < m.length := h2
    apply List.ext_getElem
    · simp [hc _ (List.getElem_mem hi)]
    · intro j h3 h4
      simp only [List.getElem_map, List.getElem_range, Function.comp]
      simp [List.getD_eq_getElem?_getD, List.getElem?_eq_getElem hi, List.getElem?_eq_getElem h4]

theorem mem_zipIdx_map {α β : Type} (l : List β) (g : β × Nat → α) (i : Nat) (hi : i < l.length) :
    g (l[i], i) ∈ l.zipIdx.map g := by
  apply List.mem_map.mpr
  refine ⟨(l[i], i), ?_, rfl⟩
  rw [List.mem_zipIdx_iff_getElem?]
  simp [List.getElem?_eq_getElem hi]

theorem zipIdx_map_fst' {β γ : Type} (l : List β) (g : β → γ) :
    l.zipIdx.map (fun ni => g ni.1) = l.map g := by
  apply List.ext_getElem
  · simp
  · intro i h1 h2
    simp

/-! ### coancestry, wide -/

section cmat
variable {α : Type} [Inhabited α]

def cmNames (names : List String) (tc : String) (gc : Option String) : List Name :=
  (Name.s tc :: (match gc with | some g => [Name.s g] | none => [])) ++ names.map Name.s

theorem cmToPandas_names (c : CMat α) (names : List String) (ht : c.taxa = some names) (tc : String)
    (gc : Option String) : (cmToPandas c tc gc).map Prod.fst = cmNames names tc gc := by
  unfold cmToPandas cmNames sideBySide cmTaxaNames
  rw [ht]
  cases gc <;> simp [List.map_map, Function.comp_def, zipIdx_map_fst' names Name.s]

/-- **coancestry, wide layout**: with taxa names present and pairwise distinct column names the
    frame `to_pandas` builds is read back as the same matrix, names and groups -/
theorem cmFromPandas_toPandas (c : CMat α) (names : List String) (ht : c.taxa = some names)
    (hn : c.mat.length = names.length) (hsq : ∀ r ∈ c.mat, r.length = names.length)
    (tc : String) (gc : Option String) (hnd : (cmNames names tc gc).Nodup)
    (hg : gc = none → c.taxa_grp = none) :
    cmFromPandas (cmToPandas c tc gc) tc gc = .ok c := by
  have hnd' : ((cmToPandas c tc gc).map Prod.fst).Nodup := by rw [cmToPandas_names c names ht]; exact hnd
  -- the label column
  have h1 : needStrs (cmToPandas c tc gc) tc = .ok names := by
    have : lookupCol (cmToPandas c tc gc) (.s tc) = some (.strs names) := by
      apply lookupCol_of_mem _ hnd'
      unfold cmToPandas sideBySide cmTaxaNames
      rw [ht]; simp
    simp [needStrs, this]; rfl
  -- the group column
  have h2 : readGrpNA (cmToPandas c tc gc) gc = .ok c.taxa_grp := by
    cases hgc : gc with
    | none => rw [hg hgc]; rfl
    | some g =>
      cases hcg : c.taxa_grp with
      | none =>
        have : lookupCol (cmToPandas c tc (some g)) (.s g) = some (.nones c.mat.length) := by
          apply lookupCol_of_mem _ (hgc ▸ hnd')
          unfold cmToPandas sideBySide; simp [hcg]
        simp [readGrpNA, this]; rfl
      | some l =>
        have : lookupCol (cmToPandas c tc (some g)) (.s g) = some (.ints l) := by
          apply lookupCol_of_mem _ (hgc ▸ hnd')
          unfold cmToPandas sideBySide; simp [hcg]
        simp [readGrpNA, this]; rfl
  -- the value columns
  have h3 : names.mapM (fun t => needVals (cmToPandas c tc gc) (.s t)) =
      (.ok ((List.range names.length).map (fun j => c.mat.map (fun r => r.getD j default))) :
        Except Err (List (List α))) := by
    apply mapM_ok_range
    intro j hj
    have hm : (Name.s names[j], Col.vals (c.mat.map (fun r => r.getD j default))) ∈ cmToPandas c tc gc := by
      unfold cmToPandas sideBySide cmTaxaNames
      rw [ht]
      apply List.mem_append_right
      exact mem_zipIdx_map names (fun ni => (Name.s ni.1, Col.vals (c.mat.map (fun r => r.getD ni.2 default)))) j hj
    simp only [needVals, lookupCol_of_mem _ hnd' _ _ hm]
    rfl
  show (do
    let taxa ← needStrs (cmToPandas c tc gc) tc
    let grp ← readGrpNA (cmToPandas c tc gc) gc
    let cols ← taxa.mapM (fun t => needVals (cmToPandas c tc gc) (.s t))
    pure (⟨rowsOf taxa.length cols, some taxa, grp⟩ : CMat α)) = _
  rw [h1]
  show (do
    let grp ← readGrpNA (cmToPandas c tc gc) gc
    let cols ← names.mapM (fun t => needVals (cmToPandas c tc gc) (.s t))
    pure (⟨rowsOf names.length cols, some names, grp⟩ : CMat α)) = _
  rw [h2, h3]
  show Except.ok (⟨rowsOf names.length _, some names, c.taxa_grp⟩ : CMat α) = .ok c
  unfold rowsOf
  rw [rows_of_columns c.mat names.length names.length hn hsq, ← ht]

end cmat

/-! ### coefficient blocks / model dictionaries -/

section block
variable {α : Type} [Inhabited α]

theorem blockToFrame_names (names : List Name) (block : List (List α)) :
    (blockToFrame names block).map Prod.fst = names := by
  unfold blockToFrame
  rw [List.map_map]
  exact zipIdx_map_fst' names id |>.trans (by simp)

theorem block_roundtrip (names : List Name) (hnd : names.Nodup) (block : List (List α))
    (hc : ∀ r ∈ block, r.length = names.length) :
    blockFromFrame (blockToFrame names block) names block.length = .ok block := by
  have hnd' : ((blockToFrame names block).map Prod.fst).Nodup := by rw [blockToFrame_names]; exact hnd
  have h3 : names.mapM (fun t => needVals (blockToFrame names block) t) =
      (.ok ((List.range names.length).map (fun j => block.map (fun r => r.getD j default))) :
        Except Err (List (List α))) := by
    apply mapM_ok_range
    intro j hj
    have hm : (names[j], Col.vals (block.map (fun r => r.getD j default))) ∈ blockToFrame names block :=
      mem_zipIdx_map names (fun ni => (ni.1, Col.vals (block.map (fun r => r.getD ni.2 default)))) j hj
    simp only [needVals, lookupCol_of_mem _ hnd' _ _ hm]
    rfl
  show (do
    let cols ← names.mapM (fun t => needVals (blockToFrame names block) t)
    pure (rowsOf block.length cols)) = _
  rw [h3]
  show Except.ok (rowsOf block.length _) = .ok block
  unfold rowsOf
  rw [rows_of_columns block block.length names.length rfl hc]

/-- **model dictionaries**: with trait names present and distinct, every coefficient block and the
    trait names are read back from the dictionary of frames exactly -/
theorem lmFromPandasDict_toPandasDict (m : LinMod α) (l : List String) (ht : m.trait = some l)
    (hnd : l.Nodup) (hne : m.blocks ≠ [])
    (hc : ∀ kb ∈ m.blocks, ∀ r ∈ kb.2, r.length = l.length) :
    lmFromPandasDict (lmToPandasDict m l.length) (m.blocks.map (fun kb => kb.2.length)) =
      .ok (m.blocks, l.map Name.s) := by
  have hnames : lmTraitNames m l.length = l.map Name.s := by simp [lmTraitNames, ht]
  have hndN : (l.map Name.s).Nodup := hnd.map (fun a b h => by simpa using h)
  have hlen : (l.map Name.s).length = l.length := by simp
  -- the names inferred from the first frame
  have hfirst : firstNames (lmToPandasDict m l.length) = l.map Name.s := by
    unfold lmToPandasDict firstNames
    cases hb : m.blocks with
    | nil => exact absurd hb hne
    | cons kb r =>
      simp only [List.map_cons]
      rw [hnames]
      exact blockToFrame_names _ _
  -- every block
  have hall : ∀ (bs : List (String × List (List α))), (∀ kb ∈ bs, ∀ r ∈ kb.2, r.length = l.length) →
      ((bs.map (fun kb => (kb.1, blockToFrame (l.map Name.s) kb.2))).zip (bs.map (fun kb => kb.2.length))).mapM
        (fun dn => do
          let b ← blockFromFrame dn.1.2 (l.map Name.s) dn.2
          pure (dn.1.1, b)) = (.ok bs : Except Err _) := by
    intro bs
    induction bs with
    | nil => intro _; rfl
    | cons kb r ih =>
      intro h
      simp only [List.map_cons, List.zip_cons_cons, List.mapM_cons]
      rw [block_roundtrip (l.map Name.s) hndN kb.2 (fun x hx => by rw [hlen]; exact h kb List.mem_cons_self x hx)]
      rw [ih (fun kb' hkb' => h kb' (List.mem_cons_of_mem _ hkb'))]
      rfl
  unfold lmFromPandasDict
  rw [hfirst]
  have := hall m.blocks hc
  unfold lmToPandasDict
  rw [hnames, this]
  rfl

end block

/-! ### extended genetic map -/

section emap
variable {α : Type} [Field α]

theorem emap_roundtrip (h100 : (100 : α) ≠ 0) (m : EMap α) (u : Units) :
    emapFromPandas (emapToPandas m u) u m.name.isSome m.fncode.isSome = .ok m := by
  unfold emapToPandas
  rw [mkFrame_of_nodup _ (by simp)]
  have hid : (fun x : α => (100 : α)⁻¹ * 100 * x) = id := by
    funext x; rw [inv_mul_cancel₀ h100, one_mul]; rfl
  obtain ⟨chr, pos, stop, gen, name, fn⟩ := m
  cases name <;> cases fn <;> cases u <;>
    simp [emapFromPandas, needInts, needVals, readStrCol, lookupCol, optStrCol, hid] <;> rfl

end emap

/-! ### variance matrix, long layout -/

theorem mem_insUniq (a x : String) (l : List String) : x ∈ insUniq a l ↔ x = a ∨ x ∈ l := by
  induction l with
  | nil => simp [insUniq]
  | cons b l ih =>
    unfold insUniq
    by_cases h1 : a < b
    · simp [h1]
    · by_cases h2 : a = b
      · subst h2; simp [h1]
      · simp only [h1, h2, if_false, List.mem_cons, ih]
        tauto

theorem insUniq_sorted (a : String) (l : List String) (hl : l.Pairwise (· < ·)) :
    (insUniq a l).Pairwise (· < ·) := by
  induction l with
  | nil => simp [insUniq]
  | cons b l ih =>
    rw [List.pairwise_cons] at hl
    unfold insUniq
    by_cases h1 : a < b
    · simp only [h1, if_true, List.pairwise_cons]
      refine ⟨?_, hl⟩
      intro x hx
      rcases List.mem_cons.mp hx with e | e
      · rw [e]; exact h1
      · exact lt_trans h1 (hl.1 x e)
    · by_cases h2 : a = b
      · rw [if_neg h1, if_pos h2]
        exact List.pairwise_cons.mpr hl
      · simp only [h1, h2, if_false, List.pairwise_cons]
        refine ⟨?_, ih hl.2⟩
        intro x hx
        rcases (mem_insUniq a x l).mp hx with e | e
        · rw [e]
          rcases lt_trichotomy a b with h3 | h3 | h3
          · exact absurd h3 h1
          · exact absurd h3 h2
          · exact h3
        · exact hl.1 x e

theorem mem_sortUniq (x : String) (l : List String) : x ∈ sortUniq l ↔ x ∈ l := by
  induction l with
  | nil => simp [sortUniq]
  | cons a l ih =>
    show x ∈ insUniq a (sortUniq l) ↔ _
    rw [mem_insUniq, ih]; simp

theorem sortUniq_sorted (l : List String) : (sortUniq l).Pairwise (· < ·) := by
  induction l with
  | nil => simp [sortUniq]
  | cons a l ih => exact insUniq_sorted a _ ih

/-- `numpy.unique` of a list whose distinct values are exactly a strictly increasing list is that list -/
theorem sortUniq_eq (l s : List String) (hs : s.Pairwise (· < ·)) (hm : ∀ x, x ∈ l ↔ x ∈ s) :
    sortUniq l = s :=
  List.Pairwise.eq_of_mem_iff (sortUniq_sorted l) hs (fun x => (mem_sortUniq x l).trans (hm x))

theorem find?_map_eq {β γ : Type} (l : List β) (p : β → Bool) (g : β → γ) (x : γ)
    (hex : ∃ r ∈ l, p r = true) (hall : ∀ r ∈ l, p r = true → g r = x) :
    (l.find? p).map g = some x := by
  obtain ⟨r, hr, hp⟩ := hex
  cases h : l.find? p with
  | none =>
    have := List.find?_eq_none.mp h r hr
    exact absurd hp this
  | some r' =>
    have hm := List.mem_of_find?_eq_some h
    have hp' := List.find?_some h
    simp [hall r' hm hp']

section vmat
variable {α : Type} [Inhabited α]

/-- the row written for cell (i, j, k) -/
def vrow (v : VMat α) (withGrp : Bool) (i j k : Nat) : VRow α :=
  let grpAt (i : Nat) : Option Int :=
    if withGrp then (match v.taxa_grp with | some g => some (g.getD i 0) | none => none) else none
  ⟨v.taxa.getD i "", grpAt i, v.taxa.getD j "", grpAt j, v.trait.getD k "",
   ((v.mat.getD i []).getD j []).getD k default⟩

theorem mem_vmToPandas (v : VMat α) (g : Bool) (r : VRow α) :
    r ∈ vmToPandas v g ↔ ∃ i j k, i < v.taxa.length ∧ j < v.taxa.length ∧ k < v.trait.length ∧ r = vrow v g i j k := by
  unfold vmToPandas vrow
  simp only [List.mem_flatMap, List.mem_map, List.mem_range]
  constructor
  · rintro ⟨i, hi, j, hj, k, hk, rfl⟩; exact ⟨i, j, k, hi, hj, hk, rfl⟩
  · rintro ⟨i, j, k, hi, hj, hk, rfl⟩; exact ⟨i, hi, j, hj, k, hk, rfl⟩

theorem getD_inj_of_sorted (l : List String) (hs : l.Pairwise (· < ·)) (i j : Nat) (hi : i < l.length)
    (hj : j < l.length) (h : l.getD i "" = l.getD j "") : i = j := by
  have hnd : l.Nodup := hs.imp (fun hab => ne_of_lt hab)
  simp only [List.getD_eq_getElem?_getD, List.getElem?_eq_getElem hi, List.getElem?_eq_getElem hj,
    Option.getD_some] at h
  exact (List.Nodup.getElem_inj_iff hnd).mp h

theorem getD_mem' (l : List String) (i : Nat) (hi : i < l.length) : l.getD i "" ∈ l := by
  simp [List.getD_eq_getElem?_getD, List.getElem?_eq_getElem hi]

/-- **variance matrix, long layout**: with strictly increasing taxa and trait names (the layout is
    canonical in label order: `from_pandas` sorts) the rows `to_pandas` writes are read back as the
    same matrix — every cell addressed, none left NaN —, names, groups and traits -/
theorem vmFromPandas_toPandas (v : VMat α) (hs : v.taxa.Pairwise (· < ·)) (ht : v.trait.Pairwise (· < ·))
    (hn : 0 < v.taxa.length) (htr : 0 < v.trait.length)
    (hg : ∀ g, v.taxa_grp = some g → g.length = v.taxa.length)
    (hm1 : v.mat.length = v.taxa.length) (hm2 : ∀ pl ∈ v.mat, pl.length = v.taxa.length)
    (hm3 : ∀ pl ∈ v.mat, ∀ r ∈ pl, r.length = v.trait.length) :
    vmFromPandas (vmToPandas v v.taxa_grp.isSome) v.taxa_grp.isSome =
      .ok ⟨v.mat.map (fun pl => pl.map (fun r => r.map some)), v.taxa, v.taxa_grp, v.trait⟩ := by
  set G := v.taxa_grp.isSome with hG
  set rows := vmToPandas v G with hrows
  have hmem := mem_vmToPandas v G
  -- the guard
  have hguard : (G && rows.any (fun r => r.femaleGrp.isNone || r.maleGrp.isNone)) = false := by
    cases hv : v.taxa_grp with
    | none => simp [hG, hv]
    | some g =>
      have : rows.any (fun r => r.femaleGrp.isNone || r.maleGrp.isNone) = false := by
        rw [List.any_eq_false]
        intro r hr
        obtain ⟨i, j, k, _, _, _, rfl⟩ := (hmem r).mp hr
        simp [vrow, hG, hv]
      simp [this]
  -- labels
  have htaxa : sortUniq (rows.map (·.female) ++ rows.map (·.male)) = v.taxa := by
    apply sortUniq_eq _ _ hs
    intro x
    simp only [List.mem_append, List.mem_map]
    constructor
    · rintro (⟨r, hr, rfl⟩ | ⟨r, hr, rfl⟩)
      · obtain ⟨i, j, k, hi, _, _, rfl⟩ := (hmem r).mp hr
        exact getD_mem' _ i hi
      · obtain ⟨i, j, k, _, hj, _, rfl⟩ := (hmem r).mp hr
        exact getD_mem' _ j hj
    · intro hx
      obtain ⟨i, hi, rfl⟩ := List.mem_iff_getElem.mp hx
      left
      refine ⟨vrow v G i 0 0, (hmem _).mpr ⟨i, 0, 0, hi, hn, htr, rfl⟩, ?_⟩
      simp [vrow, List.getD_eq_getElem?_getD, List.getElem?_eq_getElem hi]
  have htrait : sortUniq (rows.map (·.trait)) = v.trait := by
    apply sortUniq_eq _ _ ht
    intro x
    simp only [List.mem_map]
    constructor
    · rintro ⟨r, hr, rfl⟩
      obtain ⟨i, j, k, _, _, hk, rfl⟩ := (hmem r).mp hr
      exact getD_mem' _ k hk
    · intro hx
      obtain ⟨k, hk, rfl⟩ := List.mem_iff_getElem.mp hx
      refine ⟨vrow v G 0 0 k, (hmem _).mpr ⟨0, 0, k, hn, hn, hk, rfl⟩, ?_⟩
      simp [vrow, List.getD_eq_getElem?_getD, List.getElem?_eq_getElem hk]
  -- cells
  have hcell : ∀ i j k, i < v.taxa.length → j < v.taxa.length → k < v.trait.length →
      vmCell rows (v.taxa.getD i "") (v.taxa.getD j "") (v.trait.getD k "") =
        some (((v.mat.getD i []).getD j []).getD k default) := by
    intro i j k hi hj hk
    unfold vmCell
    apply find?_map_eq
    · exact ⟨vrow v G i j k, List.mem_reverse.mpr ((hmem _).mpr ⟨i, j, k, hi, hj, hk, rfl⟩), by simp [vrow]⟩
    · intro r hr hp
      obtain ⟨i', j', k', hi', hj', hk', rfl⟩ := (hmem r).mp (List.mem_reverse.mp hr)
      simp only [vrow, Bool.and_eq_true, beq_iff_eq] at hp
      have e1 := getD_inj_of_sorted _ hs i' i hi' hi hp.1.1
      have e2 := getD_inj_of_sorted _ hs j' j hj' hj hp.1.2
      have e3 := getD_inj_of_sorted _ ht k' k hk' hk hp.2
      subst e1; subst e2; subst e3
      rfl
  -- groups
  have hgrp : ∀ g, v.taxa_grp = some g → ∀ i, i < v.taxa.length →
      vmGrpOf rows (v.taxa.getD i "") = g.getD i 0 := by
    intro g hv i hi
    unfold vmGrpOf
    have := find?_map_eq rows (fun r => r.male == v.taxa.getD i "") (fun r => r.maleGrp.getD 0) (g.getD i 0)
      ⟨vrow v G 0 i 0, (hmem _).mpr ⟨0, i, 0, hn, hi, htr, rfl⟩, by simp [vrow]⟩
      (by
        intro r hr hp
        obtain ⟨i', j', k', _, hj', _, rfl⟩ := (hmem r).mp hr
        simp only [vrow, beq_iff_eq] at hp
        have e2 := getD_inj_of_sorted _ hs j' i hj' hi hp
        subst e2
        simp [vrow, hG, hv])
    cases hf : rows.find? (fun r => r.male == v.taxa.getD i "") with
    | none => rw [hf] at this; simp at this
    | some r => rw [hf] at this; simpa using this
  have e_mat : v.taxa.map (fun a => v.taxa.map (fun b => v.trait.map (fun c => vmCell rows a b c))) =
      v.mat.map (fun pl => pl.map (fun r => r.map some)) := by
    apply List.ext_getElem
    · simp [hm1]
    · intro i h1 h2
      have hi : i < v.taxa.length := by simpa using h1
      have hiM : i < v.mat.length := by simpa using h2
      simp only [List.getElem_map]
      apply List.ext_getElem
      · simp [hm2 _ (List.getElem_mem hiM)]
      · intro j h3 h4
        have hj : j < v.taxa.length := by simpa using h3
        have hjM : j < (v.mat[i]).length := by simpa using h4
        simp only [List.getElem_map]
        apply List.ext_getElem
        · simp [hm3 _ (List.getElem_mem hiM) _ (List.getElem_mem hjM)]
        · intro k h5 h6
          have hk : k < v.trait.length := by simpa using h5
          have hkM : k < (v.mat[i][j]).length := by simpa using h6
          simp only [List.getElem_map]
          have := hcell i j k hi hj hk
          simp only [List.getD_eq_getElem?_getD, List.getElem?_eq_getElem hi, List.getElem?_eq_getElem hj,
            List.getElem?_eq_getElem hk, List.getElem?_eq_getElem hiM, Option.getD_some,
            List.getElem?_eq_getElem hjM, List.getElem?_eq_getElem hkM] at this
          exact this
  have e_grp : (if G = true then some (v.taxa.map (vmGrpOf rows)) else none) = v.taxa_grp := by
    cases hv : v.taxa_grp with
    | none => simp [hG, hv]
    | some g =>
      have hGt : G = true := by simp [hG, hv]
      rw [if_pos hGt]
      congr 1
      apply List.ext_getElem
      · simp [hg g hv]
      · intro i h1 h2
        have hi : i < v.taxa.length := by simpa using h1
        simp only [List.getElem_map]
        have := hgrp g hv i hi
        simp only [List.getD_eq_getElem?_getD, List.getElem?_eq_getElem hi, Option.getD_some,
          List.getElem?_eq_getElem h2] at this
        exact this
  unfold vmFromPandas
  simp only [hguard, Bool.false_eq_true, if_false, htaxa, htrait]
  rw [e_mat, e_grp]
  rfl

end vmat

/-! ### CSV text -/

/-- the trusted contract of pandas' CSV writer/reader; `safe` = strings that `read_csv` leaves alone
    (not number-, NA- or boolean-looking, no separator / quote / line break) -/
structure Lawful {σ α : Type} (D : Dialect σ α) (safe : String → Prop) : Prop where
  parse_vals : ∀ l : List α, l ≠ [] → D.parse (l.map D.showVal) = .vals l
  parse_ints : ∀ l : List Int, l ≠ [] → D.parse (l.map D.showInt) = .ints l
  parse_strs : ∀ l : List String, l ≠ [] → (∀ x ∈ l, safe x) → D.parse (l.map D.showStr) = .strs l
  parse_nones : ∀ n : Nat, 0 < n → D.parse (List.replicate n D.na) = .nones n

def ColSafe {α : Type} (safe : String → Prop) : Col α → Prop
  | .strs l => ∀ x ∈ l, safe x
  | _ => True

theorem printCol_length {σ α : Type} (D : Dialect σ α) (c : Col α) : (printCol D c).length = colLen c := by
  cases c <;> simp [printCol, colLen]

theorem parse_printCol {σ α : Type} (D : Dialect σ α) (safe : String → Prop) (hD : Lawful D safe) (c : Col α)
    (hn : 0 < colLen c) (hs : ColSafe safe c) : D.parse (printCol D c) = c := by
  cases c with
  | vals l => exact hD.parse_vals l (by intro h; simp [colLen, h] at hn)
  | ints l => exact hD.parse_ints l (by intro h; simp [colLen, h] at hn)
  | strs l => exact hD.parse_strs l (by intro h; simp [colLen, h] at hn) hs
  | nones n => exact hD.parse_nones n hn

/-- **CSV text round trip**: for every dialect that keeps the contract, a frame with at least one
    row, columns of equal length and label-safe strings is read back column by column; the only
    change is that column labels are strings afterwards -/
theorem csvRead_csvWrite {σ α : Type} (D : Dialect σ α) (safe : String → Prop) (hD : Lawful D safe)
    (f : Frame α) (n : Nat) (hn : 0 < n) (hlen : ∀ e ∈ f, colLen e.2 = n) (hs : ∀ e ∈ f, ColSafe safe e.2) :
    csvRead D (csvWrite D f n) = f.map (fun e => (Name.s (nameText e.1), e.2)) := by
  letI : Inhabited σ := ⟨D.na⟩
  unfold csvRead csvWrite
  simp only [List.length_map]
  have hcols := rows_of_columns (f.map (fun e => printCol D e.2)) f.length n (by simp)
    (by
      intro r hr
      obtain ⟨e, he, rfl⟩ := List.mem_map.mp hr
      rw [printCol_length, hlen e he])
  apply List.ext_getElem
  · simp
  · intro j h1 h2
    have hj : j < f.length := by simpa using h1
    simp only [List.getElem_map, List.getElem_range]
    have hcj := congrArg (fun l => l[j]?) hcols
    simp only [List.getElem?_map, List.getElem?_range hj, Option.map_some,
      List.getElem?_eq_getElem hj] at hcj
    have hcj' := Option.some.inj hcj
    simp only [List.map_map] at hcj'
    have hname : (f.map (fun e => nameText e.1)).getD j "" = nameText f[j].1 := by
      simp [List.getD_eq_getElem?_getD, List.getElem?_eq_getElem hj]
    rw [hname]
    congr 1
    have hpr : (List.map (fun r => r.getD j D.na)
        ((List.range n).map (fun i => (f.map (fun e => printCol D e.2)).map (fun c => c.getD i D.na)))) =
        printCol D f[j].2 := by
      rw [← hcj']
      simp [Function.comp_def]
      intro a _
      rfl
    rw [hpr]
    exact parse_printCol D safe hD f[j].2 (by rw [hlen _ (List.getElem_mem hj)]; exact hn)
      (hs _ (List.getElem_mem hj))

/-- … so a frame all of whose labels are strings goes through CSV text unchanged, and every
    data-frame round-trip theorem carries over to `to_csv` / `from_csv` -/
theorem csvRead_csvWrite_named {σ α : Type} (D : Dialect σ α) (safe : String → Prop) (hD : Lawful D safe)
    (f : Frame α) (n : Nat) (hn : 0 < n) (hlen : ∀ e ∈ f, colLen e.2 = n) (hs : ∀ e ∈ f, ColSafe safe e.2)
    (hnm : ∀ e ∈ f, ∃ v, e.1 = Name.s v) : csvRead D (csvWrite D f n) = f := by
  rw [csvRead_csvWrite D safe hD f n hn hlen hs]
  conv_rhs => rw [← List.map_id f]
  apply List.map_congr_left
  intro e he
  obtain ⟨v, hv⟩ := hnm e he
  simp only [hv, nameText, id]
  exact Prod.ext hv.symm rfl

/-- the contract is consistent: a dialect whose cell texts are tagged values keeps it -/
inductive TagCell (α : Type) | v (x : α) | i (x : Int) | s (x : String) | na
  deriving DecidableEq

def tagParse {α : Type} : List (TagCell α) → Col α
  | [] => .nones 0
  | .v x :: r => .vals (x :: r.filterMap (fun c => match c with | .v y => some y | _ => none))
  | .i x :: r => .ints (x :: r.filterMap (fun c => match c with | .i y => some y | _ => none))
  | .s x :: r => .strs (x :: r.filterMap (fun c => match c with | .s y => some y | _ => none))
  | .na :: r => .nones (r.length + 1)

def tagDialect (α : Type) : Dialect (TagCell α) α := ⟨.v, .i, .s, .na, tagParse⟩

theorem tagDialect_lawful (α : Type) : Lawful (tagDialect α) (fun _ => True) := by
  refine ⟨?_, ?_, ?_, ?_⟩
  · intro l hl
    cases l with
    | nil => exact absurd rfl hl
    | cons a r => simp [tagDialect, tagParse, List.filterMap_map, Function.comp_def]
  · intro l hl
    cases l with
    | nil => exact absurd rfl hl
    | cons a r => simp [tagDialect, tagParse, List.filterMap_map, Function.comp_def]
  · intro l hl _
    cases l with
    | nil => exact absurd rfl hl
    | cons a r => simp [tagDialect, tagParse, List.filterMap_map, Function.comp_def]
  · intro n hn
    cases n with
    | zero => exact absurd hn (by simp)
    | succ k => simp [tagDialect, tagParse, List.replicate_succ]

end StoreFrame
