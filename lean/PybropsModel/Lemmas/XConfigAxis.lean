/-
Helper lemmas for C07 (4): `axis_shuffle(out, 0)` — every cross is permuted within itself, so shape,
multiset and score are unchanged and exchange-optimality is carried over (an exchange in the shuffled
table is the shuffle of an exchange in the original one).
-/
import PybropsModel.Lemmas.XConfigOutcross
set_option autoImplicit false

namespace XConfig

/-- oracle validity of the `rng.shuffle(out[i])` draws -/
def ValidRowPerms (nc np : Nat) (perms : List (List Nat)) : Prop :=
  perms.length = nc ∧ ∀ p ∈ perms, p.Perm (List.range np)

theorem axisShuffle_forall₂ (np : Nat) (perms : List (List Nat)) (rows : Rows)
    (hl : perms.length = rows.length) (hp : ∀ p ∈ perms, p.Perm (List.range np))
    (hr : ∀ r ∈ rows, r.length = np) : List.Forall₂ List.Perm (axisShuffle perms rows) rows := by
  unfold axisShuffle
  induction rows generalizing perms with
  | nil => cases perms <;> simp
  | cons r rs ih =>
    cases perms with
    | nil => simp at hl
    | cons p ps =>
      simp only [List.zipWith_cons_cons]
      refine List.Forall₂.cons ?_ (ih ps (by simpa using hl) (fun q hq => hp q (by simp [hq]))
        (fun q hq => hr q (by simp [hq])))
      apply take_perm
      rw [hr r (by simp)]
      exact hp p (by simp)

theorem rect_axisShuffle {nc np : Nat} {rows : Rows} {perms : List (List Nat)} (h : Rect nc np rows)
    (hv : ValidRowPerms nc np perms) : Rect nc np (axisShuffle perms rows) := by
  have f := axisShuffle_forall₂ np perms rows (by rw [hv.1, h.1]) hv.2 h.2
  refine ⟨by rw [f.length_eq, h.1], ?_⟩
  intro r hr
  obtain ⟨j, hj, rfl⟩ := List.mem_iff_getElem.mp hr
  have hj' : j < rows.length := by rw [← f.length_eq]; exact hj
  have := (List.forall₂_iff_get.mp f).2 j hj hj'
  simp only [List.get_eq_getElem] at this
  rw [this.length_eq]
  exact h.2 _ (List.getElem_mem hj')

/-- column that ends up in column `c` of cross `r` -/
def srcCol (perms : List (List Nat)) (r c : Nat) : Nat := (perms.getD r []).getD c 0

theorem srcCol_lt {nc np : Nat} {perms : List (List Nat)} (hv : ValidRowPerms nc np perms) (r c : Nat)
    (hr : r < nc) (hc : c < np) : srcCol perms r c < np := by
  have hl : r < perms.length := by rw [hv.1]; exact hr
  have hp := hv.2 _ (List.getElem_mem hl)
  have hlen : perms[r].length = np := by rw [hp.length_eq, List.length_range]
  have hc' : c < perms[r].length := by rw [hlen]; exact hc
  have : perms[r][c] ∈ List.range np := hp.mem_iff.mp (List.getElem_mem hc')
  simp only [srcCol, List.getD_eq_getElem?_getD, List.getElem?_eq_getElem hl, Option.getD_some,
    List.getElem?_eq_getElem hc']
  exact List.mem_range.mp this

theorem srcCol_inj {nc np : Nat} {perms : List (List Nat)} (hv : ValidRowPerms nc np perms) (r c c' : Nat)
    (hr : r < nc) (hc : c < np) (hc' : c' < np) (e : srcCol perms r c = srcCol perms r c') : c = c' := by
  have hl : r < perms.length := by rw [hv.1]; exact hr
  have hp := hv.2 _ (List.getElem_mem hl)
  have hlen : perms[r].length = np := by rw [hp.length_eq, List.length_range]
  have h1 : c < perms[r].length := by rw [hlen]; exact hc
  have h2 : c' < perms[r].length := by rw [hlen]; exact hc'
  have nd : perms[r].Nodup := hp.nodup_iff.mpr List.nodup_range
  simp only [srcCol, List.getD_eq_getElem?_getD, List.getElem?_eq_getElem hl, Option.getD_some,
    List.getElem?_eq_getElem h1, List.getElem?_eq_getElem h2] at e
  exact (nd.getElem_inj_iff).mp e

theorem get2_axisShuffle {nc np : Nat} {rows : Rows} {perms : List (List Nat)} (h : Rect nc np rows)
    (hv : ValidRowPerms nc np perms) (r c : Nat) (hr : r < nc) (hc : c < np) :
    get2 (axisShuffle perms rows) (r, c) = get2 rows (r, srcCol perms r c) := by
  have hl : r < perms.length := by rw [hv.1]; exact hr
  have hl2 : r < rows.length := by rw [h.1]; exact hr
  have hp := hv.2 _ (List.getElem_mem hl)
  have hlen : perms[r].length = np := by rw [hp.length_eq, List.length_range]
  have hrl : rows[r].length = np := h.2 _ (List.getElem_mem hl2)
  have hc' : c < perms[r].length := by rw [hlen]; exact hc
  have hall : ∀ i ∈ perms[r], i < rows[r].length := by
    intro i hi
    rw [hrl]
    exact List.mem_range.mp (hp.mem_iff.mp hi)
  have hz : r < (List.zipWith Np.take perms rows).length := by simp [hl, hl2]
  have hct : c < (Np.take perms[r] rows[r]).length := by rw [length_take _ _ hall]; exact hc'
  have hs : perms[r][c] < rows[r].length := hall _ (List.getElem_mem hc')
  simp only [get2, axisShuffle, srcCol, List.getD_eq_getElem?_getD, List.getElem?_eq_getElem hz,
    List.getElem_zipWith, Option.getD_some, List.getElem?_eq_getElem hl, List.getElem?_eq_getElem hl2,
    List.getElem?_eq_getElem hc', List.getElem?_eq_getElem hct, List.getElem?_eq_getElem hs]
  exact getElem_take rows[r] perms[r] hall c hc' hct

/-- an exchange in the shuffled table is the shuffle of the corresponding exchange in the original -/
theorem axisShuffle_swap2 {nc np : Nat} {rows : Rows} {perms : List (List Nat)} (h : Rect nc np rows)
    (hv : ValidRowPerms nc np perms) (p q : Pos) (hp : ValidPos nc np p) (hq : ValidPos nc np q) :
    swap2 (axisShuffle perms rows) p q =
      axisShuffle perms (swap2 rows (p.1, srcCol perms p.1 p.2) (q.1, srcCol perms q.1 q.2)) := by
  obtain ⟨pr, pc⟩ := p
  obtain ⟨qr, qc⟩ := q
  have hF := rect_axisShuffle h hv
  have sp := srcCol_lt hv pr pc hp.1 hp.2
  have sq := srcCol_lt hv qr qc hq.1 hq.2
  apply rect_ext (rect_swap2 hF _ _) (rect_axisShuffle (rect_swap2 h _ _) hv)
  intro r c hr hc
  dsimp only
  rw [get2_swap2 hF _ _ hp.1 hp.2 hq.1 hq.2, get2_axisShuffle (rect_swap2 h _ _) hv r c hr hc,
    get2_swap2 h (pr, srcCol perms pr pc) (qr, srcCol perms qr qc) hp.1 sp hq.1 sq, get2_axisShuffle h hv pr pc hp.1 hp.2,
    get2_axisShuffle h hv qr qc hq.1 hq.2, get2_axisShuffle h hv r c hr hc]
  have e1 : ((r, c) = (qr, qc)) ↔ ((r, srcCol perms r c) = (qr, srcCol perms qr qc)) := by
    constructor
    · intro e; injection e with a b; subst a; subst b; rfl
    · intro e; injection e with a b; subst a
      rw [srcCol_inj hv r c qc hr hc hq.2 b]
  have e2 : ((r, c) = (pr, pc)) ↔ ((r, srcCol perms r c) = (pr, srcCol perms pr pc)) := by
    constructor
    · intro e; injection e with a b; subst a; subst b; rfl
    · intro e; injection e with a b; subst a
      rw [srcCol_inj hv r c pc hr hc hp.2 b]
  simp only [e1, e2]

theorem selfPairs_axisShuffle {nc np : Nat} {rows : Rows} {perms : List (List Nat)} (h : Rect nc np rows)
    (hv : ValidRowPerms nc np perms) : selfPairs (axisShuffle perms rows) = selfPairs rows :=
  selfPairs_forall₂_perm _ _ (axisShuffle_forall₂ np perms rows (by rw [hv.1, h.1]) hv.2 h.2)

theorem perm_flatten_axisShuffle {nc np : Nat} {rows : Rows} {perms : List (List Nat)} (h : Rect nc np rows)
    (hv : ValidRowPerms nc np perms) : (axisShuffle perms rows).flatten.Perm rows.flatten :=
  List.Perm.flatten_congr (axisShuffle_forall₂ np perms rows (by rw [hv.1, h.1]) hv.2 h.2)

/-- shuffling parents within crosses keeps the table exchange-optimal -/
theorem exchangeOptimal_axisShuffle {nc np : Nat} {rows : Rows} {perms : List (List Nat)} (h : Rect nc np rows)
    (hv : ValidRowPerms nc np perms) (ho : ExchangeOptimal nc np rows) :
    ExchangeOptimal nc np (axisShuffle perms rows) := by
  intro p q hp hq
  rw [axisShuffle_swap2 h hv p q hp hq, selfPairs_axisShuffle (rect_swap2 h _ _) hv,
    selfPairs_axisShuffle h hv]
  exact ho _ _ ⟨hp.1, srcCol_lt hv _ _ hp.1 hp.2⟩ ⟨hq.1, srcCol_lt hv _ _ hq.1 hq.2⟩

end XConfig
