/-
Helper lemmas for C04, favourable / deleterious / neutral allele functions.
-/
import Mathlib.Tactic
import PybropsModel.Model.GenomicModel
set_option autoImplicit false
set_option linter.unusedSectionVars false
set_option linter.unusedSimpArgs false
set_option linter.unusedVariables false

namespace Alleles
open GMod

/-- dosage matrix of `n` taxa × `p` markers with entries in `0 … ploidy` -/
structure DosageOK (ploidy n p : ℕ) (A : List (List Int)) : Prop where
  rows : A.length = n
  cols : ∀ r ∈ A, r.length = p
  range : ∀ r ∈ A, ∀ z ∈ r, 0 ≤ z ∧ z ≤ (ploidy : Int)

/-! ### column counts -/

theorem acount_entry (p : ℕ) (A : List (List Int)) (j : ℕ) (hj : j < p) :
    (acount p A).getD j 0 = (A.map (fun r => r.getD j 0)).sum := by
  unfold acount
  simp [List.getD_eq_getElem?_getD, List.getElem?_map, List.getElem?_range hj]

theorem acount_length (p : ℕ) (A : List (List Int)) : (acount p A).length = p := by simp [acount]

theorem getD_mem_or_default (r : List Int) (j : ℕ) : r.getD j 0 ∈ r ∨ r.getD j 0 = 0 := by
  by_cases h : j < r.length
  · left
    rw [List.getD_eq_getElem?_getD, List.getElem?_eq_getElem h]
    exact List.getElem_mem h
  · right
    simp [List.getD_eq_getElem?_getD, List.getElem?_eq_none, Nat.le_of_not_lt h]

theorem colsum_bounds (ploidy : ℕ) (A : List (List Int)) (j : ℕ)
    (h : ∀ r ∈ A, ∀ z ∈ r, 0 ≤ z ∧ z ≤ (ploidy : Int)) :
    0 ≤ (A.map (fun r => r.getD j 0)).sum ∧
    (A.map (fun r => r.getD j 0)).sum ≤ ((ploidy * A.length : ℕ) : Int) := by
  induction A with
  | nil => simp
  | cons r rs ih =>
    obtain ⟨h0, h1⟩ := ih (fun r' hr' => h r' (by simp [hr']))
    have hz : 0 ≤ r.getD j 0 ∧ r.getD j 0 ≤ (ploidy : Int) := by
      rcases getD_mem_or_default r j with hm | h0'
      · exact h r (by simp) _ hm
      · rw [h0']; exact ⟨le_refl _, by exact_mod_cast Nat.zero_le _⟩
    simp only [List.map_cons, List.sum_cons, List.length_cons]
    push_cast at h1 ⊢
    constructor
    · linarith [hz.1]
    · nlinarith [hz.2]

/-- `0 ≤ acount_j ≤ ploidy · n` -/
theorem acount_bounds {ploidy n p : ℕ} {A : List (List Int)} (h : DosageOK ploidy n p A) (j : ℕ) (hj : j < p) :
    0 ≤ (acount p A).getD j 0 ∧ (acount p A).getD j 0 ≤ ((ploidy * n : ℕ) : Int) := by
  rw [acount_entry p A j hj]
  have := colsum_bounds ploidy A j h.range
  rw [h.rows] at this
  exact this

/-! ### cells -/

section cells
variable {α : Type} [Field α] [LinearOrder α] [IsStrictOrderedRing α]

theorem faCell_pos (m : Int) (u : α) (a : Int) (h : 0 < u) : faCell m u a = a := by
  unfold faCell; simp [h.ne', h]
theorem faCell_neg (m : Int) (u : α) (a : Int) (h : u < 0) : faCell m u a = m - a := by
  unfold faCell; simp [h.ne, not_lt.mpr h.le]
theorem faCell_zero (m : Int) (a : Int) : faCell m (0 : α) a = 0 := by
  unfold faCell; simp

theorem daCell_pos (m : Int) (u : α) (a : Int) (h : 0 < u) : daCell m u a = m - a := by
  unfold daCell; simp [h.ne', not_lt.mpr h.le]
theorem daCell_neg (m : Int) (u : α) (a : Int) (h : u < 0) : daCell m u a = a := by
  unfold daCell; simp [h.ne, h]
theorem daCell_zero (m : Int) (a : Int) : daCell m (0 : α) a = 0 := by
  unfold daCell; simp

/-- deleterious count = favourable count of the model with all effects negated -/
theorem daCell_eq_faCell_neg (m : Int) (u : α) (a : Int) : daCell m u a = faCell m (-u) a := by
  unfold daCell faCell
  by_cases h0 : u = 0
  · simp [h0]
  · rcases lt_or_gt_of_ne h0 with h | h
    · simp [h0, h, neg_pos.mpr h]
    · have : ¬ u < 0 := not_lt.mpr h.le
      simp [h0, this, not_lt.mpr (neg_nonpos.mpr h.le)]

/-- a non-neutral marker: every allele copy is favourable or deleterious -/
theorem faCell_add_daCell (m : Int) (u : α) (a : Int) (h : u ≠ 0) : faCell m u a + daCell m u a = m := by
  rcases lt_or_gt_of_ne h with h | h
  · rw [faCell_neg m u a h, daCell_neg m u a h]; ring
  · rw [faCell_pos m u a h, daCell_pos m u a h]; ring

theorem faCell_bounds (m : Int) (u : α) (a : Int) (h0 : 0 ≤ a) (h1 : a ≤ m) :
    0 ≤ faCell m u a ∧ faCell m u a ≤ m := by
  unfold faCell
  split
  · exact ⟨le_refl _, h0.trans h1⟩
  · split
    · exact ⟨h0, h1⟩
    · constructor <;> omega

theorem daCell_bounds (m : Int) (u : α) (a : Int) (h0 : 0 ≤ a) (h1 : a ≤ m) :
    0 ≤ daCell m u a ∧ daCell m u a ≤ m := by
  rw [daCell_eq_faCell_neg]; exact faCell_bounds m (-u) a h0 h1

/-- favourable copies summed over taxa = the code's `where(u > 0, acount, maxfav - acount)` -/
theorem sum_favDosage (ploidy : ℕ) (u : α) (A : List (List Int)) (j : ℕ) :
    (A.map (fun r => favDosage ploidy u (r.getD j 0))).sum
      = faCell ((ploidy * A.length : ℕ) : Int) u (A.map (fun r => r.getD j 0)).sum := by
  by_cases h0 : u = 0
  · subst h0
    rw [faCell_zero]
    have : (fun r : List Int => favDosage ploidy (0:α) (r.getD j 0)) = fun _ => 0 := by
      funext r; simp [favDosage]
    rw [this]; simp
  · rcases lt_or_gt_of_ne h0 with h | h
    · rw [faCell_neg _ u _ h]
      have : (fun r : List Int => favDosage ploidy u (r.getD j 0)) = fun r => (ploidy : Int) - r.getD j 0 := by
        funext r; simp [favDosage, h0, not_lt.mpr h.le]
      rw [this]
      induction A with
      | nil => simp
      | cons r rs ih => simp only [List.map_cons, List.sum_cons, List.length_cons, ih]; push_cast; ring
    · rw [faCell_pos _ u _ h]
      have : (fun r : List Int => favDosage ploidy u (r.getD j 0)) = fun r => r.getD j 0 := by
        funext r; simp [favDosage, h0, h]
      rw [this]

theorem favDosage_neg (ploidy : ℕ) (u : α) (z : Int) : delDosage ploidy u z = favDosage ploidy (-u) z := by
  unfold delDosage favDosage
  by_cases h0 : u = 0
  · simp [h0]
  · rcases lt_or_gt_of_ne h0 with h | h
    · simp [h0, h, neg_pos.mpr h]
    · have : ¬ u < 0 := not_lt.mpr h.le
      simp [h0, this, not_lt.mpr (neg_nonpos.mpr h.le)]

theorem sum_delDosage (ploidy : ℕ) (u : α) (A : List (List Int)) (j : ℕ) :
    (A.map (fun r => delDosage ploidy u (r.getD j 0))).sum
      = daCell ((ploidy * A.length : ℕ) : Int) u (A.map (fun r => r.getD j 0)).sum := by
  rw [daCell_eq_faCell_neg, ← sum_favDosage]
  congr 1
  apply List.map_congr_left
  intro r _
  exact favDosage_neg ploidy u _

/-! ### entries of the broadcast -/

theorem cellMap_entry {β : Type} (f : α → Int → β) (d : β) (ua : List (List α)) (ac : List Int) (j k : ℕ)
    (hj : j < ua.length) (hja : j < ac.length) (hk : k < (ua.getD j []).length) :
    ((cellMap f ua ac).getD j []).getD k d = f ((ua.getD j []).getD k 0) (ac.getD j 0) := by
  unfold cellMap
  have hk' : k < (ua[j]).length := by
    simpa [List.getD_eq_getElem?_getD, List.getElem?_eq_getElem hj] using hk
  simp [List.getD_eq_getElem?_getD, List.getElem?_zipWith, List.getElem?_eq_getElem hj,
    List.getElem?_eq_getElem hja, List.getElem?_map, List.getElem?_eq_getElem hk']

theorem mapM2_entry {β γ : Type} (f : β → γ) (M : List (List β)) (dβ : β) (dγ : γ) (j k : ℕ)
    (hj : j < M.length) (hk : k < (M.getD j []).length) :
    ((mapM2 f M).getD j []).getD k dγ = f ((M.getD j []).getD k dβ) := by
  unfold mapM2
  have hk' : k < (M[j]).length := by
    simpa [List.getD_eq_getElem?_getD, List.getElem?_eq_getElem hj] using hk
  simp [List.getD_eq_getElem?_getD, List.getElem?_map, List.getElem?_eq_getElem hj,
    List.getElem?_eq_getElem hk']

theorem cellMap_shape {β : Type} (f : α → Int → β) (ua : List (List α)) (ac : List Int) (j : ℕ)
    (hj : j < ua.length) (hja : j < ac.length) :
    (cellMap f ua ac).length = min ua.length ac.length ∧
    ((cellMap f ua ac).getD j []).length = (ua.getD j []).length := by
  unfold cellMap
  refine ⟨by simp, ?_⟩
  simp [List.getD_eq_getElem?_getD, List.getElem?_zipWith, List.getElem?_eq_getElem hj,
    List.getElem?_eq_getElem hja]

end cells

end Alleles
