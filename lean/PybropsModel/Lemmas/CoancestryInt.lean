/-
Helper lemmas for C13: integer accumulation of fixed width in `DenseMolecularCoancestryMatrix.from_gmat`
(`Model/CoancestryInt.lean`).  A reduction `wrap` that is the identity on `[-B, B]` is invisible as long as the
number of markers is at most `B`: every product is in `{-1, 0, 1}` and every partial sum is bounded by the number
of markers.
-/
import PybropsModel.Model.CoancestryInt
import PybropsModel.Lemmas.CoancestryBasic
import Mathlib.Tactic
set_option autoImplicit false
set_option linter.unusedSectionVars false

namespace Coancestry

/-- `wrap` leaves every integer of `[-B, B]` unchanged -/
def NoWrapUpTo (wrap : Int → Int) (B : Int) : Prop := ∀ x, -B ≤ x → x ≤ B → wrap x = x

/-- two's complement of `bits ≥ 1` bits represents `[-2^(bits-1), 2^(bits-1) - 1]` faithfully -/
theorem wrapBits_noWrap (bits : Nat) (hb : 0 < bits) : NoWrapUpTo (wrapBits bits) (2 ^ (bits - 1) - 1) := by
  intro x h1 h2
  unfold wrapBits
  have hpow : (2 : Int) ^ bits = 2 * 2 ^ (bits - 1) := by
    obtain ⟨k, rfl⟩ : ∃ k, bits = k + 1 := ⟨bits - 1, by omega⟩
    simp [pow_succ, mul_comm]
  have hpos : (0 : Int) < 2 ^ (bits - 1) := by positivity
  rw [hpow, Int.emod_eq_of_lt (by linarith) (by linarith)]
  ring

theorem noWrap_id (B : Int) : NoWrapUpTo id B := fun _ _ _ => rfl

section fold
variable (wrap : Int → Int) (B : Int) (hw : NoWrapUpTo wrap B)
include hw

theorem foldl_wrap_eq (l : List Int) (acc : Int) (hl : ∀ t ∈ l, |t| ≤ 1) (hb : |acc| + l.length ≤ B) :
    l.foldl (fun a t => wrap (a + t)) acc = l.foldl (· + ·) acc ∧ |l.foldl (· + ·) acc| ≤ |acc| + l.length := by
  induction l generalizing acc with
  | nil => simp
  | cons t l ih =>
    have ht : |t| ≤ 1 := hl t (by simp)
    have h1 : |acc + t| ≤ |acc| + 1 := le_trans (abs_add_le acc t) (by linarith)
    have hlen : ((t :: l).length : Int) = l.length + 1 := by simp
    rw [hlen] at hb
    have hwr : wrap (acc + t) = acc + t := by
      apply hw
      · have := neg_abs_le (acc + t); linarith [abs_nonneg acc, Int.natCast_nonneg l.length]
      · have := le_abs_self (acc + t); linarith [abs_nonneg acc, Int.natCast_nonneg l.length]
    simp only [List.foldl_cons, hwr]
    obtain ⟨e1, e2⟩ := ih (acc + t) (fun s hs => hl s (by simp [hs])) (by linarith)
    refine ⟨e1, ?_⟩
    rw [hlen]
    linarith

/-- the width-reduced dot product of two vectors with entries in `{-1,0,1}` and at most `B` entries is the exact one,
    and it is bounded by the number of entries -/
theorem dotW_eq (a b : List Int) (ha : ∀ x ∈ a, |x| ≤ 1) (hb : ∀ y ∈ b, |y| ≤ 1) (hlen : (a.length : Int) ≤ B) :
    dotW wrap a b = Np.dot a b ∧ |Np.dot a b| ≤ a.length := by
  have hprod : ∀ t ∈ List.zipWith (fun x y : Int => x * y) a b, |t| ≤ 1 := by
    intro t ht
    obtain ⟨i, hi, rfl⟩ := List.mem_iff_getElem.mp ht
    simp only [List.length_zipWith, lt_min_iff] at hi
    rw [List.getElem_zipWith, abs_mul]
    have h1 := ha _ (List.getElem_mem hi.1)
    have h2 := hb _ (List.getElem_mem hi.2)
    calc |a[i]| * |b[i]| ≤ 1 * 1 := mul_le_mul h1 h2 (abs_nonneg _) (by norm_num)
      _ = 1 := by ring
  have hzl : ((List.zipWith (fun x y : Int => x * y) a b).length : Int) ≤ a.length := by
    simp only [List.length_zipWith]
    exact_mod_cast min_le_left _ _
  -- the products are not reduced
  have hz : List.zipWith (fun x y => wrap (x * y)) a b = List.zipWith (fun x y : Int => x * y) a b := by
    by_cases hnil : List.zipWith (fun x y : Int => x * y) a b = []
    · have : a = [] ∨ b = [] := by simpa using hnil
      rcases this with rfl | rfl <;> simp
    · have hB : 1 ≤ B := by
        have : 0 < (List.zipWith (fun x y : Int => x * y) a b).length := List.length_pos_iff.mpr hnil
        have : (1 : Int) ≤ (List.zipWith (fun x y : Int => x * y) a b).length := by exact_mod_cast this
        linarith
      rw [← List.map_zipWith (f := wrap) (g := fun x y : Int => x * y)]
      conv_rhs => rw [← List.map_id (List.zipWith (fun x y : Int => x * y) a b)]
      apply List.map_congr_left
      intro t ht
      have := hprod t ht
      exact hw t (by have := neg_abs_le t; linarith) (by have := le_abs_self t; linarith)
  unfold dotW Np.dot Np.sum
  rw [hz]
  obtain ⟨e1, e2⟩ := foldl_wrap_eq wrap B hw _ 0 hprod (by simpa using hzl.trans hlen)
  refine ⟨e1, ?_⟩
  simp only [abs_zero, zero_add] at e2
  exact e2.trans hzl

theorem mulTW_eq (A Bm : List (List Int)) (m : Nat) (hA : ∀ r ∈ A, r.length = m ∧ ∀ x ∈ r, |x| ≤ 1)
    (hB : ∀ r ∈ Bm, ∀ x ∈ r, |x| ≤ 1) (hm : (m : Int) ≤ B) :
    mulTW wrap A Bm = mulT A Bm := by
  unfold mulTW mulT
  apply List.map_congr_left
  intro r hr
  apply List.map_congr_left
  intro s hs
  exact (dotW_eq wrap B hw r s (hA r hr).2 (hB s hs) (by rw [(hA r hr).1]; exact hm)).1

end fold

/-! ### casting the integer Gram matrix -/
section cast
variable {α : Type} [Field α]

theorem cast_dot (a b : List Int) : ((Np.dot a b : Int) : α) = Np.dot (a.map (Int.cast : Int → α)) (b.map Int.cast) := by
  unfold Np.dot
  rw [npsum_eq_sum, npsum_eq_sum, Int.cast_list_sum, List.map_zipWith, List.zipWith_map]
  simp only [Int.cast_mul]

theorem mapMat_cast_mulT (A B : List (List Int)) :
    mapMat (Int.cast : Int → α) (mulT A B) = mulT (mapMat Int.cast A) (mapMat Int.cast B) := by
  unfold mapMat mulT
  rw [List.map_map, List.map_map]
  apply List.map_congr_left
  intro r _
  simp only [Function.comp, List.map_map]
  apply List.map_congr_left
  intro s _
  simp only [Function.comp]
  exact cast_dot r s

theorem mapMat_mapMat {β γ δ : Type} (f : β → γ) (g : γ → δ) (X : List (List β)) :
    mapMat g (mapMat f X) = mapMat (fun x => g (f x)) X := by
  unfold mapMat
  rw [List.map_map]
  apply List.map_congr_left
  intro r _
  simp [Function.comp]

theorem mapMat_congr {β γ : Type} (f g : β → γ) (X : List (List β)) (h : ∀ r ∈ X, ∀ x ∈ r, f x = g x) :
    mapMat f X = mapMat g X := by
  unfold mapMat
  apply List.map_congr_left
  intro r hr
  apply List.map_congr_left
  intro x hx
  exact h r hr x hx

end cast

/-! ### binary rows: agreements + joint absences never exceed the number of markers -/

theorem dot_add_dot_compl (r s : List Int) (hr : ∀ x ∈ r, x = 0 ∨ x = 1) (hs : ∀ y ∈ s, y = 0 ∨ y = 1) :
    0 ≤ Np.dot r s + Np.dot (r.map (fun x => 1 - x)) (s.map (fun x => 1 - x)) ∧
      Np.dot r s + Np.dot (r.map (fun x => 1 - x)) (s.map (fun x => 1 - x)) ≤ r.length := by
  unfold Np.dot
  rw [npsum_eq_sum, npsum_eq_sum]
  induction r generalizing s with
  | nil => simp
  | cons x r ih =>
    cases s with
    | nil => simp; positivity
    | cons y s =>
      simp only [List.map_cons, List.zipWith_cons_cons, List.sum_cons, List.length_cons]
      obtain ⟨i1, i2⟩ := ih s (fun a ha => hr a (by simp [ha])) (fun a ha => hs a (by simp [ha]))
      have hx := hr x (by simp)
      have hy := hs y (by simp)
      push_cast
      rcases hx with rfl | rfl <;> rcases hy with rfl | rfl <;> constructor <;> linarith

/-! ### the contract -/
section contract
variable {α : Type} [Field α]

/-- **dtype contract of the molecular estimator.**  With allele counts in `0..ploidy` (ploidy 1 or 2), any integer
    type whose reduction is the identity on `[-B, B]` and at most `B` markers, the integer part of `from_gmat`
    never wraps: the result is the exact `molecular` of the counts (hence, by `molecular_eq_twice_ibs_counts`, twice
    the mean identity-by-state probability).  `wrapBits 64` (the native width the code asks for with
    `tacount(int)`) gives `B = 2⁶³ − 1`; `wrapBits 8` only `B = 127`. -/
theorem molecularW_eq_molecular (wrap : Int → Int) (B : Int) (hw : NoWrapUpTo wrap B) (ploidy n m : Nat)
    (X : List (List Int)) (hX : Rect n m X) (hpl : ploidy = 1 ∨ ploidy = 2) (hmB : (m : Int) ≤ B)
    (hrange : ∀ r ∈ X, ∀ x ∈ r, 0 ≤ x ∧ x ≤ (ploidy : Int)) :
    molecularW (α := α) wrap ploidy m X = molecular ploidy m (mapMat (Int.cast : Int → α) X) := by
  unfold molecularW molecular
  by_cases hm : m = 0
  · simp [hm]
  simp only [hm, if_false]
  have hB1 : (1 : Int) ≤ B := by
    have : (1 : Int) ≤ m := by exact_mod_cast Nat.pos_of_ne_zero hm
    linarith
  have hid : ∀ x : Int, |x| ≤ 1 → wrap x = x := fun x hx =>
    hw x (by have := neg_abs_le x; linarith) (by have := le_abs_self x; linarith)
  rcases hpl with rfl | rfl
  · -- haploid
    simp only [if_true]
    have hbin : ∀ r ∈ X, ∀ x ∈ r, x = 0 ∨ x = 1 := by
      intro r hr x hx
      obtain ⟨h0, h1⟩ := hrange r hr x hx
      have : x ≤ 1 := by exact_mod_cast h1
      omega
    have hY : mapMat (fun x => wrap (1 - x)) X = mapMat (fun x : Int => 1 - x) X := by
      apply mapMat_congr
      intro r hr x hx
      rcases hbin r hr x hx with rfl | rfl <;> exact hid _ (by norm_num)
    rw [hY]
    have habs : ∀ r ∈ X, r.length = m ∧ ∀ x ∈ r, |x| ≤ 1 := by
      intro r hr
      refine ⟨hX.2 r hr, ?_⟩
      intro x hx
      rcases hbin r hr x hx with rfl | rfl <;> norm_num
    have hYabs : ∀ r ∈ mapMat (fun x : Int => 1 - x) X, r.length = m ∧ ∀ x ∈ r, |x| ≤ 1 := by
      intro r hr
      simp only [mapMat, List.mem_map] at hr
      obtain ⟨r', hr', rfl⟩ := hr
      refine ⟨by simp [hX.2 r' hr'], ?_⟩
      intro x hx
      simp only [List.mem_map] at hx
      obtain ⟨x', hx', rfl⟩ := hx
      rcases hbin r' hr' x' hx' with rfl | rfl <;> norm_num
    rw [mulTW_eq wrap B hw X X m habs (fun r hr => (habs r hr).2) hmB,
      mulTW_eq wrap B hw _ _ m hYabs (fun r hr => (hYabs r hr).2) hmB]
    -- the sum of the two Gram matrices is not reduced either
    have hzip : zipMat (fun a b => wrap (a + b)) (mulT X X) (mulT (mapMat (fun x : Int => 1 - x) X) (mapMat (fun x : Int => 1 - x) X))
        = zipMat (fun a b : Int => a + b) (mulT X X) (mulT (mapMat (fun x : Int => 1 - x) X) (mapMat (fun x : Int => 1 - x) X)) := by
      unfold zipMat mulT mapMat
      simp only [List.map_map, List.zipWith_map, List.zipWith_self, Function.comp]
      apply List.map_congr_left
      intro r hr
      apply List.map_congr_left
      intro s hs
      obtain ⟨i1, i2⟩ := dot_add_dot_compl r s (hbin r hr) (hbin s hs)
      apply hw
      · linarith
      · have : ((r.length : Nat) : Int) = m := by rw [hX.2 r hr]
        linarith
    rw [hzip]
    congr 1
    -- casts
    rw [← mapMat_mapMat (Int.cast : Int → α) (fun s : α => (1 + 1) * (1 / (m : α)) * s)]
    congr 1
    have hz : ∀ (P Q : List (List Int)), mapMat (Int.cast : Int → α) (zipMat (fun a b : Int => a + b) P Q)
        = zipMat (fun a b : α => a + b) (mapMat Int.cast P) (mapMat Int.cast Q) := by
      intro P Q
      unfold mapMat zipMat
      rw [List.map_zipWith, List.zipWith_map]
      congr 1
      funext p q
      rw [List.map_zipWith, List.zipWith_map]
      congr 1
      funext a b
      push_cast
      rfl
    rw [hz, mapMat_cast_mulT, mapMat_cast_mulT, mapMat_mapMat, mapMat_mapMat]
    congr 3 <;> · funext x; push_cast; rfl
  · -- diploid
    simp only [show (2 : Nat) ≠ 1 by decide, if_false, if_true]
    have h3 : ∀ r ∈ X, ∀ x ∈ r, x = 0 ∨ x = 1 ∨ x = 2 := by
      intro r hr x hx
      obtain ⟨h0, h1⟩ := hrange r hr x hx
      have : x ≤ 2 := by exact_mod_cast h1
      omega
    have hX1 : mapMat (fun x => wrap (x - 1)) X = mapMat (fun x : Int => x - 1) X := by
      apply mapMat_congr
      intro r hr x hx
      rcases h3 r hr x hx with rfl | rfl | rfl <;> exact hid _ (by norm_num)
    rw [hX1]
    have habs : ∀ r ∈ mapMat (fun x : Int => x - 1) X, r.length = m ∧ ∀ x ∈ r, |x| ≤ 1 := by
      intro r hr
      simp only [mapMat, List.mem_map] at hr
      obtain ⟨r', hr', rfl⟩ := hr
      refine ⟨by simp [hX.2 r' hr'], ?_⟩
      intro x hx
      simp only [List.mem_map] at hx
      obtain ⟨x', hx', rfl⟩ := hx
      rcases h3 r' hr' x' hx' with rfl | rfl | rfl <;> norm_num
    rw [mulTW_eq wrap B hw _ _ m habs (fun r hr => (habs r hr).2) hmB]
    congr 1
    rw [← mapMat_mapMat (Int.cast : Int → α) (fun s : α => 1 + 1 / (m : α) * s), mapMat_cast_mulT, mapMat_mapMat,
      mapMat_mapMat]
    congr 2 <;> · apply mapMat_congr; intro r _ x _; push_cast; rfl

end contract

end Coancestry
