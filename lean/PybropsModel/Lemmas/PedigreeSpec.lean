/-
Helper lemma for C01: the pedigree statement for the rows of `Mating.mate` (after `group_taxa`).
-/
import Mathlib.Tactic
import PybropsModel.Lemmas.Pedigree
import PybropsModel.Lemmas.MatingSpec
set_option autoImplicit false
set_option linter.unusedSectionVars false

namespace Mating
open Meiosis
variable {α ρ : Type} [Preorder ρ] [DecidableLT ρ] [Zero ρ]
variable {P : Proto} {pop : Pop α} {xc : List (List Nat)} {nmating nprogeny : Cnt} {nself : Nat}
    {xo : List ρ} {pc fc : Nat} {draws : List (DrawMat ρ)} {out : Out α}

/-- every row of the result has the pedigree its family's configuration row prescribes -/
theorem mate_pedigree (h : mate P pop xc nmating nprogeny nself xo pc fc draws = .ok out) (hnn : Nonneg draws) :
    ∀ r ∈ out.rows, fc ≤ r.grp ∧ ∃ cross, xc[r.grp - fc]? = some cross ∧ lineage xo P nself pop cross r.ind := by
  obtain ⟨nm, np, prog, hs, hnm, hnp, hgen, hlen, hrows, _, _⟩ := mate_inv h
  have htag := pedigree_ok P hs hnn hgen
  unfold PedOK PT at htag
  rw [families_eq] at hlen hrows
  intro r hr
  rw [hrows] at hr
  have hr0 := (groupTaxa_perm _).mem_iff.mp hr
  obtain ⟨i, hi, rfl⟩ := List.mem_iff_getElem.mp hr0
  rw [genRows_getElem P prog pc _ hlen]
  have hl := genRows_length P prog pc _ hlen
  have hip : i < prog.length := by omega
  obtain ⟨htl, hall⟩ := List.forall₂_iff_get.mp htag
  have hit : i < (Np.repeatEach (List.zipWith (· * ·) nm np) (xc.map (lineage xo P nself pop))).length := by omega
  have hm := hall i hip hit
  simp only [List.get_eq_getElem] at hm
  have hig : i < (Np.repeatEach (List.zipWith (· * ·) nm np) (Np.arange fc xc.length)).length := by omega
  have hz : ((Np.repeatEach (List.zipWith (· * ·) nm np) (xc.map (lineage xo P nself pop)))[i],
             (Np.repeatEach (List.zipWith (· * ·) nm np) (Np.arange fc xc.length))[i]) ∈
      List.zip (xc.map (lineage xo P nself pop)) (Np.arange fc xc.length) := by
    apply Np.mem_of_mem_repeatEach (c := List.zipWith (· * ·) nm np)
    rw [← Np.zip_repeatEach, List.mem_iff_getElem]
    exact ⟨i, by simp; omega, by simp⟩
  obtain ⟨k, hk, hke⟩ := List.mem_iff_getElem.mp hz
  simp only [List.getElem_zip, List.getElem_map, Np.getElem_arange, Prod.mk.injEq] at hke
  obtain ⟨hk1, hk2⟩ := hke
  have hkx : k < xc.length := by simp at hk; omega
  simp only
  rw [← hk1] at hm
  refine ⟨by omega, xc[k], ?_, hm⟩
  rw [← hk2]
  simp [hkx]

end Mating
