/-
Helper lemmas for C01: the joint pedigree test `Mating.pedCheck` (reachability over hidden gamete
states) accepts every individual that has the pedigree `Mating.lineage` prescribes.
 * `lineage … = (pedOf …).sat`      the pedigree predicate is the meaning of the pedigree term
 * `sat_states`                     an individual satisfying a term has a run of hidden states that
                                    explains both copies cell by cell and changes only where xo > 0
 * `pedDP_of_run`                   such a run makes the reachability test succeed
-/
import Mathlib.Tactic
import PybropsModel.Lemmas.Pedigree
import PybropsModel.Lemmas.MosaicPath
set_option autoImplicit false
set_option linter.unusedSectionVars false

namespace Mating
open Meiosis
variable {α ρ : Type}

theorem mem_allStates : ∀ (n : Nat) (σ : List Bool), σ ∈ allStates n ↔ σ.length = n
  | 0, σ => by simp [allStates]
  | n + 1, σ => by
    simp only [allStates, List.mem_flatMap, List.mem_cons, List.not_mem_nil, or_false]
    constructor
    · rintro ⟨s, hs, rfl | rfl⟩ <;> simp [(mem_allStates n s).mp hs]
    · intro h
      cases σ with
      | nil => simp at h
      | cons b t =>
        refine ⟨t, (mem_allStates n t).mpr (by simpa using h), ?_⟩
        cases b <;> simp

section
variable [Preorder ρ] [DecidableLT ρ] [Zero ρ]

theorem sat_pedSelf (xo : List ρ) (pop : Pop α) : ∀ (n : Nat) (t : Ped),
    (pedSelf n t).sat xo pop = selfN xo n (t.sat xo pop)
  | 0, _ => rfl
  | n + 1, t => by
    simp only [pedSelf, selfN]
    rw [sat_pedSelf xo pop n (.self t)]
    rfl

/-- the pedigree predicate is the meaning of the pedigree term -/
theorem lineage_eq_sat (xo : List ρ) (P : Proto) (nself : Nat) (pop : Pop α) (cr : List Nat) :
    lineage xo P nself pop cr = (pedOf P nself cr).sat xo pop := by
  cases P <;> simp only [lineage, pedOf, Ped.sat, sat_pedSelf]

/-- a run of states that explains the individual makes the reachability test succeed -/
theorem pedDP_of_run {S : Type} [DecidableEq S] (all : List S) (ok : S → Nat → Bool) (σ : Nat → S) :
    ∀ (xs : List ρ) (reach : List S) (j : Nat),
      (∀ i, i < xs.length → σ (j + i) ∈ all ∧ ok (σ (j + i)) (j + i) = true) →
      (∀ i, i + 1 < xs.length → σ (j + i + 1) ≠ σ (j + i) → ∃ x, xs[i + 1]? = some x ∧ 0 < x) →
      (xs = [] → reach ≠ []) →
      (∀ x xs', xs = x :: xs' → σ j ∈ reach ∨ (0 < x ∧ reach ≠ [])) →
      pedDP all ok reach j xs = true := by
  intro xs
  induction xs with
  | nil =>
    intro reach j _ _ hne _
    simp only [pedDP, Bool.not_eq_true', List.isEmpty_eq_false_iff]
    exact hne rfl
  | cons x xs ih =>
    intro reach j hok hsw _ hhead
    simp only [pedDP]
    have h0 := hok 0 (by simp)
    simp only [Nat.add_zero] at h0
    -- σ j is among the candidates
    have hc : σ j ∈ (if (decide (0 < x) && !reach.isEmpty) = true then all else reach) := by
      split
      · exact h0.1
      · rename_i hcond
        rcases hhead x xs rfl with h | ⟨hx, hne⟩
        · exact h
        · exfalso
          apply hcond
          simp only [Bool.and_eq_true, decide_eq_true_eq, Bool.not_eq_true', List.isEmpty_eq_false_iff]
          exact ⟨hx, hne⟩
    have hmem : σ j ∈ (if (decide (0 < x) && !reach.isEmpty) = true then all else reach).filter (fun s => ok s j) :=
      List.mem_filter.mpr ⟨hc, h0.2⟩
    apply ih _ (j + 1)
    · intro i hi
      have := hok (i + 1) (by simpa using hi)
      rw [show j + (i + 1) = j + 1 + i by omega] at this
      exact this
    · intro i hi hne
      have := hsw (i + 1) (by simpa using hi) (by
        rw [show j + (i + 1) + 1 = j + 1 + i + 1 by omega, show j + (i + 1) = j + 1 + i by omega]; exact hne)
      simpa using this
    · intro _
      exact List.ne_nil_of_mem hmem
    · intro x' xs' hxs
      by_cases he : σ (j + 1) = σ j
      · left; rw [he]; exact hmem
      · right
        have := hsw 0 (by rw [hxs]; simp) (by simpa using he)
        rw [hxs] at this
        simp only [Nat.zero_add, List.getElem?_cons_succ, List.getElem?_cons_zero] at this
        obtain ⟨y, hy, hpos⟩ := this
        cases hy
        exact ⟨hpos, List.ne_nil_of_mem hmem⟩

/-- index form of a two-source mosaic: one bit per marker -/
theorem mosaic_two_bits {xo : List ρ} {h0 h1 g : List α} (hm : Mosaic [h0, h1] xo g) :
    ∃ b : Nat → Bool, (∀ j, j < xo.length → g[j]? = (if b j then h1 else h0)[j]?) ∧
      (∀ j, j + 1 < xo.length → b (j + 1) ≠ b j → ∃ x, xo[j + 1]? = some x ∧ 0 < x) := by
  have hl := hm.length_eq
  obtain ⟨p, _, hcell, hsw⟩ := hm.path
  refine ⟨fun j => decide (p.getD j 0 = 1), ?_, ?_⟩
  · intro j hj
    obtain ⟨src, hs, he⟩ := hcell j (by omega)
    rw [← he]
    by_cases h1' : p.getD j 0 = 1
    · simp only [h1', decide_true, if_true]
      rw [h1'] at hs
      simp at hs
      rw [hs]
    · simp only [h1', decide_false, Bool.false_eq_true, if_false]
      have : p.getD j 0 = 0 := by
        by_contra h0'
        have : 2 ≤ p.getD j 0 := by omega
        rw [List.getElem?_eq_none (by simpa using this)] at hs
        simp at hs
      rw [this] at hs
      simp at hs
      rw [hs]
  · intro j hj hne
    apply hsw j (by omega)
    intro heq
    apply hne
    simp only [heq]

/-- copy `k` of an individual `I` read through a term -/
def Reads (pop : Pop α) (t : Ped) (I : Ind α) (σ : Nat → List Bool) (n : Nat) : Prop :=
  ∀ j, j < n → I.1[j]? = t.allele pop j false (σ j) ∧ I.2[j]? = t.allele pop j true (σ j)

/-- an individual satisfying a term has an explaining run of hidden states -/
theorem sat_states {xo : List ρ} {pop : Pop α} (hs : Shaped xo pop) : ∀ (t : Ped) (c : Ind α), t.sat xo pop c →
    c.1.length = xo.length ∧ c.2.length = xo.length ∧
    ∃ σ : Nat → List Bool, (∀ j, (σ j).length = t.bits) ∧ Reads pop t c σ xo.length ∧
      (∀ j, j + 1 < xo.length → σ (j + 1) ≠ σ j → ∃ x, xo[j + 1]? = some x ∧ 0 < x) := by
  intro t
  induction t with
  | leaf s =>
    intro c hc
    have hmem : c ∈ pop := List.mem_of_getElem? hc
    refine ⟨(hs c hmem).1, (hs c hmem).2, fun _ => [], fun _ => rfl, ?_, fun j _ hne => absurd rfl hne⟩
    intro j _
    have hc' : pop[s]? = some c := hc
    simp only [Ped.allele]
    rw [hc']
    simp
  | cross f m ihf ihm =>
    rintro c ⟨F, M, hF, hM, hc1, hc2⟩
    obtain ⟨_, _, σF, lF, rF, sF⟩ := ihf F hF
    obtain ⟨_, _, σM, lM, rM, sM⟩ := ihm M hM
    obtain ⟨bf, cf, swf⟩ := mosaic_two_bits hc1
    obtain ⟨bm, cm, swm⟩ := mosaic_two_bits hc2
    refine ⟨hc1.length_eq, hc2.length_eq, fun j => bf j :: bm j :: (σF j ++ σM j), ?_, ?_, ?_⟩
    · intro j; simp [Ped.bits, lF, lM]; omega
    · intro j hj
      simp only [Ped.allele, Bool.false_eq_true, if_false, if_true, List.getD_cons_zero, List.getD_cons_succ,
        List.drop_succ_cons, List.drop_zero]
      rw [List.take_left' (lF j), List.drop_left' (lF j)]
      constructor
      · rw [cf j hj]
        cases bf j
        · simpa using (rF j hj).1
        · simpa using (rF j hj).2
      · rw [cm j hj]
        cases bm j
        · simpa using (rM j hj).1
        · simpa using (rM j hj).2
    · intro j hj hne
      by_cases h1 : bf (j + 1) = bf j
      · by_cases h2 : bm (j + 1) = bm j
        · by_cases h3 : σF (j + 1) = σF j
          · by_cases h4 : σM (j + 1) = σM j
            · exact absurd (by simp only [h1, h2, h3, h4]) hne
            · exact sM j hj h4
          · exact sF j hj h3
        · exact swm j hj h2
      · exact swf j hj h1
  | self h ih =>
    rintro c ⟨H, hH, hc1, hc2⟩
    obtain ⟨_, _, σH, lH, rH, sH⟩ := ih H hH
    obtain ⟨b1, c1, sw1⟩ := mosaic_two_bits hc1
    obtain ⟨b2, c2, sw2⟩ := mosaic_two_bits hc2
    refine ⟨hc1.length_eq, hc2.length_eq, fun j => b1 j :: b2 j :: σH j, ?_, ?_, ?_⟩
    · intro j; simp [Ped.bits, lH]; omega
    · intro j hj
      simp only [Ped.allele, Bool.false_eq_true, if_false, if_true, List.getD_cons_zero, List.getD_cons_succ,
        List.drop_succ_cons, List.drop_zero]
      constructor
      · rw [c1 j hj]
        cases b1 j
        · simpa using (rH j hj).1
        · simpa using (rH j hj).2
      · rw [c2 j hj]
        cases b2 j
        · simpa using (rH j hj).1
        · simpa using (rH j hj).2
    · intro j hj hne
      by_cases h1 : b1 (j + 1) = b1 j
      · by_cases h2 : b2 (j + 1) = b2 j
        · by_cases h3 : σH (j + 1) = σH j
          · exact absurd (by simp only [h1, h2, h3]) hne
          · exact sH j hj h3
        · exact sw2 j hj h2
      · exact sw1 j hj h1
  | dh h ih =>
    rintro c ⟨H, hH, hc1, hceq⟩
    obtain ⟨_, _, σH, lH, rH, sH⟩ := ih H hH
    obtain ⟨b1, c1, sw1⟩ := mosaic_two_bits hc1
    refine ⟨hc1.length_eq, by rw [← hceq]; exact hc1.length_eq, fun j => b1 j :: σH j, ?_, ?_, ?_⟩
    · intro j; simp [Ped.bits, lH]; omega
    · intro j hj
      simp only [Ped.allele, List.getD_cons_zero, List.drop_succ_cons, List.drop_zero]
      rw [← hceq, c1 j hj]
      cases b1 j
      · simpa using (rH j hj).1
      · simpa using (rH j hj).2
    · intro j hj hne
      by_cases h1 : b1 (j + 1) = b1 j
      · by_cases h3 : σH (j + 1) = σH j
        · exact absurd (by simp only [h1, h3]) hne
        · exact sH j hj h3
      · exact sw1 j hj h1

variable [BEq α] [LawfulBEq α]

/-- the joint pedigree test accepts every individual satisfying the term -/
theorem pedCheck_of_sat {xo : List ρ} {pop : Pop α} (hs : Shaped xo pop) (t : Ped) (c : Ind α)
    (h : t.sat xo pop c) : pedCheck t pop xo c = true := by
  obtain ⟨l1, l2, σ, hl, hr, hsw⟩ := sat_states hs t c h
  simp only [pedCheck, l1, l2, beq_self_eq_true, Bool.true_and]
  apply pedDP_of_run (allStates t.bits) (pedOK t pop c) σ xo _ 0
  · intro i hi
    simp only [Nat.zero_add]
    refine ⟨(mem_allStates _ _).mpr (hl i), ?_⟩
    obtain ⟨a, b⟩ := hr i hi
    simp [pedOK, a, b]
  · intro i hi hne
    simp only [Nat.zero_add] at hne
    exact hsw i hi hne
  · intro _
    exact List.ne_nil_of_mem ((mem_allStates _ _).mpr (hl 0))
  · intro x xs' _
    left
    exact (mem_allStates _ _).mpr (hl 0)

/-- … in particular every individual with the prescribed lineage -/
theorem pedCheck_of_lineage {xo : List ρ} {pop : Pop α} (hs : Shaped xo pop) (P : Proto) (nself : Nat)
    (cr : List Nat) (c : Ind α) (h : lineage xo P nself pop cr c) :
    pedCheck (pedOf P nself cr) pop xo c = true := by
  rw [lineage_eq_sat] at h
  exact pedCheck_of_sat hs _ c h

end

end Mating
