/-
Lemmas/LabelMatMask.lean — masked genotyping rebuilds the variant group metadata correctly: if the input's
metadata are a true contiguous partition of its group column, the recounted metadata are a true contiguous
partition of the masked column.
-/
import PybropsModel.Lemmas.LabelMatGroup

set_option autoImplicit false
set_option linter.unusedVariables false

namespace LabelMat

open Np

variable {lab : Type}

/-! ### flatnonzero / compress -/

theorem flatnonzeroFrom_append (k : Nat) (m1 m2 : List Bool) :
    flatnonzeroFrom k (m1 ++ m2) = flatnonzeroFrom k m1 ++ flatnonzeroFrom (k + m1.length) m2 := by
  induction m1 generalizing k with
  | nil => simp [flatnonzeroFrom]
  | cons b m1 ih =>
    simp only [List.cons_append, flatnonzeroFrom, List.length_cons]
    have e : k + (m1.length + 1) = k + 1 + m1.length := by omega
    cases b <;> simp [ih, e]

theorem flatnonzeroFrom_bounds (k : Nat) (m : List Bool) : ∀ x ∈ flatnonzeroFrom k m, k ≤ x ∧ x < k + m.length := by
  induction m generalizing k with
  | nil => intro x hx; simp [flatnonzeroFrom] at hx
  | cons b m ih =>
    intro x hx
    simp only [flatnonzeroFrom] at hx
    cases b with
    | false =>
      simp only [Bool.false_eq_true, if_false] at hx
      have := ih (k + 1) x hx
      simp only [List.length_cons]; omega
    | true =>
      simp only [if_true, List.mem_cons] at hx
      rcases hx with rfl | hx
      · simp
      · have := ih (k + 1) x hx
        simp only [List.length_cons]; omega

theorem compress_append {β : Type} (m1 m2 : List Bool) (l1 l2 : List β) (h : m1.length = l1.length) :
    compress (m1 ++ m2) (l1 ++ l2) = compress m1 l1 ++ compress m2 l2 := by
  simp only [compress]
  rw [List.zip_append h, List.filterMap_append]

theorem compress_mem {β : Type} (m : List Bool) (l : List β) : ∀ x ∈ compress m l, x ∈ l := by
  intro x hx
  simp only [compress, List.mem_filterMap] at hx
  obtain ⟨p, hp, hpx⟩ := hx
  have := (List.of_mem_zip hp).2
  split at hpx
  · cases hpx; exact this
  · cases hpx

theorem compress_length {β : Type} (k : Nat) (m : List Bool) (l : List β) (h : m.length = l.length) :
    (compress m l).length = (flatnonzeroFrom k m).length := by
  induction m generalizing l k with
  | nil => simp [compress, flatnonzeroFrom]
  | cons b m ih =>
    cases l with
    | nil => simp at h
    | cons x l =>
      simp only [List.length_cons, Nat.add_right_cancel_iff] at h
      have := ih (k + 1) l h
      simp only [compress] at this ⊢
      cases b <;> simp [flatnonzeroFrom, this]

/-- the indices of a mask `pre ++ blk ++ post` that fall into the block are exactly the block's own -/
theorem count_block (pre blk post : List Bool) :
    ((flatnonzero (pre ++ blk ++ post)).filter
        (fun x => decide (pre.length ≤ x) && decide (x < pre.length + blk.length))).length
      = (flatnonzeroFrom pre.length blk).length := by
  unfold flatnonzero
  rw [flatnonzeroFrom_append, flatnonzeroFrom_append]
  simp only [Nat.zero_add, List.filter_append, List.length_append]
  have h1 : (flatnonzeroFrom 0 pre).filter
      (fun x => decide (pre.length ≤ x) && decide (x < pre.length + blk.length)) = [] := by
    rw [List.filter_eq_nil_iff]
    intro x hx
    have := flatnonzeroFrom_bounds 0 pre x hx
    simp; omega
  have h2 : (flatnonzeroFrom pre.length blk).filter
      (fun x => decide (pre.length ≤ x) && decide (x < pre.length + blk.length)) = flatnonzeroFrom pre.length blk := by
    rw [List.filter_eq_self]
    intro x hx
    have := flatnonzeroFrom_bounds pre.length blk x hx
    simp; omega
  have h3 : (flatnonzeroFrom (pre.length + blk.length) post).filter
      (fun x => decide (pre.length ≤ x) && decide (x < pre.length + blk.length)) = [] := by
    rw [List.filter_eq_nil_iff]
    intro x hx
    have := flatnonzeroFrom_bounds _ post x hx
    simp; omega
  rw [h1, h2, h3]
  simp

/-! ### cumulative sums -/

theorem cumsumFrom_eq (acc : Nat) (l : List Nat) :
    cumsumFrom acc l = List.zipWith (· + ·) (startsFrom acc l) l := by
  induction l generalizing acc with
  | nil => rfl
  | cons a l ih => simp [cumsumFrom, startsFrom, ih]

theorem cumsumFrom_length (acc : Nat) (l : List Nat) : (cumsumFrom acc l).length = l.length := by
  induction l generalizing acc with
  | nil => rfl
  | cons a l ih => simp [cumsumFrom, ih]

theorem take_cons_cumsumFrom (acc : Nat) (l : List Nat) :
    (acc :: cumsumFrom acc l).take l.length = startsFrom acc l := by
  induction l generalizing acc with
  | nil => rfl
  | cons a l ih =>
    simp only [cumsumFrom, List.length_cons, List.take_succ_cons, startsFrom]
    rw [ih]

/-- a tiling determines the start and stop arrays from the lengths -/
theorem tilesFrom_inv (pos : Nat) (st sp ln : List Nat) (e : Nat) (h : tilesFrom pos st sp ln = some e) :
    st = startsFrom pos ln ∧ sp = List.zipWith (· + ·) st ln ∧ e = pos + ln.sum := by
  induction ln generalizing pos st sp with
  | nil =>
    cases st <;> cases sp <;> simp [tilesFrom] at h
    simp [startsFrom, h]
  | cons n ns ih =>
    cases st with
    | nil => cases sp <;> simp [tilesFrom] at h
    | cons a st =>
      cases sp with
      | nil => simp [tilesFrom] at h
      | cons b sp =>
        simp only [tilesFrom] at h
        split at h
        · rename_i hc
          simp only [Bool.and_eq_true, beq_iff_eq] at hc
          obtain ⟨rfl, rfl⟩ := hc
          obtain ⟨h1, h2, h3⟩ := ih (a + n) st sp h
          refine ⟨by simp [startsFrom, h1], by simp [h2], by simp [h3]; omega⟩
        · cases h

/-! ### the recount, block by block -/

/-- the recounted lengths for consecutive blocks `lens` starting at `pos` -/
def recount (nz : List Nat) : Nat → List Nat → List Nat
  | _, [] => []
  | pos, n :: ns => (nz.filter (fun x => decide (pos ≤ x) && decide (x < pos + n))).length :: recount nz (pos + n) ns

theorem recount_eq_map (nz : List Nat) (pos : Nat) (lens : List Nat) :
    (List.zip (startsFrom pos lens) (List.zipWith (· + ·) (startsFrom pos lens) lens)).map
        (fun p => (nz.filter (fun x => decide (p.1 ≤ x) && decide (x < p.2))).length)
      = recount nz pos lens := by
  induction lens generalizing pos with
  | nil => rfl
  | cons n ns ih => simp [startsFrom, recount, ih]

/-- **Block-wise correctness of the recount.**  `col = pre ++ rest`, `mask = mpre ++ mrest` with the blocks of
    lengths `lens` (names `names`) tiling `rest`: the recounted lengths tile the masked `rest`, and every label of
    a masked block is the block's name. -/
theorem recount_blocks [BEq lab] (names : List lab) (lens : List Nat) (pre rest : List lab) (mpre mrest : List Bool)
    (hpre : mpre.length = pre.length) (hrest : mrest.length = rest.length) (hsum : lens.sum = rest.length)
    (hlab : (List.zip names (List.zip (startsFrom pre.length lens) lens)).all
      (fun p => (((pre ++ rest).drop p.2.1).take p.2.2).all (fun x => x == p.1)) = true) :
    (recount (flatnonzero (mpre ++ mrest)) pre.length lens).sum = (compress mrest rest).length ∧
    (List.zip names (List.zip (startsFrom (compress mpre pre).length
        (recount (flatnonzero (mpre ++ mrest)) pre.length lens))
        (recount (flatnonzero (mpre ++ mrest)) pre.length lens))).all
      (fun p => (((compress mpre pre ++ compress mrest rest).drop p.2.1).take p.2.2).all (fun x => x == p.1)) = true := by
  induction lens generalizing names pre rest mpre mrest with
  | nil =>
    simp only [List.sum_nil] at hsum
    have : rest = [] := List.length_eq_zero_iff.mp hsum.symm
    subst this
    have : mrest = [] := List.length_eq_zero_iff.mp (by simpa using hrest)
    subst this
    simp [recount, compress, startsFrom]
  | cons n ns ih =>
    -- split off the first block
    simp only [List.sum_cons] at hsum
    have hn : n ≤ rest.length := by omega
    set blk := rest.take n with hblk
    set rest2 := rest.drop n with hrest2
    have hsplit : rest = blk ++ rest2 := (List.take_append_drop n rest).symm
    have hblen : blk.length = n := by simp [hblk, hn]
    set mblk := mrest.take n with hmblk
    set mrest2 := mrest.drop n with hmrest2
    have hmsplit : mrest = mblk ++ mrest2 := (List.take_append_drop n mrest).symm
    have hmblen : mblk.length = n := by simp [hmblk, hrest, hn]
    have hr2 : mrest2.length = rest2.length := by simp [hmrest2, hrest2, hrest]
    have hs2 : ns.sum = rest2.length := by simp [hrest2]; omega
    -- the count of the first block
    have hcnt : ((flatnonzero (mpre ++ mrest)).filter
        (fun x => decide (pre.length ≤ x) && decide (x < pre.length + n))).length = (compress mblk blk).length := by
      have := count_block mpre mblk mrest2
      rw [hmsplit, ← List.append_assoc]
      rw [hpre, hmblen] at this
      rw [this, compress_length pre.length mblk blk (by rw [hmblen, hblen])]
    have hcomp : compress mrest rest = compress mblk blk ++ compress mrest2 rest2 := by
      rw [hsplit, hmsplit]
      exact compress_append mblk mrest2 blk rest2 (by rw [hmblen, hblen])
    -- the tail, with the first block moved into the prefix
    have hpre' : (mpre ++ mblk).length = (pre ++ blk).length := by simp [hpre, hmblen, hblen]
    have hmask' : mpre ++ mrest = (mpre ++ mblk) ++ mrest2 := by rw [hmsplit, List.append_assoc]
    have hcol' : pre ++ rest = (pre ++ blk) ++ rest2 := by rw [hsplit, List.append_assoc]
    have hplen : (pre ++ blk).length = pre.length + n := by simp [hblen]
    cases names with
    | nil =>
      -- no names left: only the sum matters
      have ih' := ih [] (pre ++ blk) rest2 (mpre ++ mblk) mrest2 hpre' hr2 hs2 (by simp)
      rw [← hmask', hplen] at ih'
      refine ⟨?_, by simp⟩
      simp only [recount, List.sum_cons]
      rw [hcnt, ih'.1, hcomp, List.length_append]
    | cons nm names =>
      simp only [startsFrom, List.zip_cons_cons, List.all_cons, Bool.and_eq_true] at hlab
      obtain ⟨hhead, htail⟩ := hlab
      have htail' : (List.zip names (List.zip (startsFrom (pre ++ blk).length ns) ns)).all
          (fun p => ((((pre ++ blk) ++ rest2).drop p.2.1).take p.2.2).all (fun x => x == p.1)) = true := by
        rw [hplen, ← hcol']; exact htail
      have ih' := ih names (pre ++ blk) rest2 (mpre ++ mblk) mrest2 hpre' hr2 hs2 htail'
      rw [← hmask', hplen] at ih'
      have hcpre : compress (mpre ++ mblk) (pre ++ blk) = compress mpre pre ++ compress mblk blk :=
        compress_append mpre mblk pre blk hpre
      constructor
      · simp only [recount, List.sum_cons]
        rw [hcnt, ih'.1, hcomp, List.length_append]
      · simp only [recount, startsFrom, List.zip_cons_cons, List.all_cons, Bool.and_eq_true]
        constructor
        · -- the first masked block
          rw [hcnt, hcomp, ← List.append_assoc, List.drop_append_of_le_length (by simp),
            List.drop_append_of_le_length (le_refl _), List.drop_length, List.nil_append,
            List.take_append_of_le_length (le_refl _), List.take_length]
          rw [List.all_eq_true]
          intro x hx
          have hxb : x ∈ blk := compress_mem mblk blk x hx
          -- the unmasked block carries the name
          have hb : ((pre ++ rest).drop pre.length).take n = blk := by
            rw [List.drop_append_of_le_length (le_refl _), List.drop_length, List.nil_append]
          rw [hb, List.all_eq_true] at hhead
          exact hhead x hxb
        · have h2 := ih'.2
          rw [hcpre, List.length_append, List.append_assoc] at h2
          rw [hcnt, hcomp]
          exact h2

/-- **The masked-genotyping metadata rebuild is correct.**  If `g` is a true contiguous partition of `col`, then
    `regroupMasked g mask` is a true contiguous partition of the masked column (blocks may become empty). -/
theorem partitionOK_regroupMasked [BEq lab] (g : Grp lab) (col : List lab) (mask : List Bool)
    (hm : mask.length = col.length) (h : partitionOK g col = true) :
    partitionOK (regroupMasked g mask) (compress mask col) = true := by
  unfold partitionOK at h
  simp only [Bool.and_eq_true, beq_iff_eq] at h
  obtain ⟨⟨⟨ht, hnl⟩, hnd⟩, hlab⟩ := h
  obtain ⟨hst, hsp, he⟩ := tilesFrom_inv 0 g.stix g.spix g.len col.length ht
  have hsum : g.len.sum = col.length := by omega
  have hrc := recount_blocks g.name g.len [] col [] mask rfl hm hsum (by
    simp only [List.length_nil, List.nil_append]
    rw [← hst]; exact hlab)
  simp only [List.length_nil, List.nil_append, compress, List.zip_nil_left, List.filterMap_nil] at hrc
  have hlens : (List.zip g.stix g.spix).map
      (fun p => ((flatnonzero mask).filter (fun x => decide (p.1 ≤ x) && decide (x < p.2))).length)
      = recount (flatnonzero mask) 0 g.len := by
    rw [hsp, hst]
    exact recount_eq_map (flatnonzero mask) 0 g.len
  unfold partitionOK regroupMasked
  simp only [hlens, Np.cumsum]
  set lens' := recount (flatnonzero mask) 0 g.len with hl'
  have hlen' : lens'.length = g.len.length := by
    rw [hl']
    generalize (0 : Nat) = p
    induction g.len generalizing p with
    | nil => rfl
    | cons n ns ih => simp [recount, ih]
  have hstarts : ((0 : Nat) :: cumsumFrom 0 lens').take (cumsumFrom 0 lens').length = startsFrom 0 lens' := by
    rw [cumsumFrom_length]; exact take_cons_cumsumFrom 0 lens'
  rw [hstarts, cumsumFrom_eq]
  simp only [Bool.and_eq_true, beq_iff_eq]
  refine ⟨⟨⟨?_, ?_⟩, hnd⟩, ?_⟩
  · rw [tilesFrom_starts]
    have := hrc.1
    simp only [compress] at this ⊢
    rw [this]
    simp
  · rw [startsFrom_length, hlen', hnl, hst, startsFrom_length]
  · exact hrc.2

end LabelMat
