/-
Helper lemmas for C18 (2): `haplobinPrerepair`.
* the painting loop equals a per-marker function (`binLoop_eq_map`);
* for sorted boundaries the label of a marker `x` with `hb.head ≤ x ≤ hb.last` is
  `k + #{interior boundaries ≤ x}` (`labelGo_sorted`): total, monotone in `x`, inside `[k, k + nbins)`;
* the genome-wide label vector (`labelsAll`) is sorted, every chromosome owns its own label range.
All statements are for ARBITRARY boundary vectors that are sorted and bracket the chromosome's markers
(`BoundsOK`): this is the contract of `numpy.linspace` in floating point as well as in exact arithmetic.
-/
import Mathlib.Tactic
import PybropsModel.Model.Haplo
set_option autoImplicit false
set_option linter.unusedSectionVars false

namespace Haplo

section
variable {α : Type} [LinearOrder α]

/-! ### the loop, marker by marker -/

theorem zipWith_snd_eq {β γ : Type} (pos : List β) (lab : List γ) (h : lab.length = pos.length) :
    List.zipWith (fun _ old => old) pos lab = lab := by
  induction pos generalizing lab with
  | nil => cases lab <;> simp_all
  | cons x xs ih =>
    cases lab with
    | nil => simp at h
    | cons l ls => simp only [List.zipWith_cons_cons, List.cons.injEq, true_and]; exact ih ls (by simpa using h)

theorem zipWith_zipWith_right {β γ : Type} (f g : β → γ → γ) (pos : List β) (lab : List γ) :
    List.zipWith g pos (List.zipWith f pos lab) = List.zipWith (fun x o => g x (f x o)) pos lab := by
  induction pos generalizing lab with
  | nil => simp
  | cons x xs ih => cases lab with
    | nil => simp
    | cons l ls => simp [ih]

theorem binLoop_eq_zipWith (hb : List α) (k : Nat) (pos : List α) (lab : List (Option Nat))
    (h : lab.length = pos.length) :
    binLoop hb k pos lab = List.zipWith (fun x old => labelGo hb k x old) pos lab := by
  induction hb generalizing k lab with
  | nil => simp only [binLoop, labelGo]; exact (zipWith_snd_eq pos lab h).symm
  | cons lo tl ih =>
    cases tl with
    | nil => simp only [binLoop, labelGo]; exact (zipWith_snd_eq pos lab h).symm
    | cons hi rest =>
      simp only [binLoop, labelGo]
      rw [ih (k + 1) (paint lo hi k pos lab) (by simp [paint, h])]
      simp only [paint]
      rw [zipWith_zipWith_right]

theorem binChrom_eq_map (hb : List α) (k : Nat) (pos : List α) :
    binChrom hb k pos = pos.map (fun x => labelGo hb k x none) := by
  unfold binChrom
  rw [binLoop_eq_zipWith _ _ _ _ (by simp)]
  induction pos with
  | nil => rfl
  | cons x xs ih =>
    rw [List.map_cons, List.zipWith_cons_cons, ih, List.map_cons]

/-! ### sorted boundaries: the label counts the interior boundaries at or below the marker -/

theorem countP_le_eq_zero_of_lt (l : List α) (x lo : α) (hx : x < lo) (h : ∀ y ∈ l, lo ≤ y) :
    l.countP (fun b => decide (b ≤ x)) = 0 := by
  rw [List.countP_eq_zero]
  intro y hy
  simp only [decide_eq_true_eq, not_le]
  exact lt_of_lt_of_le hx (h y hy)

/-- closed form of the label for sorted boundaries `lo :: tl` and a marker below the last boundary -/
theorem labelGo_sorted (lo : α) (tl : List α) (k : Nat) (x : α) (cur : Option Nat)
    (hne : tl ≠ []) (hs : (lo :: tl).Pairwise (· ≤ ·)) (hx : ∀ b ∈ (lo :: tl).getLast?, x ≤ b) :
    labelGo (lo :: tl) k x cur =
      if lo ≤ x then some (k + tl.dropLast.countP (fun b => decide (b ≤ x))) else cur := by
  induction tl generalizing lo k cur with
  | nil => exact absurd rfl hne
  | cons hi rest ih =>
    have hlohi : lo ≤ hi := (List.pairwise_cons.mp hs).1 hi List.mem_cons_self
    have hs' : (hi :: rest).Pairwise (· ≤ ·) := (List.pairwise_cons.mp hs).2
    cases rest with
    | nil =>
      have hxhi : x ≤ hi := hx hi (by simp)
      simp only [labelGo, List.dropLast_singleton, List.countP_nil, Nat.add_zero]
      by_cases h : lo ≤ x <;> simp [h, hxhi]
    | cons h2 r =>
      have hx' : ∀ b ∈ (hi :: h2 :: r).getLast?, x ≤ b := by
        intro b hb; exact hx b (by simpa [List.getLast?_cons_cons] using hb)
      rw [labelGo, ih hi (k + 1) _ (by simp) hs' hx']
      rw [List.dropLast_cons₂, List.countP_cons]
      by_cases h : lo ≤ x
      · by_cases h' : hi ≤ x
        · simp only [h, h', if_true, decide_true]
          congr 1; omega
        · have hlt : x < hi := not_le.mp h'
          have hz : (h2 :: r).dropLast.countP (fun b => decide (b ≤ x)) = 0 := by
            apply countP_le_eq_zero_of_lt _ x hi hlt
            intro y hy
            exact (List.pairwise_cons.mp hs').1 y ((List.dropLast_subset _) hy)
          simp [h, h', hlt.le, hz]
      · have h' : ¬ hi ≤ x := fun hh => h (le_trans hlohi hh)
        simp [h, h']

/-- boundaries that `haplobinPrerepair` may be run with: at least one bin, sorted, bracketing the markers -/
structure BoundsOK (hb pos : List α) : Prop where
  two : 2 ≤ hb.length
  sorted : hb.Pairwise (· ≤ ·)
  lo : ∀ a ∈ hb.head?, ∀ x ∈ pos, a ≤ x
  hi : ∀ b ∈ hb.getLast?, ∀ x ∈ pos, x ≤ b

/-- interior boundaries `hbound[1], …, hbound[nhap-1]` -/
def interior (hb : List α) : List α := hb.tail.dropLast

theorem interior_length (hb : List α) : (interior hb).length = hb.length - 2 := by
  simp [interior]; omega

/-- the labels of one chromosome, as total values -/
def labelsChrom (hb : List α) (k : Nat) (pos : List α) : List Nat :=
  pos.map (fun x => k + (interior hb).countP (fun b => decide (b ≤ x)))

theorem binChrom_eq_labels (hb : List α) (k : Nat) (pos : List α) (h : BoundsOK hb pos) :
    binChrom hb k pos = (labelsChrom hb k pos).map some := by
  rw [binChrom_eq_map]
  obtain ⟨h2, hs, hlo, hhi⟩ := h
  cases hb with
  | nil => simp at h2
  | cons lo tl =>
    have hne : tl ≠ [] := by
      intro h0; subst h0; simp at h2
    simp only [labelsChrom, List.map_map]
    apply List.map_congr_left
    intro x hx
    rw [labelGo_sorted lo tl k x none hne hs (fun b hb => hhi b hb x hx)]
    have : lo ≤ x := hlo lo (by simp) x hx
    simp [this, interior]

theorem labelsChrom_lt (hb : List α) (k : Nat) (pos : List α) (h2 : 2 ≤ hb.length) :
    ∀ l ∈ labelsChrom hb k pos, k ≤ l ∧ l < k + (hb.length - 1) := by
  intro l hl
  simp only [labelsChrom, List.mem_map] at hl
  obtain ⟨x, _, rfl⟩ := hl
  have := List.countP_le_length (p := fun b => decide (b ≤ x)) (l := interior hb)
  rw [interior_length] at this
  omega

theorem labelsChrom_sorted (hb : List α) (k : Nat) (pos : List α) (hp : pos.Pairwise (· ≤ ·)) :
    (labelsChrom hb k pos).Pairwise (· ≤ ·) := by
  unfold labelsChrom
  rw [List.pairwise_map]
  refine hp.imp ?_
  intro x y hxy
  have : (interior hb).countP (fun b => decide (b ≤ x)) ≤ (interior hb).countP (fun b => decide (b ≤ y)) := by
    apply List.countP_mono_left
    intro b _ hb
    simp only [decide_eq_true_eq] at hb ⊢
    exact le_trans hb hxy
  omega

/-! ### the genome-wide label vector -/

/-- labels of all chromosomes as total values (mirror of `haplobinHBPrerepair`) -/
def labelsAll : List (List α) → List (List α) → Nat → List Nat
  | hb :: hbs, pos :: cs, k => labelsChrom hb k pos ++ labelsAll hbs cs (k + (hb.length - 1))
  | _, _, _ => []

theorem haplobinHBPrerepair_eq_labels (hbs chroms : List (List α)) (k : Nat)
    (h : List.Forall₂ BoundsOK hbs chroms) :
    haplobinHBPrerepair hbs chroms k = (labelsAll hbs chroms k).map some := by
  induction h generalizing k with
  | nil => simp [haplobinHBPrerepair, labelsAll]
  | cons hbc _ ih =>
    simp only [haplobinHBPrerepair, labelsAll, List.map_append]
    rw [binChrom_eq_labels _ _ _ hbc, ih]

theorem allSome_map_some {γ : Type} (l : List γ) : allSome (l.map some) = some l := by
  induction l with
  | nil => rfl
  | cons a l ih => simp [allSome, ih]

theorem allSome_eq_some {γ : Type} (l : List (Option γ)) (r : List γ) (h : allSome l = some r) :
    l = r.map some := by
  induction l generalizing r with
  | nil => simp [allSome] at h; subst h; rfl
  | cons a l ih =>
    cases a with
    | none => simp [allSome] at h
    | some a =>
      simp only [allSome, Option.map_eq_some_iff] at h
      obtain ⟨r', hr', rfl⟩ := h
      simp [ih r' hr']

/-- total number of bins -/
def nbins (hbs : List (List α)) : Nat := (hbs.map (fun hb => hb.length - 1)).sum

theorem labelsAll_range (hbs chroms : List (List α)) (k : Nat)
    (h : List.Forall₂ BoundsOK hbs chroms) :
    ∀ l ∈ labelsAll hbs chroms k, k ≤ l ∧ l < k + nbins hbs := by
  induction h generalizing k with
  | nil => simp [labelsAll]
  | @cons hb pos hbs cs hbc _ ih =>
    intro l hl
    simp only [labelsAll, List.mem_append] at hl
    simp only [nbins, List.map_cons, List.sum_cons]
    have h1 : 1 ≤ hb.length - 1 := by have := hbc.two; omega
    rcases hl with hl | hl
    · have := labelsChrom_lt hb k pos hbc.two l hl
      omega
    · have := ih (k + (hb.length - 1)) l hl
      simp only [nbins] at this
      omega

theorem labelsAll_sorted (hbs chroms : List (List α)) (k : Nat)
    (h : List.Forall₂ BoundsOK hbs chroms) (hp : ∀ c ∈ chroms, c.Pairwise (· ≤ ·)) :
    (labelsAll hbs chroms k).Pairwise (· ≤ ·) := by
  induction h generalizing k with
  | nil => simp [labelsAll]
  | @cons hb pos hbs cs hbc hrest ih =>
    simp only [labelsAll]
    rw [List.pairwise_append]
    refine ⟨labelsChrom_sorted hb k pos (hp pos List.mem_cons_self),
            ih _ (fun c hc => hp c (List.mem_cons_of_mem _ hc)), ?_⟩
    intro a ha b hb'
    have h1 := labelsChrom_lt hb k pos hbc.two a ha
    have h2 := labelsAll_range hbs cs (k + (hb.length - 1)) hrest b hb'
    omega

theorem labelsAll_length (hbs chroms : List (List α)) (k : Nat)
    (h : List.Forall₂ BoundsOK hbs chroms) :
    (labelsAll hbs chroms k).length = (chroms.map List.length).sum := by
  induction h generalizing k with
  | nil => simp [labelsAll]
  | cons _ _ ih => simp [labelsAll, labelsChrom, ih]

end

end Haplo
