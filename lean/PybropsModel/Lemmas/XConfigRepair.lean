/-
Helper lemmas for C07 (round 4):
  * the proposed repair of D20 (`XConfig.proportionalChoice`, `sampleIntegerRepaired`): use counts are the floor
    or the ceiling of the proportional share;
  * one configuration object over its lifetime (`XConfig.cfgRun`): every table follows the decision in force.
-/
import Mathlib.Tactic
import PybropsModel.Lemmas.XConfigSample
import PybropsModel.Lemmas.XConfigCount
import PybropsModel.Lemmas.SelProtSpace
set_option autoImplicit false

namespace XConfig

/-! ### sums over `range` -/

theorem range_map_getD (l : List Nat) (f : Nat → Nat) :
    (List.range l.length).map (fun i => f (l.getD i 0)) = l.map f := by
  apply List.ext_getElem
  · simp
  · intro i h1 h2
    have hi : i < l.length := by simpa using h1
    simp [List.getD_eq_getElem?_getD, List.getElem?_eq_getElem hi]

theorem sum_map_add_range (n : Nat) (f g : Nat → Nat) :
    ((List.range n).map (fun i => f i + g i)).sum =
      ((List.range n).map f).sum + ((List.range n).map g).sum := by
  rw [List.sum_map_add]

/-- `Σ ⌊N·d/S⌋ · S ≤ N · Σ d` -/
theorem sum_floor_mul_le (l : List Nat) (N S : Nat) :
    (l.map (fun d => N * d / S)).sum * S ≤ N * l.sum := by
  induction l with
  | nil => simp
  | cons a t ih =>
    simp only [List.map_cons, List.sum_cons, Nat.add_mul, Nat.mul_add]
    have := Nat.div_mul_le_self (N * a) S
    omega

/-- the floors of the shares never exceed the number of slots -/
theorem sum_floor_le (decn : List Nat) (N : Nat) (hS : 0 < decn.sum) :
    ((List.range decn.length).map (fun i => N * decn.getD i 0 / decn.sum)).sum ≤ N := by
  rw [range_map_getD decn (fun d => N * d / decn.sum)]
  have h := sum_floor_mul_le decn N decn.sum
  exact Nat.le_of_mul_le_mul_right h hS

/-! ### the repaired integer sampler -/

/-- what a generator may hand to `proportional_choice`: `extra` = distinct candidates whose share has a
    non-zero fractional part (`rng.choice(n, left, replace=False, p ∝ frac)`), exactly `left` of them;
    `perm` = the final shuffle -/
structure ValidShare (decn : List Nat) (N : Nat) (extra perm : List Nat) : Prop where
  pos : 0 < decn.sum
  nodup : extra.Nodup
  frac : ∀ i ∈ extra, i < decn.length ∧ 0 < (N * decn.getD i 0) % decn.sum
  len : extra.length = shareLeft decn N
  perm_ok : perm.Perm (List.range N)

theorem length_shareCounts (decn : List Nat) (N : Nat) (extra : List Nat) :
    (shareCounts decn N extra).length = decn.length := by simp [shareCounts]

theorem getD_shareCounts (decn : List Nat) (N : Nat) (extra : List Nat) (i : Nat) (hi : i < decn.length) :
    (shareCounts decn N extra).getD i 0 = N * decn.getD i 0 / decn.sum + extra.count i := by
  simp [shareCounts, List.getD_eq_getElem?_getD, List.getElem?_map, List.getElem?_range hi]

theorem sum_shareCounts (decn : List Nat) (N : Nat) (extra perm : List Nat) (v : ValidShare decn N extra perm) :
    (shareCounts decn N extra).sum = N := by
  unfold shareCounts
  rw [sum_map_add_range, sum_count_range extra decn.length (fun x hx => (v.frac x hx).1), v.len]
  have := sum_floor_le decn N v.pos
  unfold shareLeft
  omega

/-- the pool before the shuffle: candidate `i` occurs `counts[i]` times -/
theorem count_pool (decn : List Nat) (N : Nat) (extra : List Nat) (i : Nat) :
    (Np.repeatEach (shareCounts decn N extra) (List.range decn.length)).count i =
      if i < decn.length then N * decn.getD i 0 / decn.sum + extra.count i else 0 := by
  have h := count_repeatEach_range' (shareCounts decn N extra) 0 i
  rw [length_shareCounts] at h
  rw [List.range_eq_range', h]
  by_cases hi : i < decn.length
  · have h0 : (0 ≤ i ∧ i < 0 + decn.length) := ⟨Nat.zero_le _, by omega⟩
    rw [if_pos h0, if_pos hi, Nat.sub_zero, getD_shareCounts decn N extra i hi]
  · have h0 : ¬ (0 ≤ i ∧ i < 0 + decn.length) := by omega
    rw [if_neg h0, if_neg hi]

theorem length_pool (decn : List Nat) (N : Nat) (extra perm : List Nat) (v : ValidShare decn N extra perm) :
    (Np.repeatEach (shareCounts decn N extra) (List.range decn.length)).length = N := by
  have h := length_repeatEach_range' (shareCounts decn N extra) 0
  rw [length_shareCounts] at h
  rw [List.range_eq_range', h, sum_shareCounts decn N extra perm v]

/-- `proportional_choice` returns a permutation of the pool -/
theorem proportionalChoice_ok (decn : List Nat) (N : Nat) (extra perm : List Nat) (v : ValidShare decn N extra perm) :
    ∃ flat, proportionalChoice decn N extra perm = .ok flat ∧ flat.length = N ∧
      ∀ i, flat.count i = if i < decn.length then N * decn.getD i 0 / decn.sum + extra.count i else 0 := by
  have hne : decn.sum ≠ 0 := Nat.pos_iff_ne_zero.mp v.pos
  have hl := length_pool decn N extra perm v
  have hp : (Np.take perm (Np.repeatEach (shareCounts decn N extra) (List.range decn.length))).Perm
      (Np.repeatEach (shareCounts decn N extra) (List.range decn.length)) :=
    take_perm _ perm (by rw [hl]; exact v.perm_ok)
  refine ⟨Np.take perm (Np.repeatEach (shareCounts decn N extra) (List.range decn.length)),
    by simp [proportionalChoice, hne], by rw [hp.length_eq, hl], ?_⟩
  intro i
  rw [hp.count_eq, count_pool]

/-- a drawn candidate occurs once in `extra`, and only candidates with a positive contribution are drawn -/
theorem extra_count_le_one {decn : List Nat} {N : Nat} {extra perm : List Nat} (v : ValidShare decn N extra perm)
    (i : Nat) : extra.count i ≤ 1 := List.nodup_iff_count_le_one.mp v.nodup i

theorem extra_count_zero_of_zero {decn : List Nat} {N : Nat} {extra perm : List Nat} (v : ValidShare decn N extra perm)
    (i : Nat) (hd : decn.getD i 0 = 0) : extra.count i = 0 := by
  apply List.count_eq_zero.mpr
  intro hm
  have := (v.frac i hm).2
  rw [hd] at this
  simp at this

/-- floor-or-ceiling in the arithmetic form of the Spec: with `c = ⌊N·d/S⌋ + e`, `e ≤ 1`,
    `c·S ≤ S + N·d` and `N·d ≤ S + c·S` -/
theorem floor_ceil_within_one (N d S e : Nat) (hS : 0 < S) (he : e ≤ 1) :
    (N * d / S + e) * S ≤ S + N * d ∧ N * d ≤ S + (N * d / S + e) * S := by
  have h1 := Nat.div_add_mod (N * d) S
  have h2 := Nat.mod_lt (N * d) hS
  have h3 : (N * d / S + e) * S = S * (N * d / S) + e * S := by ring
  rw [h3]
  rcases Nat.le_one_iff_eq_zero_or_eq_one.mp he with rfl | rfl
  · constructor <;> omega
  · constructor <;> omega

/-! ### one configuration object over its lifetime -/

/-- the oracles of every `sample` of a history are legitimate draws for the decision then in force (with one more
    exchange order than there are slots on offer, so that the hill-climb is seen to stop:
    `subset_sampling_total`), and every decision that is ever in force is a duplicate-free subset -/
def ValidHistory (nc np : Nat) : List Nat → List CfgOp → Prop
  | _, [] => True
  | _, .assign d :: rest => d.Nodup ∧ ValidHistory nc np d rest
  | _, .edit d :: rest => d.Nodup ∧ ValidHistory nc np d rest
  | cur, .sample rem perm orders rowperms :: rest =>
    ValidTiled cur (nc * np) rem perm ∧ ValidArrange nc np orders rowperms ∧ nc * np < orders.length ∧
      ValidHistory nc np cur rest

/-- the variant of seeded change C07-d3 / self-test mutant `mate_configuration_outcross_shuffled`:
    `outcross_shuffle` applied to a mate-selection configuration after the cross-map lookup -/
def sampleMateOutcrossed (decn : List Nat) (xmap : Rows) (nc np : Nat) (rem perm perm2 : List Nat)
    (orders : List (List Nat)) : Except String Rows :=
  match sampleMate decn xmap nc rem perm perm2 with
  | .error e => .error e
  | .ok rows =>
    match outcross (ordersOf np (nc * np) orders) rows with
    | none => .error "orders exhausted"
    | some r => .ok r

/-- a history run through the caching variant -/
def cfgRunCached (nc np : Nat) (s : CfgStateCached) (ops : List CfgOp) : CfgStateCached :=
  ops.foldl (cfgStepCached nc np) s

theorem cfgRun_cons (nc np : Nat) (s : CfgState) (op : CfgOp) (ops : List CfgOp) :
    cfgRun nc np s (op :: ops) = cfgRun nc np (cfgStep nc np s op) ops := rfl

end XConfig

/-! ### `spec_iff` lemmas of the decision-space and mate-selection Specs -/
open XConfig SelProt


theorem all_zipWith_le (l u : List Nat) :
    (List.zipWith (fun a b => decide (a ≤ b)) l u).all id = true ↔ ∀ p ∈ l.zip u, p.1 ≤ p.2 := by
  induction l generalizing u with
  | nil => simp
  | cons a l ih =>
    cases u with
    | nil => simp
    | cons b u =>
      simp only [List.zipWith_cons_cons, List.all_cons, Bool.and_eq_true, ih, List.zip_cons_cons, List.mem_cons,
        forall_eq_or_imp, id, decide_eq_true_eq]

theorem specSpace_iff (subset : Bool) (nopt : Nat) (s : Space) :
    specSpace subset nopt s = true ↔
      s.lower.length = s.ndecn ∧ s.upper.length = s.ndecn ∧ (∀ p ∈ s.lower.zip s.upper, p.1 ≤ p.2) ∧
      (if subset then (∀ i, i < nopt → s.space.count i = 1) ∧ ∀ i ∈ s.space, i < nopt
       else s.ndecn = nopt ∧ ∀ u ∈ s.upper, 0 < u) := by
  unfold specSpace
  cases subset
  · simp only [Bool.and_eq_true, beq_iff_eq, all_zipWith_le, Bool.false_eq_true, if_false, and_assoc]
    simp only [List.all_eq_true, decide_eq_true_eq]
  · simp only [Bool.and_eq_true, beq_iff_eq, all_zipWith_le, if_true, and_assoc]
    simp only [List.all_eq_true, List.mem_range, decide_eq_true_eq, beq_iff_eq]

theorem crossIndex_isSome (xmap : Rows) (support : List Nat) (row : List Nat) :
    (crossIndex xmap support row).isSome = true ↔ ∃ d ∈ support, xmap[d]? = some row := by
  unfold crossIndex
  rw [List.find?_isSome]
  simp

theorem specMateSubset_iff (decn : List Nat) (xmap : Rows) (nc np : Nat) (rows : Rows) :
    specMateSubset decn xmap nc np rows = true ↔
      Rect nc np rows ∧ (∀ r ∈ rows, ∃ d ∈ decn, xmap[d]? = some r) ∧
      (∀ a ∈ decn, ∀ b ∈ decn,
        ((rows.map (crossIndex xmap decn)).filterMap id).count a ≤
        ((rows.map (crossIndex xmap decn)).filterMap id).count b + 1) := by
  simp only [specMateSubset, Bool.and_eq_true, shapeOk_iff, evenOn_iff, List.all_eq_true, List.mem_map,
    forall_exists_index, and_imp, forall_apply_eq_imp_iff₂, crossIndex_isSome, and_assoc]
