/-
Helper lemmas for C09: the model's statistics characterised over an arbitrary ordered field.
-/
import PybropsModel.Lemmas.GenotypeSums
set_option autoImplicit false
set_option linter.unusedSectionVars false
set_option linter.unusedVariables false

namespace Genotype

/-! ### integer facts about the unphased class -/

theorem acountAt_bounds {ploidy nv : Nat} {m : UMat} (hv : ValidU ploidy nv m) (j : Nat) :
    0 ≤ acountAt m j ∧ acountAt m j ≤ ((ploidy * m.length : Nat) : Int) := by
  have hb := col_bounds hv j
  refine ⟨sum_nonneg_of_mem (fun x hx => (hb x hx).1), ?_⟩
  have := sum_le_of_mem (P := (ploidy : Int)) (fun x hx => (hb x hx).2)
  rw [col_length] at this
  unfold acountAt
  push_cast
  exact this

theorem acountAt_eq_max_iff {ploidy nv : Nat} {m : UMat} (hv : ValidU ploidy nv m) (j : Nat) :
    acountAt m j = ((ploidy * m.length : Nat) : Int) ↔ ∀ r ∈ m, entry r j = (ploidy : Int) := by
  have hb := col_bounds hv j
  have := sum_eq_max_iff (P := (ploidy : Int)) (fun x hx => (hb x hx).2)
  rw [col_length] at this
  unfold acountAt
  push_cast
  rw [this]
  simp [col]

theorem acountAt_eq_zero_iff {ploidy nv : Nat} {m : UMat} (hv : ValidU ploidy nv m) (j : Nat) :
    acountAt m j = 0 ↔ ∀ r ∈ m, entry r j = 0 := by
  have hb := col_bounds hv j
  unfold acountAt
  rw [sum_eq_zero_iff_of_nonneg (fun x hx => (hb x hx).1)]
  simp [col]

theorem denom_pos {ploidy nv : Nat} {m : UMat} (hv : ValidU ploidy nv m) : 0 < ploidy * m.length :=
  Nat.mul_pos hv.1 hv.2.1

section field
variable {α : Type} [Field α] [LinearOrder α] [IsStrictOrderedRing α]

/-! ### flags, maf, meh from a frequency -/

theorem afixedOf_iff (p : α) : afixedOf p = true ↔ (p = 0 ∨ p = 1) := by
  simp [afixedOf]

theorem apolyOf_iff (p : α) : apolyOf p = true ↔ (0 < p ∧ p < 1) := by
  simp [apolyOf]

theorem afixedOf_eq_not_apolyOf {p : α} (h0 : 0 ≤ p) (h1 : p ≤ 1) : afixedOf p = !apolyOf p := by
  rw [Bool.eq_iff_iff, afixedOf_iff]
  simp only [Bool.not_eq_true', ← Bool.not_eq_true, apolyOf_iff]
  constructor
  · rintro (rfl | rfl) <;> simp
  · intro h
    by_contra hc
    rw [not_or] at hc
    exact h ⟨lt_of_le_of_ne h0 (Ne.symm hc.1), lt_of_le_of_ne h1 hc.2⟩

theorem mafOf_eq_min (p : α) : mafOf p = min p (1 - p) := by
  unfold mafOf
  have h2 : (1 : α) / (1 + 1) = 1 / 2 := by norm_num
  rw [h2]
  split
  · next h => rw [min_eq_right]; linarith
  · next h => rw [min_eq_left]; have := not_lt.mp h; linarith

theorem mafOf_bounds {p : α} (h0 : 0 ≤ p) (h1 : p ≤ 1) : 0 ≤ mafOf p ∧ mafOf p ≤ 1 / 2 := by
  rw [mafOf_eq_min]
  constructor
  · exact le_min h0 (by linarith)
  · by_cases h : p ≤ 1 / 2
    · exact (min_le_left _ _).trans h
    · have := not_le.mp h; exact (min_le_right _ _).trans (by linarith)

theorem foldr_add_eq_sum (l : List α) : l.foldr (· + ·) 0 = l.sum := by
  induction l with
  | nil => rfl
  | cons a t ih => simp [List.foldr, ih]

theorem mehOf_eq (ploidy nv : Nat) (p : List α) :
    mehOf ploidy nv p = (p.map (fun x => (ploidy : α) * (x * (1 - x)))).sum / (nv : α) := by
  unfold mehOf
  rw [foldr_add_eq_sum, List.sum_map_mul_left]
  ring

theorem mehOf_nonneg (ploidy nv : Nat) (p : List α) (h : ∀ x ∈ p, 0 ≤ x ∧ x ≤ 1) :
    0 ≤ mehOf ploidy nv p := by
  rw [mehOf_eq]
  apply div_nonneg _ (Nat.cast_nonneg _)
  apply List.sum_nonneg
  intro y hy
  obtain ⟨x, hx, rfl⟩ := List.mem_map.mp hy
  have := h x hx
  have h1 : 0 ≤ x * (1 - x) := mul_nonneg this.1 (by linarith)
  exact mul_nonneg (Nat.cast_nonneg _) h1

/-! ### unphased frequencies -/

theorem afreqAt_bounds {ploidy nv : Nat} {m : UMat} (hv : ValidU ploidy nv m) (j : Nat) :
    0 ≤ afreqAt (α := α) ploidy m j ∧ afreqAt (α := α) ploidy m j ≤ 1 := by
  obtain ⟨h0, h1⟩ := acountAt_bounds hv j
  have hd : (0 : α) < ((ploidy * m.length : Nat) : α) := by exact_mod_cast denom_pos hv
  unfold afreqAt
  constructor
  · apply div_nonneg _ hd.le
    exact_mod_cast h0
  · rw [div_le_one hd]
    have : ((acountAt m j : Int) : α) ≤ (((ploidy * m.length : Nat) : Int) : α) := by exact_mod_cast h1
    simpa using this

theorem afreqAt_eq_one_iff {ploidy nv : Nat} {m : UMat} (hv : ValidU ploidy nv m) (j : Nat) :
    afreqAt (α := α) ploidy m j = 1 ↔ ∀ r ∈ m, entry r j = (ploidy : Int) := by
  have hd : (0 : α) < ((ploidy * m.length : Nat) : α) := by exact_mod_cast denom_pos hv
  unfold afreqAt
  rw [div_eq_one_iff_eq hd.ne', ← acountAt_eq_max_iff hv j]
  constructor
  · intro h
    have : ((acountAt m j : Int) : α) = (((ploidy * m.length : Nat) : Int) : α) := by simpa using h
    exact_mod_cast this
  · intro h
    rw [h]; simp

theorem afreqAt_eq_zero_iff {ploidy nv : Nat} {m : UMat} (hv : ValidU ploidy nv m) (j : Nat) :
    afreqAt (α := α) ploidy m j = 0 ↔ ∀ r ∈ m, entry r j = 0 := by
  have hd : (0 : α) < ((ploidy * m.length : Nat) : α) := by exact_mod_cast denom_pos hv
  unfold afreqAt
  rw [div_eq_zero_iff, ← acountAt_eq_zero_iff hv j]
  constructor
  · rintro (h | h)
    · exact_mod_cast h
    · exact absurd h hd.ne'
  · intro h; left; rw [h]; simp

end field

/-! ### the phased class and its projection -/

theorem copies_binary {nt nv : Nat} {G : PMat} (hv : ValidP nt nv G) (i j : Nat) :
    ∀ a ∈ copiesOf G i j, a = 0 ∨ a = 1 := by
  intro a ha
  obtain ⟨ph, hph, rfl⟩ := List.mem_map.mp ha
  rcases entry_mem_or_zero (ph.getD i []) j with h | h
  · by_cases hi : i < ph.length
    · have hr : ph.getD i [] ∈ ph := by
        rw [List.getD_eq_getElem?_getD, List.getElem?_eq_getElem hi]; exact List.getElem_mem hi
      exact ((hv.2.2 ph hph).2 _ hr).2 _ h
    · have : ph.getD i [] = [] := by
        rw [List.getD_eq_getElem?_getD, List.getElem?_eq_none (by omega)]; rfl
      rw [this] at h; simp at h
  · left; exact h

theorem popCopies_binary {nt nv : Nat} {G : PMat} (hv : ValidP nt nv G) (j : Nat) :
    ∀ a ∈ popCopies G j, a = 0 ∨ a = 1 := by
  intro a ha
  obtain ⟨ph, hph, hacol⟩ := List.mem_flatMap.mp ha
  obtain ⟨r, hr, rfl⟩ := List.mem_map.mp hacol
  rcases entry_mem_or_zero r j with h | h
  · exact ((hv.2.2 ph hph).2 r hr).2 _ h
  · left; exact h

theorem popCopies_length {nt : Nat} {G : PMat} (h : ∀ ph ∈ G, ph.length = nt) (j : Nat) :
    (popCopies G j).length = G.length * nt := by
  induction G with
  | nil => simp [popCopies]
  | cons a t ih =>
    have ha := h a (by simp)
    have := ih (fun ph hph => h ph (by simp [hph]))
    simp only [popCopies, List.flatMap_cons, List.length_append, List.length_cons] at this ⊢
    rw [this, col_length, ha]; ring

/-- textbook: the population allele count is the number of copies carrying allele 1 -/
theorem pacountAt_eq_count {nt nv : Nat} {G : PMat} (hv : ValidP nt nv G) (j : Nat) :
    pacountAt G j = ((popCopies G j).count 1 : Nat) :=
  sum_eq_count_one (popCopies_binary hv j)

/-- textbook: the per-taxon allele count is the number of that taxon's copies carrying allele 1 -/
theorem psumAt_eq_count {nt nv : Nat} {G : PMat} (hv : ValidP nt nv G) (i j : Nat) :
    psumAt G i j = ((copiesOf G i j).count 1 : Nat) :=
  sum_eq_count_one (copies_binary hv i j)

theorem psumAt_bounds {nt nv : Nat} {G : PMat} (hv : ValidP nt nv G) (i j : Nat) :
    0 ≤ psumAt G i j ∧ psumAt G i j ≤ (G.length : Int) := by
  have hb := copies_binary hv i j
  constructor
  · exact sum_nonneg_of_mem (fun x hx => by rcases hb x hx with h | h <;> omega)
  · have := sum_le_of_mem (P := 1) (l := copiesOf G i j) (fun x hx => by rcases hb x hx with h | h <;> omega)
    simpa [copiesOf, psumAt] using this

theorem entry_range_map (nv : Nat) (f : Nat → Int) (j : Nat) (hj : j < nv) :
    entry ((List.range nv).map f) j = f j := by
  unfold entry
  rw [List.getD_eq_getElem?_getD, List.getElem?_eq_getElem (by simpa using hj)]
  simp

theorem col_psum (nt nv : Nat) (G : PMat) (j : Nat) (hj : j < nv) :
    col (psum nt nv G) j = (List.range nt).map (fun i => psumAt G i j) := by
  unfold col psum
  rw [List.map_map]
  apply List.map_congr_left
  intro i _
  exact entry_range_map nv _ j hj

/-- the projection of a valid phased matrix is a valid unphased matrix of ploidy `nphase` -/
theorem psum_valid {nt nv : Nat} {G : PMat} (hv : ValidP nt nv G) : ValidU G.length nv (psum nt nv G) := by
  refine ⟨hv.1, by simpa [psum] using hv.2.1, ?_⟩
  intro r hr
  obtain ⟨i, _, rfl⟩ := List.mem_map.mp hr
  refine ⟨by simp, ?_⟩
  intro g hg
  obtain ⟨j, _, rfl⟩ := List.mem_map.mp hg
  exact psumAt_bounds hv i j

theorem psum_length (nt nv : Nat) (G : PMat) : (psum nt nv G).length = nt := by simp [psum]

/-- summing over phases and taxa at once = summing the dosage matrix over taxa -/
theorem pacountAt_eq_acountAt_psum {nt nv : Nat} {G : PMat} (h : ∀ ph ∈ G, ph.length = nt) (j : Nat)
    (hj : j < nv) : pacountAt G j = acountAt (psum nt nv G) j := by
  unfold pacountAt acountAt
  rw [col_psum nt nv G j hj]
  unfold popCopies psumAt copiesOf
  rw [sum_flatMap_int]
  have : G.map (fun ph => (col ph j).sum)
      = G.map (fun ph => ((List.range nt).map (fun i => entry (ph.getD i []) j)).sum) := by
    apply List.map_congr_left
    intro ph hph
    unfold col
    rw [map_eq_range_getD ph [] (fun r => entry r j), h ph hph]
  rw [this]
  exact sum_sum_comm G nt (fun ph i => entry (ph.getD i []) j)

section field
variable {α : Type} [Field α] [LinearOrder α] [IsStrictOrderedRing α]

theorem pafreqAt_eq_afreqAt_psum {nt nv : Nat} {G : PMat} (h : ∀ ph ∈ G, ph.length = nt) (j : Nat)
    (hj : j < nv) : pafreqAt (α := α) nt G j = afreqAt (α := α) G.length (psum nt nv G) j := by
  unfold pafreqAt afreqAt
  rw [pacountAt_eq_acountAt_psum h j hj, psum_length]

theorem pafreqAt_bounds {nt nv : Nat} {G : PMat} (hv : ValidP nt nv G) (j : Nat) :
    0 ≤ pafreqAt (α := α) nt G j ∧ pafreqAt (α := α) nt G j ≤ 1 := by
  have hb := popCopies_binary hv j
  have hlen := popCopies_length (fun ph hph => (hv.2.2 ph hph).1) j
  have h0 : 0 ≤ pacountAt G j := sum_nonneg_of_mem (fun x hx => by rcases hb x hx with h | h <;> omega)
  have h1 : pacountAt G j ≤ ((G.length * nt : Nat) : Int) := by
    have := sum_le_of_mem (P := 1) (l := popCopies G j) (fun x hx => by rcases hb x hx with h | h <;> omega)
    rw [hlen] at this
    simpa [pacountAt] using this
  have hd : (0 : α) < ((G.length * nt : Nat) : α) := by exact_mod_cast Nat.mul_pos hv.1 hv.2.1
  unfold pafreqAt
  constructor
  · apply div_nonneg _ hd.le
    exact_mod_cast h0
  · rw [div_le_one hd]
    have : ((pacountAt G j : Int) : α) ≤ (((G.length * nt : Nat) : Int) : α) := by exact_mod_cast h1
    simpa using this

theorem pafreqAt_eq_one_iff {nt nv : Nat} {G : PMat} (hv : ValidP nt nv G) (j : Nat) :
    pafreqAt (α := α) nt G j = 1 ↔ ∀ a ∈ popCopies G j, a = 1 := by
  have hb := popCopies_binary hv j
  have hlen := popCopies_length (fun ph hph => (hv.2.2 ph hph).1) j
  have hd : (0 : α) < ((G.length * nt : Nat) : α) := by exact_mod_cast Nat.mul_pos hv.1 hv.2.1
  have key := sum_eq_max_iff (P := 1) (l := popCopies G j)
    (fun x hx => by rcases hb x hx with h | h <;> omega)
  rw [hlen, one_mul] at key
  unfold pafreqAt
  rw [div_eq_one_iff_eq hd.ne', ← key]
  unfold pacountAt
  constructor
  · intro h
    have : (((popCopies G j).sum : Int) : α) = (((G.length * nt : Nat) : Int) : α) := by simpa using h
    exact_mod_cast this
  · intro h
    rw [h]; simp

theorem pafreqAt_eq_zero_iff {nt nv : Nat} {G : PMat} (hv : ValidP nt nv G) (j : Nat) :
    pafreqAt (α := α) nt G j = 0 ↔ ∀ a ∈ popCopies G j, a = 0 := by
  have hb := popCopies_binary hv j
  have hd : (0 : α) < ((G.length * nt : Nat) : α) := by exact_mod_cast Nat.mul_pos hv.1 hv.2.1
  have key := sum_eq_zero_iff_of_nonneg (l := popCopies G j)
    (fun x hx => by rcases hb x hx with h | h <;> omega)
  unfold pafreqAt
  rw [div_eq_zero_iff, ← key]
  unfold pacountAt
  constructor
  · rintro (h | h)
    · exact_mod_cast h
    · exact absurd h hd.ne'
  · intro h; left; rw [h]; simp

/-- the allele test of the phased `apoly` agrees with the frequency test of the unphased one -/
theorem papolyAt_eq_apolyOf {nt nv : Nat} {G : PMat} (hv : ValidP nt nv G) (j : Nat) :
    papolyAt G j = apolyOf (pafreqAt (α := α) nt G j) := by
  obtain ⟨b0, b1⟩ := pafreqAt_bounds (α := α) hv j
  have e1 := pafreqAt_eq_one_iff (α := α) hv j
  have e0 := pafreqAt_eq_zero_iff (α := α) hv j
  unfold papolyAt
  by_cases h0 : pafreqAt (α := α) nt G j = 0
  · have : (popCopies G j).all (· == 0) = true := by simpa using e0.mp h0
    simp [this, h0, apolyOf]
  · by_cases h1 : pafreqAt (α := α) nt G j = 1
    · have : (popCopies G j).all (· == 1) = true := by simpa using e1.mp h1
      simp [this, h1, apolyOf]
    · have n0 : (popCopies G j).all (· == 0) = false := by
        rw [← Bool.not_eq_true]; intro h; exact h0 (e0.mpr (by simpa using h))
      have n1 : (popCopies G j).all (· == 1) = false := by
        rw [← Bool.not_eq_true]; intro h; exact h1 (e1.mpr (by simpa using h))
      have := (apolyOf_iff (pafreqAt (α := α) nt G j)).mpr
        ⟨lt_of_le_of_ne b0 (Ne.symm h0), lt_of_le_of_ne b1 h1⟩
      rw [n0, n1, this]; rfl

end field

/-! ### the frequency over ℚ as a quotient of two naturals (input shape of the rounding contract) -/

theorem afreqAt_rat_eq {ploidy nv : Nat} {m : UMat} (hv : ValidU ploidy nv m) (j : Nat) :
    afreqAt (α := ℚ) ploidy m j = (((acountAt m j).toNat : ℕ) : ℚ) / ((ploidy * m.length : ℕ) : ℚ)
      ∧ (acountAt m j).toNat ≤ ploidy * m.length
      ∧ ((acountAt m j).toNat = ploidy * m.length ↔ ∀ r ∈ m, entry r j = (ploidy : Int))
      ∧ ((acountAt m j).toNat = 0 ↔ ∀ r ∈ m, entry r j = 0) := by
  obtain ⟨h0, h1⟩ := acountAt_bounds hv j
  have hc : (((acountAt m j).toNat : ℕ) : Int) = acountAt m j := Int.toNat_of_nonneg h0
  refine ⟨?_, ?_, ?_, ?_⟩
  · unfold afreqAt
    rw [show ((acountAt m j : Int) : ℚ) = ((((acountAt m j).toNat : ℕ) : Int) : ℚ) by rw [hc],
      Int.cast_natCast]
  · omega
  · rw [← acountAt_eq_max_iff hv j]; omega
  · rw [← acountAt_eq_zero_iff hv j]; omega

/-- class count of the phased class on the dosage matrix, as a count of taxa -/
theorem gtcountAt_psum_eq (nt nv : Nat) (G : PMat) (c j : Nat) (hj : j < nv) :
    gtcountAt (psum nt nv G) c j
      = ((List.range nt).filter (fun i => psumAt G i j == (c : Int))).length := by
  unfold gtcountAt
  rw [col_psum nt nv G j hj, List.count, List.countP_map, List.countP_eq_length_filter]
  rfl

/-! ### compressed populations: the weighted column sum is the column sum of the expanded matrix -/

theorem expand_facts : ∀ (mult : List Nat) (rows : UMat) (j : Nat),
    acountAt (expand rows mult) j = acountWAt rows mult j
    ∧ (mult.length = rows.length → (expand rows mult).length = mult.sum)
  | [], rows, j => by simp [expand, acountAt, acountWAt, col]
  | _ :: _, [], j => by simp [expand, acountAt, acountWAt, col]
  | k :: ks, r :: rs, j => by
      obtain ⟨ih1, ih2⟩ := expand_facts ks rs j
      constructor
      · simp only [expand, acountAt, acountWAt, col, List.zipWith_cons_cons, List.flatten_cons,
          List.map_append, List.sum_append, List.sum_cons, List.map_replicate, List.sum_replicate,
          smul_eq_mul] at ih1 ⊢
        rw [ih1]
        simp
      · intro h
        have := ih2 (by simpa using h)
        simp only [expand, List.zipWith_cons_cons, List.flatten_cons, List.length_append,
          List.length_replicate, List.sum_cons] at this ⊢
        rw [this]

theorem afreqWAt_eq_afreqAt {α : Type} [Field α] (ploidy : Nat) (rows : UMat) (mult : List Nat)
    (h : mult.length = rows.length) (j : Nat) :
    afreqWAt (α := α) ploidy mult.sum rows mult j = afreqAt (α := α) ploidy (expand rows mult) j := by
  unfold afreqWAt afreqAt
  rw [(expand_facts mult rows j).1, (expand_facts mult rows j).2 h]

end Genotype
