/-
Helper lemmas for C04 (repairs D22 / D22b): the solve step of the repaired `rrBLUP_ML0`
(keep the Gauss–Seidel iterate when its residual meets the tolerance bound, otherwise the direct
solution), the contract of the direct solver, and the exact Gauss–Jordan reference meeting it.
-/
import PybropsModel.Lemmas.GaussSeidelLast
import PybropsModel.Lemmas.RidgeEnergy
import PybropsModel.Lemmas.CoancestryGJ
import PybropsModel.Model.RRSolve
set_option autoImplicit false
set_option linter.unusedSectionVars false
set_option linter.unusedSimpArgs false
set_option linter.unusedVariables false

namespace RRSolve
open Finset BigOperators GMod RRBlup GSFn GSList

variable {α : Type} [Field α] [LinearOrder α] [IsStrictOrderedRing α]

/-! ### running maximum -/

theorem maxv_eq_max (a b : α) : maxv a b = max a b := by
  unfold maxv
  by_cases h : a < b
  · simp [h, max_eq_right h.le]
  · simp [h, max_eq_left (not_lt.mp h)]

theorem foldl_maxv_ge_acc (l : List α) (acc : α) : acc ≤ l.foldl maxv acc := by
  induction l generalizing acc with
  | nil => simp
  | cons x xs ih =>
    simp only [List.foldl_cons]
    exact le_trans (by rw [maxv_eq_max]; exact le_max_left _ _) (ih _)

theorem foldl_maxv_ge_mem (l : List α) (acc x : α) (hx : x ∈ l) : x ≤ l.foldl maxv acc := by
  induction l generalizing acc with
  | nil => simp at hx
  | cons y ys ih =>
    simp only [List.foldl_cons]
    rcases List.mem_cons.mp hx with rfl | h
    · exact le_trans (by rw [maxv_eq_max]; exact le_max_right _ _) (foldl_maxv_ge_acc ys _)
    · exact ih _ h

theorem rowAbsMax_nonneg (A : List (List α)) : 0 ≤ rowAbsMax A := foldl_maxv_ge_acc _ 0

/-- every residual is at most the reported maximum -/
theorem resid_le_residMax {n : ℕ} {A : List (List α)} {b : List α} (h : Square n A b) (u : List α)
    (hu : u.length = n) (i : ℕ) (hi : i < n) :
    |resid n (matFn A) (vecFn b) (vecFn u) i| ≤ residMax A b u := by
  unfold residMax
  apply foldl_maxv_ge_mem
  have hiA : i < A.length := by rw [h.rows]; exact hi
  have hib : i < b.length := by rw [h.rhs]; exact hi
  rw [List.mem_iff_getElem]
  refine ⟨i, by simp [hiA, hib], ?_⟩
  simp only [List.getElem_zipWith]
  rw [absv_eq_abs]
  congr 1
  unfold resid
  rw [dot_eq_sum (A[i]) u n (h.cols _ (List.getElem_mem hiA)) hu]
  congr 1
  · simp [vecFn, List.getD_eq_getElem?_getD, List.getElem?_eq_getElem hib]
  · apply Finset.sum_congr rfl
    intro j _
    simp [matFn, vecFn, List.getD_eq_getElem?_getD, List.getElem?_eq_getElem hiA]

/-! ### the contract of the direct solver and the solve step -/

/-- `numpy.linalg.solve(A, b)` contract: a vector of the right length with `A x = b` -/
def SolveOK (n : ℕ) (solve : List (List α) → List α → List α) (A : List (List α)) (b : List α) : Prop :=
  (solve A b).length = n ∧ ∀ i, i < n → resid n (matFn A) (vecFn b) (vecFn (solve A b)) i = 0

theorem solveStep_length (n : ℕ) (solve : List (List α) → List α → List α) (A : List (List α)) (b : List α)
    (atol : α) (u : List α) (hu : u.length = n) (hs : SolveOK n solve A b) :
    (solveStep solve A b atol u).length = n := by
  unfold solveStep
  split
  · exact hs.1
  · exact hu

/-- **after the solve step every residual meets the bound the code tests**, whatever Gauss–Seidel returned -/
theorem solveStep_resid {n : ℕ} {A : List (List α)} {b : List α} (h : Square n A b)
    (solve : List (List α) → List α → List α) (hs : SolveOK n solve A b) (atol : α) (hat : 0 ≤ atol)
    (u : List α) (hu : u.length = n) (i : ℕ) (hi : i < n) :
    |resid n (matFn A) (vecFn b) (vecFn (solveStep solve A b atol u)) i| ≤ (atol + atol) * rowAbsMax A := by
  unfold solveStep
  split
  · rw [hs.2 i hi, abs_zero]
    exact mul_nonneg (by linarith) (rowAbsMax_nonneg A)
  · rename_i hnot
    exact (resid_le_residMax h u hu i hi).trans (not_lt.mp hnot)

theorem solveStep_cases (solve : List (List α) → List α → List α) (A : List (List α)) (b : List α)
    (atol : α) (u : List α) :
    solveStep solve A b atol u = u ∨ solveStep solve A b atol u = solve A b := by
  unfold solveStep
  split
  · exact Or.inr rfl
  · exact Or.inl rfl

/-! ### the exact solution of the ridge system is no worse than zero -/

theorem energy_solution_le_zero (Z : List (List α)) (n p : ℕ) (hn : Z.length = n) (ridge : α) (hr : 0 ≤ ridge)
    (b x : ℕ → α) (hres : ∀ i, i < p → resid p (matFn (ztzPlusRidge Z p ridge)) b x i = 0) :
    energy p (matFn (ztzPlusRidge Z p ridge)) b x ≤ 0 := by
  unfold energy
  have hb : ∑ i ∈ range p, b i * x i
      = ∑ i ∈ range p, ∑ j ∈ range p, matFn (ztzPlusRidge Z p ridge) i j * x i * x j := by
    apply Finset.sum_congr rfl
    intro i hi
    have := hres i (Finset.mem_range.mp hi)
    unfold resid at this
    have hbi : b i = ∑ j ∈ range p, matFn (ztzPlusRidge Z p ridge) i j * x j := by linarith
    rw [hbi, Finset.sum_mul]
    apply Finset.sum_congr rfl
    intro j _
    ring
  rw [hb]
  have hq : ∑ i ∈ range p, ∑ j ∈ range p, matFn (ztzPlusRidge Z p ridge) i j * x i * x j
      = ∑ i ∈ range p, ∑ j ∈ range p, Ridge.Afn n (matFn Z) ridge i j * x i * x j := by
    apply Finset.sum_congr rfl; intro i hi
    apply Finset.sum_congr rfl; intro j hj
    rw [Ridge.matFn_ztz Z n p hn ridge i j (Finset.mem_range.mp hi) (Finset.mem_range.mp hj)]
  rw [hq, Ridge.quad_expand]
  have h1 : 0 ≤ ∑ i ∈ range n, (∑ j ∈ range p, matFn Z i j * x j) * (∑ j ∈ range p, matFn Z i j * x j) :=
    Finset.sum_nonneg (fun i _ => mul_self_nonneg _)
  have h2 : 0 ≤ ridge * ∑ j ∈ range p, x j * x j :=
    mul_nonneg hr (Finset.sum_nonneg (fun j _ => mul_self_nonneg _))
  linarith

/-- **the repaired `rrBLUP_ML0`** on any training set (positive ridge, `gsatol ≥ 0`, any sweep limit), given
    the solver contract: effects of the right length, never worse than the zero solution, and every residual
    of the penalised normal equations within `2·gsatol·max_i Σ_j|A_ij|` -/
theorem ml0_facts (solve : List (List α) → List α → List α) (y : List α) (Z : List (List α)) (n p : ℕ)
    (hZ : Ridge.Rect Z n p) (hy : y.length = n) (ridge : α) (hr : 0 < ridge) (atol : α) (hat : 0 ≤ atol)
    (maxiter : ℕ) (hs : SolveOK p solve (ztzPlusRidge Z p ridge) (zty Z p (center y))) :
    ((ml0 solve y Z p ridge atol maxiter).2).length = p ∧
    psse y Z ridge (ml0 solve y Z p ridge atol maxiter).2 ≤ psse y Z ridge (List.replicate p 0) ∧
    ∀ i, i < p → |resid p (matFn (ztzPlusRidge Z p ridge)) (vecFn (zty Z p (center y)))
        (vecFn (ml0 solve y Z p ridge atol maxiter).2) i| ≤ (atol + atol) * rowAbsMax (ztzPlusRidge Z p ridge) := by
  unfold ml0
  simp only []
  have hsq := Ridge.square_ztz Z p ridge (center y)
  obtain ⟨hl, he⟩ := gaussSeidel_energy_le_zero hsq
    (Ridge.symPosDiag_ztz Z n p hZ.1 ridge hr) atol maxiter
  have hlen := solveStep_length p solve _ _ atol _ hl hs
  have hen : energyL p (ztzPlusRidge Z p ridge) (zty Z p (center y))
      (solveStep solve (ztzPlusRidge Z p ridge) (zty Z p (center y)) atol
        (gaussSeidel (ztzPlusRidge Z p ridge) (zty Z p (center y)) atol maxiter)) ≤ 0 := by
    rcases solveStep_cases solve (ztzPlusRidge Z p ridge) (zty Z p (center y)) atol
      (gaussSeidel (ztzPlusRidge Z p ridge) (zty Z p (center y)) atol maxiter) with h | h
    · rw [h]; exact he
    · rw [h]
      exact energy_solution_le_zero Z n p hZ.1 ridge hr.le _ _ hs.2
  refine ⟨hlen, ?_, ?_⟩
  · have := Ridge.psse_sub_psse_zero y Z n p hZ hy ridge _ hlen
    linarith
  · intro i hi
    exact solveStep_resid hsq solve hs atol hat _ hl i hi

/-- for a positive tolerance the pre-repair and the repaired `gauss_seidel` coincide (D22b only concerns
    `atol ≤ 0`) -/
theorem gaussSeidelPrerepair_eq (A : List (List α)) (b : List α) (atol : α) (hat : 0 < atol) (maxiter : ℕ) :
    gaussSeidelPrerepair A b atol maxiter = gaussSeidel A b atol maxiter := by
  unfold gaussSeidelPrerepair gaussSeidel
  have : decide (atol < atol + atol) = true := by simp; linarith
  rw [this]

/-! ### the exact Gauss–Jordan reference meets the contract -/

theorem entry_eq_matFn (A : List (List α)) (i j : ℕ) : Coancestry.entry A i j = matFn A i j := rfl

/-- whenever the elimination succeeds (always for a non-singular matrix) `exactSolve` satisfies the
    contract of `numpy.linalg.solve` -/
theorem exactSolve_ok {n : ℕ} {A : List (List α)} {b : List α} (h : Square n A b) (B : List (List α))
    (hB : Coancestry.inverse A = some B) : SolveOK n exactSolve A b := by
  have hA : Coancestry.Rect n n A := ⟨h.rows, h.cols⟩
  obtain ⟨hBr, hri⟩ := Coancestry.inverse_isRightInverse A B n hA hB
  have hx : exactSolve A b = matVec B b := by unfold exactSolve; rw [hB]
  have hxl : (matVec B b).length = n := by simp [matVec, hBr.1]
  have hxj : ∀ k, k < n → vecFn (matVec B b) k = ∑ j ∈ range n, matFn B k j * vecFn b j := by
    intro k hk
    have hkB : k < B.length := by rw [hBr.1]; exact hk
    unfold matVec vecFn
    rw [List.getD_eq_getElem?_getD, List.getElem?_map, List.getElem?_eq_getElem hkB]
    simp only [Option.map_some, Option.getD_some]
    rw [dot_eq_sum (B[k]) b n (hBr.2 _ (List.getElem_mem hkB)) h.rhs]
    apply Finset.sum_congr rfl
    intro j _
    simp [matFn, vecFn, List.getD_eq_getElem?_getD, List.getElem?_eq_getElem hkB]
  refine ⟨by rw [hx]; exact hxl, ?_⟩
  intro i hi
  rw [hx]
  unfold resid
  have : ∑ k ∈ range n, matFn A i k * vecFn (matVec B b) k = vecFn b i := by
    calc ∑ k ∈ range n, matFn A i k * vecFn (matVec B b) k
        = ∑ k ∈ range n, ∑ j ∈ range n, matFn A i k * matFn B k j * vecFn b j := by
          apply Finset.sum_congr rfl
          intro k hk
          rw [hxj k (Finset.mem_range.mp hk), Finset.mul_sum]
          apply Finset.sum_congr rfl; intro j _; ring
      _ = ∑ j ∈ range n, (∑ k ∈ range n, matFn A i k * matFn B k j) * vecFn b j := by
          rw [Finset.sum_comm]
          apply Finset.sum_congr rfl; intro j _
          rw [Finset.sum_mul]
      _ = ∑ j ∈ range n, (if i = j then 1 else 0) * vecFn b j := by
          apply Finset.sum_congr rfl
          intro j hj
          have := hri i hi j (Finset.mem_range.mp hj)
          simp only [entry_eq_matFn] at this
          rw [this]
      _ = vecFn b i := by
          simp [Finset.sum_ite_eq, Finset.mem_range.mpr hi]
  rw [this]; ring

end RRSolve
