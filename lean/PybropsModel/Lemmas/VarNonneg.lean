/-
Helper lemmas for C12 (13): the exhaustive enumeration is an average (non-negative weights that sum to one) when the
crossover probabilities lie in [0, 1]: monotone, and `(E F)² ≤ E (F²)` (Jensen for the square).  Hence every enumerated
variance — and, through the `…_eq_enum` theorems, every reported variance — is non-negative.
-/
import PybropsModel.Lemmas.VarExpect
set_option autoImplicit false
set_option linter.unusedSectionVars false

namespace Variance
section ordered
variable {α : Type} [Field α] [LinearOrder α] [IsStrictOrderedRing α]

/-- the crossover probabilities are probabilities -/
def Prob (xs : List α) : Prop := ∀ x ∈ xs, 0 ≤ x ∧ x ≤ 1

theorem Prob.tail {x : α} {xs : List α} (h : Prob (x :: xs)) : Prob xs :=
  fun y hy => h y (List.mem_cons_of_mem _ hy)

theorem Prob.head {x : α} {xs : List α} (h : Prob (x :: xs)) : 0 ≤ x ∧ x ≤ 1 :=
  h x (List.mem_cons_self ..)

theorem E_mono (xs : List α) (hp : Prob xs) :
    ∀ F G : List Bool → α, (∀ b, F b ≤ G b) → E xs F ≤ E xs G := by
  induction xs with
  | nil => intro F G h; exact h []
  | cons x xs ih =>
    intro F G h
    obtain ⟨h0, h1⟩ := hp.head
    have a := ih hp.tail (fun b => F (false :: b)) (fun b => G (false :: b)) (fun b => h _)
    have b := ih hp.tail (fun b => F (true :: b)) (fun b => G (true :: b)) (fun b => h _)
    simp only [E]
    have h1x : 0 ≤ 1 - x := by linarith
    exact add_le_add (mul_le_mul_of_nonneg_left a h1x) (mul_le_mul_of_nonneg_left b h0)

/-- convexity of the square on a two-point average -/
theorem two_point_sq (x a b : α) (h0 : 0 ≤ x) (h1 : x ≤ 1) :
    ((1 - x) * a + x * b) * ((1 - x) * a + x * b) ≤ (1 - x) * (a * a) + x * (b * b) := by
  have h : 0 ≤ x * (1 - x) * ((a - b) * (a - b)) :=
    mul_nonneg (mul_nonneg h0 (by linarith)) (mul_self_nonneg _)
  nlinarith [h]

theorem E_jensen (xs : List α) (hp : Prob xs) :
    ∀ F : List Bool → α, E xs F * E xs F ≤ E xs (fun b => F b * F b) := by
  induction xs with
  | nil => intro F; exact le_refl _
  | cons x xs ih =>
    intro F
    obtain ⟨h0, h1⟩ := hp.head
    have a := ih hp.tail (fun b => F (false :: b))
    have b := ih hp.tail (fun b => F (true :: b))
    simp only [E]
    have h1x : 0 ≤ 1 - x := by linarith
    calc _ ≤ (1 - x) * (E xs (fun b => F (false :: b)) * E xs (fun b => F (false :: b)))
              + x * (E xs (fun b => F (true :: b)) * E xs (fun b => F (true :: b))) := two_point_sq x _ _ h0 h1
      _ ≤ _ := add_le_add (mul_le_mul_of_nonneg_left a h1x) (mul_le_mul_of_nonneg_left b h0)

/-- averaging a family of functionals that satisfy Jensen's inequality for the square gives one that does -/
theorem E_comp_jensen {γ : Type} (xs : List α) (hp : Prob xs) (K : List Bool → (γ → α) → α)
    (hK : ∀ m F, K m F * K m F ≤ K m (fun g => F g * F g)) (F : γ → α) :
    E xs (fun m => K m F) * E xs (fun m => K m F) ≤ E xs (fun m => K m (fun g => F g * F g)) :=
  le_trans (E_jensen xs hp (fun m => K m F)) (E_mono xs hp _ _ (fun m => hK m F))

theorem ssdE_jensen (xs : List α) (hp : Prob xs) :
    ∀ (n : Nat) (h0 h1 : Nat → α) (F : (Nat → α) → α),
      ssdE xs n h0 h1 F * ssdE xs n h0 h1 F ≤ ssdE xs n h0 h1 (fun g => F g * F g) := by
  intro n
  induction n with
  | zero =>
    intro h0 h1 F
    simp only [ssdE]
    exact E_jensen xs hp (fun m => F (gameteAt m h0 h1))
  | succ n ih =>
    intro h0 h1 F
    simp only [ssdE]
    exact E_comp_jensen xs hp (fun m1 G => E xs (fun m2 => ssdE xs n (gameteAt m1 h0 h1) (gameteAt m2 h0 h1) G))
      (fun m1 G => E_comp_jensen xs hp (fun m2 G' => ssdE xs n (gameteAt m1 h0 h1) (gameteAt m2 h0 h1) G')
        (fun m2 G' => ih _ _ G') G) F

theorem twoWayE_jensen (xs : List α) (hp : Prob xs) (n : Nat) (a b : Nat → α) (F : (Nat → α) → α) :
    twoWayE xs n a b F * twoWayE xs n a b F ≤ twoWayE xs n a b (fun g => F g * F g) :=
  ssdE_jensen xs hp n a b F

theorem threeWayE_jensen (xs : List α) (hp : Prob xs) (n : Nat) (p1 p2 p3 : Nat → α) (F : (Nat → α) → α) :
    threeWayE xs n p1 p2 p3 F * threeWayE xs n p1 p2 p3 F ≤ threeWayE xs n p1 p2 p3 (fun g => F g * F g) := by
  unfold threeWayE
  exact E_comp_jensen xs hp (fun mB G => ssdE xs n p1 (gameteAt mB p2 p3) G) (fun mB G => ssdE_jensen xs hp n _ _ G) F

theorem fourWayE_jensen (xs : List α) (hp : Prob xs) (n : Nat) (p1 p2 p3 p4 : Nat → α) (F : (Nat → α) → α) :
    fourWayE xs n p1 p2 p3 p4 F * fourWayE xs n p1 p2 p3 p4 F ≤ fourWayE xs n p1 p2 p3 p4 (fun g => F g * F g) := by
  unfold fourWayE
  exact E_comp_jensen xs hp (fun mA G => E xs (fun mB => ssdE xs n (gameteAt mA p1 p2) (gameteAt mB p3 p4) G))
    (fun mA G => E_comp_jensen xs hp (fun mB G' => ssdE xs n (gameteAt mA p1 p2) (gameteAt mB p3 p4) G')
      (fun mB G' => ssdE_jensen xs hp n _ _ G') G) F

/-- a variance under a functional that satisfies Jensen's inequality is non-negative -/
theorem covOf_self_nonneg (Es : ((Nat → α) → α) → α) (U : (Nat → α) → α)
    (h : Es U * Es U ≤ Es (fun g => U g * U g)) : 0 ≤ covOf Es U U := by
  unfold covOf
  linarith

/-- on a non-negative variance the repaired cell formula (fix D37) is the plain one -/
theorem ucVal_of_nonneg (sqrt : α → α) (pm inten v : α) (h : 0 ≤ v) :
    ucVal sqrt pm inten v = ucValPrerepair sqrt pm inten v := by
  unfold ucVal ucValPrerepair clip0
  rw [if_neg (not_lt.mpr h)]

/-- a (spuriously) negative variance is read as zero -/
theorem ucVal_of_neg (sqrt : α → α) (pm inten v : α) (h : v < 0) :
    ucVal sqrt pm inten v = pm + inten * sqrt 0 := by
  unfold ucVal clip0
  rw [if_pos h]

end ordered
end Variance
