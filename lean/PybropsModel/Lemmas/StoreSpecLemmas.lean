/-
C16 — the Spec oracle `StoreSpec.specObj` characterised (spec_iff) and shown to accept what the model
returns (spec_sound).
-/
import PybropsModel.Model.StoreSpec
import PybropsModel.Lemmas.StoreRead
import Mathlib.Data.List.Perm.Subperm
import Mathlib.Data.List.Nodup
import Mathlib.Tactic
set_option autoImplicit false

namespace StoreSpec
open Store

abbrev Dict := List (String × Option DS)

def dkeys (a : Dict) : List String := a.map Prod.fst

/-- what `itemEq` decides -/
def ItemObs : Item → Item → Prop
  | .dict a, .dict b => a.length = b.length ∧ ∀ kv ∈ a, b.lookup kv.1 = some kv.2
  | x, y => x = y

/-- observable equality of two object states: same field names in the same order, items equal
    (dictionaries: same size and every entry of the first found in the second) -/
def ObsEq (want got : Obj) : Prop := List.Forall₂ (fun x y => x.1 = y.1 ∧ ItemObs x.2 y.2) want got

theorem dictEq_iff (a b : Dict) :
    dictEq a b = true ↔ a.length = b.length ∧ ∀ kv ∈ a, b.lookup kv.1 = some kv.2 := by
  simp [dictEq, List.all_eq_true]

theorem itemEq_iff (x y : Item) : itemEq x y = true ↔ ItemObs x y := by
  cases x <;> cases y <;> simp [itemEq, ItemObs, dictEq_iff]

theorem lookup_mem {a : Dict} {k : String} {v : Option DS} (h : a.lookup k = some v) : (k, v) ∈ a := by
  induction a with
  | nil => simp at h
  | cons e r ih =>
    obtain ⟨k', v'⟩ := e
    by_cases hk : k = k'
    · subst hk
      simp [List.lookup] at h
      subst h; simp
    · have : (k == k') = false := by simpa using hk
      simp [List.lookup, this] at h
      exact List.mem_cons_of_mem _ (ih h)

theorem lookup_of_mem_nodup {a : Dict} (hnd : (dkeys a).Nodup) {k : String} {v : Option DS}
    (h : (k, v) ∈ a) : a.lookup k = some v := by
  induction a with
  | nil => simp at h
  | cons e r ih =>
    obtain ⟨k', v'⟩ := e
    simp only [dkeys, List.map_cons, List.nodup_cons] at hnd
    rcases List.mem_cons.mp h with e1 | e1
    · cases e1; simp [List.lookup]
    · have hne : k ≠ k' := by
        rintro rfl
        exact hnd.1 (List.mem_map_of_mem (f := Prod.fst) e1)
      have : (k == k') = false := by simpa using hne
      simp only [List.lookup, this]
      exact ih hnd.2 e1

theorem lookup_none_iff (a : Dict) (k : String) : a.lookup k = none ↔ k ∉ dkeys a := by
  induction a with
  | nil => simp [dkeys]
  | cons e r ih =>
    obtain ⟨k', v'⟩ := e
    by_cases hk : k = k'
    · subst hk; simp [List.lookup, dkeys]
    · have : (k == k') = false := by simpa using hk
      simp only [List.lookup, this, dkeys, List.map_cons, List.mem_cons, not_or]
      rw [ih]
      exact ⟨fun h => ⟨hk, h⟩, fun h => h.2⟩

/-- **dictionaries as finite maps**: for dictionaries with distinct keys (every Python dict; the model's
    canonical form has strictly increasing keys) `dictEq` holds exactly when the two are the same map -/
theorem dictEq_iff_same_map (a b : Dict) (ha : (dkeys a).Nodup) (hb : (dkeys b).Nodup) :
    dictEq a b = true ↔ ∀ k, a.lookup k = b.lookup k := by
  rw [dictEq_iff]
  constructor
  · rintro ⟨hlen, hall⟩ k
    cases hk : a.lookup k with
    | some v => rw [hall (k, v) (lookup_mem hk)]
    | none =>
      have hsub : dkeys a ⊆ dkeys b := by
        intro k' hk'
        obtain ⟨e, he, rfl⟩ := List.mem_map.mp hk'
        have := hall e he
        by_contra hc
        rw [(lookup_none_iff b e.1).mpr hc] at this
        exact absurd this (by simp)
      have hperm : (dkeys a).Perm (dkeys b) :=
        (List.subperm_of_subset ha hsub).perm_of_length_le (by simp [dkeys, hlen])
      have hka : k ∉ dkeys a := (lookup_none_iff a k).mp hk
      have hkb : k ∉ dkeys b := fun h => hka (hperm.mem_iff.mpr h)
      exact ((lookup_none_iff b k).mpr hkb).symm
  · intro h
    have hmem : ∀ k, k ∈ dkeys a ↔ k ∈ dkeys b := by
      intro k
      have h1 := lookup_none_iff a k
      have h2 := lookup_none_iff b k
      rw [h k] at h1
      constructor
      · intro hk; by_contra hc; exact (h1.mp (h2.mpr hc)) hk
      · intro hk; by_contra hc; exact (h2.mp (h1.mpr hc)) hk
    have hperm : (dkeys a).Perm (dkeys b) := (List.perm_ext_iff_of_nodup ha hb).mpr hmem
    refine ⟨by simpa [dkeys] using hperm.length_eq, ?_⟩
    intro kv hkv
    rw [← h kv.1]
    exact lookup_of_mem_nodup ha hkv

theorem filter_map_isEmpty {α β : Type} (l : List α) (p : α → Bool) (f : α → β) :
    ((l.filter p).map f).isEmpty = true ↔ ∀ x ∈ l, p x = false := by
  simp [List.isEmpty_iff, List.filter_eq_nil_iff]

/-- **spec_iff**: the Bool oracle decides observable equality -/
theorem specObj_iff (want got : Obj) : specObj want got = true ↔ ObsEq want got := by
  unfold specObj diffKeys ObsEq
  rw [Bool.and_eq_true, beq_iff_eq, filter_map_isEmpty]
  constructor
  · rintro ⟨hlen, hall⟩
    rw [List.forall₂_iff_zip]
    refine ⟨hlen, fun {x y} hxy => ?_⟩
    have := hall (x, y) hxy
    simp only [Bool.not_eq_false', Bool.and_eq_true, beq_iff_eq] at this
    exact ⟨this.1, (itemEq_iff _ _).mp this.2⟩
  · intro h
    rw [List.forall₂_iff_zip] at h
    refine ⟨h.1, fun p hp => ?_⟩
    have := h.2 (show (p.1, p.2) ∈ want.zip got from hp)
    simp only [Bool.not_eq_false', Bool.and_eq_true, beq_iff_eq]
    exact ⟨this.1, (itemEq_iff _ _).mpr this.2⟩

/-- every dictionary-valued field has distinct keys -/
def DictsNodup (o : Obj) : Prop := ∀ k kvs, (k, Item.dict kvs) ∈ o → (dkeys kvs).Nodup

theorem itemObs_refl (it : Item) (h : ∀ kvs, it = .dict kvs → (dkeys kvs).Nodup) : ItemObs it it := by
  cases it with
  | dict kvs => exact ⟨rfl, fun kv hkv => lookup_of_mem_nodup (h kvs rfl) hkv⟩
  | none => rfl
  | data d => rfl
  | bad => rfl

/-- the oracle accepts an object compared with itself -/
theorem specObj_refl (o : Obj) (h : DictsNodup o) : specObj o o = true := by
  rw [specObj_iff]
  unfold ObsEq
  rw [List.forall₂_same]
  intro x hx
  exact ⟨rfl, itemObs_refl x.2 (fun kvs e => h x.1 kvs (by rw [← e]; exact hx))⟩

theorem forall₂_exists_left {α β : Type} {R : α → β → Prop} {l1 : List α} {l2 : List β}
    (h : List.Forall₂ R l1 l2) {y : β} (hy : y ∈ l2) : ∃ x ∈ l1, R x y := by
  induction h with
  | nil => simp at hy
  | @cons a b l1 l2 hab _ ih =>
    rcases List.mem_cons.mp hy with e | e
    · exact ⟨a, List.mem_cons_self, e ▸ hab⟩
    · obtain ⟨x, hx, hr⟩ := ih e
      exact ⟨x, List.mem_cons_of_mem _ hx, hr⟩

/-- a `valid` object's dictionaries have strictly increasing, hence distinct, keys -/
theorem dictsNodup_of_conforms (dec : Bool) (sch : Schema) (o : Obj) (hc : conformsG dec sch o = true) :
    DictsNodup o := by
  intro k kvs hm
  obtain ⟨fd, _, _, _, hst⟩ := forall₂_exists_left (forall₂_of_conforms dec sch o hc) hm
  simp only [stable, Bool.and_eq_true] at hst
  have hok := (dictOK_iff dec kvs).mp hst.2
  have hs : StrictKeys kvs := hok.2
  unfold dkeys
  rw [List.nodup_iff_pairwise_ne, List.pairwise_map]
  exact hs.imp (fun h => ne_of_lt h)

end StoreSpec
