/-
Helper lemmas for C09 `spec_sound`: every clause of the Spec (Model/GenotypeSpec.lean) holds of what the model
(Model/Genotype.lean, run at ℚ) computes, for every valid matrix and every tolerance ≥ 0.
-/
import PybropsModel.Lemmas.GenotypeStats
import PybropsModel.Model.GenotypeSpec
set_option autoImplicit false
set_option linter.unusedVariables false
set_option linter.unusedSectionVars false

namespace GenotypeSpec
open Genotype List

/-! ### the oracles -/

theorem failing_nil_iff (l : List (String × Bool)) : failing l = [] ↔ ∀ x ∈ l, x.2 = true := by
  unfold failing
  rw [List.map_eq_nil_iff, List.filter_eq_nil_iff]
  constructor
  · intro h x hx; have := h x hx; simpa using this
  · intro h x hx; simp [h x hx]

theorem allIdx_iff (n : Nat) (f : Nat → Bool) : allIdx n f = true ↔ ∀ i, i < n → f i = true := by
  simp [allIdx, List.all_eq_true]

/-- the table `f i j`, `i < rows`, `j < cols` -/
def tab {β : Type} (rows cols : Nat) (f : Nat → Nat → β) : List (List β) :=
  (List.range rows).map (fun i => (List.range cols).map (f i))

theorem vecIs_range {β : Type} (n : Nat) (f : Nat → β) (ok : Nat → β → Bool)
    (h : ∀ j, j < n → ok j (f j) = true) : vecIs n ((List.range n).map f) ok = true := by
  unfold vecIs
  simp only [List.length_map, List.length_range, beq_self_eq_true, Bool.true_and]
  rw [allIdx_iff]
  intro j hj
  simp [hj, h j hj]

theorem matIs_tab {β : Type} (rows cols : Nat) (f : Nat → Nat → β) (ok : Nat → Nat → β → Bool)
    (h : ∀ i, i < rows → ∀ j, j < cols → ok i j (f i j) = true) : matIs rows cols (tab rows cols f) ok = true := by
  unfold matIs tab
  simp only [List.length_map, List.length_range, beq_self_eq_true, Bool.true_and]
  rw [allIdx_iff]
  intro i hi
  simp only [List.getElem?_map, List.getElem?_range hi, Option.map_some, List.length_map, List.length_range,
    beq_self_eq_true, Bool.true_and]
  rw [allIdx_iff]
  intro j hj
  simp [hj, h i hi j hj]

theorem tab_getD {β : Type} (rows cols : Nat) (f : Nat → Nat → β) (d : β) (i j : Nat) (hi : i < rows) (hj : j < cols) :
    ((tab rows cols f).getD i []).getD j d = f i j := by
  simp [tab, hi, hj]

/-- a rectangular matrix is the table of its entries -/
theorem umat_eq_tab {ploidy nv : Nat} {m : UMat} (hv : ValidU ploidy nv m) :
    m = tab m.length nv (fun i j => entry (m.getD i []) j) := by
  apply List.ext_getElem
  · simp [tab]
  · intro i h1 h2
    simp only [tab, List.getElem_map, List.getElem_range]
    have hr : m[i] ∈ m := List.getElem_mem h1
    have hl : m[i].length = nv := (hv.2.2 _ hr).1
    have hgd : m.getD i [] = m[i] := by simp [List.getD_eq_getElem?_getD, h1]
    rw [hgd]
    apply List.ext_getElem
    · simp [hl]
    · intro j hj1 hj2
      simp [entry, List.getD_eq_getElem?_getD, hj1]

/-- **spec_iff for the vector oracle** -/
theorem vecIs_iff {β : Type} (n : Nat) (claim : List β) (ok : Nat → β → Bool) :
    vecIs n claim ok = true ↔ claim.length = n ∧ ∀ j, j < n → ∀ x, claim[j]? = some x → ok j x = true := by
  unfold vecIs
  rw [Bool.and_eq_true, beq_iff_eq, allIdx_iff]
  constructor
  · rintro ⟨hl, h⟩
    refine ⟨hl, fun j hj x hx => ?_⟩
    have := h j hj
    rw [hx] at this
    exact this
  · rintro ⟨hl, h⟩
    refine ⟨hl, fun j hj => ?_⟩
    have hj' : j < claim.length := hl ▸ hj
    rw [List.getElem?_eq_getElem hj']
    exact h j hj _ (List.getElem?_eq_getElem hj')

theorem bool_beq_iff {a b : Bool} : (a == b) = true ↔ (a = true ↔ b = true) := by
  cases a <;> cases b <;> simp

theorem closeQ_self (tol a : Rat) : closeQ tol a a = true := by simp [closeQ]

theorem freqIs_self (tol a : Rat) : freqIs tol a a = true := by
  unfold freqIs
  split
  · simp
  · exact closeQ_self tol a

/-! ### raw calls that agree with a dosage matrix -/

/-- the raw-call record `R` describes the dosage matrix `m` (unphased: by definition; phased: `m` = the projection) -/
structure Agrees (R : Raw) (ploidy nv : Nat) (m : UMat) : Prop where
  hnt : R.nt = m.length
  hnv : R.nv = nv
  hpl : R.ploidy = ploidy
  hones : ∀ i, i < m.length → ∀ j, j < nv → R.ones i j = entry (m.getD i []) j

variable {R : Raw} {ploidy nv : Nat} {m : UMat}

theorem getD_mem_of_lt (m : UMat) (i : Nat) (h : i < m.length) : m.getD i [] ∈ m := by
  rw [List.getD_eq_getElem?_getD, List.getElem?_eq_getElem h]; exact List.getElem_mem h

theorem forall_mem_iff_index (m : UMat) (P : List Int → Prop) :
    (∀ r ∈ m, P r) ↔ ∀ i, i < m.length → P (m.getD i []) := by
  constructor
  · intro h i hi; exact h _ (getD_mem_of_lt m i hi)
  · intro h r hr
    obtain ⟨i, hi, rfl⟩ := List.mem_iff_getElem.mp hr
    have := h i hi
    rwa [List.getD_eq_getElem?_getD, List.getElem?_eq_getElem hi] at this

theorem cnt_eq (ha : Agrees R ploidy nv m) (j : Nat) (hj : j < nv) : R.cnt j = acountAt m j := by
  unfold Raw.cnt acountAt col
  rw [ha.hnt, map_eq_range_getD m [] (fun r => entry r j)]
  congr 1
  apply List.map_congr_left
  intro i hi
  exact ha.hones i (List.mem_range.mp hi) j hj

theorem total_eq (ha : Agrees R ploidy nv m) : R.total = ((ploidy * m.length : Nat) : Int) := by
  unfold Raw.total; rw [ha.hpl, ha.hnt]

theorem p_eq (ha : Agrees R ploidy nv m) (j : Nat) (hj : j < nv) : R.p j = afreqAt (α := ℚ) ploidy m j := by
  unfold Raw.p afreqAt
  rw [cnt_eq ha j hj, total_eq ha]
  push_cast
  rfl

theorem allOne_iff (ha : Agrees R ploidy nv m) (j : Nat) (hj : j < nv) :
    R.allOne j = true ↔ ∀ r ∈ m, entry r j = (ploidy : Int) := by
  unfold Raw.allOne
  rw [allIdx_iff, forall_mem_iff_index m (fun r => entry r j = (ploidy : Int)), ha.hnt, ha.hpl]
  constructor
  · intro h i hi; have := h i hi; rw [ha.hones i hi j hj] at this; simpa using this
  · intro h i hi; rw [ha.hones i hi j hj]; simpa using h i hi

theorem allZero_iff (ha : Agrees R ploidy nv m) (j : Nat) (hj : j < nv) :
    R.allZero j = true ↔ ∀ r ∈ m, entry r j = 0 := by
  unfold Raw.allZero
  rw [allIdx_iff, forall_mem_iff_index m (fun r => entry r j = 0), ha.hnt]
  constructor
  · intro h i hi; have := h i hi; rw [ha.hones i hi j hj] at this; simpa using this
  · intro h i hi; rw [ha.hones i hi j hj]; simpa using h i hi

theorem bool_eq_of_iff {a b : Bool} (h : a = true ↔ b = true) : (a == b) = true := by
  cases a <;> cases b <;> simp_all

/-! ### the clauses, one by one -/

theorem sound_tacount (hv : ValidU ploidy nv m) (ha : Agrees R ploidy nv m) : clTacount R (modelU ploidy nv m) = true := by
  unfold clTacount modelU
  simp only [tacount]
  rw [ha.hnt, ha.hnv]
  conv => lhs; arg 3; rw [umat_eq_tab hv]
  apply matIs_tab
  intro i hi j hj
  simp [ha.hones i hi j hj]

theorem sound_f012 (hv : ValidU ploidy nv m) (ha : Agrees R ploidy nv m) : clF012 R (modelU ploidy nv m) = true := by
  unfold clF012 modelU
  simp only [fmt012]
  rw [ha.hnt, ha.hnv]
  conv => lhs; arg 3; rw [umat_eq_tab hv]
  apply matIs_tab
  intro i hi j hj
  simp [ha.hones i hi j hj]

theorem map_map_tab {β γ : Type} (rows cols : Nat) (f : Nat → Nat → β) (g : β → γ) :
    (tab rows cols f).map (fun r => r.map g) = tab rows cols (fun i j => g (f i j)) := by
  simp [tab, List.map_map, Function.comp_def]

theorem sound_fM101 (hv : ValidU ploidy nv m) (ha : Agrees R ploidy nv m) : clFM101 R (modelU ploidy nv m) = true := by
  unfold clFM101 modelU
  simp only [fmtM101]
  rw [ha.hnt, ha.hnv]
  conv => lhs; arg 3; rw [umat_eq_tab hv, map_map_tab]
  apply matIs_tab
  intro i hi j hj
  simp [ha.hones i hi j hj]

theorem sound_tafreq (hv : ValidU ploidy nv m) (ha : Agrees R ploidy nv m) (t : Tol) :
    clTafreq R t {} (modelU ploidy nv m) = true := by
  unfold clTafreq modelU
  simp only [tafreq]
  rw [ha.hnt, ha.hnv]
  conv => lhs; arg 3; rw [umat_eq_tab hv, map_map_tab]
  apply matIs_tab
  intro i hi j hj
  simp only [Bool.false_eq_true, if_false]
  rw [ha.hones i hi j hj, ha.hpl]
  unfold tafreqAt
  exact freqIs_self _ _

theorem sound_acount (hv : ValidU ploidy nv m) (ha : Agrees R ploidy nv m) : clAcount R (modelU ploidy nv m) = true := by
  unfold clAcount modelU
  simp only [acount]
  rw [ha.hnv]
  apply vecIs_range
  intro j hj
  simp [cnt_eq ha j hj]

theorem sound_afreq (hv : ValidU ploidy nv m) (ha : Agrees R ploidy nv m) (t : Tol) :
    clAfreq R t {} (modelU ploidy nv m) = true := by
  unfold clAfreq modelU
  simp only [afreq]
  rw [ha.hnv]
  apply vecIs_range
  intro j hj
  simp only [Bool.false_eq_true, if_false]
  rw [p_eq ha j hj]
  exact closeQ_self _ _

theorem sound_unit (hv : ValidU ploidy nv m) : clUnit (modelU ploidy nv m) = true := by
  unfold clUnit modelU
  simp only [afreq, List.all_eq_true, List.mem_map, List.mem_range, Bool.and_eq_true, decide_eq_true_eq,
    forall_exists_index, and_imp]
  intro x j _ hx
  subst hx
  exact afreqAt_bounds (α := ℚ) hv j

theorem sound_one (hv : ValidU ploidy nv m) (ha : Agrees R ploidy nv m) : clOne R (modelU ploidy nv m) = true := by
  unfold clOne modelU
  simp only [afreq]
  rw [ha.hnv]
  apply vecIs_range
  intro j hj
  apply bool_eq_of_iff
  rw [allOne_iff ha j hj, ← afreqAt_eq_one_iff (α := ℚ) hv j]
  simp

theorem sound_zero (hv : ValidU ploidy nv m) (ha : Agrees R ploidy nv m) : clZero R {} (modelU ploidy nv m) = true := by
  unfold clZero modelU
  simp only [afreq, Bool.false_or]
  rw [ha.hnv]
  apply vecIs_range
  intro j hj
  apply bool_eq_of_iff
  rw [allZero_iff ha j hj, ← afreqAt_eq_zero_iff (α := ℚ) hv j]
  simp

theorem sound_afixed (hv : ValidU ploidy nv m) (ha : Agrees R ploidy nv m) : clAfixed R (modelU ploidy nv m) = true := by
  unfold clAfixed modelU
  simp only [afixed, afreq, List.map_map]
  rw [ha.hnv]
  apply vecIs_range
  intro j hj
  apply bool_eq_of_iff
  simp only [Function.comp, Bool.or_eq_true]
  rw [afixedOf_iff, allOne_iff ha j hj, allZero_iff ha j hj, afreqAt_eq_one_iff (α := ℚ) hv j,
    afreqAt_eq_zero_iff (α := ℚ) hv j]
  exact or_comm

theorem sound_apoly (hv : ValidU ploidy nv m) (ha : Agrees R ploidy nv m) : clApoly R (modelU ploidy nv m) = true := by
  unfold clApoly modelU
  simp only [apoly, afreq, List.map_map]
  rw [ha.hnv]
  apply vecIs_range
  intro j hj
  obtain ⟨h0, h1⟩ := afreqAt_bounds (α := ℚ) hv j
  have hc := afixedOf_eq_not_apolyOf h0 h1
  have hf : afixedOf (afreqAt (α := ℚ) ploidy m j) = (R.allOne j || R.allZero j) := by
    have := sound_afixed hv ha
    apply Bool.eq_iff_iff.mpr
    simp only [Bool.or_eq_true]
    rw [afixedOf_iff, allOne_iff ha j hj, allZero_iff ha j hj, afreqAt_eq_one_iff (α := ℚ) hv j,
      afreqAt_eq_zero_iff (α := ℚ) hv j]
    exact or_comm
  simp only [Function.comp]
  rw [← hf, hc]
  simp

theorem zip_map_not_all (l : List Bool) : (List.zip (l.map (fun b => !b)) l).all (fun ab => ab.1 == !ab.2) = true := by
  induction l with
  | nil => rfl
  | cons a t ih => simp [ih]

theorem sound_compl (hv : ValidU ploidy nv m) : clCompl (modelU ploidy nv m) = true := by
  unfold clCompl modelU
  simp only
  have h : afixed (α := ℚ) ploidy nv m = (apoly (α := ℚ) ploidy nv m).map (fun b => !b) := by
    unfold afixed apoly
    rw [List.map_map]
    apply List.map_congr_left
    intro p hp
    obtain ⟨j, _, rfl⟩ := List.mem_map.mp hp
    obtain ⟨h0, h1⟩ := afreqAt_bounds (α := ℚ) hv j
    exact afixedOf_eq_not_apolyOf h0 h1
  rw [h]
  simp [zip_map_not_all]

theorem mafOf_eq_want (q : ℚ) : mafOf q = (if q ≤ 1 - q then q else 1 - q) := by
  unfold mafOf
  have h2 : ((1 : ℚ) / (1 + 1)) = 1 / 2 := by norm_num
  rw [h2]
  by_cases h : (1 : ℚ) / 2 < q
  · rw [if_pos h, if_neg (by linarith)]
  · rw [if_neg h, if_pos (by linarith)]

theorem sound_maf (hv : ValidU ploidy nv m) (ha : Agrees R ploidy nv m) (t : Tol) (ht : 0 ≤ t.maf) :
    clMaf R t {} (modelU ploidy nv m) = true := by
  unfold clMaf modelU
  simp only [maf, afreq, List.map_map]
  rw [ha.hnv]
  apply vecIs_range
  intro j hj
  simp only [Bool.false_eq_true, if_false, Function.comp]
  have hw : R.mafWant j = mafOf (afreqAt (α := ℚ) ploidy m j) := by
    unfold Raw.mafWant; rw [p_eq ha j hj, mafOf_eq_want]
  obtain ⟨h0, h1⟩ := afreqAt_bounds (α := ℚ) hv j
  obtain ⟨m0, m1⟩ := mafOf_bounds h0 h1
  rw [hw]
  simp only [Bool.and_eq_true, decide_eq_true_eq]
  refine ⟨⟨?_, m0⟩, by linarith⟩
  split
  · rename_i h; simpa using h
  · exact closeQ_self _ _

theorem sum_congr_range (n : Nat) (f g : Nat → ℚ) (h : ∀ j, j < n → f j = g j) :
    ((List.range n).map f).sum = ((List.range n).map g).sum := by
  congr 1
  apply List.map_congr_left
  intro j hj; exact h j (List.mem_range.mp hj)

theorem sound_meh (hv : ValidU ploidy nv m) (ha : Agrees R ploidy nv m) (t : Tol) :
    clMeh R t {} (modelU ploidy nv m) = true := by
  unfold clMeh modelU
  simp only [Bool.false_eq_true, if_false, Bool.and_eq_true, decide_eq_true_eq]
  have hw : R.mehWant = meh (α := ℚ) ploidy nv m := by
    unfold Raw.mehWant meh
    rw [mehOf_eq, ha.hnv, ha.hpl]
    unfold afreq
    rw [List.map_map]
    congr 1
    apply sum_congr_range
    intro j hj
    simp only [Function.comp]
    rw [p_eq ha j hj]
    ring
  refine ⟨by rw [hw]; exact closeQ_self _ _, ?_⟩
  exact mehOf_nonneg ploidy nv _ (fun x hx => by
    obtain ⟨j, _, rfl⟩ := List.mem_map.mp hx
    exact afreqAt_bounds (α := ℚ) hv j)

/-! ### genotype classes -/

theorem gtcount_eq_tab (ploidy nv : Nat) (m : UMat) :
    natMat (gtcount ploidy nv m) = tab (ploidy + 1) nv (fun c j => ((gtcountAt m c j : Nat) : Int)) := by
  simp [natMat, gtcount, tab, List.map_map, Function.comp_def]

theorem gtcountAt_eq_cls (ha : Agrees R ploidy nv m) (c j : Nat) (hj : j < nv) :
    ((gtcountAt m c j : Nat) : Int) = R.cls c j := by
  unfold gtcountAt Raw.cls col
  rw [ha.hnt, map_eq_range_getD m [] (fun r => entry r j), List.count_eq_countP, List.countP_map,
    List.countP_eq_length_filter]
  congr 2
  apply List.filter_congr
  intro i hi
  simp only [Function.comp]
  rw [ha.hones i (List.mem_range.mp hi) j hj]

theorem sound_gtcount (hv : ValidU ploidy nv m) (ha : Agrees R ploidy nv m) : clGtcount R (modelU ploidy nv m) = true := by
  unfold clGtcount modelU
  simp only
  rw [gtcount_eq_tab, ha.hpl, ha.hnv]
  apply matIs_tab
  intro c _ j hj
  simp [gtcountAt_eq_cls ha c j hj]

theorem tab_col {β : Type} (rows cols : Nat) (f : Nat → Nat → β) (d : β) (j : Nat) (hj : j < cols) :
    (tab rows cols f).map (fun r => r.getD j d) = (List.range rows).map (fun i => f i j) := by
  simp [tab, List.map_map, Function.comp_def, hj]

theorem sound_gtsum (hv : ValidU ploidy nv m) (ha : Agrees R ploidy nv m) : clGtsum R (modelU ploidy nv m) = true := by
  unfold clGtsum modelU
  simp only
  rw [gtcount_eq_tab, ha.hnv, allIdx_iff]
  intro j hj
  rw [tab_col _ _ _ _ j hj, ha.hnt]
  have h := sum_count_classes (P := ploidy) (col_bounds hv j)
  rw [col_length] at h
  have h2 : ((List.range (ploidy + 1)).map (fun c => ((gtcountAt m c j : Nat) : Int))).sum
      = ((((List.range (ploidy + 1)).map (fun (c : Nat) => (col m j).count (c : Int))).sum : Nat) : Int) := by
    rw [Nat.cast_list_sum, List.map_map]; rfl
  rw [h2, h]
  simp

theorem cls_bounds (R : Raw) (c j : Nat) : 0 ≤ R.cls c j ∧ R.cls c j ≤ (R.nt : Int) := by
  unfold Raw.cls
  refine ⟨by positivity, ?_⟩
  have := List.length_filter_le (fun i => R.ones i j == (c : Int)) (List.range R.nt)
  rw [List.length_range] at this
  exact_mod_cast this

theorem sound_gtfreq (hv : ValidU ploidy nv m) (ha : Agrees R ploidy nv m) (t : Tol) :
    clGtfreq R t {} (modelU ploidy nv m) = true := by
  unfold clGtfreq modelU
  simp only [gtfreq]
  rw [ha.hpl, ha.hnv]
  change matIs (ploidy + 1) nv (tab (ploidy + 1) nv (fun c j => gtfreqAt (α := ℚ) m c j)) _ = true
  apply matIs_tab
  intro c _ j hj
  simp only [Bool.false_eq_true, if_false, Bool.and_eq_true, decide_eq_true_eq]
  have hn : (0 : ℚ) < ((m.length : Nat) : ℚ) := by exact_mod_cast hv.2.1
  have hx : gtfreqAt (α := ℚ) m c j = (R.cls c j : ℚ) / (R.nt : ℚ) := by
    unfold gtfreqAt
    rw [one_div_mul_eq_div, ← gtcountAt_eq_cls ha c j hj, ha.hnt]
    push_cast; rfl
  obtain ⟨c0, c1⟩ := cls_bounds R c j
  have hnt : (0 : ℚ) < (R.nt : ℚ) := by rw [ha.hnt]; exact hn
  refine ⟨⟨by rw [hx]; exact closeQ_self _ _, ?_⟩, ?_⟩
  · rw [hx]; apply div_nonneg _ hnt.le; exact_mod_cast c0
  · rw [hx, div_le_one hnt]; exact_mod_cast c1

/-! ### the `{-1,m,1}` coding -/

theorem meanM1_eq (ha : Agrees R ploidy nv m) (j : Nat) (hj : j < nv) : R.meanM1 j = colMeanM1 (α := ℚ) m j := by
  unfold Raw.meanM1 colMeanM1 col
  rw [ha.hnt, List.map_map, map_eq_range_getD m [] ((fun x => x - 1) ∘ fun r => entry r j)]
  congr 3
  apply List.map_congr_left
  intro i hi
  simp only [Function.comp]
  rw [ha.hones i (List.mem_range.mp hi) j hj]

theorem fmtM1m1_eq_tab (hv : ValidU ploidy nv m) :
    fmtM1m1 (α := ℚ) nv m = tab m.length nv (fun i j => fmtM1m1At (α := ℚ) m (entry (m.getD i []) j) j) := by
  unfold fmtM1m1 tab
  rw [map_eq_range_getD m []]

theorem sound_fM1m1 (hv : ValidU ploidy nv m) (ha : Agrees R ploidy nv m) (t : Tol) :
    clFM1m1 R t (modelU ploidy nv m) = true := by
  unfold clFM1m1 modelU
  simp only
  rw [fmtM1m1_eq_tab hv, ha.hnt, ha.hnv]
  apply matIs_tab
  intro i hi j hj
  rw [ha.hones i hi j hj]
  unfold fmtM1m1At
  by_cases h : entry (m.getD i []) j - 1 = 0
  · have hq : (((entry (m.getD i []) j - 1 : Int) : ℚ) == 0) = true := by rw [h]; simp
    rw [if_pos (by simpa using h), if_pos hq, meanM1_eq ha j hj]
    exact closeQ_self _ _
  · have hq : ¬ ((((entry (m.getD i []) j - 1 : Int) : ℚ) == 0) = true) := by
      simp only [beq_iff_eq]
      exact_mod_cast h
    rw [if_neg (by simpa using h), if_neg hq]
    simp

/-! ### all clauses -/

/-- **spec_sound (one object)**: the outputs of the model pass every clause of the Spec evaluated on raw calls that
    describe its matrix — for every valid matrix, every ploidy, every tolerance ≥ 0 -/
theorem specOne_modelU (hv : ValidU ploidy nv m) (ha : Agrees R ploidy nv m) (t : Tol) (ht : 0 ≤ t.maf) :
    specOne R t {} (modelU ploidy nv m) = [] := by
  unfold specOne
  rw [failing_nil_iff]
  intro x hx
  simp only [checks, List.mem_cons, List.not_mem_nil, or_false] at hx
  rcases hx with rfl | rfl | rfl | rfl | rfl | rfl | rfl | rfl | rfl | rfl | rfl | rfl | rfl | rfl | rfl | rfl | rfl | rfl
  · exact sound_tacount hv ha
  · exact sound_tafreq hv ha t
  · exact sound_acount hv ha
  · exact sound_afreq hv ha t
  · exact sound_unit hv
  · exact sound_one hv ha
  · exact sound_zero hv ha
  · exact sound_afixed hv ha
  · exact sound_apoly hv ha
  · exact sound_compl hv
  · exact sound_maf hv ha t ht
  · exact sound_meh hv ha t
  · exact sound_gtcount hv ha
  · exact sound_gtsum hv ha
  · exact sound_gtfreq hv ha t
  · exact sound_f012 hv ha
  · exact sound_fM101 hv ha
  · exact sound_fM1m1 hv ha t

/-! ### raw-call records of the two classes -/

theorem agrees_rawOfU (ploidy nv : Nat) (m : UMat) : Agrees (rawOfU ploidy nv m) ploidy nv m :=
  ⟨rfl, rfl, rfl, fun _ _ _ _ => rfl⟩

theorem agrees_rawOfP {nt nv : Nat} {G : PMat} (hv : ValidP nt nv G) :
    Agrees (rawOfP nt nv G) G.length nv (psum nt nv G) := by
  refine ⟨(psum_length nt nv G).symm, rfl, rfl, ?_⟩
  intro i hi j hj
  rw [psum_length] at hi
  have h1 : entry ((psum nt nv G).getD i []) j = psumAt G i j := by
    unfold psum entry
    simp [hi, hj]
  rw [h1, psumAt_eq_count hv i j]
  rfl

/-! ### identical answers -/

theorem zip_self_all {β : Type} (f : β → β → Bool) (l : List β) (h : ∀ x ∈ l, f x x = true) :
    (List.zip l l).all (fun x => f x.1 x.2) = true := by
  induction l with
  | nil => rfl
  | cons a t ih =>
    simp only [List.zip_cons_cons, List.all_cons, Bool.and_eq_true]
    exact ⟨h a (by simp), ih (fun x hx => h x (by simp [hx]))⟩

theorem sameF_self (tol a : Rat) : sameF tol a a = true := by
  unfold sameF
  split
  · simp
  · exact closeQ_self tol a

theorem sameVec_self (tol : Rat) (a : List Rat) : sameVec tol a a = true := by
  unfold sameVec
  simp only [beq_self_eq_true, Bool.true_and]
  exact zip_self_all _ a (fun x _ => sameF_self tol x)

theorem sameMat_self (tol : Rat) (a : List (List Rat)) : sameMat tol a a = true := by
  unfold sameMat
  simp only [beq_self_eq_true, Bool.true_and]
  exact zip_self_all _ a (fun x _ => sameVec_self tol x)

/-- an object answers identically to itself -/
theorem specSame_self (t : Tol) (a : Outs) : specSame t a a = [] := by
  unfold specSame
  rw [List.map_eq_nil_iff, failing_nil_iff]
  intro x hx
  simp only [sameChecks, List.mem_cons, List.not_mem_nil, or_false] at hx
  rcases hx with rfl | rfl | rfl | rfl | rfl | rfl | rfl | rfl | rfl | rfl | rfl | rfl | rfl <;>
    first
    | exact beq_self_eq_true _
    | exact sameVec_self _ _
    | exact sameMat_self _ _
    | exact closeQ_self _ _

end GenotypeSpec
