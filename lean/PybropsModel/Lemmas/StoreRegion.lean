/-
What the abstract file holds below one field name after a write / a history of writes.
-/
import PybropsModel.Lemmas.StoreSem

set_option autoImplicit false

namespace Store

/-! ### path arithmetic -/

theorem prefix_of_append_prefix {g : Path} {k : String} {q : Path} (h : (g ++ [k]) <+: q) : g <+: q :=
  (List.prefix_append g [k]).trans h

theorem key_eq_of_prefix {g : Path} {k k' : String} {q : Path}
    (h1 : (g ++ [k]) <+: q) (h2 : (g ++ [k']) <+: q) : k = k' := by
  have hl : (g ++ [k]).length = (g ++ [k']).length := by simp
  have h3 : (g ++ [k]) <+: (g ++ [k']) := List.prefix_of_prefix_length_le h1 h2 (le_of_eq hl)
  have h4 := h3.eq_of_length hl
  simpa using (List.append_cancel_left h4)

theorem comparable_of_prefix {a b q : Path} (h1 : a <+: q) (h2 : b <+: q) : a <+: b ∨ b <+: a :=
  List.prefix_or_prefix_of_prefix h1 h2

/-! ### effects away from the written name -/

theorem upd_other (s : Sem) (p : Path) (d : DS) (q : Path) (h : ¬ p <+: q) : upd s p d q = s q := by
  unfold upd
  have : q ≠ p := fun e => h (e ▸ List.prefix_refl _)
  simp [this, h]

theorem erase_other (s : Sem) (p q : Path) (h : ¬ p <+: q) : erase s p q = s q := by
  simp [erase, h]

theorem erase_below (s : Sem) (p q : Path) (h : p <+: q) : erase s p q = none := by
  simp [erase, h]

theorem semLeaves_other (p : Path) (kvs : List (String × Option DS)) :
    ∀ (s : Sem) (q : Path), ¬ p <+: q → semLeaves p kvs s q = s q := by
  induction kvs with
  | nil => intro s q _; rfl
  | cons kv r ih =>
    intro s q h
    obtain ⟨k, v⟩ := kv
    cases v with
    | none => exact ih s q h
    | some d =>
      show semLeaves p r (upd s (p ++ [k]) d) q = s q
      rw [ih _ q h, upd_other _ _ _ _ (fun hh => h (prefix_of_append_prefix hh))]

/-- the effect of one dictionary entry -/
def itemEffect (fixed : Bool) (g : Path) (k : String) (it : Item) (s : Sem) : Sem :=
  match it with
  | .none => if fixed then erase s (g ++ [k]) else s
  | .data d => upd s (g ++ [k]) d
  | .dict kvs => semLeaves (g ++ [k]) kvs (if fixed then erase s (g ++ [k]) else s)
  | .bad => s

theorem semItems_cons (fixed : Bool) (g : Path) (k : String) (it : Item) (r : Obj) (s : Sem)
    (hb : it ≠ .bad) :
    semItems fixed g ((k, it) :: r) s = semItems fixed g r (itemEffect fixed g k it s) := by
  cases it with
  | bad => exact absurd rfl hb
  | none => rfl
  | data d => rfl
  | dict kvs => rfl

theorem itemEffect_other (fixed : Bool) (g : Path) (k : String) (it : Item) (s : Sem) (q : Path)
    (h : ¬ (g ++ [k]) <+: q) : itemEffect fixed g k it s q = s q := by
  cases it with
  | bad => rfl
  | none =>
    cases fixed
    · rfl
    · exact erase_other s _ q h
  | data d => exact upd_other s _ d q h
  | dict kvs =>
    show semLeaves (g ++ [k]) kvs _ q = s q
    rw [semLeaves_other _ _ _ q h]
    cases fixed
    · rfl
    · exact erase_other s _ q h

def NoBad (o : Obj) : Prop := ∀ kv ∈ o, kv.2 ≠ Item.bad

theorem semItems_other_keys (fixed : Bool) (g : Path) (k0 : String) (q : Path)
    (hq : (g ++ [k0]) <+: q) (r : Obj) :
    ∀ (s : Sem), (∀ kv ∈ r, kv.1 ≠ k0) → semItems fixed g r s q = s q := by
  induction r with
  | nil => intro s _; rfl
  | cons kv r ih =>
    intro s hne
    obtain ⟨k, it⟩ := kv
    have hk : k ≠ k0 := hne (k, it) List.mem_cons_self
    have hr : ∀ kv ∈ r, kv.1 ≠ k0 := fun e he => hne e (List.mem_cons_of_mem _ he)
    by_cases hb : it = .bad
    · subst hb; rfl
    · rw [semItems_cons fixed g k it r s hb, ih _ hr]
      exact itemEffect_other fixed g k it s q (fun h => hk (key_eq_of_prefix h hq))

/-- frame: a write at `g` leaves everything outside `g` alone -/
theorem semItems_frame (fixed : Bool) (g : Path) (q : Path) (hq : ¬ g <+: q) (o : Obj) :
    ∀ (s : Sem), semItems fixed g o s q = s q := by
  induction o with
  | nil => intro s; rfl
  | cons kv r ih =>
    intro s
    obtain ⟨k, it⟩ := kv
    by_cases hb : it = .bad
    · subst hb; rfl
    · rw [semItems_cons fixed g k it r s hb, ih]
      exact itemEffect_other fixed g k it s q (fun h => hq (prefix_of_append_prefix h))

theorem semHist_frame (fixed : Bool) (q : Path) (H : List Write) :
    ∀ (s : Sem), (∀ w ∈ H, ¬ w.g <+: q) → semHist fixed H s q = s q := by
  induction H with
  | nil => intro s _; rfl
  | cons w r ih =>
    intro s h
    show semHist fixed r (semItems fixed w.g w.obj s) q = s q
    rw [ih _ (fun e he => h e (List.mem_cons_of_mem _ he))]
    exact semItems_frame fixed w.g q (h w List.mem_cons_self) w.obj s

theorem semHist_append (fixed : Bool) (H1 H2 : List Write) (s : Sem) :
    semHist fixed (H1 ++ H2) s = semHist fixed H2 (semHist fixed H1 s) := by
  induction H1 generalizing s with
  | nil => rfl
  | cons w r ih => exact ih _

/-! ### pointwise dependence -/

theorem upd_pointwise (s s' : Sem) (p : Path) (d : DS) (q : Path) (h : s q = s' q) :
    upd s p d q = upd s' p d q := by
  unfold upd; rw [h]

theorem erase_pointwise (s s' : Sem) (p q : Path) (h : s q = s' q) : erase s p q = erase s' p q := by
  unfold erase; rw [h]

def leafPathsL (p : Path) (kvs : List (String × Option DS)) : List Path :=
  kvs.filterMap (fun kv => kv.2.map (fun _ => p ++ [kv.1]))

theorem mem_leafPathsL (p : Path) (kvs : List (String × Option DS)) (q : Path) :
    q ∈ leafPathsL p kvs ↔ ∃ k d, (k, some d) ∈ kvs ∧ q = p ++ [k] := by
  unfold leafPathsL
  simp only [List.mem_filterMap, Option.map_eq_some_iff]
  constructor
  · rintro ⟨⟨k, v⟩, hm, d, hd, rfl⟩
    simp only at hd
    subst hd
    exact ⟨k, d, hm, rfl⟩
  · rintro ⟨k, d, hm, rfl⟩
    exact ⟨(k, some d), hm, d, rfl, rfl⟩

/-- the result at `q` depends on the starting file only through its value at `q`, and not at all when
    `q` is one of the leaves written -/
theorem semLeaves_indep (p : Path) (kvs : List (String × Option DS)) (q : Path) :
    ∀ (s s' : Sem), (s q = s' q ∨ q ∈ leafPathsL p kvs) →
      semLeaves p kvs s q = semLeaves p kvs s' q := by
  induction kvs with
  | nil =>
    intro s s' h
    rcases h with h | h
    · exact h
    · simp [leafPathsL] at h
  | cons kv r ih =>
    intro s s' h
    obtain ⟨k, v⟩ := kv
    cases v with
    | none =>
      apply ih
      rcases h with h | h
      · exact Or.inl h
      · right
        rw [mem_leafPathsL] at h ⊢
        obtain ⟨k', d, hm, rfl⟩ := h
        rcases List.mem_cons.mp hm with h1 | h1
        · simp at h1
        · exact ⟨k', d, h1, rfl⟩
    | some d =>
      show semLeaves p r (upd s (p ++ [k]) d) q = semLeaves p r (upd s' (p ++ [k]) d) q
      apply ih
      by_cases hq : q = p ++ [k]
      · left; subst hq; simp [upd]
      · rcases h with h | h
        · exact Or.inl (upd_pointwise s s' _ d q h)
        · right
          rw [mem_leafPathsL] at h ⊢
          obtain ⟨k', d', hm, rfl⟩ := h
          rcases List.mem_cons.mp hm with h1 | h1
          · have : k' = k := by simpa using congrArg Prod.fst h1
            exact absurd (by rw [this]) hq
          · exact ⟨k', d', h1, rfl⟩

theorem semLeaves_pointwise (p : Path) (kvs : List (String × Option DS)) (q : Path) (s s' : Sem)
    (h : s q = s' q) : semLeaves p kvs s q = semLeaves p kvs s' q :=
  semLeaves_indep p kvs q s s' (Or.inl h)

theorem itemEffect_pointwise (fixed : Bool) (g : Path) (k : String) (it : Item) (s s' : Sem) (q : Path)
    (h : s q = s' q) : itemEffect fixed g k it s q = itemEffect fixed g k it s' q := by
  cases it with
  | bad => exact h
  | none =>
    cases fixed
    · exact h
    · exact erase_pointwise s s' _ q h
  | data d => exact upd_pointwise s s' _ d q h
  | dict kvs =>
    apply semLeaves_pointwise
    cases fixed
    · exact h
    · exact erase_pointwise s s' _ q h

/-! ### what one write leaves below a field name -/

/-- contents below `g ++ [k]` after a write in which field `k` carries `it`: patched writer -/
def itemAt (g : Path) (k : String) (it : Item) : Sem :=
  match it with
  | .data d => fun q => if q = g ++ [k] then some d else none
  | .dict kvs => semLeaves (g ++ [k]) kvs (fun _ => none)
  | _ => fun _ => none

/-- the same for the writer as it is: a `None` field keeps what was there, a nested dictionary is
    merged into what was there -/
def itemAtAsIs (g : Path) (k : String) (it : Item) (s : Sem) : Sem :=
  match it with
  | .data d => fun q => if q = g ++ [k] then some d else none
  | .dict kvs => semLeaves (g ++ [k]) kvs s
  | _ => s

theorem itemEffect_fixed_below (g : Path) (k : String) (it : Item) (hb : it ≠ .bad) (s : Sem) (q : Path)
    (hq : (g ++ [k]) <+: q) : itemEffect true g k it s q = itemAt g k it q := by
  cases it with
  | bad => exact absurd rfl hb
  | none => exact erase_below s _ q hq
  | data d =>
    show upd s (g ++ [k]) d q = _
    unfold upd itemAt
    by_cases h : q = g ++ [k]
    · simp [h]
    · simp [h, hq]
  | dict kvs =>
    show semLeaves (g ++ [k]) kvs (erase s (g ++ [k])) q = semLeaves (g ++ [k]) kvs (fun _ => none) q
    exact semLeaves_pointwise _ kvs q _ _ (erase_below s _ q hq)

theorem itemEffect_asis_below (g : Path) (k : String) (it : Item) (hb : it ≠ .bad) (s : Sem) (q : Path)
    (hq : (g ++ [k]) <+: q) : itemEffect false g k it s q = itemAtAsIs g k it s q := by
  cases it with
  | bad => exact absurd rfl hb
  | none => rfl
  | data d =>
    show upd s (g ++ [k]) d q = _
    unfold upd itemAtAsIs
    by_cases h : q = g ++ [k]
    · simp [h]
    · simp [h, hq]
  | dict kvs => rfl

theorem itemAtAsIs_pointwise (g : Path) (k : String) (it : Item) (s s' : Sem) (q : Path)
    (h : s q = s' q) : itemAtAsIs g k it s q = itemAtAsIs g k it s' q := by
  cases it with
  | bad => exact h
  | none => exact h
  | data d => rfl
  | dict kvs => exact semLeaves_pointwise _ kvs q s s' h

def KeysNodup (o : Obj) : Prop := (o.map Prod.fst).Nodup

/-- **patched writer**: after `to_hdf5` the region below every field name of the object holds exactly
    that field, whatever was there before -/
theorem semItems_fixed_region (g : Path) (o : Obj) :
    ∀ (s : Sem), NoBad o → KeysNodup o → ∀ k it, (k, it) ∈ o → ∀ q, (g ++ [k]) <+: q →
      semItems true g o s q = itemAt g k it q := by
  induction o with
  | nil => intro s _ _ k it h; simp at h
  | cons kv r ih =>
    intro s hnb hnd k it hm q hq
    obtain ⟨k0, it0⟩ := kv
    have hb0 : it0 ≠ .bad := hnb (k0, it0) List.mem_cons_self
    have hnbr : NoBad r := fun e he => hnb e (List.mem_cons_of_mem _ he)
    have hnd' : k0 ∉ r.map Prod.fst ∧ KeysNodup r := by
      simpa [KeysNodup] using hnd
    rw [semItems_cons true g k0 it0 r s hb0]
    rcases List.mem_cons.mp hm with h | h
    · have hk : k = k0 := congrArg Prod.fst h
      have hi : it = it0 := congrArg Prod.snd h
      subst hk; subst hi
      rw [semItems_other_keys true g k q hq r _ (fun e he heq => hnd'.1 (heq ▸ List.mem_map_of_mem (f := Prod.fst) he))]
      exact itemEffect_fixed_below g k it hb0 s q hq
    · exact ih _ hnbr hnd'.2 k it h q hq

/-- **writer as is** -/
theorem semItems_asis_region (g : Path) (o : Obj) :
    ∀ (s : Sem), NoBad o → KeysNodup o → ∀ k it, (k, it) ∈ o → ∀ q, (g ++ [k]) <+: q →
      semItems false g o s q = itemAtAsIs g k it s q := by
  induction o with
  | nil => intro s _ _ k it h; simp at h
  | cons kv r ih =>
    intro s hnb hnd k it hm q hq
    obtain ⟨k0, it0⟩ := kv
    have hb0 : it0 ≠ .bad := hnb (k0, it0) List.mem_cons_self
    have hnbr : NoBad r := fun e he => hnb e (List.mem_cons_of_mem _ he)
    have hnd' : k0 ∉ r.map Prod.fst ∧ KeysNodup r := by
      simpa [KeysNodup] using hnd
    rw [semItems_cons false g k0 it0 r s hb0]
    rcases List.mem_cons.mp hm with h | h
    · have hk : k = k0 := congrArg Prod.fst h
      have hi : it = it0 := congrArg Prod.snd h
      subst hk; subst hi
      rw [semItems_other_keys false g k q hq r _ (fun e he heq => hnd'.1 (heq ▸ List.mem_map_of_mem (f := Prod.fst) he))]
      exact itemEffect_asis_below g k it hb0 s q hq
    · rw [ih _ hnbr hnd'.2 k it h q hq]
      apply itemAtAsIs_pointwise
      apply itemEffect_other
      intro hpre
      have : k0 = k := key_eq_of_prefix hpre hq
      exact hnd'.1 (this ▸ List.mem_map_of_mem (f := Prod.fst) h)

/-! ### leaves written by an object; support of the abstract file -/

def leafPaths (g : Path) : Obj → List Path
  | [] => []
  | (k, .data _) :: r => (g ++ [k]) :: leafPaths g r
  | (k, .dict kvs) :: r => leafPathsL (g ++ [k]) kvs ++ leafPaths g r
  | (_, .none) :: r => leafPaths g r
  | (_, .bad) :: _ => []

def itemLeaves (g : Path) (k : String) : Item → List Path
  | .data _ => [g ++ [k]]
  | .dict kvs => leafPathsL (g ++ [k]) kvs
  | _ => []

theorem mem_leafPaths (g : Path) (o : Obj) (hnb : NoBad o) (q : Path) :
    q ∈ leafPaths g o ↔ ∃ k it, (k, it) ∈ o ∧ q ∈ itemLeaves g k it := by
  induction o with
  | nil => simp [leafPaths]
  | cons kv r ih =>
    obtain ⟨k0, it0⟩ := kv
    have hnbr : NoBad r := fun e he => hnb e (List.mem_cons_of_mem _ he)
    have hb0 : it0 ≠ .bad := hnb (k0, it0) List.mem_cons_self
    have step : q ∈ leafPaths g ((k0, it0) :: r) ↔ q ∈ itemLeaves g k0 it0 ∨ q ∈ leafPaths g r := by
      cases it0 with
      | bad => exact absurd rfl hb0
      | none => simp [leafPaths, itemLeaves]
      | data d => simp [leafPaths, itemLeaves]
      | dict kvs => simp [leafPaths, itemLeaves]
    rw [step, ih hnbr]
    constructor
    · rintro (h | ⟨k, it, hm, hq⟩)
      · exact ⟨k0, it0, List.mem_cons_self, h⟩
      · exact ⟨k, it, List.mem_cons_of_mem _ hm, hq⟩
    · rintro ⟨k, it, hm, hq⟩
      rcases List.mem_cons.mp hm with h | h
      · have hk : k = k0 := congrArg Prod.fst h
        have hi : it = it0 := congrArg Prod.snd h
        subst hk; subst hi
        exact Or.inl hq
      · exact Or.inr ⟨k, it, h, hq⟩

theorem itemLeaves_below (g : Path) (k : String) (it : Item) (q : Path) (h : q ∈ itemLeaves g k it) :
    (g ++ [k]) <+: q := by
  cases it with
  | bad => simp [itemLeaves] at h
  | none => simp [itemLeaves] at h
  | data d =>
    have : q = g ++ [k] := by simpa [itemLeaves] using h
    exact this ▸ List.prefix_refl _
  | dict kvs =>
    obtain ⟨k', d, _, rfl⟩ := (mem_leafPathsL _ kvs q).mp h
    exact List.prefix_append _ _

theorem leafPaths_below (g : Path) (o : Obj) (hnb : NoBad o) (q : Path) (h : q ∈ leafPaths g o) :
    g <+: q := by
  obtain ⟨k, it, _, hq⟩ := (mem_leafPaths g o hnb q).mp h
  exact prefix_of_append_prefix (itemLeaves_below g k it q hq)

theorem upd_supp (s : Sem) (p : Path) (d : DS) (q : Path) (h : upd s p d q ≠ none) :
    q = p ∨ s q ≠ none := by
  unfold upd at h
  by_cases hq : q = p
  · exact Or.inl hq
  · right
    by_cases hp : p <+: q
    · simp [hq, hp] at h
    · simpa [hq, hp] using h

theorem semLeaves_supp (p : Path) (kvs : List (String × Option DS)) (q : Path) :
    ∀ (s : Sem), semLeaves p kvs s q ≠ none → s q ≠ none ∨ q ∈ leafPathsL p kvs := by
  induction kvs with
  | nil => intro s h; exact Or.inl h
  | cons kv r ih =>
    intro s h
    obtain ⟨k, v⟩ := kv
    cases v with
    | none =>
      rcases ih s h with h1 | h1
      · exact Or.inl h1
      · right
        rw [mem_leafPathsL] at h1 ⊢
        obtain ⟨k', d, hm, rfl⟩ := h1
        exact ⟨k', d, List.mem_cons_of_mem _ hm, rfl⟩
    | some d =>
      have h' : semLeaves p r (upd s (p ++ [k]) d) q ≠ none := h
      rcases ih _ h' with h1 | h1
      · rcases upd_supp s _ d q h1 with h2 | h2
        · right
          rw [mem_leafPathsL]
          exact ⟨k, d, List.mem_cons_self, h2⟩
        · exact Or.inl h2
      · right
        rw [mem_leafPathsL] at h1 ⊢
        obtain ⟨k', d', hm, rfl⟩ := h1
        exact ⟨k', d', List.mem_cons_of_mem _ hm, rfl⟩

theorem semItems_asis_supp (g : Path) (o : Obj) (q : Path) :
    ∀ (s : Sem), NoBad o → semItems false g o s q ≠ none → s q ≠ none ∨ q ∈ leafPaths g o := by
  induction o with
  | nil => intro s _ h; exact Or.inl h
  | cons kv r ih =>
    intro s hnb h
    obtain ⟨k0, it0⟩ := kv
    have hb0 : it0 ≠ .bad := hnb (k0, it0) List.mem_cons_self
    have hnbr : NoBad r := fun e he => hnb e (List.mem_cons_of_mem _ he)
    rw [semItems_cons false g k0 it0 r s hb0] at h
    rcases ih _ hnbr h with h1 | h1
    · cases it0 with
      | bad => exact absurd rfl hb0
      | none => exact Or.inl h1
      | data d =>
        rcases upd_supp s _ d q h1 with h2 | h2
        · right; simp [leafPaths, h2]
        · exact Or.inl h2
      | dict kvs =>
        rcases semLeaves_supp _ kvs q s h1 with h2 | h2
        · exact Or.inl h2
        · right; simp [leafPaths, h2]
    · right
      cases it0 with
      | bad => exact absurd rfl hb0
      | none => simpa [leafPaths] using h1
      | data d => simp [leafPaths, h1]
      | dict kvs => simp [leafPaths, h1]

theorem semHist_asis_supp (q : Path) (H : List Write) :
    ∀ (s : Sem), (∀ w ∈ H, NoBad w.obj) → semHist false H s q ≠ none →
      s q ≠ none ∨ ∃ w ∈ H, q ∈ leafPaths w.g w.obj := by
  induction H with
  | nil => intro s _ h; exact Or.inl h
  | cons w r ih =>
    intro s hnb h
    have h' : semHist false r (semItems false w.g w.obj s) q ≠ none := h
    rcases ih _ (fun e he => hnb e (List.mem_cons_of_mem _ he)) h' with h1 | ⟨w', hw', hq⟩
    · rcases semItems_asis_supp w.g w.obj q s (hnb w List.mem_cons_self) h1 with h2 | h2
      · exact Or.inl h2
      · exact Or.inr ⟨w, List.mem_cons_self, h2⟩
    · exact Or.inr ⟨w', List.mem_cons_of_mem _ hw', hq⟩

/-- as-is writer, when nothing but leaves of the object itself can be present below the name:
    the region is what the patched writer would leave -/
theorem itemAtAsIs_covered (g : Path) (o : Obj) (hnb : NoBad o) (hnd : KeysNodup o)
    (k : String) (it : Item) (hm : (k, it) ∈ o) (s : Sem) (q : Path) (hq : (g ++ [k]) <+: q)
    (hcov : s q ≠ none → q ∈ leafPaths g o) :
    itemAtAsIs g k it s q = itemAt g k it q := by
  -- a leaf of `o` below `g ++ [k]` is a leaf of the item stored under `k`
  have hloc : s q ≠ none → q ∈ itemLeaves g k it := by
    intro hs
    obtain ⟨k', it', hm', hq'⟩ := (mem_leafPaths g o hnb q).mp (hcov hs)
    have hk : k' = k := key_eq_of_prefix (itemLeaves_below g k' it' q hq') hq
    subst hk
    have : it' = it := by
      by_contra hne
      have h1 : (o.map Prod.fst).Nodup := hnd
      obtain ⟨i, hi, e1⟩ := List.mem_iff_getElem.mp hm'
      obtain ⟨j, hj, e2⟩ := List.mem_iff_getElem.mp hm
      have hij : i = j := by
        have := (List.nodup_iff_injective_getElem.mp h1)
        have h3 : (⟨i, by simpa using hi⟩ : Fin (o.map Prod.fst).length) = ⟨j, by simpa using hj⟩ := by
          apply this
          simp [e1, e2]
        simpa using congrArg Fin.val h3
      subst hij
      rw [e1] at e2
      exact hne (congrArg Prod.snd e2)
    exact this ▸ hq'
  cases it with
  | bad => exact absurd rfl (hnb _ hm)
  | data d => rfl
  | none =>
    show s q = none
    by_contra hs
    simpa [itemLeaves] using hloc hs
  | dict kvs =>
    show semLeaves (g ++ [k]) kvs s q = semLeaves (g ++ [k]) kvs (fun _ => none) q
    apply semLeaves_indep
    by_cases hs : s q = none
    · exact Or.inl hs
    · exact Or.inr (by simpa [itemLeaves] using hloc hs)

end Store
