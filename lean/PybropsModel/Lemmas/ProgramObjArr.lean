/-
C20 — helper definitions for the dtype / aliasing class "a start container whose TOP-LEVEL value is a numpy
array of dtype=object with mutable elements" (Props/C20.lean: `object_array_shallow_copy_counterexample`).

In the heap model such an array is an ordinary cell (data `[-4]`) whose references are its elements, so
every theorem of Props/C20.lean (stated for ALL heaps) covers it: `copy.deepcopy` = `deepCopyAll` copies the
elements too.  A copy `{k: v.copy() for k, v in start.items()}` (`ndarray.copy()` — also what a helper
"v.copy() if isinstance(v, numpy.ndarray) else copy.deepcopy(v)" amounts to on a container whose other
values are flat) is `levelCopy 2`: the dict and the array of references are new, the elements are shared.
-/
import PybropsModel.Lemmas.ProgramScripted
import PybropsModel.Lemmas.ProgramKeep
set_option autoImplicit false

namespace Program
namespace Demo
open Drv.C20

/-- `start_genome = {"h": [1], "k1": a}` with `a = numpy.empty(2, dtype=object)`, `a[0] = [7]` (a ragged
    record list), `a[1] = numpy.array([8, 9])` (a marker vector); the other four containers are flat -/
def objArrHeap : Heap (Cell D) :=
  [⟨dictD, [1, 2]⟩, ⟨[1], []⟩, ⟨[-4], [3, 4]⟩, ⟨[7], []⟩, ⟨[-7, 8, 9], []⟩,
   ⟨dictD, [6]⟩, ⟨[2], []⟩, ⟨dictD, [8]⟩, ⟨[3], []⟩, ⟨dictD, [10]⟩, ⟨[4], []⟩, ⟨dictD, [12]⟩, ⟨[5], []⟩]

/-- the first evaluation edits both ELEMENTS of the object array it is handed in place
    (`rec.append(101)`, `h[-1] = 102`); every other call is pure -/
def objArrScript : Script :=
  [⟨"op:evaluate", [none, none, none, none, none, none], [.arg 0, .arg 1, .arg 2, .arg 3, .arg 4],
    [(0, [1, 0], 101), (0, [1, 1], 102)], []⟩]

def objArrState : State OSt D :=
  { heap := objArrHeap, n0 := 13, regs := fun _ => none, start := [some 0, some 5, some 7, some 9, some 11],
    t := 0, rep := 0, ngen := none, ost := ⟨objArrScript, []⟩, trace := [], bad := false }

def objArrRun (sc : Schedule) : State OSt D :=
  evolve scripted ⟨2, some 1, 9, true, dictD, 5⟩ sc objArrState

/-- does the run of 2 replicates x 1 generation meet the COMPLETE oracle the driver evaluates? -/
def objArrRunOK (sc : Schedule) : Bool :=
  specEvolveCall sameOrEqual 2 1 true (startVals 5 objArrState.heap objArrState.start) (objArrRun sc).trace
    (startVals 5 (objArrRun sc).heap (objArrRun sc).start) objArrState.rep (objArrRun sc).rep
    objArrState.t (objArrRun sc).t

end Demo
end Program
