/-
Gauss–Seidel as coordinate descent, function form (vectors are `ℕ → α`, sums over `range n`).

  energy n A b x        = ½ xᵀAx − bᵀx
  resid n A b x k       = (b − A x)_k
  coordUpd n A b x k    = x with coordinate k replaced by (b_k − Σ_{j≠k} A_kj x_j) / A_kk
  sweepFn n A b x       = coordinate updates k = 0 … n−1 in order

Main facts (A symmetric, positive diagonal):
  energy_coordUpd       one update lowers the energy by ½ resid² / A_kk
  energy_sweep_le       a sweep never raises the energy
  sweep_resid           after a sweep, (b − A x')_i = Σ_{i<j<n} A_ij (x_j − x'_j)
-/
import Mathlib.Tactic
import Mathlib.Algebra.BigOperators.Ring.Finset
import Mathlib.Algebra.Order.BigOperators.Group.Finset
set_option autoImplicit false
set_option linter.unusedSectionVars false
set_option linter.unusedSimpArgs false
set_option linter.unusedVariables false

namespace GSFn
open Finset BigOperators

variable {α : Type} [Field α] [LinearOrder α] [IsStrictOrderedRing α]

def energy (n : ℕ) (A : ℕ → ℕ → α) (b x : ℕ → α) : α :=
  (1/2) * ∑ i ∈ range n, ∑ j ∈ range n, A i j * x i * x j - ∑ i ∈ range n, b i * x i

def resid (n : ℕ) (A : ℕ → ℕ → α) (b x : ℕ → α) (k : ℕ) : α := b k - ∑ j ∈ range n, A k j * x j

/-- x + t·e_k -/
def bump (x : ℕ → α) (k : ℕ) (t : α) : ℕ → α := fun i => x i + (if i = k then t else 0)

theorem sum_mul_delta (n : ℕ) (g : ℕ → α) (k : ℕ) (hk : k < n) (t : α) :
    ∑ j ∈ range n, g j * (if j = k then t else 0) = g k * t := by
  simp [mul_ite, Finset.sum_ite_eq', hk]

theorem energy_bump (n : ℕ) (A : ℕ → ℕ → α) (hA : ∀ i j, i < n → j < n → A i j = A j i) (b x : ℕ → α)
    (k : ℕ) (hk : k < n) (t : α) :
    energy n A b (bump x k t) = energy n A b x - t * resid n A b x k + (1/2) * A k k * t^2 := by
  unfold energy resid bump
  set δ : ℕ → α := fun i => if i = k then t else 0 with hδ
  have hq : ∑ i ∈ range n, ∑ j ∈ range n, A i j * (x i + δ i) * (x j + δ j)
      = ∑ i ∈ range n, ∑ j ∈ range n, A i j * x i * x j + (∑ i ∈ range n, A i k * x i) * t
        + (∑ j ∈ range n, A k j * x j) * t + A k k * t * t := by
    have e : ∀ i j, A i j * (x i + δ i) * (x j + δ j)
        = A i j * x i * x j + (A i j * x i) * δ j + (A i j * x j) * δ i + (A i j * δ i) * δ j := by
      intro i j; ring
    simp only [e, Finset.sum_add_distrib]
    have t1 : ∑ i ∈ range n, ∑ j ∈ range n, (A i j * x i) * δ j = (∑ i ∈ range n, A i k * x i) * t := by
      rw [Finset.sum_mul]
      apply Finset.sum_congr rfl
      intro i _
      exact sum_mul_delta n (fun j => A i j * x i) k hk t
    have t2 : ∑ i ∈ range n, ∑ j ∈ range n, (A i j * x j) * δ i = (∑ j ∈ range n, A k j * x j) * t := by
      rw [Finset.sum_comm, Finset.sum_mul]
      apply Finset.sum_congr rfl
      intro j _
      exact sum_mul_delta n (fun i => A i j * x j) k hk t
    have t3 : ∑ i ∈ range n, ∑ j ∈ range n, (A i j * δ i) * δ j = A k k * t * t := by
      have : ∀ i, ∑ j ∈ range n, (A i j * δ i) * δ j = (A i k * t) * δ i := by
        intro i
        rw [sum_mul_delta n (fun j => A i j * δ i) k hk t]
        ring
      simp only [this]
      rw [sum_mul_delta n (fun i => A i k * t) k hk t]
    rw [t1, t2, t3]
  have hl : ∑ i ∈ range n, b i * (x i + δ i) = ∑ i ∈ range n, b i * x i + b k * t := by
    simp only [mul_add, Finset.sum_add_distrib]
    rw [sum_mul_delta n b k hk t]
  have hsym : ∑ i ∈ range n, A i k * x i = ∑ j ∈ range n, A k j * x j := by
    apply Finset.sum_congr rfl
    intro i hi
    rw [hA i k (Finset.mem_range.mp hi) hk]
  rw [hq, hl, hsym]
  ring

/-- the Gauss–Seidel value of coordinate k: `(b_k − Σ_{j≠k} A_kj x_j) / A_kk` -/
def gsVal (n : ℕ) (A : ℕ → ℕ → α) (b x : ℕ → α) (k : ℕ) : α :=
  (b k - ∑ j ∈ (range n).erase k, A k j * x j) / A k k

def coordUpd (n : ℕ) (A : ℕ → ℕ → α) (b x : ℕ → α) (k : ℕ) : ℕ → α :=
  Function.update x k (gsVal n A b x k)

theorem gsVal_eq (n : ℕ) (A : ℕ → ℕ → α) (b x : ℕ → α) (k : ℕ) (hk : k < n) (hd : A k k ≠ 0) :
    gsVal n A b x k = x k + resid n A b x k / A k k := by
  unfold gsVal resid
  have := Finset.add_sum_erase (range n) (fun j => A k j * x j) (Finset.mem_range.mpr hk)
  field_simp
  linear_combination (-1 : α) * this

theorem coordUpd_eq_bump (n : ℕ) (A : ℕ → ℕ → α) (b x : ℕ → α) (k : ℕ) (hk : k < n) (hd : A k k ≠ 0) :
    coordUpd n A b x k = bump x k (resid n A b x k / A k k) := by
  funext i
  unfold coordUpd bump
  by_cases h : i = k
  · subst h; simp [gsVal_eq n A b x i hk hd]
  · simp [Function.update_of_ne h, h]

/-- one Gauss–Seidel coordinate update lowers the energy by ½ resid² / A_kk -/
theorem energy_coordUpd (n : ℕ) (A : ℕ → ℕ → α) (hA : ∀ i j, i < n → j < n → A i j = A j i) (b x : ℕ → α)
    (k : ℕ) (hk : k < n) (hd : 0 < A k k) :
    energy n A b (coordUpd n A b x k) = energy n A b x - (1/2) * (resid n A b x k)^2 / A k k := by
  rw [coordUpd_eq_bump n A b x k hk hd.ne', energy_bump n A hA b x k hk]
  field_simp
  ring

theorem energy_coordUpd_le (n : ℕ) (A : ℕ → ℕ → α) (hA : ∀ i j, i < n → j < n → A i j = A j i) (b x : ℕ → α)
    (k : ℕ) (hk : k < n) (hd : 0 < A k k) :
    energy n A b (coordUpd n A b x k) ≤ energy n A b x := by
  rw [energy_coordUpd n A hA b x k hk hd]
  have : 0 ≤ (1/2) * (resid n A b x k)^2 / A k k := by positivity
  linarith

/-- coordinate updates along a list of indices -/
def updAlong (n : ℕ) (A : ℕ → ℕ → α) (b : ℕ → α) (ks : List ℕ) (x : ℕ → α) : ℕ → α :=
  ks.foldl (coordUpd n A b) x

def sweepFn (n : ℕ) (A : ℕ → ℕ → α) (b x : ℕ → α) : ℕ → α := updAlong n A b (List.range n) x

theorem energy_updAlong_le (n : ℕ) (A : ℕ → ℕ → α) (hA : ∀ i j, i < n → j < n → A i j = A j i)
    (hd : ∀ i, i < n → 0 < A i i) (b : ℕ → α) (ks : List ℕ) (hks : ∀ k ∈ ks, k < n) (x : ℕ → α) :
    energy n A b (updAlong n A b ks x) ≤ energy n A b x := by
  induction ks generalizing x with
  | nil => simp [updAlong]
  | cons k ks ih =>
    have hk : k < n := hks k (by simp)
    have := ih (fun k' hk' => hks k' (by simp [hk'])) (coordUpd n A b x k)
    calc energy n A b (updAlong n A b (k :: ks) x)
        = energy n A b (updAlong n A b ks (coordUpd n A b x k)) := by simp [updAlong]
      _ ≤ energy n A b (coordUpd n A b x k) := this
      _ ≤ energy n A b x := energy_coordUpd_le n A hA b x k hk (hd k hk)

/-- **a Gauss–Seidel sweep never raises the energy** -/
theorem energy_sweep_le (n : ℕ) (A : ℕ → ℕ → α) (hA : ∀ i j, i < n → j < n → A i j = A j i)
    (hd : ∀ i, i < n → 0 < A i i) (b x : ℕ → α) :
    energy n A b (sweepFn n A b x) ≤ energy n A b x :=
  energy_updAlong_le n A hA hd b (List.range n) (fun k hk => List.mem_range.mp hk) x

theorem energy_zero (n : ℕ) (A : ℕ → ℕ → α) (b : ℕ → α) : energy n A b (fun _ => 0) = 0 := by
  simp [energy]

/-! ### the residual after a sweep -/

/-- sweeping the first `m` coordinates -/
def partialSweep (n : ℕ) (A : ℕ → ℕ → α) (b x : ℕ → α) (m : ℕ) : ℕ → α := updAlong n A b (List.range m) x

theorem partialSweep_succ (n : ℕ) (A : ℕ → ℕ → α) (b x : ℕ → α) (m : ℕ) :
    partialSweep n A b x (m+1) = coordUpd n A b (partialSweep n A b x m) m := by
  unfold partialSweep updAlong
  rw [List.range_succ, List.foldl_append]
  rfl

/-- coordinates not yet visited are unchanged -/
theorem partialSweep_ge (n : ℕ) (A : ℕ → ℕ → α) (b x : ℕ → α) (m j : ℕ) (hj : m ≤ j) :
    partialSweep n A b x m j = x j := by
  induction m with
  | zero => simp [partialSweep, updAlong]
  | succ m ih =>
    rw [partialSweep_succ]
    unfold coordUpd
    rw [Function.update_of_ne (by omega)]
    exact ih (by omega)

/-- coordinates already visited keep their value for the rest of the sweep -/
theorem partialSweep_stable (n : ℕ) (A : ℕ → ℕ → α) (b x : ℕ → α) (i m : ℕ) (hm : i < m) :
    partialSweep n A b x m i = partialSweep n A b x (i+1) i := by
  induction m with
  | zero => omega
  | succ m ih =>
    by_cases h : i = m
    · subst h; rfl
    · rw [partialSweep_succ]
      unfold coordUpd
      rw [Function.update_of_ne h]
      exact ih (by omega)

theorem sweepFn_eq (n : ℕ) (A : ℕ → ℕ → α) (b x : ℕ → α) : sweepFn n A b x = partialSweep n A b x n := rfl

/-- the value written at coordinate i satisfies row i of the system with the *mixed* vector
    (new values before i, old values after i) -/
theorem sweep_row (n : ℕ) (A : ℕ → ℕ → α) (b x : ℕ → α) (i : ℕ) (hi : i < n) (hd : A i i ≠ 0) :
    A i i * sweepFn n A b x i
      = b i - ∑ j ∈ (range n).erase i, A i j * (if j < i then sweepFn n A b x j else x j) := by
  have hx' : sweepFn n A b x i = gsVal n A b (partialSweep n A b x i) i := by
    rw [sweepFn_eq, partialSweep_stable n A b x i n hi, partialSweep_succ]
    simp [coordUpd]
  rw [hx']
  unfold gsVal
  rw [mul_div_cancel₀ _ hd]
  congr 1
  apply Finset.sum_congr rfl
  intro j hj
  have hjn : j < n := Finset.mem_range.mp (Finset.mem_of_mem_erase hj)
  have hji : j ≠ i := Finset.ne_of_mem_erase hj
  by_cases h : j < i
  · simp only [h, if_true]
    rw [sweepFn_eq, partialSweep_stable n A b x j n hjn]
    have : partialSweep n A b x i j = partialSweep n A b x (j+1) j := by
      rcases Nat.lt_or_ge (j+1) i with h2 | h2
      · exact partialSweep_stable n A b x j i h
      · have : i = j + 1 := by omega
        rw [this]
    rw [this]
  · simp only [h, if_false]
    rw [partialSweep_ge n A b x i j (by omega)]

/-- **residual identity**: after a sweep, `(b − A x')_i = Σ_{i<j<n} A_ij (x_j − x'_j)` -/
theorem sweep_resid (n : ℕ) (A : ℕ → ℕ → α) (b x : ℕ → α) (i : ℕ) (hi : i < n) (hd : A i i ≠ 0) :
    resid n A b (sweepFn n A b x) i
      = ∑ j ∈ range n, if i < j then A i j * (x j - sweepFn n A b x j) else 0 := by
  have hrow := sweep_row n A b x i hi hd
  unfold resid
  have hsplit := Finset.add_sum_erase (range n) (fun j => A i j * sweepFn n A b x j) (Finset.mem_range.mpr hi)
  have hsplit2 := Finset.add_sum_erase (range n)
      (fun j => if i < j then A i j * (x j - sweepFn n A b x j) else 0) (Finset.mem_range.mpr hi)
  simp only [lt_irrefl, if_false, zero_add] at hsplit2
  rw [← hsplit, ← hsplit2]
  have : ∑ j ∈ (range n).erase i, (if i < j then A i j * (x j - sweepFn n A b x j) else 0)
      = ∑ j ∈ (range n).erase i, A i j * (if j < i then sweepFn n A b x j else x j)
        - ∑ j ∈ (range n).erase i, A i j * sweepFn n A b x j := by
    rw [← Finset.sum_sub_distrib]
    apply Finset.sum_congr rfl
    intro j hj
    have hji : j ≠ i := Finset.ne_of_mem_erase hj
    by_cases h : i < j
    · have h' : ¬ j < i := by omega
      simp only [h, h', if_true, if_false]; ring
    · have h' : j < i := by omega
      simp only [h, h', if_true, if_false]; ring
  rw [this]
  linear_combination (-1 : α) * hrow

/-- if a sweep moves no coordinate by more than `tol`, every residual is at most
    `tol · Σ_{i<j} |A_ij|` -/
theorem sweep_resid_bound (n : ℕ) (A : ℕ → ℕ → α) (b x : ℕ → α) (tol : α)
    (hmove : ∀ j, j < n → |sweepFn n A b x j - x j| ≤ tol)
    (i : ℕ) (hi : i < n) (hd : A i i ≠ 0) :
    |resid n A b (sweepFn n A b x) i| ≤ tol * ∑ j ∈ range n, if i < j then |A i j| else 0 := by
  rw [sweep_resid n A b x i hi hd, Finset.mul_sum]
  refine (Finset.abs_sum_le_sum_abs _ _).trans ?_
  apply Finset.sum_le_sum
  intro j hj
  have hjn : j < n := Finset.mem_range.mp hj
  by_cases h : i < j
  · simp only [h, if_true, abs_mul]
    rw [mul_comm, abs_sub_comm]
    exact mul_le_mul_of_nonneg_right (hmove j hjn) (abs_nonneg _)
  · simp [h]

/-- a sweep that moves nothing has found an exact solution -/
theorem sweep_fixed_solves (n : ℕ) (A : ℕ → ℕ → α) (b x : ℕ → α)
    (hfix : ∀ j, j < n → sweepFn n A b x j = x j) (i : ℕ) (hi : i < n) (hd : A i i ≠ 0) :
    resid n A b (sweepFn n A b x) i = 0 := by
  have := sweep_resid_bound n A b x 0 (fun j hj => by simp [hfix j hj]) i hi hd
  simpa using this

end GSFn
