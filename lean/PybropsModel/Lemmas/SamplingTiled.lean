/-
Helper lemmas for C17, tiled_choice: unpacking of the model's validation and the count of an option in
`qu` whole tiles plus a duplicate-free remainder.
-/
import PybropsModel.Lemmas.SamplingBasic
set_option autoImplicit false

namespace Sampling

theorem tiledIdx_false_ok_iff (noption nsample : Nat) (draw perm idx : List Nat) :
    tiledIdx noption nsample false draw perm = .ok idx ↔
      (noption ≠ 0 ∧ draw.length = nsample % noption ∧ (∀ i ∈ draw, i < noption) ∧ draw.Nodup ∧
       perm.Perm (List.range nsample) ∧
       idx = applyPerm perm (Np.tile (nsample / noption) (List.range noption) ++ draw)) := by
  unfold tiledIdx
  simp only [Bool.false_eq_true, if_false]
  split_ifs with h0 h1 h2
  · constructor
    · intro h; cases h
    · rintro ⟨h, _⟩; exact absurd h0 h
  · rw [isPerm_iff] at h2
    constructor
    · intro h; injection h with h; exact ⟨h0, h1.1, h1.2.1, h1.2.2, h2, h.symm⟩
    · rintro ⟨_, _, _, _, _, rfl⟩; rfl
  · rw [isPerm_iff] at h2
    constructor
    · intro h; cases h
    · rintro ⟨_, _, _, _, h, _⟩; exact absurd h h2
  · constructor
    · intro h; cases h
    · rintro ⟨_, a, b, c, _⟩; exact absurd ⟨a, b, c⟩ h1

theorem tiledIdx_true_ok_iff (noption nsample : Nat) (draw perm idx : List Nat) :
    tiledIdx noption nsample true draw perm = .ok idx ↔
      (draw.length = nsample ∧ (∀ i ∈ draw, i < noption) ∧ idx = draw) := by
  unfold tiledIdx
  simp only [if_true]
  split_ifs with h1
  · constructor
    · intro h; injection h with h; exact ⟨h1.1, h1.2, h.symm⟩
    · rintro ⟨_, _, rfl⟩; rfl
  · constructor
    · intro h; cases h
    · rintro ⟨a, b, _⟩; exact absurd ⟨a, b⟩ h1

theorem tiledChoice_ok_iff {β : Type} (a : List β) (size : List Nat) (replace : Bool) (draw perm : List Nat)
    (out : List β) :
    tiledChoice a size replace draw perm = .ok out ↔
      ∃ idx, tiledIdx a.length size.prod replace draw perm = .ok idx ∧ out = Np.take idx a := by
  unfold tiledChoice
  cases h : tiledIdx a.length size.prod replace draw perm with
  | error e => simp
  | ok idx =>
    simp only [Except.ok.injEq, exists_eq_left']
    exact eq_comm

theorem tile_length {β : Type} (q : Nat) (l : List β) : (Np.tile q l).length = q * l.length := by
  unfold Np.tile
  induction q with
  | zero => simp
  | succ q ih => rw [List.replicate_succ, List.flatten_cons, List.length_append, ih]; ring

theorem tile_count {β : Type} [DecidableEq β] (q : Nat) (l : List β) (x : β) :
    (Np.tile q l).count x = q * l.count x := by
  unfold Np.tile
  induction q with
  | zero => simp
  | succ q ih => rw [List.replicate_succ, List.flatten_cons, List.count_append, ih]; ring

theorem tile_mem {β : Type} (q : Nat) (l : List β) (x : β) (h : x ∈ Np.tile q l) : x ∈ l := by
  unfold Np.tile at h
  obtain ⟨l', hl', hx⟩ := List.mem_flatten.mp h
  rw [List.eq_of_mem_replicate hl'] at hx
  exact hx

theorem count_range (n i : Nat) : (List.range n).count i = if i < n then 1 else 0 := by
  split_ifs with h
  · exact List.count_eq_one_of_mem List.nodup_range (List.mem_range.mpr h)
  · exact List.count_eq_zero_of_not_mem (fun hm => h (List.mem_range.mp hm))

theorem count_nodup (l : List Nat) (hl : l.Nodup) (i : Nat) : l.count i = if i ∈ l then 1 else 0 := by
  split_ifs with h
  · exact List.count_eq_one_of_mem hl h
  · exact List.count_eq_zero_of_not_mem h

/-- an option is used once per tile, plus once more iff it was drawn for the remainder -/
theorem tiled_count (noption nsample : Nat) (draw perm idx : List Nat)
    (h : tiledIdx noption nsample false draw perm = .ok idx) (i : Nat) (hi : i < noption) :
    idx.count i = nsample / noption + (if i ∈ draw then 1 else 0) := by
  obtain ⟨_, hlen, hlt, hnd, hperm, rfl⟩ := (tiledIdx_false_ok_iff noption nsample draw perm idx).mp h
  have hl : (Np.tile (nsample / noption) (List.range noption) ++ draw).length = nsample := by
    rw [List.length_append, tile_length, List.length_range, hlen]
    exact Nat.div_add_mod' nsample noption
  rw [(applyPerm_perm perm _ (by rw [hl]; exact hperm)).count_eq, List.count_append, tile_count,
    count_range, if_pos hi, count_nodup draw hnd, mul_one]

theorem tiled_length (noption nsample : Nat) (draw perm idx : List Nat)
    (h : tiledIdx noption nsample false draw perm = .ok idx) : idx.length = nsample := by
  obtain ⟨_, hlen, _, _, hperm, rfl⟩ := (tiledIdx_false_ok_iff noption nsample draw perm idx).mp h
  have hl : (Np.tile (nsample / noption) (List.range noption) ++ draw).length = nsample := by
    rw [List.length_append, tile_length, List.length_range, hlen]
    exact Nat.div_add_mod' nsample noption
  rw [applyPerm_length perm _ (by rw [hl]; exact hperm), hl]

theorem tiled_mem (noption nsample : Nat) (draw perm idx : List Nat)
    (h : tiledIdx noption nsample false draw perm = .ok idx) : ∀ i ∈ idx, i < noption := by
  obtain ⟨_, hlen, hlt, _, hperm, rfl⟩ := (tiledIdx_false_ok_iff noption nsample draw perm idx).mp h
  have hl : (Np.tile (nsample / noption) (List.range noption) ++ draw).length = nsample := by
    rw [List.length_append, tile_length, List.length_range, hlen]
    exact Nat.div_add_mod' nsample noption
  intro i hi
  have := (applyPerm_perm perm _ (by rw [hl]; exact hperm)).mem_iff.mp hi
  rcases List.mem_append.mp this with h1 | h1
  · exact List.mem_range.mp (tile_mem _ _ _ h1)
  · exact hlt i h1

/-- the options used one more time than the others are exactly the `re` options of the remainder draw -/
theorem tiled_extra (noption : Nat) (draw : List Nat) (hlt : ∀ i ∈ draw, i < noption) (hnd : draw.Nodup) :
    ((List.range noption).filter (fun i => decide (i ∈ draw))).length = draw.length := by
  apply List.Perm.length_eq
  rw [List.perm_ext_iff_of_nodup (List.nodup_range.filter _) hnd]
  intro i
  simp only [List.mem_filter, List.mem_range, decide_eq_true_eq]
  exact ⟨fun h => h.2, fun h => ⟨hlt i h, h⟩⟩

end Sampling
