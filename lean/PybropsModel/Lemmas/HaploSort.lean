/-
Helper lemmas for C18 (9): the genotype-builder and OHV-subset latent functions.
* `Np.stableSort` with `≤` / `≥` on a linear order: a sorted permutation, unique;
* the last `k` entries of an ascending list carry the largest sum any `k`-element sub-multiset can have;
* ascending-sort-then-drop (the code) = descending-sort-then-take (the Spec clause `gb_def`).
-/
import PybropsModel.Lemmas.HaploValue
set_option autoImplicit false
set_option linter.unusedSectionVars false

namespace Haplo

section sort
variable {K : Type}

theorem insertSorted_perm (le : K → K → Bool) (a : K) (l : List K) : (Np.insertSorted le a l).Perm (a :: l) := by
  induction l with
  | nil => simp [Np.insertSorted]
  | cons b l ih =>
    simp only [Np.insertSorted]
    split
    · exact (List.Perm.cons b ih).trans (List.Perm.swap a b l)
    · exact List.Perm.refl _

theorem foldl_insertSorted_perm (le : K → K → Bool) (l acc : List K) :
    (l.foldl (fun acc a => Np.insertSorted le a acc) acc).Perm (l ++ acc) := by
  induction l generalizing acc with
  | nil => simp
  | cons a l ih =>
    simp only [List.foldl_cons]
    refine (ih _).trans ?_
    refine (List.Perm.append_left l (insertSorted_perm le a acc)).trans ?_
    simp only [List.cons_append]
    exact List.perm_middle

theorem stableSort_perm (le : K → K → Bool) (l : List K) : (Np.stableSort le l).Perm l := by
  simpa [Np.stableSort] using foldl_insertSorted_perm le l []

theorem insertSorted_pairwise (le : K → K → Bool) (htot : ∀ a b, le a b = true ∨ le b a = true)
    (htrans : ∀ a b c, le a b = true → le b c = true → le a c = true) (a : K) (l : List K)
    (hl : l.Pairwise (fun x y => le x y = true)) : (Np.insertSorted le a l).Pairwise (fun x y => le x y = true) := by
  induction l with
  | nil => simp [Np.insertSorted]
  | cons b l ih =>
    rw [List.pairwise_cons] at hl
    simp only [Np.insertSorted]
    split
    · rename_i hba
      rw [List.pairwise_cons]
      refine ⟨?_, ih hl.2⟩
      intro x hx
      rcases List.mem_cons.mp ((insertSorted_perm le a l).mem_iff.mp hx) with rfl | hx
      · exact hba
      · exact hl.1 x hx
    · rename_i hba
      have hab : le a b = true := by
        rcases htot a b with h | h
        · exact h
        · exact absurd h hba
      rw [List.pairwise_cons]
      refine ⟨?_, List.pairwise_cons.mpr hl⟩
      intro x hx
      rcases List.mem_cons.mp hx with rfl | hx
      · exact hab
      · exact htrans _ _ _ hab (hl.1 x hx)

theorem stableSort_pairwise (le : K → K → Bool) (htot : ∀ a b, le a b = true ∨ le b a = true)
    (htrans : ∀ a b c, le a b = true → le b c = true → le a c = true) (l : List K) :
    (Np.stableSort le l).Pairwise (fun x y => le x y = true) := by
  have : ∀ (l acc : List K), acc.Pairwise (fun x y => le x y = true) →
      (l.foldl (fun acc a => Np.insertSorted le a acc) acc).Pairwise (fun x y => le x y = true) := by
    intro l
    induction l with
    | nil => intro acc h; simpa using h
    | cons a l ih => intro acc h; exact ih _ (insertSorted_pairwise le htot htrans a acc h)
  exact this l [] List.Pairwise.nil

end sort

section order
variable {α : Type} [LinearOrder α]

/-- `numpy.sort` (ascending) -/
def sortAsc (l : List α) : List α := Np.stableSort (fun a c => decide (a ≤ c)) l
/-- descending sort (used by the Spec clause) -/
def sortDesc (l : List α) : List α := Np.stableSort (fun a c => decide (c ≤ a)) l

theorem sortAsc_perm (l : List α) : (sortAsc l).Perm l := stableSort_perm _ l
theorem sortDesc_perm (l : List α) : (sortDesc l).Perm l := stableSort_perm _ l

theorem sortAsc_sorted (l : List α) : (sortAsc l).Pairwise (· ≤ ·) := by
  have := stableSort_pairwise (fun a c : α => decide (a ≤ c))
    (fun a b => by rcases le_total a b with h | h <;> simp [h])
    (fun a b c h1 h2 => by simp only [decide_eq_true_eq] at *; exact le_trans h1 h2) l
  exact this.imp (fun h => by simpa using h)

theorem sortDesc_sorted (l : List α) : (sortDesc l).Pairwise (· ≥ ·) := by
  have := stableSort_pairwise (fun a c : α => decide (c ≤ a))
    (fun a b => by rcases le_total a b with h | h <;> simp [h])
    (fun a b c h1 h2 => by simp only [decide_eq_true_eq] at *; exact le_trans h2 h1) l
  exact this.imp (fun h => by simpa using h)

/-- the descending sort is the reverse of the ascending sort -/
theorem sortDesc_eq_reverse (l : List α) : sortDesc l = (sortAsc l).reverse := by
  apply List.Perm.eq_of_pairwise (le := fun x y : α => x ≥ y)
  · intro a b _ _ h1 h2; exact le_antisymm h2 h1
  · exact sortDesc_sorted l
  · rw [List.pairwise_reverse]; exact (sortAsc_sorted l).imp (fun h => h)
  · exact (sortDesc_perm l).trans ((List.reverse_perm _).trans (sortAsc_perm l)).symm

end order

section topk
variable {α : Type} [Field α] [LinearOrder α] [IsStrictOrderedRing α]

/-- in an ascending list the last `k` entries out-sum every sublist of length `k` -/
theorem sublist_sum_le_drop (S s : List α) (hS : S.Pairwise (· ≤ ·)) (hs : s.Sublist S) :
    s.sum ≤ (S.drop (S.length - s.length)).sum := by
  induction hs with
  | slnil => simp
  | @cons s' S' a hsub ih =>
    have hS' := (List.pairwise_cons.mp hS).2
    have hle : s'.length ≤ S'.length := hsub.length_le
    have : (a :: S').length - s'.length = (S'.length - s'.length) + 1 := by simp only [List.length_cons]; omega
    rw [this, List.drop_succ_cons]
    exact ih hS'
  | @cons_cons s' S' a hsub ih =>
    have hS' := (List.pairwise_cons.mp hS).2
    have ha := (List.pairwise_cons.mp hS).1
    have hle : s'.length ≤ S'.length := hsub.length_le
    simp only [List.length_cons, List.sum_cons]
    rcases Nat.eq_or_lt_of_le hle with heq | hlt
    · have : s' = S' := hsub.eq_of_length heq
      subst this
      simp
    · have e1 : S'.length + 1 - (s'.length + 1) = (S'.length - (s'.length + 1)) + 1 := by omega
      rw [e1, List.drop_succ_cons]
      have hidx : S'.length - (s'.length + 1) < S'.length := by omega
      rw [List.drop_eq_getElem_cons hidx, List.sum_cons]
      have e2 : S'.length - (s'.length + 1) + 1 = S'.length - s'.length := by omega
      rw [e2]
      exact add_le_add (ha _ (List.getElem_mem hidx)) (ih hS')

/-- **top-k**: the `k` largest entries of a list (its ascending sort without the first `len - k`) have the
    largest sum among all `k`-element sub-multisets -/
theorem subperm_sum_le_topk (l s : List α) (hs : s.Subperm l) :
    s.sum ≤ ((sortAsc l).drop (l.length - s.length)).sum := by
  have hs' : s.Subperm (sortAsc l) := hs.trans (sortAsc_perm l).symm.subperm
  obtain ⟨s', hperm, hsub⟩ := hs'
  have := sublist_sum_le_drop (sortAsc l) s' (sortAsc_sorted l) hsub
  rw [hperm.sum_eq, hperm.length_eq, (sortAsc_perm l).length_eq] at this
  exact this

theorem topk_subperm (l : List α) (k : Nat) : ((sortAsc l).drop (l.length - k)).Subperm l :=
  ((List.drop_sublist _ _).subperm).trans (sortAsc_perm l).subperm

theorem topk_length (l : List α) (k : Nat) (hk : k ≤ l.length) : ((sortAsc l).drop (l.length - k)).length = k := by
  rw [List.length_drop, (sortAsc_perm l).length_eq]; omega

/-- code formulation (ascending sort, keep the tail) = Spec formulation (descending sort, keep the head) -/
theorem drop_asc_sum_eq_take_desc_sum (l : List α) (k : Nat) (hk : k ≤ l.length) :
    ((sortAsc l).drop (l.length - k)).sum = ((sortDesc l).take k).sum := by
  rw [sortDesc_eq_reverse]
  have hl : (sortAsc l).length = l.length := (sortAsc_perm l).length_eq
  have : (sortAsc l).reverse.take k = ((sortAsc l).drop (l.length - k)).reverse := by
    rw [List.take_reverse, hl]
  rw [this, List.sum_reverse]

end topk

end Haplo
