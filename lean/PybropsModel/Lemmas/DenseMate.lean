/-
C01: the buffer-level model of `dense_meiosis` / `dense_dh` / `dense_cross` (Model/DenseMate.lean)
equals the segment-concatenation model of `mat_meiosis` / `mat_dh` / `mat_mate` (Model/Meiosis.lean),
whatever the uninitialised output buffer contained.
-/
import Mathlib.Tactic
import PybropsModel.Lemmas.MeiosisLoop
import PybropsModel.Model.DenseMate
set_option autoImplicit false
set_option linter.unusedSectionVars false

namespace DenseMate
open Meiosis
variable {α ρ : Type}

/-- `k ≤ x₀ ≤ x₁ ≤ … ≤ n` -/
def AscFrom : Nat → List Nat → Nat → Prop
  | k, [], n => k ≤ n
  | k, x :: xs, n => k ≤ x ∧ AscFrom x xs n

theorem AscFrom.le_bound : ∀ {xs : List Nat} {k n : Nat}, AscFrom k xs n → k ≤ n := by
  intro xs
  induction xs with
  | nil => intro k n h; exact h
  | cons x xs ih => intro k n h; exact le_trans h.1 (ih h.2)

theorem AscFrom.weaken : ∀ {xs : List Nat} {k k' n : Nat}, k' ≤ k → AscFrom k xs n → AscFrom k' xs n := by
  intro xs
  cases xs with
  | nil => intro k k' n hk h; exact le_trans hk h
  | cons x xs => intro k k' n hk h; exact ⟨le_trans hk h.1, h.2⟩

theorem flatnonzeroFrom_asc : ∀ (m : List Bool) (k : Nat), AscFrom k (Np.flatnonzeroFrom k m) (k + m.length) := by
  intro m
  induction m with
  | nil => intro k; simp [Np.flatnonzeroFrom, AscFrom]
  | cons b bs ih =>
    intro k
    have h := ih (k + 1)
    rw [show k + 1 + bs.length = k + (b :: bs).length by simp; omega] at h
    simp only [Np.flatnonzeroFrom]
    split
    · exact ⟨le_refl k, h.weaken (Nat.le_succ k)⟩
    · exact h.weaken (Nat.le_succ k)

theorem sliceAssign_length (buf src : List α) (st sp : Nat) (h1 : st ≤ sp) (h2 : sp ≤ buf.length)
    (hs : src.length = buf.length) : (sliceAssign buf src st sp).length = buf.length := by
  unfold sliceAssign
  rw [if_neg (by omega)]
  simp only [List.length_append, List.length_take, List.length_drop]
  omega

theorem sliceAssign_take (buf src : List α) (st sp : Nat) (h1 : st ≤ sp) (h2 : sp ≤ buf.length)
    (hs : src.length = buf.length) :
    (sliceAssign buf src st sp).take sp = buf.take st ++ (src.drop st).take (sp - st) := by
  unfold sliceAssign
  rw [if_neg (by omega), ← List.append_assoc]
  apply List.take_left'
  simp only [List.length_append, List.length_take, List.length_drop]
  omega

/-- the buffer loop = (untouched prefix of the buffer) ++ (concatenation of the copied segments) -/
theorem rowLoop_eq (h0 h1 : List α) (n : Nat) (e0 : h0.length = n) (e1 : h1.length = n) :
    ∀ (xs : List Nat) (buf : List α) (stix : Nat) (ph : Bool), buf.length = n → AscFrom stix xs n →
      rowLoop h0 h1 buf stix ph xs = buf.take stix ++ segLoop h0 h1 stix ph xs := by
  intro xs
  induction xs with
  | nil =>
    intro buf stix ph hb ha
    have hsn : stix ≤ n := ha
    have hsrc : (if ph then h1 else h0).length = n := by cases ph <;> simp [e0, e1]
    simp only [rowLoop, segLoop, sliceAssign]
    rw [if_neg (by omega), hb]
    congr 1
    have hd : buf.drop n = [] := List.drop_of_length_le (by omega)
    rw [hd, List.append_nil]
    apply List.take_of_length_le
    simp only [List.length_drop]
    omega
  | cons sp rest ih =>
    intro buf stix ph hb ha
    obtain ⟨h1', h2'⟩ := ha
    have hsp : sp ≤ n := h2'.le_bound
    have hsrc : (if ph then h1 else h0).length = buf.length := by cases ph <;> simp [e0, e1, hb]
    simp only [rowLoop, segLoop]
    rw [ih _ sp (!ph) (by rw [sliceAssign_length _ _ _ _ h1' (by omega) hsrc]; exact hb) h2',
      sliceAssign_take _ _ _ _ h1' (by omega) hsrc, List.append_assoc]

/-- one row: the buffer content is irrelevant and the result is `Meiosis.gameteLoop` -/
theorem denseRow_eq (buf : List α) (ind : Ind α) (mask : List Bool)
    (hb : buf.length = mask.length) (h0 : ind.1.length = mask.length) (h1 : ind.2.length = mask.length) :
    denseRow buf ind mask = gameteLoop ind mask := by
  unfold denseRow gameteLoop Np.flatnonzero
  have ha := flatnonzeroFrom_asc mask 0
  rw [Nat.zero_add] at ha
  rw [rowLoop_eq ind.1 ind.2 mask.length h0 h1 _ buf 0 false hb ha]
  simp

section
variable [LT ρ] [DecidableLT ρ]

theorem xoMask_length (r xo : List ρ) (h : r.length = xo.length) : (xoMask r xo).length = xo.length := by
  simp [xoMask, h]

/-- the individuals the selection reaches have `len(xoprob)` markers on both copies -/
def SelShaped (pop : Pop α) (sel : List Nat) (nv : Nat) : Prop :=
  ∀ s ∈ sel, ∀ ind, pop[s]? = some ind → ind.1.length = nv ∧ ind.2.length = nv

theorem rowsE_eq (pop : Pop α) (xo : List ρ) :
    ∀ (sel : List Nat) (rnd : DrawMat ρ) (emp : List (List α)), SelShaped pop sel xo.length →
      drawsShaped sel.length xo.length rnd = true → drawsShaped sel.length xo.length emp = true →
      DenseMate.rowsE pop xo sel rnd emp = Meiosis.rowsE pop xo sel rnd := by
  intro sel
  induction sel with
  | nil => intro rnd emp _ _ _; simp [DenseMate.rowsE, Meiosis.rowsE]
  | cons s sel ih =>
    intro rnd emp hs hr he
    simp only [drawsShaped, List.length_cons, Bool.and_eq_true, beq_iff_eq, List.all_eq_true] at hr he
    cases rnd with
    | nil => simp at hr
    | cons r rnd =>
      cases emp with
      | nil => simp at he
      | cons e emp =>
        simp only [DenseMate.rowsE, Meiosis.rowsE, List.tail_cons, List.headD_cons]
        cases hp : pop[s]? with
        | none => rfl
        | some ind =>
          simp only
          have hsh := hs s (by simp) ind hp
          have hrl : r.length = xo.length := hr.2 r (by simp)
          have hel : e.length = xo.length := he.2 e (by simp)
          rw [ih rnd emp (fun s' hs' => hs s' (List.mem_cons_of_mem _ hs'))
            (by simp only [drawsShaped, Bool.and_eq_true, beq_iff_eq, List.all_eq_true]
                exact ⟨by simpa using hr.1, fun x hx => hr.2 x (List.mem_cons_of_mem _ hx)⟩)
            (by simp only [drawsShaped, Bool.and_eq_true, beq_iff_eq, List.all_eq_true]
                exact ⟨by simpa using he.1, fun x hx => he.2 x (List.mem_cons_of_mem _ hx)⟩)]
          rw [denseRow_eq e ind _ (by rw [xoMask_length _ _ hrl, hel])
            (by rw [xoMask_length _ _ hrl]; exact hsh.1) (by rw [xoMask_length _ _ hrl]; exact hsh.2)]
          cases Meiosis.rowsE pop xo sel rnd <;> rfl

/-- `dense_meiosis` = `mat_meiosis`, for every content of the uninitialised buffer -/
theorem denseMeiosisE_eq (pop : Pop α) (sel : List Nat) (xo : List ρ) (rnd : DrawMat ρ) (emp : List (List α))
    (hs : SelShaped pop sel xo.length) (he : drawsShaped sel.length xo.length emp = true) :
    denseMeiosisE pop sel xo rnd emp = meiosisE pop sel xo rnd := by
  unfold denseMeiosisE meiosisE
  rw [he, Bool.and_true]
  split
  · rename_i hr; exact rowsE_eq pop xo sel rnd emp hs hr he
  · rfl

/-- `dense_dh` = `mat_dh` -/
theorem denseDhE_eq (pop : Pop α) (sel : List Nat) (xo : List ρ) (r : DrawMat ρ) (rest : List (DrawMat ρ))
    (e : List (List α)) (es : List (List (List α)))
    (hs : SelShaped pop sel xo.length) (he : drawsShaped sel.length xo.length e = true) :
    denseDhE pop sel xo (r :: rest) (e :: es) = dhE pop sel xo (r :: rest) := by
  simp only [denseDhE, dhE, denseMeiosisE_eq pop sel xo r e hs he]
  cases meiosisE pop sel xo r <;> rfl

/-- `dense_cross` = `mat_mate` -/
theorem denseCrossE_eq (fpop mpop : Pop α) (fsel msel : List Nat) (xo : List ρ) (rf rm : DrawMat ρ)
    (rest : List (DrawMat ρ)) (ef em : List (List α)) (es : List (List (List α)))
    (hf : SelShaped fpop fsel xo.length) (hm : SelShaped mpop msel xo.length)
    (hef : drawsShaped fsel.length xo.length ef = true) (hem : drawsShaped msel.length xo.length em = true) :
    denseCrossE fpop mpop fsel msel xo (rf :: rm :: rest) (ef :: em :: es)
      = mateE fpop mpop fsel msel xo (rf :: rm :: rest) := by
  simp only [denseCrossE, mateE, denseMeiosisE_eq fpop fsel xo rf ef hf hef, denseMeiosisE_eq mpop msel xo rm em hm hem]
  cases meiosisE fpop fsel xo rf with
  | error e => rfl
  | ok fg => cases meiosisE mpop msel xo rm <;> rfl

end

end DenseMate
