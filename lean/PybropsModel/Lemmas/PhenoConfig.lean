/-
Helper lemmas for C14, part 6: the configuration object of `G_E_Phenotyping` (`Pheno.Cfg`, constructor `cfgInit`, public
setters `cfgStep`, histories `cfgRun`), the layout `phenotype()` walks through and the generator calls it makes (`drawPlan`).
-/
import Mathlib.Tactic
import PybropsModel.Model.PhenoSpec
import PybropsModel.Lemmas.PhenoLoop
set_option autoImplicit false
set_option linter.unusedSectionVars false

namespace Pheno

/-! ### the replicate-array setter -/

theorem nrepSetter_length (nenv : Nat) (x : Nat ⊕ List Nat) (l : List Nat) (h : nrepSetter nenv x = some l) :
    l.length = nenv ∧ ∀ k ∈ l, 0 < k := by
  unfold nrepSetter at h
  cases x with
  | inl k =>
    simp only at h
    split at h
    · rename_i hk
      simp only [Option.some.injEq] at h
      subst h
      exact ⟨by simp, fun k' hk' => by rw [List.eq_of_mem_replicate hk']; exact hk⟩
    · simp at h
  | inr l' =>
    simp only at h
    split at h
    · rename_i hl
      simp only [Bool.and_eq_true, beq_iff_eq, List.all_eq_true, decide_eq_true_eq] at hl
      simp only [Option.some.injEq] at h
      subst h
      exact hl
    · simp at h

section cfg
variable {α : Type} [OfNat α 0] [LT α] [DecidableLT α]

/-- a configuration in which the replicate array has one positive entry per environment -/
def Cfg.Consistent (c : Cfg α) : Prop := c.nrep.length = c.nenv ∧ ∀ k ∈ c.nrep, 0 < k

theorem varSetter_length (t : Nat) (v : VarArg α) (l : List α) (h : varSetter t v = some l) : l.length = t := by
  cases v with
  | none => simp only [varSetter, Option.some.injEq] at h; subst h; simp
  | scalar x =>
    simp only [varSetter] at h
    split at h
    · simp at h
    · simp only [Option.some.injEq] at h; subst h; simp
  | array l' =>
    simp only [varSetter] at h
    split at h
    · rename_i hl
      simp only [Bool.and_eq_true, beq_iff_eq] at hl
      simp only [Option.some.injEq] at h
      subst h
      exact hl.1
    · simp at h

/-- **The constructor establishes a consistent configuration** (one positive replicate count per environment, one variance
    per trait). -/
theorem cfgInit_consistent (t nenv : Nat) (nrep : Nat ⊕ List Nat) (ve vr vx : VarArg α) (c : Cfg α)
    (h : cfgInit t nenv nrep ve vr vx = some c) :
    c.Consistent ∧ c.nenv = nenv ∧ 0 < nenv ∧ c.varEnv.length = t ∧ c.varRep.length = t ∧ c.varErr.length = t := by
  unfold cfgInit at h
  split at h
  · rename_i hpos
    split at h
    · rename_i l a b d h1 h2 h3 h4
      simp only [Option.some.injEq] at h
      subst h
      exact ⟨nrepSetter_length nenv nrep l h1, rfl, hpos, varSetter_length t ve a h2, varSetter_length t vr b h3,
        varSetter_length t vx d h4⟩
    · simp at h
  · simp at h

/-- **Every `nrep` assignment re-establishes consistency**, whatever the configuration was. -/
theorem cfgStep_setNrep_consistent (t : Nat) (c c' : Cfg α) (x : Nat ⊕ List Nat)
    (h : cfgStep t c (.setNrep x) = some c') : c'.Consistent ∧ c'.nenv = c.nenv := by
  simp only [cfgStep, Option.map_eq_some_iff] at h
  obtain ⟨l, hl, rfl⟩ := h
  exact ⟨nrepSetter_length c.nenv x l hl, rfl⟩

/-- **D60, exactly.**  The `nenv` setter stores the number and leaves the replicate array alone: from a consistent
    configuration the result is consistent iff the number of environments did not change. -/
theorem cfgStep_setNenv_consistent_iff (t : Nat) (c c' : Cfg α) (n : Nat) (hc : c.Consistent)
    (h : cfgStep t c (.setNenv n) = some c') :
    c'.nrep = c.nrep ∧ c'.nenv = n ∧ (c'.Consistent ↔ n = c.nenv) := by
  simp only [cfgStep] at h
  split at h
  · simp only [Option.some.injEq] at h
    subst h
    refine ⟨rfl, rfl, ?_⟩
    unfold Cfg.Consistent
    simp only
    constructor
    · intro h'; rw [← h'.1, hc.1]
    · intro h'; exact ⟨hc.1.trans h'.symm, hc.2⟩
  · simp at h

/-- the variance setters never touch the layout -/
theorem cfgStep_var_layout (t : Nat) (c c' : Cfg α) (op : CfgOp α)
    (hop : (∃ v, op = .setVarEnv v) ∨ (∃ v, op = .setVarRep v) ∨ (∃ v, op = .setVarErr v))
    (h : cfgStep t c op = some c') : c'.nenv = c.nenv ∧ c'.nrep = c.nrep := by
  rcases hop with ⟨v, rfl⟩ | ⟨v, rfl⟩ | ⟨v, rfl⟩ <;>
  · simp only [cfgStep, Option.map_eq_some_iff] at h
    obtain ⟨l, _, rfl⟩ := h
    exact ⟨rfl, rfl⟩

/-- bookkeeping of a setter history: (number of environments now in force, number in force at the last `nrep` assignment) -/
def trackNenv : Nat × Nat → List (CfgOp α) → Nat × Nat
  | s, [] => s
  | s, .setNenv n :: ops => trackNenv (n, s.2) ops
  | s, .setNrep _ :: ops => trackNenv (s.1, s.1) ops
  | s, _ :: ops => trackNenv s ops

/-- **Setter histories.**  After any accepted history the stored number of environments is the one assigned last, and the
    replicate array has the length that was in force at the last `nrep` assignment: the configuration is consistent
    exactly when these two numbers agree. -/
theorem cfgRun_lengths (t : Nat) (ops : List (CfgOp α)) (c c' : Cfg α) (h : cfgRun t c ops = some c') :
    c'.nenv = (trackNenv (c.nenv, c.nrep.length) ops).1 ∧ c'.nrep.length = (trackNenv (c.nenv, c.nrep.length) ops).2 := by
  induction ops generalizing c with
  | nil =>
    simp only [cfgRun, Option.some.injEq] at h
    subst h
    exact ⟨rfl, rfl⟩
  | cons op ops ih =>
    simp only [cfgRun, Option.bind_eq_some_iff] at h
    obtain ⟨c₁, h₁, h₂⟩ := h
    have := ih c₁ h₂
    cases op with
    | setNenv n =>
      simp only [cfgStep] at h₁
      split at h₁
      · simp only [Option.some.injEq] at h₁
        subst h₁
        simpa [trackNenv] using this
      · simp at h₁
    | setNrep x =>
      obtain ⟨hc, hn⟩ := cfgStep_setNrep_consistent t c c₁ x h₁
      rw [hc.1, hn] at this
      simpa [trackNenv] using this
    | setVarEnv v =>
      obtain ⟨h1, h2⟩ := cfgStep_var_layout t c c₁ _ (Or.inl ⟨v, rfl⟩) h₁
      rw [h1, h2] at this
      simpa [trackNenv] using this
    | setVarRep v =>
      obtain ⟨h1, h2⟩ := cfgStep_var_layout t c c₁ _ (Or.inr (Or.inl ⟨v, rfl⟩)) h₁
      rw [h1, h2] at this
      simpa [trackNenv] using this
    | setVarErr v =>
      obtain ⟨h1, h2⟩ := cfgStep_var_layout t c c₁ _ (Or.inr (Or.inr ⟨v, rfl⟩)) h₁
      rw [h1, h2] at this
      simpa [trackNenv] using this

/-- the number of environments `phenotype()` walks through is `min(nenv, len(nrep))` -/
theorem layout_length (c : Cfg α) : c.layout.length = min c.nenv c.nrep.length := by
  simp [Cfg.layout]

theorem layout_of_consistent (c : Cfg α) (h : c.Consistent) : c.layout = c.nrep := by
  unfold Cfg.layout
  rw [← h.1]
  exact List.take_length

end cfg

/-! ### the generator calls of one `phenotype()` against the stream the loop consumes -/
section plan
variable {α : Type} [OfNat α 0] [LT α] [DecidableLT α]

/-- the `size` argument with which a draw was requested -/
def drawSize : Draw α → Option Nat
  | .vec _ => none
  | .mat m => some m.length

theorem flattenReps_sizes (n : Nat) (vr vx : List α) (rds : List (RepDraw α)) (h : ∀ rd ∈ rds, rd.err.length = n) :
    (flattenReps rds).map drawSize =
      ((List.replicate rds.length [({ covDiag := vr, size := none } : DrawCall α), { covDiag := vx, size := some n }]).flatten).map
        (·.size) := by
  induction rds with
  | nil => simp [flattenReps]
  | cons rd rds ih =>
    have h1 := h rd (by simp)
    have h2 := ih (fun x hx => h x (by simp [hx]))
    simp only [flattenReps, List.map_cons, drawSize, h1, List.length_cons, List.replicate_succ, List.flatten_cons,
      List.cons_append, List.nil_append, h2]

/-- **The call pattern the model assumes is the plan.**  A stream consumed by the loop on the layout of configuration `c`
    (structured view `ds`, one error row per taxon) was requested with exactly the `size` arguments of `drawPlan c ntaxa`,
    in that order. -/
theorem drawPlan_sizes (c : Cfg α) (n : Nat) (ds : List (EnvDraw α)) (hlay : ds.map (fun d => d.reps.length) = c.layout)
    (herr : ∀ d ∈ ds, ∀ rd ∈ d.reps, rd.err.length = n) :
    (flattenDraws ds).map drawSize = (drawPlan c n).map (·.size) := by
  unfold drawPlan
  rw [← hlay]
  clear hlay
  induction ds with
  | nil => simp [flattenDraws]
  | cons d ds ih =>
    have h1 := flattenReps_sizes n c.varRep c.varErr d.reps (herr d (by simp))
    have h2 := ih (fun x hx => herr x (by simp [hx]))
    simp only [flattenDraws, List.map_cons, List.map_append, drawSize, List.flatMap_cons, List.cons_append, h1, h2]

/-- every call of the plan asks for the covariance `diag(var_env)`, `diag(var_rep)` (a `(t,)` draw) or `diag(var_err)`
    (an `(ntaxa,t)` draw) of the CURRENT configuration -/
theorem drawPlan_cov (c : Cfg α) (n : Nat) (d : DrawCall α) (h : d ∈ drawPlan c n) :
    (d.size = none ∧ (d.covDiag = c.varEnv ∨ d.covDiag = c.varRep)) ∨ (d.size = some n ∧ d.covDiag = c.varErr) := by
  unfold drawPlan at h
  simp only [List.mem_flatMap, List.mem_cons, List.mem_flatten, List.mem_replicate] at h
  obtain ⟨k, _, h⟩ := h
  rcases h with rfl | ⟨l, ⟨_, rfl⟩, hl⟩
  · exact Or.inl ⟨rfl, Or.inl rfl⟩
  · simp only [List.mem_cons, List.not_mem_nil, or_false] at hl
    rcases hl with rfl | rfl
    · exact Or.inl ⟨rfl, Or.inr rfl⟩
    · exact Or.inr ⟨rfl, rfl⟩

end plan

end Pheno
