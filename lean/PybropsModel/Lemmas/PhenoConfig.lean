/-
Helper lemmas for C14, part 6: the configuration object of `G_E_Phenotyping` (`Pheno.Cfg`, constructor `cfgInit`, public
setters `cfgStep`, histories `cfgRun`), the layout `phenotype()` walks through and the generator calls it makes (`drawPlan`).
-/
import Mathlib.Tactic
import PybropsModel.Model.PhenoSpec
import PybropsModel.Lemmas.PhenoLoop
set_option autoImplicit false
set_option linter.unusedSectionVars false

namespace Pheno

/-! ### the replicate-array setter -/

theorem nrepSetter_length (nenv : Nat) (x : Nat ⊕ List Nat) (l : List Nat) (h : nrepSetter nenv x = some l) :
    l.length = nenv ∧ ∀ k ∈ l, 0 < k := by
  unfold nrepSetter at h
  cases x with
  | inl k =>
    simp only at h
    split at h
    · rename_i hk
      simp only [Option.some.injEq] at h
      subst h
      exact ⟨by simp, fun k' hk' => by rw [List.eq_of_mem_replicate hk']; exact hk⟩
    · simp at h
  | inr l' =>
    simp only at h
    split at h
    · rename_i hl
      simp only [Bool.and_eq_true, beq_iff_eq, List.all_eq_true, decide_eq_true_eq] at hl
      simp only [Option.some.injEq] at h
      subst h
      exact hl
    · simp at h

section cfg
variable {α : Type} [OfNat α 0] [LT α] [DecidableLT α]

/-- a configuration in which the replicate array has one positive entry per environment -/
def Cfg.Consistent (c : Cfg α) : Prop := c.nrep.length = c.nenv ∧ ∀ k ∈ c.nrep, 0 < k

theorem varSetter_length (t : Nat) (v : VarArg α) (l : List α) (h : varSetter t v = some l) : l.length = t := by
  cases v with
  | none => simp only [varSetter, Option.some.injEq] at h; subst h; simp
  | scalar x =>
    simp only [varSetter] at h
    split at h
    · simp at h
    · simp only [Option.some.injEq] at h; subst h; simp
  | array l' =>
    simp only [varSetter] at h
    split at h
    · rename_i hl
      simp only [Bool.and_eq_true, beq_iff_eq] at hl
      simp only [Option.some.injEq] at h
      subst h
      exact hl.1
    · simp at h

/-- **The constructor establishes a consistent configuration** (one positive replicate count per environment, one variance
    per trait). -/
theorem cfgInit_consistent (t nenv : Nat) (nrep : Nat ⊕ List Nat) (ve vr vx : VarArg α) (c : Cfg α)
    (h : cfgInit t nenv nrep ve vr vx = some c) :
    c.Consistent ∧ c.nenv = nenv ∧ 0 < nenv ∧ c.varEnv.length = t ∧ c.varRep.length = t ∧ c.varErr.length = t := by
  unfold cfgInit at h
  split at h
  · rename_i hpos
    split at h
    · rename_i l a b d h1 h2 h3 h4
      simp only [Option.some.injEq] at h
      subst h
      exact ⟨nrepSetter_length nenv nrep l h1, rfl, hpos, varSetter_length t ve a h2, varSetter_length t vr b h3,
        varSetter_length t vx d h4⟩
    · simp at h
  · simp at h

/-- **Every `nrep` assignment re-establishes consistency**, whatever the configuration was. -/
theorem cfgStep_setNrep_consistent (t : Nat) (c c' : Cfg α) (x : Nat ⊕ List Nat)
    (h : cfgStep t c (.setNrep x) = some c') : c'.Consistent ∧ c'.nenv = c.nenv := by
  simp only [cfgStep, Option.map_eq_some_iff] at h
  obtain ⟨l, hl, rfl⟩ := h
  exact ⟨nrepSetter_length c.nenv x l hl, rfl⟩

/-! #### the replicate array follows `nenv` (repaired setter) -/

theorem isConst_replicate (n k : Nat) : isConst (List.replicate n k) = true := by
  cases n with
  | zero => rfl
  | succ n => simp [List.replicate_succ, isConst]

theorem isConst_iff (l : List Nat) : isConst l = true ↔ ∀ a ∈ l.head?, ∀ x ∈ l, x = a := by
  cases l with
  | nil => simp [isConst]
  | cons a l =>
    simp only [isConst, List.all_eq_true, beq_iff_eq, List.head?_cons, Option.mem_def, Option.some.injEq,
      List.mem_cons, forall_eq']
    constructor
    · intro h x hx
      rcases hx with rfl | hx
      · rfl
      · exact h x hx
    · intro h x hx
      exact h x (Or.inr hx)

/-- what the repaired setter does, case by case -/
theorem nrepFollow_cases (n : Nat) (l : List Nat) :
    (n ≤ l.length → nrepFollow n l = l.take n) ∧
    (l.length < n → isConst l = true → ∀ a ∈ l.head?, nrepFollow n l = List.replicate n a) ∧
    (l.length < n → isConst l = false → nrepFollow n l = l) := by
  refine ⟨?_, ?_, ?_⟩
  · intro h
    unfold nrepFollow
    split
    · rfl
    · have : l.length = n := by omega
      rw [if_neg (by omega), ← this, List.take_length]
  · intro h hc a ha
    unfold nrepFollow
    rw [if_neg (by omega), if_pos h]
    cases l with
    | nil => simp at ha
    | cons b l' =>
      simp only [List.head?_cons, Option.mem_def, Option.some.injEq] at ha
      subst ha
      simp only [hc, if_true]
  · intro h hc
    unfold nrepFollow
    rw [if_neg (by omega), if_pos h]
    cases l with
    | nil => rfl
    | cons b l' => simp only [hc]; rfl

/-- positivity of the entries survives -/
theorem nrepFollow_pos (n : Nat) (l : List Nat) (h : ∀ k ∈ l, 0 < k) : ∀ k ∈ nrepFollow n l, 0 < k := by
  intro k hk
  unfold nrepFollow at hk
  split at hk
  · exact h k (List.mem_of_mem_take hk)
  · split at hk
    · cases l with
      | nil => exact h k hk
      | cons a l' =>
        simp only at hk
        split at hk
        · rw [List.eq_of_mem_replicate hk]; exact h a (by simp)
        · exact h k hk
    · exact h k hk

/-- **The repaired `nenv` setter, exactly** (fix of D60).  From a consistent configuration, `nenv := n` stores `n`; the
    replicate array is truncated (`n ≤ nenv`), re-broadcast (`n > nenv`, constant array — in particular a broadcast integer
    `nrep`) or left alone (`n > nenv`, non-constant array); the result is consistent iff `n ≤ nenv` or the array is constant. -/
theorem cfgStep_setNenv_consistent_iff (t : Nat) (c c' : Cfg α) (n : Nat) (hc : c.Consistent) (hpos : 0 < c.nenv)
    (h : cfgStep t c (.setNenv n) = some c') :
    c'.nenv = n ∧ 0 < n ∧ c'.nrep = nrepFollow n c.nrep ∧ (∀ k ∈ c'.nrep, 0 < k) ∧
      (c'.Consistent ↔ (n ≤ c.nenv ∨ isConst c.nrep = true)) := by
  simp only [cfgStep] at h
  split at h
  · rename_i hn
    simp only [Option.some.injEq] at h
    subst h
    refine ⟨rfl, hn, rfl, nrepFollow_pos n c.nrep hc.2, ?_⟩
    obtain ⟨h1, h2, h3⟩ := nrepFollow_cases n c.nrep
    unfold Cfg.Consistent
    simp only
    constructor
    · intro h'
      by_cases hle : n ≤ c.nenv
      · exact Or.inl hle
      · right
        have hlt : c.nrep.length < n := by rw [hc.1]; omega
        by_contra hcst
        have hcst' : isConst c.nrep = false := by simpa using hcst
        rw [h3 hlt hcst'] at h'
        omega
    · rintro (hle | hcst)
      · rw [h1 (by rw [hc.1]; exact hle)]
        exact ⟨by simp [hc.1, hle], fun k hk => hc.2 k (List.mem_of_mem_take hk)⟩
      · by_cases hle : n ≤ c.nenv
        · rw [h1 (by rw [hc.1]; exact hle)]
          exact ⟨by simp [hc.1, hle], fun k hk => hc.2 k (List.mem_of_mem_take hk)⟩
        · have hlt : c.nrep.length < n := by rw [hc.1]; omega
          cases hnr : c.nrep with
          | nil =>
            have := hc.1
            rw [hnr] at this
            simp at this
            omega
          | cons a l' =>
            have := h2 hlt hcst a (by rw [hnr]; simp)
            rw [hnr] at this
            rw [this]
            exact ⟨by simp, fun k hk => by rw [List.eq_of_mem_replicate hk]; exact hc.2 a (by rw [hnr]; simp)⟩
  · simp at h

/-- **D60, exactly (pre-repair setter).**  The `nenv` setter stored the number and left the replicate array alone: from a
    consistent configuration the result was consistent iff the number of environments did not change. -/
theorem cfgStepPrerepair_setNenv_consistent_iff (t : Nat) (c c' : Cfg α) (n : Nat) (hc : c.Consistent)
    (h : cfgStepPrerepair t c (.setNenv n) = some c') :
    c'.nrep = c.nrep ∧ c'.nenv = n ∧ (c'.Consistent ↔ n = c.nenv) := by
  simp only [cfgStepPrerepair] at h
  split at h
  · simp only [Option.some.injEq] at h
    subst h
    refine ⟨rfl, rfl, ?_⟩
    unfold Cfg.Consistent
    simp only
    constructor
    · intro h'; rw [← h'.1, hc.1]
    · intro h'; exact ⟨hc.1.trans h'.symm, hc.2⟩
  · simp at h

/-- the variance setters never touch the layout -/
theorem cfgStep_var_layout (t : Nat) (c c' : Cfg α) (op : CfgOp α)
    (hop : (∃ v, op = .setVarEnv v) ∨ (∃ v, op = .setVarRep v) ∨ (∃ v, op = .setVarErr v))
    (h : cfgStep t c op = some c') : c'.nenv = c.nenv ∧ c'.nrep = c.nrep := by
  rcases hop with ⟨v, rfl⟩ | ⟨v, rfl⟩ | ⟨v, rfl⟩ <;>
  · simp only [cfgStep, Option.map_eq_some_iff] at h
    obtain ⟨l, _, rfl⟩ := h
    exact ⟨rfl, rfl⟩

/-- a configuration whose replicate array is one broadcast value: `nrep = [k] * nenv`, `k > 0` -/
def Cfg.Broadcast (c : Cfg α) (k : Nat) : Prop := c.nrep = List.replicate c.nenv k ∧ 0 < k ∧ 0 < c.nenv

theorem Cfg.Broadcast.consistent {c : Cfg α} {k : Nat} (h : c.Broadcast k) : c.Consistent := by
  refine ⟨by rw [h.1]; simp, fun x hx => ?_⟩
  rw [h.1] at hx
  rw [List.eq_of_mem_replicate hx]
  exact h.2.1

/-- one step keeps a broadcast replicate array broadcast, unless `nrep` itself is assigned -/
theorem cfgStep_broadcast (t : Nat) (c c' : Cfg α) (k : Nat) (hb : c.Broadcast k) (op : CfgOp α)
    (hop : ∀ x, op ≠ .setNrep x) (h : cfgStep t c op = some c') : c'.Broadcast k := by
  cases op with
  | setNrep x => exact absurd rfl (hop x)
  | setNenv n =>
    obtain ⟨h1, hn, h3, _, _⟩ := cfgStep_setNenv_consistent_iff t c c' n hb.consistent hb.2.2 h
    obtain ⟨hb1, hb2, hb3⟩ := hb
    refine ⟨?_, hb2, by rw [h1]; exact hn⟩
    rw [h3, h1, hb1]
    obtain ⟨c1, c2, _⟩ := nrepFollow_cases n (List.replicate c.nenv k)
    by_cases hle : n ≤ c.nenv
    · rw [c1 (by simpa using hle)]
      simp [List.take_replicate, Nat.min_eq_left hle]
    · have hlt : (List.replicate c.nenv k).length < n := by simp; omega
      have hhead : k ∈ (List.replicate c.nenv k).head? := by
        cases hne : c.nenv with
        | zero => omega
        | succ m => simp [List.replicate_succ]
      exact c2 hlt (isConst_replicate _ _) k hhead
  | setVarEnv v =>
    obtain ⟨h1, h2⟩ := cfgStep_var_layout t c c' _ (Or.inl ⟨v, rfl⟩) h
    exact ⟨by rw [h2, h1, hb.1], hb.2.1, by rw [h1]; exact hb.2.2⟩
  | setVarRep v =>
    obtain ⟨h1, h2⟩ := cfgStep_var_layout t c c' _ (Or.inr (Or.inl ⟨v, rfl⟩)) h
    exact ⟨by rw [h2, h1, hb.1], hb.2.1, by rw [h1]; exact hb.2.2⟩
  | setVarErr v =>
    obtain ⟨h1, h2⟩ := cfgStep_var_layout t c c' _ (Or.inr (Or.inr ⟨v, rfl⟩)) h
    exact ⟨by rw [h2, h1, hb.1], hb.2.1, by rw [h1]; exact hb.2.2⟩

/-- **A scalar `nrep` follows every later `nenv` assignment** (the repaired D60, histories of any length): along a history
    without `nrep` assignment, a broadcast replicate array stays `[k] * (current nenv)`. -/
theorem cfgRun_broadcast (t : Nat) (ops : List (CfgOp α)) (c c' : Cfg α) (k : Nat) (hb : c.Broadcast k)
    (hops : ∀ op ∈ ops, ∀ x, op ≠ .setNrep x) (h : cfgRun t c ops = some c') : c'.Broadcast k := by
  induction ops generalizing c with
  | nil =>
    simp only [cfgRun, Option.some.injEq] at h
    subst h
    exact hb
  | cons op ops ih =>
    simp only [cfgRun, Option.bind_eq_some_iff] at h
    obtain ⟨c₁, h₁, h₂⟩ := h
    exact ih c₁ (cfgStep_broadcast t c c₁ k hb op (hops op (by simp)) h₁) (fun o ho => hops o (by simp [ho])) h₂

/-- the constructor with an integer `nrep` yields a broadcast array -/
theorem cfgInit_broadcast (t nenv k : Nat) (ve vr vx : VarArg α) (c : Cfg α)
    (h : cfgInit t nenv (.inl k) ve vr vx = some c) : c.Broadcast k := by
  unfold cfgInit at h
  split at h
  · rename_i hpos
    split at h
    · rename_i l a b d h1 h2 h3 h4
      simp only [Option.some.injEq] at h
      subst h
      simp only [nrepSetter] at h1
      split at h1
      · rename_i hk
        simp only [Option.some.injEq] at h1
        exact ⟨h1.symm, hk, hpos⟩
      · simp at h1
    · simp at h
  · simp at h

/-- the invariant of EVERY setter history (repaired setters): the replicate array never has more entries than there are
    environments, and its entries are positive -/
def Cfg.Inv (c : Cfg α) : Prop := c.nrep.length ≤ c.nenv ∧ ∀ k ∈ c.nrep, 0 < k

theorem Cfg.Consistent.inv {c : Cfg α} (h : c.Consistent) : c.Inv := ⟨by rw [h.1], h.2⟩

theorem nrepFollow_length (n : Nat) (l : List Nat) (hl : l ≠ []) : (nrepFollow n l).length ≤ n := by
  unfold nrepFollow
  split
  · simp only [List.length_take]; omega
  · split
    · cases l with
      | nil => exact absurd rfl hl
      | cons a l' =>
        simp only
        split
        · simp
        · omega
    · omega

theorem cfgStep_inv (t : Nat) (c c' : Cfg α) (op : CfgOp α) (hc : c.Inv) (h : cfgStep t c op = some c') : c'.Inv := by
  cases op with
  | setNrep x => exact (cfgStep_setNrep_consistent t c c' x h).1.inv
  | setNenv n =>
    simp only [cfgStep] at h
    split at h
    · simp only [Option.some.injEq] at h
      subst h
      refine ⟨?_, nrepFollow_pos n c.nrep hc.2⟩
      simp only
      by_cases hl : c.nrep = []
      · rw [hl]; simp [nrepFollow]
      · exact nrepFollow_length n c.nrep hl
    · simp at h
  | setVarEnv v =>
    obtain ⟨h1, h2⟩ := cfgStep_var_layout t c c' _ (Or.inl ⟨v, rfl⟩) h
    exact ⟨by rw [h1, h2]; exact hc.1, by rw [h2]; exact hc.2⟩
  | setVarRep v =>
    obtain ⟨h1, h2⟩ := cfgStep_var_layout t c c' _ (Or.inr (Or.inl ⟨v, rfl⟩)) h
    exact ⟨by rw [h1, h2]; exact hc.1, by rw [h2]; exact hc.2⟩
  | setVarErr v =>
    obtain ⟨h1, h2⟩ := cfgStep_var_layout t c c' _ (Or.inr (Or.inr ⟨v, rfl⟩)) h
    exact ⟨by rw [h1, h2]; exact hc.1, by rw [h2]; exact hc.2⟩

/-- **Setter histories (repaired).**  After any accepted history from a consistent configuration the replicate array has at
    most `nenv` positive entries; it has FEWER than `nenv` (the only inconsistent state, which `phenotype` refuses) only if
    some `nenv` assignment raised the number over a non-constant array and no `nrep` assignment followed. -/
theorem cfgRun_inv (t : Nat) (ops : List (CfgOp α)) (c c' : Cfg α) (hc : c.Inv) (h : cfgRun t c ops = some c') : c'.Inv := by
  induction ops generalizing c with
  | nil =>
    simp only [cfgRun, Option.some.injEq] at h
    subst h
    exact hc
  | cons op ops ih =>
    simp only [cfgRun, Option.bind_eq_some_iff] at h
    obtain ⟨c₁, h₁, h₂⟩ := h
    exact ih c₁ (cfgStep_inv t c c₁ op hc h₁) h₂

/-- bookkeeping of a PRE-REPAIR setter history: (number of environments now in force, number in force at the last `nrep`
    assignment) -/
def trackNenv : Nat × Nat → List (CfgOp α) → Nat × Nat
  | s, [] => s
  | s, .setNenv n :: ops => trackNenv (n, s.2) ops
  | s, .setNrep _ :: ops => trackNenv (s.1, s.1) ops
  | s, _ :: ops => trackNenv s ops

/-- **Setter histories before the repair.**  After any accepted history the stored number of environments was the one
    assigned last, and the replicate array had the length that was in force at the last `nrep` assignment. -/
theorem cfgRunPrerepair_lengths (t : Nat) (ops : List (CfgOp α)) (c c' : Cfg α) (h : cfgRunPrerepair t c ops = some c') :
    c'.nenv = (trackNenv (c.nenv, c.nrep.length) ops).1 ∧ c'.nrep.length = (trackNenv (c.nenv, c.nrep.length) ops).2 := by
  induction ops generalizing c with
  | nil =>
    simp only [cfgRunPrerepair, Option.some.injEq] at h
    subst h
    exact ⟨rfl, rfl⟩
  | cons op ops ih =>
    simp only [cfgRunPrerepair, Option.bind_eq_some_iff] at h
    obtain ⟨c₁, h₁, h₂⟩ := h
    have := ih c₁ h₂
    cases op with
    | setNenv n =>
      simp only [cfgStepPrerepair] at h₁
      split at h₁
      · simp only [Option.some.injEq] at h₁
        subst h₁
        simpa [trackNenv] using this
      · simp at h₁
    | setNrep x =>
      obtain ⟨hc, hn⟩ := cfgStep_setNrep_consistent t c c₁ x h₁
      rw [hc.1, hn] at this
      simpa [trackNenv] using this
    | setVarEnv v =>
      obtain ⟨h1, h2⟩ := cfgStep_var_layout t c c₁ _ (Or.inl ⟨v, rfl⟩) h₁
      rw [h1, h2] at this
      simpa [trackNenv] using this
    | setVarRep v =>
      obtain ⟨h1, h2⟩ := cfgStep_var_layout t c c₁ _ (Or.inr (Or.inl ⟨v, rfl⟩)) h₁
      rw [h1, h2] at this
      simpa [trackNenv] using this
    | setVarErr v =>
      obtain ⟨h1, h2⟩ := cfgStep_var_layout t c c₁ _ (Or.inr (Or.inr ⟨v, rfl⟩)) h₁
      rw [h1, h2] at this
      simpa [trackNenv] using this

/-- the number of environments `phenotype()` walks through is `min(nenv, len(nrep))` -/
theorem layout_length (c : Cfg α) : c.layout.length = min c.nenv c.nrep.length := by
  simp [Cfg.layout]

theorem layout_of_consistent (c : Cfg α) (h : c.Consistent) : c.layout = c.nrep := by
  unfold Cfg.layout
  rw [← h.1]
  exact List.take_length

end cfg

/-! ### the generator calls of one `phenotype()` against the stream the loop consumes -/
section plan
variable {α : Type} [OfNat α 0] [LT α] [DecidableLT α]

/-- the `size` argument with which a draw was requested -/
def drawSize : Draw α → Option Nat
  | .vec _ => none
  | .mat m => some m.length

theorem flattenReps_sizes (n : Nat) (vr vx : List α) (rds : List (RepDraw α)) (h : ∀ rd ∈ rds, rd.err.length = n) :
    (flattenReps rds).map drawSize =
      ((List.replicate rds.length [({ covDiag := vr, size := none } : DrawCall α), { covDiag := vx, size := some n }]).flatten).map
        (·.size) := by
  induction rds with
  | nil => simp [flattenReps]
  | cons rd rds ih =>
    have h1 := h rd (by simp)
    have h2 := ih (fun x hx => h x (by simp [hx]))
    simp only [flattenReps, List.map_cons, drawSize, h1, List.length_cons, List.replicate_succ, List.flatten_cons,
      List.cons_append, List.nil_append, h2]

/-- **The call pattern the model assumes is the plan.**  A stream consumed by the loop on the layout of configuration `c`
    (structured view `ds`, one error row per taxon) was requested with exactly the `size` arguments of `drawPlan c ntaxa`,
    in that order. -/
theorem drawPlan_sizes (c : Cfg α) (n : Nat) (ds : List (EnvDraw α)) (hlay : ds.map (fun d => d.reps.length) = c.layout)
    (herr : ∀ d ∈ ds, ∀ rd ∈ d.reps, rd.err.length = n) :
    (flattenDraws ds).map drawSize = (drawPlan c n).map (·.size) := by
  unfold drawPlan
  rw [← hlay]
  clear hlay
  induction ds with
  | nil => simp [flattenDraws]
  | cons d ds ih =>
    have h1 := flattenReps_sizes n c.varRep c.varErr d.reps (herr d (by simp))
    have h2 := ih (fun x hx => herr x (by simp [hx]))
    simp only [flattenDraws, List.map_cons, List.map_append, drawSize, List.flatMap_cons, List.cons_append, h1, h2]

/-- every call of the plan asks for the covariance `diag(var_env)`, `diag(var_rep)` (a `(t,)` draw) or `diag(var_err)`
    (an `(ntaxa,t)` draw) of the CURRENT configuration -/
theorem drawPlan_cov (c : Cfg α) (n : Nat) (d : DrawCall α) (h : d ∈ drawPlan c n) :
    (d.size = none ∧ (d.covDiag = c.varEnv ∨ d.covDiag = c.varRep)) ∨ (d.size = some n ∧ d.covDiag = c.varErr) := by
  unfold drawPlan at h
  simp only [List.mem_flatMap, List.mem_cons, List.mem_flatten, List.mem_replicate] at h
  obtain ⟨k, _, h⟩ := h
  rcases h with rfl | ⟨l, ⟨_, rfl⟩, hl⟩
  · exact Or.inl ⟨rfl, Or.inl rfl⟩
  · simp only [List.mem_cons, List.not_mem_nil, or_false] at hl
    rcases hl with rfl | rfl
    · exact Or.inl ⟨rfl, Or.inr rfl⟩
    · exact Or.inr ⟨rfl, rfl⟩

end plan

end Pheno
