/-
Helper lemmas for C07 (10): composition of C17's theorems about the repaired
stochastic_universal_sampling with the arrangement steps of the real-valued configurations.
-/
import PybropsModel.Lemmas.XConfigSample
import PybropsModel.Lemmas.XConfigMate
import PybropsModel.Props.C17
set_option autoImplicit false

namespace XConfig
open Sampling

/-- floor-or-ceiling of the share implies the Spec's "within one of the share" -/
theorem withinOne_of_floor_ceil (w : List ℚ) (N : Nat) (flat : List Nat) (hT : 0 < Np.sum w)
    (h : ∀ i (hi : i < w.length),
      (flat.count i : ℤ) = ⌊(N : ℚ) * w[i] / Np.sum w⌋ ∨ (flat.count i : ℤ) = ⌈(N : ℚ) * w[i] / Np.sum w⌉) :
    withinOne w N flat = true := by
  simp only [withinOne, List.all_eq_true, List.mem_range, Bool.and_eq_true, decide_eq_true_eq]
  intro i hi
  have hg : w.getD i 0 = w[i] := by simp [hi]
  rw [hg]
  set T := Np.sum w with hTd
  set x : ℚ := (N : ℚ) * w[i] / T with hx
  have hxT : x * T = (N : ℚ) * w[i] := by rw [hx]; field_simp
  have hc : ((flat.count i : ℤ) : ℚ) = ((flat.count i : ℕ) : ℚ) := by push_cast; rfl
  rcases h i hi with e | e
  · have h1 : ((flat.count i : ℤ) : ℚ) ≤ x := by rw [e]; exact Int.floor_le x
    have h2 : x < ((flat.count i : ℤ) : ℚ) + 1 := by rw [e]; exact Int.lt_floor_add_one x
    rw [hc] at h1 h2
    constructor <;> nlinarith
  · have h1 : x ≤ ((flat.count i : ℤ) : ℚ) := by rw [e]; exact Int.le_ceil x
    have h2 : ((flat.count i : ℤ) : ℚ) < x + 1 := by rw [e]; exact Int.ceil_lt_add_one x
    rw [hc] at h1 h2
    constructor <;> nlinarith

theorem sampleRealSus_split {w : List ℚ} {nc np : Nat} {sigma : List Nat} {o : ℚ} {perm : List Nat}
    {orders rowperms : List (List Nat)} {rows : Rows}
    (h : sampleRealSus w nc np sigma o perm orders rowperms = .ok rows) :
    ∃ sel, susDraws w [nc, np] sigma o perm = .ok sel ∧ sampleReal sel nc np orders rowperms = .ok rows := by
  unfold sampleRealSus at h
  cases hs : susDraws w [nc, np] sigma o perm with
  | error e => rw [hs] at h; cases h
  | ok sel => rw [hs] at h; exact ⟨sel, rfl, h⟩

theorem sampleMateRealSus_split {w : List ℚ} {xmap : Rows} {nc : Nat} {sigma : List Nat} {o : ℚ}
    {perm perm2 : List Nat} {rows : Rows}
    (h : sampleMateRealSus w xmap nc sigma o perm perm2 = .ok rows) :
    ∃ sel, susDraws w [nc] sigma o perm = .ok sel ∧ sampleMateReal sel xmap nc perm2 = .ok rows := by
  unfold sampleMateRealSus at h
  cases hs : susDraws w [nc] sigma o perm with
  | error e => rw [hs] at h; cases h
  | ok sel => rw [hs] at h; exact ⟨sel, rfl, h⟩

theorem prod_pair (nc np : Nat) : ([nc, np] : List Nat).prod = nc * np := by simp

theorem prod_single (nc : Nat) : ([nc] : List Nat).prod = nc := by simp

/-- the arrangement steps keep the multiset of the sampler's draws -/
theorem sampleReal_perm (sus : List Nat) (nc np : Nat) (orders rowperms : List (List Nat)) (rows : Rows)
    (hlen : sus.length = nc * np) (va : ValidArrange nc np orders rowperms)
    (h : sampleReal sus nc np orders rowperms = .ok rows) : rows.flatten.Perm sus := by
  unfold sampleReal at h
  rw [if_neg (by simpa using hlen)] at h
  exact (arrange_facts hlen va h).2.1

/-- if the sampler's draws meet the sampler's contract, the configuration built from them meets the Spec -/
theorem sampleReal_spec_of_contract (w : List Rat) (sus : List Nat) (nc np : Nat)
    (orders rowperms : List (List Nat)) (rows : Rows)
    (hlen : sus.length = nc * np) (hsup : supportOk w sus = true) (hshare : withinOne w (nc * np) sus = true)
    (va : ValidArrange nc np orders rowperms)
    (h : sampleReal sus nc np orders rowperms = .ok rows) :
    specContribution w nc np rows = true := by
  unfold sampleReal at h
  rw [if_neg (by simpa using hlen)] at h
  obtain ⟨hr, hp, ho, _⟩ := arrange_facts hlen va h
  simp only [specContribution, Bool.and_eq_true]
  refine ⟨⟨⟨(shapeOk_iff _ _ _).mpr hr, ?_⟩, ?_⟩, (localOpt_iff _ _ _).mpr ho⟩
  · simp only [supportOk, List.all_eq_true] at hsup ⊢
    intro i hi
    exact hsup i (hp.mem_iff.mp hi)
  · simp only [withinOne, List.all_eq_true] at hshare ⊢
    intro i hi
    rw [hp.count_eq]
    exact hshare i hi

theorem sampleMateReal_lookup (sus : List Nat) (xmap : Rows) (nc : Nat) (perm2 : List Nat) (rows : Rows)
    (hlen : sus.length = nc) (hp2 : perm2.Perm (List.range nc))
    (h : sampleMateReal sus xmap nc perm2 = .ok rows) :
    ∃ out : List Nat, out.Perm sus ∧ rows = out.map (fun d => xmap.getD d []) ∧ ∀ d ∈ out, d < xmap.length := by
  unfold sampleMateReal at h
  rw [if_neg (by simpa using hlen)] at h
  obtain ⟨e1, e2⟩ := lookup_ok xmap _ rows h
  exact ⟨Np.take perm2 sus, take_perm sus perm2 (by rw [hlen]; exact hp2), e1, e2⟩

end XConfig
