/-
Helper lemmas for C19: the literal index-juggling transcription of `is_pareto_efficient`
(`Pareto.loop`) equals the two-list form (`Pareto.paretoGo`), and the invariant proof of the
two-list form for any test that is reflexive and transitive on the input points.
-/
import Mathlib.Tactic
import PybropsModel.Model.Pareto
set_option autoImplicit false

namespace Pareto

/-! ### boolean-mask selection -/

theorem compress_map_filter {β : Type} (f : β → Bool) (l : List β) :
    Np.compress (l.map f) l = l.filter f := by
  induction l with
  | nil => simp [Np.compress]
  | cons a l ih =>
    unfold Np.compress at ih ⊢
    simp only [List.map_cons, List.zip_cons_cons, List.filterMap_cons, List.filter_cons]
    cases h : f a <;> simp [ih]

theorem compress_append {β : Type} (m1 m2 : List Bool) (l1 l2 : List β) (h : m1.length = l1.length) :
    Np.compress (m1 ++ m2) (l1 ++ l2) = Np.compress m1 l1 ++ Np.compress m2 l2 := by
  unfold Np.compress
  rw [List.zip_append h, List.filterMap_append]

theorem count_map_eq_filter {β : Type} (f : β → Bool) (l : List β) :
    List.count true (l.map f) = (l.filter f).length := by
  induction l with
  | nil => simp
  | cons a l ih => cases h : f a <;> simp [h, ih]

/-- mask over `zipIdx` when the pivot index is outside the index range of the list -/
theorem mask_off {β : Type} (f : β → Bool) (pt : Nat) (l : List β) (k : Nat)
    (h : pt < k ∨ k + l.length ≤ pt) :
    (l.zipIdx k).map (fun ri => ri.2 == pt || f ri.1) = l.map f := by
  induction l generalizing k with
  | nil => simp
  | cons a l ih =>
    simp only [List.zipIdx_cons, List.map_cons, List.length_cons] at *
    have hk : (k == pt) = false := by
      rcases h with h | h <;> simp <;> omega
    rw [hk, ih (k+1) (by omega)]
    simp

section loop
variable {α : Type} [Mul α] [LT α] [DecidableLT α]

/-- the Boolean test on indexed rows used by the loop -/
def wdI (r p : Nat × List α) : Bool := weakDom r.2 p.2

theorem step_split (A B : List (Nat × List α)) (piv : Nat × List α) :
    step (A ++ piv :: B) A.length =
      (A.filter (fun r => !wdI r piv) ++ piv :: B.filter (fun r => !wdI r piv),
       (A.filter (fun r => !wdI r piv)).length + 1) := by
  unfold step
  have hget : (A ++ piv :: B)[A.length]? = some piv := by simp
  rw [hget]
  simp only
  have hmask : ((A ++ piv :: B).zipIdx).map (fun ri => ri.2 == A.length || !weakDom ri.1.2 piv.2)
      = A.map (fun r => !wdI r piv) ++ true :: B.map (fun r => !wdI r piv) := by
    rw [List.zipIdx_append, List.map_append, List.zipIdx_cons, List.map_cons]
    have h1 := mask_off (fun r : Nat × List α => !wdI r piv) A.length A 0 (by omega)
    have h2 := mask_off (fun r : Nat × List α => !wdI r piv) A.length B (0 + A.length + 1) (by omega)
    simp only [wdI] at h1 h2
    rw [h1, h2]
    simp [wdI]
  rw [hmask]
  apply Prod.ext
  · show Np.compress _ _ = _
    · rw [compress_append _ _ _ _ (by simp), compress_map_filter]
      congr 1
      have : (true :: B.map (fun r => !wdI r piv)) = ([true] ++ B.map (fun r => !wdI r piv)) := rfl
      rw [this, show piv :: B = [piv] ++ B from rfl, compress_append _ _ _ _ (by simp), compress_map_filter]
      simp [Np.compress]
  · show _ + 1 = _ + 1
    rw [List.take_left' (by simp)]
    rw [count_map_eq_filter]

/-- the literal loop computes the two-list form -/
theorem loop_eq_paretoGo (fuel : Nat) (A B : List (Nat × List α)) (h : B.length ≤ fuel) :
    loop fuel (A ++ B) A.length = paretoGo wdI A B := by
  induction fuel generalizing A B with
  | zero =>
    have : B = [] := List.length_eq_zero_iff.mp (by omega)
    subst this
    simp [loop, paretoGo]
  | succ fuel ih =>
    cases B with
    | nil => simp [loop, paretoGo]
    | cons piv B =>
      rw [loop, paretoGo]
      have hlt : A.length < (A ++ piv :: B).length := by simp
      rw [if_pos hlt, step_split]
      simp only
      have key := ih (A.filter (fun r => !wdI r piv) ++ [piv]) (B.filter (fun r => !wdI r piv))
        (by
          have := List.length_filter_le (fun r => !wdI r piv) B
          simp only [List.length_cons] at h
          omega)
      simp only [List.length_append, List.length_cons, List.length_nil, List.append_assoc,
        List.cons_append, List.nil_append] at key
      exact key

end loop

/-! ### invariant of the two-list form (any test that is reflexive and transitive on the input) -/

section inv
variable {P : Type} [DecidableEq P]

structure PInv (wd : P → P → Bool) (orig done rest : List P) : Prop where
  sub : ∀ x, x ∈ done ++ rest → x ∈ orig
  cover : ∀ r ∈ orig, r ∉ done ++ rest → ∃ s ∈ done ++ rest, wd r s = true
  piv : ∀ e ∈ done, ∀ z ∈ done ++ rest, z ≠ e → wd z e = false

omit [DecidableEq P] in
/-- one iteration keeps the alive list duplicate-free -/
theorem nodup_step (wd : P → P → Bool) (done rest : List P) (p : P) (hnd : (done ++ p :: rest).Nodup) :
    (done.filter (fun r => !wd r p) ++ [p] ++ rest.filter (fun r => !wd r p)).Nodup := by
  have h1 : (done ++ p :: rest).Nodup := hnd
  rw [List.nodup_append] at h1 ⊢
  obtain ⟨hd, hpr, hdis⟩ := h1
  rw [List.nodup_cons] at hpr
  refine ⟨?_, hpr.2.filter _, ?_⟩
  · rw [List.nodup_append]
    refine ⟨hd.filter _, List.nodup_singleton p, ?_⟩
    intro a ha b hb
    simp only [List.mem_singleton] at hb
    subst hb
    exact hdis a (List.mem_of_mem_filter ha) _ (List.mem_cons_self)
  · intro a ha b hb
    have hb' := List.mem_of_mem_filter hb
    rcases List.mem_append.mp ha with ha | ha
    · exact hdis a (List.mem_of_mem_filter ha) b (List.mem_cons_of_mem _ hb')
    · simp only [List.mem_singleton] at ha
      subst ha
      intro h; subst h; exact hpr.1 hb'

/-- one iteration preserves the invariant -/
theorem PInv_step (wd : P → P → Bool) (orig : List P)
    (trans : ∀ a ∈ orig, ∀ b ∈ orig, ∀ c ∈ orig, wd a b = true → wd b c = true → wd a c = true)
    (done rest : List P) (p : P) (hinv : PInv wd orig done (p :: rest)) :
    PInv wd orig (done.filter (fun r => !wd r p) ++ [p]) (rest.filter (fun r => !wd r p)) := by
  have hp : p ∈ orig := hinv.sub _ (by simp)
  have memNew : ∀ x, x ∈ done.filter (fun r => !wd r p) ++ [p] ++ rest.filter (fun r => !wd r p) ↔
      (x = p ∨ (x ∈ done ++ rest ∧ wd x p = false)) := by
    intro x
    simp only [List.mem_append, List.mem_filter, List.mem_singleton, Bool.not_eq_true']
    tauto
  refine ⟨?_, ?_, ?_⟩
  · intro x hx
    rcases (memNew x).mp hx with h | ⟨h, _⟩
    · subst h; exact hinv.sub _ (by simp)
    · apply hinv.sub; rcases List.mem_append.mp h with h | h
      · exact List.mem_append.mpr (Or.inl h)
      · exact List.mem_append.mpr (Or.inr (List.mem_cons_of_mem _ h))
  · intro r hr hnot
    have pin : p ∈ done.filter (fun r => !wd r p) ++ [p] ++ rest.filter (fun r => !wd r p) :=
      (memNew p).mpr (Or.inl rfl)
    by_cases hold : r ∈ done ++ p :: rest
    · have hrp : r ≠ p := fun h => hnot (h ▸ pin)
      have hin : r ∈ done ++ rest := by
        rcases List.mem_append.mp hold with h | h
        · exact List.mem_append.mpr (Or.inl h)
        · rcases List.mem_cons.mp h with h | h
          · exact absurd h hrp
          · exact List.mem_append.mpr (Or.inr h)
      have : wd r p = true := by
        by_contra hw
        exact hnot ((memNew r).mpr (Or.inr ⟨hin, by simpa using hw⟩))
      exact ⟨p, pin, this⟩
    · obtain ⟨s, hs, hrs⟩ := hinv.cover r hr hold
      have hso : s ∈ orig := hinv.sub s hs
      by_cases hsp : wd s p = true
      · exact ⟨p, pin, trans _ hr _ hso _ hp hrs hsp⟩
      · refine ⟨s, (memNew s).mpr ?_, hrs⟩
        by_cases hsp' : s = p
        · exact Or.inl hsp'
        · right
          refine ⟨?_, by simpa using hsp⟩
          rcases List.mem_append.mp hs with h | h
          · exact List.mem_append.mpr (Or.inl h)
          · rcases List.mem_cons.mp h with h | h
            · exact absurd h hsp'
            · exact List.mem_append.mpr (Or.inr h)
  · intro e he z hz hze
    have hz' := (memNew z).mp hz
    rcases List.mem_append.mp he with he | he
    · have he' := List.mem_of_mem_filter he
      apply hinv.piv e he' z _ hze
      rcases hz' with h | ⟨h, _⟩
      · subst h; simp
      · rcases List.mem_append.mp h with h | h
        · exact List.mem_append.mpr (Or.inl h)
        · exact List.mem_append.mpr (Or.inr (List.mem_cons_of_mem _ h))
    · simp only [List.mem_singleton] at he
      subst he
      rcases hz' with h | ⟨_, h⟩
      · exact absurd h hze
      · exact h


theorem paretoGo_inv (wd : P → P → Bool) (orig : List P)
    (trans : ∀ a ∈ orig, ∀ b ∈ orig, ∀ c ∈ orig, wd a b = true → wd b c = true → wd a c = true) :
    ∀ (n : ℕ) (done rest : List P), rest.length = n → (done ++ rest).Nodup → PInv wd orig done rest →
      PInv wd orig (paretoGo wd done rest) [] := by
  intro n
  induction n using Nat.strong_induction_on with
  | _ n ih =>
    intro done rest hlen hnd hinv
    cases rest with
    | nil => rw [paretoGo]; exact hinv
    | cons p rest =>
      rw [paretoGo]
      refine ih (rest.filter (fun r => !wd r p)).length ?_ _ _ rfl (nodup_step wd done rest p hnd)
        (PInv_step wd orig trans done rest p hinv)
      rw [← hlen]; simp only [List.length_cons]
      exact Nat.lt_succ_of_le (List.length_filter_le _ _)

/-- soundness + completeness of the two-list filter, for any test that is reflexive and transitive
    on the input points -/
theorem pareto_correct (wd : P → P → Bool) (orig : List P)
    (refl : ∀ a ∈ orig, wd a a = true)
    (trans : ∀ a ∈ orig, ∀ b ∈ orig, ∀ c ∈ orig, wd a b = true → wd b c = true → wd a c = true)
    (hnd : orig.Nodup) :
    (∀ x ∈ paretoGo wd [] orig, x ∈ orig) ∧
    (∀ r ∈ orig, r ∉ paretoGo wd [] orig → ∃ s ∈ paretoGo wd [] orig, wd r s = true) ∧
    (∀ x ∈ paretoGo wd [] orig, ∀ y ∈ orig, wd x y = true → wd y x = true) := by
  have hinv0 : PInv wd orig [] orig :=
    ⟨by simp, fun r hr hn => absurd (by simpa using hr) hn, by simp⟩
  have h := paretoGo_inv wd orig trans orig.length [] orig rfl (by simpa using hnd) hinv0
  refine ⟨fun x hx => h.sub x (by simpa using hx), fun r hr hn => ?_, ?_⟩
  · obtain ⟨s, hs, hrs⟩ := h.cover r hr (by simpa using hn)
    exact ⟨s, by simpa using hs, hrs⟩
  · intro x hx y hy hxy
    have hxo : x ∈ orig := h.sub x (by simpa using hx)
    by_cases hyx : y = x
    · subst hyx; exact refl _ hy
    by_cases hyin : y ∈ paretoGo wd [] orig
    · have := h.piv y hyin x (by simpa using hx) (Ne.symm hyx)
      simp [hxy] at this
    · obtain ⟨s, hs, hys⟩ := h.cover y hy (by simpa using hyin)
      have hs' : s ∈ paretoGo wd [] orig := by simpa using hs
      have hso : s ∈ orig := h.sub s hs
      have hxs := trans _ hxo _ hy _ hso hxy hys
      by_cases hsx : s = x
      · subst hsx; exact hys
      · have := h.piv s hs' x (by simpa using hx) (Ne.symm hsx)
        simp [hxs] at this

omit [DecidableEq P] in
/-- the two-list filter keeps the input order (it is a sublist of `done ++ rest`) -/
theorem paretoGo_sublist (wd : P → P → Bool) :
    ∀ (n : ℕ) (done rest : List P), rest.length = n → (paretoGo wd done rest).Sublist (done ++ rest) := by
  intro n
  induction n using Nat.strong_induction_on with
  | _ n ih =>
    intro done rest hlen
    cases rest with
    | nil => rw [paretoGo]; simp
    | cons p rest =>
      rw [paretoGo]
      have := ih (rest.filter (fun r => !wd r p)).length
        (by rw [← hlen]; simp only [List.length_cons]; exact Nat.lt_succ_of_le (List.length_filter_le _ _))
        (done.filter (fun r => !wd r p) ++ [p]) (rest.filter (fun r => !wd r p)) rfl
      refine this.trans ?_
      rw [List.append_assoc]
      apply List.Sublist.append (List.filter_sublist)
      simp only [List.cons_append, List.nil_append]
      exact List.Sublist.cons_cons _ (List.filter_sublist)

end inv
end Pareto
