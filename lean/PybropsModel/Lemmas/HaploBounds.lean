/-
Helper lemmas for C18 (3): `haplobin_bounds`.  The literal loop equals the closed form
`hstix = 0 :: B`, `hspix = B ++ [len]` with `B = breaksFrom …` the positions where the label changes;
`B` is strictly increasing inside `[1, len)`; the number of runs of a sorted label vector is the number
of distinct labels; runs are additive over a concatenation whose parts do not share a label.
-/
import Mathlib.Tactic
import PybropsModel.Model.Haplo
set_option autoImplicit false

namespace Haplo

section
variable {β : Type} [DecidableEq β]

theorem boundsLoop_eq (prev : β) (i : Nat) (xs : List β) (st sp : List Nat) :
    boundsLoop prev i xs st sp = (st ++ breaksFrom prev i xs, sp ++ breaksFrom prev i xs) := by
  induction xs generalizing prev i st sp with
  | nil => simp [boundsLoop, breaksFrom]
  | cons x xs ih =>
    simp only [boundsLoop, breaksFrom]
    split
    · rw [ih]; simp
    · rw [ih]

/-- **closed form of `haplobin_bounds`** -/
theorem haplobinBounds_eq (a : β) (xs : List β) :
    haplobinBounds (a :: xs) =
      .ok (0 :: breaksFrom a 1 xs, breaksFrom a 1 xs ++ [xs.length + 1],
           List.zipWith (fun e s => e - s) (breaksFrom a 1 xs ++ [xs.length + 1]) (0 :: breaksFrom a 1 xs)) := by
  simp [haplobinBounds, boundsLoop_eq]

theorem breaksFrom_bounds (prev : β) (i : Nat) (xs : List β) :
    ∀ b ∈ breaksFrom prev i xs, i ≤ b ∧ b < i + xs.length := by
  induction xs generalizing prev i with
  | nil => simp [breaksFrom]
  | cons x xs ih =>
    intro b hb
    simp only [breaksFrom] at hb
    split at hb
    · simp only [List.mem_cons] at hb
      rcases hb with rfl | hb
      · simp
      · have := ih x (i + 1) b hb
        simp only [List.length_cons]; omega
    · have := ih prev (i + 1) b hb
      simp only [List.length_cons]; omega

theorem breaksFrom_sorted (prev : β) (i : Nat) (xs : List β) :
    (breaksFrom prev i xs).Pairwise (· < ·) := by
  induction xs generalizing prev i with
  | nil => simp [breaksFrom]
  | cons x xs ih =>
    simp only [breaksFrom]
    split
    · rw [List.pairwise_cons]
      refine ⟨fun b hb => ?_, ih x (i + 1)⟩
      have := (breaksFrom_bounds x (i + 1) xs b hb).1
      omega
    · exact ih prev (i + 1)

/-- the run count does not depend on the index the loop starts from -/
theorem breaksFrom_length_shift (prev : β) (i j : Nat) (xs : List β) :
    (breaksFrom prev i xs).length = (breaksFrom prev j xs).length := by
  induction xs generalizing prev i j with
  | nil => simp [breaksFrom]
  | cons x xs ih =>
    simp only [breaksFrom]
    split
    · simp only [List.length_cons]; rw [ih x (i + 1) (j + 1)]
    · exact ih prev (i + 1) (j + 1)

/-- label that precedes position `i + xs.length` -/
def lastOf : β → List β → β
  | p, [] => p
  | _, x :: xs => lastOf x xs

theorem lastOf_cons (prev x : β) (xs : List β) : lastOf prev (x :: xs) = lastOf x xs := rfl

theorem getLast?_cons_eq_lastOf (x : β) (xs : List β) : (x :: xs).getLast? = some (lastOf x xs) := by
  induction xs generalizing x with
  | nil => rfl
  | cons y ys ih => rw [List.getLast?_cons_cons, ih y]; rfl

theorem breaksFrom_append (prev : β) (i : Nat) (xs ys : List β) :
    breaksFrom prev i (xs ++ ys) =
      breaksFrom prev i xs ++ breaksFrom (lastOf prev xs) (i + xs.length) ys := by
  induction xs generalizing prev i with
  | nil => simp [breaksFrom, lastOf]
  | cons x xs ih =>
    simp only [List.cons_append, breaksFrom, lastOf_cons, List.length_cons]
    split
    · rw [ih x (i + 1)]
      simp only [List.cons_append]
      congr 2
      congr 1; omega
    · rename_i h
      have hx : x = prev := by simpa using h
      subst hx
      rw [ih x (i + 1)]
      congr 2; omega

/-- number of blocks that `haplobin_bounds` reports -/
def nruns : List β → Nat
  | [] => 0
  | a :: xs => (breaksFrom a 1 xs).length + 1

theorem blockPairs_length (l : List β) : (blockPairs l).length = nruns l := by
  cases l with
  | nil => simp [blockPairs, nruns]
  | cons a xs => simp [blockPairs, nruns]

/-- runs are additive over a concatenation whose junction changes the label -/
theorem nruns_append (l1 l2 : List β) (a : β) (b : β) (h1 : l1.getLast? = some a) (h2 : l2.head? = some b)
    (hab : a ≠ b) : nruns (l1 ++ l2) = nruns l1 + nruns l2 := by
  cases l1 with
  | nil => simp at h1
  | cons x xs =>
    cases l2 with
    | nil => simp at h2
    | cons y ys =>
      simp only [List.head?_cons, Option.some.injEq] at h2
      subst h2
      have hl : lastOf x xs = a := by
        rw [getLast?_cons_eq_lastOf] at h1
        exact Option.some.inj h1
      simp only [List.cons_append, nruns, breaksFrom_append, hl, breaksFrom, List.length_append]
      have hne : y ≠ a := fun h => hab h.symm
      simp only [hne, ne_eq, not_false_eq_true, if_true, List.length_cons]
      rw [breaksFrom_length_shift y (1 + xs.length + 1) 1 ys]
      omega

/-- at such a junction a new block starts: the length of the first part is a block start -/
theorem junction_mem_starts (l1 l2 : List β) (a b : β) (h1 : l1.getLast? = some a) (h2 : l2.head? = some b)
    (hab : a ≠ b) : ∃ x xs, l1 ++ l2 = x :: xs ∧ l1.length ∈ breaksFrom x 1 xs := by
  cases l1 with
  | nil => simp at h1
  | cons x xs =>
    cases l2 with
    | nil => simp at h2
    | cons y ys =>
      simp only [List.head?_cons, Option.some.injEq] at h2
      subst h2
      refine ⟨x, xs ++ y :: ys, rfl, ?_⟩
      have hl : lastOf x xs = a := by
        rw [getLast?_cons_eq_lastOf] at h1
        exact Option.some.inj h1
      rw [breaksFrom_append, hl]
      simp only [breaksFrom]
      have hne : y ≠ a := fun h => hab h.symm
      simp only [hne, ne_eq, not_false_eq_true, if_true, List.length_cons, List.mem_append, List.mem_cons]
      right; left; omega

end

/-! ### sorted label vectors: runs = distinct labels -/

theorem nruns_sorted_eq_dedup (l : List Nat) (h : l.Pairwise (· ≤ ·)) : nruns l = l.dedup.length := by
  cases l with
  | nil => simp [nruns]
  | cons a xs =>
    simp only [nruns]
    induction xs generalizing a with
    | nil => simp [breaksFrom]
    | cons x xs ih =>
      have hs : (x :: xs).Pairwise (· ≤ ·) := (List.pairwise_cons.mp h).2
      have hax : a ≤ x := (List.pairwise_cons.mp h).1 x List.mem_cons_self
      simp only [breaksFrom]
      by_cases hxa : x = a
      · subst hxa
        simp only [ne_eq, not_true_eq_false, if_false]
        rw [breaksFrom_length_shift x 2 1 xs, ih x hs]
        rw [List.dedup_cons_of_mem (List.mem_cons_self)]
      · simp only [ne_eq, hxa, not_false_eq_true, if_true, List.length_cons]
        rw [breaksFrom_length_shift x 2 1 xs, ih x hs]
        have hnot : a ∉ x :: xs := by
          intro hm
          have hlt : a < x := lt_of_le_of_ne hax (fun h => hxa h.symm)
          rcases List.mem_cons.mp hm with rfl | hm
          · exact lt_irrefl _ hlt
          · have := (List.pairwise_cons.mp hs).1 a hm
            omega
        rw [List.dedup_cons_of_notMem hnot]
        simp

/-- a sorted label vector over `{0, …, N-1}` has at most `N` runs -/
theorem nruns_le_of_lt (l : List Nat) (N : Nat) (h : l.Pairwise (· ≤ ·)) (hN : ∀ x ∈ l, x < N) :
    nruns l ≤ N := by
  rw [nruns_sorted_eq_dedup l h]
  have hsub : l.dedup ⊆ List.range N := by
    intro x hx
    exact List.mem_range.mpr (hN x (List.mem_dedup.mp hx))
  have := (List.subperm_of_subset (List.nodup_dedup l) hsub).length_le
  simpa using this

/-- … and exactly `N` runs when every label is used -/
theorem nruns_eq_of_surj (l : List Nat) (N : Nat) (h : l.Pairwise (· ≤ ·)) (hN : ∀ x ∈ l, x < N)
    (hall : ∀ j < N, j ∈ l) : nruns l = N := by
  rw [nruns_sorted_eq_dedup l h]
  have hperm : l.dedup.Perm (List.range N) := by
    rw [List.perm_ext_iff_of_nodup (List.nodup_dedup l) List.nodup_range]
    intro x
    simp only [List.mem_dedup, List.mem_range]
    exact ⟨hN x, hall x⟩
  simpa using hperm.length_eq

/-- … and strictly fewer when some label is not used -/
theorem nruns_lt_of_missing (l : List Nat) (N : Nat) (h : l.Pairwise (· ≤ ·)) (hN : ∀ x ∈ l, x < N)
    (j : Nat) (hj : j < N) (hmiss : j ∉ l) : nruns l < N := by
  rw [nruns_sorted_eq_dedup l h]
  have hsub : l.dedup ⊆ (List.range N).erase j := by
    intro x hx
    have hx' := List.mem_dedup.mp hx
    rw [List.Nodup.mem_erase_iff List.nodup_range]
    exact ⟨fun e => hmiss (e ▸ hx'), List.mem_range.mpr (hN x hx')⟩
  have h1 := (List.subperm_of_subset (List.nodup_dedup l) hsub).length_le
  have h2 : ((List.range N).erase j).length = N - 1 := by
    rw [List.length_erase_of_mem (List.mem_range.mpr hj)]; simp
  omega

end Haplo
