/-
Abstract semantics of `h5py_File_write_dict` (as is and patched) and the refinement lemmas:
on a file whose keys stay inside a prefix-free set of paths the list-level functions never fail
and compute exactly the abstract update.
-/
import PybropsModel.Lemmas.StoreFile

set_option autoImplicit false

namespace Store

/-! ### abstract semantics -/

def semLeaves (g : Path) : List (String × Option DS) → Sem → Sem
  | [], s => s
  | (_, none) :: r, s => semLeaves g r s
  | (k, some d) :: r, s => semLeaves g r (upd s (g ++ [k]) d)

def semItems (fixed : Bool) (g : Path) : Obj → Sem → Sem
  | [], s => s
  | (k, .none) :: r, s => semItems fixed g r (if fixed then erase s (g ++ [k]) else s)
  | (k, .data d) :: r, s => semItems fixed g r (upd s (g ++ [k]) d)
  | (k, .dict kvs) :: r, s =>
      semItems fixed g r (semLeaves (g ++ [k]) kvs (if fixed then erase s (g ++ [k]) else s))
  | (_, .bad) :: _, s => s

def semHist (fixed : Bool) : List Write → Sem → Sem
  | [], s => s
  | w :: r, s => semHist fixed r (semItems fixed w.g w.obj s)

/-! ### which paths a write touches -/

/-- every leaf the dictionary writes lies in `S` -/
def LeavesIn (S : Path → Prop) (g : Path) (kvs : List (String × Option DS)) : Prop :=
  ∀ kv ∈ kvs, kv.2 ≠ none → S (g ++ [kv.1])

/-- every leaf the object writes lies in `S`; no unsupported value -/
def ItemIn (S : Path → Prop) (g : Path) (k : String) : Item → Prop
  | .none => True
  | .data _ => S (g ++ [k])
  | .dict kvs => LeavesIn S (g ++ [k]) kvs
  | .bad => False

def ObjIn (S : Path → Prop) (g : Path) (o : Obj) : Prop := ∀ kv ∈ o, ItemIn S g kv.1 kv.2

def HistIn (S : Path → Prop) (H : List Write) : Prop := ∀ w ∈ H, ObjIn S w.g w.obj

/-- file-level invariant carried through a history -/
structure Good (S : Path → Prop) (f : File) : Prop where
  keysIn : KeysIn S f
  nodup : (keys f).Nodup

theorem good_nil (S : Path → Prop) : Good S [] := ⟨fun _ h => by simp at h, by simp [keys]⟩

theorem good_del {S : Path → Prop} {f : File} (h : Good S f) (p : Path) : Good S (del f p) :=
  ⟨keysIn_del h.keysIn p, nodup_del h.nodup p⟩

theorem good_put {S : Path → Prop} {f : File} (h : Good S f) {p : Path} (hp : S p) (d : DS) :
    Good S ((p, d) :: del f p) :=
  ⟨keysIn_put h.keysIn hp d, nodup_put h.nodup p d⟩

theorem append_singleton_ne_nil (g : Path) (k : String) : g ++ [k] ≠ [] := by simp

/-! ### refinement -/

theorem writeLeaves_sem {S : Path → Prop} (hS : PrefixFree S) (g : Path)
    (kvs : List (String × Option DS)) :
    ∀ (f : File), Good S f → LeavesIn S g kvs →
      ∃ f', writeLeaves g true f kvs = (f', none) ∧ Good S f' ∧
        lookup f' = semLeaves g kvs (lookup f) := by
  induction kvs with
  | nil => intro f hf _; exact ⟨f, rfl, hf, rfl⟩
  | cons kv r ih =>
    intro f hf hin
    obtain ⟨k, v⟩ := kv
    have hr : LeavesIn S g r := fun e he => hin e (List.mem_cons_of_mem _ he)
    cases v with
    | none =>
      obtain ⟨f', h1, h2, h3⟩ := ih f hf hr
      exact ⟨f', by simp [writeLeaves, h1], h2, by simp [semLeaves, h3]⟩
    | some d =>
      have hp : S (g ++ [k]) := hin (k, some d) List.mem_cons_self (by simp)
      have hput := putLeaf_ok hS hf.keysIn hp (append_singleton_ne_nil g k) d
      obtain ⟨f', h1, h2, h3⟩ := ih _ (good_put hf hp d) hr
      refine ⟨f', ?_, h2, ?_⟩
      · simp only [writeLeaves, hput, h1]
      · rw [h3, lookup_put f (g ++ [k]) d]; rfl

theorem writeItemsPrerepair_sem {S : Path → Prop} (hS : PrefixFree S) (g : Path) (o : Obj) :
    ∀ (f : File), Good S f → ObjIn S g o →
      ∃ f', writeItemsPrerepair g true f o = (f', none) ∧ Good S f' ∧
        lookup f' = semItems false g o (lookup f) := by
  induction o with
  | nil => intro f hf _; exact ⟨f, rfl, hf, rfl⟩
  | cons kv r ih =>
    intro f hf hin
    obtain ⟨k, it⟩ := kv
    have hr : ObjIn S g r := fun e he => hin e (List.mem_cons_of_mem _ he)
    have hk : ItemIn S g k it := hin (k, it) List.mem_cons_self
    cases it with
    | none =>
      obtain ⟨f', h1, h2, h3⟩ := ih f hf hr
      exact ⟨f', by simp [writeItemsPrerepair, h1], h2, by simp [semItems, h3]⟩
    | data d =>
      have hp : S (g ++ [k]) := hk
      have hput := putLeaf_ok hS hf.keysIn hp (append_singleton_ne_nil g k) d
      obtain ⟨f', h1, h2, h3⟩ := ih _ (good_put hf hp d) hr
      refine ⟨f', ?_, h2, ?_⟩
      · simp only [writeItemsPrerepair, hput, h1]
      · rw [h3, lookup_put f (g ++ [k]) d]; rfl
    | dict kvs =>
      obtain ⟨f1, a1, a2, a3⟩ := writeLeaves_sem hS (g ++ [k]) kvs f hf hk
      obtain ⟨f', h1, h2, h3⟩ := ih f1 a2 hr
      refine ⟨f', ?_, h2, ?_⟩
      · simp only [writeItemsPrerepair, a1, h1]
      · rw [h3, a3]; simp [semItems]
    | bad => exact absurd hk (by simp [ItemIn])

theorem fixDel_good {S : Path → Prop} {f : File} (hf : Good S f) (p : Path) :
    Good S (if (true && mem f p) = true then del f p else f) := by
  by_cases h : mem f p = true
  · simp only [Bool.true_and, h, if_true]; exact good_del hf p
  · simp only [Bool.true_and, h]; exact hf

theorem fixDel_lookup (f : File) (p : Path) :
    lookup (if (true && mem f p) = true then del f p else f) = erase (lookup f) p := by
  by_cases h : mem f p = true
  · simp only [Bool.true_and, h, if_true]; exact lookup_erase f p
  · have h' : mem f p = false := by simpa using h
    simp only [Bool.true_and, h]
    rw [← lookup_erase, del_eq_self_of_not_mem f p h']
    simp

theorem writeItems_sem {S : Path → Prop} (hS : PrefixFree S) (g : Path) (o : Obj) :
    ∀ (f : File), Good S f → ObjIn S g o →
      ∃ f', writeItems g true f o = (f', none) ∧ Good S f' ∧
        lookup f' = semItems true g o (lookup f) := by
  induction o with
  | nil => intro f hf _; exact ⟨f, rfl, hf, rfl⟩
  | cons kv r ih =>
    intro f hf hin
    obtain ⟨k, it⟩ := kv
    have hr : ObjIn S g r := fun e he => hin e (List.mem_cons_of_mem _ he)
    have hk : ItemIn S g k it := hin (k, it) List.mem_cons_self
    cases it with
    | none =>
      obtain ⟨f', h1, h2, h3⟩ := ih _ (fixDel_good hf (g ++ [k])) hr
      refine ⟨f', by simp only [writeItems, h1], h2, ?_⟩
      rw [h3, fixDel_lookup]; simp [semItems]
    | data d =>
      have hp : S (g ++ [k]) := hk
      have hput := putLeaf_ok hS hf.keysIn hp (append_singleton_ne_nil g k) d
      obtain ⟨f', h1, h2, h3⟩ := ih _ (good_put hf hp d) hr
      refine ⟨f', ?_, h2, ?_⟩
      · simp only [writeItems, hput, h1]
      · rw [h3, lookup_put f (g ++ [k]) d]; rfl
    | dict kvs =>
      obtain ⟨f1, a1, a2, a3⟩ := writeLeaves_sem hS (g ++ [k]) kvs _ (fixDel_good hf (g ++ [k])) hk
      obtain ⟨f', h1, h2, h3⟩ := ih f1 a2 hr
      refine ⟨f', ?_, h2, ?_⟩
      · simp only [writeItems, a1, h1]
      · rw [h3, a3, fixDel_lookup]; simp [semItems]
    | bad => exact absurd hk (by simp [ItemIn])

/-- **Refinement of a whole history.**  If every leaf written in the history (and every key of the
    starting file) lies in a prefix-free set of paths, then no `to_hdf5` call fails and the file
    computed by the list-level model is the abstract one. -/
theorem runHist_sem {S : Path → Prop} (hS : PrefixFree S) (fixed : Bool) (H : List Write) :
    ∀ (f : File), Good S f → HistIn S H →
      ∃ f', runHistG fixed f H = (f', none) ∧ Good S f' ∧ lookup f' = semHist fixed H (lookup f) := by
  induction H with
  | nil => intro f hf _; exact ⟨f, rfl, hf, rfl⟩
  | cons w r ih =>
    intro f hf hin
    have hw : ObjIn S w.g w.obj := hin w List.mem_cons_self
    have hr : HistIn S r := fun e he => hin e (List.mem_cons_of_mem _ he)
    cases fixed with
    | false =>
      obtain ⟨f1, a1, a2, a3⟩ := writeItemsPrerepair_sem hS w.g w.obj f hf hw
      obtain ⟨f', h1, h2, h3⟩ := ih f1 a2 hr
      refine ⟨f', ?_, h2, ?_⟩
      · simp only [runHistG, a1]; simpa using h1
      · rw [h3, a3]; rfl
    | true =>
      obtain ⟨f1, a1, a2, a3⟩ := writeItems_sem hS w.g w.obj f hf hw
      obtain ⟨f', h1, h2, h3⟩ := ih f1 a2 hr
      refine ⟨f', ?_, h2, ?_⟩
      · simp only [runHistG, a1]; simpa using h1
      · rw [h3, a3]; rfl

end Store
