/-
Helper lemmas for C04: miscellaneous random effects in `predict_numpy`, breeding-value matrices as
phenotype input.
-/
import PybropsModel.Lemmas.GenomicEntries
set_option autoImplicit false
set_option linter.unusedSectionVars false
set_option linter.unusedSimpArgs false
set_option linter.unusedVariables false

namespace GMisc
open Finset BigOperators GMod GLin GSList GEnt

variable {α : Type} [Field α] [LinearOrder α] [IsStrictOrderedRing α]

theorem hcat_length {β : Type} (A B : List (List β)) : (hcat A B).length = min A.length B.length := by
  simp [hcat]

theorem madd_length (A B : List (List α)) : (madd A B).length = min A.length B.length := by
  simp [madd]

theorem madd_row_length (A B : List (List α)) (i t : ℕ) (hiA : i < A.length) (hiB : i < B.length)
    (hA : (A.getD i []).length = t) (hB : (B.getD i []).length = t) :
    ((madd A B).getD i []).length = t := by
  unfold madd vadd
  have hA' : (A[i]).length = t := by
    simpa [List.getD_eq_getElem?_getD, List.getElem?_eq_getElem hiA] using hA
  have hB' : (B[i]).length = t := by
    simpa [List.getD_eq_getElem?_getD, List.getElem?_eq_getElem hiB] using hB
  simp [List.getD_eq_getElem?_getD, List.getElem?_zipWith, List.getElem?_eq_getElem hiA,
    List.getElem?_eq_getElem hiB, hA', hB']

/-- **prediction with miscellaneous random effects**:
    `Ŷ_ik = Σ_r X_ir β_rk + Σ_l Zm_il m_lk + Σ_j Za_ij a_jk` -/
theorem predictNumpyMisc_entry (beta um ua X Zm Za : List (List α)) (t i k : ℕ)
    (hiX : i < X.length) (hiM : i < Zm.length) (hlen : Zm.length = Za.length) (hk : k < t)
    (hX : (X.getD i []).length = beta.length) (hZm : ∀ r ∈ Zm, r.length = um.length)
    (hZa : (Za.getD i []).length = ua.length) :
    matFn (predictNumpyMisc beta um ua X Zm Za t) i k
      = ∑ r ∈ range beta.length, matFn X i r * matFn beta r k
        + ∑ l ∈ range um.length, matFn Zm i l * matFn um l k
        + ∑ j ∈ range ua.length, matFn Za i j * matFn ua j k := by
  unfold predictNumpyMisc predictNumpy
  rw [matMul_hcat Zm Za um ua t hlen hZm]
  have hiA : i < Za.length := by omega
  have hrm : (Zm.getD i []).length = um.length := by
    rw [List.getD_eq_getElem?_getD, List.getElem?_eq_getElem hiM]
    exact hZm _ (List.getElem_mem hiM)
  have h1 : i < (matMul X beta t).length := by rw [GLin.matMul_length]; exact hiX
  have h2 : i < (matMul Zm um t).length := by rw [GLin.matMul_length]; exact hiM
  have h3 : i < (matMul Za ua t).length := by rw [GLin.matMul_length]; exact hiA
  have h23 : i < (madd (matMul Zm um t) (matMul Za ua t)).length := by
    rw [madd_length]; exact lt_min h2 h3
  rw [madd_entry _ _ i k h1 h23
        (by rw [matMul_row_length' _ _ t i hiX]; exact hk)
        (by rw [madd_row_length _ _ i t h2 h3 (matMul_row_length' _ _ t i hiM) (matMul_row_length' _ _ t i hiA)]
            exact hk),
      madd_entry _ _ i k h2 h3
        (by rw [matMul_row_length' _ _ t i hiM]; exact hk)
        (by rw [matMul_row_length' _ _ t i hiA]; exact hk),
      matMul_entry_sum X beta t i k beta.length hiX hk hX rfl,
      matMul_entry_sum Zm um t i k um.length hiM hk hrm rfl,
      matMul_entry_sum Za ua t i k ua.length hiA hk hZa rfl]
  ring

/-- round trip of the breeding-value scaling for any location and any non-zero scale -/
theorem unscale_standardise (Y : List (List α)) (loc scale : List α) (t : ℕ)
    (hY : ∀ r ∈ Y, r.length = t) (hl : loc.length = t) (hs : scale.length = t)
    (hne : ∀ s ∈ scale, s ≠ 0) :
    unscaleBV (standardiseBV Y loc scale) loc scale = Y := by
  unfold unscaleBV standardiseBV
  rw [List.map_map]
  conv_rhs => rw [← List.map_id Y]
  apply List.map_congr_left
  intro r hr
  simp only [Function.comp, id]
  have hz : (List.zip loc scale).length = t := by simp [hl, hs]
  apply List.ext_getElem
  · simp [hY r hr, hz]
  · intro j h1 h2
    simp only [List.getElem_zipWith, List.getElem_zip]
    have hjs : j < scale.length := by
      simp [List.length_zipWith, hz, hY r hr] at h1; omega
    have := hne _ (List.getElem_mem hjs)
    field_simp
    ring

end GMisc
