/-
Helper lemmas for C20: the relation between the symbolic states of the dataflow analysis
(Model/ProgramSym.lean) and concrete programme states, and its basic properties.
A valuation `ρ : List Ref` gives token `t` the reference `ρ[t]`; it only ever grows at the end.
-/
import PybropsModel.Lemmas.ProgramSteps
import PybropsModel.Model.ProgramSym
set_option autoImplicit false
set_option linter.unusedSectionVars false

namespace Program
section
variable {σ V : Type}

/-- the tokens `toks` denote the references `xs` -/
def tokRefs (ρ : List Ref) (toks : List Tok) (xs : List Ref) : Prop :=
  toks.map (fun t => ρ[t]?) = xs.map some

/-- every variable the analysis knows holds, concretely, the reference its token denotes -/
def RegRel (ρ : List Ref) (ar : Reg → Option Tok) (cr : Reg → Option Ref) : Prop :=
  ∀ r tok, ar r = some tok → ∃ x, ρ[tok]? = some x ∧ cr r = some x

def TRel (tv : TVal) (t base : Nat) : Prop :=
  match tv with
  | .unknown => True
  | .abs n => t = n
  | .rel n => t = base + n

/-- a recorded call is the one the analysis predicted -/
structure EvMatch (V0 : List (Option (View V))) (ρ : List Ref) (base : Nat) (rep0 : Int) (se : SEv) (ce : Event (View V)) :
    Prop where
  kind : ce.kind = se.kind
  known : se.t.known = true
  t : TRel se.t ce.t base
  rep : ce.rep = rep0 + se.rep
  start : ce.startVals = V0
  args : tokRefs ρ se.args ce.args
  rets : tokRefs ρ se.rets ce.rets
  argVals : ce.argVals.length = ce.args.length
  retVals : ce.retVals.length = ce.rets.length
  pristine : ∀ (j i : Nat), se.pristine[j]? = some (some i) → V0[i]? = ce.argVals[j]?

/-- a log call under `if loginit:` happens only when `loginit` -/
def visible (loginit : Bool) (se : SEv) : Bool := !se.guarded || loginit

/-- concretisation: the programme state `st` is one of those the analysis state `a` stands for -/
structure Conc (d : Nat) (V0 : List (Option (View V))) (loginit : Bool) (ρ : List Ref) (base : Nat) (rep0 : Int)
    (tr0 : List (Event (View V))) (a : AState) (st : State σ V) : Prop where
  next : a.next = ρ.length
  regs : RegRel ρ a.regs st.regs
  t : TRel a.t st.t base
  rep : st.rep = rep0 + a.rep
  pristine : ∀ tok i, (tok, i) ∈ a.pristine →
    ∃ x, ρ[tok]? = some x ∧ x < st.heap.length ∧ V0[i]? = some (viewO d st.heap x)
  trace : ∃ ces, st.trace = tr0 ++ ces ∧
    List.Forall₂ (EvMatch V0 ρ base rep0) (a.evs.filter (visible loginit)) ces

/-! ### growing the valuation -/

theorem getElem?_prefix {ρ ρ' : List Ref} (h : ρ <+: ρ') {t : Nat} {x : Ref} (hx : ρ[t]? = some x) :
    ρ'[t]? = some x := by
  obtain ⟨l, rfl⟩ := h
  have hlt : t < ρ.length := (List.getElem?_eq_some_iff.mp hx).1
  rw [List.getElem?_append_left hlt, hx]

theorem tokRefs_prefix {ρ ρ' : List Ref} (h : ρ <+: ρ') :
    ∀ {toks : List Tok} {xs : List Ref}, tokRefs ρ toks xs → tokRefs ρ' toks xs
  | [], [], _ => rfl
  | [], _ :: _, h' => by simp [tokRefs] at h'
  | _ :: _, [], h' => by simp [tokRefs] at h'
  | t :: toks, x :: xs, h' => by
    simp only [tokRefs, List.map_cons, List.cons.injEq] at h' ⊢
    exact ⟨getElem?_prefix h h'.1, tokRefs_prefix h (toks := toks) (xs := xs) h'.2⟩

theorem RegRel.prefix {ρ ρ' : List Ref} {ar : Reg → Option Tok} {cr : Reg → Option Ref}
    (h : RegRel ρ ar cr) (hp : ρ <+: ρ') : RegRel ρ' ar cr := by
  intro r tok hr
  obtain ⟨x, h1, h2⟩ := h r tok hr
  exact ⟨x, getElem?_prefix hp h1, h2⟩

theorem EvMatch.prefix {V0 : List (Option (View V))} {ρ ρ' : List Ref} {base : Nat} {rep0 : Int} {se : SEv}
    {ce : Event (View V)} (h : EvMatch V0 ρ base rep0 se ce) (hp : ρ <+: ρ') : EvMatch V0 ρ' base rep0 se ce :=
  ⟨h.kind, h.known, h.t, h.rep, h.start, tokRefs_prefix hp h.args, tokRefs_prefix hp h.rets, h.argVals,
    h.retVals, h.pristine⟩

theorem forall2_imp {α β : Type} {R R' : α → β → Prop} (h : ∀ a b, R a b → R' a b) :
    ∀ {l : List α} {m : List β}, List.Forall₂ R l m → List.Forall₂ R' l m
  | _, _, .nil => .nil
  | _, _, .cons hab t => .cons (h _ _ hab) (forall2_imp h t)

theorem forall2_append {α β : Type} {R : α → β → Prop} :
    ∀ {l₁ l₂ : List α} {m₁ m₂ : List β}, List.Forall₂ R l₁ m₁ → List.Forall₂ R l₂ m₂ →
      List.Forall₂ R (l₁ ++ l₂) (m₁ ++ m₂)
  | _, _, _, _, .nil, h => h
  | _, _, _, _, .cons hab t, h => .cons hab (forall2_append t h)

/-! ### registers -/

theorem RegRel.setReg {ρ : List Ref} {ar : Reg → Option Tok} {cr : Reg → Option Ref} (h : RegRel ρ ar cr)
    (d : Reg) (tok : Tok) (x : Ref) (hx : ρ[tok]? = some x) :
    RegRel ρ (Program.setReg ar d (some tok)) (Program.setReg cr d (some x)) := by
  intro r t hr
  by_cases e : r = d
  · subst e
    rw [setReg_same] at hr
    cases hr
    exact ⟨x, hx, setReg_same _ _ _⟩
  · rw [setReg_other _ _ _ _ e] at hr
    obtain ⟨y, h1, h2⟩ := h r t hr
    exact ⟨y, h1, by rw [setReg_other _ _ _ _ e]; exact h2⟩

theorem RegRel.assign {ρ : List Ref} :
    ∀ (rl : List Reg) (toks : List Tok) (xs : List Ref) {ar : Reg → Option Tok} {cr : Reg → Option Ref},
      RegRel ρ ar cr → tokRefs ρ toks xs → RegRel ρ (Program.assign ar rl toks) (Program.assign cr rl xs)
  | [], _, _, _, _, h, _ => by simpa [Program.assign] using h
  | _ :: _, [], [], _, _, h, _ => by simpa [Program.assign] using h
  | _ :: _, [], _ :: _, _, _, _, ht => by simp [tokRefs] at ht
  | _ :: _, _ :: _, [], _, _, _, ht => by simp [tokRefs] at ht
  | d :: rl, t :: toks, x :: xs, _, _, h, ht => by
    simp only [tokRefs, List.map_cons, List.cons.injEq] at ht
    rw [Program.assign, Program.assign]
    exact RegRel.assign rl toks xs (h.setReg d t x ht.1) ht.2

theorem resolve_rel {ρ : List Ref} {ar : Reg → Option Tok} {cr : Reg → Option Ref} (h : RegRel ρ ar cr) :
    ∀ (rl : List Reg) (toks : List Tok), resolve ar rl = some toks →
      ∃ xs, resolve cr rl = some xs ∧ tokRefs ρ toks xs
  | [], toks, hr => by
    simp only [resolve, Option.some.injEq] at hr
    subst hr
    exact ⟨[], rfl, rfl⟩
  | r :: rl, toks, hr => by
    simp only [resolve] at hr
    cases h1 : ar r with
    | none => simp [h1] at hr
    | some t =>
      cases h2 : resolve ar rl with
      | none => simp [h1, h2] at hr
      | some ts =>
        simp only [h1, h2, Option.some.injEq] at hr
        subst hr
        obtain ⟨x, hx1, hx2⟩ := h r t h1
        obtain ⟨xs, hxs1, hxs2⟩ := resolve_rel h rl ts h2
        refine ⟨x :: xs, by simp [resolve, hx2, hxs1], ?_⟩
        simp only [tokRefs, List.map_cons, List.cons.injEq] at hxs2 ⊢
        exact ⟨hx1, hxs2⟩

theorem bind_resolve_rel {ρ : List Ref} {ar : Reg → Option Tok} {cr : Reg → Option Ref} (h : RegRel ρ ar cr)
    (need : List Kw) (args : List (Kw × Reg)) (toks : List Tok)
    (hr : (bindArgs need args).bind (resolve ar) = some toks) :
    ∃ xs, (bindArgs need args).bind (resolve cr) = some xs ∧ tokRefs ρ toks xs := by
  cases hb : bindArgs need args with
  | none => simp [hb] at hr
  | some rl =>
    simp only [hb, Option.bind_some] at hr ⊢
    exact resolve_rel h rl toks hr

theorem tokRefs_fresh (ρ rs : List Ref) : tokRefs (ρ ++ rs) (freshToks ρ.length rs.length) rs := by
  unfold tokRefs freshToks
  rw [List.map_map]
  apply List.ext_getElem?
  intro i
  simp only [List.getElem?_map]
  by_cases hi : i < rs.length
  · simp [hi, List.getElem?_append_right]
  · simp [hi]

theorem tokRefs_length {ρ : List Ref} {toks : List Tok} {xs : List Ref} (h : tokRefs ρ toks xs) :
    toks.length = xs.length := by
  have := congrArg List.length h
  simpa using this

theorem tokRefs_take {ρ : List Ref} {toks : List Tok} {xs : List Ref} (h : tokRefs ρ toks xs) (n : Nat) :
    tokRefs ρ (toks.take n) (xs.take n) := by
  unfold tokRefs at h ⊢
  rw [List.map_take, List.map_take, h]

theorem tokRefs_append {ρ : List Ref} {t1 t2 : List Tok} {x1 x2 : List Ref} (h1 : tokRefs ρ t1 x1)
    (h2 : tokRefs ρ t2 x2) : tokRefs ρ (t1 ++ t2) (x1 ++ x2) := by
  unfold tokRefs at *
  rw [List.map_append, List.map_append, h1, h2]

/-- equal token lists denote equal reference lists -/
theorem tokRefs_inj {ρ : List Ref} {toks : List Tok} {xs ys : List Ref} (h1 : tokRefs ρ toks xs)
    (h2 : tokRefs ρ toks ys) : xs = ys :=
  map_some_inj _ _ (h1.symm.trans h2)

theorem lookupPristine_mem : ∀ (p : List (Tok × Nat)) (tok : Tok) (i : Nat),
    lookupPristine p tok = some i → (tok, i) ∈ p
  | [], _, _, h => by simp [lookupPristine] at h
  | (t, j) :: rest, tok, i, h => by
    simp only [lookupPristine] at h
    by_cases e : t = tok
    · simp only [e, if_true, Option.some.injEq] at h
      subst h; subst e
      simp
    · simp only [e, if_false] at h
      exact List.mem_cons_of_mem _ (lookupPristine_mem rest tok i h)

end
end Program
