/-
Helper lemmas for C11: `sort()` as the code performs it — `indices = numpy.lexsort((vrnt_genpos, vrnt_phypos,
vrnt_chrgrp)); reorder(indices)`, i.e. three stable ARGsorts of the index array followed by fancy indexing —
is the single stable sort of the ROWS by (chromosome, physical, genetic position) used in all theorems
(`construct`).  The bridge is that a stable insertion sort commutes with `map`.
-/
import PybropsModel.Lemmas.GMapLex
set_option autoImplicit false
set_option linter.unusedSectionVars false

namespace GMap

section commute
variable {ι γ : Type} (f : ι → γ) (le : γ → γ → Bool) (le' : ι → ι → Bool)

theorem insertSorted_map (a : ι) : ∀ (l : List ι), (∀ b ∈ l, le' b a = le (f b) (f a)) →
    (Np.insertSorted le' a l).map f = Np.insertSorted le (f a) (l.map f)
  | [], _ => rfl
  | b :: bs, h => by
    have hb : le' b a = le (f b) (f a) := h b (List.mem_cons_self ..)
    have ih := insertSorted_map a bs (fun c hc => h c (List.mem_cons_of_mem _ hc))
    simp only [Np.insertSorted, List.map_cons, hb]
    split
    · simp [ih]
    · simp

theorem foldl_insertSorted_map : ∀ (l acc : List ι),
    (∀ a ∈ l ++ acc, ∀ b ∈ l ++ acc, le' a b = le (f a) (f b)) →
    (l.foldl (fun acc a => Np.insertSorted le' a acc) acc).map f =
      (l.map f).foldl (fun acc a => Np.insertSorted le a acc) (acc.map f)
  | [], acc, _ => rfl
  | a :: l, acc, h => by
    simp only [List.foldl_cons, List.map_cons]
    have hstep : (Np.insertSorted le' a acc).map f = Np.insertSorted le (f a) (acc.map f) :=
      insertSorted_map f le le' a acc (fun b hb => h b (by simp [hb]) a (by simp))
    rw [← hstep]
    apply foldl_insertSorted_map l
    intro x hx y hy
    have mem : ∀ z, z ∈ l ++ Np.insertSorted le' a acc → z ∈ a :: l ++ acc := by
      intro z hz
      rcases List.mem_append.mp hz with hz | hz
      · simp [hz]
      · have := (insertSorted_perm le' a acc).subset hz
        rcases List.mem_cons.mp this with rfl | hz'
        · simp
        · simp [hz']
    exact h x (mem x hx) y (mem y hy)

/-- a stable insertion sort commutes with `map` (wherever the two orders agree on the elements sorted) -/
theorem stableSort_map (l : List ι) (h : ∀ a ∈ l, ∀ b ∈ l, le' a b = le (f a) (f b)) :
    (Np.stableSort le' l).map f = Np.stableSort le (l.map f) := by
  unfold Np.stableSort
  have := foldl_insertSorted_map f le le' l [] (by simpa using h)
  simpa using this

end commute

section lexidx
variable {α β : Type} [Field α] [LinearOrder α] [IsStrictOrderedRing α]

theorem lexsortIdx_cons (key : List α) (keys : List (List α)) (idx : List Nat) :
    (key :: keys).foldl (fun idx key => Np.stableSort (keyLe key) idx) idx =
      keys.foldl (fun idx key => Np.stableSort (keyLe key) idx) (Np.stableSort (keyLe key) idx) := rfl

theorem lexsortIdx_eq (keys : List (List α)) (n : Nat) :
    lexsortIdx keys n = keys.foldl (fun idx key => Np.stableSort (keyLe key) idx) (List.range n) := rfl

/-- one pass: sorting the index list by a key array that holds `k` of the rows, then reading the rows off, is sorting
    the rows by `k` -/
theorem pass_map (rows : List (Row α β)) (d : Row α β) (k : Row α β → α) (leK : Row α β → Row α β → Bool)
    (hle : ∀ a b, leK a b = !decide (k b < k a)) (idx : List Nat) (hidx : ∀ i ∈ idx, i < rows.length) :
    (Np.stableSort (keyLe (rows.map k)) idx).map (fun i => rows.getD i d) =
      Np.stableSort leK (idx.map (fun i => rows.getD i d)) := by
  apply stableSort_map
  intro i hi j hj
  have hi' := hidx i hi
  have hj' := hidx j hj
  simp only [keyLe, List.getElem?_map, List.getElem?_eq_getElem hi', List.getElem?_eq_getElem hj', Option.map_some,
    List.getD_eq_getElem?_getD, Option.getD_some, hle]

theorem range_map_getD (rows : List (Row α β)) (d : Row α β) :
    (List.range rows.length).map (fun i => rows.getD i d) = rows := by
  apply List.ext_getElem
  · simp
  · intro i h1 h2
    simp only [List.getElem_map, List.getElem_range, List.getD_eq_getElem?_getD]
    rw [List.getElem?_eq_getElem (by simpa using h1)]
    rfl

theorem take_eq_map_getD (rows : List (Row α β)) (d : Row α β) (idx : List Nat) (hidx : ∀ i ∈ idx, i < rows.length) :
    Np.take idx rows = idx.map (fun i => rows.getD i d) := by
  unfold Np.take
  induction idx with
  | nil => rfl
  | cons i rest ih =>
    have hi := hidx i (List.mem_cons_self ..)
    simp only [List.filterMap_cons, List.getElem?_eq_getElem hi, List.map_cons, List.getD_eq_getElem?_getD,
      Option.getD_some]
    rw [ih (fun j hj => hidx j (List.mem_cons_of_mem _ hj))]
    simp [List.getD_eq_getElem?_getD]

theorem stableSort_mem_lt {le' : Nat → Nat → Bool} {idx : List Nat} {n : Nat} (h : ∀ i ∈ idx, i < n) :
    ∀ i ∈ Np.stableSort le' idx, i < n :=
  fun i hi => h i ((stableSort_perm le' idx).subset hi)

/-- **`sort()` as performed = `construct`**: fancy-indexing the rows with `numpy.lexsort((genpos, phypos, chrgrp))`
    — three stable argsorts of `arange(n)`, the chromosome key last — gives the rows in `construct` order, for every
    list of rows (duplicated keys, riding columns included) -/
theorem take_lexsortIdx_eq_construct (rows : List (Row α β)) :
    Np.take (lexsortIdx [rows.map (·.gen), rows.map (·.phy), rows.map (fun r => (r.chr : α))] rows.length) rows =
      construct rows := by
  cases rows with
  | nil => rfl
  | cons d rest =>
    set rows := d :: rest with hrows
    have h0 : ∀ i ∈ List.range rows.length, i < rows.length := fun i hi => List.mem_range.mp hi
    have h1 := stableSort_mem_lt (le' := keyLe (rows.map (·.gen))) h0
    have h2 := stableSort_mem_lt (le' := keyLe (rows.map (·.phy))) h1
    have h3 := stableSort_mem_lt (le' := keyLe (rows.map (fun r => (r.chr : α)))) h2
    rw [lexsortIdx_eq]
    simp only [List.foldl_cons, List.foldl_nil]
    rw [take_eq_map_getD rows d _ h3]
    rw [pass_map rows d (fun r => (r.chr : α)) chrLe (by
      intro a b
      simp only [chrLe, Int.cast_lt]
      by_cases h : a.chr ≤ b.chr
      · simp [h, not_lt.mpr h]
      · simp [h, not_le.mp h]) _ h2]
    rw [pass_map rows d (·.phy) phyLe (fun a b => rfl) _ h1]
    rw [pass_map rows d (·.gen) genLe (fun a b => rfl) _ h0]
    rw [range_map_getD rows d]
    exact lexsort3_eq_construct rows

end lexidx

end GMap
