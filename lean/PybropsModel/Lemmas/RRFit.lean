/-
Helper lemmas for C04, the `fit_numpy` wrapper: polymorphism mask, column selection, scatter.
-/
import PybropsModel.Lemmas.RidgeEnergy
set_option autoImplicit false
set_option linter.unusedSectionVars false
set_option linter.unusedSimpArgs false
set_option linter.unusedVariables false

namespace RRFit
open GMod RRBlup

variable {α : Type} [Field α] [LinearOrder α] [IsStrictOrderedRing α]

theorem scatter_length (t : ℕ) (mask : List Bool) (rows : List (List α)) :
    (scatter t mask rows).length = mask.length := by
  induction mask generalizing rows with
  | nil => simp [scatter]
  | cons m ms ih =>
    cases m <;> cases rows <;> simp [scatter, ih]

/-- rows of markers that are not polymorphic are exactly zero -/
theorem scatter_false (t : ℕ) (mask : List Bool) (rows : List (List α)) (j : ℕ)
    (hj : mask[j]? = some false) : (scatter t mask rows)[j]? = some (List.replicate t 0) := by
  induction mask generalizing rows j with
  | nil => simp at hj
  | cons m ms ih =>
    cases j with
    | zero =>
      simp at hj; subst hj
      cases rows <;> simp [scatter]
    | succ j =>
      simp at hj
      cases m <;> cases rows <;> simp [scatter, ih _ _ hj]

/-- rows of polymorphic markers are the solver's rows, in order -/
theorem scatter_true (t : ℕ) (mask : List Bool) (rows : List (List α)) (j : ℕ)
    (hj : mask[j]? = some true) (hr : (mask.take j).count true < rows.length) :
    (scatter t mask rows)[j]? = rows[(mask.take j).count true]? := by
  induction mask generalizing rows j with
  | nil => simp at hj
  | cons m ms ih =>
    cases j with
    | zero =>
      simp at hj; subst hj
      cases rows with
      | nil => simp at hr
      | cons r rs => simp [scatter]
    | succ j =>
      simp at hj
      cases m with
      | false =>
        simp only [List.take_succ_cons, List.count_cons, Bool.false_eq_true, if_false, add_zero] at hr ⊢
        cases rows with
        | nil => simp at hr
        | cons r rs =>
          simp only [scatter, List.getElem?_cons_succ]
          exact ih (r :: rs) j hj hr
      | true =>
        simp only [List.take_succ_cons, List.count_cons_self] at hr ⊢
        cases rows with
        | nil => simp at hr
        | cons r rs =>
          simp only [scatter, List.getElem?_cons_succ]
          exact ih rs j hj (by simpa using hr)

theorem isPoly_length (Z : List (List α)) (p : ℕ) : (isPoly Z p).length = p := by simp [isPoly]

/-- the mask is false exactly for markers at which every taxon has the genotype of the first -/
theorem isPoly_false_iff (Z : List (List α)) (p j : ℕ) (hj : j < p) :
    (isPoly Z p)[j]? = some false ↔ ∀ r ∈ Z, r.getD j 0 = (Z.headD []).getD j 0 := by
  unfold isPoly
  simp only [List.getElem?_map, List.getElem?_range hj, Option.map_some, Option.some.injEq,
    Bool.not_eq_false', List.all_eq_true, decide_eq_true_eq, col, List.mem_map, forall_exists_index,
    and_imp, forall_apply_eq_imp_iff₂]

theorem compress_length (mask : List Bool) (row : List α) (h : row.length = mask.length) :
    (Np.compress mask row).length = mask.count true := by
  unfold Np.compress
  induction mask generalizing row with
  | nil => simp
  | cons m ms ih =>
    cases row with
    | nil => simp at h
    | cons a as =>
      cases m
      · simpa using ih as (by simpa using h)
      · simpa using ih as (by simpa using h)

theorem selectCols_rect (mask : List Bool) (Z : List (List α)) (n p : ℕ) (hZ : Ridge.Rect Z n p)
    (hm : mask.length = p) : Ridge.Rect (selectCols mask Z) n (mask.count true) := by
  unfold selectCols
  refine ⟨by simp [hZ.1], ?_⟩
  intro r hr
  obtain ⟨z, hz, rfl⟩ := List.mem_map.mp hr
  exact compress_length mask z (by rw [hZ.2 z hz, hm])

end RRFit
