/-
Helper lemmas for C10: closed steps on DOSAGE matrices (unphased populations of any ploidy), selection by
`select_taxa`, in-place culling by `remove_taxa` (phased and unphased), and histories of such steps.
-/
import PybropsModel.Lemmas.SelLimitHistory
set_option autoImplicit false
set_option linter.unusedSectionVars false
set_option linter.unusedVariables false

namespace SelLimit
open Genotype List

section field
variable {α : Type} [Field α] [LinearOrder α] [IsStrictOrderedRing α]

/-- per-locus monotonicity from the two frequency-level facts a closed step provides: presence of allele 1 in the
    later population implies presence in the earlier one, fixation of allele 1 in the earlier one implies fixation in
    the later one -/
theorem term_step_abs (ploidy : Nat) (u p q : α) (h1 : 0 < q → 0 < p) (h2 : 1 ≤ p → 1 ≤ q) :
    uslTerm ploidy u q ≤ uslTerm ploidy u p ∧ lslTerm ploidy u p ≤ lslTerm ploidy u q := by
  have hpl : (0 : α) ≤ (ploidy : α) := Nat.cast_nonneg _
  unfold uslTerm lslTerm uslGeno lslGeno
  by_cases hu : 0 < u
  · have hc : (0 : α) ≤ (ploidy : α) * u := mul_nonneg hpl hu.le
    simp only [if_pos hu]
    constructor
    · by_cases hq : 0 < q
      · have hp : 0 < p := h1 hq
        simp [hq, hp]
      · simp only [hq, decide_false, b2a_false, mul_zero]
        by_cases hp : 0 < p
        · simp only [hp, decide_true, b2a_true, mul_one]; exact hc
        · simp [hp, b2a_false]
    · by_cases hp : 1 ≤ p
      · have hq : 1 ≤ q := h2 hp
        simp [hq, hp]
      · simp only [hp, decide_false, b2a_false, mul_zero]
        by_cases hq : 1 ≤ q
        · simp only [hq, decide_true, b2a_true, mul_one]; exact hc
        · simp [hq, b2a_false]
  · have hu' : u ≤ 0 := not_lt.mp hu
    have hc : (ploidy : α) * u ≤ 0 := mul_nonpos_of_nonneg_of_nonpos hpl hu'
    simp only [if_neg hu]
    constructor
    · by_cases hp : 1 ≤ p
      · have hq : 1 ≤ q := h2 hp
        simp [hq, hp]
      · simp only [hp, decide_false, b2a_false, mul_zero]
        by_cases hq : 1 ≤ q
        · simp only [hq, decide_true, b2a_true, mul_one]; exact hc
        · simp [hq, b2a_false]
    · by_cases hq : 0 < q
      · have hp : 0 < p := h1 hq
        simp [hq, hp]
      · simp only [hq, decide_false, b2a_false, mul_zero]
        by_cases hp : 0 < p
        · simp only [hp, decide_true, b2a_true, mul_one]; exact hc
        · simp [hp, b2a_false]

/-- `p > 0` iff some member carries allele 1; `p >= 1` iff no member carries allele 0 (dosage matrix, any ploidy) -/
theorem freq_tests_iff_U {ploidy nv : Nat} {m : UMat} (hv : ValidU ploidy nv m) (j : Nat) :
    (0 < afreqAt (α := α) ploidy m j ↔ ∃ r ∈ m, 0 < entry r j)
    ∧ (1 ≤ afreqAt (α := α) ploidy m j ↔ ¬ ∃ r ∈ m, entry r j < (ploidy : Int)) := by
  obtain ⟨b0, b1⟩ := afreqAt_bounds (α := α) hv j
  constructor
  · rw [← not_iff_not, not_lt]
    constructor
    · intro h
      have h0 : afreqAt (α := α) ploidy m j = 0 := le_antisymm h b0
      rintro ⟨r, hr, hpos⟩
      have := (afreqAt_eq_zero_iff (α := α) hv j).mp h0 r hr
      omega
    · intro h
      have : ∀ r ∈ m, entry r j = 0 := by
        intro r hr
        have hb := (entry_bounds hv hr j).1
        by_contra hne
        exact h ⟨r, hr, by omega⟩
      exact ((afreqAt_eq_zero_iff (α := α) hv j).mpr this).le
  · constructor
    · intro h
      have h1 : afreqAt (α := α) ploidy m j = 1 := le_antisymm b1 h
      rintro ⟨r, hr, hlt⟩
      have := (afreqAt_eq_one_iff (α := α) hv j).mp h1 r hr
      omega
    · intro h
      have : ∀ r ∈ m, entry r j = (ploidy : Int) := by
        intro r hr
        have hb := (entry_bounds hv hr j).2
        by_contra hne
        exact h ⟨r, hr, by omega⟩
      exact ((afreqAt_eq_one_iff (α := α) hv j).mpr this).ge

/-- **one closed step on dosage matrices**: the upper limit does not increase, the lower limit does not decrease
    (any ploidy, any effect vector) -/
theorem step_limits_U {ploidy nv : Nat} {P Q : UMat} (hP : ValidU ploidy nv P) (hQ : ValidU ploidy nv Q)
    (hstep : ClosedStepU ploidy nv P Q) (u : Nat → α) :
    uslF ploidy nv u (afreqAt (α := α) ploidy Q) ≤ uslF ploidy nv u (afreqAt (α := α) ploidy P)
    ∧ lslF ploidy nv u (afreqAt (α := α) ploidy P) ≤ lslF ploidy nv u (afreqAt (α := α) ploidy Q) := by
  have key : ∀ j, j < nv →
      uslTerm ploidy (u j) (afreqAt (α := α) ploidy Q j) ≤ uslTerm ploidy (u j) (afreqAt (α := α) ploidy P j)
      ∧ lslTerm ploidy (u j) (afreqAt (α := α) ploidy P j) ≤ lslTerm ploidy (u j) (afreqAt (α := α) ploidy Q j) := by
    intro j hj
    obtain ⟨p1, p0⟩ := freq_tests_iff_U (α := α) hP j
    obtain ⟨q1, q0⟩ := freq_tests_iff_U (α := α) hQ j
    obtain ⟨s1, s0⟩ := hstep j hj
    exact term_step_abs ploidy (u j) _ _ (fun hq => p1.mpr (s1 (q1.mp hq)))
      (fun hp => q0.mpr (fun hex => (p0.mp hp) (s0 hex)))
  unfold uslF lslF
  exact ⟨sumF_map_le _ _ _ (fun j hj => (key j (List.mem_range.mp hj)).1),
         sumF_map_le _ _ _ (fun j hj => (key j (List.mem_range.mp hj)).2)⟩

end field

/-! ### the relation itself -/

theorem closedStepU_refl (ploidy nv : Nat) (P : UMat) : ClosedStepU ploidy nv P P :=
  fun _ _ => ⟨id, id⟩

theorem closedStepU_trans {ploidy nv : Nat} {P Q R : UMat} (h1 : ClosedStepU ploidy nv P Q)
    (h2 : ClosedStepU ploidy nv Q R) : ClosedStepU ploidy nv P R :=
  fun j hj => ⟨fun h => (h1 j hj).1 ((h2 j hj).1 h), fun h => (h1 j hj).2 ((h2 j hj).2 h)⟩

/-- **spec_iff for the dosage-level step oracle** the driver evaluates -/
theorem closedStepUB_iff (ploidy nv : Nat) (P Q : UMat) :
    closedStepUB ploidy nv P Q = true ↔ ClosedStepU ploidy nv P Q := by
  unfold closedStepUB ClosedStepU
  simp only [List.all_eq_true, List.mem_range, Bool.and_eq_true, Bool.or_eq_true, Bool.not_eq_true',
    List.any_eq_true, decide_eq_true_eq, List.any_eq_false]
  constructor
  · intro h j hj
    obtain ⟨a, b⟩ := h j hj
    refine ⟨?_, ?_⟩
    · rintro ⟨r, hr, hpos⟩
      rcases a with a | a
      · exact absurd hpos (a r hr)
      · exact a
    · rintro ⟨r, hr, hlt⟩
      rcases b with b | b
      · exact absurd hlt (b r hr)
      · exact b
  · intro h j hj
    obtain ⟨a, b⟩ := h j hj
    refine ⟨?_, ?_⟩
    · by_cases hq : ∃ r ∈ Q, 0 < entry r j
      · exact Or.inr (a hq)
      · exact Or.inl (fun r hr hpos => hq ⟨r, hr, hpos⟩)
    · by_cases hq : ∃ r ∈ Q, entry r j < (ploidy : Int)
      · exact Or.inr (b hq)
      · exact Or.inl (fun r hr hlt => hq ⟨r, hr, hlt⟩)

/-- a step that only keeps rows of the earlier matrix (any sub-selection, with repeats or not) is closed -/
theorem closedStepU_of_subset (ploidy nv : Nat) {P Q : UMat} (h : ∀ r ∈ Q, r ∈ P) : ClosedStepU ploidy nv P Q :=
  fun _ _ => ⟨fun ⟨r, hr, hp⟩ => ⟨r, h r hr, hp⟩, fun ⟨r, hr, hp⟩ => ⟨r, h r hr, hp⟩⟩

theorem delete_mem {β : Type} (idx : List Nat) (l : List β) (x : β) (h : x ∈ Np.delete idx l) : x ∈ l := by
  simp only [Np.delete, List.mem_map, List.mem_filter] at h
  obtain ⟨⟨a, i⟩, ⟨hmem, _⟩, rfl⟩ := h
  exact (List.mem_zipIdx hmem).2.2 ▸ List.getElem_mem _

/-- **unphased `select_taxa` is a closed step** (any index list) -/
theorem selectTaxaU_closed (ploidy nv : Nat) (idx : List Nat) (m : UMat) :
    ClosedStepU ploidy nv m (selectTaxaU idx m) :=
  closedStepU_of_subset ploidy nv (fun r hr => take_mem idx m r hr)

/-- **in-place culling `remove_taxa` of an unphased population is a closed step** -/
theorem removeTaxaU_closed (ploidy nv : Nat) (idx : List Nat) (m : UMat) :
    ClosedStepU ploidy nv m (removeTaxaU idx m) :=
  closedStepU_of_subset ploidy nv (fun r hr => delete_mem idx m r hr)

/-- **in-place culling `remove_taxa` of a phased population is a closed step** (the survivors are members) -/
theorem removeTaxa_closed (nv nt nt' : Nat) (idx : List Nat) (G : PMat) :
    ClosedStep nv ⟨nt, G⟩ ⟨nt', removeTaxa idx G⟩ := by
  refine ⟨by simp [removeTaxa], ?_⟩
  intro j _ a ha
  simp only [popCopies, removeTaxa, List.mem_flatMap, List.mem_map] at ha ⊢
  obtain ⟨ph', ⟨ph, hph, rfl⟩, hacol⟩ := ha
  refine ⟨ph, hph, ?_⟩
  simp only [col, List.mem_map] at hacol ⊢
  obtain ⟨r, hr, rfl⟩ := hacol
  exact ⟨r, delete_mem idx ph r hr, rfl⟩

/-- how many of `n` taxa survive the culling of the indices `idx` -/
def keptCount (idx : List Nat) (n : Nat) : Nat := ((List.range n).filter (fun i => !idx.contains i)).length

theorem delete_length {β : Type} (idx : List Nat) (l : List β) :
    (Np.delete idx l).length = keptCount idx l.length := by
  unfold Np.delete keptCount
  rw [List.length_map]
  have : (l.zipIdx.filter (fun p => !idx.contains p.2)).length
      = ((l.zipIdx.map Prod.snd).filter (fun i => !idx.contains i)).length := by
    rw [List.filter_map, List.length_map]; rfl
  rw [this, List.zipIdx_map_snd, List.range_eq_range']

/-- in-place culling of a valid phased population leaves a valid population with `keptCount idx nt` taxa (when somebody
    survives) -/
theorem removeTaxa_valid {nt nv : Nat} {G : PMat} (hv : ValidP nt nv G) (idx : List Nat)
    (hpos : 0 < keptCount idx nt) : ValidP (keptCount idx nt) nv (removeTaxa idx G) := by
  refine ⟨by simpa [removeTaxa] using hv.1, hpos, ?_⟩
  intro ph' hph'
  simp only [removeTaxa, List.mem_map] at hph'
  obtain ⟨ph, hph, rfl⟩ := hph'
  obtain ⟨hl, hrows⟩ := hv.2.2 ph hph
  refine ⟨by rw [delete_length, hl], ?_⟩
  intro r hr
  exact hrows r (delete_mem idx ph r hr)

/-- validity survives culling as long as somebody survives -/
theorem removeTaxaU_valid {ploidy nv : Nat} {m : UMat} (hv : ValidU ploidy nv m) (idx : List Nat)
    (hne : 0 < (removeTaxaU idx m).length) : ValidU ploidy nv (removeTaxaU idx m) :=
  ⟨hv.1, hne, fun r hr => hv.2.2 r (delete_mem idx m r hr)⟩

theorem selectTaxaU_valid {ploidy nv : Nat} {m : UMat} (hv : ValidU ploidy nv m) (idx : List Nat)
    (hne : 0 < (selectTaxaU idx m).length) : ValidU ploidy nv (selectTaxaU idx m) :=
  ⟨hv.1, hne, fun r hr => hv.2.2 r (take_mem idx m r hr)⟩

/-! ### histories of dosage matrices -/

/-- every population is obtained from the previous one by a closed step -/
def IsHistoryU (ploidy nv : Nat) : List UMat → Prop
  | [] => True
  | [_] => True
  | P :: Q :: rest => ClosedStepU ploidy nv P Q ∧ IsHistoryU ploidy nv (Q :: rest)

theorem historyU_head_closed (ploidy nv : Nat) : ∀ (t : List UMat) (P : UMat), IsHistoryU ploidy nv (P :: t) →
    ∀ Q ∈ (P :: t), ClosedStepU ploidy nv P Q
  | [], P, _, Q, hQ => by
      have : Q = P := by simpa using hQ
      subst this; exact closedStepU_refl ploidy nv _
  | Q' :: rest, P, h, Q, hQ => by
      rcases List.mem_cons.mp hQ with rfl | hQ'
      · exact closedStepU_refl ploidy nv _
      · exact closedStepU_trans h.1 (historyU_head_closed ploidy nv rest Q' h.2 Q hQ')

theorem historyU_tail (ploidy nv : Nat) (P : UMat) (t : List UMat) (h : IsHistoryU ploidy nv (P :: t)) :
    IsHistoryU ploidy nv t := by
  cases t with
  | nil => trivial
  | cons Q rest => exact h.2

theorem historyU_pairwise (ploidy nv : Nat) : ∀ (h : List UMat), IsHistoryU ploidy nv h →
    h.Pairwise (ClosedStepU ploidy nv)
  | [], _ => List.Pairwise.nil
  | P :: t, hh => by
      refine List.Pairwise.cons ?_ (historyU_pairwise ploidy nv t (historyU_tail ploidy nv P t hh))
      intro Q hQ
      exact historyU_head_closed ploidy nv t P hh Q (List.mem_cons_of_mem _ hQ)

/-- one round of selection on an unphased population: `select_taxa` (new object) or `remove_taxa` (in place) -/
inductive Cull
  | select (idx : List Nat)
  | remove (idx : List Nat)

def Cull.apply : Cull → UMat → UMat
  | .select idx, m => selectTaxaU idx m
  | .remove idx, m => removeTaxaU idx m

/-- the populations visited by a sequence of selection rounds, founders first -/
def cullTrajectory : UMat → List Cull → List UMat
  | m, [] => [m]
  | m, c :: rest => m :: cullTrajectory (c.apply m) rest

theorem cullTrajectory_history (ploidy nv : Nat) : ∀ (steps : List Cull) (m : UMat),
    IsHistoryU ploidy nv (cullTrajectory m steps)
  | [], _ => trivial
  | c :: rest, m => by
      have ih := cullTrajectory_history ploidy nv rest (c.apply m)
      cases rest with
      | nil =>
        refine ⟨?_, trivial⟩
        cases c with
        | select idx => exact selectTaxaU_closed ploidy nv idx m
        | remove idx => exact removeTaxaU_closed ploidy nv idx m
      | cons c' rest' =>
        refine ⟨?_, ih⟩
        cases c with
        | select idx => exact selectTaxaU_closed ploidy nv idx m
        | remove idx => exact removeTaxaU_closed ploidy nv idx m

end SelLimit
