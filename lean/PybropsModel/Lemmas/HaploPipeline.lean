/-
Helper lemmas for C18 (7): gluing.
* block boundaries are exactly the positions where the label changes (`mem_breaksFrom`);
* blocks are additive over chromosomes and every chromosome owns at least one (`nruns_labelsAll`);
* the cells of the haplotype matrix: written ones carry the block values, all are written iff the
  number of runs equals the number of block columns (`traitValues_haplomat`);
* what `blocksOfPrerepair` returns (`blocksOfPrerepair_ok`) and that its internal error branches are dead.
-/
import PybropsModel.Lemmas.HaploApportion
import PybropsModel.Lemmas.HaploFill
import PybropsModel.Lemmas.HaploLinspace
import PybropsModel.Lemmas.HaploValue
set_option autoImplicit false
set_option linter.unusedSectionVars false

namespace Haplo

/-! ### boundaries = label changes -/
section
variable {β : Type} [DecidableEq β]

theorem mem_breaksFrom (prev : β) (i : Nat) (xs : List β) (b : Nat) :
    b ∈ breaksFrom prev i xs ↔
      ∃ o, ∃ h : o < xs.length, b = i + o ∧ xs[o] ≠ (if o = 0 then prev else xs[o - 1]'(by omega)) := by
  induction xs generalizing prev i with
  | nil => simp [breaksFrom]
  | cons x xs ih =>
    have hstep : b ∈ breaksFrom prev i (x :: xs) ↔ (b = i ∧ x ≠ prev) ∨ b ∈ breaksFrom x (i + 1) xs := by
      simp only [breaksFrom]
      by_cases hx : x = prev
      · subst hx; simp
      · simp [hx]
    rw [hstep, ih x (i + 1)]
    constructor
    · rintro (⟨rfl, hne⟩ | ⟨o, ho, rfl, hne⟩)
      · exact ⟨0, by simp, rfl, by simpa using hne⟩
      · refine ⟨o + 1, by simpa using ho, by omega, ?_⟩
        simp only [List.getElem_cons_succ, Nat.add_eq_zero_iff, Nat.succ_ne_zero, and_false, if_false,
          Nat.add_sub_cancel]
        cases o with
        | zero => simpa using hne
        | succ o => simpa using hne
    · rintro ⟨o, ho, rfl, hne⟩
      cases o with
      | zero => left; exact ⟨rfl, by simpa using hne⟩
      | succ o =>
        right
        refine ⟨o, by simpa using ho, by omega, ?_⟩
        simp only [List.getElem_cons_succ, Nat.add_eq_zero_iff, Nat.succ_ne_zero, and_false, if_false,
          Nat.add_sub_cancel] at hne
        cases o with
        | zero => simpa using hne
        | succ o => simpa using hne

/-- **block boundaries are exactly the label changes**: for `l = a :: xs`, position `b` starts a new
    block iff `1 ≤ b < len` and `l[b] ≠ l[b-1]` -/
theorem mem_starts_iff (a : β) (xs : List β) (b : Nat) :
    b ∈ breaksFrom a 1 xs ↔
      ∃ h1 : 1 ≤ b, ∃ h2 : b < (a :: xs).length, (a :: xs)[b] ≠ (a :: xs)[b - 1]'(by omega) := by
  rw [mem_breaksFrom]
  constructor
  · rintro ⟨o, ho, rfl, hne⟩
    refine ⟨by omega, by simp only [List.length_cons]; omega, ?_⟩
    have e1 : (a :: xs)[1 + o]'(by simp only [List.length_cons]; omega) = xs[o] := by
      simp [Nat.add_comm 1 o]
    rw [e1]
    cases o with
    | zero => simpa using hne
    | succ o =>
      simp only [Nat.add_eq_zero_iff, Nat.succ_ne_zero, and_false, if_false, Nat.add_sub_cancel] at hne
      have e2 : (a :: xs)[1 + (o + 1) - 1]'(by simp only [List.length_cons]; omega) = xs[o]'(by omega) := by
        simp [show 1 + (o + 1) - 1 = o + 1 by omega]
      rw [e2]; exact hne
  · rintro ⟨h1, h2, hne⟩
    obtain ⟨o, rfl⟩ : ∃ o, b = o + 1 := ⟨b - 1, by omega⟩
    simp only [List.length_cons, Nat.add_lt_add_iff_right] at h2
    refine ⟨o, h2, by omega, ?_⟩
    simp only [List.getElem_cons_succ, Nat.add_sub_cancel] at hne
    cases o with
    | zero => simpa using hne
    | succ o => simpa using hne

end

/-! ### blocks are additive over chromosomes -/
section
variable {α : Type} [LinearOrder α]

/-- number of blocks that each chromosome's own labels form -/
def runsPerChrom : List (List α) → List (List α) → Nat → List Nat
  | hb :: hbs, pos :: cs, k => nruns (labelsChrom hb k pos) :: runsPerChrom hbs cs (k + (hb.length - 1))
  | _, _, _ => []

theorem nruns_pos {β : Type} [DecidableEq β] (l : List β) (h : l ≠ []) : 1 ≤ nruns l := by
  cases l with
  | nil => exact absurd rfl h
  | cons a xs => simp [nruns]

theorem labelsChrom_ne_nil (hb : List α) (k : Nat) (pos : List α) (h : pos ≠ []) : labelsChrom hb k pos ≠ [] := by
  simpa [labelsChrom] using h

theorem labelsAll_ne_nil (hbs chroms : List (List α)) (k : Nat) (h : List.Forall₂ BoundsOK hbs chroms)
    (hne : chroms ≠ []) (hc : ∀ c ∈ chroms, c ≠ []) : labelsAll hbs chroms k ≠ [] := by
  cases h with
  | nil => exact absurd rfl hne
  | @cons hb pos hbs cs _ _ =>
    simp only [labelsAll, ne_eq, List.append_eq_nil_iff, not_and]
    intro h0
    exact absurd h0 (labelsChrom_ne_nil hb k pos (hc pos List.mem_cons_self))

/-- **blocks never straddle chromosomes**: the genome-wide number of blocks is the sum of the numbers
    of blocks found on each chromosome separately, each of which is at least one and at most the number of
    bins given to the chromosome -/
theorem nruns_labelsAll (hbs chroms : List (List α)) (k : Nat) (h : List.Forall₂ BoundsOK hbs chroms)
    (hc : ∀ c ∈ chroms, c ≠ [] ∧ c.Pairwise (· ≤ ·)) :
    nruns (labelsAll hbs chroms k) = (runsPerChrom hbs chroms k).sum ∧
      List.Forall₂ (fun r hb => 1 ≤ r ∧ r ≤ hb.length - 1) (runsPerChrom hbs chroms k) hbs := by
  induction h generalizing k with
  | nil => simp [labelsAll, runsPerChrom, nruns]
  | @cons hb pos hbs cs hbc hrest ih =>
    have hpos := hc pos List.mem_cons_self
    have hcs : ∀ c ∈ cs, c ≠ [] ∧ c.Pairwise (· ≤ ·) := fun c hc' => hc c (List.mem_cons_of_mem _ hc')
    obtain ⟨ih1, ih2⟩ := ih (k + (hb.length - 1)) hcs
    have hl1 := labelsChrom_ne_nil hb k pos hpos.1
    have hr1 : nruns (labelsChrom hb k pos) ≤ hb.length - 1 := by
      have hs := labelsChrom_sorted hb k pos hpos.2
      -- shift the labels down by k: use the bound on distinct values directly
      rw [nruns_sorted_eq_dedup _ hs]
      have hsub : (labelsChrom hb k pos).dedup ⊆ (List.range (hb.length - 1)).map (k + ·) := by
        intro x hx
        have := labelsChrom_lt hb k pos hbc.two x (List.mem_dedup.mp hx)
        exact List.mem_map.mpr ⟨x - k, List.mem_range.mpr (by omega), by omega⟩
      have := (List.subperm_of_subset (List.nodup_dedup _) hsub).length_le
      simpa using this
    have hfa : List.Forall₂ (fun r hb => 1 ≤ r ∧ r ≤ hb.length - 1)
        (runsPerChrom (hb :: hbs) (pos :: cs) k) (hb :: hbs) := by
      simp only [runsPerChrom]
      exact List.Forall₂.cons ⟨nruns_pos _ hl1, hr1⟩ ih2
    refine ⟨?_, hfa⟩
    simp only [labelsAll, runsPerChrom, List.sum_cons]
    by_cases hcsn : cs = []
    · subst hcsn
      cases hrest
      simp [labelsAll, runsPerChrom]
    · have hl2 := labelsAll_ne_nil hbs cs (k + (hb.length - 1)) hrest hcsn (fun c hc' => (hcs c hc').1)
      obtain ⟨a, ha⟩ : ∃ a, (labelsChrom hb k pos).getLast? = some a := by
        cases hg : (labelsChrom hb k pos).getLast? with
        | none => exact absurd (List.getLast?_eq_none_iff.mp hg) hl1
        | some a => exact ⟨a, rfl⟩
      obtain ⟨b, hb'⟩ : ∃ b, (labelsAll hbs cs (k + (hb.length - 1))).head? = some b := by
        cases hg : (labelsAll hbs cs (k + (hb.length - 1))).head? with
        | none => exact absurd (List.head?_eq_none_iff.mp hg) hl2
        | some b => exact ⟨b, rfl⟩
      have hab : a ≠ b := by
        have h1 := labelsChrom_lt hb k pos hbc.two a (List.mem_of_getLast? ha)
        have h2 := labelsAll_range hbs cs (k + (hb.length - 1)) hrest b (List.mem_of_head? hb')
        omega
      rw [nruns_append _ _ a b ha hb' hab, ih1]

end

/-! ### cells of the haplotype matrix -/
section
variable {α : Type} [Field α]

theorem allSome_eq_none_of_mem {γ : Type} (l : List (Option γ)) (h : none ∈ l) : allSome l = none := by
  induction l with
  | nil => simp at h
  | cons a l ih =>
    cases a with
    | none => rfl
    | some a =>
      simp only [List.mem_cons, reduceCtorEq, false_or] at h
      simp [allSome, ih h]

/-- one fibre: all cells written iff as many blocks as columns; then the cells are the block values -/
theorem allSome_hmatFibre (n : Nat) (bnds : List (Nat × Nat)) (g u : List α) (h : bnds.length ≤ n) :
    allSome (hmatFibre n bnds g u) = if bnds.length = n then some (bnds.map (blockVal g u)) else none := by
  unfold hmatFibre
  by_cases he : bnds.length = n
  · simp only [he, if_true, List.length_map, Nat.sub_self, List.replicate_zero, List.append_nil]
    exact allSome_map_some _
  · simp only [he, if_false]
    apply allSome_eq_none_of_mem
    simp only [List.length_map, List.mem_append, List.mem_map, reduceCtorEq, and_false, exists_false, false_or,
      List.mem_replicate, ne_eq, and_true]
    omega

theorem allSome_map_const_some {γ δ : Type} (l : List γ) (f : γ → δ) :
    allSome (l.map (fun x => some (f x))) = some (l.map f) := by
  induction l with
  | nil => rfl
  | cons a l ih => simp [allSome, ih]

/-- **finiteness, exactly**: the block-value table of trait `t` read from the haplotype matrix is fully
    initialised when the number of runs equals the number of block columns … -/
theorem traitValues_haplomat_eq (n : Nat) (bnds : List (Nat × Nat)) (geno : List (List (List α)))
    (ucols : List (List α)) (t : Nat) (u : List α) (hu : ucols[t]? = some u) (h : bnds.length = n) :
    traitValues (haplomat n bnds geno ucols) t = some (blockTable geno u bnds) := by
  unfold traitValues haplomat blockTable
  simp only [List.map_map]
  have hin : ∀ g : List α,
      (((ucols.map (fun u => hmatFibre n bnds g u))[t]?).bind allSome) = some (bnds.map (blockVal g u)) := by
    intro g
    simp only [List.getElem?_map, hu, Option.map_some, Option.bind_some]
    rw [allSome_hmatFibre n bnds g u (le_of_eq h), if_pos h]
  have hmid : ∀ gm : List (List α),
      allSome (gm.map ((fun Hn : List (List (Option α)) => (Hn[t]?).bind allSome) ∘
        (fun g => ucols.map (fun u => hmatFibre n bnds g u)))) = some (gm.map (fun g => bnds.map (blockVal g u))) := by
    intro gm
    have : gm.map ((fun Hn : List (List (Option α)) => (Hn[t]?).bind allSome) ∘
        (fun g => ucols.map (fun u => hmatFibre n bnds g u))) = gm.map (fun g => some (bnds.map (blockVal g u))) := by
      apply List.map_congr_left
      intro g _
      exact hin g
    rw [this, allSome_map_const_some]
  have : geno.map ((fun Hm : List (List (List (Option α))) =>
        allSome (Hm.map (fun Hn => (Hn[t]?).bind allSome))) ∘
        (fun gm => gm.map (fun g => ucols.map (fun u => hmatFibre n bnds g u)))) =
      geno.map (fun gm => some (gm.map (fun g => bnds.map (blockVal g u)))) := by
    apply List.map_congr_left
    intro gm _
    simp only [Function.comp, List.map_map]
    exact hmid gm
  rw [this, allSome_map_const_some]

/-- … and contains uninitialised memory when there are fewer runs (any genotype present) -/
theorem traitValues_haplomat_none (n : Nat) (bnds : List (Nat × Nat)) (gm : List (List α)) (g : List α)
    (geno' : List (List (List α))) (gm' : List (List α))
    (ucols : List (List α)) (t : Nat) (u : List α) (hu : ucols[t]? = some u) (h : bnds.length < n) :
    traitValues (haplomat n bnds ((g :: gm') :: geno') ucols) t = none := by
  have _ := gm
  unfold traitValues haplomat
  simp only [List.map_cons, List.getElem?_map, hu, Option.map_some, Option.bind_some]
  rw [allSome_hmatFibre n bnds g u h.le, if_neg (by omega)]
  simp [allSome]

end

/-! ### what `blocksOfPrerepair` returns -/
section
variable {α : Type} [Field α] [LinearOrder α] [IsStrictOrderedRing α]

theorem genlen_length (chroms : List (List α)) : (genlen chroms).length = chroms.length := by
  simp [genlen]

theorem blockBounds_eq (l : List Nat) (hne : l ≠ []) : blockBounds l = .ok (blockPairs l) := by
  cases l with
  | nil => exact absurd rfl hne
  | cons a xs =>
    simp only [blockBounds, haplobinBounds_eq, blockPairs]

/-- the successful branch of `blocksOfPrerepair`, unfolded into the facts proved about its stages -/
theorem blocksOfPrerepair_ok (n : Nat) (chroms : List (List α)) (guard : Bool) (hv : ValidChroms chroms)
    (nblk hbin : List Nat) (bnds : List (Nat × Nat))
    (h : blocksOfPrerepair n chroms guard = .ok (nblk, hbin, bnds)) :
    nhaploblkChromPrerepair n chroms = .ok nblk ∧
    hbin = labelsAll (hbounds nblk chroms) chroms 0 ∧
    bnds = blockPairs hbin ∧
    List.Forall₂ BoundsOK (hbounds nblk chroms) chroms ∧
    nbins (hbounds nblk chroms) = n := by
  unfold blocksOfPrerepair at h
  cases hnb : nhaploblkChromPrerepair n chroms with
  | error e => simp [hnb] at h
  | ok nb =>
    simp only [hnb] at h
    have hne : genlen chroms ≠ [] := by
      intro h0
      have := congrArg List.length h0
      rw [genlen_length] at this
      exact hv.1 (List.length_eq_zero_iff.mp this)
    obtain ⟨hl, hsum, hpos⟩ := nhaploblkChromOfLenPrerepair_ok n (genlen chroms) nb hne hnb
    rw [genlen_length] at hl
    obtain ⟨hok, hnbins⟩ := hbounds_ok nb chroms hl hpos hv.2
    have hlab : haplobinPrerepair nb chroms = (labelsAll (hbounds nb chroms) chroms 0).map some :=
      haplobinHBPrerepair_eq_labels _ _ 0 hok
    split at h
    · cases h
    · rw [hlab, allSome_map_some] at h
      simp only at h
      have hlne := labelsAll_ne_nil (hbounds nb chroms) chroms 0 hok hv.1 (fun c hc => (hv.2 c hc).1)
      rw [blockBounds_eq _ hlne] at h
      simp only at h
      split at h
      · cases h
      · simp only [Except.ok.injEq, Prod.mk.injEq] at h
        obtain ⟨rfl, rfl, rfl⟩ := h
        exact ⟨rfl, rfl, rfl, hok, by rw [hnbins, hsum]⟩

/-- `blocksOfPrerepair` fails only by refusing the request (`"value"`): the branches for an unlabelled marker
    and for more runs than block columns are dead code on valid layouts -/
theorem blocksOfPrerepair_error (n : Nat) (chroms : List (List α)) (guard : Bool) (hv : ValidChroms chroms)
    (e : String) (h : blocksOfPrerepair n chroms guard = .error e) : e = "value" := by
  unfold blocksOfPrerepair at h
  cases hnb : nhaploblkChromPrerepair n chroms with
  | error e' =>
    simp only [hnb, Except.error.injEq] at h
    subst h
    exact nhaploblkChromOfLenPrerepair_error n (genlen chroms) e' hnb
  | ok nb =>
    simp only [hnb] at h
    have hne : genlen chroms ≠ [] := by
      intro h0
      have := congrArg List.length h0
      rw [genlen_length] at this
      exact hv.1 (List.length_eq_zero_iff.mp this)
    obtain ⟨hl, hsum, hpos⟩ := nhaploblkChromOfLenPrerepair_ok n (genlen chroms) nb hne hnb
    rw [genlen_length] at hl
    obtain ⟨hok, hnbins⟩ := hbounds_ok nb chroms hl hpos hv.2
    have hlab : haplobinPrerepair nb chroms = (labelsAll (hbounds nb chroms) chroms 0).map some :=
      haplobinHBPrerepair_eq_labels _ _ 0 hok
    split at h
    · simpa using h.symm
    · rw [hlab, allSome_map_some] at h
      simp only at h
      have hlne := labelsAll_ne_nil (hbounds nb chroms) chroms 0 hok hv.1 (fun c hc => (hv.2 c hc).1)
      rw [blockBounds_eq _ hlne] at h
      simp only at h
      split at h
      · rename_i hgt
        have := nruns_le_nbins (hbounds nb chroms) chroms hok (fun c hc => (hv.2 c hc).2)
        rw [blockPairs_length] at hgt
        rw [hnbins, hsum] at this
        omega
      · cases h

end

/-! ### doubled haploids that recombine only at block boundaries -/
section
variable {α : Type} [Field α] [LinearOrder α] [IsStrictOrderedRing α]

theorem starts_chain {β : Type} [DecidableEq β] (a : β) (xs : List β) :
    (0 :: (breaksFrom a 1 xs ++ [xs.length + 1])).Pairwise (· < ·) := by
  rw [List.pairwise_cons]
  constructor
  · intro b hb
    simp only [List.mem_append, List.mem_singleton] at hb
    rcases hb with hb | rfl
    · have := (breaksFrom_bounds a 1 xs b hb).1; omega
    · omega
  · rw [List.pairwise_append]
    refine ⟨breaksFrom_sorted a 1 xs, List.pairwise_singleton _ _, ?_⟩
    intro b hb c hc
    simp only [List.mem_singleton] at hc
    subst hc
    have := (breaksFrom_bounds a 1 xs b hb).2; omega

/-- the chromosome copy `(phase, individual)` of the genome matrix, `[]` if absent -/
def copyOf (geno : List (List (List α))) (c : Nat × Nat) : List α :=
  ((geno[c.1]?).bind (fun gm => gm[c.2]?)).getD []

theorem pick_blockTable (geno : List (List (List α))) (u : List α) (bnds : List (Nat × Nat))
    (c : Nat × Nat) (b : Nat) (g : List α) (hg : (geno[c.1]?).bind (fun gm => gm[c.2]?) = some g)
    (hb : b < bnds.length) :
    ((blockTable geno u bnds)[c.1]?).bind (fun Vm => (Vm[c.2]?).bind (fun r => r[b]?))
      = some (blockVal g u bnds[b]) := by
  unfold blockTable
  cases hgm : geno[c.1]? with
  | none => simp [hgm] at hg
  | some gm =>
    simp only [hgm, Option.bind_some] at hg
    simp [List.getElem?_map, hgm, hg, hb]

/-- **value of a block-boundary mosaic**: the gamete that takes block `b` of the partition from the
    chromosome copy `ch b` is worth the sum of the corresponding block values -/
theorem mosaic_value (l : List Nat) (hne : l ≠ []) (geno : List (List (List α))) (u : List α)
    (hu : u.length = l.length) (hgeno : ∀ gm ∈ geno, ∀ g ∈ gm, g.length = l.length)
    (ch : Nat → Nat × Nat)
    (hch : ∀ b, b < nruns l → ((geno[(ch b).1]?).bind (fun gm => gm[(ch b).2]?)).isSome) :
    Np.dot (mosaic (blockPairs l) ((List.range (nruns l)).map (fun b => copyOf geno (ch b)))) u =
      ((List.range (nruns l)).map (fun b => pick (blockTable geno u (blockPairs l)) (ch b) b)).sum := by
  cases l with
  | nil => exact absurd rfl hne
  | cons a xs =>
    have hchain : (0 :: (breaksFrom a 1 xs ++ [xs.length + 1])).Pairwise (· ≤ ·) :=
      (starts_chain a xs).imp (fun h => Nat.le_of_lt h)
    set src := (List.range (nruns (a :: xs))).map (fun b => copyOf geno (ch b)) with hsrc
    have hlen_src : src.length = (breaksFrom a 1 xs).length + 1 := by simp [hsrc, nruns]
    have hcopy : ∀ b, b < nruns (a :: xs) → ∃ g, (geno[(ch b).1]?).bind (fun gm => gm[(ch b).2]?) = some g ∧
        copyOf geno (ch b) = g ∧ g.length = u.length := by
      intro b hb
      obtain ⟨g, hg⟩ := Option.isSome_iff_exists.mp (hch b hb)
      refine ⟨g, hg, by simp [copyOf, hg], ?_⟩
      cases hgm : geno[(ch b).1]? with
      | none => simp [hgm] at hg
      | some gm =>
        simp only [hgm, Option.bind_some] at hg
        rw [hu]
        exact hgeno gm (List.mem_of_getElem? hgm) g (List.mem_of_getElem? hg)
    have hall : ∀ g ∈ src, g.length = u.length := by
      intro g hg
      simp only [hsrc, List.mem_map, List.mem_range] at hg
      obtain ⟨b, hb, rfl⟩ := hg
      obtain ⟨g', _, h2, h3⟩ := hcopy b hb
      rw [h2]; exact h3
    have hmain := sum_blockVal_mosaic u 0 (xs.length + 1) (breaksFrom a 1 xs) src hlen_src hall hchain
    have hslice : slice 0 (xs.length + 1) u = u := by
      have : xs.length + 1 = u.length := by simp [hu]
      rw [this]; exact slice_zero_length u
    rw [hslice] at hmain
    have hbp : blockPairs (a :: xs) = List.zip (0 :: breaksFrom a 1 xs) (breaksFrom a 1 xs ++ [xs.length + 1]) := rfl
    rw [hbp, hmain]
    congr 1
    have hzl : (List.zip (0 :: breaksFrom a 1 xs) (breaksFrom a 1 xs ++ [xs.length + 1])).length = nruns (a :: xs) := by
      rw [← hbp, blockPairs_length]
    apply List.ext_getElem
    · simp [hzl, hsrc]
    · intro i h1 h2
      have hi : i < nruns (a :: xs) := by simpa using h2
      obtain ⟨g, hg, hc, _⟩ := hcopy i hi
      simp only [List.getElem_zipWith, List.getElem_map, List.getElem_range, hsrc]
      rw [hc]
      simp only [pick]
      rw [pick_blockTable geno u _ (ch i) i g hg (by rw [hzl]; exact hi)]
      simp

end

end Haplo
