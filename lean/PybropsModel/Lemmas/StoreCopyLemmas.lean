/-
Lemmas for the heap model of copying (C16).
-/
import Mathlib.Tactic
import PybropsModel.Model.StoreCopy

set_option autoImplicit false

namespace StoreCopy
open Store

/-- every reference of the object points into the heap -/
def WF (h : Heap) (o : HObj) : Prop := ∀ a ∈ refs o, a < h.length

theorem deref_of_prefix {h h' : Heap} (hp : h <+: h') {a : Addr} (ha : a < h.length) :
    deref h' a = deref h a := by
  obtain ⟨t, rfl⟩ := hp
  unfold deref
  simp [List.getD_eq_getElem?_getD, List.getElem?_append_left ha]

theorem deref_poke_other (h : Heap) (a b : Addr) (d : DS) (hne : b ≠ a) :
    deref (poke h a d) b = deref h b := by
  unfold deref poke
  simp [List.getD_eq_getElem?_getD, List.getElem?_set_ne hne.symm]

theorem length_poke (h : Heap) (a : Addr) (d : DS) : (poke h a d).length = h.length := by
  simp [poke]

theorem copyArr_prefix (h : Heap) (a : Addr) : h <+: (copyArr h a).1 := List.prefix_append _ _

theorem copyArr_len (h : Heap) (a : Addr) : (copyArr h a).1.length = h.length + 1 := by
  simp [copyArr]

theorem copyArr_deref (h : Heap) (a : Addr) : deref (copyArr h a).1 (copyArr h a).2 = deref h a := by
  unfold copyArr deref
  simp [List.getD_eq_getElem?_getD]

/-! ### nested dictionaries -/

theorem mem_refsD {kvs : List (String × DVal)} {k : String} {b : Addr} (h : (k, DVal.ref b) ∈ kvs) :
    b ∈ refsD kvs := by
  induction kvs with
  | nil => simp at h
  | cons x r ih =>
    obtain ⟨kx, vx⟩ := x
    rcases List.mem_cons.mp h with e | e
    · have : vx = DVal.ref b := (congrArg Prod.snd e).symm
      subst this; simp [refsD]
    · cases vx <;> simp [refsD, ih e]


theorem deepD_spec (kvs : List (String × DVal)) :
    ∀ (h : Heap), (∀ a ∈ refsD kvs, a < h.length) →
      h <+: (deepD h kvs).1 ∧
      (deepD h kvs).2.map (fun kv => (kv.1, viewD (deepD h kvs).1 kv.2)) =
        kvs.map (fun kv => (kv.1, viewD h kv.2)) ∧
      (∀ a ∈ refsD (deepD h kvs).2, h.length ≤ a ∧ a < (deepD h kvs).1.length) := by
  induction kvs with
  | nil => intro h _; exact ⟨List.prefix_refl _, rfl, by simp [deepD, refsD]⟩
  | cons kv r ih =>
    intro h hwf
    obtain ⟨k, v⟩ := kv
    cases v with
    | imm d =>
      have hr : ∀ a ∈ refsD r, a < h.length := fun a ha => hwf a (by simpa [refsD] using ha)
      obtain ⟨i1, i2, i3⟩ := ih h hr
      refine ⟨by simpa [deepD] using i1, ?_, ?_⟩
      · simp only [deepD, List.map_cons]
        rw [i2]
        rfl
      · intro a ha
        exact i3 a (by simpa [deepD, refsD] using ha)
    | ref a0 =>
      have ha0 : a0 < h.length := hwf a0 (by simp [refsD])
      have hr : ∀ a ∈ refsD r, a < (copyArr h a0).1.length := fun a ha =>
        lt_of_lt_of_le (hwf a (by simp [refsD, ha])) (by rw [copyArr_len]; exact Nat.le_succ _)
      obtain ⟨i1, i2, i3⟩ := ih (copyArr h a0).1 hr
      have hpre : h <+: (deepD (copyArr h a0).1 r).1 := (copyArr_prefix h a0).trans i1
      refine ⟨by simpa [deepD] using hpre, ?_, ?_⟩
      · simp only [deepD, List.map_cons]
        rw [i2]
        congr 1
        · -- the fresh buffer keeps its contents in the final heap
          have hlt : (copyArr h a0).2 < (copyArr h a0).1.length := by
            simp [copyArr]
          show (k, some (deref (deepD (copyArr h a0).1 r).1 (copyArr h a0).2)) = (k, some (deref h a0))
          rw [deref_of_prefix i1 hlt, copyArr_deref]
        · apply List.map_congr_left
          intro kv hkv
          cases hv : kv.2 with
          | imm d => rfl
          | ref b =>
            show (kv.1, some (deref (copyArr h a0).1 b)) = (kv.1, some (deref h b))
            have hb : b < h.length := hwf b (by
              have : b ∈ refsD r := mem_refsD (k := kv.1) (by rw [← hv]; exact hkv)
              simp [refsD, this])
            rw [deref_of_prefix (copyArr_prefix h a0) hb]
      · intro a ha
        simp only [deepD, refsD, List.mem_cons] at ha
        rcases ha with e | e
        · subst e
          refine ⟨by simp [copyArr], ?_⟩
          have l := i1.length_le
          rw [copyArr_len] at l
          show h.length < (deepD (copyArr h a0).1 r).1.length
          omega
        · obtain ⟨l1, l2⟩ := i3 a e
          rw [copyArr_len] at l1
          exact ⟨by omega, l2⟩

/-! ### view under heap growth and pokes -/

theorem viewD_prefix {h h' : Heap} (hp : h <+: h') (v : DVal) (hv : ∀ a, v = .ref a → a < h.length) :
    viewD h' v = viewD h v := by
  cases v with
  | imm d => rfl
  | ref a => simp only [viewD]; rw [deref_of_prefix hp (hv a rfl)]

theorem viewV_prefix {h h' : Heap} (hp : h <+: h') (v : Val) (hv : ∀ a ∈ refsV v, a < h.length) :
    viewV h' v = viewV h v := by
  cases v with
  | none => rfl
  | imm d => rfl
  | ref a => simp only [viewV]; rw [deref_of_prefix hp (hv a (by simp [refsV]))]
  | dict kvs =>
    simp only [viewV]
    congr 1
    apply List.map_congr_left
    intro kv hkv
    rw [viewD_prefix hp kv.2 (fun a e => hv a (by
      simp only [refsV]
      exact mem_refsD (k := kv.1) (by rw [← e]; exact hkv)))]

theorem view_prefix {h h' : Heap} (hp : h <+: h') (o : HObj) (hwf : WF h o) : view h' o = view h o := by
  induction o with
  | nil => rfl
  | cons kv r ih =>
    obtain ⟨k, v⟩ := kv
    have h1 : ∀ a ∈ refsV v, a < h.length := fun a ha => hwf a (by simp [refs, ha])
    have h2 : WF h r := fun a ha => hwf a (by simp [refs, ha])
    simp only [view, List.map_cons]
    rw [viewV_prefix hp v h1]
    congr 1
    exact ih h2

theorem viewV_poke {h : Heap} {a : Addr} {d : DS} (v : Val) (hv : a ∉ refsV v) :
    viewV (poke h a d) v = viewV h v := by
  cases v with
  | none => rfl
  | imm d => rfl
  | ref b =>
    simp only [viewV]
    rw [deref_poke_other h a b d (fun e => hv (by simp [refsV, e]))]
  | dict kvs =>
    simp only [viewV]
    congr 1
    apply List.map_congr_left
    intro kv hkv
    cases hkv2 : kv.2 with
    | imm d => rfl
    | ref b =>
      simp only [viewD]
      rw [deref_poke_other h a b d (fun e => hv (by
        simp only [refsV]
        exact e ▸ mem_refsD (k := kv.1) (by rw [← hkv2]; exact hkv)))]

theorem view_poke {h : Heap} {a : Addr} {d : DS} (o : HObj) (ho : a ∉ refs o) :
    view (poke h a d) o = view h o := by
  induction o with
  | nil => rfl
  | cons kv r ih =>
    obtain ⟨k, v⟩ := kv
    simp only [refs, List.mem_append, not_or] at ho
    simp only [view, List.map_cons]
    rw [viewV_poke v ho.1]
    congr 1
    exact ih ho.2

theorem view_pokes (o : HObj) (ps : List (Addr × DS)) :
    ∀ (h : Heap), (∀ p ∈ ps, p.1 ∉ refs o) → view (pokes h ps) o = view h o := by
  induction ps with
  | nil => intro h _; rfl
  | cons p r ih =>
    intro h hp
    obtain ⟨a, d⟩ := p
    show view (pokes (poke h a d) r) o = view h o
    rw [ih _ (fun q hq => hp q (List.mem_cons_of_mem _ hq))]
    exact view_poke o (hp (a, d) List.mem_cons_self)

/-! ### copies -/

theorem copyVal_spec (deep : Bool) (h : Heap) (v : Val) (hv : ∀ a ∈ refsV v, a < h.length) :
    h <+: (copyVal deep h v).1 ∧
    viewV (copyVal deep h v).1 (copyVal deep h v).2 = viewV h v ∧
    (deep = true → ∀ a ∈ refsV (copyVal deep h v).2, h.length ≤ a ∧ a < (copyVal deep h v).1.length) ∧
    (∀ a ∈ refsV (copyVal deep h v).2, a < (copyVal deep h v).1.length) := by
  cases v with
  | none => exact ⟨List.prefix_refl _, rfl, fun _ a ha => by simp [copyVal, refsV] at ha,
      fun a ha => by simp [copyVal, refsV] at ha⟩
  | imm d => exact ⟨List.prefix_refl _, rfl, fun _ a ha => by simp [copyVal, refsV] at ha,
      fun a ha => by simp [copyVal, refsV] at ha⟩
  | ref a0 =>
    refine ⟨copyArr_prefix h a0, ?_, ?_, ?_⟩
    · simp only [copyVal, viewV]; rw [copyArr_deref]
    · intro _ a ha
      have : a = h.length := by simpa [copyVal, refsV, copyArr] using ha
      subst this
      simp [copyVal, copyArr]
    · intro a ha
      have : a = h.length := by simpa [copyVal, refsV, copyArr] using ha
      subst this
      simp [copyVal, copyArr]
  | dict kvs =>
    cases deep with
    | false =>
      exact ⟨List.prefix_refl _, rfl, fun e => by simp at e, fun a ha => hv a (by simpa [copyVal] using ha)⟩
    | true =>
      obtain ⟨i1, i2, i3⟩ := deepD_spec kvs h (fun a ha => hv a (by simpa [refsV] using ha))
      refine ⟨by simpa [copyVal] using i1, ?_, ?_, ?_⟩
      · simp only [copyVal, viewV, if_true]
        rw [i2]
      · intro _ a ha
        exact i3 a (by simpa [copyVal, refsV] using ha)
      · intro a ha
        exact (i3 a (by simpa [copyVal, refsV] using ha)).2

theorem copyObj_spec (deep : Bool) (o : HObj) :
    ∀ (h : Heap), WF h o →
      h <+: (copyObj deep h o).1 ∧
      view (copyObj deep h o).1 (copyObj deep h o).2 = view h o ∧
      (deep = true → ∀ a ∈ refs (copyObj deep h o).2, h.length ≤ a) ∧
      WF (copyObj deep h o).1 (copyObj deep h o).2 := by
  induction o with
  | nil => intro h _; exact ⟨List.prefix_refl _, rfl, fun _ a ha => by simp [copyObj, refs] at ha,
      fun a ha => by simp [copyObj, refs] at ha⟩
  | cons kv r ih =>
    intro h hwf
    obtain ⟨k, v⟩ := kv
    have h1 : ∀ a ∈ refsV v, a < h.length := fun a ha => hwf a (by simp [refs, ha])
    have h2 : WF h r := fun a ha => hwf a (by simp [refs, ha])
    obtain ⟨c1, c2, c3, c4⟩ := copyVal_spec deep h v h1
    have h2' : WF (copyVal deep h v).1 r := fun a ha => lt_of_lt_of_le (h2 a ha) c1.length_le
    obtain ⟨i1, i2, i3, i4⟩ := ih (copyVal deep h v).1 h2'
    refine ⟨by simpa [copyObj] using c1.trans i1, ?_, ?_, ?_⟩
    · simp only [copyObj, view, List.map_cons]
      congr 1
      · congr 1
        rw [viewV_prefix i1 _ c4, c2]
      · have := i2
        simp only [view] at this
        rw [this]
        exact view_prefix c1 r h2
    · intro hd a ha
      simp only [copyObj, refs, List.mem_append] at ha
      rcases ha with e | e
      · exact (c3 hd a e).1
      · exact le_trans c1.length_le (i3 hd a e)
    · intro a ha
      simp only [copyObj, refs, List.mem_append] at ha
      rcases ha with e | e
      · exact lt_of_lt_of_le (c4 a e) i1.length_le
      · exact i4 a e

/-! ### what a shallow copy shares -/

theorem dictRefs_sub_refs (o : HObj) : ∀ a ∈ dictRefs o, a ∈ refs o := by
  induction o with
  | nil => intro a ha; simp [dictRefs] at ha
  | cons kv r ih =>
    obtain ⟨k, v⟩ := kv
    intro a ha
    cases v with
    | none => exact List.mem_append_right _ (ih a (by simpa [dictRefs] using ha))
    | imm d => exact List.mem_append_right _ (ih a (by simpa [dictRefs] using ha))
    | ref b => exact List.mem_append_right _ (ih a (by simpa [dictRefs] using ha))
    | dict kvs =>
      simp only [dictRefs, List.mem_append] at ha
      rcases ha with e | e
      · exact List.mem_append_left _ (by simpa [refsV] using e)
      · exact List.mem_append_right _ (ih a e)

theorem copyVal_false_len_le (h : Heap) (v : Val) : h.length ≤ (copyVal false h v).1.length := by
  cases v with
  | none => simp [copyVal]
  | imm d => simp [copyVal]
  | ref a => simp [copyVal, copyArr]
  | dict kvs => simp [copyVal]

/-- every address a shallow copy refers to is an array inside one of the source's dictionaries, or fresh -/
theorem shallow_refs (o : HObj) :
    ∀ (h : Heap) (a : Addr), a ∈ refs (copyObj false h o).2 → a ∈ dictRefs o ∨ h.length ≤ a := by
  induction o with
  | nil => intro h a ha; simp [copyObj, refs] at ha
  | cons kv r ih =>
    obtain ⟨k, v⟩ := kv
    intro h a ha
    simp only [copyObj, refs, List.mem_append] at ha
    rcases ha with e | e
    · cases v with
      | none => simp [copyVal, refsV] at e
      | imm d => simp [copyVal, refsV] at e
      | ref b =>
        have : a = h.length := by simpa [copyVal, refsV, copyArr] using e
        exact Or.inr (le_of_eq this.symm)
      | dict kvs =>
        have : a ∈ refsD kvs := by simpa [copyVal, refsV] using e
        exact Or.inl (by simp [dictRefs, this])
    · rcases ih _ a e with i | i
      · left
        cases v <;> simp [dictRefs, i]
      · exact Or.inr (le_trans (copyVal_false_len_le h v) i)

/-- … and every array inside a dictionary of the source is shared by the shallow copy -/
theorem dictRefs_in_shallow (o : HObj) :
    ∀ (h : Heap) (a : Addr), a ∈ dictRefs o → a ∈ refs (copyObj false h o).2 := by
  induction o with
  | nil => intro h a ha; simp [dictRefs] at ha
  | cons kv r ih =>
    obtain ⟨k, v⟩ := kv
    intro h a ha
    simp only [copyObj, refs, List.mem_append]
    cases v with
    | none => exact Or.inr (ih _ a (by simpa [dictRefs] using ha))
    | imm d => exact Or.inr (ih _ a (by simpa [dictRefs] using ha))
    | ref b => exact Or.inr (ih _ a (by simpa [dictRefs] using ha))
    | dict kvs =>
      simp only [dictRefs, List.mem_append] at ha
      rcases ha with e | e
      · exact Or.inl (by simpa [copyVal, refsV] using e)
      · exact Or.inr (ih _ a e)

/-! ### copy histories -/

/-- invariant of a history: the source and every copy taken so far refer into the heap -/
def CInv (s : CState) : Prop := WF s.heap s.src ∧ ∀ c ∈ s.copies, WF s.heap c

theorem WF_mono {h h' : Heap} {o : HObj} (hle : h.length ≤ h'.length) (hwf : WF h o) : WF h' o :=
  fun a ha => lt_of_lt_of_le (hwf a ha) hle

theorem CInv_step (s : CState) (op : COp) (hs : CInv s) : CInv (stepC s op) := by
  obtain ⟨h1, h2⟩ := hs
  cases op with
  | copy deep =>
    obtain ⟨c1, _, _, c4⟩ := copyObj_spec deep s.src s.heap h1
    refine ⟨WF_mono c1.length_le h1, ?_⟩
    intro c hc
    simp only [stepC, List.mem_append, List.mem_singleton] at hc
    rcases hc with e | e
    · exact WF_mono c1.length_le (h2 c e)
    · subst e; exact c4
  | write a d =>
    refine ⟨WF_mono (le_of_eq (length_poke _ _ _).symm) h1, ?_⟩
    intro c hc
    exact WF_mono (le_of_eq (length_poke _ _ _).symm) (h2 c hc)

theorem CInv_run (ops : List COp) : ∀ (s : CState), CInv s → CInv (runC s ops) := by
  induction ops with
  | nil => intro s hs; exact hs
  | cons op r ih => intro s hs; exact ih _ (CInv_step s op hs)

end StoreCopy
