/-
Helper lemmas for C07 (7): permuting / relabelling the candidates — the chosen criterion values are
the same list (ties allowed), and with pairwise-distinct values the chosen set is the image.
Also: `numpy.argmax` of the model returns the first maximiser.
-/
import PybropsModel.Lemmas.SelProtSort
import PybropsModel.Lemmas.XConfigList
set_option autoImplicit false
set_option linter.unusedSectionVars false

namespace SelProt
open XConfig

section values
variable {α : Type} [LinearOrder α]

theorem take_map_snd (obj : List α) (l : List (α × Nat)) (h : ∀ p ∈ l, obj[p.2]? = some p.1) :
    Np.take (l.map Prod.snd) obj = l.map Prod.fst := by
  unfold Np.take
  induction l with
  | nil => rfl
  | cons p t ih =>
    simp only [List.map_cons, List.filterMap_cons, h p (by simp)]
    rw [ih (fun q hq => h q (by simp [hq]))]

/-- the criterion values of the chosen candidates are the k smallest values, in ascending order -/
theorem chosen_values (obj : List α) (k : Nat) :
    Np.take (sortingSubset obj k) obj = ((sortedPairs obj).map Prod.fst).take k := by
  rw [sortingSubset_eq, take_map_snd obj _ (fun p hp => (mem_sortedPairs obj p).mp (List.mem_of_mem_take hp)),
    List.map_take]

theorem sorted_values_perm (obj : List α) : ((sortedPairs obj).map Prod.fst).Perm obj := by
  have := (sortedPairs_perm obj).map Prod.fst
  rwa [map_fst_zipIdx] at this

theorem sorted_values_pairwise (obj : List α) : ((sortedPairs obj).map Prod.fst).Pairwise (· ≤ ·) := by
  rw [List.pairwise_map]; exact sortedPairs_pairwise obj

theorem sorted_values_congr (obj obj' : List α) (h : obj'.Perm obj) :
    (sortedPairs obj').map Prod.fst = (sortedPairs obj).map Prod.fst := by
  apply List.Perm.eq_of_pairwise (le := (· ≤ ·)) (fun a b _ _ h1 h2 => le_antisymm h1 h2)
    (sorted_values_pairwise obj') (sorted_values_pairwise obj)
  exact (sorted_values_perm obj').trans (h.trans (sorted_values_perm obj).symm)

end values

section equivariance
variable {α : Type} [LinearOrder α]

theorem getElem?_take_perm (obj : List α) (pi : List Nat) (hpi : pi.Perm (List.range obj.length))
    (i : Nat) (hi : i < obj.length) : (Np.take pi obj)[i]? = obj[pi.getD i 0]? := by
  have hall : ∀ j ∈ pi, j < obj.length := fun j hj => List.mem_range.mp (hpi.mem_iff.mp hj)
  have hlen : pi.length = obj.length := by rw [hpi.length_eq, List.length_range]
  have hi' : i < pi.length := by rw [hlen]; exact hi
  have hl := length_take obj pi hall
  have hi'' : i < (Np.take pi obj).length := by rw [hl]; exact hi'
  rw [List.getElem?_eq_getElem hi'', getElem_take obj pi hall i hi' hi'']
  simp [List.getD_eq_getElem?_getD, List.getElem?_eq_getElem hi', List.getElem?_eq_getElem (hall _ (List.getElem_mem hi'))]

theorem image_topK (obj : List α) (k : Nat) (pi : List Nat) (hpi : pi.Perm (List.range obj.length))
    (S' : List Nat) (h : TopK (Np.take pi obj) k S') : TopK obj k (S'.map (fun i => pi.getD i 0)) := by
  have hall : ∀ j ∈ pi, j < obj.length := fun j hj => List.mem_range.mp (hpi.mem_iff.mp hj)
  have hlen : pi.length = obj.length := by rw [hpi.length_eq, List.length_range]
  have hl : (Np.take pi obj).length = obj.length := by rw [length_take obj pi hall, hlen]
  have hnd : pi.Nodup := hpi.nodup_iff.mpr List.nodup_range
  have hget : ∀ i, i < obj.length → ∃ (hi : i < pi.length), pi.getD i 0 = pi[i] := by
    intro i hi
    have hi' : i < pi.length := by rw [hlen]; exact hi
    exact ⟨hi', by simp [List.getD_eq_getElem?_getD, List.getElem?_eq_getElem hi']⟩
  refine ⟨?_, ?_, ?_, ?_⟩
  · rw [List.length_map, h.len, hl]
  · apply List.Nodup.map_on _ h.nodup
    intro x hx y hy e
    obtain ⟨hx', ex⟩ := hget x (by rw [← hl]; exact h.valid x hx)
    obtain ⟨hy', ey⟩ := hget y (by rw [← hl]; exact h.valid y hy)
    rw [ex, ey] at e
    exact (hnd.getElem_inj_iff).mp e
  · intro t ht
    obtain ⟨i, hi, rfl⟩ := List.mem_map.mp ht
    obtain ⟨hi', ei⟩ := hget i (by rw [← hl]; exact h.valid i hi)
    rw [ei]; exact hall _ (List.getElem_mem hi')
  · intro t ht j hj a b ha hb
    obtain ⟨i, hi, rfl⟩ := List.mem_map.mp ht
    have hil : i < obj.length := by rw [← hl]; exact h.valid i hi
    have hjl : j < obj.length := by
      by_contra hn
      rw [List.getElem?_eq_none (Nat.le_of_not_lt hn)] at hb
      cases hb
    -- j = pi[j'] for some j'
    have hjm : j ∈ pi := hpi.mem_iff.mpr (List.mem_range.mpr hjl)
    obtain ⟨j', hj', ej⟩ := List.mem_iff_getElem.mp hjm
    have hj'l : j' < obj.length := by rw [← hlen]; exact hj'
    have ej' : pi.getD j' 0 = j := by simp [List.getD_eq_getElem?_getD, List.getElem?_eq_getElem hj', ej]
    have hj'S : j' ∉ S' := by
      intro hm
      exact hj (List.mem_map.mpr ⟨j', hm, ej'⟩)
    have e1 := getElem?_take_perm obj pi hpi i hil
    have e2 := getElem?_take_perm obj pi hpi j' hj'l
    rw [ej'] at e2
    exact h.best i hi j' hj'S a b (by rw [e1]; exact ha) (by rw [e2]; exact hb)

end equivariance

section argmax
variable {α : Type} [LinearOrder α]

theorem argmaxFrom_spec (l : List α) (best : Nat) (bv : α) (i : Nat) (pre : List α)
    (hpre : pre.length = i) (hb : best < i) (hbv : pre[best]? = some bv)
    (hmax : ∀ (j : Nat) (x : α), pre[j]? = some x → x ≤ bv)
    (hfirst : ∀ (j : Nat) (x : α), j < best → pre[j]? = some x → x < bv) :
    let r := argmaxFrom best bv i l
    ∃ v, (pre ++ l)[r]? = some v ∧ (∀ (j : Nat) (x : α), (pre ++ l)[j]? = some x → x ≤ v) ∧
      (∀ (j : Nat) (x : α), j < r → (pre ++ l)[j]? = some x → x < v) := by
  induction l generalizing best bv i pre with
  | nil =>
    simp only [argmaxFrom, List.append_nil]
    exact ⟨bv, hbv, hmax, hfirst⟩
  | cons x xs ih =>
    simp only [argmaxFrom]
    have happ : pre ++ x :: xs = (pre ++ [x]) ++ xs := by simp
    have hlen : (pre ++ [x]).length = i + 1 := by simp [hpre]
    have hx : (pre ++ [x])[i]? = some x := by
      rw [List.getElem?_append_right (by omega)]; simp [hpre]
    have hold : ∀ j y, (pre ++ [x])[j]? = some y → (pre[j]? = some y) ∨ (j = i ∧ y = x) := by
      intro j y hy
      by_cases hj : j < pre.length
      · left; rwa [List.getElem?_append_left hj] at hy
      · right
        rw [List.getElem?_append_right (by omega)] at hy
        have : j - pre.length = 0 := by
          by_contra hne
          have : ([x] : List α)[j - pre.length]? = none := by
            apply List.getElem?_eq_none; simp; omega
          rw [this] at hy; cases hy
        simp [this] at hy
        exact ⟨by omega, hy.symm⟩
    split
    · rename_i hlt
      rw [happ]
      apply ih i x (i + 1) (pre ++ [x]) hlen (by omega) hx
      · intro j y hy
        rcases hold j y hy with h | ⟨_, rfl⟩
        · exact le_of_lt (lt_of_le_of_lt (hmax j y h) hlt)
        · exact le_refl _
      · intro j y hj hy
        rcases hold j y hy with h | ⟨e, _⟩
        · exact lt_of_le_of_lt (hmax j y h) hlt
        · omega
    · rename_i hnlt
      rw [happ]
      apply ih best bv (i + 1) (pre ++ [x]) hlen (by omega)
      · rw [List.getElem?_append_left (by omega)]; exact hbv
      · intro j y hy
        rcases hold j y hy with h | ⟨_, rfl⟩
        · exact hmax j y h
        · exact not_lt.mp hnlt
      · intro j y hj hy
        rcases hold j y hy with h | ⟨e, _⟩
        · exact hfirst j y hj h
        · omega

/-- `argmax` returns a position of a maximum, the first one -/
theorem argmax_spec (l : List α) (r : Nat) (h : argmax l = some r) :
    ∃ v, l[r]? = some v ∧ (∀ (j : Nat) (x : α), l[j]? = some x → x ≤ v) ∧
      (∀ (j : Nat) (x : α), j < r → l[j]? = some x → x < v) := by
  cases l with
  | nil => simp [argmax] at h
  | cons x xs =>
    simp only [argmax, Option.some.injEq] at h
    subst h
    have := argmaxFrom_spec xs 0 x 1 [x] rfl (by omega) (by simp)
      (by intro j y hy; cases j with
          | zero => simp at hy; exact le_of_eq hy.symm
          | succ j => simp at hy)
      (by intro j y hj; omega)
    simpa using this

end argmax
end SelProt
