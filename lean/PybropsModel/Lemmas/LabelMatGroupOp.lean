/-
Lemmas/LabelMatGroupOp.lean — `group_<k>` leaves metadata that are a true partition of the (sorted)
group column; frame facts of every operation on the group metadata.
-/
import PybropsModel.Lemmas.LabelMatOps
import PybropsModel.Lemmas.LabelMatGroup

set_option autoImplicit false
set_option linter.unusedVariables false

namespace LabelMat

variable {α lab : Type}

/-- the keys `lexsort_<k>` uses when none are given -/
def defaultKeys (k : Kind) (s : St α lab) : List (List lab) :=
  (k.sortKeys.map (fun c => ((s.bundle k).cols[c]?).join)).filterMap id

theorem lexsortK_default {le : lab → lab → Bool} {sch : Schema} {k : Kind} {s : St α lab} {ix : List Nat}
    (h : lexsortK le sch k none s = .ok ix) :
    (∀ c ∈ defaultKeys k s, c.length = s.len sch k) ∧ ix = lexsortIdx le (defaultKeys k s) (s.len sch k) := by
  unfold lexsortK at h
  simp only [bind, Except.bind, pure, Except.pure] at h
  split at h
  · cases h
  · split at h
    · cases h
    · split at h
      · cases h
      · rename_i hlen
        cases h
        refine ⟨?_, rfl⟩
        intro c hc
        simp only [Bool.not_eq_true, List.any_eq_false, bne_iff_ne, ne_eq, Decidable.not_not] at hlen
        have := hlen c hc
        simpa using this

/-- the group column is the last (primary) default sort key -/
theorem defaultKeys_last (k : Kind) (c : Nat) (hc : k.grpCol = some c) (s : St α lab) (col : List lab)
    (hcol : ((s.bundle k).cols[c]?).join = some col) :
    ∃ front, defaultKeys k s = front ++ [col] := by
  cases k with
  | taxa =>
    simp only [Kind.grpCol, Option.some.injEq] at hc
    subst hc
    simp only [defaultKeys, Kind.sortKeys, List.map_cons, List.map_nil, hcol]
    cases ((s.bundle Kind.taxa).cols[0]?).join with
    | none => exact ⟨[], by simp⟩
    | some x => exact ⟨[x], by simp⟩
  | vrnt =>
    simp only [Kind.grpCol, Option.some.injEq] at hc
    subst hc
    simp only [defaultKeys, Kind.sortKeys, List.map_cons, List.map_nil, hcol]
    cases ((s.bundle Kind.vrnt).cols[1]?).join with
    | none => exact ⟨[], by simp⟩
    | some x => exact ⟨[x], by simp⟩
  | trait => simp [Kind.grpCol] at hc

theorem mapCols_col (f : ListOp) (b : Bundle lab) (c : Nat) :
    (((b.mapCols f).cols)[c]?).join = (((b.cols)[c]?).join).map (f lab) := by
  simp only [Bundle.mapCols, List.getElem?_map]
  cases b.cols[c]? with
  | none => rfl
  | some o => cases o <;> rfl

/-- what `group_<k>` returns: the sorted state, with run-length metadata of its group column when that
    column is present -/
theorem groupK_eq [BEq lab] {le : lab → lab → Bool} {sch : Schema} {k : Kind} {s s' : St α lab}
    (h : groupK le sch k s = .ok s') :
    ∃ c s1, k.grpCol = some c ∧ sortK le sch k none s = .ok s1 ∧
      ((((s1.bundle k).cols[c]?).join = none ∧ s' = s1) ∨
       ∃ col, ((s1.bundle k).cols[c]?).join = some col ∧
         s' = s1.setBundle k { (s1.bundle k) with grp := some (grpOfSorted col) }) := by
  unfold groupK at h
  split at h
  · cases h
  · rename_i c hc
    simp only [bind, Except.bind, pure, Except.pure] at h
    split at h
    · cases h
    · rename_i s1 hs1
      refine ⟨c, s1, hc, hs1, ?_⟩
      split at h
      · rename_i hn; cases h; exact Or.inl ⟨hn, rfl⟩
      · rename_i col hn; cases h; exact Or.inr ⟨col, hn, rfl⟩

/-- **After `group_<k>` the group column is ascending.** -/
theorem groupK_sorted [LinearOrder lab] {sch : Schema} {k : Kind} {s s1 : St α lab} {c : Nat}
    (hc : k.grpCol = some c) (h : sortK (fun a b : lab => decide (a ≤ b)) sch k none s = .ok s1)
    (col : List lab) (hcol : ((s1.bundle k).cols[c]?).join = some col) :
    col.Pairwise (· ≤ ·) := by
  obtain ⟨ix, hix, rfl⟩ := sortK_eq h
  obtain ⟨hlen, rfl⟩ := lexsortK_default hix
  -- the column before the reorder
  have hb : (applyK sch k (fun _ => Np.take (lexsortIdx (fun a b : lab => decide (a ≤ b))
      (defaultKeys k (freshK k s)) ((freshK k s).len sch k))) (freshK k s)).bundle k
      = ((freshK k s).bundle k).mapCols (fun _ => Np.take (lexsortIdx (fun a b : lab => decide (a ≤ b))
      (defaultKeys k (freshK k s)) ((freshK k s).len sch k))) := by
    simp [applyK]
  rw [hb, mapCols_col] at hcol
  cases hcol0 : (((freshK k s).bundle k).cols[c]?).join with
  | none => rw [hcol0] at hcol; cases hcol
  | some col0 =>
    rw [hcol0] at hcol
    simp only [Option.map_some, Option.some.injEq] at hcol
    subst hcol
    obtain ⟨front, hfront⟩ := defaultKeys_last k c hc (freshK k s) col0 hcol0
    rw [hfront] at hlen ⊢
    have h1 := lexsort_primary_sorted (fun a b : lab => decide (a ≤ b))
      (fun a b => by simpa using le_total a b)
      (fun a b c hab hbc => by simp only [decide_eq_true_eq] at *; exact le_trans hab hbc)
      front col0 ((freshK k s).len sch k) (hlen col0 (by simp)) (fun x hx => hlen x (by simp [hx]))
    exact h1.imp (fun hxy => by simpa using hxy)

/-- **`group_<k>` caches a true partition.**  If the result reports itself grouped, the metadata are the
    run-length encoding of the current group column, they satisfy `partitionOK`, the names are strictly
    increasing and every block is non-empty. -/
theorem groupK_partition [LinearOrder lab] {sch : Schema} {k : Kind} {s s' : St α lab}
    (h : groupK (fun a b : lab => decide (a ≤ b)) sch k s = .ok s') (g : Grp lab)
    (hg : (s'.bundle k).grp = some g) :
    ∃ c col, k.grpCol = some c ∧ ((s'.bundle k).cols[c]?).join = some col ∧
      partitionOK g col = true ∧ g.name.Pairwise (· < ·) ∧ (∀ n ∈ g.len, 0 < n) := by
  obtain ⟨c, s1, hc, hs1, hcase⟩ := groupK_eq h
  rcases hcase with ⟨_, rfl⟩ | ⟨col, hcol, rfl⟩
  · -- ungrouped result: the metadata of the sorted state are `none`
    exfalso
    obtain ⟨ix, _, rfl⟩ := sortK_eq hs1
    have : ((applyK sch k (fun _ => Np.take ix) (freshK k s)).bundle k).grp = none := by
      simp [applyK, Bundle.mapCols, freshK, Bundle.ungrouped]
    rw [this] at hg
    cases hg
  · simp only [bundle_setBundle_same, Option.some.injEq] at hg
    subst hg
    have hsorted := groupK_sorted hc hs1 col hcol
    refine ⟨c, col, hc, by simpa using hcol, partitionOK_grpOfSorted col hsorted, ?_, ?_⟩
    · simpa [grpOfSorted] using runs_strict col hsorted
    · intro n hn
      simp only [grpOfSorted, List.mem_map] at hn
      obtain ⟨p, hp, rfl⟩ := hn
      exact (runs_mem_pos col p hp).2

end LabelMat
