/-
Helper lemmas for C07 (1): list facts about the sampling primitives —
`Np.take` with a permutation of the index range is a permutation, counts in tiles,
`tiledChoice`, `reshape`, and the duplicate count of one cross.
-/
import Mathlib.Tactic
import PybropsModel.Model.XConfig
set_option autoImplicit false

namespace XConfig

/-! ### `Np.take` -/

theorem filterMap_getElem?_range {α : Type} (l : List α) :
    (List.range l.length).filterMap (fun i => l[i]?) = l := by
  induction l with
  | nil => simp
  | cons a t ih =>
    rw [List.length_cons, List.range_succ_eq_map, List.filterMap_cons]
    simp only [List.getElem?_cons_zero, List.filterMap_map]
    congr 1

/-- shuffling: taking along a permutation of the index range permutes the list -/
theorem take_perm {α : Type} (l : List α) (is : List Nat) (h : is.Perm (List.range l.length)) :
    (Np.take is l).Perm l := by
  unfold Np.take
  have := h.filterMap (fun i => l[i]?)
  rwa [filterMap_getElem?_range] at this

theorem length_take {α : Type} (l : List α) (is : List Nat) (h : ∀ i ∈ is, i < l.length) :
    (Np.take is l).length = is.length := by
  unfold Np.take
  induction is with
  | nil => simp
  | cons i t ih =>
    have hi : i < l.length := h i (by simp)
    rw [List.filterMap_cons]
    simp only [List.getElem?_eq_getElem hi, List.length_cons]
    rw [ih (fun j hj => h j (by simp [hj]))]

theorem getElem_take {α : Type} (l : List α) (is : List Nat) (h : ∀ i ∈ is, i < l.length)
    (k : Nat) (hk : k < is.length) (hk' : k < (Np.take is l).length) :
    (Np.take is l)[k] = l[is[k]]'(h _ (List.getElem_mem hk)) := by
  unfold Np.take at hk' ⊢
  induction is generalizing k with
  | nil => simp at hk
  | cons i t ih =>
    have hi : i < l.length := h i (by simp)
    have e : List.filterMap (fun i => l[i]?) (i :: t) = l[i] :: List.filterMap (fun i => l[i]?) t := by
      rw [List.filterMap_cons]; simp [List.getElem?_eq_getElem hi]
    cases k with
    | zero => simp [e]
    | succ k =>
      simp only [e, List.getElem_cons_succ]
      exact ih (fun j hj => h j (by simp [hj])) k (by simpa using hk) _

/-! ### tiles -/

theorem count_tile (q : Nat) (a : List Nat) (e : Nat) : (Np.tile q a).count e = q * a.count e := by
  unfold Np.tile
  induction q with
  | zero => simp
  | succ q ih => rw [List.replicate_succ, List.flatten_cons, List.count_append, ih]; ring

theorem length_tile {α : Type} (q : Nat) (a : List α) : (Np.tile q a).length = q * a.length := by
  unfold Np.tile
  induction q with
  | zero => simp
  | succ q ih => rw [List.replicate_succ, List.flatten_cons, List.length_append, ih]; ring

theorem mem_tile {α : Type} (q : Nat) (a : List α) (e : α) (h : e ∈ Np.tile q a) : e ∈ a := by
  unfold Np.tile at h
  rw [List.mem_flatten] at h
  obtain ⟨l, hl, he⟩ := h
  rw [List.eq_of_mem_replicate hl] at he
  exact he

/-! ### tiled_choice -/

/-- what a genuine generator may hand to `tiledChoice a N`: a sub-multiset of the options of the
    remainder size, and a permutation of the `N` output positions -/
structure ValidTiled (a : List Nat) (N : Nat) (rem perm : List Nat) : Prop where
  nonempty : a ≠ []
  rem_len : rem.length = N % a.length
  rem_sub : rem.Subperm a
  perm_ok : perm.Perm (List.range N)

theorem tiled_pre_length (a : List Nat) (N : Nat) (rem : List Nat) (h1 : rem.length = N % a.length) :
    (Np.tile (N / a.length) a ++ rem).length = N := by
  rw [List.length_append, length_tile, h1, Nat.mul_comm]
  exact Nat.div_add_mod N a.length

theorem tiledChoice_ok (a : List Nat) (N : Nat) (rem perm : List Nat) (v : ValidTiled a N rem perm) :
    ∃ out, tiledChoice a N rem perm = .ok out ∧ out.Perm (Np.tile (N / a.length) a ++ rem) ∧ out.length = N := by
  have hne : a.length ≠ 0 := by
    intro h; exact v.nonempty (List.eq_nil_of_length_eq_zero h)
  have hl := tiled_pre_length a N rem v.rem_len
  refine ⟨Np.take perm (Np.tile (N / a.length) a ++ rem), by simp [tiledChoice, hne], ?_, ?_⟩
  · exact take_perm _ _ (by rw [hl]; exact v.perm_ok)
  · have := (take_perm _ perm (by rw [hl]; exact v.perm_ok)).length_eq
    rw [this, hl]

/-- use count of an option after tiling: whole tiles plus its share of the remainder -/
theorem tiledChoice_count (a : List Nat) (N : Nat) (rem perm out : List Nat) (v : ValidTiled a N rem perm)
    (h : tiledChoice a N rem perm = .ok out) (e : Nat) :
    out.count e = (N / a.length) * a.count e + rem.count e ∧ rem.count e ≤ a.count e := by
  obtain ⟨out', h', hp, _⟩ := tiledChoice_ok a N rem perm v
  rw [h] at h'
  cases h'
  refine ⟨?_, v.rem_sub.count_le e⟩
  rw [hp.count_eq, List.count_append, count_tile]

theorem tiledChoice_mem (a : List Nat) (N : Nat) (rem perm out : List Nat) (v : ValidTiled a N rem perm)
    (h : tiledChoice a N rem perm = .ok out) (e : Nat) (he : e ∈ out) : e ∈ a := by
  have h1 := (tiledChoice_count a N rem perm out v h e).1
  have hc : 0 < out.count e := List.count_pos_iff.mpr he
  have h2 := (tiledChoice_count a N rem perm out v h e).2
  by_contra hn
  have h0 : a.count e = 0 := List.count_eq_zero.mpr hn
  rw [h0] at h1 h2
  simp at h1
  omega

/-! ### reshape -/

theorem length_reshape (nc np : Nat) (l : List Nat) : (reshape nc np l).length = nc := by
  induction nc generalizing l with
  | zero => rfl
  | succ n ih => simp [reshape, ih]

theorem flatten_reshape (nc np : Nat) (l : List Nat) (h : l.length = nc * np) :
    (reshape nc np l).flatten = l := by
  induction nc generalizing l with
  | zero =>
    have : l = [] := List.eq_nil_of_length_eq_zero (by simpa using h)
    simp [reshape, this]
  | succ n ih =>
    simp only [reshape, List.flatten_cons]
    rw [ih (l.drop np) (by rw [List.length_drop, h]; ring_nf; omega)]
    exact List.take_append_drop np l

theorem rows_reshape (nc np : Nat) (l : List Nat) (h : l.length = nc * np) :
    ∀ r ∈ reshape nc np l, r.length = np := by
  induction nc generalizing l with
  | zero => simp [reshape]
  | succ n ih =>
    intro r hr
    simp only [reshape, List.mem_cons] at hr
    rcases hr with rfl | hr
    · rw [List.length_take, h]
      have : np ≤ (n + 1) * np := by nlinarith
      omega
    · exact ih (l.drop np) (by rw [List.length_drop, h]; ring_nf; omega) r hr

/-! ### the duplicate count of one cross -/

theorem dupCount_add_dedup (l : List Nat) : dupCount l + l.dedup.length = l.length := by
  induction l with
  | nil => rfl
  | cons a t ih =>
    by_cases h : a ∈ t
    · simp only [dupCount, List.contains_iff_mem, h, if_true, List.dedup_cons_of_mem h, List.length_cons]
      omega
    · simp only [dupCount, List.contains_iff_mem, h, if_false, List.dedup_cons_of_notMem h, List.length_cons]
      omega

/-- the score of a cross depends only on the multiset of its parents -/
theorem dupCount_perm (l₁ l₂ : List Nat) (h : l₁.Perm l₂) : dupCount l₁ = dupCount l₂ := by
  have a := dupCount_add_dedup l₁
  have b := dupCount_add_dedup l₂
  have c := h.length_eq
  have d := (h.dedup).length_eq
  omega

theorem dupCount_eq_zero_iff (l : List Nat) : dupCount l = 0 ↔ l.Nodup := by
  induction l with
  | nil => simp [dupCount]
  | cons a t ih =>
    simp only [dupCount, List.contains_iff_mem, List.nodup_cons]
    by_cases h : a ∈ t
    · simp [h]
    · simp [h, ih]

theorem selfPairs_forall₂_perm (r₁ r₂ : Rows) (h : List.Forall₂ List.Perm r₁ r₂) :
    selfPairs r₁ = selfPairs r₂ := by
  unfold selfPairs
  induction h with
  | nil => rfl
  | cons hab _ ih => simp only [List.map_cons, List.sum_cons, ih, dupCount_perm _ _ hab]

end XConfig
