/-
Helper lemmas for C11: a second invariant over operation histories of a map object.

`MapObj.GroupedSorted m`: whenever the object reports `is_grouped()`, its label array `vrnt_chrgrp` is sorted
(ascending) — hence equal labels are contiguous, which is the documented precondition of the sequential-distance
loop `gdist1g`.  It holds for every object reachable from a constructor call through the methods of the map
classes (`Reach`), although a grouped object's rows need NOT be sorted by (chromosome, physical, genetic position)
any more: re-assigning `vrnt_phypos` / `vrnt_genpos` keeps the metadata and the labels.
-/
import PybropsModel.Lemmas.GMapMeta
import PybropsModel.Lemmas.GMapSeq
set_option autoImplicit false
set_option linter.unusedSectionVars false

namespace GMap

section object
variable {α β : Type} [Field α] [LinearOrder α] [IsStrictOrderedRing α]

/-- a grouped object has a sorted label array -/
def MapObj.GroupedSorted (m : MapObj α β) : Prop :=
  m.grouped = true → (m.rows.map (·.chr)).Pairwise (· ≤ ·)

theorem construct_labels_sorted (rows : List (Row α β)) : ((construct rows).map (·.chr)).Pairwise (· ≤ ·) := by
  rw [List.pairwise_map]
  exact (construct_sorted rows).imp (fun h => rowLe_chr_le h)

theorem MapObj.grouped_false_of_gmeta_none {m : MapObj α β} (h : m.gmeta = none) : m.grouped = false := by
  unfold MapObj.grouped; rw [h]; rfl

theorem MapObj.groupedSorted_of_ungrouped {m : MapObj α β} (h : m.gmeta = none) : m.GroupedSorted := by
  intro hg
  rw [MapObj.grouped_false_of_gmeta_none h] at hg
  exact absurd hg (by simp)

theorem MapObj.groupedSorted_new (rows : List (Row α β)) (ag asp : Bool) : (MapObj.new rows ag asp).GroupedSorted := by
  cases ag with
  | true => intro _; exact construct_labels_sorted rows
  | false => exact MapObj.groupedSorted_of_ungrouped rfl

theorem MapObj.groupedSorted_group (m : MapObj α β) : m.group.GroupedSorted :=
  fun _ => construct_labels_sorted m.rows

theorem MapObj.groupedSorted_regroup (m : MapObj α β) (r : List (Row α β)) : (m.regroup r).GroupedSorted := by
  unfold MapObj.regroup
  by_cases hg : m.grouped = true
  · simp only [hg, if_true]
    intro _
    exact construct_labels_sorted r
  · simp only [hg]
    intro hg'
    exact absurd hg' hg

theorem MapObj.groupedSorted_ensureGrouped {m : MapObj α β} (h : m.GroupedSorted) : m.ensureGrouped.GroupedSorted := by
  unfold MapObj.ensureGrouped
  split
  · exact h
  · exact MapObj.groupedSorted_group m

theorem MapObj.groupedSorted_removeDiscrepancies {m : MapObj α β} (h : m.GroupedSorted) :
    m.removeDiscrepancies.GroupedSorted := by
  unfold MapObj.removeDiscrepancies
  simp only
  split
  · exact MapObj.groupedSorted_ensureGrouped h
  · exact MapObj.groupedSorted_regroup _ _

theorem MapObj.groupedSorted_interpGenpos {m : MapObj α β} (h : m.GroupedSorted) (qchr : List Int) (qphy : List α) :
    (m.interpGenpos qchr qphy).2.GroupedSorted := by
  unfold MapObj.interpGenpos
  split
  · exact h
  · exact MapObj.groupedSorted_ensureGrouped h

theorem MapObj.groupedSorted_assign {m : MapObj α β} (h : m.GroupedSorted) (rows : List (Row α β))
    (hl : rows.map (·.chr) = m.rows.map (·.chr)) : (m.assign rows).GroupedSorted := by
  intro hg
  show (rows.map (·.chr)).Pairwise (· ≤ ·)
  rw [hl]
  exact h hg

/-- **invariant**: every reachable grouped object has a sorted label array -/
theorem Reach.groupedSorted {m : MapObj α β} (h : Reach m) : m.GroupedSorted := by
  induction h with
  | new rows ag asp => exact MapObj.groupedSorted_new rows ag asp
  | group _ _ => exact MapObj.groupedSorted_group _
  | remove idx _ _ => exact MapObj.groupedSorted_regroup _ _
  | select idx _ _ => exact MapObj.groupedSorted_regroup _ _
  | selectMask mask _ _ => exact MapObj.groupedSorted_regroup _ _
  | ungroup _ _ => exact MapObj.groupedSorted_of_ungrouped rfl
  | reorder idx _ _ => exact MapObj.groupedSorted_of_ungrouped rfl
  | sort _ _ => exact MapObj.groupedSorted_of_ungrouped rfl
  | removeDiscrepancies _ ih => exact MapObj.groupedSorted_removeDiscrepancies ih
  | buildSpline _ ih => exact ih
  | interpGenpos qchr qphy _ ih => exact MapObj.groupedSorted_interpGenpos ih qchr qphy
  | assign rows _ hl ih => exact MapObj.groupedSorted_assign ih rows hl
  | derived qchr qphy tags _ hd _ => exact MapObj.groupedSorted_of_ungrouped (MapObj.interpGmap_gmeta hd)

end object

end GMap
