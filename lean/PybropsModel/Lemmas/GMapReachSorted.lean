/-
Helper lemmas for C11: a second invariant over operation histories of a map object.

`MapObj.GroupedSorted m`: whenever the object reports `is_grouped()`, its label array `vrnt_chrgrp` is sorted
(ascending) — hence equal labels are contiguous, which is the documented precondition of the sequential-distance
loop `gdist1g`.  It holds for every object reachable from a constructor call through the methods of the map
classes (`Reach`), although a grouped object's rows need NOT be sorted by (chromosome, physical, genetic position)
any more: re-assigning `vrnt_phypos` / `vrnt_genpos` keeps the metadata and the labels.
-/
import PybropsModel.Lemmas.GMapMeta
import PybropsModel.Lemmas.GMapSeq
import PybropsModel.Lemmas.GMapLex
set_option autoImplicit false
set_option linter.unusedSectionVars false

namespace GMap

section object
variable {α β : Type} [Field α] [LinearOrder α] [IsStrictOrderedRing α]

/-- a grouped object has a sorted label array -/
def MapObj.GroupedSorted (m : MapObj α β) : Prop :=
  m.grouped = true → (m.rows.map (·.chr)).Pairwise (· ≤ ·)

theorem construct_labels_sorted (rows : List (Row α β)) : ((construct rows).map (·.chr)).Pairwise (· ≤ ·) := by
  rw [List.pairwise_map]
  exact (construct_sorted rows).imp (fun h => rowLe_chr_le h)

theorem MapObj.grouped_false_of_gmeta_none {m : MapObj α β} (h : m.gmeta = none) : m.grouped = false := by
  unfold MapObj.grouped; rw [h]; rfl

theorem MapObj.groupedSorted_of_ungrouped {m : MapObj α β} (h : m.gmeta = none) : m.GroupedSorted := by
  intro hg
  rw [MapObj.grouped_false_of_gmeta_none h] at hg
  exact absurd hg (by simp)

theorem MapObj.groupedSorted_new (rows : List (Row α β)) (ag asp : Bool) : (MapObj.new rows ag asp).GroupedSorted := by
  cases ag with
  | true => intro _; exact construct_labels_sorted rows
  | false => exact MapObj.groupedSorted_of_ungrouped rfl

theorem MapObj.groupedSorted_group (m : MapObj α β) : m.group.GroupedSorted :=
  fun _ => construct_labels_sorted m.rows

theorem MapObj.groupedSorted_regroup (m : MapObj α β) (r : List (Row α β)) : (m.regroup r).GroupedSorted := by
  unfold MapObj.regroup
  by_cases hg : m.grouped = true
  · simp only [hg, if_true]
    intro _
    exact construct_labels_sorted r
  · simp only [hg]
    intro hg'
    exact absurd hg' hg

theorem MapObj.groupedSorted_ensureGrouped {m : MapObj α β} (h : m.GroupedSorted) : m.ensureGrouped.GroupedSorted := by
  unfold MapObj.ensureGrouped
  split
  · exact h
  · exact MapObj.groupedSorted_group m

theorem MapObj.groupedSorted_removeDiscrepancies {m : MapObj α β} (h : m.GroupedSorted) :
    m.removeDiscrepancies.GroupedSorted := by
  unfold MapObj.removeDiscrepancies
  simp only
  split
  · exact MapObj.groupedSorted_ensureGrouped h
  · exact MapObj.groupedSorted_regroup _ _

theorem MapObj.groupedSorted_interpGenpos {m : MapObj α β} (h : m.GroupedSorted) (qchr : List Int) (qphy : List α) :
    (m.interpGenpos qchr qphy).2.GroupedSorted := by
  unfold MapObj.interpGenpos
  split
  · exact h
  · exact MapObj.groupedSorted_ensureGrouped h

theorem MapObj.groupedSorted_assign {m : MapObj α β} (h : m.GroupedSorted) (rows : List (Row α β))
    (hl : rows.map (·.chr) = m.rows.map (·.chr)) : (m.assign rows).GroupedSorted := by
  intro hg
  show (rows.map (·.chr)).Pairwise (· ≤ ·)
  rw [hl]
  exact h hg

/-- **invariant**: every reachable grouped object has a sorted label array -/
theorem Reach.groupedSorted {m : MapObj α β} (h : Reach m) : m.GroupedSorted := by
  induction h with
  | new rows ag asp => exact MapObj.groupedSorted_new rows ag asp
  | group _ _ => exact MapObj.groupedSorted_group _
  | remove idx _ _ => exact MapObj.groupedSorted_regroup _ _
  | select idx _ _ => exact MapObj.groupedSorted_regroup _ _
  | selectMask mask _ _ => exact MapObj.groupedSorted_regroup _ _
  | ungroup _ _ => exact MapObj.groupedSorted_of_ungrouped rfl
  | reorder idx _ _ => exact MapObj.groupedSorted_of_ungrouped rfl
  | sort _ _ => exact MapObj.groupedSorted_of_ungrouped rfl
  | removeDiscrepancies _ ih => exact MapObj.groupedSorted_removeDiscrepancies ih
  | buildSpline _ ih => exact ih
  | interpGenpos qchr qphy _ ih => exact MapObj.groupedSorted_interpGenpos ih qchr qphy
  | assign rows _ hl ih => exact MapObj.groupedSorted_assign ih rows hl
  | derived qchr qphy tags _ hd _ => exact MapObj.groupedSorted_of_ungrouped (MapObj.interpGmap_gmeta hd)

/-! ### `select` with the same markers in another order (round 5) -/

/-- distinct indices select rows with distinct (chromosome, physical position) from a map without duplicated
    physical positions -/
theorem noDupPhys_take {rows : List (Row α β)} (h : NoDupPhys rows) {idx : List Nat} (hi : idx.Nodup) :
    NoDupPhys (Np.take idx rows) := by
  unfold NoDupPhys Np.take at *
  rw [List.map_filterMap]
  refine List.Nodup.filterMap ?_ hi
  intro i j b hb1 hb2
  simp only [Option.mem_def, Option.map_eq_some_iff] at hb1 hb2
  obtain ⟨a, ha, hab⟩ := hb1
  obtain ⟨a', ha', hab'⟩ := hb2
  obtain ⟨hi', rfl⟩ := List.getElem?_eq_some_iff.mp ha
  obtain ⟨hj', rfl⟩ := List.getElem?_eq_some_iff.mp ha'
  have : (rows.map (fun r => (r.chr, r.phy)))[i]'(by simpa using hi') =
      (rows.map (fun r => (r.chr, r.phy)))[j]'(by simpa using hj') := by
    simp [hab, hab']
  exact (List.Nodup.getElem_inj_iff h).mp this

/-- on a grouped object `select` re-sorts: index arrays that are rearrangements of one another give the same object -/
theorem MapObj.select_perm_eq (m : MapObj α β) (hg : m.grouped = true) {idx idx' : List Nat} (hp : idx.Perm idx')
    (hv : NoDupPhys (Np.take idx m.rows)) : m.select idx = m.select idx' := by
  have hp' : (Np.take idx m.rows).Perm (Np.take idx' m.rows) := hp.filterMap _
  have h := construct_eq_of_perm_of_noDupPhys hp' hv
  simp [MapObj.select, MapObj.regroup, hg, h]

/-- on an ungrouped object `select` keeps the rows in the order of the index array and the object stays ungrouped -/
theorem MapObj.select_ungrouped_rows (m : MapObj α β) (hg : m.grouped = false) (idx : List Nat) :
    (m.select idx).rows = Np.take idx m.rows ∧ (m.select idx).grouped = false := by
  have hg' : m.gmeta.isSome = false := hg
  constructor
  · simp [MapObj.select, MapObj.regroup, hg]
  · simp [MapObj.select, MapObj.regroup, MapObj.grouped, hg']

end object

end GMap
