/-
Spec ↔ model link for C04, generic part: the tolerant comparison accepts equal values and, at zero
tolerance, only equal values; list sums over `List.range` as finite sums; a matrix is determined by
its shape and entries.
-/
import PybropsModel.Lemmas.GenomicEntries
import PybropsModel.Model.GenomicSpec
set_option autoImplicit false
set_option linter.unusedSectionVars false
set_option linter.unusedSimpArgs false
set_option linter.unusedVariables false

namespace SpecLink
open Finset BigOperators GMod GSpec GSList

/-- a dense matrix as reported values -/
def someM (M : List (List ℚ)) : List (List (Option ℚ)) := M.map (fun r => r.map some)

theorem absQ_eq (q : ℚ) : absQ q = |q| := by
  unfold absQ
  by_cases h : q < 0
  · simp [h, abs_of_neg h]
  · simp [h, abs_of_nonneg (not_lt.mp h)]

theorem closeQ_self (rel abs_ a : ℚ) (h : 0 ≤ abs_) : closeQ rel abs_ a a = true := by
  unfold closeQ
  simp [absQ_eq, h]

theorem closeQ_zero (a b : ℚ) (h : closeQ 0 0 a b = true) : a = b := by
  unfold closeQ at h
  simp only [absQ_eq, zero_mul, Bool.or_self, decide_eq_true_eq] at h
  have : |a - b| = 0 := le_antisymm h (abs_nonneg _)
  have := abs_eq_zero.mp this
  linarith

theorem closeRow_self (rel abs_ : ℚ) (h : 0 ≤ abs_) (r : List ℚ) : closeRow rel abs_ (r.map some) r = true := by
  unfold closeRow
  simp only [List.length_map, beq_self_eq_true, Bool.true_and, List.all_eq_true]
  intro p hp
  obtain ⟨j, hj, rfl⟩ := List.mem_iff_getElem.mp hp
  simp [closeO, closeQ_self _ _ _ h]

theorem closeRow_zero (out : List (Option ℚ)) (r : List ℚ) (h : closeRow 0 0 out r = true) : out = r.map some := by
  unfold closeRow at h
  simp only [Bool.and_eq_true, beq_iff_eq, List.all_eq_true] at h
  obtain ⟨hl, hall⟩ := h
  apply List.ext_getElem (by simpa using hl)
  intro j h1 h2
  have hj2 : j < r.length := by simpa using h2
  have hm : (out[j], r[j]) ∈ List.zip out r := by
    rw [List.mem_iff_getElem]
    exact ⟨j, by simp [h1, hj2], by simp⟩
  have := hall _ hm
  simp only [List.getElem_map]
  cases ho : out[j] with
  | none => rw [ho] at this; simp [closeO] at this
  | some x =>
    rw [ho] at this
    simp only [closeO] at this
    rw [closeQ_zero x r[j] this]

theorem closeMat_self (rel abs_ : ℚ) (h : 0 ≤ abs_) (M : List (List ℚ)) : closeMat rel abs_ (someM M) M = true := by
  unfold closeMat someM
  simp only [List.length_map, beq_self_eq_true, Bool.true_and, List.all_eq_true]
  intro p hp
  obtain ⟨j, hj, rfl⟩ := List.mem_iff_getElem.mp hp
  simp [closeRow_self _ _ h]

theorem closeMat_zero (out : List (List (Option ℚ))) (M : List (List ℚ)) (h : closeMat 0 0 out M = true) :
    out = someM M := by
  unfold closeMat at h
  simp only [Bool.and_eq_true, beq_iff_eq, List.all_eq_true] at h
  obtain ⟨hl, hall⟩ := h
  unfold someM
  apply List.ext_getElem (by simpa using hl)
  intro j h1 h2
  have hj2 : j < M.length := by simpa using h2
  have hm : (out[j], M[j]) ∈ List.zip out M := by
    rw [List.mem_iff_getElem]
    exact ⟨j, by simp [h1, hj2], by simp⟩
  simp only [List.getElem_map]
  exact closeRow_zero _ _ (hall _ hm)

theorem closeORow_self (rel abs_ : ℚ) (h : 0 ≤ abs_) (r : List (Option ℚ)) : closeORow rel abs_ r r = true := by
  unfold closeORow
  simp only [beq_self_eq_true, Bool.true_and, List.all_eq_true]
  intro p hp
  obtain ⟨j, hj, rfl⟩ := List.mem_iff_getElem.mp hp
  have hj' : j < r.length := by simpa using hj
  simp only [List.getElem_zip]
  cases r[j]'hj' with
  | none => rfl
  | some x => exact closeQ_self _ _ _ h

theorem closeORow_zero (a b : List (Option ℚ)) (h : closeORow 0 0 a b = true) : a = b := by
  unfold closeORow at h
  simp only [Bool.and_eq_true, beq_iff_eq, List.all_eq_true] at h
  obtain ⟨hl, hall⟩ := h
  apply List.ext_getElem hl
  intro j h1 h2
  have hm : (a[j], b[j]) ∈ List.zip a b := by
    rw [List.mem_iff_getElem]
    exact ⟨j, by simp [h1, h2], by simp⟩
  have := hall _ hm
  cases ha : a[j] with
  | none =>
    cases hb : b[j] with
    | none => rfl
    | some y => rw [ha, hb] at this; simp [closeO] at this
  | some x =>
    cases hb : b[j] with
    | none => rw [ha, hb] at this; simp [closeO] at this
    | some y =>
      rw [ha, hb] at this
      simp only [closeO] at this
      rw [closeQ_zero x y this]

/-! ### sums and matrices -/

theorem sum_range_map {β : Type} [AddCommMonoid β] (n : ℕ) (f : ℕ → β) :
    ((List.range n).map f).sum = ∑ i ∈ range n, f i := by
  induction n with
  | zero => simp
  | succ n ih => rw [List.range_succ, List.map_append, List.sum_append, ih, Finset.sum_range_succ]; simp

/-- a matrix with `n` rows of length `t` is the grid of its entries -/
theorem mat_eq_grid (M : List (List ℚ)) (n t : ℕ) (hlen : M.length = n)
    (hrow : ∀ i, i < n → (M.getD i []).length = t) (f : ℕ → ℕ → ℚ)
    (h : ∀ i, i < n → ∀ k, k < t → matFn M i k = f i k) :
    M = (List.range n).map (fun i => (List.range t).map (fun k => f i k)) := by
  apply List.ext_getElem (by simp [hlen])
  intro i h1 h2
  have hi : i < n := by rw [← hlen]; exact h1
  simp only [List.getElem_map, List.getElem_range]
  have hr := hrow i hi
  rw [List.getD_eq_getElem?_getD, List.getElem?_eq_getElem h1] at hr
  simp only [Option.getD_some] at hr
  apply List.ext_getElem (by simp [hr])
  intro k hk1 hk2
  have hk : k < t := by rw [← hr]; exact hk1
  simp only [List.getElem_map, List.getElem_range]
  rw [← h i hi k hk]
  unfold matFn
  simp [List.getD_eq_getElem?_getD, List.getElem?_eq_getElem h1, List.getElem?_eq_getElem hk1]

theorem entry_eq_matFn (M : List (List ℚ)) (i j : ℕ) : entry M i j = matFn M i j := rfl

end SpecLink
