/-
C12 — `model/vmat/util.py` as TRANSLATED FROM THE PYTHON SOURCE (Generated/PyK_C12.lean, rewritten by
harness/py2lean.py on every run) equals the model (`Variance.rprobFilial`, `covD1s`, `covD2s`, `covD1st`,
`covD2st`), for every finite depth and (`…_inf`, the source partially evaluated at `k = numpy.inf`) for
single-seed descent.  `cov_*` raise `ValueError` on a negative depth: the translation returns `Option`, and
on naturals it is always `some`.
-/
import Mathlib.Tactic
import PybropsModel.Generated.PyK_C12
import PybropsModel.Lemmas.PyKBase
import PybropsModel.Lemmas.VarFilial
set_option autoImplicit false
set_option linter.unusedSectionVars false
set_option linter.unusedSimpArgs false
set_option linter.unusedTactic false
set_option linter.unreachableTactic false
set_option linter.unnecessarySeqFocus false

namespace PyK.C12
open Variance

section field
variable {α : Type} [Field α] [CharZero α]

theorem powN_eq_pow (x : α) (n : Nat) : powN x n = x ^ n := by
  induction n with
  | zero => simp [powN]
  | succ n ih => simp [powN, ih, pow_succ]

theorem rprob_filial_eq_model (r : α) (k : Nat) : rprob_filial r k = rprobFilial r (some k) := by
  simp only [rprob_filial, rprobFilial, two_eq, half_eq, powN_eq_pow, Variance.powN_eq] <;> ring_nf

theorem rprob_filial_inf_eq_model (r : α) : rprob_filial_inf r = rprobFilial r none := by
  simp only [rprob_filial_inf, rprobFilial, two_eq] <;> ring_nf

theorem cov_D1s_eq_model (r : α) (n : Nat) : cov_D1s r n = some (covD1s r (some n)) := by
  cases n with
  | zero => simp only [cov_D1s, covD1s, two_eq, if_true] <;> pyk_arith
  | succ n =>
    simp only [cov_D1s, covD1s, succInf, two_eq, rprob_filial_eq_model, Nat.succ_ne_zero, if_false,
      gt_iff_lt, Nat.succ_pos, if_true, Nat.add_eq_zero_iff, one_ne_zero, and_false, reduceIte, Nat.zero_lt_succ] <;>
      pyk_arith

theorem cov_D1s_inf_eq_model (r : α) : cov_D1s_inf r = some (covD1s r none) := by
  simp only [cov_D1s_inf, covD1s, succInf, two_eq, rprob_filial_inf_eq_model] <;> pyk_arith

theorem cov_D2s_eq_model (r : α) (n : Nat) : cov_D2s r n = some (covD2s r (some n)) := by
  cases n with
  | zero => simp only [cov_D2s, covD2s, two_eq, if_true, Variance.powN_eq] <;> pyk_arith
  | succ n =>
    simp only [cov_D2s, covD2s, succInf, two_eq, four_eq, rprob_filial_eq_model, Nat.succ_ne_zero, if_false,
      gt_iff_lt, Nat.succ_pos, if_true, Nat.add_eq_zero_iff, one_ne_zero, and_false, reduceIte, Nat.zero_lt_succ] <;>
      pyk_arith

theorem cov_D2s_inf_eq_model (r : α) : cov_D2s_inf r = some (covD2s r none) := by
  simp only [cov_D2s_inf, covD2s, succInf, two_eq, four_eq, rprob_filial_inf_eq_model] <;> pyk_arith

theorem cov_D1st_eq_model (r : α) (n t : Nat) : cov_D1st r n t = some (covD1st r (some n) t) := by
  cases n with
  | zero =>
    cases t with
    | zero => simp only [cov_D1st, covD1st, two_eq, and_self, if_true] <;> pyk_arith
    | succ t =>
      simp only [cov_D1st, covD1st, two_eq, powN_eq_pow, Variance.powN_eq, Nat.succ_ne_zero, and_false, false_and, if_false,
        gt_iff_lt, lt_self_iff_false, Nat.zero_lt_succ, if_true] <;> pyk_arith
  | succ n =>
    simp only [cov_D1st, covD1st, succInf, two_eq, rprob_filial_eq_model, Nat.succ_ne_zero, false_and, and_false, if_false,
      gt_iff_lt, Nat.zero_lt_succ, if_true] <;> pyk_arith

theorem cov_D2st_eq_model (r : α) (n t : Nat) : cov_D2st r n t = some (covD2st r (some n) t) := by
  cases n with
  | zero =>
    cases t with
    | zero =>
      simp only [cov_D2st, covD2st, two_eq, Variance.powN_eq, and_self, if_true] <;> pyk_arith
    | succ t =>
      simp only [cov_D2st, covD2st, two_eq, powN_eq_pow, Variance.powN_eq, Nat.succ_ne_zero, and_false, false_and, if_false,
        gt_iff_lt, lt_self_iff_false, Nat.zero_lt_succ, if_true] <;> pyk_arith
  | succ n =>
    simp only [cov_D2st, covD2st, succInf, two_eq, four_eq, rprob_filial_eq_model, Nat.succ_ne_zero, false_and, and_false,
      if_false, gt_iff_lt, Nat.zero_lt_succ, if_true] <;> pyk_arith

/-! ### pieces of the variance-matrix constructors (`from_algmod`) -/

/-- the chunk step `lsp - lst if mem is None else mem` of the three nested loops (`Variance.accum`) -/
theorem chunk_step_eq_model (lsp lst : Nat) (mem : Option Nat) :
    chunk_step lsp lst (mem.getD 0) mem.isNone = mem.getD (lsp - lst) := by
  cases mem <;> simp [chunk_step]

theorem accum_eq_translated_step (mem : Option Nat) (chrs : List (Nat × Nat)) (part : Nat → Nat → Nat → Nat → α) :
    accum mem chrs part =
      (chrs.map (fun c =>
        ((chunks c.1 c.2 (chunk_step c.2 c.1 (mem.getD 0) mem.isNone)).map (fun rc =>
          ((chunks c.1 c.2 (chunk_step c.2 c.1 (mem.getD 0) mem.isNone)).map
            (fun cc => part rc.1 rc.2 cc.1 cc.2)).sum)).sum)).sum := by
  unfold accum; simp only [chunk_step_eq_model]

theorem threeway_part_eq_model (q21 q31 q23 : α) : threeway_part q21 q31 q23 = (two * (q21 + q31)) + q23 := by
  simp only [threeway_part, two_eq] <;> pyk_arith

theorem threeway_quarter_eq_model (x : α) : threeway_quarter x = x * (1 / four) := by
  simp only [threeway_quarter, four_eq] <;> pyk_arith

/-- **three-way variance**: the model's cell is the translated combination `2(q21 + q31) + q23` of the three quadratic
    forms, accumulated over the chunks and multiplied by the translated final factor -/
theorem threeWayLower_eq_translated (S : Setup α) (rc f m s t : Nat) :
    S.threeWayLower rc f m s t = threeway_quarter (accum S.mem S.chrs (fun rst rsp cst csp =>
      threeway_part (S.part S.D1 (fun i => S.g0 f i - S.g0 rc i) s t rst rsp cst csp)
        (S.part S.D1 (fun i => S.g0 m i - S.g0 rc i) s t rst rsp cst csp)
        (S.part S.D2 (fun i => S.g0 f i - S.g0 m i) s t rst rsp cst csp))) := by
  unfold Setup.threeWayLower
  simp only [threeway_part_eq_model, threeway_quarter_eq_model]

theorem genic_term_eq_model (ploidy u p : α) :
    genic_term (genic_varcoef ploidy u) p = Variance.powN (ploidy * u) 2 * p * (1 - p) := by
  simp only [genic_term, genic_varcoef, Variance.powN_eq] <;> ring

/-- the genic variance cell of the model is the sum of the translated summands -/
theorem genicCell_eq_translated (nvrnt : Nat) (ploidy : α) (u p : Nat → α) :
    genicCell nvrnt ploidy u p = sumRange 0 nvrnt (fun i => genic_term (genic_varcoef ploidy (u i)) (p i)) := by
  unfold genicCell; simp only [genic_term_eq_model]

/-! ### the laws of the property, about the translated source -/

/-- `rprob_filial` of the source: `r_0 = 0`, `r_1 = r`, the one-generation selfing recursion, and the value at
    `k = inf` is the fixed point of that recursion -/
theorem rprob_filial_recursion (r : α) (h : 1 + 2 * r ≠ 0) (k : Nat) :
    rprob_filial r 0 = 0 ∧ rprob_filial r 1 = r ∧
    rprob_filial r (k + 1) = r + (1 - 2 * r) / 2 * rprob_filial r k ∧
    rprob_filial_inf r = r + (1 - 2 * r) / 2 * rprob_filial_inf r := by
  simp only [rprob_filial_eq_model, rprob_filial_inf_eq_model]
  exact ⟨rprobFilial_zero r, rprobFilial_one r h, rprobFilial_succ r h k, rprobFilial_inf_fixed r h⟩

/-- the linkage-decay terms of the source in terms of its `rprob_filial`, at every depth (the special-cased
    `nself == 0` branch included) -/
theorem cov_D_defs (r : α) (h : 1 + 2 * r ≠ 0) (n : Nat) :
    cov_D1s r n = some (1 - 2 * rprob_filial r (n + 1)) ∧
    cov_D2s r n = some (1 - 4 * r + 4 * r * rprob_filial r (n + 1)) := by
  rw [cov_D1s_eq_model, cov_D2s_eq_model, rprob_filial_eq_model, covD1s_def r h n, covD2s_def r h n]
  exact ⟨rfl, rfl⟩

end field

section ordered
variable {α : Type} [Field α] [LinearOrder α] [IsStrictOrderedRing α]

/-- for `0 ≤ r ≤ 1/2` the source's `r_k` is non-negative, non-decreasing in `k` and bounded by the `inf` value -/
theorem rprob_filial_monotone (r : α) (h0 : 0 ≤ r) (h1 : r ≤ 1 / 2) (k : Nat) :
    0 ≤ rprob_filial r k ∧ rprob_filial r k ≤ rprob_filial r (k + 1) ∧ rprob_filial r k ≤ rprob_filial_inf r := by
  simp only [rprob_filial_eq_model, rprob_filial_inf_eq_model]
  exact rprobFilial_mono r h0 h1 k

end ordered

end PyK.C12
