/-
Helper lemmas for C06 (round 4): characterisations of the Bool Spec oracles of Model/Optimize.lean
(`localOptB`, `optimumB`, `nondomB`, `truthfulB`), Solution assembly, the integer operators' final
clamp, and the two non-as-is variants used as counterexample witnesses.
-/
import Mathlib.Tactic
import PybropsModel.Lemmas.OptClimb
import PybropsModel.Lemmas.OptOps
set_option autoImplicit false
set_option linter.unusedSectionVars false

namespace Optimize

/-! ### local optimality oracle -/
section localopt
variable {ε β α : Type} [LinearOrder α] [DecidableEq ε]
variable (eval : List ε → β) (key : β → α × α)

theorem localOptB_iff_pairs (space decn : List ε) :
    localOptB eval key space decn = true ↔
      ∀ i j, i < decn.length → j < (complement space decn).length →
        lexLt (key (eval (exch decn (complement space decn) i j).1)) (key (eval decn)) = false := by
  unfold localOptB betterExchanges
  rw [List.isEmpty_iff, List.filter_eq_nil_iff]
  constructor
  · intro h i j hi hj
    have := h (i, j) ((mem_pairs _ _ _).mpr ⟨hi, hj⟩)
    simpa using this
  · intro h ij hij
    obtain ⟨hi, hj⟩ := (mem_pairs _ _ _).mp hij
    have := h ij.1 ij.2 hi hj
    simp [this]

/-- the oracle says exactly what the property says: no member of the decision can be exchanged for a
    candidate outside it with a lexicographically smaller (violation, score) -/
theorem localOptB_iff (space decn : List ε) :
    localOptB eval key space decn = true ↔
      ∀ i, i < decn.length → ∀ e ∈ space, e ∉ decn →
        lexLt (key (eval (decn.set i e))) (key (eval decn)) = false := by
  rw [localOptB_iff_pairs]
  constructor
  · intro h i hi e hes hen
    have hw : e ∈ complement space decn := (complement_mem space decn e).mpr ⟨hes, hen⟩
    obtain ⟨j, hj, rfl⟩ := List.mem_iff_getElem.mp hw
    have := h i j hi hj
    rwa [exch_of_lt decn _ i j hi hj] at this
  · intro h i j hi hj
    rw [exch_of_lt decn _ i j hi hj]
    have hw : (complement space decn)[j] ∈ complement space decn := List.getElem_mem hj
    obtain ⟨h1, h2⟩ := (complement_mem space decn _).mp hw
    exact h i hi _ h1 h2

end localopt

/-! ### brute-force optimum oracle -/
section optimum
variable {ε γ : Type} [LinearOrder γ]

theorem optimumB_iff (score : List ε → γ) (k : ℕ) (space decn : List ε) :
    optimumB score k space decn = true ↔ ∀ x ∈ combos k space, score decn ≤ score x := by
  unfold optimumB betterSubsets
  rw [List.isEmpty_iff, List.filter_eq_nil_iff]
  constructor
  · intro h x hx
    have := h x hx
    simpa using this
  · intro h x hx
    have := h x hx
    simp [this]

end optimum

/-! ### mutual non-domination oracle -/
section nondom
variable {ρ : Type}

theorem nondomB_iff (dom : ρ → ρ → Bool) (rows : List ρ) :
    nondomB dom rows = true ↔
      ∀ i j (hi : i < rows.length) (hj : j < rows.length), i ≠ j → dom rows[j] rows[i] = false := by
  unfold nondomB
  simp only [List.all_eq_true, Bool.or_eq_true, beq_iff_eq, Bool.not_eq_true']
  constructor
  · intro h i j hi hj hne
    have ha : (rows[i], i) ∈ rows.zipIdx := by
      rw [List.mem_zipIdx_iff_getElem?]; simp [List.getElem?_eq_getElem hi]
    have hb : (rows[j], j) ∈ rows.zipIdx := by
      rw [List.mem_zipIdx_iff_getElem?]; simp [List.getElem?_eq_getElem hj]
    rcases h _ ha _ hb with h1 | h1
    · exact absurd h1 hne
    · exact h1
  · intro h a ha b hb
    rw [List.mem_zipIdx_iff_getElem?] at ha hb
    by_cases hab : a.2 = b.2
    · exact Or.inl hab
    · right
      obtain ⟨hia, ea⟩ := List.getElem?_eq_some_iff.mp ha
      obtain ⟨hib, eb⟩ := List.getElem?_eq_some_iff.mp hb
      have := h a.2 b.2 hia hib hab
      rwa [ea, eb] at this

end nondom

/-! ### Solution assembly -/
section assembly
variable {ε ν : Type} [DecidableEq ν]

theorem assemble_rows (opt : List (Indiv ε ν)) :
    (assemble opt).rows = opt.map (fun i => (i.x, i.f, i.g, i.h)) := by
  unfold Soln.rows assemble
  induction opt with
  | nil => rfl
  | cons a l ih => simpa using ih

theorem truthfulB_iff (ev : List ε → ν × ν × ν) (s : Soln ε ν) :
    truthfulB ev s = true ↔
      (s.decn.length = s.obj.length ∧ s.decn.length = s.ineqcv.length ∧ s.decn.length = s.eqcv.length) ∧
      ∀ r ∈ s.rows, ev r.1 = r.2 := by
  unfold truthfulB
  simp only [Bool.and_eq_true, beq_iff_eq, List.all_eq_true, decide_eq_true_eq]
  tauto

theorem assemble_truthful (ev : List ε → ν × ν × ν) (opt : List (Indiv ε ν))
    (h : ∀ i ∈ opt, ev i.x = (i.f, i.g, i.h)) : truthfulB ev (assemble opt) = true := by
  rw [truthfulB_iff]
  refine ⟨by simp [assemble], ?_⟩
  rw [assemble_rows]
  intro r hr
  obtain ⟨i, hi, rfl⟩ := List.mem_map.mp hr
  exact h i hi

theorem mkIndiv_eval (ev : List ε → ν × ν × ν) (x : List ε) :
    ev (mkIndiv ev x).x = ((mkIndiv ev x).f, (mkIndiv ev x).g, (mkIndiv ev x).h) := by
  simp [mkIndiv]

/-- NOT the code of /repo: the variant of `Problem._evaluate` that hands pymoo `max(0, G)` ("pymoo
    regards G ≤ 0 as satisfied") — used only as the witness that the signed values must be handed over -/
def mkIndivClipped (ev : List ε → List ℚ × List ℚ × List ℚ) (x : List ε) : Indiv ε (List ℚ) :=
  let v := ev x; ⟨x, v.1, v.2.1.map TableProb.ratMax0, v.2.2⟩

end assembly

/-! ### batch evaluation -/
section batch
variable {ε ν : Type}

theorem mapM_pure_except (ev : List ε → ν) (X : List (List ε)) :
    X.mapM (fun v => (pure (ev v) : Except String ν)) = .ok (X.map ev) := by
  induction X with
  | nil => rfl
  | cons a l ih =>
    have ih' : List.mapM (fun v => (Except.ok (ev v) : Except String ν)) l = Except.ok (List.map ev l) := ih
    simp [List.mapM_cons, bind, Except.bind, pure, Except.pure, ih']

/-- the repaired `Problem._evaluate` hands over the row-wise evaluation in BOTH branches -/
theorem evaluateBatch_eq (elementwise : Bool) (ev : List ε → ν) (X : List (List ε)) :
    evaluateBatch elementwise ev X = .ok (X.map ev) := by
  unfold evaluateBatch
  cases elementwise
  · simpa using mapM_pure_except ev X
  · simp

end batch

/-! ### integer operators -/

theorem clampR_mem (l u q : ℚ) (h : l ≤ u) : l ≤ clampR l u q ∧ clampR l u q ≤ u := by
  unfold clampR
  split_ifs with h1 h2
  · exact ⟨le_refl _, h⟩
  · exact ⟨h, le_refl _⟩
  · exact ⟨not_lt.mp h1, not_lt.mp h2⟩

theorem clampR_id (l u q : ℚ) (h1 : l ≤ q) (h2 : q ≤ u) : clampR l u q = q := by
  unfold clampR
  rw [if_neg (not_lt.mpr h1), if_neg (not_lt.mpr h2)]

/-! ### the climbers' key (repaired) vs the raw-sum key before the repair of D41 -/

theorem ratMax0_of_nonneg (q : ℚ) (h : 0 ≤ q) : TableProb.ratMax0 q = q := by
  unfold TableProb.ratMax0; rw [if_neg (not_lt.mpr h)]

theorem ratAbs_of_nonneg (q : ℚ) (h : 0 ≤ q) : TableProb.ratAbs q = q := by
  unfold TableProb.ratAbs; rw [if_neg (not_lt.mpr h)]

theorem key_eq_keyPrerepair (v : List ℚ × List ℚ × List ℚ) (hg : ∀ a ∈ v.2.1, 0 ≤ a) (hh : ∀ a ∈ v.2.2, 0 ≤ a) :
    TableProb.key v = TableProb.keyPrerepair v := by
  unfold TableProb.key TableProb.keyPrerepair
  have e1 : v.2.1.map TableProb.ratMax0 = v.2.1 := by
    conv_rhs => rw [← List.map_id v.2.1]
    exact List.map_congr_left (fun a ha => ratMax0_of_nonneg a (hg a ha))
  have e2 : v.2.2.map TableProb.ratAbs = v.2.2 := by
    conv_rhs => rw [← List.map_id v.2.2]
    exact List.map_congr_left (fun a ha => ratAbs_of_nonneg a (hh a ha))
  rw [e1, e2]

/-- the D41 table: two signed inequality constraints `cost·x − budget` -/
def d41 : TableProb :=
  { space := [10, 11, 12, 13, 14, 15], k := 2, lin := [[-4], [-3], [-2], [-5], [4], [-3]], mean := false,
    quad := [], posw := [], objWt := [1],
    ineq := [([4, 3, 0, 3, 3, 0], 4), ([0, 1, 0, 2, 2, 3], 3)], ineqWt := [1, 1], eq := [], eqWt := [],
    ineqSigned := [true, true] }

/-- the same table with penalty-style constraint functions `max(0, cost·x − budget)` -/
def d41pen : TableProb := { d41 with ineqSigned := [] }

end Optimize
