/-
Helper lemmas for C17, axis_shuffle: the literal loop `for s in sliceaxisix(shape, axis): rng.shuffle(a[s])`
(`axisShuffleLoop`: in-place shuffles of the views, one after the other) equals the gather form `axisShuffle`.
Axis 0 of every generated view is the first free axis (`viewAxis_eq`); an index tuple lies in a view exactly
when its slice key is the view's (`matchesT_iff`); views of different slices do not overlap, so every entry is
moved by its own slice's shuffle only (`foldl_stepVal`).
-/
import PybropsModel.Lemmas.SamplingAxis
set_option autoImplicit false
set_option linter.unusedSectionVars false
namespace Sampling

theorem findIdx_range' {γ : Type} (t : List γ) (pr : γ → Bool) (q : Nat → Bool) (k : Nat)
    (h : ∀ e (he : e < t.length), pr t[e] = q (k + e)) :
    (t.findIdx? pr).map (· + k) = (List.range' k t.length).find? q := by
  induction t generalizing k with
  | nil => simp
  | cons x t ih =>
    rw [List.findIdx?_cons, List.length_cons, List.range'_succ, List.find?_cons]
    have h0 := h 0 (by simp)
    simp only [List.getElem_cons_zero, Nat.add_zero] at h0
    by_cases hx : pr x = true
    · simp [hx, ← h0]
    · have hx' : pr x = false := by simpa using hx
      have hq : q k = false := by rw [← h0]; exact hx'
      simp only [hx', hq, Bool.false_eq_true, if_false]
      rw [← ih (k + 1) (fun e he => by
        have := h (e + 1) (by simpa using he)
        simp only [List.getElem_cons_succ] at this
        rw [this]; congr 1; omega)]
      cases t.findIdx? pr with
      | none => rfl
      | some i => simp; omega

/-- axis 0 of every generated view is the first free axis of the array -/
theorem viewAxis_eq (axis shape : List Nat) (t : List (Option Nat)) (ht : t ∈ sliceTuples axis 0 shape) :
    viewAxis t = firstFree axis shape.length := by
  obtain ⟨hl, h⟩ := sliceTuples_shape axis 0 shape t ht
  unfold viewAxis firstFree
  have := findIdx_range' t (fun o => o.isNone) (fun i => !axis.contains i) 0 (by
    intro e he
    have := (h e he).1
    rw [Nat.zero_add] at this ⊢
    cases hte : t[e] with
    | none =>
      have hc := this.mp hte
      have hc' : e ∉ axis := by simpa using hc
      simp [hc']
    | some v =>
      have hne : ¬ (axis.contains e = false) := fun hc => by
        have := this.mpr hc; rw [hte] at this; cases this
      simp at hne
      simp [hne])
  rw [← hl, List.range_eq_range', ← this]
  cases t.findIdx? (fun o => o.isNone) <;> simp

/-- an index tuple lies in a generated view exactly when its slice key is the view's -/
theorem matchesT_iff (axis : List Nat) (d : Nat) (dims : List Nat) (t : List (Option Nat))
    (ht : t ∈ sliceTuples axis d dims) (m : List Nat) (hm : m.length = dims.length) :
    matchesT t m = true ↔ axisKeyFrom axis d m = tupleKey t := by
  induction dims generalizing d t m with
  | nil =>
    simp only [sliceTuples, List.mem_singleton] at ht
    subst ht
    have : m = [] := List.length_eq_zero_iff.mp hm
    subst this
    simp [matchesT, axisKeyFrom, tupleKey]
  | cons n rest ih =>
    cases m with
    | nil => simp at hm
    | cons c m =>
      have hm' : m.length = rest.length := by simpa using hm
      unfold sliceTuples at ht
      by_cases h : axis.contains d = true
      · rw [if_pos h] at ht
        simp only [List.mem_flatMap, List.mem_range, List.mem_map] at ht
        obtain ⟨i, _, t', ht', rfl⟩ := ht
        have := ih (d + 1) t' ht' m hm'
        simp only [matchesT, axisKeyFrom, h, if_true, tupleKey, List.filterMap_cons, id, Bool.and_eq_true,
          beq_iff_eq, List.cons.injEq]
        rw [this]
        simp only [tupleKey]
        constructor
        · rintro ⟨rfl, h2⟩; exact ⟨rfl, h2⟩
        · rintro ⟨rfl, h2⟩; exact ⟨rfl, h2⟩
      · rw [if_neg h] at ht
        simp only [List.mem_map] at ht
        obtain ⟨t', ht', rfl⟩ := ht
        have := ih (d + 1) t' ht' m hm'
        have h' : axis.contains d = false := by simpa using h
        simp only [matchesT, axisKeyFrom, h', Bool.false_eq_true, if_false, tupleKey, List.filterMap_cons, id]
        rw [this]
        exact Iff.rfl

theorem lookup_none_of_not_mem {κ ν : Type} [BEq κ] [LawfulBEq κ] (L : List (κ × ν)) (k : κ)
    (h : k ∉ L.map Prod.fst) : L.lookup k = none := by
  induction L with
  | nil => rfl
  | cons x L ih =>
    obtain ⟨k0, v0⟩ := x
    simp only [List.map_cons, List.mem_cons, not_or] at h
    have hne : (k == k0) = false := by rw [beq_eq_false_iff_ne]; exact h.1
    rw [List.lookup_cons, hne]
    exact ih h.2

/-- one in-place shuffle of a view, on the array seen as a function of the index tuple -/
def stepVal {β : Type} (axis : List Nat) (f : Nat) (kp : List Nat × List Nat) (val : List Nat → β)
    (m : List Nat) : β :=
  if axisKey axis m = kp.1 then val (m.set f (kp.2.getD (m.getD f 0) 0)) else val m

/-- the views of distinct slices do not overlap: after all the shuffles the value at `m` is the one its own
    slice's shuffle put there -/
theorem foldl_stepVal {β : Type} (axis : List Nat) (f : Nat) (hf : axis.contains f = false)
    (pairs : List (List Nat × List Nat)) (hnd : (pairs.map Prod.fst).Nodup) (val : List Nat → β) (m : List Nat) :
    (pairs.foldl (fun v kp => stepVal axis f kp v) val) m =
      match pairs.lookup (axisKey axis m) with
      | some perm => val (m.set f (perm.getD (m.getD f 0) 0))
      | none => val m := by
  induction pairs generalizing val with
  | nil => rfl
  | cons kp L ih =>
    obtain ⟨k, perm⟩ := kp
    simp only [List.map_cons, List.nodup_cons] at hnd
    rw [List.foldl_cons, ih hnd.2, List.lookup_cons]
    by_cases hk : axisKey axis m = k
    · have : (axisKey axis m == k) = true := by simpa using hk
      rw [this, lookup_none_of_not_mem L (axisKey axis m) (hk ▸ hnd.1)]
      simp [stepVal, hk]
    · have : (axisKey axis m == k) = false := by simpa using hk
      rw [this]
      cases hl : L.lookup (axisKey axis m) with
      | none => simp [stepVal, hk]
      | some perm' =>
        simp only [stepVal]
        have hkey : axisKey axis (m.set f (perm'.getD (m.getD f 0) 0)) = axisKey axis m := by
          unfold axisKey
          exact axisKeyFrom_set axis 0 m f _ (by simpa using hf)
        rw [hkey, if_neg hk]

theorem ndVal_map {β : Type} [Inhabited β] (shape : List Nat) (g : List Nat → β) (m : List Nat)
    (hm : m ∈ allIdx shape) : ndVal shape ((allIdx shape).map g) m = g m := by
  obtain ⟨t, ht, rfl⟩ := List.mem_iff_getElem.mp hm
  unfold ndVal
  rw [lookup_zip_getElem (allIdx shape) ((allIdx shape).map g) (allIdx_nodup shape) (by simp) t ht]
  simp

theorem set_mem_allIdx (shape m : List Nat) (f v : Nat) (hm : m ∈ allIdx shape) (hf : f < shape.length)
    (hv : v < shape[f]) : m.set f v ∈ allIdx shape := by
  rw [mem_allIdx] at hm ⊢
  obtain ⟨hl, hget⟩ := forall2_lt_get m shape hm
  apply forall2_lt_of_get
  · simp [hl]
  · intro t t1 t2
    rw [List.getElem_set]
    split_ifs with hft
    · subst hft; exact hv
    · exact hget t (by simpa using t1) t2

theorem perm_getD_lt (perm : List Nat) (N i : Nat) (hp : perm.Perm (List.range N)) (hi : i < N) :
    perm.getD i 0 < N := by
  have hlen : perm.length = N := by simpa using hp.length_eq
  have hi' : i < perm.length := by omega
  have : perm.getD i 0 = perm[i] := by simp [hi']
  rw [this]
  exact List.mem_range.mp (hp.mem_iff.mp (List.getElem_mem hi'))

/-- one `rng.shuffle(a[s])` on the flat content = one `stepVal` on the array as a function -/
theorem shuffleView_map {β : Type} [Inhabited β] (shape axis : List Nat) (f : Nat)
    (hf : firstFree axis shape.length = some f) (t : List (Option Nat)) (ht : t ∈ sliceTuples axis 0 shape)
    (perm : List Nat) (hp : perm.Perm (List.range (shape.getD f 0))) (g : List Nat → β) :
    shuffleView shape t perm ((allIdx shape).map g)
      = (allIdx shape).map (stepVal axis f (tupleKey t, perm) g) := by
  obtain ⟨hfn, _⟩ := firstFree_some axis shape.length f hf
  unfold shuffleView
  rw [viewAxis_eq axis shape t ht, hf]
  simp only []
  apply List.map_congr_left
  intro m hm
  have hml : m.length = shape.length := (forall2_lt_get m shape ((mem_allIdx shape m).mp hm)).1
  have hmatch := matchesT_iff axis 0 shape t ht m hml
  unfold stepVal
  by_cases hk : axisKey axis m = tupleKey t
  · rw [if_pos (hmatch.mpr hk), if_pos hk]
    apply ndVal_map
    have hmf : m.getD f 0 < shape[f] := by
      have h1 : f < m.length := by omega
      have := (forall2_lt_get m shape ((mem_allIdx shape m).mp hm)).2 f h1 hfn
      simpa [h1] using this
    have hs : shape.getD f 0 = shape[f] := by simp [hfn]
    exact set_mem_allIdx shape m f _ hm hfn (by rw [← hs]; exact perm_getD_lt perm _ _ hp (by rw [hs]; exact hmf))
  · have : matchesT t m = false := by
      cases hmt : matchesT t m with
      | false => rfl
      | true => exact absurd (hmatch.mp hmt) hk
    rw [this, if_neg hk]
    simp only [Bool.false_eq_true, if_false]
    exact ndVal_map shape g m hm

theorem loop_fold_eq {β : Type} [Inhabited β] (shape axis : List Nat) (f : Nat)
    (hf : firstFree axis shape.length = some f)
    (pairs : List (List (Option Nat) × List Nat))
    (hpairs : ∀ tp ∈ pairs, tp.1 ∈ sliceTuples axis 0 shape ∧ tp.2.Perm (List.range (shape.getD f 0)))
    (g : List Nat → β) :
    pairs.foldl (fun d tp => shuffleView shape tp.1 tp.2 d) ((allIdx shape).map g)
      = (allIdx shape).map ((pairs.map (fun tp => (tupleKey tp.1, tp.2))).foldl
          (fun v kp => stepVal axis f kp v) g) := by
  induction pairs generalizing g with
  | nil => rfl
  | cons tp L ih =>
    have h1 := hpairs tp List.mem_cons_self
    rw [List.foldl_cons, shuffleView_map shape axis f hf tp.1 h1.1 tp.2 h1.2 g,
      ih (fun q hq => hpairs q (List.mem_cons_of_mem _ hq))]
    rfl

/-- **the sequence of in-place view shuffles equals the gather form** -/
theorem axisShuffleLoop_eq {β : Type} [Inhabited β] (shape axis : List Nat) (data : List β)
    (perms : List (List Nat)) : axisShuffleLoop shape axis data perms = axisShuffle shape axis data perms := by
  unfold axisShuffleLoop axisShuffle
  by_cases h1 : data.length = shape.prod
  swap
  · rw [if_neg h1, if_neg h1]
  rw [if_pos h1, if_pos h1]
  by_cases h2 : shape = []
  · rw [if_pos h2, if_pos h2]
  rw [if_neg h2, if_neg h2]
  cases hf : firstFree axis shape.length with
  | none => rfl
  | some f =>
    simp only []
    by_cases h3 : perms.length = (sliceKeys shape axis).length ∧ ∀ q ∈ perms, isPerm q (shape.getD f 0) = true
    swap
    · rw [if_neg h3, if_neg h3]
    rw [if_pos h3, if_pos h3]
    congr 1
    obtain ⟨hlen, hvalid⟩ := h3
    obtain ⟨_, hfa⟩ := firstFree_some axis shape.length f hf
    have hkeys : (sliceTuples axis 0 shape).map tupleKey = sliceKeys shape axis := sliceTuples_keys axis 0 shape
    have hL : (sliceTuples axis 0 shape).length = perms.length := by
      rw [hlen, ← hkeys, List.length_map]
    conv_lhs => rw [data_eq_map_ndVal shape data h1]
    rw [loop_fold_eq shape axis f hf _ (by
      intro tp htp
      have := List.of_mem_zip htp
      exact ⟨this.1, (isPerm_iff _ _).mp (hvalid tp.2 this.2)⟩)]
    apply List.map_congr_left
    intro m _
    have hz : ((sliceTuples axis 0 shape).zip perms).map (fun tp => (tupleKey tp.1, tp.2))
        = (sliceKeys shape axis).zip perms := by
      rw [← hkeys, List.zip_map_left]
      apply List.map_congr_left
      intro tp _; rfl
    rw [hz, foldl_stepVal axis f hfa _ (by
      rw [List.map_fst_zip (by omega)]
      exact allIdx_nodup _)]
    unfold axisSrc
    rw [hf]
    cases ((sliceKeys shape axis).zip perms).lookup (axisKey axis m) <;> rfl

theorem axisEff_eq_axisReq (ndim : Nat) (axis : List Int) (h : ∀ z ∈ axis, 0 ≤ z) :
    axisEff axis = axisReq ndim axis := by
  unfold axisEff axisReq
  apply List.filterMap_congr
  intro z hz
  simp [h z hz]

end Sampling
