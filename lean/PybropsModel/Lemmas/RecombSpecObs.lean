/-
Helper lemmas for C02: the Spec oracle for partly observable provenance (`specRowObs`, the
set-of-possible-copies automaton) against the model's phases.
-/
import PybropsModel.Lemmas.RecombSpec
import PybropsModel.Lemmas.RecombLoop
set_option autoImplicit false
set_option linter.unusedSectionVars false

namespace Recomb

/-- copy `p` is in the set `s` -/
def memC (s : Bool × Bool) (p : Bool) : Bool := if p then s.2 else s.1

/-- the set holding exactly copy `p` -/
def single (p : Bool) : Bool × Bool := (!p, p)

theorem memC_single (p q : Bool) : memC (single p) q = (p == q) := by
  cases p <;> cases q <;> rfl

theorem seen_length : ∀ (het lab : List Bool), het.length = lab.length → (seen het lab).length = lab.length
  | [], [], _ => rfl
  | [], _ :: _, h => by simp at h
  | _ :: _, [], h => by simp at h
  | h :: hs, p :: ps, hl => by
    simp only [seen, List.length_cons]
    rw [seen_length hs ps (by simpa using hl)]

section
variable {β : Type} [LinearOrder β] [Zero β]

theorem memC_nfaMove (s : Bool × Bool) (ph : Bool) (r x : β) (h : memC s ph = true) :
    memC (nfaMove s r x) (xor ph (decide (r < x))) = true := by
  unfold nfaMove
  by_cases h1 : r < x
  · simp only [h1, if_true, decide_true]
    cases ph <;> simp_all [memC]
  · by_cases h2 : x < r
    · simp only [h1, h2, if_false, if_true, decide_false, Bool.xor_false]
      exact h
    · simp only [h1, h2, if_false, decide_false, Bool.xor_false]
      by_cases h3 : x = 0
      · simp only [h3, if_true]; rw [h3] at *; exact h
      · simp only [h3, if_false]
        cases ph <;> simp_all [memC]

theorem memC_nfaSee (t : Bool × Bool) (p : Bool) (o : Option Bool) (h : memC t p = true)
    (ho : o = none ∨ o = some p) : memC (nfaSee t o) p = true := by
  rcases ho with rfl | rfl
  · exact h
  · cases p <;> simp_all [memC, nfaSee]

theorem specObsFrom_of_empty : ∀ (obs : List (Option Bool)) (r xo : List β),
    specObsFrom (false, false) obs r xo = false
  | [], [], [] => rfl
  | [], [], _ :: _ => rfl
  | [], _ :: _, _ => rfl
  | _ :: _, [], _ => rfl
  | _ :: _, _ :: _, [] => rfl
  | o :: os, r :: rs, x :: xs => by
    have hm : nfaMove ((false, false) : Bool × Bool) r x = (false, false) := by
      unfold nfaMove; split_ifs <;> rfl
    have hs : nfaSee ((false, false) : Bool × Bool) o = (false, false) := by
      rcases o with _ | (_ | _) <;> rfl
    simp only [specObsFrom, hm, hs]
    exact specObsFrom_of_empty os rs xs

/-- **The oracle accepts the model** whatever part of the provenance is visible: if the true copy is in
    the starting set, the model's copy sequence, seen through any heterozygosity pattern, passes
    (exact ties included). -/
theorem specObsFrom_accepts : ∀ (xo r : List β) (het : List Bool) (s : Bool × Bool) (ph : Bool),
    memC s ph = true → het.length = xo.length → r.length = xo.length →
    specObsFrom s (seen het (phasesFrom ph (xoMask r xo))) r xo = true
  | [], [], [], s, ph, hs, _, _ => by
    simp only [seen, specObsFrom]
    cases ph <;> simp_all [memC]
  | [], _ :: _, _, _, _, _, _, h => by simp at h
  | [], [], _ :: _, _, _, _, h, _ => by simp at h
  | _ :: _, [], _, _, _, _, _, h => by simp at h
  | _ :: _, _ :: _, [], _, _, _, h, _ => by simp at h
  | x :: xs, r :: rs, h :: hs, s, ph, hm, h1, h2 => by
    simp only [xoMask, phasesFrom, seen, specObsFrom]
    apply specObsFrom_accepts xs rs hs _ (xor ph (decide (r < x)))
    · apply memC_nfaSee _ _ _ (memC_nfaMove s ph r x hm)
      by_cases hh : h = true
      · right; simp [hh]
      · left; simp [hh]
    · simpa using h1
    · simpa using h2

theorem nfaMove_single (ph : Bool) (r x : β) (h : r = x → x = 0) :
    nfaMove (single ph) r x = single (xor ph (decide (r < x))) := by
  unfold nfaMove
  by_cases h1 : r < x
  · simp only [h1, if_true, decide_true]; cases ph <;> rfl
  · by_cases h2 : x < r
    · simp only [h1, h2, if_false, if_true, decide_false, Bool.xor_false]
    · have he : r = x := le_antisymm (not_lt.mp h2) (not_lt.mp h1)
      have hx : x = 0 := h he
      rw [if_neg h1, if_neg h2, if_pos hx]
      simp [h1]

theorem nfaSee_single (q : Bool) (o : Option Bool) :
    nfaSee (single q) o = if o = none ∨ o = some q then single q else (false, false) := by
  rcases o with _ | (_ | _) <;> cases q <;> rfl

/-- **… and nothing else, away from positive ties.**  When a draw equals its stored probability only where
    that probability is 0, a partly observed copy sequence passes exactly when every observed copy is the
    model's. -/
theorem specObsFrom_single_iff : ∀ (xo r : List β) (obs : List (Option Bool)) (ph : Bool),
    (∀ p ∈ r.zip xo, p.1 = p.2 → p.2 = 0) → r.length = xo.length →
    (specObsFrom (single ph) obs r xo = true ↔
      obs.length = xo.length ∧
      ∀ (j : Nat) (p : Bool), obs[j]? = some (some p) → (phasesFrom ph (xoMask r xo))[j]? = some p)
  | [], [], [], ph, _, _ => by
    simp only [specObsFrom, single]
    cases ph <;> simp
  | [], [], _ :: _, _, _, _ => by simp [specObsFrom]
  | [], _ :: _, _, _, _, h => by simp at h
  | _ :: _, [], _, _, _, h => by simp at h
  | x :: xs, r :: rs, [], ph, _, _ => by simp [specObsFrom]
  | x :: xs, r :: rs, o :: os, ph, hne, hl => by
    have hne0 : r = x → x = 0 := fun e => hne (r, x) (by simp) e
    have hne' : ∀ p ∈ rs.zip xs, p.1 = p.2 → p.2 = 0 := fun p hp => hne p (by simp [hp])
    have hl' : rs.length = xs.length := by simpa using hl
    simp only [specObsFrom, nfaMove_single ph r x hne0, nfaSee_single, xoMask, phasesFrom]
    by_cases ho : o = none ∨ o = some (xor ph (decide (r < x)))
    · simp only [ho, if_true]
      rw [specObsFrom_single_iff xs rs os _ hne' hl']
      constructor
      · rintro ⟨h1, h2⟩
        refine ⟨by simp [h1], fun j p hj => ?_⟩
        cases j with
        | zero =>
          simp only [List.getElem?_cons_zero, Option.some.injEq] at hj ⊢
          rcases ho with rfl | rfl
          · cases hj
          · exact Option.some.inj hj
        | succ j =>
          simp only [List.getElem?_cons_succ] at hj ⊢
          exact h2 j p hj
      · rintro ⟨h1, h2⟩
        refine ⟨by simpa using h1, fun j p hj => ?_⟩
        have := h2 (j + 1) p (by simpa using hj)
        simpa using this
    · simp only [ho, if_false, specObsFrom_of_empty]
      constructor
      · intro h; cases h
      · rintro ⟨_, h2⟩
        exfalso
        apply ho
        rcases o with _ | p
        · left; rfl
        · right
          have := h2 0 p (by simp)
          simp only [List.getElem?_cons_zero, Option.some.injEq] at this
          rw [this]

theorem nfaSee_move_single (prev p : Bool) (r x : β) :
    nfaSee (nfaMove (single prev) r x) (some p) =
      if specCell (xor prev p) r x then single p else (false, false) := by
  unfold nfaMove specCell
  by_cases h1 : r < x
  · rw [if_pos h1, if_pos h1]; cases prev <;> cases p <;> rfl
  · rw [if_neg h1, if_neg h1]
    by_cases h2 : x < r
    · rw [if_pos h2, if_pos h2]; cases prev <;> cases p <;> rfl
    · rw [if_neg h2, if_neg h2]
      by_cases h3 : x = 0
      · rw [if_pos h3]; cases prev <;> cases p <;> simp [single, nfaSee, h3]
      · rw [if_neg h3]; cases prev <;> cases p <;> simp [single, nfaSee, h3]

/-- with every marker observed the automaton is the cell-by-cell oracle `specRow` -/
theorem specObsFrom_all_observed : ∀ (lab : List Bool) (r xo : List β) (prev : Bool),
    specObsFrom (single prev) (lab.map some) r xo =
      (lab.length == xo.length && r.length == xo.length &&
        (List.zip (toggles prev lab) (List.zip r xo)).all (fun t => specCell t.1 t.2.1 t.2.2))
  | [], [], [], prev => by cases prev <;> rfl
  | [], [], _ :: _, _ => by simp [specObsFrom]
  | [], _ :: _, [], _ => by simp [specObsFrom]
  | [], _ :: _, _ :: _, _ => by simp [specObsFrom]
  | _ :: _, [], [], _ => by simp [specObsFrom]
  | _ :: _, [], _ :: _, _ => by simp [specObsFrom]
  | _ :: _, _ :: _, [], _ => by simp [specObsFrom]
  | p :: ps, r :: rs, x :: xs, prev => by
    simp only [List.map_cons, specObsFrom, nfaSee_move_single, toggles, List.zip_cons_cons, List.all_cons,
      List.length_cons]
    by_cases hc : specCell (xor prev p) r x = true
    · simp only [hc, if_true, Bool.true_and]
      rw [specObsFrom_all_observed ps rs xs p]
      simp
    · have hc' : specCell (xor prev p) r x = false := by simpa using hc
      simp only [hc']
      rw [if_neg (by simp), specObsFrom_of_empty]
      simp

end

/-! ### exact characterisation, ties included -/

/-- a crossover mask that agrees with the comparison `r < x` everywhere except, possibly, at an exact tie
    `r = x` with `x ≠ 0` (an event of probability zero under continuous draws, of probability `≤ 2^-53` per
    marker under numpy's) -/
def maskOK {β : Type} [LT β] [DecidableLT β] [Zero β] : List β → List β → List Bool → Prop
  | r :: rs, x :: xs, b :: bs => ((r = x → x = 0) → b = decide (r < x)) ∧ maskOK rs xs bs
  | [], [], [] => True
  | _, _, _ => False

/-- every observed copy is the corresponding entry of the copy sequence `ps` -/
def obsOK : List (Option Bool) → List Bool → Prop
  | o :: os, p :: ps => (o = none ∨ o = some p) ∧ obsOK os ps
  | [], [] => True
  | _, _ => False

section
variable {β : Type} [LinearOrder β] [Zero β]

theorem memC_nfaSee_iff (t : Bool × Bool) (o : Option Bool) (p : Bool) :
    memC (nfaSee t o) p = true ↔ memC t p = true ∧ (o = none ∨ o = some p) := by
  rcases o with _ | (_ | _) <;> cases p <;> simp [memC, nfaSee]

theorem memC_nfaMove_iff (s : Bool × Bool) (r x : β) (q : Bool) :
    memC (nfaMove s r x) q = true ↔
      ∃ ph b, memC s ph = true ∧ xor ph b = q ∧ ((r = x → x = 0) → b = decide (r < x)) := by
  unfold nfaMove
  by_cases h1 : r < x
  · rw [if_pos h1]
    have hne : r ≠ x := ne_of_lt h1
    constructor
    · intro h
      refine ⟨!q, true, ?_, by cases q <;> rfl, fun _ => by simp [h1]⟩
      cases q <;> simpa [memC] using h
    · rintro ⟨ph, b, hm, rfl, hb⟩
      have : b = true := by rw [hb (fun e => absurd e hne)]; simp [h1]
      subst this
      cases ph <;> simpa [memC] using hm
  · rw [if_neg h1]
    by_cases h2 : x < r
    · rw [if_pos h2]
      have hne : r ≠ x := (ne_of_lt h2).symm
      constructor
      · intro h
        exact ⟨q, false, h, by simp, fun _ => by simp [h1]⟩
      · rintro ⟨ph, b, hm, rfl, hb⟩
        have : b = false := by rw [hb (fun e => absurd e hne)]; simp [h1]
        subst this
        simpa using hm
    · rw [if_neg h2]
      have he : r = x := le_antisymm (not_lt.mp h2) (not_lt.mp h1)
      by_cases h3 : x = 0
      · rw [if_pos h3]
        constructor
        · intro h
          exact ⟨q, false, h, by simp, fun _ => by simp [h1]⟩
        · rintro ⟨ph, b, hm, rfl, hb⟩
          have : b = false := by rw [hb (fun _ => h3)]; simp [h1]
          subst this
          simpa using hm
      · rw [if_neg h3]
        constructor
        · intro h
          have hs : s.1 = true ∨ s.2 = true := by
            cases q <;> simpa [memC] using h
          rcases hs with hs | hs
          · exact ⟨false, q, by simp [memC, hs], by simp, fun hh => absurd (hh he) h3⟩
          · exact ⟨true, !q, by simp [memC, hs], by cases q <;> rfl, fun hh => absurd (hh he) h3⟩
        · rintro ⟨ph, b, hm, rfl, _⟩
          cases ph <;> cases b <;> simp_all [memC]

/-- **Exact characterisation of the oracle (no hypothesis on ties).**  A partly observed copy sequence
    passes iff there are a starting copy in the starting set and a crossover mask that agrees with the
    comparisons `r < x` off positive ties, whose copy sequence shows every observed copy. -/
theorem specObsFrom_iff : ∀ (xo r : List β) (obs : List (Option Bool)) (s : Bool × Bool),
    specObsFrom s obs r xo = true ↔
      ∃ ph m, memC s ph = true ∧ maskOK r xo m ∧ obsOK obs (phasesFrom ph m)
  | [], [], [], s => by
    simp only [specObsFrom]
    constructor
    · intro h
      have : s.1 = true ∨ s.2 = true := by simpa using h
      rcases this with h | h
      · exact ⟨false, [], by simp [memC, h], trivial, trivial⟩
      · exact ⟨true, [], by simp [memC, h], trivial, trivial⟩
    · rintro ⟨ph, m, hm, _, _⟩
      cases ph <;> simp_all [memC]
  | [], [], _ :: _, s => by
    simp only [specObsFrom]
    constructor
    · intro h; cases h
    · rintro ⟨ph, m, _, h1, h2⟩
      cases m with
      | nil => simp [phasesFrom, obsOK] at h2
      | cons b bs => simp [maskOK] at h1
  | [], r0 :: rs0, obs, s => by
    have : specObsFrom s obs (r0 :: rs0) ([] : List β) = false := by cases obs <;> rfl
    rw [this]
    constructor
    · intro h; cases h
    · rintro ⟨ph, m, _, h1, _⟩
      cases m <;> simp [maskOK] at h1
  | x0 :: xs0, [], obs, s => by
    have : specObsFrom s obs ([] : List β) (x0 :: xs0) = false := by cases obs <;> rfl
    rw [this]
    constructor
    · intro h; cases h
    · rintro ⟨ph, m, _, h1, _⟩
      cases m <;> simp [maskOK] at h1
  | x :: xs, r :: rs, [], s => by
    simp only [specObsFrom]
    constructor
    · intro h; cases h
    · rintro ⟨ph, m, _, h1, h2⟩
      cases m with
      | nil => simp [maskOK] at h1
      | cons b bs => simp [phasesFrom, obsOK] at h2
  | x :: xs, r :: rs, o :: os, s => by
    simp only [specObsFrom]
    rw [specObsFrom_iff xs rs os]
    constructor
    · rintro ⟨q, m', hq, hm', ho'⟩
      obtain ⟨hq1, hq2⟩ := (memC_nfaSee_iff _ _ _).mp hq
      obtain ⟨ph, b, hs, hx, hb⟩ := (memC_nfaMove_iff _ _ _ _).mp hq1
      refine ⟨ph, b :: m', hs, ⟨hb, hm'⟩, ?_⟩
      simp only [phasesFrom, obsOK, hx]
      exact ⟨hq2, ho'⟩
    · rintro ⟨ph, m, hs, hm, ho⟩
      cases m with
      | nil => simp [maskOK] at hm
      | cons b bs =>
        simp only [maskOK] at hm
        simp only [phasesFrom, obsOK] at ho
        refine ⟨xor ph b, bs, ?_, hm.2, ho.2⟩
        exact (memC_nfaSee_iff _ _ _).mpr ⟨(memC_nfaMove_iff _ _ _ _).mpr ⟨ph, b, hs, rfl, hm.1⟩, ho.1⟩

theorem obsOK_map_some : ∀ (lab ps : List Bool), obsOK (lab.map some) ps ↔ lab = ps
  | [], [] => by simp [obsOK]
  | [], _ :: _ => by simp [obsOK]
  | _ :: _, [] => by simp [obsOK]
  | a :: l, p :: ps => by
    simp only [List.map_cons, obsOK, List.cons.injEq]
    rw [obsOK_map_some l ps]
    simp

/-- the model's own mask is admissible -/
theorem maskOK_xoMask : ∀ (r xo : List β), r.length = xo.length → maskOK r xo (xoMask r xo)
  | [], [], _ => trivial
  | [], _ :: _, h => by simp at h
  | _ :: _, [], h => by simp at h
  | r :: rs, x :: xs, h => ⟨fun _ => rfl, maskOK_xoMask rs xs (by simpa using h)⟩

/-- without positive ties the admissible mask is unique: the model's -/
theorem maskOK_unique : ∀ (r xo : List β) (m : List Bool),
    (∀ p ∈ r.zip xo, p.1 = p.2 → p.2 = 0) → maskOK r xo m → m = xoMask r xo
  | [], [], [], _, _ => rfl
  | [], [], _ :: _, _, h => by simp [maskOK] at h
  | [], _ :: _, m, _, h => by cases m <;> simp [maskOK] at h
  | _ :: _, [], m, _, h => by cases m <;> simp [maskOK] at h
  | _ :: _, _ :: _, [], _, h => by simp [maskOK] at h
  | r :: rs, x :: xs, b :: bs, hne, h => by
    simp only [maskOK] at h
    simp only [xoMask]
    rw [h.1 (hne (r, x) (by simp)), maskOK_unique rs xs bs (fun p hp => hne p (by simp [hp])) h.2]

end

section observe
variable {α : Type} [BEq α] [LawfulBEq α]

/-- reading the provenance off the model's own gamete gives back its copy sequence, masked by the
    heterozygosity of the parent -/
theorem observeRow_mosaic : ∀ (ph : List Bool) (h0 h1 : List α), h0.length = ph.length → h1.length = ph.length →
    observeRow h0 h1 (mosaic ph h0 h1) = some (seen (hetMask h0 h1) ph)
  | [], [], [], _, _ => rfl
  | [], _ :: _, _, h, _ => by simp at h
  | [], [], _ :: _, _, h => by simp at h
  | _ :: _, [], _, h, _ => by simp at h
  | _ :: _, _ :: _, [], _, h => by simp at h
  | p :: ps, a :: r0, b :: r1, e0, e1 => by
    have ih := observeRow_mosaic ps r0 r1 (by simpa using e0) (by simpa using e1)
    simp only [mosaic, observeRow, hetMask, seen, ih]
    by_cases hab : a = b
    · subst hab
      cases p <;> simp
    · have hab' : (a == b) = false := by simpa using hab
      have hba' : (b == a) = false := by simpa using fun e : b = a => hab e.symm
      cases p <;> simp [hab', hba']

theorem hetMask_length : ∀ (h0 h1 : List α), h0.length = h1.length → (hetMask h0 h1).length = h0.length
  | [], [], _ => rfl
  | [], _ :: _, h => by simp at h
  | _ :: _, [], h => by simp at h
  | a :: r0, b :: r1, h => by simp [hetMask, hetMask_length r0 r1 (by simpa using h)]

end observe

end Recomb
