/-
Helper lemmas for C19 (distance-to-preference-vector part): list-sum algebra of
`Pareto.distSq` — explicit sums, projection, orthogonality, Pythagoras, non-negativity,
zero distance ⇔ multiple of the line.
-/
import Mathlib.Tactic
import PybropsModel.Model.Pareto
set_option autoImplicit false
set_option linter.unusedSectionVars false

namespace C19
open Pareto

/-- dot product as a `List.sum` (what `Np.dot` computes with a left fold) -/
def vdot {α : Type} [Add α] [Mul α] [Zero α] (a b : List α) : α := (List.zipWith (· * ·) a b).sum

/-- squared Euclidean norm as a `List.sum` -/
def normSq {α : Type} [Add α] [Mul α] [Zero α] (v : List α) : α := (v.map (fun x => x * x)).sum

/-- coordinate-wise difference -/
def vsub {α : Type} [Sub α] (a b : List α) : List α := List.zipWith (· - ·) a b

/-- scalar multiple `c • l` -/
def smul {α : Type} [Mul α] (c : α) (l : List α) : List α := l.map (fun y => c * y)

/-- orthogonal projection of `p` on the line spanned by `l`: `((p·l)/(l·l)) l` -/
def proj {α : Type} [Add α] [Mul α] [Div α] [Zero α] (l p : List α) : List α := smul (vdot p l / vdot l l) l

section ring
variable {α : Type} [Field α]

theorem np_sum_eq (l : List α) : Np.sum l = l.sum := by
  unfold Np.sum
  rw [List.sum_eq_foldl]

theorem np_dot_eq (a b : List α) : Np.dot a b = vdot a b := by
  unfold Np.dot vdot
  exact np_sum_eq _

theorem vdot_nil_left (b : List α) : vdot ([] : List α) b = 0 := by simp [vdot]
theorem vdot_nil_right (a : List α) : vdot a ([] : List α) = 0 := by simp [vdot]
theorem vdot_cons (x y : α) (a b : List α) : vdot (x :: a) (y :: b) = x * y + vdot a b := by
  simp [vdot]

theorem vdot_comm (a b : List α) : vdot a b = vdot b a := by
  induction a generalizing b with
  | nil => simp [vdot]
  | cons x a ih =>
    cases b with
    | nil => simp [vdot]
    | cons y b => rw [vdot_cons, vdot_cons, ih, mul_comm]

theorem vdot_self (v : List α) : vdot v v = normSq v := by
  unfold vdot normSq
  rw [List.zipWith_self]

/-- `Σ (x - s y)(x - s y) = p·p - 2 s p·l + s² l·l` for lists of one length, any `s` -/
theorem sum_resid_sq (s : α) (p l : List α) (h : p.length = l.length) :
    normSq (List.zipWith (fun x y => x - s * y) p l) = vdot p p - 2 * s * vdot p l + s ^ 2 * vdot l l := by
  induction p generalizing l with
  | nil =>
    have : l = [] := List.length_eq_zero_iff.mp h.symm
    subst this; simp [normSq, vdot]
  | cons x p ih =>
    cases l with
    | nil => simp at h
    | cons y l =>
      have hl : p.length = l.length := by simpa using h
      have := ih l hl
      simp only [normSq, List.zipWith_cons_cons, List.map_cons, List.sum_cons] at this ⊢
      rw [this, vdot_cons, vdot_cons, vdot_cons]
      ring

/-- `(p - s l)·l = p·l - s l·l` for lists of one length -/
theorem resid_dot (s : α) (p l : List α) (h : p.length = l.length) :
    vdot (List.zipWith (fun x y => x - s * y) p l) l = vdot p l - s * vdot l l := by
  induction p generalizing l with
  | nil =>
    have : l = [] := List.length_eq_zero_iff.mp h.symm
    subst this; simp [vdot]
  | cons x p ih =>
    cases l with
    | nil => simp at h
    | cons y l =>
      have hl : p.length = l.length := by simpa using h
      rw [List.zipWith_cons_cons, vdot_cons, vdot_cons, vdot_cons, ih l hl]
      ring

/-- the code's residual `P - scale·L` is `P - proj_L P` -/
theorem resid_eq_vsub_proj (l p : List α) :
    List.zipWith (fun x y => x - ((1:α) / Np.dot l l) * Np.dot p l * y) p l = vsub p (proj l p) := by
  unfold vsub proj smul
  rw [List.zipWith_map_right, np_dot_eq, np_dot_eq]
  congr 1
  funext x y
  rw [one_div, div_eq_mul_inv, mul_comm (vdot l l)⁻¹]

/-- unfolding of the model's `distSq` into list sums -/
theorem distSq_eq_normSq (l p : List α) :
    distSq l p = normSq (List.zipWith (fun x y => x - ((1:α) / Np.dot l l) * Np.dot p l * y) p l) := by
  unfold distSq
  simp only []
  rw [np_dot_eq, vdot_self]

end ring

section ordered
variable {α : Type} [Field α] [LinearOrder α] [IsStrictOrderedRing α]

theorem normSq_nonneg (v : List α) : 0 ≤ normSq v := by
  unfold normSq
  apply List.sum_nonneg
  intro x hx
  obtain ⟨y, _, rfl⟩ := List.mem_map.mp hx
  exact mul_self_nonneg y

theorem normSq_eq_zero_iff (v : List α) : normSq v = 0 ↔ ∀ x ∈ v, x = 0 := by
  induction v with
  | nil => simp [normSq]
  | cons x v ih =>
    have h1 : normSq (x :: v) = x * x + normSq v := by simp [normSq]
    rw [h1]
    have hx := mul_self_nonneg x
    have hv := normSq_nonneg v
    constructor
    · intro h
      have hx0 : x * x = 0 := by linarith
      have hv0 : normSq v = 0 := by linarith
      intro z hz
      rcases List.mem_cons.mp hz with rfl | hz
      · exact mul_self_eq_zero.mp hx0
      · exact ih.mp hv0 z hz
    · intro h
      have hx0 : x = 0 := h x (by simp)
      have hv0 : normSq v = 0 := ih.mpr (fun z hz => h z (List.mem_cons_of_mem _ hz))
      rw [hx0, hv0]; ring

end ordered

end C19
