/-
Lemmas for the VCF import model (C16): the transposition, the lexsort permutation, reordering of
the per-variant arrays by one index vector.
-/
import Mathlib.Tactic
import PybropsModel.Model.StoreVcf

set_option autoImplicit false

namespace StoreVcf

/-! ### indexing helpers -/

theorem getD_map_range {β : Type} (n : Nat) (f : Nat → β) (i : Nat) (d : β) (hi : i < n) :
    ((List.range n).map f).getD i d = f i := by
  simp [List.getD_eq_getElem?_getD, hi]

theorem transpose210_get (m n : Nat) (A : List (List (List Int))) (a b c : Nat)
    (ha : a < m) (hb : b < n) (hc : c < A.length) :
    (((transpose210 m n A).getD a []).getD b []).getD c 0 = ((A.getD c []).getD b []).getD a 0 := by
  unfold transpose210
  rw [getD_map_range m _ a [] ha, getD_map_range n _ b [] hb, getD_map_range A.length _ c 0 hc]

/-- allele `ph` of a call -/
def allele (c : Int × Int) (ph : Nat) : Int := if ph = 0 then c.1 else c.2

theorem stack_get (recs : List Rec) (j i ph : Nat) (hj : j < recs.length)
    (hi : i < (recs.getD j default).calls.length) (hph : ph < 2) :
    (((stack recs).getD j []).getD i []).getD ph 0 = allele ((recs.getD j default).calls.getD i (0, 0)) ph := by
  unfold stack callRows
  have h1 : (recs.map (fun r => r.calls.map (fun c => [c.1, c.2]))).getD j [] =
      (recs.getD j default).calls.map (fun c => [c.1, c.2]) := by
    simp [List.getD_eq_getElem?_getD, List.getElem?_eq_getElem hj]
  rw [h1]
  have h2 : ∀ (cs : List (Int × Int)), i < cs.length →
      (cs.map (fun c => [c.1, c.2])).getD i [] = [(cs.getD i (0, 0)).1, (cs.getD i (0, 0)).2] := by
    intro cs hcs
    simp [List.getD_eq_getElem?_getD, List.getElem?_eq_getElem hcs]
  rw [h2 _ hi]
  unfold allele
  interval_cases ph <;> simp

/-! ### `numpy.take` -/

theorem take_map {α β : Type} (f : α → β) (is : List Nat) (l : List α) :
    Np.take is (l.map f) = (Np.take is l).map f := by
  unfold Np.take
  induction is with
  | nil => rfl
  | cons i r ih =>
    simp only [List.filterMap_cons, List.getElem?_map]
    cases h : l[i]? with
    | none => simpa using ih
    | some a => simpa using ih

theorem take_valid {α : Type} [Inhabited α] (is : List Nat) (l : List α) (h : ∀ i ∈ is, i < l.length) :
    Np.take is l = is.map (fun i => l.getD i default) := by
  unfold Np.take
  induction is with
  | nil => rfl
  | cons i r ih =>
    have hi : i < l.length := h i List.mem_cons_self
    simp only [List.filterMap_cons, List.getElem?_eq_getElem hi, List.map_cons]
    rw [ih (fun j hj => h j (List.mem_cons_of_mem _ hj))]
    simp [List.getD_eq_getElem?_getD, List.getElem?_eq_getElem hi]

theorem take_range {α : Type} (l : List α) : Np.take (List.range l.length) l = l := by
  unfold Np.take
  apply List.ext_getElem?
  intro i
  by_cases hi : i < l.length
  · have : (List.filterMap (fun i => l[i]?) (List.range l.length)) = l := by
      clear hi
      induction l using List.reverseRecOn with
      | nil => rfl
      | append_singleton l a ih =>
        rw [List.length_append, List.length_singleton, List.range_succ, List.filterMap_append]
        congr 1
        · have : List.filterMap (fun i => (l ++ [a])[i]?) (List.range l.length) =
              List.filterMap (fun i => l[i]?) (List.range l.length) := by
            apply List.filterMap_congr
            intro i hi
            rw [List.getElem?_append_left (List.mem_range.mp hi)]
          rw [this, ih]
        · simp
    rw [this]
  · have : (List.filterMap (fun i => l[i]?) (List.range l.length)) = l := by
      clear hi
      induction l using List.reverseRecOn with
      | nil => rfl
      | append_singleton l a ih =>
        rw [List.length_append, List.length_singleton, List.range_succ, List.filterMap_append]
        congr 1
        · have : List.filterMap (fun i => (l ++ [a])[i]?) (List.range l.length) =
              List.filterMap (fun i => l[i]?) (List.range l.length) := by
            apply List.filterMap_congr
            intro i hi
            rw [List.getElem?_append_left (List.mem_range.mp hi)]
          rw [this, ih]
        · simp
    rw [this]

theorem take_perm {α : Type} {is js : List Nat} (h : is.Perm js) (l : List α) :
    (Np.take is l).Perm (Np.take js l) := by
  unfold Np.take
  exact h.filterMap _

/-! ### insertion sort -/

section sort
variable {α : Type} (le : α → α → Bool)

theorem insBy_perm (a : α) (l : List α) : (insBy le a l).Perm (a :: l) := by
  induction l with
  | nil => exact List.Perm.refl _
  | cons b l ih =>
    unfold insBy
    by_cases h : le a b = true
    · rw [if_pos h]
    · rw [if_neg h]
      exact ((List.Perm.cons b ih).trans (List.Perm.swap a b l))

theorem sortBy_perm (l : List α) : (sortBy le l).Perm l := by
  induction l with
  | nil => exact List.Perm.refl _
  | cons b l ih => exact (insBy_perm le b (sortBy le l)).trans (List.Perm.cons b ih)

variable (htr : ∀ a b c, le a b = true → le b c = true → le a c = true)
variable (htot : ∀ a b, le a b = true ∨ le b a = true)
include htr htot

theorem insBy_pairwise (a : α) (l : List α) (hl : l.Pairwise (fun x y => le x y = true)) :
    (insBy le a l).Pairwise (fun x y => le x y = true) := by
  induction l with
  | nil => simp [insBy]
  | cons b l ih =>
    rw [List.pairwise_cons] at hl
    unfold insBy
    by_cases h : le a b = true
    · rw [if_pos h, List.pairwise_cons]
      refine ⟨?_, List.pairwise_cons.mpr hl⟩
      intro x hx
      rcases List.mem_cons.mp hx with hx | hx
      · rw [hx]; exact h
      · exact htr a b x h (hl.1 x hx)
    · rw [if_neg h, List.pairwise_cons]
      refine ⟨?_, ih hl.2⟩
      intro x hx
      have hx' := (insBy_perm le a l).mem_iff.mp hx
      rcases List.mem_cons.mp hx' with hx' | hx'
      · rw [hx']
        rcases htot a b with t | t
        · exact absurd t h
        · exact t
      · exact hl.1 x hx'

theorem sortBy_pairwise (l : List α) : (sortBy le l).Pairwise (fun x y => le x y = true) := by
  induction l with
  | nil => exact List.Pairwise.nil
  | cons b l ih => exact insBy_pairwise le htr htot b _ ih

end sort

/-! ### the lexsort order -/

theorem keyLt_iff (a b : Int × Int) : keyLt a b = true ↔ a.1 < b.1 ∨ (a.1 = b.1 ∧ a.2 < b.2) := by
  unfold keyLt
  simp [Bool.or_eq_true, Bool.and_eq_true]

theorem idxLe_iff (a b : (Int × Int) × Nat) :
    idxLe a b = true ↔
      (a.1.1 < b.1.1 ∨ (a.1.1 = b.1.1 ∧ a.1.2 < b.1.2)) ∨
      (¬ (b.1.1 < a.1.1 ∨ (b.1.1 = a.1.1 ∧ b.1.2 < a.1.2)) ∧ a.2 ≤ b.2) := by
  unfold idxLe
  rw [Bool.or_eq_true, Bool.and_eq_true, keyLt_iff, Bool.not_eq_true', ← Bool.not_eq_true, keyLt_iff,
    decide_eq_true_iff]

theorem idxLe_trans (a b c : (Int × Int) × Nat) (h1 : idxLe a b = true) (h2 : idxLe b c = true) :
    idxLe a c = true := by
  rw [idxLe_iff] at *
  omega

theorem idxLe_total (a b : (Int × Int) × Nat) : idxLe a b = true ∨ idxLe b a = true := by
  rw [idxLe_iff, idxLe_iff]
  omega

/-- sortedness seen on the keys alone: no later key is strictly smaller -/
theorem not_keyLt_of_idxLe (a b : (Int × Int) × Nat) (h : idxLe a b = true) : keyLt b.1 a.1 = false := by
  rw [← Bool.not_eq_true, keyLt_iff]
  rw [idxLe_iff] at h
  omega

/-! ### the index vector -/

theorem zipIdx_snd_range {α : Type} (l : List α) : l.zipIdx.map Prod.snd = List.range l.length := by
  rw [List.zipIdx_eq_zip_range', List.map_snd_zip (by simp), List.range_eq_range']

theorem lexsortIdx_perm (recs : List Rec) : (lexsortIdx recs).Perm (List.range recs.length) := by
  unfold lexsortIdx
  have h := (sortBy_perm idxLe ((recs.map keyOf).zipIdx)).map Prod.snd
  rw [zipIdx_snd_range, List.length_map] at h
  exact h

theorem lexsortIdx_valid (recs : List Rec) : ∀ i ∈ lexsortIdx recs, i < recs.length := by
  intro i hi
  exact List.mem_range.mp ((lexsortIdx_perm recs).mem_iff.mp hi)

theorem lexsortIdx_length (recs : List Rec) : (lexsortIdx recs).length = recs.length := by
  simpa using (lexsortIdx_perm recs).length_eq

theorem grouped_perm (recs : List Rec) : (grouped recs).Perm recs := by
  unfold grouped
  have := take_perm (lexsortIdx_perm recs) recs
  rwa [take_range] at this

theorem grouped_length (recs : List Rec) : (grouped recs).length = recs.length :=
  (grouped_perm recs).length_eq

/-- the sorted (key, index) pairs carry the keys of the records they point to -/
theorem sorted_pairs_key (recs : List Rec) :
    ∀ p ∈ sortBy idxLe ((recs.map keyOf).zipIdx), p.1 = keyOf (recs.getD p.2 default) ∧ p.2 < recs.length := by
  intro p hp
  have hp' := (sortBy_perm idxLe _).mem_iff.mp hp
  obtain ⟨hlt, hget⟩ := List.mem_zipIdx' hp'
  simp only [List.length_map] at hlt
  refine ⟨?_, hlt⟩
  simp only [List.getElem_map] at hget
  rw [hget]
  simp [List.getD_eq_getElem?_getD, List.getElem?_eq_getElem hlt]

theorem grouped_keys (recs : List Rec) :
    (grouped recs).map keyOf = (sortBy idxLe ((recs.map keyOf).zipIdx)).map Prod.fst := by
  unfold grouped
  rw [take_valid _ _ (lexsortIdx_valid recs)]
  unfold lexsortIdx
  rw [List.map_map, List.map_map]
  apply List.map_congr_left
  intro p hp
  exact ((sorted_pairs_key recs p hp).1).symm

/-- after `group_vrnt` the variants are in (chromosome, position) order -/
theorem grouped_sorted (recs : List Rec) :
    (grouped recs).Pairwise (fun a b => keyLt (keyOf b) (keyOf a) = false) := by
  have hs := sortBy_pairwise idxLe idxLe_trans idxLe_total ((recs.map keyOf).zipIdx)
  have hk : ((sortBy idxLe ((recs.map keyOf).zipIdx)).map Prod.fst).Pairwise
      (fun x y => keyLt y x = false) := by
    rw [List.pairwise_map]
    exact hs.imp (fun {a b} h => not_keyLt_of_idxLe a b h)
  rw [← grouped_keys, List.pairwise_map] at hk
  exact hk

/-! ### entries of the imported matrices -/

def entry3 (A : List (List (List Int))) (a b c : Nat) : Int := ((A.getD a []).getD b []).getD c 0
def entry2 (A : List (List Int)) (a b : Nat) : Int := (A.getD a []).getD b 0

theorem getD_mem {α : Type} [Inhabited α] (l : List α) (j : Nat) (hj : j < l.length) : l.getD j default ∈ l := by
  simp [List.getD_eq_getElem?_getD, List.getElem?_eq_getElem hj]

/-- **transposition**: entry (phase, taxon, variant) of the imported array is allele `phase` of the
    call of sample `taxon` in record `variant` -/
theorem matPhased_entry (n : Nat) (recs : List Rec) (hrect : ∀ r ∈ recs, r.calls.length = n)
    (ph i j : Nat) (hph : ph < 2) (hi : i < n) (hj : j < recs.length) :
    entry3 (matPhased n recs) ph i j = allele ((recs.getD j default).calls.getD i (0, 0)) ph := by
  unfold entry3 matPhased
  have hl : (stack recs).length = recs.length := by simp [stack]
  rw [transpose210_get 2 n (stack recs) ph i j hph hi (by rw [hl]; exact hj)]
  exact stack_get recs j i ph hj (by rw [hrect _ (getD_mem recs j hj)]; exact hi) hph

theorem matUnphased_entry (n : Nat) (recs : List Rec) (hrect : ∀ r ∈ recs, r.calls.length = n)
    (i j : Nat) (hi : i < n) (hj : j < recs.length) :
    entry2 (matUnphased n recs) i j =
      ((recs.getD j default).calls.getD i (0, 0)).1 + ((recs.getD j default).calls.getD i (0, 0)).2 := by
  unfold entry2 matUnphased
  simp only []
  rw [getD_map_range n _ i [] hi, getD_map_range recs.length _ j 0 hj]
  have h0 := matPhased_entry n recs hrect 0 i j (by omega) hi hj
  have h1 := matPhased_entry n recs hrect 1 i j (by omega) hi hj
  unfold entry3 at h0 h1
  rw [h0, h1]
  simp [allele]

theorem take_getD {α : Type} [Inhabited α] (is : List Nat) (l : List α) (h : ∀ i ∈ is, i < l.length)
    (j : Nat) (hj : j < is.length) :
    (Np.take is l).getD j default = l.getD (is.getD j 0) default := by
  rw [take_valid is l h]
  simp [List.getD_eq_getElem?_getD, List.getElem?_eq_getElem hj]

theorem getD_map' {α β : Type} (f : α → β) (l : List α) (n : Nat) (d : α) :
    (l.map f).getD n (f d) = f (l.getD n d) := by
  simp only [List.getD_eq_getElem?_getD, List.getElem?_map]
  cases l[n]? <;> rfl

theorem take_nil {α : Type} (is : List Nat) : Np.take is ([] : List α) = [] := by
  unfold Np.take
  induction is with
  | nil => rfl
  | cons i r ih => simpa using ih

/-- reordering every row of the (phase, taxon, variant) array by the index vector is the same as
    importing the reordered records -/
theorem grouped_entry (n : Nat) (recs : List Rec) (hrect : ∀ r ∈ recs, r.calls.length = n)
    (ph i j : Nat) (hph : ph < 2) (hi : i < n) (hj : j < recs.length) :
    entry3 ((matPhased n recs).map (fun pl => pl.map (Np.take (lexsortIdx recs)))) ph i j =
      allele (((grouped recs).getD j default).calls.getD i (0, 0)) ph := by
  have hv := lexsortIdx_valid recs
  have hjl : j < (lexsortIdx recs).length := by rw [lexsortIdx_length]; exact hj
  have hj0 : (lexsortIdx recs).getD j 0 < recs.length := by
    apply hv
    simp [List.getD_eq_getElem?_getD, List.getElem?_eq_getElem hjl]
  unfold grouped
  rw [take_getD _ recs hv j hjl]
  rw [← matPhased_entry n recs hrect ph i _ hph hi hj0]
  unfold entry3
  have e1 : ((matPhased n recs).map (fun pl => pl.map (Np.take (lexsortIdx recs)))).getD ph [] =
      ((matPhased n recs).getD ph []).map (Np.take (lexsortIdx recs)) := by
    have := getD_map' (fun pl : List (List Int) => pl.map (Np.take (lexsortIdx recs)))
      (matPhased n recs) ph []
    simpa using this
  rw [e1]
  have e2 : (((matPhased n recs).getD ph []).map (Np.take (lexsortIdx recs))).getD i [] =
      Np.take (lexsortIdx recs) (((matPhased n recs).getD ph []).getD i []) := by
    have := getD_map' (Np.take (lexsortIdx recs)) ((matPhased n recs).getD ph []) i []
    rw [take_nil] at this
    exact this
  rw [e2]
  have hrow : (((matPhased n recs).getD ph []).getD i []).length = recs.length := by
    unfold matPhased transpose210
    rw [getD_map_range 2 _ ph [] hph, getD_map_range n _ i [] hi]
    simp [stack]
  have := take_getD (lexsortIdx recs) (((matPhased n recs).getD ph []).getD i [])
    (fun k hk => by rw [hrow]; exact hv k hk) j hjl
  simpa using this

theorem grouped_entry_unphased (n : Nat) (recs : List Rec) (hrect : ∀ r ∈ recs, r.calls.length = n)
    (i j : Nat) (hi : i < n) (hj : j < recs.length) :
    entry2 ((matUnphased n recs).map (Np.take (lexsortIdx recs))) i j =
      (((grouped recs).getD j default).calls.getD i (0, 0)).1 +
      (((grouped recs).getD j default).calls.getD i (0, 0)).2 := by
  have hv := lexsortIdx_valid recs
  have hjl : j < (lexsortIdx recs).length := by rw [lexsortIdx_length]; exact hj
  have hj0 : (lexsortIdx recs).getD j 0 < recs.length := by
    apply hv
    simp [List.getD_eq_getElem?_getD, List.getElem?_eq_getElem hjl]
  unfold grouped
  rw [take_getD _ recs hv j hjl]
  rw [← matUnphased_entry n recs hrect i _ hi hj0]
  unfold entry2
  have e2 : ((matUnphased n recs).map (Np.take (lexsortIdx recs))).getD i [] =
      Np.take (lexsortIdx recs) ((matUnphased n recs).getD i []) := by
    have := getD_map' (Np.take (lexsortIdx recs)) (matUnphased n recs) i []
    rw [take_nil] at this
    exact this
  rw [e2]
  have hrow : ((matUnphased n recs).getD i []).length = recs.length := by
    unfold matUnphased
    simp only []
    rw [getD_map_range n _ i [] hi]
    simp
  have := take_getD (lexsortIdx recs) ((matUnphased n recs).getD i [])
    (fun k hk => by rw [hrow]; exact hv k hk) j hjl
  simpa using this

/-! ### text level -/

theorem parseRecs_ok (raws : List RawRec) (h : ∀ r ∈ raws, r.chrom.toInt?.isSome = true) :
    parseRecs raws = .ok (raws.map (fun r => ⟨(r.chrom.toInt?).getD 0, r.pos, r.id.getD "None", r.calls⟩)) := by
  induction raws with
  | nil => rfl
  | cons r rest ih =>
    have hr := h r List.mem_cons_self
    obtain ⟨c, hc⟩ := Option.isSome_iff_exists.mp hr
    show (do let a ← parseRec r; let tl ← parseRecs rest; pure (a :: tl)) = _
    rw [ih (fun x hx => h x (List.mem_cons_of_mem _ hx))]
    simp [parseRec, hc]

theorem parseRecs_err (raws : List RawRec) (h : ∃ r ∈ raws, r.chrom.toInt? = none) :
    parseRecs raws = .error .value := by
  induction raws with
  | nil => obtain ⟨r, hr, _⟩ := h; simp at hr
  | cons r rest ih =>
    show (do let a ← parseRec r; let tl ← parseRecs rest; pure (a :: tl)) = _
    cases hc : r.chrom.toInt? with
    | none => simp [parseRec, hc]; rfl
    | some c =>
      obtain ⟨x, hx, hxn⟩ := h
      rcases List.mem_cons.mp hx with e | e
      · subst e; rw [hc] at hxn; simp at hxn
      · rw [ih ⟨x, e, hxn⟩]
        simp [parseRec, hc]

end StoreVcf
