/-
Helper lemmas for C13: entries of the centred matrices, of the four estimators and of the allele
frequency estimate as finite sums; the Gram-form identity behind positive semidefiniteness.
-/
import PybropsModel.Lemmas.CoancestryBasic
set_option autoImplicit false
set_option linter.unusedSectionVars false

namespace Coancestry
open Finset

section rows
variable {α : Type} [Semiring α]

theorem entry_mapRows {β : Type} [Zero β] (f : List α → List β) (X : List (List α)) (n m i j : Nat)
    (h : Rect n m X) (hi : i < n) : entry (X.map f) i j = (f (X.getD i [])).getD j 0 := by
  unfold entry
  rw [getD_map' f X i [] [] (h.1 ▸ hi)]

theorem Rect.mapRows {β : Type} {n m m' : Nat} {X : List (List α)} (h : Rect n m X) (f : List α → List β)
    (hf : ∀ r : List α, r.length = m → (f r).length = m') : Rect n m' (X.map f) := by
  refine ⟨by simp [h.1], ?_⟩
  intro r hr
  obtain ⟨r', hr', rfl⟩ := List.mem_map.mp hr
  exact hf r' (h.2 r' hr')

/-- entries of a matrix whose rows are zipped with a fixed vector -/
theorem entry_zipRows (g : α → α → α) (p : List α) (X : List (List α)) (n m i k : Nat) (h : Rect n m X)
    (hp : p.length = m) (hi : i < n) (hk : k < m) :
    entry (X.map (fun r => List.zipWith g r p)) i k = g (entry X i k) (p.getD k 0) := by
  rw [entry_mapRows _ X n m i k h hi]
  exact getD_zipWith g _ p k 0 0 0 ((h.row hi) ▸ hk) (hp ▸ hk)

theorem Rect.zipRows {n m : Nat} {X : List (List α)} (h : Rect n m X) (g : α → α → α) (p : List α)
    (hp : p.length = m) : Rect n m (X.map (fun r => List.zipWith g r p)) :=
  h.mapRows _ (fun r hr => by simp [hr, hp])

end rows

section field
variable {α : Type} [Field α]

theorem entry_center (ploidy : Nat) (p : List α) (X : List (List α)) (n m i k : Nat) (h : Rect n m X)
    (hp : p.length = m) (hi : i < n) (hk : k < m) :
    entry (center ploidy p X) i k = entry X i k - p.getD k 0 * (ploidy : α) :=
  entry_zipRows (fun x pk => x - pk * (ploidy : α)) p X n m i k h hp hi hk

theorem Rect.center {n m : Nat} {X : List (List α)} (h : Rect n m X) (ploidy : Nat) (p : List α)
    (hp : p.length = m) : Rect n m (center ploidy p X) :=
  h.zipRows _ p hp

theorem entry_centerGW (ploidy : Nat) (p : List α) (X : List (List α)) (n m i k : Nat) (h : Rect n m X)
    (hp : p.length = m) (hi : i < n) (hk : k < m) :
    entry (centerGW ploidy p X) i k = entry X i k - (ploidy : α) * p.getD k 0 :=
  entry_zipRows (fun x pk => x - (ploidy : α) * pk) p X n m i k h hp hi hk

theorem Rect.centerGW {n m : Nat} {X : List (List α)} (h : Rect n m X) (ploidy : Nat) (p : List α)
    (hp : p.length = m) : Rect n m (centerGW ploidy p X) :=
  h.zipRows _ p hp

/-- the VanRaden denominator as a finite sum -/
theorem dot_one_sub (p : List α) (m : Nat) (hp : p.length = m) :
    Np.dot p (p.map (fun x => 1 - x)) = ∑ k ∈ range m, p.getD k 0 * (1 - p.getD k 0) := by
  rw [dot_eq p _ m hp (by simp [hp])]
  apply Finset.sum_congr rfl
  intro k hk
  rw [getD_map' (fun x : α => 1 - x) p k 0 0 (hp ▸ Finset.mem_range.mp hk)]

theorem getD_yangDen (ploidy : Nat) (p : List α) (m k : Nat) (hp : p.length = m) (hk : k < m) :
    (yangDen ploidy p).getD k 0 = (ploidy : α) * p.getD k 0 * (1 - p.getD k 0) :=
  getD_map' _ p k 0 0 (hp ▸ hk)

/-- column sums and the allele-frequency estimate -/
theorem getD_colSums (m : Nat) (X : List (List α)) (n k : Nat) (h : Rect n m X) (hk : k < m) :
    (colSums m X).getD k 0 = ∑ i ∈ range n, entry X i k := by
  unfold colSums
  have hr : (List.range m).getD k 0 = k := by simp [List.getD_eq_getElem?_getD, hk]
  rw [getD_map' _ (List.range m) k 0 0 (by simpa using hk), hr]
  rw [npsum_eq_sum, list_sum_eq_range _ n (by simp [h.1])]
  apply Finset.sum_congr rfl
  intro i hi
  have hi' : i < X.length := h.1 ▸ Finset.mem_range.mp hi
  rw [getD_map' (fun r : List α => r.getD _ 0) X i 0 [] hi']
  simp [entry, List.getD_eq_getElem?_getD]

theorem getD_afreq (ploidy n m : Nat) (X : List (List α)) (k : Nat) (h : Rect n m X) (hk : k < m) :
    (afreq ploidy n m X).getD k 0 = (∑ i ∈ range n, entry X i k) / ((ploidy * n : Nat) : α) := by
  unfold afreq
  rw [getD_map' _ (colSums m X) k 0 0 (by simpa [colSums] using hk), getD_colSums m X n k h hk]

theorem length_afreq (ploidy n m : Nat) (X : List (List α)) : (afreq ploidy n m X).length = m := by
  simp [afreq, colSums]

end field

/-! ### Gram forms -/
section gram
variable {α : Type} [CommRing α]

/-- `vᵀ (A diag(c) Aᵀ) v = Σ_l c_l (Σ_i v_i a_il)²` -/
theorem gram_quad (n m : Nat) (v : Nat → α) (a : Nat → Nat → α) (c : Nat → α) :
    ∑ i ∈ range n, ∑ j ∈ range n, v i * (∑ l ∈ range m, a i l * c l * a j l) * v j
      = ∑ l ∈ range m, c l * (∑ i ∈ range n, v i * a i l) ^ 2 := by
  have h : ∀ l, c l * (∑ i ∈ range n, v i * a i l) ^ 2
      = ∑ i ∈ range n, ∑ j ∈ range n, v i * (a i l * c l * a j l) * v j := by
    intro l
    rw [sq, Finset.sum_mul_sum, Finset.mul_sum]
    apply Finset.sum_congr rfl; intro i _
    rw [Finset.mul_sum]
    apply Finset.sum_congr rfl; intro j _
    ring
  simp_rw [h]
  conv_rhs => rw [Finset.sum_comm]
  apply Finset.sum_congr rfl; intro i _
  conv_rhs => rw [Finset.sum_comm]
  apply Finset.sum_congr rfl; intro j _
  rw [Finset.mul_sum, Finset.sum_mul]

/-- `vᵀ (c·11ᵀ) v = c (Σ v)²` -/
theorem const_quad (n : Nat) (v : Nat → α) (c : α) :
    ∑ i ∈ range n, ∑ j ∈ range n, v i * c * v j = c * (∑ i ∈ range n, v i) ^ 2 := by
  rw [sq, Finset.sum_mul_sum, Finset.mul_sum]
  apply Finset.sum_congr rfl; intro i _
  rw [Finset.mul_sum]
  apply Finset.sum_congr rfl; intro j _
  ring

end gram

/-- the quadratic form `vᵀ G v` of an `n × n` matrix given as nested list -/
def quad {α : Type} [Semiring α] (n : Nat) (G : List (List α)) (v : Nat → α) : α :=
  ∑ i ∈ range n, ∑ j ∈ range n, v i * entry G i j * v j

section gramOrdered
variable {α : Type} [Field α] [LinearOrder α] [IsStrictOrderedRing α]

/-- a matrix whose entries are `c0 + Σ_l a_il c_l a_jl + Σ_l b_il c'_l b_jl` with non-negative `c0, c, c'`
    has a non-negative quadratic form -/
theorem quad_nonneg_of_gram2 (n m : Nat) (G : List (List α)) (v : Nat → α) (c0 : α) (a b : Nat → Nat → α)
    (c c' : Nat → α) (h0 : 0 ≤ c0) (hc : ∀ l < m, 0 ≤ c l) (hc' : ∀ l < m, 0 ≤ c' l)
    (hE : ∀ i < n, ∀ j < n, entry G i j =
      c0 + ∑ l ∈ range m, a i l * c l * a j l + ∑ l ∈ range m, b i l * c' l * b j l) :
    0 ≤ quad n G v := by
  have h : quad n G v = c0 * (∑ i ∈ range n, v i) ^ 2
      + ∑ l ∈ range m, c l * (∑ i ∈ range n, v i * a i l) ^ 2
      + ∑ l ∈ range m, c' l * (∑ i ∈ range n, v i * b i l) ^ 2 := by
    rw [← const_quad, ← gram_quad, ← gram_quad, ← Finset.sum_add_distrib, ← Finset.sum_add_distrib]
    unfold quad
    apply Finset.sum_congr rfl; intro i hi
    rw [← Finset.sum_add_distrib, ← Finset.sum_add_distrib]
    apply Finset.sum_congr rfl; intro j hj
    rw [hE i (Finset.mem_range.mp hi) j (Finset.mem_range.mp hj)]
    ring
  rw [h]
  refine add_nonneg (add_nonneg (mul_nonneg h0 (sq_nonneg _)) ?_) ?_
  · exact Finset.sum_nonneg (fun l hl => mul_nonneg (hc l (Finset.mem_range.mp hl)) (sq_nonneg _))
  · exact Finset.sum_nonneg (fun l hl => mul_nonneg (hc' l (Finset.mem_range.mp hl)) (sq_nonneg _))

theorem gram_quad_nonneg (n m : Nat) (v : Nat → α) (a : Nat → Nat → α) (c : Nat → α)
    (hc : ∀ l < m, 0 ≤ c l) :
    0 ≤ ∑ i ∈ range n, ∑ j ∈ range n, v i * (∑ l ∈ range m, a i l * c l * a j l) * v j := by
  rw [gram_quad]
  exact Finset.sum_nonneg (fun l hl => mul_nonneg (hc l (Finset.mem_range.mp hl)) (sq_nonneg _))

end gramOrdered

end Coancestry
