/-
Helper lemmas for C13: halving is exact in binary64 barring underflow.
A binary64 value is `m · 2^e` with `|m| < 2^53`, `-1074 ≤ e ≤ 971`; a rounding is any map that leaves
representable values unchanged (every IEEE rounding mode does).
-/
import Mathlib.Tactic
set_option autoImplicit false

namespace Coancestry

/-- the finite binary64 numbers -/
def IsBinary64 (x : ℚ) : Prop :=
  ∃ m e : ℤ, |m| < 2 ^ 53 ∧ -1074 ≤ e ∧ e ≤ 971 ∧ x = (m : ℚ) * (2 : ℚ) ^ e

/-- contract of a rounding function: representable values are fixed points -/
def FixesBinary64 (rnd : ℚ → ℚ) : Prop := ∀ x, IsBinary64 x → rnd x = x

/-- smallest magnitude whose half is still representable without loss: `2^-1021` -/
def halfSafe (x : ℚ) : Prop := x = 0 ∨ (2 : ℚ) ^ (-1021 : ℤ) ≤ |x|

theorem half_isBinary64 (x : ℚ) (hx : IsBinary64 x) (hs : halfSafe x) : IsBinary64 (x / 2) := by
  obtain ⟨m, e, hm, he1, he2, rfl⟩ := hx
  by_cases h0 : (m : ℚ) * (2 : ℚ) ^ e = 0
  · rw [h0, zero_div]
    exact ⟨0, 0, by norm_num, by norm_num, by norm_num, by simp⟩
  · by_cases he : -1073 ≤ e
    · refine ⟨m, e - 1, hm, by omega, by omega, ?_⟩
      rw [zpow_sub_one₀ (two_ne_zero)]
      ring
    · exfalso
      have hee : e = -1074 := by omega
      subst hee
      rcases hs with h | h
      · exact h0 h
      · have hmq : |(m : ℚ)| < (2 : ℚ) ^ (53 : ℤ) := by
          have : ((|m| : ℤ) : ℚ) < ((2 ^ 53 : ℤ) : ℚ) := by exact_mod_cast hm
          rw [Int.cast_abs] at this
          have h2 : ((2 ^ 53 : ℤ) : ℚ) = (2 : ℚ) ^ (53 : ℤ) := by norm_num
          rw [h2] at this
          exact this
        have hpos : (0 : ℚ) < (2 : ℚ) ^ (-1074 : ℤ) := by positivity
        have habs : |(m : ℚ) * (2 : ℚ) ^ (-1074 : ℤ)| = |(m : ℚ)| * (2 : ℚ) ^ (-1074 : ℤ) := by
          rw [abs_mul, abs_of_pos hpos]
        have hlt : |(m : ℚ) * (2 : ℚ) ^ (-1074 : ℤ)| < (2 : ℚ) ^ (53 : ℤ) * (2 : ℚ) ^ (-1074 : ℤ) := by
          rw [habs]; exact mul_lt_mul_of_pos_right hmq hpos
        rw [← zpow_add₀ (two_ne_zero)] at hlt
        have h3 : (53 : ℤ) + -1074 = -1021 := by norm_num
        rw [h3] at hlt
        exact absurd h (not_le.mpr hlt)

/-- **`0.5 * x` is exact**: for every rounding that fixes representable values, every binary64 `x` that
    is zero or at least `2^-1021` in magnitude -/
theorem rnd_half_exact (rnd : ℚ → ℚ) (hr : FixesBinary64 rnd) (x : ℚ) (hx : IsBinary64 x)
    (hs : halfSafe x) : rnd ((1 / (1 + 1)) * x) = x / 2 := by
  have : (1 / (1 + 1) : ℚ) * x = x / 2 := by ring
  rw [this]
  exact hr _ (half_isBinary64 x hx hs)

end Coancestry
