/-
Helper lemmas for C07 (round 3): the insertion sort behind `Np.argsort` is STABLE, so the sorting
optimiser's choice is determined exactly, ties included: candidates are ranked by (value, index)
lexicographically and the first `k` are taken.  From this: the choice is the unique "stable top-k" set
(no distinctness hypothesis).
-/
import Mathlib.Tactic
import PybropsModel.Lemmas.SelProtSort
set_option autoImplicit false
set_option linter.unusedSectionVars false

namespace SelProt

section stable
variable {α : Type} [LinearOrder α]

/-- strict lexicographic order on (value, index) pairs -/
def LexLt (p q : α × Nat) : Prop := p.1 < q.1 ∨ (p.1 = q.1 ∧ p.2 < q.2)

theorem LexLt.asymm {p q : α × Nat} (h : LexLt p q) : ¬ LexLt q p := by
  rintro (h' | ⟨e, h'⟩)
  · rcases h with h | ⟨e, _⟩
    · exact lt_asymm h h'
    · rw [e] at h'; exact lt_irrefl _ h'
  · rcases h with h | ⟨_, h⟩
    · rw [e] at h; exact lt_irrefl _ h
    · exact Nat.lt_asymm h h'

theorem LexLt.le {p q : α × Nat} (h : LexLt p q) : p.1 ≤ q.1 := by
  rcases h with h | ⟨e, _⟩
  · exact le_of_lt h
  · exact le_of_eq e

/-- inserting a pair whose index exceeds every index already present keeps the list lex-sorted:
    `insertSorted` walks past every element with value ≤ the new one (so equal values stay in front) -/
theorem insertSorted_lex (a : α × Nat) (l : List (α × Nat))
    (hs : l.Pairwise LexLt) (hidx : ∀ x ∈ l, x.2 < a.2) :
    (Np.insertSorted leKey a l).Pairwise LexLt := by
  induction l with
  | nil => simp [Np.insertSorted]
  | cons b bs ih =>
    simp only [Np.insertSorted]
    rw [List.pairwise_cons] at hs
    split
    · rename_i hba
      have hba' : b.1 ≤ a.1 := by simpa [leKey] using hba
      rw [List.pairwise_cons]
      refine ⟨?_, ih hs.2 (fun x hx => hidx x (List.mem_cons_of_mem _ hx))⟩
      intro x hx
      rcases List.mem_cons.mp ((insertSorted_perm leKey a bs).mem_iff.mp hx) with rfl | hx
      · rcases lt_or_eq_of_le hba' with h | h
        · exact Or.inl h
        · exact Or.inr ⟨h, hidx b (List.mem_cons_self)⟩
      · exact hs.1 x hx
    · rename_i hba
      have hab : a.1 < b.1 := by
        have : ¬ b.1 ≤ a.1 := by simpa [leKey] using hba
        exact lt_of_not_ge this
      rw [List.pairwise_cons]
      refine ⟨?_, List.pairwise_cons.mpr hs⟩
      intro x hx
      rcases List.mem_cons.mp hx with rfl | hx
      · exact Or.inl hab
      · exact Or.inl (lt_of_lt_of_le hab (hs.1 x hx).le)

theorem foldl_insert_lex (l : List α) (s : Nat) (acc : List (α × Nat))
    (hs : acc.Pairwise LexLt) (hidx : ∀ x ∈ acc, x.2 < s) :
    ((l.zipIdx s).foldl (fun acc a => Np.insertSorted leKey a acc) acc).Pairwise LexLt := by
  induction l generalizing s acc with
  | nil => simpa using hs
  | cons a t ih =>
    simp only [List.zipIdx_cons, List.foldl_cons]
    apply ih
    · exact insertSorted_lex (a, s) acc hs hidx
    · intro x hx
      rcases List.mem_cons.mp ((insertSorted_perm leKey (a, s) acc).mem_iff.mp hx) with rfl | hx
      · exact Nat.lt_succ_self s
      · exact Nat.lt_succ_of_lt (hidx x hx)

/-- **stability**: the sorted pairs are strictly increasing in (value, index) -/
theorem sortedPairs_lex (obj : List α) : (sortedPairs obj).Pairwise LexLt := by
  unfold sortedPairs Np.stableSort
  exact foldl_insert_lex obj 0 [] List.Pairwise.nil (by simp)

/-- "the best k candidates, ties broken by position": k distinct valid indices, and every chosen
    candidate precedes every unchosen one in the order (value, index) -/
structure StableTopK (obj : List α) (k : Nat) (S : List Nat) : Prop where
  len : S.length = min k obj.length
  nodup : S.Nodup
  valid : ∀ i ∈ S, i < obj.length
  best : ∀ i ∈ S, ∀ j, j ∉ S → ∀ a b, obj[i]? = some a → obj[j]? = some b → LexLt (a, i) (b, j)

theorem StableTopK.topK {obj : List α} {k : Nat} {S : List Nat} (h : StableTopK obj k S) : TopK obj k S :=
  ⟨h.len, h.nodup, h.valid, fun i hi j hj a b ha hb => (h.best i hi j hj a b ha hb).le⟩

theorem sortingSubset_stableTopK (obj : List α) (k : Nat) : StableTopK obj k (sortingSubset obj k) := by
  have ht := sortingSubset_topK obj k
  refine ⟨ht.len, ht.nodup, ht.valid, ?_⟩
  rw [sortingSubset_eq]
  intro i hi j hj a b ha hb
  obtain ⟨pi, hpi, rfl⟩ := List.mem_map.mp hi
  have hpj : (b, j) ∈ sortedPairs obj := (mem_sortedPairs obj (b, j)).mpr hb
  have hsplit := List.take_append_drop k (sortedPairs obj)
  have hjd : (b, j) ∈ (sortedPairs obj).drop k := by
    rw [← hsplit] at hpj
    rcases List.mem_append.mp hpj with h | h
    · exact absurd (List.mem_map.mpr ⟨(b, j), h, rfl⟩) hj
    · exact h
  have hpw := sortedPairs_lex obj
  rw [← hsplit, List.pairwise_append] at hpw
  have hlt := hpw.2.2 pi hpi (b, j) hjd
  have hpi' := (mem_sortedPairs obj pi).mp (List.mem_of_mem_take hpi)
  rw [hpi'] at ha
  cases ha
  exact hlt

/-- the stable top-k set is unique — ties included, no distinctness hypothesis -/
theorem stableTopK_unique (obj : List α) (k : Nat) (A B : List Nat)
    (hA : StableTopK obj k A) (hB : StableTopK obj k B) : ∀ i, i ∈ A ↔ i ∈ B := by
  have key : ∀ (A B : List Nat), StableTopK obj k A → StableTopK obj k B → ∀ i, i ∈ A → i ∈ B := by
    intro A B hA hB a ha
    by_contra hnb
    have hex : ∃ b ∈ B, b ∉ A := by
      by_contra hne
      have hsub : B ⊆ A := by
        intro b hb
        by_contra hn
        exact hne ⟨b, hb, hn⟩
      have hp : B.Perm A := (List.subperm_of_subset hB.nodup hsub).perm_of_length_le (by rw [hA.len, hB.len])
      exact hnb (hp.mem_iff.mpr ha)
    obtain ⟨b, hb, hba⟩ := hex
    have hal := hA.valid a ha
    have hbl := hB.valid b hb
    have h1 := hA.best a ha b hba _ _ (List.getElem?_eq_getElem hal) (List.getElem?_eq_getElem hbl)
    have h2 := hB.best b hb a hnb _ _ (List.getElem?_eq_getElem hbl) (List.getElem?_eq_getElem hal)
    exact h1.asymm h2
  intro i
  exact ⟨key A B hA hB i, key B A hB hA i⟩

end stable
end SelProt
