/-
Helper lemmas for C19 (distance part): the model's `distSq` is the Spec's `geoDistSq`, the
tolerance test is reflexive, and the Spec accepts the geometric definition itself.
-/
import PybropsModel.Lemmas.ParetoGeo
set_option autoImplicit false
set_option linter.unusedSectionVars false

namespace C19
open Pareto

section spec
variable {α : Type} [Field α] [LinearOrder α] [IsStrictOrderedRing α]

theorem distSq_eq_geoDistSq (l q : List α) : distSq l q = geoDistSq l q := by
  unfold distSq geoDistSq Np.dot
  simp only []
  rw [List.zipWith_self, List.map_zipWith]
  congr 1
  have : (1:α) / Np.sum (List.zipWith (· * ·) l l) * Np.sum (List.zipWith (· * ·) q l) =
      Np.sum (List.zipWith (· * ·) q l) / Np.sum (List.zipWith (· * ·) l l) := by
    rw [one_div, inv_mul_eq_div]
  rw [this]

theorem closeTol_refl (rel abs_ a : α) : closeTol rel abs_ a a = true := by
  simp [closeTol]

theorem spec_zip_self (rel abs_ : α) (w : List α) :
    (List.zip (w.map some) w).all (fun p => match p.1 with
      | some x => closeTol rel abs_ x p.2
      | none => false) = true := by
  induction w with
  | nil => rfl
  | cons x w ih =>
    simp only [List.map_cons, List.zip_cons_cons, List.all_cons, closeTol_refl, Bool.true_and]
    exact ih

/-- the Spec accepts the geometric definition (every value finite, one per point, equal) -/
theorem specDist_geoDist (rel abs_ : α) (mat : List (List α)) (sign line : List α) :
    specDist rel abs_ mat sign line ((geoDist mat sign line).map some) = true := by
  unfold specDist
  simp only [Bool.and_eq_true]
  refine ⟨⟨?_, ?_⟩, spec_zip_self rel abs_ _⟩
  · simp [List.all_eq_true]
  · simp

/-- the Spec rejects a NaN / missing distance -/
theorem specDist_none (rel abs_ : α) (mat : List (List α)) (sign line : List α) (d2 : List (Option α))
    (h : none ∈ d2) : specDist rel abs_ mat sign line d2 = false := by
  unfold specDist
  have : d2.all Option.isSome = false := by
    rw [List.all_eq_false]
    exact ⟨none, h, by simp⟩
  simp [this]

/-- … and a wrong number of distances -/
theorem specDist_length (rel abs_ : α) (mat : List (List α)) (sign line : List α) (d2 : List (Option α))
    (h : specDist rel abs_ mat sign line d2 = true) : d2.length = mat.length := by
  unfold specDist at h
  simp only [Bool.and_eq_true, beq_iff_eq] at h
  rw [h.1.2]
  simp [geoDist]

end spec
end C19
