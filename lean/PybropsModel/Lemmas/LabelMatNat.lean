/-
Lemmas/LabelMatNat.lean — naturality of the numpy-like list primitives and what follows from it.

A list operation that commutes with `map` (it never looks at the elements) is a *gather*: its result
on any list is read off its result on the index list `range n`.  This is the one fact from which all
"the same edit on the data and on every label array keeps them attached" statements follow.
-/
import PybropsModel.Model.LabelMat
import Mathlib.Tactic

set_option autoImplicit false

namespace LabelMat

/-- the operation commutes with `map` -/
def Natural (f : ListOp) : Prop :=
  ∀ (β γ : Type) (g : β → γ) (l : List β), f γ (l.map g) = (f β l).map g

/-- binary version: self-slices and operand-slices are mapped by the same function -/
def Natural2 (g : ListOp2) : Prop :=
  ∀ (β γ : Type) (h : β → γ) (l v : List β), g γ (l.map h) (v.map h) = (g β l v).map h

/-- the index list an operation produces on a list of length `n` -/
def prov (f : ListOp) (n : Nat) : List Nat := f Nat (List.range n)

def prov2 (g : ListOp2) (n q : Nat) : List Nat := g Nat (List.range n) (List.range' n q)

theorem map_some_eq_range {β : Type} (l : List β) :
    l.map some = (List.range l.length).map (fun i => l[i]?) := by
  apply List.ext_getElem?
  intro i
  by_cases h : i < l.length
  · simp [h]
  · simp [h]

theorem Natural.gather {f : ListOp} (hf : Natural f) {β : Type} (l : List β) :
    (f β l).map some = (prov f l.length).map (fun i => l[i]?) := by
  unfold prov
  rw [← hf, map_some_eq_range, hf]

/-- element `j` of the result is element `prov[j]` of the argument -/
theorem Natural.getElem? {f : ListOp} (hf : Natural f) {β : Type} (l : List β) (j : Nat) :
    (f β l)[j]? = ((prov f l.length)[j]?).bind (fun i => l[i]?) := by
  have h := congrArg (fun L => L[j]?) (hf.gather l)
  simp only [List.getElem?_map] at h
  cases h1 : (f β l)[j]? with
  | none =>
    rw [h1] at h
    cases h2 : (prov f l.length)[j]? with
    | none => rfl
    | some i => rw [h2] at h; simp at h
  | some x =>
    rw [h1] at h
    cases h2 : (prov f l.length)[j]? with
    | none => rw [h2] at h; simp at h
    | some i =>
      rw [h2] at h
      simp only [Option.map_some] at h
      simp only [Option.bind_some]
      exact Option.some.inj h

theorem Natural.length {f : ListOp} (hf : Natural f) {β : Type} (l : List β) :
    (f β l).length = (prov f l.length).length := by
  have h := congrArg List.length (hf.gather l)
  simpa using h

theorem append_map_some {β : Type} (l v : List β) :
    (l ++ v).map some = (List.range l.length ++ List.range' l.length v.length).map (fun i => (l ++ v)[i]?) := by
  have := map_some_eq_range (l ++ v)
  rw [this, List.length_append, List.range_eq_range', List.range_eq_range']
  congr 1
  rw [← List.range'_append_1]
  simp

theorem Natural2.gather {g : ListOp2} (hg : Natural2 g) {β : Type} (l v : List β) :
    (g β l v).map some = (prov2 g l.length v.length).map (fun i => (l ++ v)[i]?) := by
  unfold prov2
  have hl : l.map some = (List.range l.length).map (fun i => (l ++ v)[i]?) := by
    rw [map_some_eq_range]
    apply List.map_congr_left
    intro i hi
    simp only [List.mem_range] at hi
    simp [List.getElem?_append_left hi]
  have hv : v.map some = (List.range' l.length v.length).map (fun i => (l ++ v)[i]?) := by
    apply List.ext_getElem?
    intro i
    by_cases h : i < v.length
    · simp [h]
    · simp [h]
  rw [← hg, hl, hv, hg]

theorem Natural2.getElem? {g : ListOp2} (hg : Natural2 g) {β : Type} (l v : List β) (j : Nat) :
    (g β l v)[j]? = ((prov2 g l.length v.length)[j]?).bind (fun i => (l ++ v)[i]?) := by
  have h := congrArg (fun L => L[j]?) (hg.gather l v)
  simp only [List.getElem?_map] at h
  cases h1 : (g β l v)[j]? with
  | none =>
    rw [h1] at h
    cases h2 : (prov2 g l.length v.length)[j]? with
    | none => rfl
    | some i => rw [h2] at h; simp at h
  | some x =>
    rw [h1] at h
    cases h2 : (prov2 g l.length v.length)[j]? with
    | none => rw [h2] at h; simp at h
    | some i =>
      rw [h2] at h
      simp only [Option.map_some] at h
      simp only [Option.bind_some]
      exact Option.some.inj h

/-! ### the primitives are natural -/

theorem natural_take (is : List Nat) : Natural (fun _ => Np.take is) := by
  intro β γ g l
  simp only [Np.take]
  rw [List.map_filterMap]
  congr 1
  funext i
  simp [List.getElem?_map]

theorem natural_delete (is : List Nat) : Natural (fun _ => Np.delete is) := by
  intro β γ g l
  simp only [Np.delete]
  rw [List.zipIdx_map, List.filter_map, List.map_map, List.map_map]
  congr 1

theorem natural2_append : Natural2 (fun _ l v => l ++ v) := by
  intro β γ h l v
  simp

theorem natural2_insert (k : Nat) : Natural2 (fun _ l v => Np.insert k v l) := by
  intro β γ h l v
  simp [Np.insert, List.map_take, List.map_drop]

theorem takeWhile_map_snd {β γ : Type} (h : β → γ) (pos : Nat) (kvs : List (Nat × β)) :
    List.takeWhile (fun kv : Nat × γ => decide (kv.1 ≤ pos)) (kvs.map (fun kv => (kv.1, h kv.2)))
      = (List.takeWhile (fun kv : Nat × β => decide (kv.1 ≤ pos)) kvs).map (fun kv => (kv.1, h kv.2)) := by
  induction kvs with
  | nil => rfl
  | cons kv kvs ih =>
    simp only [List.map_cons, List.takeWhile_cons]
    split <;> simp [ih]

theorem dropWhile_map_snd {β γ : Type} (h : β → γ) (pos : Nat) (kvs : List (Nat × β)) :
    List.dropWhile (fun kv : Nat × γ => decide (kv.1 ≤ pos)) (kvs.map (fun kv => (kv.1, h kv.2)))
      = (List.dropWhile (fun kv : Nat × β => decide (kv.1 ≤ pos)) kvs).map (fun kv => (kv.1, h kv.2)) := by
  induction kvs with
  | nil => rfl
  | cons kv kvs ih =>
    simp only [List.map_cons, List.dropWhile_cons]
    split
    · exact ih
    · rfl

theorem insertManyAux_map {β γ : Type} (h : β → γ) (pos : Nat) (kvs : List (Nat × β)) (l : List β) :
    insertManyAux pos (kvs.map (fun kv => (kv.1, h kv.2))) (l.map h) = (insertManyAux pos kvs l).map h := by
  induction l generalizing pos kvs with
  | nil => simp [insertManyAux, List.map_map]
  | cons x xs ih =>
    simp only [List.map_cons, insertManyAux, List.map_append]
    rw [takeWhile_map_snd, dropWhile_map_snd, ih]
    simp [List.map_map]

theorem natural2_insertMany (ks : List Nat) : Natural2 (fun _ l v => insertMany ks v l) := by
  intro β γ h l v
  simp only [insertMany]
  have : List.zip ks (v.map h) = (List.zip ks v).map (fun kv => (kv.1, h kv.2)) := by
    rw [List.zip_map_right]
    apply List.map_congr_left
    intro a _
    rfl
  rw [this, insertManyAux_map]

theorem natural2_insertManyRep (ks : List Nat) :
    Natural2 (fun _ l v => insertMany ks (v.flatMap (List.replicate ks.length)) l) := by
  intro β γ h l v
  have e : (v.map h).flatMap (List.replicate ks.length) = (v.flatMap (List.replicate ks.length)).map h := by
    induction v with
    | nil => rfl
    | cons a v ih => simp [List.flatMap_cons, ih]
  show insertMany ks ((v.map h).flatMap (List.replicate ks.length)) (l.map h)
      = (insertMany ks (v.flatMap (List.replicate ks.length)) l).map h
  rw [e]
  exact natural2_insertMany ks β γ h l _

end LabelMat
