/-
Helper lemmas for C02 (round 2): the C02 model and the C01 model (`Model/Meiosis`, `Model/Mating`) speak
about the same loop; row-by-row description of `meiosisE` / `mateE` / `dhE`; the last stage of the
protocols' `generate`.
-/
import PybropsModel.Lemmas.RecombLLN
import PybropsModel.Lemmas.MatingStages
import PybropsModel.Lemmas.MatingSpec
set_option autoImplicit false
set_option linter.unusedSectionVars false

namespace Recomb
open Meiosis Mating

section unify
variable {α ρ : Type} [LT ρ] [DecidableLT ρ]

theorem segLoop_eq (h0 h1 : List α) (xs : List Nat) : ∀ (k : Nat) (ph : Bool),
    Recomb.segLoop h0 h1 k ph xs = Meiosis.segLoop h0 h1 k ph xs := by
  induction xs with
  | nil => intro k ph; rfl
  | cons sp rest ih => intro k ph; simp only [Recomb.segLoop, Meiosis.segLoop, ih]

theorem xoMask_eq (r xo : List ρ) : Recomb.xoMask r xo = Meiosis.xoMask r xo := by
  induction r generalizing xo with
  | nil => cases xo <;> simp [Recomb.xoMask, Meiosis.xoMask]
  | cons a r ih =>
    cases xo with
    | nil => simp [Recomb.xoMask, Meiosis.xoMask]
    | cons x xo => simp only [Recomb.xoMask, Meiosis.xoMask, List.zipWith_cons_cons, ih xo]

/-- one row: the C02 transcription is the C01 transcription -/
theorem meiosisRow_eq_gameteLoop (ind : Ind α) (r xo : List ρ) :
    meiosisRow ind.1 ind.2 r xo = gameteLoop ind (Meiosis.xoMask r xo) := by
  unfold meiosisRow gameteLoop
  rw [segLoop_eq, xoMask_eq]

theorem xorAll_eq_count (l : List Bool) : xorAll l = (l.count true % 2 == 1) := by
  induction l with
  | nil => rfl
  | cons b l ih =>
    cases b
    · simp only [xorAll, Bool.false_bne, ih, List.count_cons]; simp
    · simp only [xorAll, Bool.true_bne, ih, List.count_cons_self]
      have : l.count true % 2 = 0 ∨ l.count true % 2 = 1 := by omega
      rcases this with h | h <;> simp [h, Nat.add_mod]

/-- the running phase of C02 is C01's `phaseAt` -/
theorem phases_getElem_eq_phaseAt (m : List Bool) (j : Nat) (hj : j < (phases m).length) :
    (phases m)[j] = phaseAt m j := by
  unfold phases at hj ⊢
  rw [phasesFrom_getElem, Bool.false_xor, xorAll_eq_count]
  rfl

theorem perMarker_eq_mosaic (m : List Bool) : ∀ (ph : Bool) (a b : List α),
    perMarker m ph a b = mosaic (phasesFrom ph m) a b := by
  induction m with
  | nil => intro ph a b; cases a <;> cases b <;> simp [perMarker, mosaic, phasesFrom]
  | cons x xs ih =>
    intro ph a b
    cases a with
    | nil => simp [perMarker, mosaic, phasesFrom]
    | cons a0 r0 =>
      cases b with
      | nil => simp [perMarker, mosaic, phasesFrom]
      | cons b0 r1 => simp only [perMarker, mosaic, phasesFrom, ih]

/-- C01's closed form of a gamete is C02's mosaic along the phases -/
theorem gamete_eq_mosaic (ind : Ind α) (m : List Bool) : gamete ind m = mosaic (phases m) ind.1 ind.2 :=
  perMarker_eq_mosaic m false ind.1 ind.2

end unify

section rows
variable {α ρ : Type} [LinearOrder ρ] [Zero ρ]

theorem rowsE_row {pop : Pop α} {xo : List ρ} : ∀ {sel : List Nat} {rnd : DrawMat ρ} {gs : List (Hap α)},
    rowsE pop xo sel rnd = .ok gs → ∀ k (hk : k < sel.length), ∃ ind, pop[sel[k]]? = some ind ∧
      gs[k]? = some (meiosisRow ind.1 ind.2 (rnd.getD k []) xo) := by
  intro sel
  induction sel with
  | nil => intro rnd gs _ k hk; simp at hk
  | cons s sel ih =>
    intro rnd gs h k hk
    cases hp : pop[s]? with
    | none => simp [rowsE, hp] at h
    | some ind =>
      cases hr : rowsE pop xo sel rnd.tail with
      | error e => simp [rowsE, hp, hr] at h
      | ok gs' =>
        simp only [rowsE, hp, hr, Except.ok.injEq] at h
        subst h
        cases k with
        | zero =>
          refine ⟨ind, by simpa using hp, ?_⟩
          rw [meiosisRow_eq_gameteLoop]
          cases rnd <;> simp
        | succ k =>
          obtain ⟨i2, h1, h2⟩ := ih hr k (by simpa using hk)
          refine ⟨i2, by simpa using h1, ?_⟩
          cases rnd with
          | nil => simpa using h2
          | cons r0 rt => simpa using h2

theorem meiosisE_row {pop : Pop α} {xo : List ρ} {sel : List Nat} {rnd : DrawMat ρ} {gs : List (Hap α)}
    (h : meiosisE pop sel xo rnd = .ok gs) : gs.length = sel.length ∧
    ∀ k (hk : k < sel.length), ∃ ind, pop[sel[k]]? = some ind ∧
      gs[k]? = some (meiosisRow ind.1 ind.2 (rnd.getD k []) xo) := by
  refine ⟨meiosisE_length h, ?_⟩
  unfold meiosisE at h
  split at h
  · exact rowsE_row h
  · simp at h

/-- `mat_mate` row by row: progeny k = (gamete of female `fsel[k]` under row k of the first draw matrix,
    gamete of male `msel[k]` under row k of the second draw matrix) -/
theorem mateE_row {fpop mpop : Pop α} {fsel msel : List Nat} {xo : List ρ} {rf rm : DrawMat ρ}
    {rest d' : List (DrawMat ρ)} {out : Pop α}
    (h : mateE fpop mpop fsel msel xo (rf :: rm :: rest) = .ok (out, d')) :
    d' = rest ∧ out.length = fsel.length ∧ out.length = msel.length ∧
    ∀ k (hk : k < out.length), ∃ fi mi, fpop[fsel.getD k 0]? = some fi ∧ mpop[msel.getD k 0]? = some mi ∧
      out[k]? = some (meiosisRow fi.1 fi.2 (rf.getD k []) xo, meiosisRow mi.1 mi.2 (rm.getD k []) xo) := by
  obtain ⟨l1, l2⟩ := mateE_length h
  cases h1 : meiosisE fpop fsel xo rf with
  | error e => simp [mateE, h1] at h
  | ok fg =>
    cases h2 : meiosisE mpop msel xo rm with
    | error e => simp [mateE, h1, h2] at h
    | ok mg =>
      simp only [mateE, h1, h2] at h
      split at h
      · simp only [Except.ok.injEq, Prod.mk.injEq] at h
        obtain ⟨rfl, rfl⟩ := h
        refine ⟨rfl, l1, l2, ?_⟩
        intro k hk
        obtain ⟨lf, rf'⟩ := meiosisE_row h1
        obtain ⟨lm, rm'⟩ := meiosisE_row h2
        obtain ⟨fi, hf1, hf2⟩ := rf' k (by omega)
        obtain ⟨mi, hm1, hm2⟩ := rm' k (by omega)
        refine ⟨fi, mi, ?_, ?_, ?_⟩
        · have e : fsel.getD k 0 = fsel[k]'(by omega) := by simp [List.getD_eq_getElem?_getD, (by omega : k < fsel.length)]
          rw [e]; exact hf1
        · have e : msel.getD k 0 = msel[k]'(by omega) := by simp [List.getD_eq_getElem?_getD, (by omega : k < msel.length)]
          rw [e]; exact hm1
        · rw [List.getElem?_zip_eq_some]
          exact ⟨hf2, hm2⟩
      · simp at h

/-- `mat_dh` row by row: progeny k = the gamete of individual `sel[k]` under row k of the draw matrix, twice -/
theorem dhE_row {pop : Pop α} {sel : List Nat} {xo : List ρ} {r : DrawMat ρ}
    {rest d' : List (DrawMat ρ)} {out : Pop α} (h : dhE pop sel xo (r :: rest) = .ok (out, d')) :
    d' = rest ∧ out.length = sel.length ∧
    ∀ k (hk : k < out.length), ∃ ind, pop[sel.getD k 0]? = some ind ∧
      out[k]? = some (meiosisRow ind.1 ind.2 (r.getD k []) xo, meiosisRow ind.1 ind.2 (r.getD k []) xo) := by
  have l := dhE_length h
  cases h1 : meiosisE pop sel xo r with
  | error e => simp [dhE, h1] at h
  | ok g =>
    simp only [dhE, h1, Except.ok.injEq, Prod.mk.injEq] at h
    obtain ⟨rfl, rfl⟩ := h
    refine ⟨rfl, l, ?_⟩
    intro k hk
    obtain ⟨lg, rg⟩ := meiosisE_row h1
    obtain ⟨ind, hi1, hi2⟩ := rg k (by omega)
    refine ⟨ind, ?_, ?_⟩
    · have e : sel.getD k 0 = sel[k]'(by omega) := by simp [List.getD_eq_getElem?_getD, (by omega : k < sel.length)]
      rw [e]; exact hi1
    · rw [List.getElem?_map, hi2]; rfl

end rows

section stages
variable {α ρ : Type} [LinearOrder ρ] [Zero ρ]

theorem selfLoop_zero (xo : List ρ) (asel : List Nat) (pop : Pop α) (d : List (DrawMat ρ)) :
    selfLoop xo asel 0 pop d = .ok (pop, d) := rfl

/-- two-way cross without selfing: `generate` is the single `mat_mate` of the repeated parents -/
theorem generate_twoWay_zero (pop : Pop α) (xc : List (List Nat)) (nm np : List Nat) (xo : List ρ)
    (d : List (DrawMat ρ)) :
    generate .twoWay pop xc nm np 0 xo d =
      mateE pop pop (Np.repeatEach (List.zipWith (· * ·) nm np) (col xc 0))
        (Np.repeatEach (List.zipWith (· * ·) nm np) (col xc 1)) xo d := by
  simp only [generate]
  cases mateE pop pop (Np.repeatEach (List.zipWith (· * ·) nm np) (col xc 0))
      (Np.repeatEach (List.zipWith (· * ·) nm np) (col xc 1)) xo d with
  | error e => rfl
  | ok r => rfl

theorem generate_self_zero (pop : Pop α) (xc : List (List Nat)) (nm np : List Nat) (xo : List ρ)
    (d : List (DrawMat ρ)) :
    generate .self pop xc nm np 0 xo d =
      mateE pop pop (Np.repeatEach (List.zipWith (· * ·) nm np) (col xc 0))
        (Np.repeatEach (List.zipWith (· * ·) nm np) (col xc 0)) xo d := by
  simp only [generate]
  cases mateE pop pop (Np.repeatEach (List.zipWith (· * ·) nm np) (col xc 0))
      (Np.repeatEach (List.zipWith (· * ·) nm np) (col xc 0)) xo d with
  | error e => rfl
  | ok r => rfl

/-- every doubled-haploid protocol, whatever the number of selfing generations, ends with one `mat_dh`
    on an intermediate population, with each intermediate individual repeated `nprogeny` times -/
theorem generate_dh_last (P : Proto) (hP : P.isDH = true) (pop : Pop α) (xc : List (List Nat))
    (nm np : List Nat) (nself : Nat) (xo : List ρ) (d : List (DrawMat ρ)) (prog : Pop α)
    (rest : List (DrawMat ρ)) (h : generate P pop xc nm np nself xo d = .ok (prog, rest)) :
    ∃ (inter : Pop α) (d1 : List (DrawMat ρ)),
      dhE inter (Np.repeatEach (Np.repeatEach nm np) (Np.arange 0 inter.length)) xo d1 = .ok (prog, rest) := by
  cases P <;> simp only [Proto.isDH, Bool.false_eq_true] at hP
  · -- twoWayDH
    simp only [generate] at h
    split at h
    · cases h
    · split at h
      · cases h
      · exact ⟨_, _, h⟩
  · -- threeWayDH
    simp only [generate] at h
    split at h
    · cases h
    · split at h
      · cases h
      · split at h
        · cases h
        · exact ⟨_, _, h⟩
  · -- fourWayDH
    simp only [generate] at h
    split at h
    · cases h
    · split at h
      · cases h
      · split at h
        · cases h
        · split at h
          · cases h
          · exact ⟨_, _, h⟩

/-- two-way DH without selfing: the intermediate population is the `mat_mate` of the parents -/
theorem generate_twoWayDH_zero (pop : Pop α) (xc : List (List Nat)) (nm np : List Nat) (xo : List ρ)
    (d : List (DrawMat ρ)) (prog : Pop α) (rest : List (DrawMat ρ))
    (h : generate .twoWayDH pop xc nm np 0 xo d = .ok (prog, rest)) :
    ∃ (hyb : Pop α) (d1 : List (DrawMat ρ)),
      mateE pop pop (Np.repeatEach nm (col xc 0)) (Np.repeatEach nm (col xc 1)) xo d = .ok (hyb, d1) ∧
      dhE hyb (Np.repeatEach (Np.repeatEach nm np) (Np.arange 0 hyb.length)) xo d1 = .ok (prog, rest) := by
  simp only [generate] at h
  split at h
  · cases h
  · rename_i hy d1 hm
    simp only [selfLoop] at h
    exact ⟨hy, d1, hm, h⟩

end stages

section materows
variable {α ρ : Type} [LinearOrder ρ] [Zero ρ]

/-- every row of the output of `mate()` is a row of the generation order: there is a generation index k
    with the row's name `prefix + zfill7(pc + k)` and the row's individual = progeny k of `generate` -/
theorem mate_row_index {P : Proto} {pop : Pop α} {xc : List (List Nat)} {nmating nprogeny : Cnt} {nself : Nat}
    {xo : List ρ} {pc fc : Nat} {draws : List (DrawMat ρ)} {out : Out α}
    (h : mate P pop xc nmating nprogeny nself xo pc fc draws = .ok out) :
    ∃ nm np prog, nmating.expand xc.length = .ok nm ∧ nprogeny.expand xc.length = .ok np ∧
      generate P pop xc nm np nself xo draws = .ok (prog, []) ∧ out.rows.length = prog.length ∧
      ∀ r ∈ out.rows, ∃ k, ∃ (hk : k < prog.length), r.ind = prog[k] ∧ r.name = name P.pre (pc + k) := by
  obtain ⟨nm, np, prog, _, hnm, hnp, hgen, hfl, hrows, _, _⟩ := mate_inv h
  refine ⟨nm, np, prog, hnm, hnp, hgen, ?_, ?_⟩
  · rw [hrows, (groupTaxa_perm _).length_eq, genRows_length _ _ _ _ hfl]
  · intro r hr
    rw [hrows] at hr
    have hr' := (groupTaxa_perm _).mem_iff.mp hr
    obtain ⟨k, hk, rfl⟩ := List.mem_iff_getElem.mp hr'
    have hk' : k < prog.length := by rwa [genRows_length _ _ _ _ hfl] at hk
    refine ⟨k, hk', ?_, ?_⟩ <;> rw [genRows_getElem _ _ _ _ hfl]

end materows

section masks
variable {ρ : Type} [LT ρ] [DecidableLT ρ]

/-- the mask of two gametes' draws laid side by side is the two masks side by side -/
theorem xoMask_append (a b xo ys : List ρ) (h : a.length = xo.length) :
    xoMask (a ++ b) (xo ++ ys) = xoMask a xo ++ xoMask b ys := by
  induction a generalizing xo with
  | nil => cases xo with
    | nil => rfl
    | cons _ _ => simp at h
  | cons x a ih =>
    cases xo with
    | nil => simp at h
    | cons y xo => simp only [List.cons_append, xoMask, ih xo (by simpa using h)]

end masks

end Recomb
