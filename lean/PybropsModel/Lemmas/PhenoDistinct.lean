/-
Helper lemmas for C14, part 11: independent draws from an atomless law are almost surely pairwise distinct — in
particular the coordinates of the product measure `N(0, v)^ℕ`, `v ≠ 0`.  This is the probabilistic half of the
harness' `noise structure` oracle (a component with POSITIVE variance shows in the records: no two records / cells /
environments share the same effect).
-/
import Mathlib.MeasureTheory.Measure.Prod
import PybropsModel.Lemmas.PhenoLLN
set_option autoImplicit false
set_option linter.unusedSectionVars false

namespace Pheno
open MeasureTheory ProbabilityTheory

/-- the diagonal is a null set of the product of a measure with an atomless probability measure -/
theorem prod_diagonal_null (μ ν : Measure ℝ) [SFinite ν] [NullSingletonClass ν] :
    (μ.prod ν) (Set.diagonal ℝ) = 0 := by
  rw [Measure.prod_apply measurableSet_diagonal]
  have : ∀ x : ℝ, ν (Prod.mk x ⁻¹' Set.diagonal ℝ) = 0 := by
    intro x
    have hs : Prod.mk x ⁻¹' Set.diagonal ℝ = {x} := by
      ext y
      simp [Set.mem_diagonal_iff, eq_comm]
    rw [hs]
    exact measure_singleton x
  simp [this]

section
variable {Ω : Type} [MeasurableSpace Ω] {P : Measure Ω} [IsProbabilityMeasure P]

/-- two independent real variates, the second with an atomless law, are almost surely different -/
theorem indep_ae_ne (X Y : Ω → ℝ) (hX : Measurable X) (hY : Measurable Y) (hind : X ⟂ᵢ[P] Y)
    [NullSingletonClass (P.map Y)] : ∀ᵐ ω ∂P, X ω ≠ Y ω := by
  have hmap := hind.map_prod_eq_prod_map_map hX.aemeasurable hY.aemeasurable
  have hnull : P ((fun ω => (X ω, Y ω)) ⁻¹' Set.diagonal ℝ) = 0 := by
    rw [← Measure.map_apply (hX.prodMk hY) measurableSet_diagonal, hmap]
    exact prod_diagonal_null _ _
  rw [ae_iff]
  convert hnull using 2
  ext ω
  simp [Set.mem_diagonal_iff]

end

/-- **Draws with positive variance are pairwise distinct.**  For almost every stream of independent `N(0, v)` variates,
    `v ≠ 0`, no two draws coincide. -/
theorem gaussian_draws_pairwise_distinct (v : NNReal) (hv : v ≠ 0) :
    ∀ᵐ ω ∂(Measure.infinitePi (fun _ : ℕ => gaussianReal 0 v)), ∀ i j : ℕ, i ≠ j → coord i ω ≠ coord j ω := by
  have hmp : ∀ i, MeasurePreserving (fun ω : ℕ → ℝ => ω i) (Measure.infinitePi (fun _ : ℕ => gaussianReal 0 v))
      (gaussianReal 0 v) := fun i => measurePreserving_eval_infinitePi (fun _ : ℕ => gaussianReal 0 v) i
  have hind : iIndepFun coord (Measure.infinitePi (fun _ : ℕ => gaussianReal 0 v)) :=
    iIndepFun_infinitePi (P := fun _ : ℕ => gaussianReal 0 v) (X := fun _ => (id : ℝ → ℝ)) (fun _ => measurable_id)
  rw [ae_all_iff]
  intro i
  rw [ae_all_iff]
  intro j
  by_cases hij : i = j
  · exact Filter.Eventually.of_forall (fun ω h => absurd hij h)
  · have hmapj : (Measure.infinitePi (fun _ : ℕ => gaussianReal 0 v)).map (coord j) = gaussianReal 0 v := (hmp j).map_eq
    have : NullSingletonClass ((Measure.infinitePi (fun _ : ℕ => gaussianReal 0 v)).map (coord j)) := by
      rw [hmapj]
      exact nullSingletonClass_gaussianReal hv
    have := indep_ae_ne (P := Measure.infinitePi (fun _ : ℕ => gaussianReal 0 v)) (coord i) (coord j)
      (hmp i).measurable (hmp j).measurable (hind.indepFun hij)
    filter_upwards [this] with ω hω _
    exact hω

end Pheno
