/-
Helper lemmas for C04: entry-wise (index) form of the prediction matrices, and naturality of the
phase sum in the taxa axis.
-/
import PybropsModel.Lemmas.GenomicLin
import PybropsModel.Lemmas.RidgeEnergy
set_option autoImplicit false
set_option linter.unusedSectionVars false
set_option linter.unusedSimpArgs false
set_option linter.unusedVariables false

namespace GEnt
open Finset BigOperators GMod GLin GSList

/-! ### `Np.take` and `zipWith` -/

theorem take_zipWith {β γ δ : Type} (f : β → γ → δ) (is : List ℕ) (a : List β) (b : List γ)
    (ha : ∀ i ∈ is, i < a.length) (hb : ∀ i ∈ is, i < b.length) :
    Np.take is (List.zipWith f a b) = List.zipWith f (Np.take is a) (Np.take is b) := by
  apply List.ext_getElem?
  intro k
  have hz : ∀ i ∈ is, i < (List.zipWith f a b).length := by
    intro i hi; simp; exact ⟨ha i hi, hb i hi⟩
  by_cases hk : k < is.length
  · rw [take_getElem? is _ hz k hk, List.getElem?_zipWith, List.getElem?_zipWith,
        take_getElem? is _ ha k hk, take_getElem? is _ hb k hk]
  · have h1 := take_length_of_lt is a ha
    have h2 := take_length_of_lt is b hb
    have h3 := take_length_of_lt is _ hz
    rw [List.getElem?_eq_none (by rw [h3]; omega), List.getElem?_eq_none (by simp [h1, h2]; omega)]

theorem iadd_length (A B : List (List Int)) : (iadd A B).length = min A.length B.length := by
  simp [iadd]

theorem iadd_take (is : List ℕ) (A B : List (List Int)) (ha : ∀ i ∈ is, i < A.length)
    (hb : ∀ i ∈ is, i < B.length) : Np.take is (iadd A B) = iadd (Np.take is A) (Np.take is B) :=
  take_zipWith _ is A B ha hb

theorem foldl_iadd_take (is : List ℕ) (n : ℕ) (his : ∀ i ∈ is, i < n) (gs : List (List (List Int)))
    (acc : List (List Int)) (hacc : acc.length = n) (hgs : ∀ g ∈ gs, g.length = n) :
    (gs.map (Np.take is)).foldl iadd (Np.take is acc) = Np.take is (gs.foldl iadd acc) := by
  induction gs generalizing acc with
  | nil => rfl
  | cons g gs ih =>
    have hg : g.length = n := hgs g (by simp)
    simp only [List.map_cons, List.foldl_cons]
    rw [← iadd_take is acc g (by rw [hacc]; exact his) (by rw [hg]; exact his)]
    exact ih (iadd acc g) (by rw [iadd_length, hacc, hg, min_self]) (fun g' hg' => hgs g' (by simp [hg']))

/-- reordering / selecting taxa in every phase = reordering / selecting rows of the dosage matrix -/
theorem phaseSum_take (is : List ℕ) (n : ℕ) (his : ∀ i ∈ is, i < n) (g : List (List (List Int)))
    (hg : ∀ ph ∈ g, ph.length = n) :
    phaseSum (g.map (Np.take is)) = Np.take is (phaseSum g) := by
  cases g with
  | nil => simp [phaseSum, Np.take]
  | cons g0 gs =>
    simp only [List.map_cons, phaseSum]
    exact foldl_iadd_take is n his gs g0 (hg g0 (by simp)) (fun g' hg' => hg g' (by simp [hg']))

/-! ### entries -/

section entries
variable {α : Type} [Field α] [LinearOrder α] [IsStrictOrderedRing α]

theorem matFn_castM (A : List (List Int)) (i j : ℕ) :
    matFn (castM A : List (List α)) i j = (((A.getD i []).getD j 0 : Int) : α) := by
  unfold matFn castM
  by_cases hi : i < A.length
  · simp only [List.getD_eq_getElem?_getD, List.getElem?_map, List.getElem?_eq_getElem hi, Option.map_some,
      Option.getD_some]
    by_cases hj : j < (A[i]).length
    · simp [List.getElem?_eq_getElem hj]
    · simp [List.getElem?_eq_none, Nat.le_of_not_lt hj]
  · simp [List.getD_eq_getElem?_getD, List.getElem?_eq_none, Nat.le_of_not_lt hi]

theorem castM_length (A : List (List Int)) : (castM A : List (List α)).length = A.length := by simp [castM]

theorem castM_row_length (A : List (List Int)) (i : ℕ) :
    ((castM A : List (List α)).getD i []).length = (A.getD i []).length := by
  unfold castM
  by_cases hi : i < A.length
  · simp [List.getD_eq_getElem?_getD, List.getElem?_map, List.getElem?_eq_getElem hi]
  · simp [List.getD_eq_getElem?_getD, List.getElem?_eq_none, Nat.le_of_not_lt hi]

/-- the intercept of trait k: `Xstar @ beta`, `Xstar = [1, 1/q, …, 1/q]` -/
def intercept (beta : List (List α)) (k : ℕ) : α :=
  ∑ r ∈ range beta.length, (if r = 0 then 1 else 1 / (beta.length : α)) * matFn beta r k

theorem location_entry (beta : List (List α)) (t k : ℕ) (hk : k < t) :
    (location beta t).getD k 0 = intercept beta k := by
  unfold location intercept
  simp only [List.getD_eq_getElem?_getD, List.getElem?_map, List.getElem?_range hk, Option.map_some,
    Option.getD_some]
  rw [dot_eq_sum (xstar beta.length) (col beta k) beta.length (by simp [xstar]) (by simp [col])]
  apply Finset.sum_congr rfl
  intro r hr
  have hr' : r < beta.length := Finset.mem_range.mp hr
  congr 1
  · simp [vecFn, xstar, List.getD_eq_getElem?_getD, List.getElem?_map, List.getElem?_range hr']
  · exact Ridge.vecFn_col beta r k hr'

/-- intercept written out: first fixed effect plus the mean-weighted remaining ones -/
theorem intercept_eq (beta : List (List α)) (k : ℕ) (hq : 0 < beta.length) :
    intercept beta k
      = matFn beta 0 k + (∑ r ∈ range (beta.length - 1), matFn beta (r+1) k) / (beta.length : α) := by
  unfold intercept
  obtain ⟨q, hq'⟩ : ∃ q, beta.length = q + 1 := ⟨beta.length - 1, by omega⟩
  rw [hq', Finset.sum_range_succ']
  simp only [Nat.add_sub_cancel, if_true, one_mul, Nat.succ_ne_zero, if_false]
  rw [add_comm, Finset.sum_div]
  congr 1
  apply Finset.sum_congr rfl
  intro r _
  ring

theorem matMul_entry_sum (Z U : List (List α)) (t i k p : ℕ) (hi : i < Z.length) (hk : k < t)
    (hrow : (Z.getD i []).length = p) (hU : U.length = p) :
    matFn (matMul Z U t) i k = ∑ j ∈ range p, matFn Z i j * matFn U j k := by
  unfold matFn
  rw [matMul_entry Z U t i k hi hk, dot_eq_sum _ _ p hrow (by rw [GLin.col_length, hU])]
  apply Finset.sum_congr rfl
  intro j hj
  rw [Ridge.vecFn_col U j k (by rw [hU]; exact Finset.mem_range.mp hj)]
  rfl

/-- **GEBV entry**: intercept + Σ_j dosage_ij · effect_jk -/
theorem gebvMat_entry (beta u Z : List (List α)) (t i k p : ℕ) (hi : i < Z.length) (hk : k < t)
    (hrow : (Z.getD i []).length = p) (hU : u.length = p) :
    matFn (gebvMat beta u Z t) i k = intercept beta k + ∑ j ∈ range p, matFn Z i j * matFn u j k := by
  have hm := matMul_entry_sum Z u t i k p hi hk hrow hU
  unfold gebvMat
  have hi' : i < (matMul Z u t).length := by rw [GLin.matMul_length]; exact hi
  have hrl : ((matMul Z u t)[i]).length = t := GLin.matMul_row_length Z u t _ (List.getElem_mem hi')
  have hll : (location beta t).length = t := by simp [location]
  unfold matFn at hm ⊢
  simp only [List.getD_eq_getElem?_getD, List.getElem?_map, List.getElem?_eq_getElem hi', Option.map_some,
    Option.getD_some] at hm ⊢
  unfold vadd
  rw [List.getElem?_zipWith, List.getElem?_eq_getElem (by rw [hrl]; exact hk),
      List.getElem?_eq_getElem (by rw [hll]; exact hk)]
  simp only [Option.map₂_some_some, Option.getD_some]
  rw [List.getElem?_eq_getElem (by rw [hrl]; exact hk)] at hm
  simp only [Option.getD_some] at hm
  rw [hm, ← location_entry beta t k hk]
  simp [List.getD_eq_getElem?_getD, List.getElem?_eq_getElem (show k < (location beta t).length by rw [hll]; exact hk)]
  ring

theorem madd_entry (A B : List (List α)) (i k : ℕ) (hiA : i < A.length) (hiB : i < B.length)
    (hkA : k < (A.getD i []).length) (hkB : k < (B.getD i []).length) :
    matFn (madd A B) i k = matFn A i k + matFn B i k := by
  unfold matFn madd vadd
  have hkA' : k < (A[i]).length := by
    simpa [List.getD_eq_getElem?_getD, List.getElem?_eq_getElem hiA] using hkA
  have hkB' : k < (B[i]).length := by
    simpa [List.getD_eq_getElem?_getD, List.getElem?_eq_getElem hiB] using hkB
  simp [List.getD_eq_getElem?_getD, List.getElem?_zipWith, List.getElem?_eq_getElem hiA,
    List.getElem?_eq_getElem hiB, List.getElem?_eq_getElem hkA', List.getElem?_eq_getElem hkB']

theorem gebvMat_row_length (beta u Z : List (List α)) (t i : ℕ) (hi : i < Z.length) :
    ((gebvMat beta u Z t).getD i []).length = t := by
  unfold gebvMat
  have hi' : i < (matMul Z u t).length := by rw [GLin.matMul_length]; exact hi
  have hrl : ((matMul Z u t)[i]).length = t := GLin.matMul_row_length Z u t _ (List.getElem_mem hi')
  simp [List.getD_eq_getElem?_getD, List.getElem?_map, List.getElem?_eq_getElem hi', vadd, hrl, location]

theorem matMul_row_length' (Z U : List (List α)) (t i : ℕ) (hi : i < Z.length) :
    ((matMul Z U t).getD i []).length = t := by
  have hi' : i < (matMul Z U t).length := by rw [GLin.matMul_length]; exact hi
  rw [List.getD_eq_getElem?_getD, List.getElem?_eq_getElem hi']
  exact GLin.matMul_row_length Z U t _ (List.getElem_mem hi')

theorem hetGM_shape (ploidy : Int) (A : List (List Int)) (i : ℕ) :
    (hetGM ploidy A).length = A.length ∧ ((hetGM ploidy A).getD i []).length = (A.getD i []).length := by
  unfold hetGM
  refine ⟨by simp, ?_⟩
  by_cases hi : i < A.length
  · simp [List.getD_eq_getElem?_getD, List.getElem?_map, List.getElem?_eq_getElem hi]
  · simp [List.getD_eq_getElem?_getD, List.getElem?_eq_none, Nat.le_of_not_lt hi]

theorem hetGM_entry (ploidy : Int) (A : List (List Int)) (i j : ℕ) (hi : i < A.length)
    (hj : j < (A.getD i []).length) :
    ((hetGM ploidy A).getD i []).getD j 0
      = if (A.getD i []).getD j 0 ≠ 0 ∧ (A.getD i []).getD j 0 ≠ ploidy then 1 else 0 := by
  unfold hetGM
  have hj' : j < (A[i]).length := by
    simpa [List.getD_eq_getElem?_getD, List.getElem?_eq_getElem hi] using hj
  simp [List.getD_eq_getElem?_getD, List.getElem?_map, List.getElem?_eq_getElem hi,
    List.getElem?_eq_getElem hj']

end entries

end GEnt
