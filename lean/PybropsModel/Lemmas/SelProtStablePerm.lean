/-
Helper lemmas for C07 (round 3): permutation equivariance of the sorting optimiser WITH ties, under the
weakest hypothesis that makes it true — the permutation keeps tied candidates in their relative order.
-/
import Mathlib.Tactic
import PybropsModel.Lemmas.SelProtStable
import PybropsModel.Lemmas.SelProtEquiv
set_option autoImplicit false
set_option linter.unusedSectionVars false

namespace SelProt
open XConfig

section stableperm
variable {α : Type} [LinearOrder α]

/-- `pi` keeps candidates with EQUAL criterion values in their relative order -/
def TieMonotone (obj : List α) (pi : List Nat) : Prop :=
  ∀ (i j : Nat) (hi : i < pi.length) (hj : j < pi.length) (a : α),
    i < j → obj[pi[i]]? = some a → obj[pi[j]]? = some a → pi[i] < pi[j]

/-- the image under a tie-monotone permutation of a stable top-k set of the permuted list is a stable
    top-k set of the original list -/
theorem image_stableTopK (obj : List α) (k : Nat) (pi : List Nat) (hpi : pi.Perm (List.range obj.length))
    (hmono : TieMonotone obj pi)
    (S' : List Nat) (h : StableTopK (Np.take pi obj) k S') :
    StableTopK obj k (S'.map (fun i => pi.getD i 0)) := by
  have ht := image_topK obj k pi hpi S' h.topK
  have hall : ∀ j ∈ pi, j < obj.length := fun j hj => List.mem_range.mp (hpi.mem_iff.mp hj)
  have hlen : pi.length = obj.length := by rw [hpi.length_eq, List.length_range]
  have hl : (Np.take pi obj).length = obj.length := by rw [length_take obj pi hall, hlen]
  refine ⟨ht.len, ht.nodup, ht.valid, ?_⟩
  intro t htm j hj a b ha hb
  obtain ⟨i, hi, rfl⟩ := List.mem_map.mp htm
  have hil : i < obj.length := by rw [← hl]; exact h.valid i hi
  have hi' : i < pi.length := by rw [hlen]; exact hil
  have ei : pi.getD i 0 = pi[i] := by simp [List.getD_eq_getElem?_getD, List.getElem?_eq_getElem hi']
  have hjl : j < obj.length := by
    by_contra hn
    rw [List.getElem?_eq_none (Nat.le_of_not_lt hn)] at hb
    cases hb
  have hjm : j ∈ pi := hpi.mem_iff.mpr (List.mem_range.mpr hjl)
  obtain ⟨j', hj', ej⟩ := List.mem_iff_getElem.mp hjm
  have hj'l : j' < obj.length := by rw [← hlen]; exact hj'
  have ej' : pi.getD j' 0 = j := by simp [List.getD_eq_getElem?_getD, List.getElem?_eq_getElem hj', ej]
  have hj'S : j' ∉ S' := by
    intro hm
    exact hj (List.mem_map.mpr ⟨j', hm, ej'⟩)
  have e1 := getElem?_take_perm obj pi hpi i hil
  have e2 := getElem?_take_perm obj pi hpi j' hj'l
  rw [ej'] at e2
  have hlex := h.best i hi j' hj'S a b (by rw [e1]; exact ha) (by rw [e2]; exact hb)
  rcases hlex with hlt | ⟨heq, hij⟩
  · exact Or.inl hlt
  · refine Or.inr ⟨heq, ?_⟩
    simp only at heq hij
    rw [ei] at ha ⊢
    subst heq
    have := hmono i j' hi' hj' a hij ha (by rw [ej]; exact hb)
    rw [ej] at this
    exact this

end stableperm
end SelProt
