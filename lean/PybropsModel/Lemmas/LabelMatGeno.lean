/-
Lemmas/LabelMatGeno.lean — masked genotyping: the mask is applied by one natural list operation to the
data along the variant axis and to every variant label array.
-/
import PybropsModel.Lemmas.LabelMatOps

set_option autoImplicit false
set_option linter.unusedVariables false

namespace LabelMat

variable {α lab : Type}

theorem natural_compress (mask : List Bool) : Natural (fun _ => Np.compress mask) := by
  intro β γ g l
  simp only [Np.compress]
  rw [List.zip_map_right, List.filterMap_map, List.map_filterMap]
  congr 1
  funext p
  obtain ⟨b, x⟩ := p
  cases b <;> rfl

/-- phased output of the masked protocol: data and labels of the input, filtered by one mask -/
theorem genotype_masked_form [Add α] (sch : Schema) (hax : sch.vrntAx = [2]) (zero : α) (isTrue : lab → Bool)
    (invert : Bool) (s : St α lab) :
    UnaryForm sch .vrnt s (genotype zero isTrue true invert false s) ∨
      ((genotype zero isTrue true invert false s).mat = s.mat ∧
        ∀ kk, ((genotype zero isTrue true invert false s).bundle kk).cols = (s.bundle kk).cols) := by
  unfold genotype
  simp only [if_true, Bool.false_eq_true, if_false]
  cases hm : (s.vrnt.cols[maskCol]?).join with
  | none =>
    right
    refine ⟨rfl, ?_⟩
    intro kk
    cases kk <;> rfl
  | some col =>
    left
    refine ⟨_, natural_compress (col.map (fun x => if invert then !isTrue x else isTrue x)), ?_, ?_⟩
    · simp [applyK, Schema.axes, hax]
    · intro kk
      cases kk <;> simp [applyK, St.bundle, St.setBundle, Bundle.mapCols]

end LabelMat
