/-
Lemmas/LabelMatGeno.lean — masked genotyping: the mask is applied by one natural list operation to the
data along the variant axis and to every variant label array.
-/
import PybropsModel.Lemmas.LabelMatOps
import PybropsModel.Lemmas.LabelMatMask
import PybropsModel.Lemmas.LabelMatFrame

set_option autoImplicit false
set_option linter.unusedVariables false

namespace LabelMat

variable {α lab : Type}

theorem natural_compress (mask : List Bool) : Natural (fun _ => Np.compress mask) := by
  intro β γ g l
  simp only [Np.compress]
  rw [List.zip_map_right, List.filterMap_map, List.map_filterMap]
  congr 1
  funext p
  obtain ⟨b, x⟩ := p
  cases b <;> rfl

/-- phased output of the masked protocol: data and labels of the input, filtered by one mask -/
theorem genotype_masked_form [Add α] (sch : Schema) (hax : sch.vrntAx = [2]) (zero : α) (isTrue : lab → Bool)
    (invert : Bool) (s : St α lab) :
    UnaryForm sch .vrnt s (genotype zero isTrue true invert false s) ∨
      ((genotype zero isTrue true invert false s).mat = s.mat ∧
        ∀ kk, ((genotype zero isTrue true invert false s).bundle kk).cols = (s.bundle kk).cols) := by
  unfold genotype
  simp only [if_true, Bool.false_eq_true, if_false]
  cases hm : (s.vrnt.cols[maskCol]?).join with
  | none =>
    right
    refine ⟨rfl, ?_⟩
    intro kk
    cases kk <;> rfl
  | some col =>
    left
    refine ⟨_, natural_compress (col.map (fun x => if invert then !isTrue x else isTrue x)), ?_, ?_⟩
    · simp [applyK, Schema.axes, hax]
    · intro kk
      cases kk <;> simp [applyK, St.bundle, St.setBundle, Bundle.mapCols]

theorem mem_of_getElem?_join {β : Type} (cs : List (Option β)) (i : Nat) (x : β)
    (h : (cs[i]?).join = some x) : some x ∈ cs := by
  cases hc : cs[i]? with
  | none => rw [hc] at h; cases h
  | some o =>
    rw [hc] at h
    cases o with
    | none => cases h
    | some y =>
      simp only [Option.join_some, Option.some.injEq] at h
      subst h
      exact List.mem_of_getElem? hc

theorem genotype_taxa [Add α] (zero : α) (isTrue : lab → Bool) (masked invert unphase : Bool) (s : St α lab) :
    (genotype zero isTrue masked invert unphase s).taxa = s.taxa := by
  unfold genotype
  simp only []
  cases unphase <;> cases (if masked = true then ((s.vrnt.cols[maskCol]?).join) else none) <;> rfl

theorem genotype_vrnt_none [Add α] (zero : α) (isTrue : lab → Bool) (masked invert unphase : Bool) (s : St α lab)
    (h : (if masked = true then ((s.vrnt.cols[maskCol]?).join) else none) = none) :
    (genotype zero isTrue masked invert unphase s).vrnt = s.vrnt := by
  unfold genotype
  simp only [h]
  cases unphase <;> rfl

theorem genotype_vrnt_some [Add α] (zero : α) (isTrue : lab → Bool) (masked invert unphase : Bool) (s : St α lab)
    (mcol : List lab) (h : (if masked = true then ((s.vrnt.cols[maskCol]?).join) else none) = some mcol) :
    (genotype zero isTrue masked invert unphase s).vrnt =
      { cols := s.vrnt.cols.map (Option.map (Np.compress (mcol.map (fun x => if invert then !isTrue x else isTrue x)))),
        grp := s.vrnt.grp.map (fun g => regroupMasked g (mcol.map (fun x => if invert then !isTrue x else isTrue x))) } := by
  unfold genotype
  simp only [h]
  cases unphase <;> rfl

/-- **The three genotyping protocols keep "reported grouped ⇒ true partition".**  Taxa metadata are copied;
    variant metadata are copied (no mask / unmasked protocol) or recounted from the mask, and the recount is a
    true partition of the masked chromosome-group column. -/
theorem genotype_groupedOK [BEq lab] [Add α] (sch : Schema) (zero : α) (isTrue : lab → Bool)
    (masked invert unphase : Bool) (s : St α lab) (hcons : consistentOK sch s = true)
    (h : groupedOK sch s = true) : groupedOK sch (genotype zero isTrue masked invert unphase s) = true := by
  rw [groupedOK_iff] at h ⊢
  constructor
  · rw [grpOKk_congr sch s _ .taxa (by simp only [St.bundle]; exact genotype_taxa zero isTrue masked invert unphase s)]
    exact h.1
  · cases hmc : (if masked = true then ((s.vrnt.cols[maskCol]?).join) else none) with
    | none =>
      rw [grpOKk_congr sch s _ .vrnt (by simp only [St.bundle]; exact genotype_vrnt_none zero isTrue masked invert unphase s hmc)]
      exact h.2
    | some mcol =>
      have hmask : (s.vrnt.cols[maskCol]?).join = some mcol := by
        cases masked <;> simp at hmc
        exact hmc
      have hvr := genotype_vrnt_some zero isTrue masked invert unphase s mcol hmc
      have hv := h.2
      simp only [grpOKk, St.bundle, Kind.grpCol] at hv ⊢
      rw [hvr]
      cases hax : (sch.axes Kind.vrnt).isEmpty with
      | true => simp
      | false =>
        rw [hax] at hv
        simp only [Bool.false_or] at hv ⊢
        cases hg : s.vrnt.grp with
        | none => simp
        | some g =>
          rw [hg] at hv
          simp only [Option.map_some] at hv ⊢
          cases hc0 : (s.vrnt.cols[0]?).join with
          | none => rw [hc0] at hv; cases hv
          | some col0 =>
            rw [hc0] at hv
            simp only [] at hv
            have hc0' : ((s.vrnt.cols.map (Option.map (Np.compress
                (mcol.map (fun x => if invert then !isTrue x else isTrue x)))))[0]?).join
                = some (Np.compress (mcol.map (fun x => if invert then !isTrue x else isTrue x)) col0) := by
              simp only [List.getElem?_map]
              cases hh : s.vrnt.cols[0]? with
              | none => rw [hh] at hc0; cases hc0
              | some o =>
                rw [hh] at hc0
                cases o with
                | none => cases hc0
                | some y =>
                  simp only [Option.join_some, Option.some.injEq] at hc0
                  subst hc0
                  rfl
            rw [hc0']
            simp only []
            obtain ⟨a, ha⟩ : ∃ a, a ∈ sch.axes Kind.vrnt := by
              cases hl : sch.axes Kind.vrnt with
              | nil => rw [hl] at hax; simp at hax
              | cons a _ => exact ⟨a, by simp⟩
            have hcl := colsLen_of_consistent hcons .vrnt a ha
            have l1 := hcl mcol (mem_of_getElem?_join _ _ _ hmask)
            have l2 := hcl col0 (mem_of_getElem?_join _ _ _ hc0)
            exact partitionOK_regroupMasked g col0 _ (by rw [List.length_map, l1, l2]) hv

end LabelMat
