/-
Helper lemmas for C12 (3): the exhaustive enumeration `E` is a linear functional; first and second
moments of the alleles of a gamete (`gameteAt` = per-marker form of `mat_meiosis`) in terms of the
products of `1 - 2 x_k` along the chromosome (spike B.1 `E_sprod`, here in index form).
-/
import PybropsModel.Lemmas.VarSums
set_option autoImplicit false

namespace Variance

section linear
variable {α : Type} [CommRing α]

theorem E_add (xs : List α) (F G : List Bool → α) :
    E xs (fun b => F b + G b) = E xs F + E xs G := by
  induction xs generalizing F G with
  | nil => rfl
  | cons x xs ih => simp only [E, ih]; ring

theorem E_const_mul (xs : List α) (c : α) (F : List Bool → α) :
    E xs (fun b => c * F b) = c * E xs F := by
  induction xs generalizing F with
  | nil => rfl
  | cons x xs ih => simp only [E, ih]; ring

theorem E_mul_const (xs : List α) (c : α) (F : List Bool → α) :
    E xs (fun b => F b * c) = E xs F * c := by
  induction xs generalizing F with
  | nil => rfl
  | cons x xs ih => simp only [E, ih]; ring

theorem E_const (xs : List α) (c : α) : E xs (fun _ => c) = c := by
  induction xs with
  | nil => rfl
  | cons x xs ih => simp only [E, ih]; ring

theorem E_sub (xs : List α) (F G : List Bool → α) :
    E xs (fun b => F b - G b) = E xs F - E xs G := by
  induction xs generalizing F G with
  | nil => rfl
  | cons x xs ih => simp only [E, ih]; ring

theorem E_congr (xs : List α) (F G : List Bool → α) (h : ∀ b, F b = G b) : E xs F = E xs G := by
  have : F = G := funext h
  rw [this]

/-- independent meioses: the expectation of a product of functions of different masks factorises -/
theorem E_E_mul (xs ys : List α) (F G : List Bool → α) :
    E xs (fun a => E ys (fun b => F a * G b)) = E xs F * E ys G := by
  simp only [E_const_mul, E_mul_const]

theorem E_sumRange (xs : List α) (lo hi : Nat) (F : Nat → List Bool → α) :
    E xs (fun b => sumRange lo hi (fun k => F k b)) = sumRange lo hi (fun k => E xs (F k)) := by
  simp only [sumRange_eq_finset]
  induction xs generalizing F with
  | nil => rfl
  | cons x xs ih =>
    simp only [E, ih, Finset.mul_sum, ← Finset.sum_add_distrib]

end linear

/-! ### signs, products of `1 - 2x` -/
section signs
variable {α : Type} [CommRing α]

def sgn (b : Bool) : α := if b then -1 else 1

/-- `+1` if the gamete carries phase 0 at marker `j`, `-1` if phase 1 -/
def sgnAt (mask : List Bool) (j : Nat) : α := sgn (phaseAt mask j)

/-- `Π_{k ≤ j} (1 - 2 x_k)` -/
def prodTo : List α → Nat → α
  | [], _ => 1
  | x :: _, 0 => 1 - 2 * x
  | x :: xs, j+1 => (1 - 2 * x) * prodTo xs j

/-- `Π_{min i j < k ≤ max i j} (1 - 2 x_k)`: one minus twice the probability that the gamete carries
    different parental phases at markers `i` and `j` -/
def rho : List α → Nat → Nat → α
  | [], _, _ => 1
  | _ :: _, 0, 0 => 1
  | _ :: xs, 0, j+1 => prodTo xs j
  | _ :: xs, i+1, 0 => prodTo xs i
  | _ :: xs, i+1, j+1 => rho xs i j

theorem sgn_mul_self (b : Bool) : (sgn b : α) * sgn b = 1 := by cases b <;> simp [sgn]

theorem sgn_xor (a b : Bool) : (sgn (xor a b) : α) = sgn a * sgn b := by
  cases a <;> cases b <;> simp [sgn]

theorem sgnAt_nil (j : Nat) : (sgnAt [] j : α) = 1 := by simp [sgnAt, phaseAt, sgn]
theorem sgnAt_cons_zero (b : Bool) (bs : List Bool) : (sgnAt (b :: bs) 0 : α) = sgn b := by
  simp [sgnAt, phaseAt]
theorem sgnAt_cons_succ (b : Bool) (bs : List Bool) (j : Nat) :
    (sgnAt (b :: bs) (j+1) : α) = sgn b * sgnAt bs j := by
  simp [sgnAt, phaseAt, sgn_xor]

/-- first moment of the phase sign -/
theorem E_sgnAt (xs : List α) (j : Nat) : E xs (fun b => sgnAt b j) = prodTo xs j := by
  induction xs generalizing j with
  | nil => simp [E, sgnAt_nil, prodTo]
  | cons x xs ih =>
    cases j with
    | zero => simp only [E, sgnAt_cons_zero, E_const, prodTo, sgn]; simp; ring
    | succ j =>
      simp only [E, sgnAt_cons_succ, E_const_mul, ih, prodTo, sgn]
      simp; ring

/-- second moment of the phase signs (index form of spike B.1 `E_sprod`) -/
theorem E_sgnAt_mul (xs : List α) (i j : Nat) :
    E xs (fun b => sgnAt b i * sgnAt b j) = rho xs i j := by
  induction xs generalizing i j with
  | nil => simp [E, sgnAt_nil, rho]
  | cons x xs ih =>
    cases i with
    | zero =>
      cases j with
      | zero =>
        simp only [E, sgnAt_cons_zero, sgn_mul_self, E_const, rho]; ring
      | succ j =>
        have h : ∀ (c : Bool) (bs : List Bool),
            (sgnAt (c :: bs) 0 : α) * sgnAt (c :: bs) (j+1) = sgnAt bs j := by
          intro c bs
          rw [sgnAt_cons_zero, sgnAt_cons_succ, ← mul_assoc, sgn_mul_self, one_mul]
        simp only [E, h, E_sgnAt, rho]; ring
    | succ i =>
      cases j with
      | zero =>
        have h : ∀ (c : Bool) (bs : List Bool),
            (sgnAt (c :: bs) (i+1) : α) * sgnAt (c :: bs) 0 = sgnAt bs i := by
          intro c bs
          rw [sgnAt_cons_zero, sgnAt_cons_succ, mul_comm, ← mul_assoc, sgn_mul_self, one_mul]
        simp only [E, h, E_sgnAt, rho]; ring
      | succ j =>
        have h : ∀ (c : Bool) (bs : List Bool),
            (sgnAt (c :: bs) (i+1) : α) * sgnAt (c :: bs) (j+1) = sgnAt bs i * sgnAt bs j := by
          intro c bs
          rw [sgnAt_cons_succ, sgnAt_cons_succ]
          calc sgn c * sgnAt bs i * (sgn c * sgnAt bs j)
              = (sgn c * sgn c) * (sgnAt bs i * sgnAt bs j) := by ring
            _ = sgnAt bs i * sgnAt bs j := by rw [sgn_mul_self, one_mul]
        simp only [E, h, ih, rho]; ring

theorem rho_self (xs : List α) (i : Nat) : rho xs i i = 1 := by
  induction xs generalizing i with
  | nil => rfl
  | cons x xs ih => cases i with
    | zero => rfl
    | succ i => exact ih i

theorem rho_symm (xs : List α) (i j : Nat) : rho xs i j = rho xs j i := by
  induction xs generalizing i j with
  | nil => rfl
  | cons x xs ih =>
    cases i <;> cases j <;> simp only [rho]
    exact ih _ _

end signs

end Variance
