/-
Helper lemmas for C07 (3): the `outcross_shuffle` loop — shape and multiset are invariant, the
score never increases, exit means exchange-optimal, enough supplied orders means exit; and the
exchange orders built from `rng.shuffle(exchix)` are valid and complete.
-/
import PybropsModel.Lemmas.XConfigSwap
set_option autoImplicit false

namespace XConfig

def ValidPos (nc np : Nat) (p : Pos) : Prop := p.1 < nc ∧ p.2 < np

def ValidOrder (nc np : Nat) (ord : List (Pos × Pos)) : Prop :=
  ∀ pq ∈ ord, ValidPos nc np pq.1 ∧ ValidPos nc np pq.2

/-- every unordered pair of distinct array positions is tried -/
def CompleteOrder (nc np : Nat) (ord : List (Pos × Pos)) : Prop :=
  ∀ p q, ValidPos nc np p → ValidPos nc np q → p ≠ q → (p, q) ∈ ord ∨ (q, p) ∈ ord

/-- the property's clause: no single exchange of two entries lowers the number of self-pairings -/
def ExchangeOptimal (nc np : Nat) (rows : Rows) : Prop :=
  ∀ p q, ValidPos nc np p → ValidPos nc np q → ¬ selfPairs (swap2 rows p q) < selfPairs rows

theorem mem_allPos (nc np : Nat) (p : Pos) : p ∈ allPos nc np ↔ ValidPos nc np p := by
  obtain ⟨r, c⟩ := p
  simp only [allPos, List.mem_flatMap, List.mem_map, List.mem_range, Prod.mk.injEq, ValidPos]
  constructor
  · rintro ⟨r', hr, c', hc, rfl, rfl⟩; exact ⟨hr, hc⟩
  · rintro ⟨hr, hc⟩; exact ⟨r, hr, c, hc, rfl, rfl⟩

theorem localOpt_iff (nc np : Nat) (rows : Rows) : localOpt nc np rows = true ↔ ExchangeOptimal nc np rows := by
  simp only [localOpt, List.all_eq_true, mem_allPos, Bool.not_eq_true', decide_eq_false_iff_not, ExchangeOptimal]
  constructor
  · intro h p q hp hq; exact h p hp q hq
  · intro h p hp q hq; exact h p q hp hq

/-! ### the loop -/

theorem outcross_invariant {nc np : Nat} (orders : List (List (Pos × Pos))) (rows y : Rows)
    (hr : Rect nc np rows) (hv : ∀ ord ∈ orders, ValidOrder nc np ord)
    (h : outcross orders rows = some y) :
    Rect nc np y ∧ y.flatten.Perm rows.flatten ∧ selfPairs y ≤ selfPairs rows := by
  induction orders generalizing rows with
  | nil => simp [outcross] at h
  | cons ord rest ih =>
    simp only [outcross] at h
    cases hf : firstImproving rows ord with
    | none =>
      rw [hf] at h
      cases h
      exact ⟨hr, List.Perm.refl _, Nat.le_refl _⟩
    | some pq =>
      rw [hf] at h
      have hmem : pq ∈ ord := List.mem_of_find?_eq_some hf
      have himp := List.find?_some hf
      simp only [decide_eq_true_eq] at himp
      obtain ⟨⟨p1, p2⟩, ⟨q1, q2⟩⟩ := hv ord (by simp) pq hmem
      obtain ⟨a, b, c⟩ := ih (swap2 rows pq.1 pq.2) (rect_swap2 hr _ _)
        (fun o ho => hv o (by simp [ho])) h
      exact ⟨a, b.trans (perm_flatten_swap2 hr _ _ p1 p2 q1 q2), by omega⟩

theorem outcross_exchangeOptimal {nc np : Nat} (orders : List (List (Pos × Pos))) (rows y : Rows)
    (hr : Rect nc np rows) (hv : ∀ ord ∈ orders, ValidOrder nc np ord)
    (hc : ∀ ord ∈ orders, CompleteOrder nc np ord)
    (h : outcross orders rows = some y) : ExchangeOptimal nc np y := by
  induction orders generalizing rows with
  | nil => simp [outcross] at h
  | cons ord rest ih =>
    simp only [outcross] at h
    cases hf : firstImproving rows ord with
    | none =>
      rw [hf] at h
      cases h
      intro p q hp hq
      by_cases e : p = q
      · subst e
        rw [swap2_self hr p hp.1 hp.2]
        exact Nat.lt_irrefl _
      · have hn := List.find?_eq_none.mp hf
        rcases hc ord (by simp) p q hp hq e with hm | hm
        · simpa using hn _ hm
        · have := hn _ hm
          rw [swap2_comm hr p q hp.1 hp.2 hq.1 hq.2]
          simpa using this
    | some pq =>
      rw [hf] at h
      exact ih (swap2 rows pq.1 pq.2) (rect_swap2 hr _ _) (fun o ho => hv o (by simp [ho]))
        (fun o ho => hc o (by simp [ho])) h

/-- termination: the score drops at every accepted exchange, so `selfPairs rows + 1` orders suffice -/
theorem outcross_isSome (orders : List (List (Pos × Pos))) (rows : Rows)
    (h : selfPairs rows < orders.length) : (outcross orders rows).isSome = true := by
  induction orders generalizing rows with
  | nil => simp at h
  | cons ord rest ih =>
    simp only [outcross]
    cases hf : firstImproving rows ord with
    | none => rfl
    | some pq =>
      have himp := List.find?_some hf
      simp only [decide_eq_true_eq] at himp
      exact ih _ (by simp only [List.length_cons] at h; omega)

/-! ### the orders produced by shuffling `exchix` -/

theorem mem_exchPairs (N i j : Nat) : (i, j) ∈ exchPairs N ↔ i < j ∧ j < N := by
  simp only [exchPairs, List.mem_flatMap, List.mem_map, List.mem_range, Prod.mk.injEq]
  constructor
  · rintro ⟨i', hi, d, hd, rfl, rfl⟩; omega
  · rintro ⟨h1, h2⟩; exact ⟨i, by omega, j - (i + 1), by omega, rfl, by omega⟩

/-- oracle validity of the `rng.shuffle(exchix)` draws -/
def ValidPerms (n : Nat) (perms : List (List Nat)) : Prop := ∀ perm ∈ perms, perm.Perm (List.range n)

theorem shuffledPairs_perm (cur : List (Nat × Nat)) (perms : List (List Nat))
    (hv : ValidPerms cur.length perms) : ∀ ord ∈ shuffledPairs cur perms, ord.Perm cur := by
  induction perms generalizing cur with
  | nil => simp [shuffledPairs]
  | cons perm rest ih =>
    intro ord ho
    have hp : (Np.take perm cur).Perm cur := take_perm cur perm (hv perm (by simp))
    simp only [shuffledPairs, List.mem_cons] at ho
    rcases ho with rfl | ho
    · exact hp
    · exact (ih (Np.take perm cur) (by
        rw [hp.length_eq]; intro q hq; exact hv q (by simp [hq])) ord ho).trans hp

theorem posOf_valid (nc np i : Nat) (hnp : 0 < np) (hi : i < nc * np) : ValidPos nc np (posOf np i) :=
  ⟨(Nat.div_lt_iff_lt_mul hnp).mpr hi, Nat.mod_lt _ hnp⟩

theorem posOf_index (np r c : Nat) (hc : c < np) : posOf np (r * np + c) = (r, c) := by
  have hnp : 0 < np := by omega
  unfold posOf
  rw [Nat.mul_comm r np, Nat.mul_add_div hnp, Nat.mul_add_mod, Nat.div_eq_of_lt hc, Nat.mod_eq_of_lt hc]
  simp

theorem index_lt (nc np r c : Nat) (hr : r < nc) (hc : c < np) : r * np + c < nc * np := by
  have : (r + 1) * np ≤ nc * np := Nat.mul_le_mul_right np hr
  rw [Nat.succ_mul] at this
  omega

theorem toPosOrder_valid_complete (nc np : Nat) (hnp : 0 < np) (ord : List (Nat × Nat))
    (hp : ord.Perm (exchPairs (nc * np))) :
    ValidOrder nc np (toPosOrder np ord) ∧ CompleteOrder nc np (toPosOrder np ord) := by
  constructor
  · intro pq hpq
    simp only [toPosOrder, List.mem_map] at hpq
    obtain ⟨⟨i, j⟩, hij, rfl⟩ := hpq
    have := (mem_exchPairs _ i j).mp (hp.mem_iff.mp hij)
    exact ⟨posOf_valid nc np i hnp (by omega), posOf_valid nc np j hnp this.2⟩
  · intro p q hvp hvq hne
    obtain ⟨pr, pc⟩ := p
    obtain ⟨qr, qc⟩ := q
    have hi := index_lt nc np pr pc hvp.1 hvp.2
    have hj := index_lt nc np qr qc hvq.1 hvq.2
    have e1 := posOf_index np pr pc hvp.2
    have e2 := posOf_index np qr qc hvq.2
    have hneq : pr * np + pc ≠ qr * np + qc := by
      intro e
      rw [e] at e1
      rw [e1] at e2
      exact hne e2
    simp only [toPosOrder, List.mem_map]
    rcases Nat.lt_or_gt_of_ne hneq with hlt | hgt
    · left
      exact ⟨(pr * np + pc, qr * np + qc), hp.mem_iff.mpr ((mem_exchPairs _ _ _).mpr ⟨hlt, hj⟩), by simp [e1, e2]⟩
    · right
      exact ⟨(qr * np + qc, pr * np + pc), hp.mem_iff.mpr ((mem_exchPairs _ _ _).mpr ⟨hgt, hi⟩), by simp [e1, e2]⟩

theorem ordersOf_valid_complete (nc np : Nat) (hnp : 0 < np) (perms : List (List Nat))
    (hv : ValidPerms (exchPairs (nc * np)).length perms) :
    ∀ ord ∈ ordersOf np (nc * np) perms, ValidOrder nc np ord ∧ CompleteOrder nc np ord := by
  intro ord ho
  simp only [ordersOf, List.mem_map] at ho
  obtain ⟨o, ho, rfl⟩ := ho
  exact toPosOrder_valid_complete nc np hnp o (shuffledPairs_perm _ perms hv o ho)

theorem length_ordersOf (np N : Nat) (perms : List (List Nat)) : (ordersOf np N perms).length = perms.length := by
  unfold ordersOf
  rw [List.length_map]
  generalize exchPairs N = cur
  induction perms generalizing cur with
  | nil => rfl
  | cons p t ih => simp [shuffledPairs, ih]

end XConfig
