/-
C13 — the cell formulas of the relationship matrices as TRANSLATED FROM THE PYTHON SOURCE
(Generated/PyK_C13.lean, rewritten by harness/py2lean.py on every run) equal the cell functions of the model
(`Coancestry.fmt`, `kinshipAt`, `minInbreedingOf`, `center`, the lambdas inside `molecular` / `vanraden` / `yang`), and the
model's estimators are re-expressed as the matrix products (`mulT`, out of scope of the translation) wrapped in the
translated cell functions.
-/
import Mathlib.Tactic
import PybropsModel.Generated.PyK_C13
import PybropsModel.Lemmas.PyKBase
import PybropsModel.Lemmas.CoancestryBasic
set_option autoImplicit false
set_option linter.unusedSectionVars false
set_option linter.unusedSimpArgs false
set_option linter.unusedTactic false
set_option linter.unreachableTactic false
set_option linter.unnecessarySeqFocus false

namespace PyK.C13
open Coancestry

section field
variable {α : Type} [Field α]

theorem half_eq : (half : α) = 1 / 2 := by unfold half; norm_num

/-! ### kinship = half the coancestry; inbreeding summaries -/
theorem kinship_cell_eq_model (g : α) : kinship_cell g = half * g := by
  simp only [kinship_cell, half_eq] <;> pyk_arith

theorem kinship_cell_eq_kinshipAt (G : List (List α)) (i j : Nat) : kinship_cell (entry G i j) = kinshipAt G i j := by
  rw [kinship_cell_eq_model]; rfl

/-- `mat_asformat(format)`: `format` is "coancestry" xor "kinship" after `check_str_value` -/
theorem mat_asformat_eq_model (g : α) (kin : Bool) : mat_asformat g (!kin) kin = some (fmt kin g) := by
  cases kin <;> simp only [mat_asformat, fmt, half_eq, Bool.not_true, Bool.not_false, Bool.false_eq_true, if_true, if_false] <;> pyk_arith

theorem asFormat_eq_translated (kin : Bool) (G : List (List α)) :
    (asFormat kin G).map (fun r => r.map some) = G.map (fun r => r.map (fun g => mat_asformat g (!kin) kin)) := by
  cases kin <;> simp [asFormat, mapMat, mat_asformat, half_eq, Function.comp_def]

theorem max_inbreeding_eq_model (dmax : α) (kin : Bool) : max_inbreeding dmax kin = fmt kin dmax := by
  cases kin <;> simp only [max_inbreeding, fmt, half_eq, Bool.false_eq_true, if_true, if_false] <;> pyk_arith

theorem min_inbreeding_eq_model (s : α) (kin : Bool) : min_inbreeding s kin = fmt kin (1 / s) := by
  cases kin <;> simp only [min_inbreeding, fmt, half_eq, Bool.false_eq_true, if_true, if_false] <;> pyk_arith

/-- the model's `min_inbreeding` is the translated expression applied to the sum of the inverse -/
theorem minInbreeding_eq_translated [DecidableEq α] (kin : Bool) (G : List (List α)) :
    minInbreeding kin G = (inverse G).map (fun Gi => min_inbreeding (sumAll Gi) kin) := by
  unfold minInbreeding
  congr 1
  funext Gi
  rw [min_inbreeding_eq_model]; rfl

/-! ### molecular coancestry -/
theorem molecular_rnvrnt_eq (m : α) : molecular_rnvrnt m = 1 / m := by simp only [molecular_rnvrnt] <;> pyk_arith
theorem molecular_center_eq (x : α) : molecular_center x = x - 1 := by simp only [molecular_center] <;> pyk_arith
theorem molecular_cell_diploid_eq (r s : α) : molecular_cell_diploid r s = 1 + r * s := by
  simp only [molecular_cell_diploid] <;> pyk_arith
theorem molecular_cell_haploid_eq (r s : α) : molecular_cell_haploid r s = ((1 + 1) * r) * s := by
  simp only [molecular_cell_haploid] <;> pyk_arith

/-- **`DenseMolecularCoancestryMatrix.from_gmat`, diploid**: the model is the translated cell formula on the Gram matrix of
    the translated centring -/
theorem molecular_diploid_eq_translated (m : Nat) (hm : m ≠ 0) (X : List (List α)) :
    molecular 2 m X = .ok (mapMat (molecular_cell_diploid (molecular_rnvrnt (m : α)))
      (mulT (mapMat molecular_center X) (mapMat molecular_center X))) := by
  unfold molecular
  simp only [hm, if_false, OfNat.ofNat_ne_one, if_true]
  have h1 : (fun s : α => 1 + 1 / (m : α) * s) = molecular_cell_diploid (molecular_rnvrnt (m : α)) := by
    funext s; rw [molecular_cell_diploid_eq, molecular_rnvrnt_eq]
  have h2 : (fun x : α => x - 1) = molecular_center := by funext x; rw [molecular_center_eq]
  rw [h1, h2]

theorem molecular_haploid_eq_translated (m : Nat) (hm : m ≠ 0) (X : List (List α)) :
    molecular 1 m X = .ok (mapMat (molecular_cell_haploid (molecular_rnvrnt (m : α)))
      (zipMat (· + ·) (mulT X X) (mulT (mapMat (fun x => 1 - x) X) (mapMat (fun x => 1 - x) X)))) := by
  unfold molecular
  simp only [hm, if_false, if_true]
  congr 1
  unfold mapMat
  congr 1
  funext r
  congr 1
  funext s
  rw [molecular_cell_haploid_eq, molecular_rnvrnt_eq]

/-! ### VanRaden -/
theorem vanraden_center_eq (p ploidy x : α) : vanraden_center p ploidy x = x - p * ploidy := by
  simp only [vanraden_center] <;> pyk_arith

theorem center_eq_translated (ploidy : Nat) (p : List α) (X : List (List α)) :
    center ploidy p X = X.map (fun r => List.zipWith (fun x pk => vanraden_center pk (ploidy : α) x) r p) := by
  unfold center; simp only [vanraden_center_eq]

theorem vanraden_scale_eq (p : List α) (ploidy : α) :
    vanraden_scale p ploidy = 1 / (ploidy * Np.dot p (p.map (fun x => 1 - x))) := by
  simp only [vanraden_scale] <;> pyk_arith

theorem vanraden_cell_eq (g s : α) : vanraden_cell g s = g * s := by simp only [vanraden_cell] <;> pyk_arith

/-- **`DenseVanRadenCoancestryMatrix.from_gmat`**: with a non-zero denominator the model is the translated scale times the
    Gram matrix of the translated centring -/
theorem vanraden_eq_translated [DecidableEq α] (ploidy : Nat) (p : List α) (X : List (List α))
    (hden : (ploidy : α) * Np.dot p (p.map (fun x => 1 - x)) ≠ 0) :
    vanraden ploidy p X = .ok (mapMat (vanraden_cell (vanraden_scale p (ploidy : α)))
      (mulT (center ploidy p X) (center ploidy p X))) := by
  unfold vanraden
  simp only [hden, if_false]
  have h1 : (fun s : α => 1 / ((ploidy : α) * Np.dot p (p.map (fun x => 1 - x))) * s)
      = vanraden_cell (vanraden_scale p (ploidy : α)) := by
    funext s; rw [vanraden_cell_eq, vanraden_scale_eq]
  rw [h1]

/-! ### Yang -/
theorem yang_z_eq [HasSqrt α] (p ploidy x : α) :
    yang_z p ploidy x = (x - p * ploidy) * (1 / HasSqrt.sqrt (ploidy * p * (1 - p))) := by
  simp only [yang_z] <;> pyk_arith

theorem yang_cell_eq (m s : α) : yang_cell m s = (1 / m) * s := by simp only [yang_cell] <;> pyk_arith

/-- the scaled, centred matrix of the model is the translated entry function (entry by entry along a row) -/
theorem yang_row_eq_translated [HasSqrt α] (ploidy : Nat) (p r : List α) :
    List.zipWith (· * ·) (List.zipWith (fun x pk => x - pk * (ploidy : α)) r p)
        ((yangDen ploidy p).map (fun x => 1 / HasSqrt.sqrt x))
      = List.zipWith (fun x pk => yang_z pk (ploidy : α) x) r p := by
  unfold yangDen
  induction r generalizing p with
  | nil => simp
  | cons a t ih =>
    cases p with
    | nil => simp
    | cons b s =>
      have h := ih s
      simp only [yang_z_eq] at h
      simp only [List.map_cons, List.zipWith_cons_cons, yang_z_eq, h]

end field
end PyK.C13
