/-
Helper lemmas for C11: the literal `numpy.unique` loop of `gdist1g` (`gdist1gLit`) writes every cell
exactly as the closed form `gdist1g` says, provided equal chromosome labels are contiguous
(in particular when the label array is sorted).
-/
import PybropsModel.Lemmas.GMapSort
import PybropsModel.Lemmas.GMapDist
set_option autoImplicit false
set_option linter.unusedSectionVars false

namespace GMap

/-! ### contiguous labels -/

/-- equal labels are contiguous: between two occurrences of a label there is only that label -/
def ContigLabels (L : List Int) : Prop :=
  ∀ i j k : Nat, i < j → j < k → ∀ v, L[i]? = some v → L[k]? = some v → L[j]? = some v

/-- the occurrences of `a` in `l` form a prefix of `l` -/
def PrefixClosed (a : Int) (l : List Int) : Prop :=
  ∀ j : Nat, l[j]? = some a → ∀ j' : Nat, j' < j → l[j']? = some a

/-- inductive form of `ContigLabels` -/
def Contig : List Int → Prop
  | [] => True
  | a :: l => PrefixClosed a l ∧ Contig l

theorem contig_of_contigLabels : ∀ (L : List Int), ContigLabels L → Contig L
  | [], _ => trivial
  | a :: l, h => by
    refine ⟨?_, contig_of_contigLabels l ?_⟩
    · show ∀ j : Nat, l[j]? = some a → ∀ j' : Nat, j' < j → l[j']? = some a
      intro j hj j' hj'
      have := h 0 (j' + 1) (j + 1) (by omega) (by omega) a (by simp) (by simpa using hj)
      simpa using this
    · intro i j k hij hjk v hi hk
      have := h (i + 1) (j + 1) (k + 1) (by omega) (by omega) v (by simpa using hi) (by simpa using hk)
      simpa using this

/-- a sorted label array (the documented precondition) has contiguous labels -/
theorem contigLabels_of_sorted (L : List Int) (hs : L.Pairwise (· ≤ ·)) : ContigLabels L := by
  intro i j k hij hjk v hi hk
  have hk' : k < L.length := (List.getElem?_eq_some_iff.mp hk).1
  have hj' : j < L.length := by omega
  have hi' : i < L.length := by omega
  have e1 : L[i] = v := (List.getElem?_eq_some_iff.mp hi).2
  have e3 : L[k] = v := (List.getElem?_eq_some_iff.mp hk).2
  have a1 : L[i] ≤ L[j] := List.pairwise_iff_getElem.mp hs i j hi' hj' hij
  have a2 : L[j] ≤ L[k] := List.pairwise_iff_getElem.mp hs j k hj' hk' hjk
  rw [List.getElem?_eq_getElem hj']
  congr 1
  omega

theorem prefixClosed_count (a : Int) : ∀ (l : List Int), PrefixClosed a l → ∀ i (hi : i < l.length),
    (i < l.count a ↔ l[i] = a)
  | [], _, i, hi => by simp at hi
  | b :: l, h, i, hi => by
    by_cases hb : b = a
    · subst hb
      have h' : PrefixClosed b l := by
        show ∀ j : Nat, l[j]? = some b → ∀ j' : Nat, j' < j → l[j']? = some b
        intro j hj j' hj'
        have := h (j + 1) (by simpa using hj) (j' + 1) (by omega)
        simpa using this
      cases i with
      | zero => simp
      | succ i' =>
        have := prefixClosed_count b l h' i' (by simpa using hi)
        simp only [List.count_cons_self, List.getElem_cons_succ]
        omega
    · have hnot : a ∉ l := by
        intro hmem
        obtain ⟨j, hj, hje⟩ := List.mem_iff_getElem.mp hmem
        have h0 : ∀ j : Nat, (b :: l)[j]? = some a → ∀ j' : Nat, j' < j → (b :: l)[j']? = some a := h
        have := h0 (j + 1) (by simp [hje, List.getElem?_eq_getElem hj]) 0 (by omega)
        simp at this
        exact hb this
      have hc : (b :: l).count a = 0 := by
        rw [List.count_cons, List.count_eq_zero_of_not_mem hnot]
        simp [hb]
      rw [hc]
      constructor
      · intro h0; omega
      · intro he
        cases i with
        | zero => exact absurd (by simpa using he) hb
        | succ i' =>
          exfalso
          apply hnot
          have hi' : i' < l.length := by simpa using hi
          have : l[i'] = a := by simpa using he
          rw [← this]
          exact List.getElem_mem hi'

/-- on a label array with contiguous labels the occurrences of `v` are exactly the cells
    `[idxOf v, idxOf v + count v)` — the run that the `numpy.unique` loop writes for `v` -/
theorem contig_run : ∀ (L : List Int), Contig L → ∀ (v : Int) (i : Nat) (hi : i < L.length),
    ((L.idxOf v ≤ i ∧ i < L.idxOf v + L.count v) ↔ L[i] = v)
  | [], _, _, i, hi => by simp at hi
  | a :: l, hc, v, i, hi => by
    by_cases hav : a = v
    · subst hav
      have hidx : (a :: l).idxOf a = 0 := List.idxOf_cons_self
      rw [hidx, List.count_cons_self]
      cases i with
      | zero => simp
      | succ i' =>
        have := prefixClosed_count a l hc.1 i' (by simpa using hi)
        simp only [List.getElem_cons_succ]
        omega
    · have hidx : (a :: l).idxOf v = l.idxOf v + 1 := List.idxOf_cons_ne l hav
      have hcnt : (a :: l).count v = l.count v := by
        rw [List.count_cons]; simp [hav]
      rw [hidx, hcnt]
      cases i with
      | zero =>
        simp only [List.getElem_cons_zero]
        constructor
        · intro h; omega
        · intro h; exact absurd h hav
      | succ i' =>
        have := contig_run l hc.2 v i' (by simpa using hi)
        simp only [List.getElem_cons_succ]
        omega

theorem getElem_idxOf_of_mem {L : List Int} {v : Int} (h : v ∈ L) :
    ∃ (hlt : L.idxOf v < L.length), L[L.idxOf v] = v := by
  have hlt : L.idxOf v < L.length := List.idxOf_lt_length_of_mem h
  exact ⟨hlt, List.getElem_idxOf hlt⟩

theorem ne_of_lt_idxOf {L : List Int} {v : Int} {j : Nat} (hj : j < L.idxOf v) (hjl : j < L.length) :
    L[j] ≠ v := by
  induction L generalizing j with
  | nil => simp at hjl
  | cons a l ih =>
    by_cases hav : a = v
    · subst hav; rw [List.idxOf_cons_self] at hj; omega
    · have hidx : (a :: l).idxOf v = l.idxOf v + 1 := List.idxOf_cons_ne l hav
      cases j with
      | zero => simpa using hav
      | succ j' =>
        simp only [List.getElem_cons_succ]
        exact ih (by omega) (by simpa using hjl)

/-! ### the distinct values -/

theorem mem_dedupAdj (v : Int) : ∀ l : List Int, v ∈ dedupAdj l ↔ v ∈ l
  | [] => by simp [dedupAdj]
  | [a] => by simp [dedupAdj]
  | a :: b :: l => by
    have ih := mem_dedupAdj v (b :: l)
    unfold dedupAdj
    split
    · rename_i hab
      rw [ih]; subst hab; simp
    · simp only [List.mem_cons] at ih ⊢
      rw [ih]

theorem mem_uniqueIC {L : List Int} {r : Int × Nat × Nat} :
    r ∈ uniqueIC L ↔ ∃ v ∈ L, r = (v, L.idxOf v, L.count v) := by
  unfold uniqueIC
  simp only [List.mem_map, mem_dedupAdj, (stableSort_perm _ L).mem_iff]
  constructor
  · rintro ⟨v, hv, rfl⟩; exact ⟨v, hv, rfl⟩
  · rintro ⟨v, hv, rfl⟩; exact ⟨v, hv, rfl⟩

/-! ### the loop -/
section loop
variable {α : Type} [Sub α] [LT α] [DecidableLT α] [OfNat α 0]

/-- the run `r = (label, start, count)` writes cell `i` -/
def Touches (r : Int × Nat × Nat) (i : Nat) : Prop := i = r.2.1 ∨ (r.2.1 < i ∧ i < r.2.1 + r.2.2)

instance (r : Int × Nat × Nat) (i : Nat) : Decidable (Touches r i) := by unfold Touches; infer_instance

/-- the value the run writes into cell `i` -/
def wval (z : List (Int × Option α)) (r : Int × Nat × Nat) (i : Nat) : Option (GDist α) :=
  if i = r.2.1 then some GDist.inf else diffAt z i

theorem writeRun_length (z : List (Int × Option α)) (out : List (Option (GDist α))) (st sp : Nat) :
    (writeRun z out st sp).length = out.length := by
  simp [writeRun]

theorem writeRun_getElem? (z : List (Int × Option α)) (out : List (Option (GDist α)))
    (r : Int × Nat × Nat) (i : Nat) :
    (writeRun z out r.2.1 (r.2.1 + r.2.2))[i]? =
      (out[i]?).map fun o => if Touches r i then wval z r i else o := by
  unfold writeRun
  rw [List.getElem?_map, List.getElem?_zipIdx]
  cases out[i]? with
  | none => rfl
  | some o =>
    simp only [Option.map_some, zero_add, Touches, wval]
    by_cases h1 : i = r.2.1
    · simp [h1]
    · by_cases h2 : r.2.1 < i ∧ i < r.2.1 + r.2.2
      · simp [h1, h2]
      · simp [h1, h2]

abbrev stepRun (z : List (Int × Option α)) (out : List (Option (GDist α))) (r : Int × Nat × Nat) :=
  writeRun z out r.2.1 (r.2.1 + r.2.2)

theorem foldl_length (z : List (Int × Option α)) : ∀ (R : List (Int × Nat × Nat))
    (init : List (Option (GDist α))), (R.foldl (stepRun z) init).length = init.length
  | [], _ => rfl
  | r :: R, init => by
    simp only [List.foldl_cons]
    rw [foldl_length z R, writeRun_length]

theorem foldl_untouched (z : List (Int × Option α)) (i : Nat) : ∀ (R : List (Int × Nat × Nat))
    (init : List (Option (GDist α))), (∀ r ∈ R, ¬ Touches r i) → (R.foldl (stepRun z) init)[i]? = init[i]?
  | [], _, _ => rfl
  | r :: R, init, h => by
    simp only [List.foldl_cons]
    rw [foldl_untouched z i R _ (fun r' hr' => h r' (List.mem_cons_of_mem _ hr')), writeRun_getElem?]
    have := h r (by simp)
    cases init[i]? <;> simp [this]

/-- if every run that writes cell `i` writes the same value `w`, and some run does, the cell ends as `w` -/
theorem foldl_touched (z : List (Int × Option α)) (i : Nat) (w : Option (GDist α)) :
    ∀ (R : List (Int × Nat × Nat)) (init : List (Option (GDist α))), i < init.length →
      (∀ r ∈ R, Touches r i → wval z r i = w) → (∃ r ∈ R, Touches r i) →
      (R.foldl (stepRun z) init)[i]? = some w
  | [], _, _, _, ⟨r, hr, _⟩ => by simp at hr
  | r :: R, init, hi, hall, hex => by
    simp only [List.foldl_cons]
    by_cases hR : ∃ r' ∈ R, Touches r' i
    · exact foldl_touched z i w R _ (by rw [writeRun_length]; exact hi)
        (fun r' hr' => hall r' (List.mem_cons_of_mem _ hr')) hR
    · have hno : ∀ r' ∈ R, ¬ Touches r' i := fun r' hr' ht => hR ⟨r', hr', ht⟩
      have hr : Touches r i := by
        obtain ⟨r', hr', ht⟩ := hex
        rcases List.mem_cons.mp hr' with rfl | hr''
        · exact ht
        · exact absurd ht (hno r' hr'')
      rw [foldl_untouched z i R _ hno, writeRun_getElem?, List.getElem?_eq_getElem hi]
      simp [hr, hall r (by simp) hr]

/-- a run of the `numpy.unique` table that writes cell `i` is the run of the label at `i` -/
theorem label_of_touch {L : List Int} (hc : Contig L) {r : Int × Nat × Nat} (hr : r ∈ uniqueIC L)
    {i : Nat} (hi : i < L.length) (ht : Touches r i) :
    L[i] = r.1 ∧ r.2.1 = L.idxOf r.1 ∧ r.2.2 = L.count r.1 := by
  obtain ⟨v', hv', rfl⟩ := mem_uniqueIC.mp hr
  obtain ⟨hlt, hget⟩ := getElem_idxOf_of_mem hv'
  refine ⟨?_, rfl, rfl⟩
  rcases ht with h | h
  · simp only at h; subst h; exact hget
  · simp only at h
    exact (contig_run L hc v' i hi).mp ⟨by omega, h.2⟩

/-- **the loop equals the closed form** on label arrays with contiguous labels -/
theorem gdist1gLit_eq_of_contig (z : List (Int × Option α)) (hc : Contig (z.map Prod.fst)) :
    (uniqueIC (z.map Prod.fst)).foldl (stepRun z) (List.replicate z.length none) =
      (gdist1From none z).map some := by
  apply List.ext_getElem?
  intro i
  by_cases hi : i < z.length
  · have hiL : i < (z.map Prod.fst).length := by simp [hi]
    have hLget : ∀ (j : Nat) (hj : j < z.length), (z.map Prod.fst)[j]'(by simp [hj]) = z[j].1 := by
      intro j hj; simp
    -- the run of the label at i touches i
    have hex : ∃ r ∈ uniqueIC (z.map Prod.fst), Touches r i := by
      refine ⟨((z.map Prod.fst)[i], (z.map Prod.fst).idxOf (z.map Prod.fst)[i],
        (z.map Prod.fst).count (z.map Prod.fst)[i]), mem_uniqueIC.mpr ⟨_, List.getElem_mem hiL, rfl⟩, ?_⟩
      have := (contig_run _ hc (z.map Prod.fst)[i] i hiL).mpr rfl
      unfold Touches
      simp only
      omega
    cases i with
    | zero =>
      have hclosed : ((gdist1From none z).map some)[0]? = some (some GDist.inf) := by
        rw [List.getElem?_map, gdist1From_zero, List.getElem?_eq_getElem hi]; rfl
      rw [hclosed]
      refine foldl_touched z 0 _ _ _ (by simp [hi]) ?_ hex
      intro r hr ht
      obtain ⟨hlab, hst, -⟩ := label_of_touch hc hr hiL ht
      have := (contig_run _ hc r.1 0 hiL).mpr hlab
      unfold wval
      rw [if_pos (by omega)]
    | succ j =>
      have hj : j < z.length := by omega
      have hjL : j < (z.map Prod.fst).length := by simp [hj]
      have hclosed : ((gdist1From none z).map some)[j + 1]? = some (some (seqDist (some z[j]) z[j + 1])) := by
        rw [List.getElem?_map, gdist1From_succ, List.getElem?_eq_getElem hi, List.getElem?_eq_getElem hj]
        rfl
      rw [hclosed]
      refine foldl_touched z (j + 1) _ _ _ (by simp [hi]) ?_ hex
      intro r hr ht
      obtain ⟨hlab, hst, hcnt⟩ := label_of_touch hc hr hiL ht
      have hrun := (contig_run _ hc r.1 (j + 1) hiL).mpr hlab
      unfold wval
      by_cases hs : j + 1 = r.2.1
      · rw [if_pos hs]
        have hne : (z.map Prod.fst)[j] ≠ r.1 := ne_of_lt_idxOf (by omega) hjL
        rw [hLget j hj] at hne
        rw [hLget (j + 1) hi] at hlab
        rw [seqDist_of_ne' (by rw [hlab]; exact hne)]
      · rw [if_neg hs]
        have hjv : (z.map Prod.fst)[j] = r.1 := (contig_run _ hc r.1 j hjL).mp ⟨by omega, by omega⟩
        rw [hLget j hj] at hjv
        rw [hLget (j + 1) hi] at hlab
        unfold diffAt
        simp only [Nat.add_sub_cancel]
        rw [List.getElem?_eq_getElem hi, List.getElem?_eq_getElem hj]
        simp only
        rw [seqDist_of_eq' (by rw [hjv, hlab])]
  · have h1 : ((uniqueIC (z.map Prod.fst)).foldl (stepRun z) (List.replicate z.length none)).length ≤ i := by
      rw [foldl_length]; simp; omega
    have h2 : ((gdist1From none z).map some).length ≤ i := by
      simp [gdist1From_length]; omega
    rw [List.getElem?_eq_none h1, List.getElem?_eq_none h2]

end loop
end GMap
